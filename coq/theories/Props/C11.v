(** C11 — seeded runs are reproducible and independent of logging and process history.
    Property theorems only (model: Api/ApiModel.v, proofs: Api/ApiProofs.v, concrete instances: Api/ApiInst.v).

    A run is a fold of an event script over (store of State objects, positions of the three generators, registers, log).
    The facts about a single `State` object enter as the record [state_interface] (to be discharged by the cache theorems
    of C01; proved for the concrete memo table [Memo] in ApiInst.v). *)
From Coq Require Import List Arith Bool ZArith.
From Leaspy Require Import Api.ApiModel Api.ApiProofs Api.ApiInst.
Import ListNotations.

(** For EVERY observer schedule — any lists of read-only scripts (reads, saves, clones and anything on the clones; no
    assignment to the model's state, no draw, no re-seeding) attached to any iterations — and every iteration script, seed,
    initialisation and finalisation: if the logged fit finishes, so does the fit without observers, and every read of every
    state, the model's state pointer, the three generator positions, the registers and the operation log coincide. *)
Theorem C11_logging_transparent :
  forall (V : Type) sread swrite sclone tracked tape seed_pos anc indep simOn,
    state_interface V sread swrite sclone anc indep simOn ->
    forall (base seed : nat) (init : list (ev V)) (iters : list (list (ev V))) (fin : list (ev V))
           (sched : nat -> list (list (ev V))) (c c1 : cfg V),
      wf_cfg V simOn c ->
      (forall i o, In o (sched i) -> read_only V o = true) ->
      fit_run V sread swrite sclone tracked tape seed_pos base seed init iters fin sched c = Some c1 ->
      exists c2,
        fit_run V sread swrite sclone tracked tape seed_pos base seed init iters fin (no_observers V) c = Some c2
        /\ same_results V sread c1 c2.
Proof. intros ? ? ? ? ? ? ? ? ? ? I. destruct I. eapply logging_transparent; eauto. Qed.
Print Assumptions C11_logging_transparent.

(** Non-vacuity: on the memo table an observer does mutate the model's State object (it fills the derived slot), the
    hypotheses hold, the logged run finishes and equals the plain one; an observer that draws is refused by [read_only]
    and does change the outcome. *)
Theorem C11_logging_transparent_example :
  state_interface Memo.V Memo.sread Memo.swrite Memo.sclone Memo.anc Memo.indep Memo.simOn
  /\ wf_cfg Memo.V Memo.simOn Memo.c0
  /\ (option_map (fun c => cS c) (run_obs Memo.V Memo.sread Memo.swrite Memo.sclone Memo.tracked Memo.tape Memo.seed_pos Memo.obs1 Memo.c0)
      = Some [[Some 1; Some 10; Some 11]]%Z /\ read_only Memo.V Memo.obs1 = true)
  /\ (Memo.final_view (Memo.fit_run 1 3 [] [Memo.iter1; Memo.iter1; Memo.iter1] Memo.fin1 Memo.sched1 Memo.c0)
      = Memo.final_view (Memo.fit_run 1 3 [] [Memo.iter1; Memo.iter1; Memo.iter1] Memo.fin1 (no_observers Memo.V) Memo.c0)
      /\ Memo.final_view (Memo.fit_run 1 3 [] [Memo.iter1; Memo.iter1; Memo.iter1] Memo.fin1 Memo.sched1 Memo.c0) <> None).
Proof. exact (conj Memo.interface (conj Memo.wf_c0 (conj Memo.observers_fill_the_cache Memo.logged_equals_plain))). Qed.
Print Assumptions C11_logging_transparent_example.

(** The condition is needed: a logging hook that draws a random number changes the outcome in the model. *)
Theorem C11_drawing_observer_refuted :
  let bad := [EDraw GTorch (fun _ : regs Memo.V => true)] in
  read_only Memo.V bad = false /\
  Memo.final_view (Memo.fit_run 1 3 [] [Memo.iter1; Memo.iter1] Memo.fin1 (fun _ => [bad]) Memo.c0)
  <> Memo.final_view (Memo.fit_run 1 3 [] [Memo.iter1; Memo.iter1] Memo.fin1 (no_observers Memo.V) Memo.c0).
Proof. exact Memo.drawing_observer_is_visible. Qed.
Print Assumptions C11_drawing_observer_refuted.

(** The run is a function of the seed, not of the generator positions before it: whatever the three positions were
    (whatever was drawn or fitted earlier in the process), the outcome — logged or not — is literally the same. *)
Theorem C11_reseed :
  forall (V : Type) sread swrite sclone tracked tape seed_pos
         (base seed : nat) (init : list (ev V)) (iters : list (list (ev V))) (fin : list (ev V))
         (sched : nat -> list (list (ev V))) (c : cfg V) (p' : gpos),
    fit_run V sread swrite sclone tracked tape seed_pos base seed init iters fin sched c
    = fit_run V sread swrite sclone tracked tape seed_pos base seed init iters fin sched
              (Cfg (cS c) (cCur c) p' (cRegs c) (cLog c)).
Proof. exact reseed. Qed.
Print Assumptions C11_reseed.

(** Same for any other public call (personalize, simulate): `seed_all s ++ script`. *)
Theorem C11_reseed_call :
  forall (V : Type) sread swrite sclone tracked tape seed_pos (base seed : nat) (script : list (ev V)) (c : cfg V) (p' : gpos),
    exec V sread swrite sclone tracked tape seed_pos base (seed_all V seed ++ script) c
    = exec V sread swrite sclone tracked tape seed_pos base (seed_all V seed ++ script)
           (Cfg (cS c) (cCur c) p' (cRegs c) (cLog c)).
Proof. exact reseed_call. Qed.
Print Assumptions C11_reseed_call.

(** The algorithm mutates its own deep copy of the parameters: whatever it writes (top-level keys such as
    `n_burn_in_iter`, nested ones such as `annealing.n_iter`), the caller's settings dictionary — nested dictionaries
    resolved — is unchanged. *)
Theorem C11_settings_copied :
  forall (h : heap) (a : nat) (ws : list pwrite),
    caller_ok h a ->
    view_dict (do_writes (snd (deep_copy h a)) (fst (deep_copy h a)) ws) a = view_dict h a.
Proof. exact settings_copied. Qed.
Print Assumptions C11_settings_copied.

(** Without the copy, or with a one-level copy (`dict(parameters)`), the caller's settings do change. *)
Theorem C11_settings_alias_refuted :
  view_dict (do_writes (snd (alias demo_heap 0)) (fst (alias demo_heap 0)) [WTop 0 5%Z]) 0 <> view_dict demo_heap 0
  /\ view_dict (do_writes (snd (shallow_copy demo_heap 0)) (fst (shallow_copy demo_heap 0)) [WSub 1 0 5%Z]) 0
     <> view_dict demo_heap 0.
Proof. exact (conj alias_refuted shallow_copy_refuted). Qed.
Print Assumptions C11_settings_alias_refuted.

(* ====================================================================== on the REAL State model (Compose/)
   The hypothesis [state_interface] of C11_logging_transparent is discharged: the store cell of Api/ApiModel.v is instantiated
   with the `_values` dictionary of a State object of State/StateModel.v ([abs]), its operations with State.__getitem__ /
   __setitem__ / clone of the model of the code as it is ([r_read] / [r_write] / [r_clone] = [get_state] / [set_now] /
   [clone_state], C11_cell_is_state_object), and the ten interface facts are PROVED from the C01 lemmas for every graph with
   [WF g] (C15 delivers [WF] for every input graph).  "The configuration is well-formed" becomes "its cells are State
   objects of a store reachable from [init_store] by any history meeting the documented precondition of partial reverts"
   ([RealCfg c] := exists S ix, [Reach S] /\ [RepI S ix (cS c)]; [Reach] is the hypothesis of C01_never_stale).
   [F_mix g sm] (C07's locality; C02_F_mix_entrywise) is only used because that PAST history may contain partial reverts. *)
From Leaspy Require Import State.StateModel State.StateNow Compose.StateApi Compose.StateApiProofs Compose.StateApiRunProofs
                           Compose.ApiOnStateProofs Compose.ComposeExamples State.StateExec.

(** The interface every C11 / C13 theorem assumes holds of the real State model, for every well-formed graph. *)
Theorem C11_state_interface_discharged :
  forall (V : Type) (g : graph V), WF g ->
    state_interface V (r_read V g) (r_write V g) (r_clone V g) (r_anc V g) (r_indep V g) (r_simOn V g).
Proof. exact real_state_interface. Qed.
Print Assumptions C11_state_interface_discharged.

(** An API store cell IS a State object seen through its `_values`: the three operations commute with [abs], whatever the
    undo log and the fork mode of the object. *)
Theorem C11_cell_is_state_object :
  forall (V : Type) (g : graph V) (s : state V), Bounded g (values s) ->
    (forall i, r_read V g (abs V g s) i = (abs V g (fst (get_state g s i)), out_opt V (snd (get_state g s i)))) /\
    (forall i o, r_write V g (abs V g s) i o = abs V g (fst (set_now g s i o))) /\
    (forall d kp, r_clone V g (abs V g s) = abs V g (clone_state s d kp)).
Proof. exact cell_is_state_object. Qed.
Print Assumptions C11_cell_is_state_object.

(** Every State object of every reachable store is a consistent cache (C01 invariant + hyper-parameters in place). *)
Theorem C11_reachable_states_consistent :
  forall (V M IX : Type) (g : graph V) (sm : sem V M IX), WF g -> F_mix g sm ->
  forall (S : StateModel.store V) (k : nat) (s : state V),
    Reach V g M IX sm S -> nth_error S k = Some s ->
    Good g s /\ Cache V g (abs V g s) /\ r_simOn V g top (abs V g s) (abs V g s).
Proof. exact reach_cache. Qed.
Print Assumptions C11_reachable_states_consistent.

(** Logging is transparent on the real State model: no interface hypothesis left.  Both outcomes again consist of
    reachable State objects. *)
Theorem C11_logging_transparent_state :
  forall (V M IX : Type) (g : graph V) (sm : sem V M IX), WF g -> F_mix g sm ->
  forall tracked tape seed_pos (base seed : nat) (init : list (ev V)) (iters : list (list (ev V))) (fin : list (ev V))
         (sched : nat -> list (list (ev V))) (c c1 : cfg V),
    RealCfg V M IX g sm c ->
    (forall i o, In o (sched i) -> read_only V o = true) ->
    fit_run V (r_read V g) (r_write V g) (r_clone V g) tracked tape seed_pos base seed init iters fin sched c = Some c1 ->
    exists c2,
      fit_run V (r_read V g) (r_write V g) (r_clone V g) tracked tape seed_pos base seed init iters fin (no_observers V) c = Some c2
      /\ same_results V (r_read V g) c1 c2 /\ RealCfg V M IX g sm c1 /\ RealCfg V M IX g sm c2.
Proof. exact logging_transparent_state. Qed.
Print Assumptions C11_logging_transparent_state.

(** A whole fit (logged or not) on the API model IS one history of State-model operations — without any partial revert —
    on the store of State objects, and the API store keeps representing that store (the clones observers made stay behind
    as unreachable objects). *)
Theorem C11_fit_is_state_history :
  forall (V M IX : Type) (g : graph V) (sm : sem V M IX), WF g -> F_mix g sm ->
  forall tracked tape seed_pos (d : bool) (base seed : nat) init iters fin sched (c c' : cfg V) (S : StateModel.store V) (ix : list nat),
    RepI V g S ix (cS c) -> StateProofs.AllGood V g S ->
    fit_run V (r_read V g) (r_write V g) (r_clone V g) tracked tape seed_pos base seed init iters fin sched c = Some c' ->
    exists ops ix', forallb (@no_partial_revert V M IX) ops = true /\
      RepI V g (fst (run_now g sm S ops)) ix' (cS c') /\ (exists new, ix' = ix ++ new).
Proof. exact fit_run_refines. Qed.
Print Assumptions C11_fit_is_state_history.

(** Non-vacuity on a 7-node graph (hyper-parameter, parameter, population variable, individual variable, three derived
    nodes) after a 14-operation past with a partial revert and a clone: hypotheses hold; an observer refills the cache an
    assignment emptied (None -> 116); the logged fit finishes and equals the plain one. *)
Theorem C11_state_example :
  WF Demo.g /\ F_mix Demo.g Demo.sm /\ RealCfg xval (list bool) nat Demo.g Demo.sm Demo.c0 /\
  (forall i o, In o (Demo.sched1 i) -> read_only xval o = true) /\
  (Demo.final_view (Demo.a_fit_run 2 3 [] [Demo.iter1; Demo.iter1; Demo.iter1] Demo.fin1 Demo.sched1 Demo.c0)
   = Demo.final_view (Demo.a_fit_run 2 3 [] [Demo.iter1; Demo.iter1; Demo.iter1] Demo.fin1 (no_observers xval) Demo.c0)
   /\ Demo.final_view (Demo.a_fit_run 2 3 [] [Demo.iter1; Demo.iter1; Demo.iter1] Demo.fin1 Demo.sched1 Demo.c0) <> None).
Proof. exact (conj Demo.g_wf (conj Demo.g_fmix (conj Demo.c0_real (conj Demo.observers_are_read_only Demo.logged_equals_plain)))). Qed.
Print Assumptions C11_state_example.
