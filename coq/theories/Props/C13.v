(** C13 — estimate, personalize and simulate leave the model and caller inputs untouched.
    Property theorems only (model: Api/ApiModel.v, proofs: Api/ApiProofs.v, concrete instances: Api/ApiInst.v).

    A model object is (State `s`, generator positions `p`); a public call is `api_call script s p`: the script runs on a store
    whose only cell is the model's state (nothing else is reachable from the model), with empty registers.  The outcome is
    the final configuration: `model_state` (what `model.state` points to), `cRegs` (everything the call read or drew — what
    it returns is a function of that), `cPos`.  Facts about one `State` object: the record [state_interface]. *)
From Coq Require Import List Arith Bool ZArith.
From Leaspy Require Import Api.ApiModel Api.ApiProofs Api.ApiInst.
Import ListNotations.

(** estimate (compute_individual_trajectory): the model's State OBJECT is exactly what it was — not even its cache moved —
    `model.state` still points to it, and no generator was consumed.  For all time points, individual parameters, states. *)
Theorem C13_estimate_pure :
  forall (V : Type) sread swrite sclone tracked tape seed_pos
         (tvar modelvar : nat) (tin : option V) (ips : list (nat * option V)) (s : st V) (p : gpos) (c' : cfg V),
    api_call V sread swrite sclone tracked tape seed_pos (estimate_script V tvar modelvar tin ips) s p = Some c' ->
    nth_error (cS c') 0 = Some s /\ cCur c' = 0 /\ cPos c' = p.
Proof. intros; eapply estimate_pure; eauto. Qed.
Print Assumptions C13_estimate_pure.

(** simulate, and any call that only READS the model's state (reads, saves, clones, anything on clones, draws): afterwards
    `model.state` is the same object and every variable — parameters, hyper-parameters, population variables included — reads
    exactly as before. *)
Theorem C13_simulate_pure :
  forall (V : Type) sread swrite sclone tracked tape seed_pos anc indep simOn,
    state_interface V sread swrite sclone anc indep simOn ->
    forall (script : list (ev V)) (s : st V) (p : gpos) (c' : cfg V),
      forallb (writes_in V (fun _ => false)) script = true ->
      simOn top s s ->
      api_call V sread swrite sclone tracked tape seed_pos script s p = Some c' ->
      exists s', model_state V c' = Some s' /\ simOn top s' s /\ forall n, snd (sread s' n) = snd (sread s n).
Proof. intros ? ? ? ? ? ? ? ? ? ? I. destruct I. intros. eapply reads_only_pure; eauto. Qed.
Print Assumptions C13_simulate_pure.

(** MCMC personalisation (mean_posterior / mode_posterior): the call assigns the data and the individual variables in the
    MODEL'S OWN state, then does anything (`body`) that assigns only data / individual variables there (samplers assign only
    their own variable), then `_terminate_algo`.  Afterwards `model.state` is a NEW state (cell 1) in which every variable
    of P — parameters, hyper-parameters, population variables: anything that is neither data nor individual — agrees with
    the state before the call, and every data and individual variable reads as unset. *)
Theorem C13_mcmc_clean :
  forall (V : Type) sread swrite sclone tracked tape seed_pos anc indep simOn,
    state_interface V sread swrite sclone anc indep simOn ->
    forall (P : view) (data : list (nat * option V)) (init_ind : list (nat * (regs V -> option V))) (body : list (ev V))
           (dvars ivars : list nat) (s : st V) (p : gpos) (c' : cfg V),
      simOn top s s ->
      (forall n, In n (dvars ++ ivars) -> P n = false /\ indep n = true) ->
      (forall nv, In nv data -> In (fst nv) (dvars ++ ivars)) ->
      (forall nf, In nf init_ind -> In (fst nf) (dvars ++ ivars)) ->
      forallb (fun e => writes_in V (mem (dvars ++ ivars)) e && noclone_ev V e) body = true ->
      api_call V sread swrite sclone tracked tape seed_pos (mcmc_script V data init_ind body dvars ivars) s p = Some c' ->
      exists sf, model_state V c' = Some sf /\ cCur c' = 1 /\ simOn P sf s /\
                 forall n, In n (dvars ++ ivars) -> snd (sread sf n) = None.
Proof. intros ? ? ? ? ? ? ? ? ? ? I. destruct I. intros. eapply mcmc_clean; eauto. Qed.
Print Assumptions C13_mcmc_clean.

(** scipy_minimize (one individual): the model's State object is exactly what it was and `model.state` points to it. *)
Theorem C13_scipy_state :
  forall (V : Type) sread swrite sclone tracked tape seed_pos
         (data : list (nat * option V)) (xi res : nat) (ivars : list nat) (opt : regs V -> option V)
         (s : st V) (p : gpos) (c' : cfg V),
    api_call V sread swrite sclone tracked tape seed_pos (scipy_script V data xi res ivars opt) s p = Some c' ->
    nth_error (cS c') 0 = Some s /\ cCur c' = 0.
Proof. intros; eapply scipy_state; eauto. Qed.
Print Assumptions C13_scipy_state.

(** History independence, general form: if every read of the script is determined by the kept variables of the model's
    state plus what the call itself assigned (the computable check [flow_all]), then on any two model states that agree on
    the kept variables — whatever data, individual values or cache earlier calls left in them — the call reads and draws the
    same values, performs the same operations, and leaves the generators and the pointer in the same place.
    (Both abort or both finish.) *)
Theorem C13_history_independent :
  forall (V : Type) sread swrite sclone tracked tape seed_pos anc indep simOn,
    state_interface V sread swrite sclone anc indep simOn ->
    forall (kept : view) (script : list (ev V)) (s s' : st V) (p : gpos),
      simOn kept s s' ->
      flow_all V anc 1 ([kept], 0) script <> None ->
      orel (same_outcome V) (api_call V sread swrite sclone tracked tape seed_pos script s p)
                            (api_call V sread swrite sclone tracked tape seed_pos script s' p).
Proof. intros ? ? ? ? ? ? ? ? ? ? I. destruct I. intros. eapply history_independent; eauto. Qed.
Print Assumptions C13_history_independent.

(** ... instantiated for estimate: provided the variable read has no independent ancestor other than kept variables, the
    time points and the individual parameters given (in particular none of the observations left in the state). *)
Theorem C13_history_independent_estimate :
  forall (V : Type) sread swrite sclone tracked tape seed_pos anc indep simOn,
    state_interface V sread swrite sclone anc indep simOn ->
    forall (kept : view) (tvar modelvar : nat) (tin : option V) (ips : list (nat * option V)) (s s' : st V) (p : gpos),
      simOn kept s s' ->
      forallb (vadds (map fst ips) (vadd tvar kept)) (anc modelvar) = true ->
      orel (same_outcome V)
           (api_call V sread swrite sclone tracked tape seed_pos (estimate_script V tvar modelvar tin ips) s p)
           (api_call V sread swrite sclone tracked tape seed_pos (estimate_script V tvar modelvar tin ips) s' p).
Proof. intros ? ? ? ? ? ? ? ? ? ? I. destruct I. intros. eapply estimate_history_independent; eauto. Qed.
Print Assumptions C13_history_independent_estimate.

(** ... and for MCMC personalisation: once the call has assigned ALL data and individual variables (so that kept + assigned
    contains every independent variable: [closed]), nothing that follows — any sampler activity, the termination — depends on
    what the model's state held before. *)
Theorem C13_history_independent_mcmc :
  forall (V : Type) sread swrite sclone tracked tape seed_pos anc indep simOn,
    state_interface V sread swrite sclone anc indep simOn ->
    forall (kept : view) (data : list (nat * option V)) (init_ind : list (nat * (regs V -> option V))) (rest : list (ev V))
           (s s' : st V) (p : gpos),
      simOn kept s s' ->
      closed anc (vadds (map fst init_ind) (vadds (map fst data) kept)) ->
      orel (same_outcome V)
           (api_call V sread swrite sclone tracked tape seed_pos
                     (map (fun nv => ESet Cur (fst nv) (konst V (snd nv))) data
                          ++ map (fun nf => ESet Cur (fst nf) (snd nf)) init_ind ++ rest) s p)
           (api_call V sread swrite sclone tracked tape seed_pos
                     (map (fun nv => ESet Cur (fst nv) (konst V (snd nv))) data
                          ++ map (fun nf => ESet Cur (fst nf) (snd nf)) init_ind ++ rest) s' p).
Proof. intros ? ? ? ? ? ? ? ? ? ? I. destruct I. intros. eapply mcmc_history_independent; eauto. Qed.
Print Assumptions C13_history_independent_mcmc.

(** REFUTED for scipy_minimize in the faithful model: the start point is whatever individual value the model's state holds
    (after a fit: the first training individual) and prior samples are drawn only if it holds none.  Two states that agree
    on the kept variable give different results; the flow check rejects the script; the state left by a fit returns its own
    stale value 5 as start point. *)
Theorem C13_scipy_start_refuted :
  Memo.simOn Memo.kept Memo.after_fit Memo.after_load
  /\ option_map (fun c => cRegs c) (Memo.api_call Memo.scipy Memo.after_fit (0, 0, 0))
     <> option_map (fun c => cRegs c) (Memo.api_call Memo.scipy Memo.after_load (0, 0, 0))
  /\ flow_all Memo.V Memo.anc 1 ([Memo.kept], 0) Memo.scipy = None
  /\ option_map (fun c => Memo.hd_or (cRegs c)) (Memo.api_call Memo.scipy Memo.after_fit (0, 0, 0)) = Some (Some 5%Z).
Proof. exact Memo.scipy_start_refuted. Qed.
Print Assumptions C13_scipy_start_refuted.

(** Non-vacuity on the memo table: the interface holds; estimate returns a + t and leaves the state object untouched; an MCMC
    personalisation leaves cell 1 with the parameter kept and the individual variable unset; after such a cleaning
    scipy_minimize agrees with the loaded model. *)
Theorem C13_examples :
  state_interface Memo.V Memo.sread Memo.swrite Memo.sclone Memo.anc Memo.indep Memo.simOn
  /\ (option_map (fun c => (cRegs c, nth_error (cS c) 0)) (Memo.api_call Memo.est Memo.after_fit (0, 0, 0))
      = Some ([Some 17%Z], Some Memo.after_fit)
      /\ forallb (vadds (map fst (@nil (nat * option Memo.V))) (vadd 0 Memo.kept)) (Memo.anc 2) = true)
  /\ option_map (fun c => (cCur c, option_map (fun s => (snd (Memo.sread s 0), snd (Memo.sread s 1))) (model_state Memo.V c)))
                (Memo.api_call Memo.mcmc Memo.after_fit (0, 0, 0)) = Some (1, Some (None, Some 10%Z))
  /\ option_map (fun c => cRegs c) (Memo.api_call Memo.scipy [None; Some 10%Z; Some 3%Z] (0, 0, 0))
     = option_map (fun c => cRegs c) (Memo.api_call Memo.scipy Memo.after_load (0, 0, 0)).
Proof. exact (conj Memo.interface (conj Memo.estimate_runs (conj Memo.mcmc_runs Memo.scipy_after_clean_agrees))). Qed.
Print Assumptions C13_examples.
