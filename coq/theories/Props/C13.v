(** C13 — estimate, personalize and simulate leave the model and caller inputs untouched.
    Property theorems only (model: Api/ApiModel.v, proofs: Api/ApiProofs.v, concrete instances: Api/ApiInst.v).

    A model object is (State `s`, generator positions `p`); a public call is `api_call script s p`: the script runs on a store
    whose only cell is the model's state (nothing else is reachable from the model), with empty registers.  The outcome is
    the final configuration: `model_state` (what `model.state` points to), `cRegs` (everything the call read or drew — what
    it returns is a function of that), `cPos`.  Facts about one `State` object: the record [state_interface]. *)
From Coq Require Import List Arith Bool ZArith.
From Leaspy Require Import Api.ApiModel Api.ApiProofs Api.ApiInst Api.ApiCalls Api.ApiCallsProofs Api.ApiCallsInst.
Import ListNotations.

(** estimate (compute_individual_trajectory): the model's State OBJECT is exactly what it was — not even its cache moved —
    `model.state` still points to it, and no generator was consumed.  For all time points, individual parameters, states. *)
Theorem C13_estimate_pure :
  forall (V : Type) sread swrite sclone tracked tape seed_pos
         (tvar modelvar : nat) (tin : option V) (ips : list (nat * option V)) (s : st V) (p : gpos) (c' : cfg V),
    api_call V sread swrite sclone tracked tape seed_pos (estimate_script V tvar modelvar tin ips) s p = Some c' ->
    nth_error (cS c') 0 = Some s /\ cCur c' = 0 /\ cPos c' = p.
Proof. intros; eapply estimate_pure; eauto. Qed.
Print Assumptions C13_estimate_pure.

(** simulate, and any call that only READS the model's state (reads, saves, clones, anything on clones, draws): afterwards
    `model.state` is the same object and every variable — parameters, hyper-parameters, population variables included — reads
    exactly as before. *)
Theorem C13_simulate_pure :
  forall (V : Type) sread swrite sclone tracked tape seed_pos anc indep simOn,
    state_interface V sread swrite sclone anc indep simOn ->
    forall (script : list (ev V)) (s : st V) (p : gpos) (c' : cfg V),
      forallb (writes_in V (fun _ => false)) script = true ->
      simOn top s s ->
      api_call V sread swrite sclone tracked tape seed_pos script s p = Some c' ->
      exists s', model_state V c' = Some s' /\ simOn top s' s /\ forall n, snd (sread s' n) = snd (sread s n).
Proof. intros ? ? ? ? ? ? ? ? ? ? I. destruct I. intros. eapply reads_only_pure; eauto. Qed.
Print Assumptions C13_simulate_pure.

(** MCMC personalisation (mean_posterior / mode_posterior): the call assigns the data and the individual variables in the
    MODEL'S OWN state, then does anything (`body`) that assigns only data / individual variables there (samplers assign only
    their own variable), then `_terminate_algo`.  Afterwards `model.state` is a NEW state (cell 1) in which every variable
    of P — parameters, hyper-parameters, population variables: anything that is neither data nor individual — agrees with
    the state before the call, and every data and individual variable reads as unset. *)
Theorem C13_mcmc_clean :
  forall (V : Type) sread swrite sclone tracked tape seed_pos anc indep simOn,
    state_interface V sread swrite sclone anc indep simOn ->
    forall (P : view) (data : list (nat * option V)) (init_ind : list (nat * (regs V -> option V))) (body : list (ev V))
           (dvars ivars : list nat) (s : st V) (p : gpos) (c' : cfg V),
      simOn top s s ->
      (forall n, In n (dvars ++ ivars) -> P n = false /\ indep n = true) ->
      (forall nv, In nv data -> In (fst nv) (dvars ++ ivars)) ->
      (forall nf, In nf init_ind -> In (fst nf) (dvars ++ ivars)) ->
      forallb (fun e => writes_in V (mem (dvars ++ ivars)) e && noclone_ev V e) body = true ->
      api_call V sread swrite sclone tracked tape seed_pos (mcmc_script V data init_ind body dvars ivars) s p = Some c' ->
      exists sf, model_state V c' = Some sf /\ cCur c' = 1 /\ simOn P sf s /\
                 forall n, In n (dvars ++ ivars) -> snd (sread sf n) = None.
Proof. intros ? ? ? ? ? ? ? ? ? ? I. destruct I. intros. eapply mcmc_clean; eauto. Qed.
Print Assumptions C13_mcmc_clean.

(** scipy_minimize (one individual): the model's State object is exactly what it was and `model.state` points to it. *)
Theorem C13_scipy_state :
  forall (V : Type) sread swrite sclone tracked tape seed_pos
         (data : list (nat * option V)) (xi res : nat) (ivars : list nat) (opt : regs V -> option V)
         (s : st V) (p : gpos) (c' : cfg V),
    api_call V sread swrite sclone tracked tape seed_pos (scipy_script V data xi res ivars opt) s p = Some c' ->
    nth_error (cS c') 0 = Some s /\ cCur c' = 0.
Proof. intros; eapply scipy_state; eauto. Qed.
Print Assumptions C13_scipy_state.

(** History independence, general form: if every read of the script is determined by the kept variables of the model's
    state plus what the call itself assigned (the computable check [flow_all]), then on any two model states that agree on
    the kept variables — whatever data, individual values or cache earlier calls left in them — the call reads and draws the
    same values, performs the same operations, and leaves the generators and the pointer in the same place.
    (Both abort or both finish.) *)
Theorem C13_history_independent :
  forall (V : Type) sread swrite sclone tracked tape seed_pos anc indep simOn,
    state_interface V sread swrite sclone anc indep simOn ->
    forall (kept : view) (script : list (ev V)) (s s' : st V) (p : gpos),
      simOn kept s s' ->
      flow_all V anc 1 ([kept], 0) script <> None ->
      orel (same_outcome V) (api_call V sread swrite sclone tracked tape seed_pos script s p)
                            (api_call V sread swrite sclone tracked tape seed_pos script s' p).
Proof. intros ? ? ? ? ? ? ? ? ? ? I. destruct I. intros. eapply history_independent; eauto. Qed.
Print Assumptions C13_history_independent.

(** ... instantiated for estimate: provided the variable read has no independent ancestor other than kept variables, the
    time points and the individual parameters given (in particular none of the observations left in the state). *)
Theorem C13_history_independent_estimate :
  forall (V : Type) sread swrite sclone tracked tape seed_pos anc indep simOn,
    state_interface V sread swrite sclone anc indep simOn ->
    forall (kept : view) (tvar modelvar : nat) (tin : option V) (ips : list (nat * option V)) (s s' : st V) (p : gpos),
      simOn kept s s' ->
      forallb (vadds (map fst ips) (vadd tvar kept)) (anc modelvar) = true ->
      orel (same_outcome V)
           (api_call V sread swrite sclone tracked tape seed_pos (estimate_script V tvar modelvar tin ips) s p)
           (api_call V sread swrite sclone tracked tape seed_pos (estimate_script V tvar modelvar tin ips) s' p).
Proof. intros ? ? ? ? ? ? ? ? ? ? I. destruct I. intros. eapply estimate_history_independent; eauto. Qed.
Print Assumptions C13_history_independent_estimate.

(** ... and for MCMC personalisation: once the call has assigned ALL data and individual variables (so that kept + assigned
    contains every independent variable: [closed]), nothing that follows — any sampler activity, the termination — depends on
    what the model's state held before. *)
Theorem C13_history_independent_mcmc :
  forall (V : Type) sread swrite sclone tracked tape seed_pos anc indep simOn,
    state_interface V sread swrite sclone anc indep simOn ->
    forall (kept : view) (data : list (nat * option V)) (init_ind : list (nat * (regs V -> option V))) (rest : list (ev V))
           (s s' : st V) (p : gpos),
      simOn kept s s' ->
      closed anc (vadds (map fst init_ind) (vadds (map fst data) kept)) ->
      orel (same_outcome V)
           (api_call V sread swrite sclone tracked tape seed_pos
                     (map (fun nv => ESet Cur (fst nv) (konst V (snd nv))) data
                          ++ map (fun nf => ESet Cur (fst nf) (snd nf)) init_ind ++ rest) s p)
           (api_call V sread swrite sclone tracked tape seed_pos
                     (map (fun nv => ESet Cur (fst nv) (konst V (snd nv))) data
                          ++ map (fun nf => ESet Cur (fst nf) (snd nf)) init_ind ++ rest) s' p).
Proof. intros ? ? ? ? ? ? ? ? ? ? I. destruct I. intros. eapply mcmc_history_independent; eauto. Qed.
Print Assumptions C13_history_independent_mcmc.

(** REFUTED for scipy_minimize in the faithful model: the start point is whatever individual value the model's state holds
    (after a fit: the first training individual) and prior samples are drawn only if it holds none.  Two states that agree
    on the kept variable give different results; the flow check rejects the script; the state left by a fit returns its own
    stale value 5 as start point. *)
Theorem C13_scipy_start_refuted :
  Memo.simOn Memo.kept Memo.after_fit Memo.after_load
  /\ option_map (fun c => cRegs c) (Memo.api_call Memo.scipy Memo.after_fit (0, 0, 0))
     <> option_map (fun c => cRegs c) (Memo.api_call Memo.scipy Memo.after_load (0, 0, 0))
  /\ flow_all Memo.V Memo.anc 1 ([Memo.kept], 0) Memo.scipy = None
  /\ option_map (fun c => Memo.hd_or (cRegs c)) (Memo.api_call Memo.scipy Memo.after_fit (0, 0, 0)) = Some (Some 5%Z).
Proof. exact Memo.scipy_start_refuted. Qed.
Print Assumptions C13_scipy_start_refuted.

(** Non-vacuity on the memo table: the interface holds; estimate returns a + t and leaves the state object untouched; an MCMC
    personalisation leaves cell 1 with the parameter kept and the individual variable unset; after such a cleaning
    scipy_minimize agrees with the loaded model. *)
Theorem C13_examples :
  state_interface Memo.V Memo.sread Memo.swrite Memo.sclone Memo.anc Memo.indep Memo.simOn
  /\ (option_map (fun c => (cRegs c, nth_error (cS c) 0)) (Memo.api_call Memo.est Memo.after_fit (0, 0, 0))
      = Some ([Some 17%Z], Some Memo.after_fit)
      /\ forallb (vadds (map fst (@nil (nat * option Memo.V))) (vadd 0 Memo.kept)) (Memo.anc 2) = true)
  /\ option_map (fun c => (cCur c, option_map (fun s => (snd (Memo.sread s 0), snd (Memo.sread s 1))) (model_state Memo.V c)))
                (Memo.api_call Memo.mcmc Memo.after_fit (0, 0, 0)) = Some (1, Some (None, Some 10%Z))
  /\ option_map (fun c => cRegs c) (Memo.api_call Memo.scipy [None; Some 10%Z; Some 3%Z] (0, 0, 0))
     = option_map (fun c => cRegs c) (Memo.api_call Memo.scipy Memo.after_load (0, 0, 0)).
Proof. exact (conj Memo.interface (conj Memo.estimate_runs (conj Memo.mcmc_runs Memo.scipy_after_clean_agrees))). Qed.
Print Assumptions C13_examples.

(* ====================================================================== the calls as they are really made (Api/ApiCalls.v) *)

(** Any call that only addresses clones (estimate for any number of individuals, the per-individual work of scipy_minimize,
    the trajectories of simulate): the model's State OBJECT is exactly what it was and `model.state` still points to it. *)
Theorem C13_clones_only_pure :
  forall (V : Type) sread swrite sclone tracked tape seed_pos (script : list (ev V)) (s : st V) (p : gpos) (c' : cfg V),
    forallb (untouched_ev V) script = true ->
    api_call V sread swrite sclone tracked tape seed_pos script s p = Some c' ->
    nth_error (cS c') 0 = Some s /\ cCur c' = 0.
Proof. intros; eapply clones_only_pure; eauto. Qed.
Print Assumptions C13_clones_only_pure.

(** `BaseModel.estimate` for any list of requests (one clone per individual): state object, pointer and generators untouched. *)
Theorem C13_estimate_many_pure :
  forall (V : Type) sread swrite sclone tracked tape seed_pos (tvar : nat) (outs : list nat) (reqs : list (ereq V))
         (s : st V) (p : gpos) (c' : cfg V),
    api_call V sread swrite sclone tracked tape seed_pos (estimate_many V 0 tvar outs reqs) s p = Some c' ->
    nth_error (cS c') 0 = Some s /\ cCur c' = 0 /\ cPos c' = p.
Proof. intros; eapply estimate_many_pure; eauto. Qed.
Print Assumptions C13_estimate_many_pure.

(** scipy_minimize as really called (seeds; reads of prior parameters on the model's state; any work on clones — any number
    of individuals, any optimiser activity): `model.state` is the same object and every variable reads as before. *)
Theorem C13_scipy_call_pure :
  forall (V : Type) sread swrite sclone tracked tape seed_pos anc indep simOn,
    state_interface V sread swrite sclone anc indep simOn ->
    forall (sd : nat) (scal : list nat) (work : list (ev V)) (s : st V) (p : gpos) (c' : cfg V),
      forallb (untouched_ev V) work = true -> simOn top s s ->
      api_call V sread swrite sclone tracked tape seed_pos (scipy_call V sd scal work) s p = Some c' ->
      exists s', model_state V c' = Some s' /\ cCur c' = 0 /\ simOn top s' s /\ forall n, snd (sread s' n) = snd (sread s n).
Proof. intros; eapply scipy_call_pure; eauto. Qed.
Print Assumptions C13_scipy_call_pure.

(** MCMC personalisation as really called: `pre` (seeds, data, initial values, any sampler activity assigning only data /
    individual variables on the model's own state), `_terminate_algo`, then anything on later clones.  Afterwards
    `model.state` is the cleaned clone: every variable of P agrees with the state before, every data and individual
    variable reads as unset. *)
Theorem C13_mcmc_call_clean :
  forall (V : Type) sread swrite sclone tracked tape seed_pos anc indep simOn,
    state_interface V sread swrite sclone anc indep simOn ->
    forall (P : view) (pre : list (ev V)) (dvars ivars : list nat) (tail : list (ev V)) (s : st V) (p : gpos) (c' : cfg V),
      simOn top s s ->
      (forall n, In n (dvars ++ ivars) -> P n = false /\ indep n = true) ->
      forallb (fun e => writes_in V (mem (dvars ++ ivars)) e && noclone_ev V e) pre = true ->
      forallb (clones_from V 1) tail = true ->
      api_call V sread swrite sclone tracked tape seed_pos (mcmc_call V pre dvars ivars tail) s p = Some c' ->
      exists sf, model_state V c' = Some sf /\ cCur c' = 1 /\ simOn P sf s /\
                 forall n, In n (dvars ++ ivars) -> snd (sread sf n) = None.
Proof. intros; eapply mcmc_call_clean; eauto. Qed.
Print Assumptions C13_mcmc_call_clean.

(** The result of a seeded call depends only on (kept variables of the model, inputs = the script, seed): two model objects
    that agree on the kept variables — whatever earlier calls, the fit included, left in them — at ANY two generator
    positions give the same outcome, provided the flow check accepts the script. *)
Theorem C13_seeded_call_function_of_seed :
  forall (V : Type) sread swrite sclone tracked tape seed_pos anc indep simOn,
    state_interface V sread swrite sclone anc indep simOn ->
    forall (kept : view) (sd : nat) (body : list (ev V)) (s s' : st V) (p p' : gpos),
      simOn kept s s' ->
      flow_all V anc 1 ([kept], 0) body <> None ->
      orel (same_outcome V) (api_call V sread swrite sclone tracked tape seed_pos (seeded V sd body) s p)
                            (api_call V sread swrite sclone tracked tape seed_pos (seeded V sd body) s' p').
Proof. intros; eapply seeded_call_function_of_seed; eauto. Qed.
Print Assumptions C13_seeded_call_function_of_seed.

(** A repeated call gives the same answer: run the call again on whatever state `s1` the first run left (it agrees with
    the former state on the kept variables — that is what the purity / cleaning theorems above provide) and from wherever
    the first run left the generators. *)
Theorem C13_repeated_call_same_answer :
  forall (V : Type) sread swrite sclone tracked tape seed_pos anc indep simOn,
    state_interface V sread swrite sclone anc indep simOn ->
    forall (kept : view) (sd : nat) (body : list (ev V)) (s s1 : st V) (p : gpos) (c1 : cfg V),
      simOn kept s1 s ->
      flow_all V anc 1 ([kept], 0) body <> None ->
      api_call V sread swrite sclone tracked tape seed_pos (seeded V sd body) s p = Some c1 ->
      orel (same_outcome V) (api_call V sread swrite sclone tracked tape seed_pos (seeded V sd body) s1 (cPos c1)) (Some c1).
Proof. intros; eapply repeated_call_same_answer; eauto. Qed.
Print Assumptions C13_repeated_call_same_answer.

(** End to end for MCMC personalisation (seeds, ALL data and individual variables assigned, any sampler body, termination,
    tail): the model is left clean AND calling again on the object as left gives the same outcome. *)
Theorem C13_mcmc_repeat_same_answer :
  forall (V : Type) sread swrite sclone tracked tape seed_pos anc indep simOn,
    state_interface V sread swrite sclone anc indep simOn ->
    forall (kept : view) (sd : nat) (data : list (nat * option V)) (init_ind : list (nat * (regs V -> option V)))
           (body : list (ev V)) (dvars ivars : list nat) (tail : list (ev V)) (s : st V) (p : gpos) (c1 : cfg V),
      simOn top s s ->
      (forall n, In n (dvars ++ ivars) -> kept n = false /\ indep n = true) ->
      (forall nv, In nv data -> In (fst nv) (dvars ++ ivars)) ->
      (forall nf, In nf init_ind -> In (fst nf) (dvars ++ ivars)) ->
      forallb (fun e => writes_in V (mem (dvars ++ ivars)) e && noclone_ev V e) body = true ->
      forallb (clones_from V 1) tail = true ->
      closed anc (vadds (map fst init_ind) (vadds (map fst data) kept)) ->
      api_call V sread swrite sclone tracked tape seed_pos (mcmc_full V sd data init_ind body dvars ivars tail) s p = Some c1 ->
      exists s1, model_state V c1 = Some s1 /\ cCur c1 = 1 /\ simOn kept s1 s
                 /\ (forall n, In n (dvars ++ ivars) -> snd (sread s1 n) = None)
                 /\ orel (same_outcome V)
                         (api_call V sread swrite sclone tracked tape seed_pos (mcmc_full V sd data init_ind body dvars ivars tail) s1 (cPos c1))
                         (Some c1).
Proof. intros; eapply mcmc_repeat_same_answer; eauto. Qed.
Print Assumptions C13_mcmc_repeat_same_answer.

(** The caller's settings: the algorithm writes (`n_burn_in_iter`, nested annealing keys, ...) into ITS deep copy; what the
    caller sees of the settings dictionary is unchanged, for every sequence of writes.  (Same lemma as C11_settings_copied:
    `algo_parameters = deepcopy(settings.parameters)`, algo/base.py:92.) *)
Theorem C13_settings_copied :
  forall (h : heap) (a : nat) (ws : list pwrite),
    caller_ok h a ->
    view_dict (do_writes (snd (deep_copy h a)) (fst (deep_copy h a)) ws) a = view_dict h a.
Proof. exact settings_copied. Qed.
Print Assumptions C13_settings_copied.

(** Without the copy, or with a one-level copy, the caller's settings do change. *)
Theorem C13_settings_alias_refuted :
  view_dict (do_writes (snd (alias demo_heap 0)) (fst (alias demo_heap 0)) [WTop 0 5%Z]) 0 <> view_dict demo_heap 0
  /\ view_dict (do_writes (snd (shallow_copy demo_heap 0)) (fst (shallow_copy demo_heap 0)) [WSub 1 0 5%Z]) 0
     <> view_dict demo_heap 0.
Proof. exact (conj alias_refuted shallow_copy_refuted). Qed.
Print Assumptions C13_settings_alias_refuted.

(** Non-vacuity of the call-level statements on the memo table (ApiInst.v). *)
Theorem C13_call_examples :
  (* estimate for two individuals: a + t for each, state object untouched *)
  option_map (fun c => (cRegs c, nth_error (cS c) 0, cCur c)) (Memo.api_call MemoCalls.est2 Memo.after_fit (4, 5, 6))
    = Some ([Some 18%Z; Some 17%Z], Some Memo.after_fit, 0)
  (* full MCMC call on the state left by a fit: cleaned clone is current, individual variable unset, parameter kept ... *)
  /\ option_map (fun c => (cCur c, option_map (fun s => (snd (Memo.sread s 0), snd (Memo.sread s 1))) (model_state Memo.V c)))
                (Memo.api_call MemoCalls.mcmc_full_script Memo.after_fit (4, 5, 6)) = Some (1, Some (None, Some 10%Z))
  (* ... all hypotheses of C13_mcmc_repeat_same_answer hold for it ... *)
  /\ MemoCalls.mcmc_full_hyps
  (* ... and the repeated call returns the same registers although it starts from another state and generator position *)
  /\ MemoCalls.mcmc_repeat_demo
  (* scipy_minimize as really called, on the state left by a fit: pointer and reads unchanged, yet the answer is the stale 5 *)
  /\ option_map (fun c => (cCur c, Memo.hd_or (cRegs c))) (Memo.api_call MemoCalls.scipy_full Memo.after_fit (0, 0, 0)) = Some (0, Some 5%Z).
Proof. exact MemoCalls.call_examples. Qed.
Print Assumptions C13_call_examples.

(* ====================================================================== on the REAL State model (Compose/)
   The hypothesis [state_interface] is discharged (C11_state_interface_discharged in Props/C11.v; repeated below as
   C13_state_interface_discharged): a cell is the `_values` of a State object of State/StateModel.v, [r_read] / [r_write] /
   [r_clone] are State.__getitem__ / __setitem__ / clone of the model of the code as it is.  The statements are about State
   objects: [S] is any store reachable from [init_store] ([Reach], the hypothesis of C01_never_stale), [s] its State number
   [k] (= `model.state`), the call runs on [abs s]; the conclusions are read off the State objects of the store the call leaves
   (again reachable).  Left in the statements: [WF g] (C15), [F_mix g sm] (C07; for the partial reverts of the past history
   only) and the script-shape conditions of the original theorems. *)
From Leaspy Require Import State.StateModel State.StateNow State.StateExec Compose.StateApi Compose.StateApiProofs
                           Compose.StateApiRunProofs Compose.ApiOnStateProofs Compose.ComposeExamples.

Theorem C13_state_interface_discharged :
  forall (V : Type) (g : graph V), WF g ->
    state_interface V (r_read V g) (r_write V g) (r_clone V g) (r_anc V g) (r_indep V g) (r_simOn V g).
Proof. exact real_state_interface. Qed.
Print Assumptions C13_state_interface_discharged.

(** estimate: in the store of State objects the call leaves — reached from the former one by State operations without any
    partial revert — the model's State OBJECT holds exactly the values it held (cache included), `model.state` still points
    to it and no generator moved. *)
Theorem C13_estimate_pure_state :
  forall (V M IX : Type) (g : graph V) (sm : sem V M IX), WF g -> F_mix g sm ->
  forall tracked tape seed_pos (tvar modelvar : nat) (tin : option V) (ips : list (nat * option V))
         (S : StateModel.store V) (k : nat) (s : state V) (p : gpos) (c' : cfg V),
    Reach V g M IX sm S -> nth_error S k = Some s ->
    api_call V (r_read V g) (r_write V g) (r_clone V g) tracked tape seed_pos (estimate_script V tvar modelvar tin ips) (abs V g s) p = Some c' ->
    cCur c' = 0 /\ cPos c' = p /\ nth_error (cS c') 0 = Some (abs V g s) /\
    exists ops s', forallb (@no_partial_revert V M IX) ops = true /\ Reach V g M IX sm (fst (run_now g sm S ops)) /\
                   nth_error (fst (run_now g sm S ops)) k = Some s' /\ forall i, i < gn g -> values s' i = values s i.
Proof. exact estimate_pure_state. Qed.
Print Assumptions C13_estimate_pure_state.

(** simulate and every call that only reads the model's state: afterwards `model.state` is a reachable State object on which
    every non-derived variable (parameters, hyper-parameters, population and individual variables, data) holds the same
    value and every read gives the same result — value or error — as before. *)
Theorem C13_simulate_pure_state :
  forall (V M IX : Type) (g : graph V) (sm : sem V M IX), WF g -> F_mix g sm ->
  forall tracked tape seed_pos (script : list (ev V)) (S : StateModel.store V) (k : nat) (s : state V) (p : gpos) (c' : cfg V),
    Reach V g M IX sm S -> nth_error S k = Some s ->
    forallb (writes_in V (fun _ => false)) script = true ->
    api_call V (r_read V g) (r_write V g) (r_clone V g) tracked tape seed_pos script (abs V g s) p = Some c' ->
    exists S' k' s', Reach V g M IX sm S' /\ nth_error S' k' = Some s' /\ model_state V c' = Some (abs V g s') /\
      (forall i, linked g i = false -> values s' i = values s i) /\
      (forall i, snd (get_state g s' i) = snd (get_state g s i)).
Proof. exact simulate_pure_state. Qed.
Print Assumptions C13_simulate_pure_state.

(** MCMC personalisation: afterwards `model.state` is a NEW reachable State object in which every non-derived variable of P
    holds what it held before the call, and every data / individual variable (settable variables outside P) is unset:
    reading it raises the input error. *)
Theorem C13_mcmc_clean_state :
  forall (V M IX : Type) (g : graph V) (sm : sem V M IX), WF g -> F_mix g sm ->
  forall tracked tape seed_pos (P : view) (data : list (nat * option V)) (init_ind : list (nat * (regs V -> option V)))
         (body : list (ev V)) (dvars ivars : list nat) (S : StateModel.store V) (k : nat) (s : state V) (p : gpos) (c' : cfg V),
    Reach V g M IX sm S -> nth_error S k = Some s ->
    (forall i, In i (dvars ++ ivars) -> P i = false /\ i < gn g /\ settable g i = true) ->
    (forall nv, In nv data -> In (fst nv) (dvars ++ ivars)) ->
    (forall nf, In nf init_ind -> In (fst nf) (dvars ++ ivars)) ->
    forallb (fun e => writes_in V (ApiProofs.mem (dvars ++ ivars)) e && noclone_ev V e) body = true ->
    api_call V (r_read V g) (r_write V g) (r_clone V g) tracked tape seed_pos (mcmc_script V data init_ind body dvars ivars) (abs V g s) p = Some c' ->
    cCur c' = 1 /\
    exists S' k' s', Reach V g M IX sm S' /\ nth_error S' k' = Some s' /\ model_state V c' = Some (abs V g s') /\
      (forall i, P i = true -> linked g i = false -> values s' i = values s i) /\
      (forall i, In i (dvars ++ ivars) -> snd (get_state g s' i) = Err InputError).
Proof. exact mcmc_clean_state. Qed.
Print Assumptions C13_mcmc_clean_state.

(** History independence: two reachable State objects — of any two reachable stores, whatever histories produced them —
    that agree on the kept non-derived variables give the same outcome for every script the flow check accepts. *)
Theorem C13_history_independent_state :
  forall (V M IX : Type) (g : graph V) (sm : sem V M IX), WF g -> F_mix g sm ->
  forall tracked tape seed_pos (kept : view) (script : list (ev V))
         (S : StateModel.store V) (k : nat) (s : state V) (S0 : StateModel.store V) (k0 : nat) (s0 : state V) (p : gpos),
    Reach V g M IX sm S -> nth_error S k = Some s -> Reach V g M IX sm S0 -> nth_error S0 k0 = Some s0 ->
    (forall i, kept i = true -> linked g i = false -> values s i = values s0 i) ->
    flow_all V (r_anc V g) 1 ([kept], 0) script <> None ->
    orel (same_outcome V) (api_call V (r_read V g) (r_write V g) (r_clone V g) tracked tape seed_pos script (abs V g s) p)
                          (api_call V (r_read V g) (r_write V g) (r_clone V g) tracked tape seed_pos script (abs V g s0) p).
Proof. exact history_independent_state. Qed.
Print Assumptions C13_history_independent_state.

(** Non-vacuity on the 7-node graph of Compose/ComposeExamples.v after a 14-operation past (partial revert, clone, full
    revert on the clone): State object 0 of the reachable store as the API sees it; estimate returns 100 + 6 + (1 + 10) and
    leaves the cell as it was; the hypotheses of C13_mcmc_clean_state hold and the call leaves cell 1 current with the
    parameters kept and the individual variable (hence the model) unset. *)
Theorem C13_state_examples :
  WF Demo.g /\ F_mix Demo.g Demo.sm /\ Reach xval Demo.g (list bool) nat Demo.sm Demo.S0 /\
  nth_error Demo.S0 0 = Some (nth 0 Demo.S0 (init_state Demo.g None)) /\
  Demo.abs0 = [Some (XS (AFin 100)); Some (XS (AFin 7)); Some (XS (AFin 3)); Some (XS (AFin 6));
               Some (XP [AFin 1; AFin 1]); Some (XP [AFin 4; AFin 4]); Some (XS (AFin 114))]%Z /\
  option_map (fun c => (cRegs c, nth_error (cS c) 0, cCur c)) (Demo.a_api_call Demo.est Demo.abs0 (0, 0, 0))
    = Some ([Some (XS (AFin 117))]%Z, Some Demo.abs0, 0) /\
  ((forall i, In i ([] ++ [4]) -> Demo.keptP i = false /\ i < gn Demo.g /\ settable Demo.g i = true) /\
   (forall nv : nat * option xval, In nv [] -> In (fst nv) ([] ++ [4])) /\
   (forall nf, In nf [(4, fun _ : regs xval => Some (XP [AFin 0; AFin 0]))] -> In (fst nf) ([] ++ [4])) /\
   forallb (fun e => writes_in xval (ApiProofs.mem ([] ++ [4])) e && noclone_ev xval e)
           [EGet Cur 6; EDraw GTorch (fun _ => true); ESet Cur 4 Demo.hd_or; EGet Cur 6] = true) /\
  option_map (fun c => (cCur c, option_map (fun s => map (fun i => snd (r_read xval Demo.g s i)) [1; 2; 4; 6]) (model_state xval c)))
             (Demo.a_api_call Demo.mcmc Demo.abs0 (0, 0, 0))
    = Some (1, Some [Some (XS (AFin 7%Z)); Some (XS (AFin 3%Z)); None; None]).
Proof.
  exact (conj Demo.g_wf (conj Demo.g_fmix (conj Demo.S0_reach (conj Demo.S0_nth0 (conj Demo.abs0_is
        (conj Demo.estimate_runs (conj Demo.mcmc_hypotheses Demo.mcmc_runs))))))).
Qed.
Print Assumptions C13_state_examples.

(* ====================================================================== source-level tie (Api/SrcProg*.v, coq/gen/GenC13.v)
   The programs below are REGENERATED from the python source on every run (harness/translate/c13_calls.py); the object every
   clone / put / read addresses is copied from the source and resolved by [denote].  The statements quantify over every
   instance: number of individuals or requests, variable lists, values, optimiser and sampler activity. *)
From Coq Require Import String.   (* after this point `length` is String.length: write List.length *)
From Leaspy Require Import Api.SrcProg Api.SrcProgProofs Api.SrcProgGenProofs.
From LeaspyGen Require Import GenC13.

(** `BaseModel.estimate` -> `compute_individual_trajectory` (models/mcmc_saem_compatible.py; models/joint.py when [joint]) as
    written today: for every instance the generated program denotes [estimate_many] of the instance's requests; every event
    leaves the model's own state alone and uses no generator; the call leaves the model's State OBJECT, the pointer to it
    and the three generators exactly as they were. *)
Theorem C13_src_estimate_pure :
  forall (V : Type) sread swrite sclone tracked tape seed_pos (joint : bool) (I : inst V),
    exists script,
      denote V I (if joint then gen_estimate_joint else gen_estimate) = Some script
      /\ script = (if joint
                   then estimate_many V 0 (i_name V I "t"%string) (estj_outs V I) (map (estj_req V I) (seq 0 (i_n V I)))
                   else estimate_many V 0 (i_name V I "t"%string) [i_name V I "model"%string] (map (est_req V I) (seq 0 (i_n V I))))
      /\ forallb (untouched_ev V) script = true /\ forallb (nodraw_ev V) script = true
      /\ forall s p c', api_call V sread swrite sclone tracked tape seed_pos script s p = Some c' ->
                        nth_error (cS c') 0 = Some s /\ cCur c' = 0 /\ cPos c' = p.
Proof. exact src_estimate_pure. Qed.
Print Assumptions C13_src_estimate_pure.

(** mean_posterior / mode_posterior (algo/personalize/mcmc.py through BaseModel.personalize and BaseAlgorithm.run) as written
    today, for every instance: the generated program denotes [mcmc_call pre dvars ivars tail] where [pre] = the three seeds,
    the data and the initial individual values put on `state` = an alias of `model.state` ITSELF, the sampler activity on that
    same object; the clean-up unsets "t", every observation variable and every individual latent variable on a clone which
    becomes `model.state`; [tail] addresses a later clone only.  The shape predicates of C13_mcmc_call_clean hold for the
    generated program symbolically (the only hypothesis left, [sampling_ok]: the samplers assign data / individual
    variables only), hence its conclusion. *)
Theorem C13_src_mcmc_call_clean :
  forall (V : Type) sread swrite sclone tracked tape seed_pos anc indep simOn,
    state_interface V sread swrite sclone anc indep simOn ->
    forall (I : inst V),
      denote V I gen_mcmc = Some (mcmc_call V (mcmc_pre V I) (mcmc_dvars V I) (i_ind V I) (mcmc_tail V I))
      /\ forallb (clones_from V 1) (mcmc_tail V I) = true
      /\ (sampling_ok V I = true ->
          forallb (fun e => writes_in V (ApiProofs.mem (mcmc_dvars V I ++ i_ind V I)) e && noclone_ev V e) (mcmc_pre V I) = true
          /\ forall (P : view) s p c',
               simOn top s s ->
               (forall n, In n (mcmc_dvars V I ++ i_ind V I) -> P n = false /\ indep n = true) ->
               api_call V sread swrite sclone tracked tape seed_pos
                        (mcmc_call V (mcmc_pre V I) (mcmc_dvars V I) (i_ind V I) (mcmc_tail V I)) s p = Some c' ->
               exists sf, model_state V c' = Some sf /\ cCur c' = 1 /\ simOn P sf s /\
                          forall n, In n (mcmc_dvars V I ++ i_ind V I) -> snd (sread sf n) = None).
Proof. intros; eapply src_mcmc_call_clean; eauto. Qed.
Print Assumptions C13_src_mcmc_call_clean.

(** scipy_minimize (algo/personalize/scipy_minimize.py) as written today, for every instance for which the program denotes a
    script (always the case on the recorded calls): it is [scipy_call seed scal work] where every event of [work] addresses a
    per-individual clone — the data, the start point (`put_individual_parameters`) and the optimiser all receive
    `states[idx]` in the source —, so no event assigns or replaces the model's own state and `model.state` reads as before. *)
Theorem C13_src_scipy_call_pure :
  forall (V : Type) sread swrite sclone tracked tape seed_pos anc indep simOn,
    state_interface V sread swrite sclone anc indep simOn ->
    forall (I : inst V) (script : list (ev V)),
      denote V I gen_scipy = Some script ->
      exists work, script = scipy_call V (i_seed V I) (i_scal V I) work
        /\ forallb (untouched_ev V) work = true
        /\ forallb (writes_in V (fun _ => false)) script = true
        /\ forall s p c', simOn top s s -> api_call V sread swrite sclone tracked tape seed_pos script s p = Some c' ->
             exists s', model_state V c' = Some s' /\ cCur c' = 0 /\ simOn top s' s /\ forall n, snd (sread s' n) = snd (sread s n).
Proof. intros; eapply src_scipy_call_pure; eauto. Qed.
Print Assumptions C13_src_scipy_call_pure.

(** simulate (algo/simulate/base.py, simulate.py) as written today: the footprint regenerated from the source contains reads
    of the model's state, draws and seeds only ([readonly_atom], decided by computation inside the proof); every script within
    it — whatever the numbers of patients, visits, features, draws; `estimate` on clones — assigns nothing on, and never
    replaces, the model's own state: `model.state` is the same object and every variable reads as before. *)
Theorem C13_src_simulate_pure :
  forall (V : Type) sread swrite sclone tracked tape seed_pos anc indep simOn,
    state_interface V sread swrite sclone anc indep simOn ->
    forall (I : inst V) (script : list (ev V)),
      within V I gen_simulate_foot script = true ->
      forallb (writes_in V (fun _ => false)) script = true
      /\ forall s p c', simOn top s s -> api_call V sread swrite sclone tracked tape seed_pos script s p = Some c' ->
           exists s', model_state V c' = Some s' /\ cCur c' = 0 /\ simOn top s' s /\ forall n, snd (sread s' n) = snd (sread s n).
Proof. intros; eapply src_simulate_pure; eauto. Qed.
Print Assumptions C13_src_simulate_pure.

(** The caller's settings with the kind of copy READ FROM `BaseAlgorithm.__init__` today (`gen_settings_copy`; the translator
    also checks that no module of leaspy.algo re-binds `algo_parameters` to, or writes through, `settings.parameters`). *)
Theorem C13_src_settings_copied :
  forall (h : heap) (a : nat) (ws : list pwrite),
    caller_ok h a ->
    view_dict (do_writes (snd (copy_of gen_settings_copy h a)) (fst (copy_of gen_settings_copy h a)) ws) a = view_dict h a.
Proof. exact src_settings_copied. Qed.
Print Assumptions C13_src_settings_copied.

(** Non-vacuity: on the memo table the generated estimate program, instantiated with two requests, IS the script
    [MemoCalls.est2] of C13_call_examples and runs to a + t for each, the state object untouched. *)
Theorem C13_src_examples :
  denote Memo.V SrcDemo.est_inst gen_estimate = Some MemoCalls.est2
  /\ option_map (fun c => (cRegs c, nth_error (cS c) 0, cCur c))
                (match denote Memo.V SrcDemo.est_inst gen_estimate with
                 | Some sc => Memo.api_call sc Memo.after_fit (4, 5, 6) | None => None end)
     = Some ([Some 18%Z; Some 17%Z], Some Memo.after_fit, 0)
  (* the generated MCMC program with a sampler that reads, draws and assigns the individual variable: hypothesis met, model
     left on the cleaned clone with the individual variable unset and the parameter kept *)
  /\ sampling_ok Memo.V SrcDemo.mcmc_inst = true
  /\ option_map (fun c => (cCur c, option_map (fun s => (snd (Memo.sread s 0), snd (Memo.sread s 1))) (model_state Memo.V c)))
                (match denote Memo.V SrcDemo.mcmc_inst gen_mcmc with
                 | Some sc => Memo.api_call sc Memo.after_fit (4, 5, 6) | None => None end)
     = Some (1, Some (None, Some 10%Z))
  (* the generated scipy program for two individuals denotes a script: 3 states at the end, the model's untouched, 7 reads *)
  /\ option_map (fun c => (cCur c, nth_error (cS c) 0, List.length (cS c), List.length (cRegs c)))
                (match denote Memo.V SrcDemo.scipy_inst gen_scipy with
                 | Some sc => Memo.api_call sc Memo.after_fit (4, 5, 6) | None => None end)
     = Some (0, Some Memo.after_fit, 3, 7).
Proof. exact (conj (proj1 SrcDemo.estimate_demo) (conj (proj2 SrcDemo.estimate_demo) (conj (proj1 SrcDemo.mcmc_demo) (conj (proj2 SrcDemo.mcmc_demo) SrcDemo.scipy_demo)))). Qed.
Print Assumptions C13_src_examples.

(* ---------------------------------------------------------------------- the flow check on the generated programs
   (Api/SrcFlow.v, SrcFlowProofs.v, SrcFlowGenProofs.v): history independence of the programs regenerated from the source,
   symbolically — no evaluation of the flow check on a recorded trace. *)
From Leaspy Require Import Api.SrcFlow Api.SrcFlowProofs Api.SrcFlowGenProofs.

(** MCMC personalisation as written today, for EVERY instance (any variable lists, any data, any initialisation functions, any
    sampler activity, any seed): if what the initialisation functions of the individual variables READ (between the initial
    assignments, on the model's own state) is determined by kept variables ([mcmc_reads_kept], computable) and kept + data +
    individual variables contain every independent variable ([closed]), then the script the generated program denotes passes
    the flow check of [C13_history_independent] and the outcome of the call (everything read or drawn, the operation log,
    the generator positions, the pointer) is the same on any two model states that agree on the kept variables — whatever
    earlier calls left in them — and from any two generator positions. *)
Theorem C13_src_mcmc_history_independent :
  forall (V : Type) sread swrite sclone tracked tape seed_pos anc indep simOn,
    state_interface V sread swrite sclone anc indep simOn ->
    forall (kept : view) (I : inst V),
      mcmc_reads_kept V anc kept I = true ->
      closed anc (mcmc_view V kept I) ->
      exists script,
        denote V I gen_mcmc = Some script
        /\ flow_all V anc 1 ([kept], 0) script <> None
        /\ forall s s' p p', simOn kept s s' ->
             orel (same_outcome V) (api_call V sread swrite sclone tracked tape seed_pos script s p)
                                   (api_call V sread swrite sclone tracked tape seed_pos script s' p').
Proof. exact src_mcmc_history_independent. Qed.
Print Assumptions C13_src_mcmc_history_independent.

(** ... clean AND repeatable, on the generated program: with the samplers assigning data / individual variables only
    ([sampling_ok]), the call leaves every data and individual variable unset and the kept variables as they were, and the
    same call on the object AS LEFT, from wherever the generators were left, has the same outcome. *)
Theorem C13_src_mcmc_repeat_same_answer :
  forall (V : Type) sread swrite sclone tracked tape seed_pos anc indep simOn,
    state_interface V sread swrite sclone anc indep simOn ->
    forall (kept : view) (I : inst V),
      sampling_ok V I = true ->
      mcmc_reads_kept V anc kept I = true ->
      closed anc (mcmc_view V kept I) ->
      (forall n, In n (mcmc_dvars V I ++ i_ind V I) -> kept n = false /\ indep n = true) ->
      exists script,
        denote V I gen_mcmc = Some script
        /\ forall s p c1, simOn top s s -> api_call V sread swrite sclone tracked tape seed_pos script s p = Some c1 ->
             exists s1, model_state V c1 = Some s1 /\ cCur c1 = 1 /\ simOn kept s1 s
                        /\ (forall n, In n (mcmc_dvars V I ++ i_ind V I) -> snd (sread s1 n) = None)
                        /\ orel (same_outcome V) (api_call V sread swrite sclone tracked tape seed_pos script s1 (cPos c1)) (Some c1).
Proof. exact src_mcmc_repeat_same_answer. Qed.
Print Assumptions C13_src_mcmc_repeat_same_answer.

(** estimate as written today ([joint]: models/joint.py), for EVERY instance and ANY number of requests: if each variable read
    at the end of a request is determined by kept variables, "t" and what the request assigned ([est_flow_ok], computable: in
    particular by none of the observations / individual values left in the state), the denoted script passes the flow check
    and the outcome is the same on any two model states that agree on the kept variables. *)
Theorem C13_src_estimate_history_independent :
  forall (V : Type) sread swrite sclone tracked tape seed_pos anc indep simOn,
    state_interface V sread swrite sclone anc indep simOn ->
    forall (joint : bool) (kept : view) (I : inst V),
      est_flow_ok V anc kept (i_name V I "t")
                  (if joint then estj_outs V I else [i_name V I "model"])
                  (map (if joint then estj_req V I else est_req V I) (seq 0 (i_n V I))) = true ->
      exists script,
        denote V I (if joint then gen_estimate_joint else gen_estimate) = Some script
        /\ flow_all V anc 1 ([kept], 0) script <> None
        /\ forall s s' p, simOn kept s s' ->
             orel (same_outcome V) (api_call V sread swrite sclone tracked tape seed_pos script s p)
                                   (api_call V sread swrite sclone tracked tape seed_pos script s' p).
Proof. exact src_estimate_history_independent. Qed.
Print Assumptions C13_src_estimate_history_independent.

(** REFUTED for scipy_minimize, over the generated program (finding F6,
    `scipy_minimize:start-point-from-individual-values-left-by-fit`).  (1) For EVERY instance with at least one individual
    whose per-individual initialisation (`put_individual_parameters`, confined to the clone `states[idx]`) starts by reading a
    variable that kept + data variables do not determine — as it does: it reads the individual values the clone inherited
    from `model.state` — the flow check REJECTS every script the generated program denotes.  (2) On the memo table such an
    instance exists, the generated program denotes a script, two states that agree on the kept variable (after a fit / after
    a load) give DIFFERENT answers, and the state left by a fit returns its own stale value 5. *)
Theorem C13_src_scipy_flow_refuted :
  (forall (V : Type) (anc : nat -> list nat) (kept : view) (I : inst V) (n : nat) (script : list (ev V)),
     i_n V I <> 0 -> scipy_first_read V I n ->
     forallb (vadds (mcmc_dvars V I) kept) (anc n) = false ->
     denote V I gen_scipy = Some script ->
     flow_all V anc 1 ([kept], 0) script = None)
  /\ exists script,
       denote Memo.V FlowDemo.scipy_inst gen_scipy = Some script
       /\ i_n Memo.V FlowDemo.scipy_inst <> 0 /\ scipy_first_read Memo.V FlowDemo.scipy_inst 0
       /\ forallb (vadds (mcmc_dvars Memo.V FlowDemo.scipy_inst) Memo.kept) (Memo.anc 0) = false
       /\ flow_all Memo.V Memo.anc 1 ([Memo.kept], 0) script = None
       /\ Memo.simOn Memo.kept Memo.after_fit Memo.after_load
       /\ option_map (fun c => cRegs c) (Memo.api_call script Memo.after_fit (0, 0, 0))
          <> option_map (fun c => cRegs c) (Memo.api_call script Memo.after_load (0, 0, 0))
       /\ option_map (fun c => Memo.hd_or (cRegs c)) (Memo.api_call script Memo.after_fit (0, 0, 0)) = Some (Some 5%Z).
Proof. split; [exact src_scipy_flow_rejected | exact FlowDemo.scipy_flow_refuted]. Qed.
Print Assumptions C13_src_scipy_flow_refuted.

(** Non-vacuity of the two positive theorems on the memo table: the MCMC instance of C13_src_examples meets both hypotheses
    (its initialisation function reads the parameter; kept + data + individual variables are closed) and the generated
    program returns the same registers from the state left by a fit and from a loaded one, from different generator
    positions; the estimate instance meets [est_flow_ok]. *)
Theorem C13_src_flow_examples :
  (mcmc_reads_kept Memo.V Memo.anc Memo.kept SrcDemo.mcmc_inst = true
   /\ closed Memo.anc (mcmc_view Memo.V Memo.kept SrcDemo.mcmc_inst)
   /\ match denote Memo.V SrcDemo.mcmc_inst gen_mcmc with
      | Some sc => option_map (fun c => cRegs c) (Memo.api_call sc Memo.after_fit (4, 5, 6))
                   = option_map (fun c => cRegs c) (Memo.api_call sc Memo.after_load (1, 1, 1))
      | None => False
      end)
  /\ est_flow_ok Memo.V Memo.anc Memo.kept (i_name Memo.V SrcDemo.est_inst "t") [i_name Memo.V SrcDemo.est_inst "model"]
                 (map (est_req Memo.V SrcDemo.est_inst) (seq 0 (i_n Memo.V SrcDemo.est_inst))) = true.
Proof.
  exact (conj (conj (proj1 FlowDemo.mcmc_flow_demo) (conj FlowDemo.mcmc_view_closed (proj2 (proj2 FlowDemo.mcmc_flow_demo))))
              FlowDemo.estimate_flow_demo).
Qed.
Print Assumptions C13_src_flow_examples.

(* ====================================================================== the settings object itself
   `AlgorithmSettings(name, **kwargs)` (algo/settings.py) and the copy the algorithm works on (algo/base.py), on the model
   of Api/Settings.v: JSON-like values of any depth; dictionaries as objects in a heap.  The update rule, the special keys,
   the dynamic defaults and the origin of the default dictionary are re-read from the source (LeaspyGen.GenSettings). *)
From Leaspy Require Import Api.Settings Api.SettingsProofs Api.SettingsTie.
From LeaspyGen Require Import GenSettings.

(** Every explicit key wins (when the default is not a dictionary). *)
Theorem C13_settings_explicit_key_wins :
  forall (d kw m : Settings.dict) (k : String.string) (v : jv),
    NoDup (keys kw) -> merge d kw = Done m -> In (k, v) kw -> odict (Settings.dget d k) = false -> Settings.dget m k = Some v.
Proof. exact explicit_key_wins. Qed.
Print Assumptions C13_settings_explicit_key_wins.

(** Keys not given keep their default. *)
Theorem C13_settings_default_key_kept :
  forall (d kw m : Settings.dict) (k : String.string),
    NoDup (keys kw) -> merge d kw = Done m -> ~ In k (keys kw) -> Settings.dget m k = Settings.dget d k.
Proof. exact default_key_kept. Qed.
Print Assumptions C13_settings_default_key_kept.

(** A nested dictionary given by the user UPDATES the default nested dictionary, by the same rule (any depth). *)
Theorem C13_settings_nested_key_updates :
  forall (d kw m : Settings.dict) (k : String.string) (dd kk : Settings.dict),
    NoDup (keys kw) -> merge d kw = Done m -> In (k, JDict kk) kw -> Settings.dget d k = Some (JDict dd) ->
    exists mm, merge dd kk = Done mm /\ Settings.dget m k = Some (JDict mm).
Proof. exact nested_key_updates. Qed.
Print Assumptions C13_settings_nested_key_updates.

(** Resolution is idempotent: giving the same keyword arguments to the result changes nothing. *)
Theorem C13_settings_resolution_idempotent :
  forall (d kw m : Settings.dict), wf (JDict kw) -> merge d kw = Done m -> merge m kw = Done m.
Proof. exact merge_idempotent. Qed.
Print Assumptions C13_settings_resolution_idempotent.

(** With replacement instead of the nested update the result differs (default nested keys are lost). *)
Theorem C13_settings_replacement_refuted :
  exists d kw m m', merge d kw = Done m /\ mergev_with replace_act (JDict kw) d = Done m' /\ m <> m'.
Proof. exact replacement_refuted. Qed.
Print Assumptions C13_settings_replacement_refuted.

(** ANY sequence of writes of the algorithm into its deep copy (top level, nested at any depth, fresh trees as values)
    leaves what the caller sees from ANY of their values — `settings.parameters`, a nested dictionary — as it was. *)
Theorem C13_settings_deepcopy_isolates :
  forall (f : nat) (h : Settings.heap) (s : hval) (h1 : Settings.heap) (r1 : hval) (ws : list hwrite),
    closed h -> hdeepcopy f h s = Some (h1, r1) ->
    forall g v, hval_in h v -> hview g (do_hwrites r1 h1 ws) v = hview g h v.
Proof. exact deepcopy_isolates. Qed.
Print Assumptions C13_settings_deepcopy_isolates.

(** Hence a second algorithm built from the same settings object after the first one has worked copies the same tree. *)
Theorem C13_settings_second_algorithm_same_view :
  forall (f : nat) (h : Settings.heap) (s : hval) (h1 : Settings.heap) (r1 : hval) (ws : list hwrite) (t : jv),
    closed h -> hval_in h s -> hview f h s = Some t -> hdeepcopy f h s = Some (h1, r1) ->
    hdeepcopy f (do_hwrites r1 h1 ws) s = Some (halloc t (do_hwrites r1 h1 ws)).
Proof. exact second_algorithm_same_view. Qed.
Print Assumptions C13_settings_second_algorithm_same_view.

(** The same with the kind of copy READ FROM `BaseAlgorithm.__init__` today. *)
Theorem C13_settings_src_isolated :
  forall (f : nat) (h : Settings.heap) (s : hval) (h1 : Settings.heap) (r1 : hval) (ws : list hwrite),
    closed h -> hcopy_of gen_settings_copy f h s = Some (h1, r1) ->
    forall g v, hval_in h v -> hview g (do_hwrites r1 h1 ws) v = hview g h v.
Proof. exact src_settings_isolated. Qed.
Print Assumptions C13_settings_src_isolated.

(** The construction assembled from the pieces regenerated from today's source (decision table of the update loop, special
    keys, dynamic defaults) IS the model's `resolve`; the defaults are parsed afresh at every construction. *)
Theorem C13_settings_src_resolve :
  (forall file det kwargs, src_resolve file det kwargs = resolve file det kwargs) /\ gen_defaults_source = FreshLoad.
Proof. exact (conj src_resolve_is_model gen_defaults_source_is_fresh). Qed.
Print Assumptions C13_settings_src_resolve.

(** No copy, or a one-level copy: a write of the algorithm shows in the caller's settings (the one-level copy protects the
    top level only). *)
Theorem C13_settings_copy_kinds_refuted :
  closed demo_heap /\ hval_in demo_heap demo_root
  /\ caller_sees CopyDeep [w_burn; w_anneal] = Some demo_settings
  /\ caller_sees CopyAlias [w_burn] <> Some demo_settings
  /\ caller_sees CopyShallow [w_burn] = Some demo_settings
  /\ caller_sees CopyShallow [w_anneal] <> Some demo_settings.
Proof. exact copy_kinds_demo. Qed.
Print Assumptions C13_settings_copy_kinds_refuted.

(** PARTIAL: the heap-level update assigns only into the objects it logs, whatever the table and the sharing.  Missing for
    "the construction never assigns into an object of the caller": that the logged objects are the freshly parsed defaults
    (needs distinct keys and an unshared default tree) — evaluated inside Coq on every recorded construction instead
    (SettingsExec.heap_check: log above the caller's objects, caller's tree unchanged, same sharing as the implementation). *)
Theorem C13_settings_merge_writes_logged_partial :
  forall act f h ra na, frame_ok (hmerge_with act f h ra na) h [].
Proof. exact hmerge_frame. Qed.
Print Assumptions C13_settings_merge_writes_logged_partial.

(** One default object kept and handed out again: a second construction without arguments sees the first one's keyword
    arguments (fresh parsing gives the defaults). *)
Theorem C13_settings_shared_defaults_refuted :
  shared_demo = Some ([0], Some (JDict [("n_iter"%string, JInt 5)]), Some (JDict [("n_iter"%string, JInt 100)])).
Proof. exact shared_defaults_refuted. Qed.
Print Assumptions C13_settings_shared_defaults_refuted.

(** Non-vacuity on a default file shaped like default_mcmc_saem.json. *)
Theorem C13_settings_examples :
  option_map s_params (match resolve demo_file false demo_kwargs with Done s => Some s | _ => None end) = Some demo_params
  /\ wf (JDict demo_kwargs)
  /\ (match resolve demo_file false demo_kwargs with Done s => ctor_view true true s | _ => Failed end) = Done demo_params
  /\ (match resolve demo_file false [] with Done s => option_map (fun p => Settings.dget p "n_burn_in_iter"%string)
                                                         (match ctor_view true true s with Done p => Some p | _ => None end)
       | _ => None end) = Some (Some (JInt 50))
  /\ (match resolve demo_file false demo_kwargs with
      | Done s => same_outcome_b (load demo_file false (save s)) s | _ => false end) = true
  /\ resolve demo_file false [("annealing"%string, JInt 3)] = Refused.
Proof. exact resolve_demo. Qed.
Print Assumptions C13_settings_examples.
