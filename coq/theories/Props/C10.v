(** C10 — re-centring is a pure gauge change; space shifts are orthogonal to progression.
    Property theorems only: statements in full, each closed by [exact] of a lemma proved elsewhere.
    Every [gen_*] is REGENERATED from /repo on each run (coq/gen/GenC10.v): traced node functions,
    [compute_orthonormal_basis] and [_center_xi_realizations] by python-ast, DAG wiring by introspection. *)
From Coq Require Import String Reals List.
From Leaspy Require Import Base.RAux Formulas.Ortho Formulas.OrthoProofs Formulas.Gauge Formulas.GaugeProofs Formulas.GaugeTie.
From Leaspy Require Import Formulas.OrthoBranchProofs Formulas.OrthoBranchTie Formulas.GaugeAll.
From LeaspyGen Require Import GenC10.
Import ListNotations.
Local Open Scope R_scope.

(** The move (xi - m, log_v0 + m) leaves every trajectory value unchanged — logistic, linear, joint; all reals. *)
Theorem C10_gauge_traj : forall m lg g lv xi tau t : R,
  gen_logistic_traj lg (lv + m) (xi - m) tau t = gen_logistic_traj lg lv xi tau t /\
  gen_linear_traj g (lv + m) (xi - m) tau t = gen_linear_traj g lv xi tau t /\
  gen_joint_traj lg (lv + m) (xi - m) tau t = gen_joint_traj lg lv xi tau t.
Proof. exact gauge_traj. Qed.
Print Assumptions C10_gauge_traj.

(** With sources: unchanged for a given space shift w, and the space shifts themselves do not move because the
    orthonormal basis computed from exp(log_v0 + m) is the one computed from exp(log_v0). *)
Theorem C10_gauge_traj_sources :
  (forall m lg g lv xi tau t w : R,
     gen_logistic_traj_src lg (lv + m) (xi - m) tau t w = gen_logistic_traj_src lg lv xi tau t w /\
     gen_linear_traj_src g (lv + m) (xi - m) tau t w = gen_linear_traj_src g lv xi tau t w /\
     gen_joint_traj_src lg (lv + m) (xi - m) tau t w = gen_joint_traj_src lg lv xi tau t w) /\
  (forall (m : R) (lgl lvl : list R) (betas sources : matrix),
     gen_logistic_space_shifts sources (gen_logistic_mixing (gen_logistic_basis lgl (shift m lvl)) betas)
       = gen_logistic_space_shifts sources (gen_logistic_mixing (gen_logistic_basis lgl lvl) betas) /\
     gen_linear_space_shifts sources (gen_linear_mixing (gen_linear_basis (shift m lvl)) betas)
       = gen_linear_space_shifts sources (gen_linear_mixing (gen_linear_basis lvl) betas) /\
     gen_joint_space_shifts sources (gen_joint_mixing (gen_joint_basis lgl (shift m lvl)) betas)
       = gen_joint_space_shifts sources (gen_joint_mixing (gen_joint_basis lgl lvl) betas)).
Proof. split; [exact gauge_traj_src | exact gauge_space_shifts]. Qed.
Print Assumptions C10_gauge_traj_sources.

(** Joint model: the Weibull event term is unchanged by (xi - m, n_log_nu + m) — with nu = exp(- n_log_nu) and
    nu_rep = exp(-xi) nu as the code has them — without and with survival shifts. *)
Theorem C10_gauge_event : forall m et eb lrho nln xi tau s : R,
  gen_joint_event et eb lrho (nln + m) (xi - m) tau = gen_joint_event et eb lrho nln xi tau /\
  gen_joint_event_src et eb lrho (nln + m) (xi - m) tau s = gen_joint_event_src et eb lrho nln xi tau s.
Proof. exact gauge_event. Qed.
Print Assumptions C10_gauge_event.

(** Hence every individual attachment term (Gaussian nll of the trajectory; the joint one is the sum of this
    term and the event term above) is unchanged. *)
Theorem C10_attach : forall m y s lg g lv xi tau t w : R,
  gen_logistic_attach y s lg (lv + m) (xi - m) tau t = gen_logistic_attach y s lg lv xi tau t /\
  gen_linear_attach y s g (lv + m) (xi - m) tau t = gen_linear_attach y s g lv xi tau t /\
  gen_joint_attach y s lg (lv + m) (xi - m) tau t = gen_joint_attach y s lg lv xi tau t /\
  gen_logistic_attach_src y s lg (lv + m) (xi - m) tau t w = gen_logistic_attach_src y s lg lv xi tau t w /\
  gen_linear_attach_src y s g (lv + m) (xi - m) tau t w = gen_linear_attach_src y s g lv xi tau t w /\
  gen_joint_attach_src y s lg (lv + m) (xi - m) tau t w = gen_joint_attach_src y s lg lv xi tau t w.
Proof. exact gauge_attach. Qed.
Print Assumptions C10_attach.

(** The centred log-accelerations have mean exactly 0. *)
Theorem C10_zero_mean : forall xs : list R, xs <> [] -> mean (center xs) = 0.
Proof. exact mean_center. Qed.
Print Assumptions C10_zero_mean.

(** The Householder basis does not change when the direction is multiplied by c > 0 (no other hypothesis). *)
Theorem C10_basis_collinear : forall (c : R) (d G : list R),
  0 < c -> gen_ortho_basis (vscale c d) G = gen_ortho_basis d G.
Proof. exact gen_collinear. Qed.
Print Assumptions C10_basis_collinear.

(** ... which is what makes log_v0 + m harmless for the basis of each model kind with the re-centring step. *)
Theorem C10_gauge_basis : forall (m : R) (lgl lvl : list R),
  gen_logistic_basis lgl (shift m lvl) = gen_logistic_basis lgl lvl /\
  gen_linear_basis (shift m lvl) = gen_linear_basis lvl /\
  gen_joint_basis lgl (shift m lvl) = gen_joint_basis lgl lvl.
Proof. exact gauge_basis. Qed.
Print Assumptions C10_gauge_basis.

(** Any dimension: every kept column of I - 2vv^T is orthogonal to G∘d, provided its first coordinate is non-zero. *)
Theorem C10_orthogonal : forall (d G : list R) (j : nat),
  nth 0 (vmul G d) 0 <> 0 -> (S j < length d)%nat ->
  dot (col j (gen_ortho_basis d G)) (vmul G d) = 0.
Proof. exact gen_orthogonal. Qed.
Print Assumptions C10_orthogonal.

(** The proviso is needed: torch.sign(0) = 0, so for an accepted input with (G∘d)_0 = 0 and G∘d <> 0 the kept
    column is not orthogonal to G∘d (witness d = (0,1), G = (1,1)). *)
Theorem C10_orthogonal_first_zero_refuted :
  exists (d G : list R) (j : nat),
    gen_ortho_pre d G /\ (exists i, nth i (vmul G d) 0 <> 0) /\ (S j < length d)%nat /\
    dot (col j (gen_ortho_basis d G)) (vmul G d) <> 0.
Proof. exact orthogonal_first_zero_refuted. Qed.
Print Assumptions C10_orthogonal_first_zero_refuted.

(** In the models the proviso always holds: the direction and the metric passed to the basis are positive for
    all real population values (logistic / joint: exp(log_v0), metric²; linear: exp(log_v0), 1; shared-speed). *)
Theorem C10_direction_positive : forall lg lv dl : R,
  (0 < gen_logistic_dir lv /\ 0 < gen_logistic_G lg) /\ (0 < gen_linear_dir lv /\ 0 < gen_linear_G) /\
  (0 < gen_joint_dir lv /\ 0 < gen_joint_G lg) /\ (0 < gen_shared_dir lg dl /\ 0 < gen_shared_G lg dl).
Proof.
  intros lg lv dl. pose proof (dir_pos lv) as (A & B & C).
  repeat split; auto using logistic_G_pos, linear_G_pos, joint_G_pos, shared_dir_pos, shared_G_pos.
Qed.
Print Assumptions C10_direction_positive.

(** Every row of the mixing matrix is orthogonal, in the model's metric, to the direction of progression —
    all population values, all mixing coefficients, any dimension and number of sources. *)
Theorem C10_mixing_orthogonal :
  forall (lgl lvl dll : list R) (lg : R) (betas : matrix) (k : nat),
  (length lgl = length lvl -> (0 < length lvl)%nat -> (S (length betas) <= length lvl)%nat ->
     dot (nth k (gen_logistic_mixing (gen_logistic_basis lgl lvl) betas) [])
         (vmul (map gen_logistic_G lgl) (map gen_logistic_dir lvl)) = 0 /\
     dot (nth k (gen_joint_mixing (gen_joint_basis lgl lvl) betas) [])
         (vmul (map gen_joint_G lgl) (map gen_joint_dir lvl)) = 0) /\
  ((0 < length lvl)%nat -> (S (length betas) <= length lvl)%nat ->
     dot (nth k (gen_linear_mixing (gen_linear_basis lvl) betas) [])
         (vmul (map (fun _ => gen_linear_G) lvl) (map gen_linear_dir lvl)) = 0) /\
  ((0 < length dll)%nat -> (S (length betas) <= length dll)%nat ->
     dot (nth k (gen_shared_mixing (gen_shared_basis lg dll) betas) [])
         (vmul (map (gen_shared_G lg) dll) (map (gen_shared_dir lg) dll)) = 0).
Proof.
  intros. split; [|split]; intros.
  - split; [now apply logistic_mixing | now apply joint_mixing].
  - now apply linear_mixing.
  - now apply shared_mixing.
Qed.
Print Assumptions C10_mixing_orthogonal.

(** ... hence every individual space shift (row i of sources · mixing_matrix), for every value of the sources. *)
Theorem C10_space_shift_orthogonal :
  forall (lgl lvl dll : list R) (lg : R) (betas sources : matrix) (i : nat),
  (length lgl = length lvl -> (0 < length lvl)%nat -> (S (length betas) <= length lvl)%nat ->
     dot (nth i (gen_logistic_space_shifts sources (gen_logistic_mixing (gen_logistic_basis lgl lvl) betas)) [])
         (vmul (map gen_logistic_G lgl) (map gen_logistic_dir lvl)) = 0 /\
     dot (nth i (gen_joint_space_shifts sources (gen_joint_mixing (gen_joint_basis lgl lvl) betas)) [])
         (vmul (map gen_joint_G lgl) (map gen_joint_dir lvl)) = 0) /\
  ((0 < length lvl)%nat -> (S (length betas) <= length lvl)%nat ->
     dot (nth i (gen_linear_space_shifts sources (gen_linear_mixing (gen_linear_basis lvl) betas)) [])
         (vmul (map (fun _ => gen_linear_G) lvl) (map gen_linear_dir lvl)) = 0) /\
  ((0 < length dll)%nat -> (S (length betas) <= length dll)%nat ->
     dot (nth i (gen_shared_space_shifts sources (gen_shared_mixing (gen_shared_basis lg dll) betas)) [])
         (vmul (map (gen_shared_G lg) dll) (map (gen_shared_dir lg) dll)) = 0).
Proof.
  intros. split; [|split]; intros.
  - split; [now apply logistic_shifts | now apply joint_shifts].
  - now apply linear_shifts.
  - now apply shared_shifts.
Qed.
Print Assumptions C10_space_shift_orthogonal.

(** "The model's metric": G∘d is the trajectory's own metric direction.  Logistic / joint: the trajectory is
    sigmoid(M (v0 rt + w) - ln g) and G = M²; linear: M = 1; shared-speed: the logit is M w + 1·rt + delta - log g
    and G∘d = M / g (collinear to M∘(1,…,1)). *)
Theorem C10_metric_is_trajectory_metric : forall lg g lv xi tau t w dl : R,
  (gen_logistic_G lg = gen_logistic_metric lg ^ 2 /\
   gen_logistic_traj_src lg lv xi tau t w = sigmoid (gen_logistic_metric lg * (exp lv * (exp xi * (t - tau)) + w) - ln (exp lg))) /\
  (gen_joint_G lg = gen_joint_metric lg ^ 2 /\
   gen_joint_traj_src lg lv xi tau t w = sigmoid (gen_joint_metric lg * (exp lv * (exp xi * (t - tau)) + w) - ln (exp lg))) /\
  (gen_linear_G = gen_linear_metric ^ 2 /\
   gen_linear_traj_src g lv xi tau t w = g + gen_linear_metric * (exp lv * (exp xi * (t - tau)) + w)) /\
  (gen_shared_G lg dl * gen_shared_dir lg dl = gen_shared_metric lg dl / exp lg /\
   gen_shared_traj_src lg dl xi tau t w = sigmoid (gen_shared_metric lg dl * w + 1 * (exp xi * (t - tau)) + dl - lg)).
Proof. exact metric_is_trajectory_metric. Qed.
Print Assumptions C10_metric_is_trajectory_metric.

(** The re-centring method logistic and linear models resolve to, as translated from the source, performs exactly
    the gauge move with m = mean xi and touches no other variable. *)
Theorem C10_script : forall (st : store) (xs lv : list R),
  st "xi"%string = Some (VV xs) -> st "log_v0"%string = Some (VV lv) ->
  (exists st', run_script gen_center_script_logistic st empty = Some st' /\ gauge_moved false st st' xs lv []) /\
  (exists st', run_script gen_center_script_linear st empty = Some st' /\ gauge_moved false st st' xs lv []).
Proof. intros st xs lv H1 H2. split; [now apply script_logistic | now apply script_linear]. Qed.
Print Assumptions C10_script.

(** The joint override also moves n_log_nu by + mean xi (the compensating term of C10_gauge_event). *)
Theorem C10_script_joint : forall (st : store) (xs lv nu : list R),
  st "xi"%string = Some (VV xs) -> st "log_v0"%string = Some (VV lv) -> st "n_log_nu"%string = Some (VV nu) ->
  exists st', run_script gen_center_script_joint st empty = Some st' /\ gauge_moved true st st' xs lv nu.
Proof. exact script_joint. Qed.
Print Assumptions C10_script_joint.

(** Tie: the function regenerated from utils/linalg.py is the hand-written model, guards included. *)
Theorem C10_tie_ortho_basis : forall d G : list R,
  gen_ortho_basis d G = ortho_basis d G /\ (gen_ortho_pre d G <-> ortho_pre d G).
Proof. intros d G. split; [apply tie_ortho_basis | apply tie_ortho_pre]. Qed.
Print Assumptions C10_tie_ortho_basis.

(** Tie: the DAG wires mixing_matrix = (basis · betas)ᵀ and space_shifts = sources · mixing_matrix for all four kinds. *)
Theorem C10_tie_wiring : forall B betas Srcs : matrix,
  gen_logistic_mixing B betas = mixing_matrix B betas /\ gen_linear_mixing B betas = mixing_matrix B betas /\
  gen_joint_mixing B betas = mixing_matrix B betas /\ gen_shared_mixing B betas = mixing_matrix B betas /\
  gen_logistic_space_shifts Srcs B = space_shifts Srcs B /\ gen_linear_space_shifts Srcs B = space_shifts Srcs B /\
  gen_joint_space_shifts Srcs B = space_shifts Srcs B /\ gen_shared_space_shifts Srcs B = space_shifts Srcs B.
Proof. exact tie_wiring. Qed.
Print Assumptions C10_tie_wiring.

(** ---- extension: EVERY branch of compute_orthonormal_basis (scalar / diagonal / full metric, any strip_col) ----
    [gen_ortho_basis_{0,1,2}d strip_col d G] are regenerated from utils/linalg.py, one per branch of the chain on
    [len(G_shape)], strip_col kept as a parameter.  [inner_kd G x y] is the inner product (1) of the docstring,
    xᵀ G y, for G a positive scalar / a positive diagonal / a full matrix. *)

(** Tie: the three generated functions and their guards are the models of Ortho.v; the function the models call
    (1-D metric, default strip_col) is the 1-D branch at [gen_ortho_strip_default]. *)
Theorem C10_tie_ortho_branches : forall (j : nat) (d : list R) (g : R) (G1 : list R) (G2 : matrix),
  gen_ortho_basis_0d j d g = ortho_basis_0d j d g /\ gen_ortho_basis_1d j d G1 = ortho_basis_1d j d G1 /\
  gen_ortho_basis_2d j d G2 = ortho_basis_2d j d G2 /\
  (gen_ortho_pre_0d j d g <-> ortho_pre_0d j d g) /\ (gen_ortho_pre_1d j d G1 <-> ortho_pre_1d j d G1) /\
  (gen_ortho_pre_2d j d G2 <-> ortho_pre_2d j d G2) /\
  gen_ortho_basis d G1 = gen_ortho_basis_1d gen_ortho_strip_default d G1 /\
  (gen_ortho_pre d G1 <-> gen_ortho_pre_1d gen_ortho_strip_default d G1).
Proof. exact tie_branches. Qed.
Print Assumptions C10_tie_ortho_branches.

(** Every branch, every dimension, every strip_col accepted by the code: each returned column is orthogonal to the
    direction d for the inner product of the branch, provided coordinate strip_col of G d is non-zero. *)
Theorem C10_ortho_branches : forall (j : nat) (d : list R) (g : R) (G1 : list R) (G2 : matrix) (c : nat),
  (S c < length d)%nat ->
  (gen_ortho_pre_0d j d g -> nth j (vscale g d) 0 <> 0 -> inner_0d g (col c (gen_ortho_basis_0d j d g)) d = 0) /\
  (gen_ortho_pre_1d j d G1 -> nth j (vmul G1 d) 0 <> 0 -> inner_1d G1 (col c (gen_ortho_basis_1d j d G1)) d = 0) /\
  (gen_ortho_pre_2d j d G2 -> nth j (matvec G2 d) 0 <> 0 -> inner_2d G2 (col c (gen_ortho_basis_2d j d G2)) d = 0).
Proof. exact gen_branches_orthogonal. Qed.
Print Assumptions C10_ortho_branches.

(** The proviso is needed in every branch (torch.sign(0) = 0): accepted inputs with a non-zero metric norm whose
    kept column is not orthogonal to d (d = (1,0), strip_col = 1, identity metric as scalar / vector / matrix). *)
Theorem C10_ortho_branches_zero_pivot_refuted :
  (exists j d g c, gen_ortho_pre_0d j d g /\ inner_0d g d d <> 0 /\ (S c < length d)%nat /\
     inner_0d g (col c (gen_ortho_basis_0d j d g)) d <> 0) /\
  (exists j d G c, gen_ortho_pre_1d j d G /\ inner_1d G d d <> 0 /\ (S c < length d)%nat /\
     inner_1d G (col c (gen_ortho_basis_1d j d G)) d <> 0) /\
  (exists j d G c, gen_ortho_pre_2d j d G /\ inner_2d G d d <> 0 /\ (S c < length d)%nat /\
     inner_2d G (col c (gen_ortho_basis_2d j d G)) d <> 0).
Proof. exact gen_branches_zero_pivot_refuted. Qed.
Print Assumptions C10_ortho_branches_zero_pivot_refuted.

(** Orthonormality, for the inner product the code documents ("always orthonormal for the Euclidean canonical inner
    product"): every branch, every dimension, every strip_col, every direction of non-zero metric norm dᵀ G d —
    no condition on the pivot coordinate. *)
Theorem C10_orthonormal_branches : forall (j : nat) (d : list R) (g : R) (G1 : list R) (G2 : matrix) (c c' : nat),
  (S c < length d)%nat -> (S c' < length d)%nat ->
  (gen_ortho_pre_0d j d g -> inner_0d g d d <> 0 ->
     dot (col c (gen_ortho_basis_0d j d g)) (col c' (gen_ortho_basis_0d j d g)) = if Nat.eqb c c' then 1 else 0) /\
  (gen_ortho_pre_1d j d G1 -> inner_1d G1 d d <> 0 ->
     dot (col c (gen_ortho_basis_1d j d G1)) (col c' (gen_ortho_basis_1d j d G1)) = if Nat.eqb c c' then 1 else 0) /\
  (gen_ortho_pre_2d j d G2 -> inner_2d G2 d d <> 0 ->
     dot (col c (gen_ortho_basis_2d j d G2)) (col c' (gen_ortho_basis_2d j d G2)) = if Nat.eqb c c' then 1 else 0).
Proof. exact gen_branches_orthonormal. Qed.
Print Assumptions C10_orthonormal_branches.

(** The basis the models use: orthonormal for every accepted metric and every direction that is not the zero vector. *)
Theorem C10_orthonormal : forall (d G : list R) (c c' : nat),
  gen_ortho_pre d G -> (exists i, nth i d 0 <> 0) -> (S c < length d)%nat -> (S c' < length d)%nat ->
  dot (col c (gen_ortho_basis d G)) (col c' (gen_ortho_basis d G)) = if Nat.eqb c c' then 1 else 0.
Proof. exact gen_default_orthonormal. Qed.
Print Assumptions C10_orthonormal.

(** ... and NOT orthonormal for the metric inner product (scalar metric 2: every column has metric norm² 2) — what
    the docstring says ("we could do otherwise if we'd like a full orthonormal basis w.r.t. the non-Euclidean ..."). *)
Theorem C10_orthonormal_metric_refuted :
  exists j d g c, gen_ortho_pre_0d j d g /\ inner_0d g d d <> 0 /\ (S c < length d)%nat /\
    inner_0d g (col c (gen_ortho_basis_0d j d g)) (col c (gen_ortho_basis_0d j d g)) <> 1.
Proof. exact gen_metric_orthonormal_refuted. Qed.
Print Assumptions C10_orthonormal_metric_refuted.

(** Every branch is invariant under d -> c d, c > 0 (what makes log_v0 + m harmless whatever the metric's shape). *)
Theorem C10_basis_collinear_branches : forall (c : R) (j : nat) (d : list R) (g : R) (G1 : list R) (G2 : matrix),
  0 < c ->
  gen_ortho_basis_0d j (vscale c d) g = gen_ortho_basis_0d j d g /\
  gen_ortho_basis_1d j (vscale c d) G1 = gen_ortho_basis_1d j d G1 /\
  gen_ortho_basis_2d j (vscale c d) G2 = gen_ortho_basis_2d j d G2.
Proof. exact gen_branches_collinear. Qed.
Print Assumptions C10_basis_collinear_branches.

(** ---- extension: EVERY copy of _center_xi_realizations in the source, and the mixture model ----
    [gen_center_scripts] has one entry ((kind, defining class), (model has n_log_nu, translated script)) per shipped
    model kind whose class resolves the method; [gen_center_classes] = the classes of leaspy/models/ whose body
    defines it (python-ast scan of the source). *)

(** Each copy performs exactly the gauge move m = mean xi — n_log_nu included exactly when the model has it — and
    touches nothing else; every defining class of the source is reached; the scripts of logistic / linear / joint
    are the ones of C10_script / C10_script_joint. *)
Theorem C10_script_all_classes :
  Forall (fun e => script_gauge (fst (snd e)) (snd (snd e))) gen_center_scripts /\
  (classes_covered_b = true /\ gen_center_classes <> []) /\
  (In (("logistic", "RiemanianManifoldModel"), (false, gen_center_script_logistic))%string gen_center_scripts /\
   In (("linear", "RiemanianManifoldModel"), (false, gen_center_script_linear))%string gen_center_scripts /\
   In (("joint", "JointModel"), (true, gen_center_script_joint))%string gen_center_scripts).
Proof. split; [exact all_scripts_gauge | split; [exact classes_covered | exact scripts_of_the_kinds]]. Qed.
Print Assumptions C10_script_all_classes.

(** The mixture model (its own copy of the step; sources are mandatory): the move leaves its trajectory and its
    attachment term unchanged for all reals, and the basis — hence the space shifts — too. *)
Theorem C10_gauge_mixture :
  (forall m y s lg lv xi tau t w : R,
     gen_mixture_traj_src lg (lv + m) (xi - m) tau t w = gen_mixture_traj_src lg lv xi tau t w /\
     gen_mixture_attach_src y s lg (lv + m) (xi - m) tau t w = gen_mixture_attach_src y s lg lv xi tau t w) /\
  (forall (m : R) (lgl lvl : list R) (betas sources : matrix),
     gen_mixture_basis lgl (shift m lvl) = gen_mixture_basis lgl lvl /\
     gen_mixture_space_shifts sources (gen_mixture_mixing (gen_mixture_basis lgl (shift m lvl)) betas)
       = gen_mixture_space_shifts sources (gen_mixture_mixing (gen_mixture_basis lgl lvl) betas)).
Proof.
  split; [exact gauge_mixture | intros; split; [apply gauge_basis_mixture | apply gauge_space_shifts_mixture]].
Qed.
Print Assumptions C10_gauge_mixture.

(** Mixture model: rows of the mixing matrix and individual space shifts are orthogonal to G∘d; DAG wiring tie. *)
Theorem C10_mixture_orthogonal :
  forall (lgl lvl : list R) (betas sources : matrix) (k : nat),
  (length lgl = length lvl -> (0 < length lvl)%nat -> (S (length betas) <= length lvl)%nat ->
   dot (nth k (gen_mixture_mixing (gen_mixture_basis lgl lvl) betas) [])
       (vmul (map gen_mixture_G lgl) (map gen_mixture_dir lvl)) = 0 /\
   dot (nth k (gen_mixture_space_shifts sources (gen_mixture_mixing (gen_mixture_basis lgl lvl) betas)) [])
       (vmul (map gen_mixture_G lgl) (map gen_mixture_dir lvl)) = 0) /\
  (forall B : matrix, gen_mixture_mixing B betas = mixing_matrix B betas /\
                      gen_mixture_space_shifts sources B = space_shifts sources B).
Proof. intros. split; [now apply mixture_orthogonal | intros B; apply tie_wiring_mixture]. Qed.
Print Assumptions C10_mixture_orthogonal.

(** The mixture model's compute_sufficient_statistics also calls _center_sources_realizations: translated, it is
    sources := sources - mean(all entries of sources), nothing else — and that is NOT a gauge change: nothing
    compensates it and the space shifts (hence the trajectories) move.  Replayed on the code at every run. *)
Theorem C10_mixture_sources_centring_refuted :
  (forall (st : store) (ss : list R), st "sources"%string = Some (VV ss) ->
     exists st', run_script gen_center_extra_mixture_sources st empty = Some st' /\
                 st' "sources"%string = Some (VV (center ss)) /\ forall v, v <> "sources"%string -> st' v = st v) /\
  (exists (ss : list R) (M : matrix),
     space_shifts (map (fun x => [x]) (center ss)) M <> space_shifts (map (fun x => [x]) ss) M).
Proof. split; [exact script_mixture_sources | exact mixture_sources_centring_moves_space_shifts]. Qed.
Print Assumptions C10_mixture_sources_centring_refuted.

(** Whatever branch of the helper and whatever strip_col a model wires: every row of the mixing matrix (B·betas)ᵀ and
    every individual space shift sources·(B·betas)ᵀ is orthogonal to the direction d for the metric of the branch. *)
Theorem C10_mixing_orthogonal_branches :
  forall (j : nat) (d : list R) (g : R) (G1 : list R) (G2 betas sources : matrix) (k : nat),
  (S (length betas) <= length d)%nat ->
  (gen_ortho_pre_0d j d g -> nth j (vscale g d) 0 <> 0 ->
     inner_0d g (nth k (mixing_matrix (gen_ortho_basis_0d j d g) betas) []) d = 0 /\
     inner_0d g (nth k (space_shifts sources (mixing_matrix (gen_ortho_basis_0d j d g) betas)) []) d = 0) /\
  (gen_ortho_pre_1d j d G1 -> nth j (vmul G1 d) 0 <> 0 ->
     inner_1d G1 (nth k (mixing_matrix (gen_ortho_basis_1d j d G1) betas) []) d = 0 /\
     inner_1d G1 (nth k (space_shifts sources (mixing_matrix (gen_ortho_basis_1d j d G1) betas)) []) d = 0) /\
  (gen_ortho_pre_2d j d G2 -> nth j (matvec G2 d) 0 <> 0 ->
     inner_2d G2 (nth k (mixing_matrix (gen_ortho_basis_2d j d G2) betas) []) d = 0 /\
     inner_2d G2 (nth k (space_shifts sources (mixing_matrix (gen_ortho_basis_2d j d G2) betas)) []) d = 0).
Proof. exact gen_branches_mixing_space_shifts. Qed.
Print Assumptions C10_mixing_orthogonal_branches.

(** Orthonormality for EVERY direction that is not the zero vector: scalar and diagonal branches with no further
    hypothesis (the guards make the metric positive), full branch for a positive definite metric (which the code does
    not check: [pos_def_2d] stays a hypothesis; non-vacuous: [ex_pos_def]). *)
Theorem C10_orthonormal_nonzero_direction :
  forall (j : nat) (d : list R) (g : R) (G1 : list R) (G2 : matrix) (c c' : nat),
  (exists i, nth i d 0 <> 0) -> (S c < length d)%nat -> (S c' < length d)%nat ->
  (gen_ortho_pre_0d j d g ->
     dot (col c (gen_ortho_basis_0d j d g)) (col c' (gen_ortho_basis_0d j d g)) = if Nat.eqb c c' then 1 else 0) /\
  (gen_ortho_pre_1d j d G1 ->
     dot (col c (gen_ortho_basis_1d j d G1)) (col c' (gen_ortho_basis_1d j d G1)) = if Nat.eqb c c' then 1 else 0) /\
  (gen_ortho_pre_2d j d G2 -> pos_def_2d G2 (length d) ->
     dot (col c (gen_ortho_basis_2d j d G2)) (col c' (gen_ortho_basis_2d j d G2)) = if Nat.eqb c c' then 1 else 0).
Proof. exact gen_branches_orthonormal_nonzero. Qed.
Print Assumptions C10_orthonormal_nonzero_direction.

(** Composition, every copy of the step (logistic, linear, joint, mixture entries of [gen_center_scripts]): running the
    translated script on any store holding xi and log_v0 (and n_log_nu iff the model has it) ends in a store whose xi
    have mean 0 and in which, for every individual i and every coordinate k (every event q), ALL the traced trajectory
    and attachment formulas (and, with n_log_nu, the Weibull event terms) take the value they had before; no other
    variable is touched.  [step_preserves], [formulas_invariant], [event_invariant]: Formulas/GaugeAll.v. *)
Theorem C10_step_is_pure_gauge_all_classes :
  Forall (fun e => step_preserves (fst (snd e)) (snd (snd e))) gen_center_scripts.
Proof. exact all_steps_preserve. Qed.
Print Assumptions C10_step_is_pure_gauge_all_classes.
