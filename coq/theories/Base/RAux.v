(** Real-valued helpers used by the formulas regenerated from the code (T1, tracing). *)
From Coq Require Import Reals Lra.
Local Open Scope R_scope.

Definition sigmoid (x : R) : R := / (1 + exp (- x)).

(** torch's [x ** y] on non-negative bases: [0 ** y] is 0 for y > 0 and 1 for y = 0
    ([Rpower 0 y] would be 1 because Coq sets [ln 0 = 0]).  A negative base (NaN in torch unless
    the exponent is an integer) and [0 ** negative] (inf in torch) are outside the model: every
    theorem using [tpow] states [0 <= x] (and [0 < y] where x may be 0). *)
Definition tpow (x y : R) : R :=
  if Rlt_dec 0 x then Rpower x y
  else if Rlt_dec 0 y then 0 else 1.

Lemma tpow_pos x y : 0 < x -> tpow x y = Rpower x y.
Proof. intros H. unfold tpow. destruct (Rlt_dec 0 x); [reflexivity | contradiction]. Qed.

Lemma tpow_0 y : 0 < y -> tpow 0 y = 0.
Proof.
  intros H. unfold tpow. destruct (Rlt_dec 0 0) as [C|_]; [lra|].
  destruct (Rlt_dec 0 y); [reflexivity | contradiction].
Qed.

Lemma sigmoid_pos x : 0 < sigmoid x.
Proof. unfold sigmoid. apply Rinv_0_lt_compat. pose proof (exp_pos (- x)). lra. Qed.

Lemma sigmoid_lt_1 x : sigmoid x < 1.
Proof.
  unfold sigmoid. pose proof (exp_pos (- x)) as H.
  assert (E : 1 = / 1) by (symmetry; apply Rinv_1).
  rewrite E at 2. apply Rinv_lt_contravar; lra.
Qed.

Lemma sigmoid_incr x y : x <= y -> sigmoid x <= sigmoid y.
Proof.
  intros H. unfold sigmoid.
  pose proof (exp_pos (- x)) as Hx. pose proof (exp_pos (- y)) as Hy.
  assert (He : exp (- y) <= exp (- x)).
  { destruct H as [H|H]; [left; apply exp_increasing; lra | subst; right; reflexivity]. }
  apply Rinv_le_contravar; lra.
Qed.

Lemma sigmoid_0 : sigmoid 0 = / 2.
Proof. unfold sigmoid. rewrite Ropp_0, exp_0. f_equal; lra. Qed.
