(** Small exact-arithmetic helpers shared by the generated (T1) definitions and the models. *)
From Coq Require Import ZArith QArith Qround Qminmax Qabs Bool Lia.

Definition Qlt_bool (x y : Q) : bool := negb (Qle_bool y x).

Lemma Qlt_bool_iff x y : Qlt_bool x y = true <-> x < y.
Proof.
  unfold Qlt_bool. rewrite negb_true_iff. split.
  - intros H. apply Qnot_le_lt. intros C. apply Qle_bool_iff in C. congruence.
  - intros H. destruct (Qle_bool y x) eqn:E; [|reflexivity].
    apply Qle_bool_iff in E. exfalso. apply (Qlt_not_le _ _ H E).
Qed.

(** Python's [int(x)]: truncation toward zero. *)
Definition Qtrunc (x : Q) : Z := if Qle_bool 0 x then Qfloor x else Qceiling x.

Lemma Qtrunc_nonneg x : 0 <= x -> Qtrunc x = Qfloor x.
Proof. intros H. unfold Qtrunc. apply Qle_bool_iff in H. now rewrite H. Qed.

Definition Qmax := Qminmax.Qmax.
Definition Qmin := Qminmax.Qmin.
