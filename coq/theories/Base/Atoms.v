(** Extended atoms: exact rationals plus the three IEEE specials (+inf, -inf, NaN).

    Arithmetic follows IEEE-754 for the specials (0*inf = NaN, inf-inf = NaN, NaN absorbs,
    x/0 = +-inf, 0/0 = NaN, comparisons with NaN are false, pow(x,0) = 1 even for NaN)
    but there is NO rounding and NO overflow on finite values, and no signed zero (a zero
    divisor counts as +0).  Definitions only; lemmas are in AtomsProofs.v. *)
From Coq Require Import QArith Qabs ZArith NArith Bool.

Inductive atom : Type :=
| Fin (q : Q)
| PInf
| NInf
| NaN.

Definition azero : atom := Fin 0.
Definition aone : atom := Fin 1.
Definition ofZ (z : Z) : atom := Fin (inject_Z z).
Definition ofN (n : N) : atom := Fin (inject_Z (Z.of_N n)).
Definition ofbool (b : bool) : atom := if b then aone else azero.

(** sign of a rational: Lt / Eq / Gt *)
Definition qsign (q : Q) : comparison := (Qnum q ?= 0)%Z.

Definition aneg (a : atom) : atom :=
  match a with
  | Fin q => Fin (- q)
  | PInf => NInf
  | NInf => PInf
  | NaN => NaN
  end.

Definition aadd (a b : atom) : atom :=
  match a, b with
  | NaN, _ | _, NaN => NaN
  | Fin x, Fin y => Fin (x + y)
  | PInf, NInf | NInf, PInf => NaN
  | PInf, _ | _, PInf => PInf
  | NInf, _ | _, NInf => NInf
  end.

Definition asub (a b : atom) : atom := aadd a (aneg b).

(** signed infinity *)
Definition inf_of (positive : bool) : atom := if positive then PInf else NInf.

(** inf (of the given sign) times a finite q *)
Definition inf_times (positive : bool) (q : Q) : atom :=
  match qsign q with
  | Eq => NaN
  | Gt => inf_of positive
  | Lt => inf_of (negb positive)
  end.

Definition amul (a b : atom) : atom :=
  match a, b with
  | NaN, _ | _, NaN => NaN
  | Fin x, Fin y => Fin (x * y)
  | PInf, Fin y | Fin y, PInf => inf_times true y
  | NInf, Fin y | Fin y, NInf => inf_times false y
  | PInf, PInf | NInf, NInf => PInf
  | PInf, NInf | NInf, PInf => NInf
  end.

Definition adiv (a b : atom) : atom :=
  match a, b with
  | NaN, _ | _, NaN => NaN
  | Fin x, Fin y =>
      match qsign y with
      | Eq => match qsign x with Eq => NaN | Gt => PInf | Lt => NInf end
      | _ => Fin (x / y)
      end
  | Fin _, (PInf | NInf) => Fin 0
  | PInf, Fin y => match qsign y with Lt => NInf | _ => PInf end
  | NInf, Fin y => match qsign y with Lt => PInf | _ => NInf end
  | (PInf | NInf), (PInf | NInf) => NaN
  end.

Definition aabs (a : atom) : atom :=
  match a with
  | Fin q => Fin (Qabs q)
  | PInf | NInf => PInf
  | NaN => NaN
  end.

(** integer power by repeated multiplication; pow x 0 = 1 for every x (IEEE / torch) *)
Fixpoint apow (a : atom) (n : nat) : atom :=
  match n with
  | O => aone
  | S k => amul a (apow a k)
  end.

(** comparisons: anything involving NaN is false (and [ane] true) *)
Definition alt (a b : atom) : bool :=
  match a, b with
  | NaN, _ | _, NaN => false
  | Fin x, Fin y => match x ?= y with Lt => true | _ => false end
  | NInf, NInf => false
  | NInf, _ => true
  | _, PInf => match a with PInf => false | _ => true end
  | _, _ => false
  end.

Definition aeq (a b : atom) : bool :=
  match a, b with
  | Fin x, Fin y => Qeq_bool x y
  | PInf, PInf | NInf, NInf => true
  | _, _ => false
  end.

Definition ale (a b : atom) : bool := alt a b || aeq a b.
Definition agt (a b : atom) : bool := alt b a.
Definition age (a b : atom) : bool := ale b a.
Definition ane (a b : atom) : bool := negb (aeq a b).

(** equality used when comparing with the implementation (NaN equals NaN here; rationals up to Qeq) *)
Definition atom_same (a b : atom) : bool :=
  match a, b with
  | NaN, NaN => true
  | _, _ => aeq a b
  end.
