(** Lemmas on extended atoms used by the masked-tensor proofs (Leibniz equalities, no setoid). *)
From Coq Require Import QArith Qabs ZArith NArith Bool Lia.
From Leaspy Require Import Base.Atoms.

Lemma Qplus_0_r_eq : forall q : Q, (q + 0)%Q = q.
Proof.
  intros [n d]. unfold Qplus. simpl.
  rewrite Z.mul_1_r, Z.add_0_r, Pos.mul_1_r. reflexivity.
Qed.

Lemma Qplus_0_l_eq : forall q : Q, (0 + q)%Q = q.
Proof.
  intros [n d]. unfold Qplus. simpl.
  rewrite Z.mul_1_r. reflexivity.
Qed.

Lemma aadd_zero_r : forall a, aadd a azero = a.
Proof.
  intros [q| | |]; simpl; try reflexivity. now rewrite Qplus_0_r_eq.
Qed.

Lemma aadd_zero_l : forall a, aadd azero a = a.
Proof.
  intros [q| | |]; simpl; try reflexivity. now rewrite Qplus_0_l_eq.
Qed.

Lemma amul_w0_zero : amul (ofN 0) azero = azero.
Proof. reflexivity. Qed.

Lemma amul_zero_zero : amul azero azero = azero.
Proof. reflexivity. Qed.

(** the leak that [filled 0] prevents: 0 * NaN and 0 * inf are NaN *)
Lemma amul_w0_nan : amul (ofN 0) NaN = NaN.
Proof. reflexivity. Qed.
Lemma amul_w0_inf : amul (ofN 0) PInf = NaN.
Proof. reflexivity. Qed.

Lemma ofN_1_mul : forall a, amul (ofN 1) a = match a with Fin q => Fin (1 * q) | x => x end.
Proof. intros [q| | |]; reflexivity. Qed.
