(** C07 — executable row form of one individual-sampler step over exact rationals (definitions only), used by the
    harness to compare, inside Coq, every recorded (individual, variable, step) of the real IndividualGibbsSampler with
    the step computed from that individual's OWN entries.  It is the right-hand side of [C07_sampler_row_form] with
      decide _ _ _ u := u < alpha_j            (samplers/base.py:114, alpha_j recorded from the implementation),
      the row kept or replaced                 (gibbs.py:731-758),
      history shifted by one                   (base.py:157-160),
      adapt std h := std * (1 -/+ factor) when the mean of h is below lo / above hi   (gibbs.py:204-216). *)
From Coq Require Import ZArith QArith Qabs Bool List.
From Leaspy Require Import Base.QAux.
Import ListNotations.

Definition count_true (h : list bool) : nat := length (filter (fun b => b) h).

Definition mean_acc (h : list bool) : Q :=
  match h with
  | [] => 0
  | _ => Z.of_nat (count_true h) # Pos.of_nat (length h)
  end.

Definition adapt_Q (lo hi factor std : Q) (h : list bool) : Q :=
  let m := mean_acc h in
  if Qlt_bool m lo then std * (1 - factor) else if Qlt_bool hi m then std * (1 + factor) else std.

Definition row_step (u alpha : Q) (old prop : list Q) (hist : list bool) (trigger : bool) (std lo hi factor : Q)
  : bool * list Q * list bool * Q :=
  let acc := Qlt_bool u alpha in
  let h' := tl hist ++ [acc] in
  (acc, if acc then prop else old, h', if trigger then adapt_Q lo hi factor std h' else std).

Fixpoint list_Qeq (a b : list Q) : bool :=
  match a, b with
  | [], [] => true
  | x :: r, y :: s => Qeq_bool x y && list_Qeq r s
  | _, _ => false
  end.

Fixpoint list_beq (a b : list bool) : bool :=
  match a, b with
  | [], [] => true
  | x :: r, y :: s => Bool.eqb x y && list_beq r s
  | _, _ => false
  end.

(** one recorded case: (u_j, alpha_j, old row, proposed row, history of j, trigger, std_j, (lo, hi, factor),
    (observed decision, observed row, observed history, observed std, _)) *)
Definition row_case_ok
  (c : Q * Q * list Q * list Q * list bool * bool * Q * (Q * Q * Q) * (bool * list Q * list bool * Q * bool)) : bool :=
  match c with
  | (u, alpha, old, prop, hist, trigger, std, (lo, hi, factor), (acc, new, hist_new, std_new, _)) =>
      match row_step u alpha old prop hist trigger std lo hi factor with
      | (a, r, h, s) =>
          Bool.eqb a acc && list_Qeq r new && list_beq h hist_new
          && Qle_bool (Qabs (s - std_new)) ((1 # 1000000) * Qabs s)
      end
  end.
