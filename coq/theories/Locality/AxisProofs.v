(** Proofs about the individual-axis type system of [AxisTypes.v]. *)
From Coq Require Import List Bool Arith PeanoNat Lia Permutation.
From Leaspy Require Import Locality.AxisTypes.
Import ListNotations.

Lemma upd_same {X} (e : nat -> option X) i x : upd e i x i = x.
Proof. unfold upd. now rewrite Nat.eqb_refl. Qed.

Lemma upd_other {X} (e : nat -> option X) i j x : j <> i -> upd e i x j = e j.
Proof. unfold upd. intros H. apply Nat.eqb_neq in H. now rewrite H. Qed.

Lemma gather_ext {X} (e e' : nat -> option X) ps :
  (forall q, In q ps -> e q = e' q) -> gather e ps = gather e' ps.
Proof.
  induction ps as [|p r IH]; simpl; intros H; [reflexivity|].
  rewrite (H p) by now left. rewrite IH; [reflexivity|]. intros q Hq. apply H. now right.
Qed.

Lemma gather_some_in {X} (e : nat -> option X) ps xs :
  gather e ps = Some xs -> forall q, In q ps -> e q <> None.
Proof.
  revert xs. induction ps as [|p r IH]; simpl; intros xs H q Hq; [contradiction|].
  destruct (e p) eqn:Ep; [|discriminate]. destruct (gather e r) eqn:Er; [|discriminate].
  destruct Hq as [<-|Hq]; [congruence|]. eapply IH; eauto.
Qed.

Lemma gather_length {X} (e : nat -> option X) ps xs : gather e ps = Some xs -> length xs = length ps.
Proof.
  revert xs. induction ps as [|p r IH]; simpl; intros xs H.
  - now inversion H.
  - destruct (e p); [|discriminate]. destruct (gather e r); [|discriminate]. inversion H; subst. simpl. f_equal. now apply IH.
Qed.

(** ** List facts *)
Lemma nth_map_seq {X} (F : nat -> X) n k d : k < n -> nth k (map F (seq 0 n)) d = F k.
Proof.
  intros H. rewrite (nth_indep _ d (F 0)) by (rewrite map_length, seq_length; exact H).
  rewrite map_nth. now rewrite seq_nth.
Qed.

Lemma nth_map_lt {X Y} (F : X -> Y) (l : list X) j d d' : j < length l -> nth j (map F l) d' = F (nth j l d).
Proof.
  intros H. rewrite (nth_indep _ d' (F d)) by (now rewrite map_length). apply map_nth.
Qed.

Lemma map_nth_seq {X} (l : list X) d : map (fun j => nth j l d) (seq 0 (length l)) = l.
Proof.
  apply nth_ext with (d := d) (d' := d).
  - now rewrite map_length, seq_length.
  - intros k Hk. rewrite map_length, seq_length in Hk. now rewrite nth_map_seq.
Qed.

Lemma map_seq_nth {X} (G : nat -> X) (p : list nat) :
  map (fun j => G (nth j p 0)) (seq 0 (length p)) = map G p.
Proof.
  rewrite <- (map_map (fun j => nth j p 0) G). now rewrite map_nth_seq.
Qed.

Lemma kind_parents_agg k pl l : level_of_kind k pl = Some l -> In LAgg pl -> l = LAgg.
Proof.
  intros H Hin. destruct k; simpl in H.
  - destruct (existsb is_ind pl && forallb ind_or_pop pl) eqn:E; [|discriminate].
    apply andb_true_iff in E as [_ E]. rewrite forallb_forall in E. specialize (E _ Hin). discriminate.
  - destruct (forallb (fun l0 => negb (is_ind l0)) pl); [|discriminate].
    destruct (forallb is_pop pl) eqn:E; [|congruence].
    rewrite forallb_forall in E. specialize (E _ Hin). discriminate.
  - destruct pl as [|[] [|[] [|]]]; try discriminate. destruct Hin as [H1|[H1|[]]]; discriminate.
  - destruct (existsb is_ind pl && forallb ind_or_pop pl) eqn:E; [|discriminate].
    apply andb_true_iff in E as [_ E]. rewrite forallb_forall in E. specialize (E _ Hin). discriminate.
  - destruct (existsb is_ind pl && forallb ind_or_pop pl); congruence.
  - destruct (forallb (fun l0 => negb (is_ind l0)) pl); [|discriminate].
    destruct (forallb is_pop pl) eqn:E; [|congruence].
    rewrite forallb_forall in E. specialize (E _ Hin). discriminate.
Qed.

(** ** The checker: coverage, signatures, closure under parents *)
Section Checker.
  Variable g : list node.

  Lemma node_level_fresh lv i l : node_level g lv i = Some l -> lv i = None.
  Proof.
    unfold node_level. destruct (nth_error g i); [|discriminate]. destruct (lv i); [discriminate|reflexivity].
  Qed.

  Lemma node_level_sig lv i l nd :
    node_level g lv i = Some l -> nth_error g i = Some nd -> sig_of_level l = n_sig nd.
  Proof.
    unfold node_level. intros H E. rewrite E in H. destruct (lv i); [discriminate|].
    destruct (n_kind nd).
    - destruct (n_parents nd); [|discriminate]. inversion H. now destruct (n_sig nd).
    - destruct (gather lv (n_parents nd)); [|discriminate].
      destruct (level_of_kind k l0) as [l'|]; [|discriminate].
      destruct (sig_eqb (sig_of_level l') (n_sig nd)) eqn:S; [|discriminate].
      inversion H; subst. destruct (sig_of_level l), (n_sig nd); simpl in S; congruence.
  Qed.

  Lemma node_level_parents lv i l nd :
    node_level g lv i = Some l -> nth_error g i = Some nd -> forall q, In q (n_parents nd) -> lv q <> None.
  Proof.
    unfold node_level. intros H E. rewrite E in H. destruct (lv i); [discriminate|].
    destruct (n_kind nd).
    - destruct (n_parents nd); [|discriminate]. intros q [].
    - destruct (gather lv (n_parents nd)) eqn:G; [|discriminate]. intros q Hq. eapply gather_some_in; eauto.
  Qed.

  Definition lv_mono (lv lv' : lenv) : Prop := forall i l, lv i = Some l -> lv' i = Some l.

  Lemma check_order_mono order : forall lv lvF, check_order g order lv = Some lvF -> lv_mono lv lvF.
  Proof.
    induction order as [|i r IH]; simpl; intros lv lvF H.
    - inversion H. now intros ? ?.
    - destruct (node_level g lv i) eqn:N; [|discriminate].
      intros j l' Hj. apply (IH _ _ H). rewrite upd_other; [exact Hj|].
      intros ->. apply node_level_fresh in N. congruence.
  Qed.

  Definition sig_ok (lv : lenv) : Prop :=
    forall i l nd, lv i = Some l -> nth_error g i = Some nd -> sig_of_level l = n_sig nd.

  Lemma check_order_sig order : forall lv lvF, check_order g order lv = Some lvF -> sig_ok lv -> sig_ok lvF.
  Proof.
    induction order as [|i r IH]; simpl; intros lv lvF H Hs.
    - now inversion H; subst.
    - destruct (node_level g lv i) eqn:N; [|discriminate].
      apply (IH _ _ H). intros j l' nd Hj E.
      destruct (Nat.eq_dec j i) as [->|Hne].
      + rewrite upd_same in Hj. inversion Hj; subst. eapply node_level_sig; eauto.
      + rewrite upd_other in Hj by exact Hne. eapply Hs; eauto.
  Qed.

  Lemma covered_spec lv n : covered lv n = true -> forall i, i < n -> exists l, lv i = Some l.
  Proof.
    unfold covered. rewrite forallb_forall. intros H i Hi.
    specialize (H i). destruct (lv i) eqn:E; [eauto|].
    assert (In i (seq 0 n)) by (apply in_seq; lia). specialize (H H0). discriminate.
  Qed.
End Checker.

Lemma well_typed_levels G : well_typed G = true ->
  exists lv, levels G = Some lv /\
    (forall i, i < length (g_nodes G) -> exists l, lv i = Some l) /\
    (forall i l nd, lv i = Some l -> nth_error (g_nodes G) i = Some nd -> sig_of_level l = n_sig nd).
Proof.
  unfold well_typed. destruct (levels G) as [lv|] eqn:E; [|discriminate]. intros C.
  exists lv. split; [reflexivity|]. split.
  - now apply covered_spec.
  - unfold levels in E. eapply check_order_sig; eauto. intros i l nd H. discriminate.
Qed.

Lemma well_typed_ind_level G i nd : well_typed G = true -> nth_error (g_nodes G) i = Some nd ->
  n_sig nd = Ind -> level_at G i = Some LInd.
Proof.
  intros W E S. destruct (well_typed_levels G W) as (lv & EL & Cov & Sig).
  unfold level_at. rewrite EL.
  destruct (Cov i) as [l Hl]. { apply nth_error_Some. congruence. }
  rewrite Hl. specialize (Sig _ _ _ Hl E). rewrite S in Sig. destruct l; simpl in Sig; congruence.
Qed.

Lemma well_typed_pop_level G i nd : well_typed G = true -> nth_error (g_nodes G) i = Some nd ->
  n_sig nd = Pop -> level_at G i = Some LPop \/ level_at G i = Some LAgg.
Proof.
  intros W E S. destruct (well_typed_levels G W) as (lv & EL & Cov & Sig).
  unfold level_at. rewrite EL.
  destruct (Cov i) as [l Hl]. { apply nth_error_Some. congruence. }
  rewrite Hl. specialize (Sig _ _ _ Hl E). rewrite S in Sig. destruct l; simpl in Sig; try congruence; auto.
Qed.

(** ** Semantics *)
Section Sem.
  Variable A : Type.
  Variable add : A -> A -> A.
  Notation value := (value A).
  Notation row := (row A).
  Notation env := (env A).
  Notation nodefun := (nodefun A).

  Variable g : list node.
  Variable fs : nat -> nodefun.

  Lemma eval_node_ext inp n (e e' : env) i :
    (forall nd, nth_error g i = Some nd -> forall q, In q (n_parents nd) -> e q = e' q) ->
    eval_node A add g fs inp n e i = eval_node A add g fs inp n e' i.
  Proof.
    intros H. unfold eval_node. destruct (nth_error g i) as [nd|]; [|reflexivity].
    destruct (n_kind nd); [reflexivity|]. rewrite (gather_ext e e'); [reflexivity|]. now apply H.
  Qed.

  (** *** Re-indexing the individual axis *)
  Section Reindex.
    Variable p : list nat.
    Variables n1 : nat.
    Variables inp1 inp2 : nat -> value.
    Hypothesis Hp : forall k, In k p -> k < n1.
    Hypothesis Hin : forall i nd, nth_error g i = Some nd -> n_kind nd = Indep -> inp2 i = reindex A p (inp1 i).

    Definition AggOK : Prop :=
      (forall x y, add x y = add y x) /\ (forall x y z, add x (add y z) = add (add x y) z) /\
      Permutation p (seq 0 n1).

    Definition RInv (lv : lenv) (e1 e2 : env) : Prop :=
      forall i l, lv i = Some l -> (l = LAgg -> AggOK) ->
        forall v1, e1 i = Some v1 -> e2 i = Some (reindex A p v1).

    Lemma pops_of_reindex vs : pops_of A (map (reindex A p) vs) = pops_of A vs.
    Proof. induction vs as [|[r|rows] t IH]; simpl; congruence. Qed.

    Lemma inds_of_reindex vs : inds_of A (map (reindex A p) vs) = map (reindex_rows A p) (inds_of A vs).
    Proof. induction vs as [|[r|rows] t IH]; simpl; congruence. Qed.

    Lemma all_pop_reindex vs : all_pop A vs = true -> map (reindex A p) vs = vs.
    Proof.
      induction vs as [|[r|rows] t IH]; simpl; intros H; try discriminate; [reflexivity|].
      now rewrite IH.
    Qed.

    Lemma slice_reindex j inds : j < length p ->
      slice A j (map (reindex_rows A p) inds) = slice A (nth j p 0) inds.
    Proof.
      intros Hj. unfold slice. rewrite map_map. apply map_ext. intros rows. unfold reindex_rows.
      now rewrite (nth_map_lt (fun k => nth k rows []) p j 0).
    Qed.

    Lemma reindex_rows_map_seq (F : nat -> row) : reindex_rows A p (map F (seq 0 n1)) = map F p.
    Proof.
      unfold reindex_rows. apply map_ext_in. intros k Hk. apply nth_map_seq. now apply Hp.
    Qed.

    Lemma rows_reindexed (F : list row -> row) inds :
      map (fun j => F (slice A j (map (reindex_rows A p) inds))) (seq 0 (length p))
      = map (fun k => F (slice A k inds)) p.
    Proof.
      rewrite <- (map_seq_nth (fun k => F (slice A k inds)) p).
      apply map_ext_in. intros j Hj. apply in_seq in Hj. rewrite slice_reindex by lia. reflexivity.
    Qed.

    Lemma gather_reindex lv (e1 e2 : env) : RInv lv e1 e2 ->
      forall ps pl vs1, gather lv ps = Some pl -> gather e1 ps = Some vs1 ->
        (forall l, In l pl -> l = LAgg -> AggOK) ->
        gather e2 ps = Some (map (reindex A p) vs1).
    Proof.
      intros HI. induction ps as [|q r IH]; simpl; intros pl vs1 Hl H1 Hc.
      - inversion H1. reflexivity.
      - destruct (lv q) as [lq|] eqn:Lq; [|discriminate]. destruct (gather lv r) as [pr|] eqn:Lr; [|discriminate].
        destruct (e1 q) as [v|] eqn:E1; [|discriminate]. destruct (gather e1 r) as [vr|] eqn:G1; [|discriminate].
        inversion Hl; subst. inversion H1; subst.
        rewrite (HI q lq Lq (Hc lq (or_introl eq_refl)) v E1).
        rewrite (IH pr vr eq_refl eq_refl); [reflexivity|]. intros l Hl'. apply Hc. now right.
    Qed.

    Lemma vadd_comm : (forall x y, add x y = add y x) -> forall a b, vadd A add a b = vadd A add b a.
    Proof.
      intros C. induction a as [|x r IH]; destruct b as [|y s]; simpl; try reflexivity.
      now rewrite C, IH.
    Qed.

    Lemma vadd_assoc : (forall x y z, add x (add y z) = add (add x y) z) ->
      forall a b c, vadd A add a (vadd A add b c) = vadd A add (vadd A add a b) c.
    Proof.
      intros Asc. induction a as [|x r IH]; destruct b as [|y s]; destruct c as [|z t]; simpl; try reflexivity.
      now rewrite Asc, IH.
    Qed.

    Lemma vsum_perm : (forall x y, add x y = add y x) -> (forall x y z, add x (add y z) = add (add x y) z) ->
      forall l l', Permutation l l' -> vsum A add l = vsum A add l'.
    Proof.
      intros C Asc l l' P. induction P; simpl.
      - reflexivity.
      - now rewrite IHP.
      - rewrite !(vadd_assoc Asc). now rewrite (vadd_comm C y x).
      - congruence.
    Qed.

    Lemma reindex_step lv (e1 e2 : env) i l : RInv lv e1 e2 ->
      node_level g lv i = Some l -> (l = LAgg -> AggOK) ->
      forall v1, eval_node A add g fs inp1 n1 e1 i = Some v1 ->
        eval_node A add g fs inp2 (length p) e2 i = Some (reindex A p v1).
    Proof.
      intros HI HN Hagg v1. unfold node_level in HN. unfold eval_node.
      destruct (nth_error g i) as [nd|] eqn:E; [|discriminate].
      destruct (lv i); [discriminate|].
      destruct (n_kind nd) as [|k] eqn:K.
      - rewrite (Hin i nd E K). destruct (inp1 i) as [r|rows]; destruct (n_sig nd); simpl; try discriminate.
        + intros H. inversion H. reflexivity.
        + destruct (Nat.eqb (length rows) n1); [|discriminate]. intros H. inversion H; subst.
          unfold reindex_rows at 1. rewrite map_length, Nat.eqb_refl. reflexivity.
      - destruct (gather lv (n_parents nd)) as [pl|] eqn:GL; [|discriminate].
        destruct (level_of_kind k pl) as [l'|] eqn:LK; [|discriminate].
        destruct (sig_eqb (sig_of_level l') (n_sig nd)); [|discriminate]. inversion HN; subst l'.
        destruct (gather e1 (n_parents nd)) as [vs1|] eqn:G1; [|discriminate].
        assert (G2 : gather e2 (n_parents nd) = Some (map (reindex A p) vs1)).
        { eapply gather_reindex; eauto. intros lq Hq ->. apply Hagg. eapply kind_parents_agg; eauto. }
        rewrite G2. rewrite pops_of_reindex, inds_of_reindex.
        assert (RL : forall v, Some (VInd (map (fun j => frow (fs i) (pops_of A vs1) (slice A j (inds_of A vs1))) (seq 0 n1))) = Some v ->
                     Some (VInd (map (fun j => frow (fs i) (pops_of A vs1) (slice A j (map (reindex_rows A p) (inds_of A vs1)))) (seq 0 (length p))))
                     = Some (reindex A p v)).
        { intros v H. inversion H; subst. simpl. rewrite reindex_rows_map_seq.
          now rewrite (rows_reindexed (frow (fs i) (pops_of A vs1))). }
        destruct k; try exact (RL v1).
        + (* BroadcastPop *)
          destruct (all_pop A vs1) eqn:AP; [|discriminate]. rewrite (all_pop_reindex vs1 AP), AP.
          intros H. inversion H. reflexivity.
        + (* ReduceInd *)
          intros H. inversion H; subst. simpl.
          rewrite (rows_reindexed (frow (fs i) (pops_of A vs1))).
          assert (l = LAgg) as ->.
          { simpl in LK. destruct (existsb is_ind pl && forallb ind_or_pop pl); congruence. }
          destruct (Hagg eq_refl) as (C & Asc & P).
          do 2 f_equal. apply (vsum_perm C Asc). now apply Permutation_map.
        + (* Opaque *)
          destruct (all_pop A vs1) eqn:AP; [|discriminate]. rewrite (all_pop_reindex vs1 AP), AP.
          intros H. inversion H. reflexivity.
    Qed.

    Lemma reindex_order order : forall lv lvF (e1 e2 : env),
      check_order g order lv = Some lvF -> RInv lv e1 e2 ->
      RInv lvF (eval_order A add g fs inp1 n1 order e1) (eval_order A add g fs inp2 (length p) order e2).
    Proof.
      induction order as [|i r IH]; simpl; intros lv lvF e1 e2 H HI.
      - now inversion H; subst.
      - destruct (node_level g lv i) as [l|] eqn:N; [|discriminate].
        apply (IH _ _ _ _ H). intros j lj Hj Hagg v1 Hv.
        destruct (Nat.eq_dec j i) as [->|Hne].
        + rewrite upd_same in Hj. rewrite upd_same in Hv. rewrite upd_same. inversion Hj; subst lj.
          exact (reindex_step lv e1 e2 i l HI N Hagg v1 Hv).
        + rewrite upd_other in Hj by exact Hne. rewrite upd_other in Hv by exact Hne. rewrite upd_other by exact Hne.
          exact (HI j lj Hj Hagg v1 Hv).
    Qed.
  End Reindex.

  (** *** The final environment is a fixed point: every node's value is its function of its parents' final values *)
  Definition FInv (inp : nat -> value) (n : nat) (lv : lenv) (e : env) : Prop :=
    (forall i, lv i <> None -> e i = eval_node A add g fs inp n e i) /\
    (forall i nd, lv i <> None -> nth_error g i = Some nd -> forall q, In q (n_parents nd) -> lv q <> None).

  Lemma fix_order inp n order : forall lv lvF (e : env),
    check_order g order lv = Some lvF -> FInv inp n lv e -> FInv inp n lvF (eval_order A add g fs inp n order e).
  Proof.
    induction order as [|i r IH]; simpl; intros lv lvF e H HI.
    - now inversion H; subst.
    - destruct (node_level g lv i) as [l|] eqn:N; [|discriminate].
      apply (IH _ _ _ H). destruct HI as [HF HC]. pose proof (node_level_fresh g lv i l N) as Fr. split.
      + intros j Hj. destruct (Nat.eq_dec j i) as [->|Hne].
        * rewrite upd_same. apply eval_node_ext. intros nd E q Hq. rewrite upd_other; [reflexivity|].
          intros ->. eapply (node_level_parents g lv i l nd N E); eauto.
        * rewrite upd_other in Hj by exact Hne. rewrite upd_other by exact Hne. rewrite (HF j Hj).
          apply eval_node_ext. intros nd E q Hq. rewrite upd_other; [reflexivity|].
          intros ->. apply (HC j nd Hj E i Hq). exact Fr.
      + intros j nd Hj E q Hq. destruct (Nat.eq_dec j i) as [->|Hne].
        * pose proof (node_level_parents g lv i l nd N E q Hq) as Hq'.
          destruct (Nat.eq_dec q i) as [->|Hqi]; [rewrite upd_same; discriminate|now rewrite upd_other].
        * rewrite upd_other in Hj by exact Hne. pose proof (HC j nd Hj E q Hq).
          destruct (Nat.eq_dec q i) as [->|Hqi]; [rewrite upd_same; discriminate|now rewrite upd_other].
  Qed.

  (** *** Progress and shapes *)
  Definition inputs_wf (inp : nat -> value) (n : nat) : Prop :=
    forall i nd, nth_error g i = Some nd -> n_kind nd = Indep ->
      match n_sig nd with
      | Pop => exists r, inp i = VPop r
      | Ind => exists rows, inp i = VInd rows /\ length rows = n
      end.

  Definition shape_ok (n : nat) (l : level) (v : value) : Prop :=
    match l with
    | LInd => exists rows, v = VInd rows /\ length rows = n
    | _ => exists r, v = VPop r
    end.

  Definition PInv (n : nat) (lv : lenv) (e : env) : Prop :=
    forall i l, lv i = Some l -> exists v, e i = Some v /\ shape_ok n l v.

  Lemma gather_progress n lv (e : env) : PInv n lv e ->
    forall ps pl, gather lv ps = Some pl ->
      exists vs, gather e ps = Some vs /\ Forall2 (shape_ok n) pl vs.
  Proof.
    intros HI. induction ps as [|q r IH]; simpl; intros pl H.
    - inversion H. exists []. split; [reflexivity|constructor].
    - destruct (lv q) as [lq|] eqn:Lq; [|discriminate]. destruct (gather lv r) as [pr|]; [|discriminate].
      inversion H; subst. destruct (HI q lq Lq) as (v & Ev & Sv). destruct (IH pr eq_refl) as (vs & Gv & Fv).
      exists (v :: vs). rewrite Ev, Gv. split; [reflexivity|now constructor].
  Qed.

  Lemma all_pop_shapes n pl vs : Forall2 (shape_ok n) pl vs ->
    forallb (fun l => negb (is_ind l)) pl = true -> all_pop A vs = true.
  Proof.
    induction 1 as [|l v pl vs Hs _ IH]; simpl; intros H; [reflexivity|].
    apply andb_true_iff in H as [H1 H2]. rewrite (IH H2), andb_true_r.
    destruct l; simpl in *; try discriminate; destruct Hs as [r ->]; reflexivity.
  Qed.

  Lemma progress_step inp n lv (e : env) i l : inputs_wf inp n -> PInv n lv e ->
    node_level g lv i = Some l -> exists v, eval_node A add g fs inp n e i = Some v /\ shape_ok n l v.
  Proof.
    intros Hwf HI HN. unfold node_level in HN. unfold eval_node.
    destruct (nth_error g i) as [nd|] eqn:E; [|discriminate]. destruct (lv i); [discriminate|].
    destruct (n_kind nd) as [|k] eqn:K.
    - destruct (n_parents nd); [|discriminate]. specialize (Hwf i nd E K).
      destruct (n_sig nd); inversion HN; subst.
      + destruct Hwf as [r ->]. eexists; split; [reflexivity|]. now exists r.
      + destruct Hwf as (rows & -> & Hl). rewrite Hl, Nat.eqb_refl. eexists; split; [reflexivity|]. now exists rows.
    - destruct (gather lv (n_parents nd)) as [pl|] eqn:GL; [|discriminate].
      destruct (level_of_kind k pl) as [l'|] eqn:LK; [|discriminate].
      destruct (sig_eqb (sig_of_level l') (n_sig nd)); [|discriminate]. inversion HN; subst l'.
      destruct (gather_progress n lv e HI _ _ GL) as (vs & Gv & Fv). rewrite Gv.
      assert (RL : forall F : nat -> row, exists rows, VInd (map F (seq 0 n)) = VInd rows /\ length rows = n).
      { intros F. eexists; split; [reflexivity|]. now rewrite map_length, seq_length. }
      destruct k; simpl in LK.
      + destruct (existsb is_ind pl && forallb ind_or_pop pl); inversion LK; subst.
        eexists; split; [reflexivity|]. apply RL.
      + destruct (forallb (fun l0 => negb (is_ind l0)) pl) eqn:NI; [|discriminate].
        rewrite (all_pop_shapes n pl vs Fv NI). eexists; split; [reflexivity|].
        destruct (forallb is_pop pl); inversion LK; subst; simpl; eauto.
      + destruct pl as [|[] [|[] [|]]]; try discriminate. inversion LK; subst.
        eexists; split; [reflexivity|]. apply RL.
      + destruct (existsb is_ind pl && forallb ind_or_pop pl); inversion LK; subst.
        eexists; split; [reflexivity|]. apply RL.
      + destruct (existsb is_ind pl && forallb ind_or_pop pl); inversion LK; subst.
        eexists; split; [reflexivity|]. simpl. eauto.
      + destruct (forallb (fun l0 => negb (is_ind l0)) pl) eqn:NI; [|discriminate].
        rewrite (all_pop_shapes n pl vs Fv NI). eexists; split; [reflexivity|].
        destruct (forallb is_pop pl); inversion LK; subst; simpl; eauto.
  Qed.

  Lemma progress_order inp n order : inputs_wf inp n -> forall lv lvF (e : env),
    check_order g order lv = Some lvF -> PInv n lv e -> PInv n lvF (eval_order A add g fs inp n order e).
  Proof.
    intros Hwf. induction order as [|i r IH]; simpl; intros lv lvF e H HI.
    - now inversion H; subst.
    - destruct (node_level g lv i) as [l|] eqn:N; [|discriminate].
      apply (IH _ _ _ H). intros j lj Hj. destruct (Nat.eq_dec j i) as [->|Hne].
      + rewrite upd_same in Hj. rewrite upd_same. inversion Hj; subst lj. eapply progress_step; eauto.
      + rewrite upd_other in Hj by exact Hne. rewrite upd_other by exact Hne. eapply HI; eauto.
  Qed.
End Sem.

(** ** Whole-graph statements *)
Section Main.
  Variable A : Type.
  Variable add : A -> A -> A.
  Variable G : graph.
  Variable fs : nat -> nodefun A.
  Hypothesis W : well_typed G = true.

  Definition indep_inputs_related (R : value A -> value A -> Prop) (inp1 inp2 : nat -> value A) : Prop :=
    forall i nd, nth_error (g_nodes G) i = Some nd -> n_kind nd = Indep -> R (inp1 i) (inp2 i).

  (** The core statement: re-indexing the individual axis of the inputs by [p] (any list of valid positions)
      re-indexes every non-aggregated node; aggregated nodes are unchanged when [p] is a permutation and
      the addition is commutative and associative. *)
  Theorem reindex_thm p n1 inp1 inp2 :
    (forall k, In k p -> k < n1) ->
    indep_inputs_related (fun v1 v2 => v2 = reindex A p v1) inp1 inp2 ->
    forall i l, level_at G i = Some l -> (l = LAgg -> AggOK A add p n1) ->
    forall v1, eval A add G fs inp1 n1 i = Some v1 ->
               eval A add G fs inp2 (length p) i = Some (reindex A p v1).
  Proof.
    intros Hp Hin i l Hl Hagg v1 Hv. unfold level_at in Hl.
    destruct (levels G) as [lv|] eqn:EL; [|discriminate]. unfold levels in EL. unfold eval in *.
    refine (reindex_order A add (g_nodes G) fs p n1 inp1 inp2 Hp Hin (g_order G) _ lv _ _ EL _ i l Hl Hagg v1 Hv).
    intros j lj Hj. discriminate.
  Qed.

  Theorem alone_thm n j inp inp1 : j < n ->
    indep_inputs_related (fun v v' => v' = reindex A [j] v) inp inp1 ->
    forall i l, level_at G i = Some l -> l <> LAgg ->
    forall v, eval A add G fs inp n i = Some v -> eval A add G fs inp1 1 i = Some (reindex A [j] v).
  Proof.
    intros Hj Hin i l Hl Hna v Hv.
    apply (reindex_thm [j] n inp inp1) with (l := l); auto.
    - intros k [<-|[]]. exact Hj.
    - intros C. contradiction.
  Qed.

  Theorem locality_thm n1 n2 j1 j2 inp1 inp2 : j1 < n1 -> j2 < n2 ->
    indep_inputs_related (fun v1 v2 => reindex A [j1] v1 = reindex A [j2] v2) inp1 inp2 ->
    forall i l, level_at G i = Some l -> l <> LAgg ->
    forall v1 v2, eval A add G fs inp1 n1 i = Some v1 -> eval A add G fs inp2 n2 i = Some v2 ->
      vrow A j1 v1 = vrow A j2 v2.
  Proof.
    intros H1 H2 Hin i l Hl Hna v1 v2 E1 E2.
    set (inp3 := fun i => reindex A [j1] (inp1 i)).
    assert (R1 : eval A add G fs inp3 1 i = Some (reindex A [j1] v1)).
    { apply (alone_thm n1 j1 inp1 inp3 H1) with (l := l); auto; try (intros q nd _ _; reflexivity). }
    assert (R2 : eval A add G fs inp3 1 i = Some (reindex A [j2] v2)).
    { apply (alone_thm n2 j2 inp2 inp3 H2) with (l := l); auto; try (intros q nd E K; unfold inp3; now apply (Hin q nd)). }
    rewrite R1 in R2. inversion R2 as [R]. destruct v1 as [r1|rows1], v2 as [r2|rows2]; simpl in *; congruence.
  Qed.

  Theorem equivariance_thm p n inp inp' : Permutation p (seq 0 n) ->
    indep_inputs_related (fun v v' => v' = reindex A p v) inp inp' ->
    forall i l, level_at G i = Some l ->
      (l = LAgg -> (forall x y, add x y = add y x) /\ (forall x y z, add x (add y z) = add (add x y) z)) ->
    forall v, eval A add G fs inp n i = Some v -> eval A add G fs inp' n i = Some (reindex A p v).
  Proof.
    intros P Hin i l Hl Halg v Hv.
    assert (Len : length p = n) by (rewrite (Permutation_length P); apply seq_length).
    rewrite <- Len at 1.
    apply (reindex_thm p n inp inp') with (l := l); auto.
    - intros k Hk. apply (Permutation_in _ P) in Hk. apply in_seq in Hk. lia.
    - intros E. destruct (Halg E) as [C Asc]. repeat split; assumption.
  Qed.

  (** Every node evaluates, with the shape its signature announces. *)
  Theorem progress_thm inp n : inputs_wf A (g_nodes G) inp n ->
    forall i nd, nth_error (g_nodes G) i = Some nd ->
      exists v, eval A add G fs inp n i = Some v /\
        match n_sig nd with
        | Ind => exists rows, v = VInd rows /\ length rows = n
        | Pop => exists r, v = VPop r
        end.
  Proof.
    intros Hwf i nd E. destruct (well_typed_levels G W) as (lv & EL & Cov & Sig).
    destruct (Cov i) as [l Hl]. { apply nth_error_Some. congruence. }
    unfold levels in EL.
    assert (PI : PInv A n lv (eval A add G fs inp n)).
    { unfold eval. eapply progress_order; eauto. intros j lj Hj. discriminate. }
    destruct (PI i l Hl) as (v & Ev & Sv). exists v. split; [exact Ev|].
    specialize (Sig i l nd Hl E). destruct l; simpl in Sig; rewrite <- Sig; exact Sv.
  Qed.

  (** The final environment is consistent: each node holds its function of its parents' final values. *)
  Theorem fixpoint_thm inp n i : i < length (g_nodes G) ->
    eval A add G fs inp n i = eval_node A add (g_nodes G) fs inp n (eval A add G fs inp n) i.
  Proof.
    intros Hi. destruct (well_typed_levels G W) as (lv & EL & Cov & Sig).
    destruct (Cov i Hi) as [l Hl]. unfold levels in EL.
    assert (FI : FInv A add (g_nodes G) fs inp n lv (eval A add G fs inp n)).
    { unfold eval. eapply fix_order; eauto. split; intros j; congruence. }
    apply (proj1 FI). congruence.
  Qed.

  (** A [ReduceInd] node is the sum over the individuals of a per-row term. *)
  Theorem totals_thm inp n i nd vs : nth_error (g_nodes G) i = Some nd -> n_kind nd = Linked ReduceInd ->
    gather (eval A add G fs inp n) (n_parents nd) = Some vs ->
    eval A add G fs inp n i =
      Some (VPop (vsum A add (map (fun j => frow (fs i) (pops_of A vs) (slice A j (inds_of A vs))) (seq 0 n)))).
  Proof.
    intros E K Gv. rewrite fixpoint_thm by (apply nth_error_Some; congruence).
    unfold eval_node. now rewrite E, K, Gv.
  Qed.

  (** ... in particular, when the node function has nothing else to reduce (nll_attach = SumDim(nll_attach_ind)),
      the total is the sum of the rows of its operand. *)
  Theorem totals_rows_thm inp n i nd q rows : nth_error (g_nodes G) i = Some nd -> n_kind nd = Linked ReduceInd ->
    n_parents nd = [q] -> eval A add G fs inp n q = Some (VInd rows) -> length rows = n ->
    (forall r, frow (fs i) [] [r] = r) ->
    eval A add G fs inp n i = Some (VPop (vsum A add rows)).
  Proof.
    intros E K Pq Eq Len Hid.
    rewrite (totals_thm inp n i nd [VInd rows] E K) by (rewrite Pq; simpl; now rewrite Eq).
    simpl. do 3 f_equal.
    transitivity (map (fun j => nth j rows []) (seq 0 (length rows))); [|apply map_nth_seq].
    rewrite Len. apply map_ext. intros j. apply Hid.
  Qed.
End Main.

(** ** Shapes of values, without any assumption on the inputs *)
Section Shapes.
  Variable A : Type.
  Variable add : A -> A -> A.
  Variable g : list node.
  Variable fs : nat -> nodefun A.

  Definition shape_rel (l : level) (v : value A) : Prop :=
    match v with VInd _ => l = LInd | VPop _ => l <> LInd end.

  Lemma shape_step inp n lv (e : env A) i l v :
    node_level g lv i = Some l -> eval_node A add g fs inp n e i = Some v -> shape_rel l v.
  Proof.
    unfold node_level, eval_node. destruct (nth_error g i) as [nd|]; [|discriminate].
    destruct (lv i); [discriminate|]. destruct (n_kind nd) as [|k].
    - destruct (n_parents nd); [|discriminate]. destruct (inp i) as [r|rows], (n_sig nd); try discriminate.
      + intros H1 H2. inversion H1; inversion H2; subst. simpl. discriminate.
      + destruct (Nat.eqb (length rows) n); [|discriminate]. intros H1 H2. inversion H1; inversion H2; subst. reflexivity.
    - destruct (gather lv (n_parents nd)) as [pl|]; [|discriminate].
      destruct (level_of_kind k pl) as [l'|] eqn:LK; [|discriminate].
      destruct (sig_eqb (sig_of_level l') (n_sig nd)); [|discriminate].
      destruct (gather e (n_parents nd)) as [vs|]; [|discriminate].
      intros H1 H2. inversion H1; subst l'. destruct k; simpl in LK.
      + destruct (existsb is_ind pl && forallb ind_or_pop pl); inversion LK; inversion H2; subst. reflexivity.
      + destruct (forallb (fun l0 => negb (is_ind l0)) pl); [|discriminate].
        destruct (all_pop A vs); [|discriminate]. inversion H2; subst. simpl.
        destruct (forallb is_pop pl); inversion LK; discriminate.
      + destruct pl as [|[] [|[] [|]]]; try discriminate. inversion LK; inversion H2; subst. reflexivity.
      + destruct (existsb is_ind pl && forallb ind_or_pop pl); inversion LK; inversion H2; subst. reflexivity.
      + destruct (existsb is_ind pl && forallb ind_or_pop pl); inversion LK; inversion H2; subst. simpl. discriminate.
      + destruct (forallb (fun l0 => negb (is_ind l0)) pl); [|discriminate].
        destruct (all_pop A vs); [|discriminate]. inversion H2; subst. simpl.
        destruct (forallb is_pop pl); inversion LK; discriminate.
  Qed.

  Definition SInv (lv : lenv) (e : env A) : Prop := forall i l v, lv i = Some l -> e i = Some v -> shape_rel l v.

  Lemma shape_order inp n order : forall lv lvF (e : env A),
    check_order g order lv = Some lvF -> SInv lv e -> SInv lvF (eval_order A add g fs inp n order e).
  Proof.
    induction order as [|i r IH]; simpl; intros lv lvF e H HI.
    - now inversion H; subst.
    - destruct (node_level g lv i) as [l|] eqn:N; [|discriminate].
      apply (IH _ _ _ H). intros j lj v Hj Hv. destruct (Nat.eq_dec j i) as [->|Hne].
      + rewrite upd_same in Hj. rewrite upd_same in Hv. inversion Hj; subst lj. eapply shape_step; eauto.
      + rewrite upd_other in Hj by exact Hne. rewrite upd_other in Hv by exact Hne. eapply HI; eauto.
  Qed.
End Shapes.

(** ** The same statements phrased with the declared signatures of a well-typed graph *)
Section BySignature.
  Variable A : Type.
  Variable add : A -> A -> A.
  Variable G : graph.
  Variable fs : nat -> nodefun A.
  Hypothesis W : well_typed G = true.

  Lemma level_exists i : i < length (g_nodes G) -> exists l, level_at G i = Some l.
  Proof.
    intros Hi. destruct (well_typed_levels G W) as (lv & EL & Cov & _). unfold level_at. rewrite EL. now apply Cov.
  Qed.

  Theorem value_shape inp n i nd v : nth_error (g_nodes G) i = Some nd -> eval A add G fs inp n i = Some v ->
    match n_sig nd with Ind => exists rows, v = VInd rows | Pop => exists r, v = VPop r end.
  Proof.
    intros E Hv. destruct (well_typed_levels G W) as (lv & EL & Cov & Sig).
    destruct (Cov i) as [l Hl]. { apply nth_error_Some. congruence. }
    unfold levels in EL.
    assert (SI : SInv A lv (eval A add G fs inp n)).
    { unfold eval. eapply shape_order; eauto. intros j lj vj Hj. discriminate. }
    specialize (SI i l v Hl Hv). specialize (Sig i l nd Hl E). rewrite <- Sig.
    destruct v as [r|rows]; simpl in SI.
    - destruct l; simpl; try contradiction; eauto.
    - subst l. simpl. eauto.
  Qed.

  Theorem locality_ind n1 n2 j1 j2 inp1 inp2 : j1 < n1 -> j2 < n2 ->
    indep_inputs_related A G (fun v1 v2 => reindex A [j1] v1 = reindex A [j2] v2) inp1 inp2 ->
    forall i nd, nth_error (g_nodes G) i = Some nd -> n_sig nd = Ind ->
    forall v1 v2, eval A add G fs inp1 n1 i = Some v1 -> eval A add G fs inp2 n2 i = Some v2 ->
      vrow A j1 v1 = vrow A j2 v2.
  Proof.
    intros H1 H2 Hin i nd E S. apply (locality_thm A add G fs n1 n2 j1 j2 inp1 inp2 H1 H2 Hin i LInd).
    - eapply well_typed_ind_level; eauto.
    - discriminate.
  Qed.

  Theorem alone_ind n j inp inp1 : j < n ->
    indep_inputs_related A G (fun v v' => v' = reindex A [j] v) inp inp1 ->
    forall i nd, nth_error (g_nodes G) i = Some nd -> n_sig nd = Ind ->
    forall v, eval A add G fs inp n i = Some v -> eval A add G fs inp1 1 i = Some (reindex A [j] v).
  Proof.
    intros Hj Hin i nd E S. apply (alone_thm A add G fs n j inp inp1 Hj Hin i LInd).
    - eapply well_typed_ind_level; eauto.
    - discriminate.
  Qed.

  Theorem equivariance_ind p n inp inp' : Permutation p (seq 0 n) ->
    indep_inputs_related A G (fun v v' => v' = reindex A p v) inp inp' ->
    forall i nd, nth_error (g_nodes G) i = Some nd -> n_sig nd = Ind ->
    forall v, eval A add G fs inp n i = Some v -> eval A add G fs inp' n i = Some (reindex A p v).
  Proof.
    intros P Hin i nd E S. apply (equivariance_thm A add G fs p n inp inp' P Hin i LInd).
    - eapply well_typed_ind_level; eauto.
    - discriminate.
  Qed.

  Theorem equivariance_all p n inp inp' : Permutation p (seq 0 n) ->
    (forall x y, add x y = add y x) -> (forall x y z, add x (add y z) = add (add x y) z) ->
    indep_inputs_related A G (fun v v' => v' = reindex A p v) inp inp' ->
    forall i nd, nth_error (g_nodes G) i = Some nd ->
    forall v, eval A add G fs inp n i = Some v ->
      match n_sig nd with
      | Ind => eval A add G fs inp' n i = Some (reindex A p v)
      | Pop => eval A add G fs inp' n i = Some v
      end.
  Proof.
    intros P C Asc Hin i nd E v Hv.
    destruct (level_exists i) as [l Hl]. { apply nth_error_Some. congruence. }
    assert (R : eval A add G fs inp' n i = Some (reindex A p v)).
    { apply (equivariance_thm A add G fs p n inp inp' P Hin i l Hl); auto. }
    pose proof (value_shape inp n i nd v E Hv) as Sh.
    destruct (n_sig nd); [|exact R]. destruct Sh as [r ->]. exact R.
  Qed.
End BySignature.
