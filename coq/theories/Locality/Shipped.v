(** C07 — what the translator emits for one shipped model kind, and the computed check on it (definitions only). *)
From Coq Require Import List Bool Arith PeanoNat String.
From Leaspy Require Import Locality.AxisTypes.
Import ListNotations.

Record shipped_graph := mkShipped {
  sg_name : string;
  sg_graph : graph;
  sg_ind_terms : list nat;      (* nll_attach_ind, nll_regul_ind_sum_ind, nll_regul_<v>_ind, model, ...: every node carrying the individual axis that the samplers / personalisation read *)
  sg_ind_latents : list nat;    (* the individual latent variables *)
  sg_totals : list (nat * nat)  (* (total, operand): nll_attach / nll_attach_ind, nll_regul_ind_sum / nll_regul_ind_sum_ind, ... *)
}.

Definition level_is (G : graph) (l : level) (i : nat) : bool :=
  match level_at G i, l with
  | Some LPop, LPop | Some LInd, LInd | Some LAgg, LAgg => true
  | _, _ => false
  end.

Definition is_indep_ind (G : graph) (i : nat) : bool :=
  match nth_error (g_nodes G) i with
  | Some (mkNode Ind Indep _) => true
  | _ => false
  end.

Definition is_total_of (G : graph) (to : nat * nat) : bool :=
  match nth_error (g_nodes G) (fst to) with
  | Some (mkNode Pop (Linked ReduceInd) [q]) => Nat.eqb q (snd to)
  | _ => false
  end.

Definition shipped_ok (s : shipped_graph) : bool :=
  well_typed (sg_graph s)
  && forallb (level_is (sg_graph s) LInd) (sg_ind_terms s)
  && forallb (is_indep_ind (sg_graph s)) (sg_ind_latents s)
  && forallb (is_total_of (sg_graph s)) (sg_totals s)
  && negb (Nat.eqb (List.length (sg_ind_terms s)) 0) && negb (Nat.eqb (List.length (sg_totals s)) 0).

(** the nodes [IndividualGibbsSampler.sample] reads (names regenerated from the source, resolved in each shipped graph for
    each of its individual latent variables): all of them carry the individual axis and are not aggregates *)
Definition sample_reads_local (ss : list shipped_graph) (rs : list (list nat)) : bool :=
  Nat.eqb (List.length ss) (List.length rs)
  && forallb (fun p => forallb (level_is (sg_graph (fst p)) LInd) (snd p) && negb (Nat.eqb (List.length (snd p)) 0))
             (combine ss rs).
