(** C07 — a small type system for the individual axis of leaspy's variable graphs (definitions only).

    Code mirrored:
    - a graph = the model's [VariablesDAG] (variables/dag.py), nodes in name-sorted order, one literal per
      shipped model kind regenerated into coq/gen/GenC07.v;
    - [Indep] = IndepVariable (hyper-parameter, model parameter, data variable, latent variable: specs.py),
      [Linked k] = LinkedVariable (specs.py:910) whose function has op-kind [k];
    - the signature [Pop | Ind] says whether the node's tensor carries the individual axis (LVL_IND = 0, specs.py:85);
    - [ReduceOther] = [sum_dim(..., but_dim=LVL_IND)]  (obs_models/_base.py:104, specs.py:896),
      [ReduceInd]   = [SumDim(x_ind)] = sum over everything of a per-individual tensor (obs_models/_base.py:106,
      specs.py:900, 1071) and the per-feature sums over individuals and visits of the Gaussian observation models,
      [RowMatMul]   = [MatMul("sources", "mixing_matrix")] (individual x population),
      [Pointwise]   = element-wise formulas broadcasting population values over the individuals,
      [BroadcastPop]= population-only computations, [Opaque] = population-only functions that are not analysed
      (Householder basis). *)
From Coq Require Import List Bool Arith PeanoNat.
Import ListNotations.

Inductive sig := Pop | Ind.
Inductive opkind := Pointwise | BroadcastPop | RowMatMul | ReduceOther | ReduceInd | Opaque.
Inductive nkind := Indep | Linked (k : opkind).

(** [n_parents]: direct ancestors in the positional order of the node function's parameters. *)
Record node := mkNode { n_sig : sig; n_kind : nkind; n_parents : list nat }.

(** [g_order]: an evaluation order (the translator emits the code's own topological order
    [dag.sorted_variables_names]); the checker verifies that it is one, nothing is assumed about it. *)
Record graph := mkGraph { g_nodes : list node; g_order : list nat }.

(** What the checker infers for every node: [LPop] = a function of the population inputs only,
    [LInd] = carries the individual axis and is row-local, [LAgg] = a population-shaped value aggregated over
    the individuals (a total).  The declared signature must be the inferred one; [LAgg] values may feed
    population nodes only. *)
Inductive level := LPop | LInd | LAgg.

Definition sig_of_level (l : level) : sig := match l with LInd => Ind | _ => Pop end.
Definition sig_eqb (a b : sig) : bool := match a, b with Pop, Pop | Ind, Ind => true | _, _ => false end.
Definition is_ind (l : level) : bool := match l with LInd => true | _ => false end.
Definition is_pop (l : level) : bool := match l with LPop => true | _ => false end.
Definition is_agg (l : level) : bool := match l with LAgg => true | _ => false end.
Definition ind_or_pop (l : level) : bool := is_ind l || is_pop l.

(** The typing rules. *)
Definition level_of_kind (k : opkind) (pl : list level) : option level :=
  match k with
  | Pointwise | ReduceOther =>
      if existsb is_ind pl && forallb ind_or_pop pl then Some LInd else None
  | RowMatMul => match pl with [LInd; LPop] => Some LInd | _ => None end
  | ReduceInd =>
      if existsb is_ind pl && forallb ind_or_pop pl then Some LAgg else None
  | BroadcastPop | Opaque =>
      if forallb (fun l => negb (is_ind l)) pl then Some (if forallb is_pop pl then LPop else LAgg) else None
  end.

Definition upd {X : Type} (e : nat -> option X) (i : nat) (x : option X) : nat -> option X :=
  fun j => if Nat.eqb j i then x else e j.

Fixpoint gather {X : Type} (e : nat -> option X) (ps : list nat) : option (list X) :=
  match ps with
  | [] => Some []
  | p :: r => match e p, gather e r with Some x, Some xs => Some (x :: xs) | _, _ => None end
  end.

Definition lenv := nat -> option level.

(** Level of node [i] given the levels of the nodes already processed; [None] = rejected
    (unknown index, node processed twice, a parent not processed yet, rule violated, signature mismatch). *)
Definition node_level (g : list node) (lv : lenv) (i : nat) : option level :=
  match nth_error g i with
  | None => None
  | Some nd =>
      match lv i with
      | Some _ => None
      | None =>
          match n_kind nd with
          | Indep => match n_parents nd with
                     | [] => Some (match n_sig nd with Pop => LPop | Ind => LInd end)
                     | _ => None
                     end
          | Linked k =>
              match gather lv (n_parents nd) with
              | None => None
              | Some pl =>
                  match level_of_kind k pl with
                  | None => None
                  | Some l => if sig_eqb (sig_of_level l) (n_sig nd) then Some l else None
                  end
              end
          end
      end
  end.

Fixpoint check_order (g : list node) (order : list nat) (lv : lenv) : option lenv :=
  match order with
  | [] => Some lv
  | i :: r => match node_level g lv i with
              | None => None
              | Some l => check_order g r (upd lv i (Some l))
              end
  end.

Definition levels (G : graph) : option lenv := check_order (g_nodes G) (g_order G) (fun _ => None).

Definition covered (lv : lenv) (n : nat) : bool :=
  forallb (fun i => match lv i with Some _ => true | None => false end) (seq 0 n).

Definition well_typed (G : graph) : bool :=
  match levels G with
  | None => false
  | Some lv => covered lv (length (g_nodes G))
  end.

Definition level_at (G : graph) (i : nat) : option level :=
  match levels G with None => None | Some lv => lv i end.

(** * Semantics: per-individual values are lists of rows, population values are rows. *)
Section Semantics.
  Variable A : Type.
  Variable add : A -> A -> A.

  Definition row := list A.
  Inductive value := VPop (r : row) | VInd (rows : list row).

  (** What a node function may look at is dictated by its op-kind: the row-local kinds and [ReduceInd] get
      the population values and ONE row of every per-individual parent ([frow]); the population kinds get the
      population values ([fpop]).  That the real functions have this form is what the harness validates on
      every run (perturbation test). *)
  Record nodefun := mkFun { frow : list row -> list row -> row; fpop : list row -> row }.

  Fixpoint vadd (a b : row) : row :=
    match a, b with
    | [], _ => b
    | _, [] => a
    | x :: r, y :: s => add x y :: vadd r s
    end.
  Definition vsum (l : list row) : row := fold_right vadd [] l.

  Fixpoint pops_of (vs : list value) : list row :=
    match vs with [] => [] | VPop r :: t => r :: pops_of t | VInd _ :: t => pops_of t end.
  Fixpoint inds_of (vs : list value) : list (list row) :=
    match vs with [] => [] | VPop _ :: t => inds_of t | VInd rows :: t => rows :: inds_of t end.
  Definition slice (j : nat) (inds : list (list row)) : list row := map (fun rows => nth j rows []) inds.
  Definition is_vpop (v : value) : bool := match v with VPop _ => true | VInd _ => false end.
  Definition all_pop (vs : list value) : bool := forallb is_vpop vs.

  Definition env := nat -> option value.

  (** Value of node [i] from the values of its parents; [None] is an explicit error (input of the wrong
      shape, missing parent, population function applied to a per-individual value). *)
  Definition eval_node (g : list node) (fs : nat -> nodefun) (inp : nat -> value) (n : nat) (e : env) (i : nat)
    : option value :=
    match nth_error g i with
    | None => None
    | Some nd =>
        match n_kind nd with
        | Indep =>
            match inp i, n_sig nd with
            | VPop r, Pop => Some (VPop r)
            | VInd rows, Ind => if Nat.eqb (length rows) n then Some (VInd rows) else None
            | _, _ => None
            end
        | Linked k =>
            match gather e (n_parents nd) with
            | None => None
            | Some vs =>
                let pops := pops_of vs in
                let inds := inds_of vs in
                match k with
                | Pointwise | RowMatMul | ReduceOther =>
                    Some (VInd (map (fun j => frow (fs i) pops (slice j inds)) (seq 0 n)))
                | ReduceInd =>
                    Some (VPop (vsum (map (fun j => frow (fs i) pops (slice j inds)) (seq 0 n))))
                | BroadcastPop | Opaque =>
                    if all_pop vs then Some (VPop (fpop (fs i) pops)) else None
                end
            end
        end
    end.

  Fixpoint eval_order (g : list node) (fs : nat -> nodefun) (inp : nat -> value) (n : nat)
           (order : list nat) (e : env) : env :=
    match order with
    | [] => e
    | i :: r => eval_order g fs inp n r (upd e i (eval_node g fs inp n e i))
    end.

  (** From-scratch evaluation of the whole graph on the inputs [inp] for [n] individuals. *)
  Definition eval (G : graph) (fs : nat -> nodefun) (inp : nat -> value) (n : nat) : env :=
    eval_order (g_nodes G) fs inp n (g_order G) (fun _ => None).

  (** Re-indexing of the individual axis by a list of positions: permutation, selection of one
      individual ([p = [j]]), sub-cohort. *)
  Definition reindex_rows (p : list nat) (rows : list row) : list row := map (fun k => nth k rows []) p.
  Definition reindex (p : list nat) (v : value) : value :=
    match v with VPop r => VPop r | VInd rows => VInd (reindex_rows p rows) end.

  Definition vrow (j : nat) (v : value) : row := match v with VInd rows => nth j rows [] | VPop r => r end.
End Semantics.

Arguments VPop {A} _.
Arguments VInd {A} _.
Arguments mkFun {A} _ _.
Arguments frow {A} _ _ _.
Arguments fpop {A} _ _.
