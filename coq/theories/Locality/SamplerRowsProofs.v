From Coq Require Import List Bool Arith PeanoNat Lia.
From Leaspy Require Import Locality.AxisTypes Locality.AxisProofs Locality.SamplerRows.
Import ListNotations.

Section SamplerProofs.
  Variable A : Type.
  Variable add : A -> A -> A.
  Variable zero : A.
  Variable propose : A -> row A -> row A -> row A.
  Variable decide : list (row A) -> list (row A) -> A -> A -> bool.
  Variable adapt : A -> list bool -> A.
  Variable G : graph.
  Variable fs : nat -> nodefun A.

  Lemma gather_rows (ea eb : env A) j1 j2 reads :
    (forall q, In q reads -> forall v1 v2, ea q = Some v1 -> eb q = Some v2 -> vrow A j1 v1 = vrow A j2 v2) ->
    forall va vb, gather ea reads = Some va -> gather eb reads = Some vb ->
      map (vrow A j1) va = map (vrow A j2) vb.
  Proof.
    induction reads as [|q r IH]; simpl; intros H va vb Ha Hb.
    - inversion Ha; inversion Hb; reflexivity.
    - destruct (ea q) as [x|] eqn:Ea; [|discriminate]. destruct (gather ea r) as [xs|]; [|discriminate].
      destruct (eb q) as [y|] eqn:Eb; [|discriminate]. destruct (gather eb r) as [ys|]; [|discriminate].
      inversion Ha; inversion Hb; subst. simpl. f_equal.
      + apply (H q (or_introl eq_refl)); assumption.
      + apply IH; auto. intros q' Hq'. apply H. now right.
  Qed.

  Theorem sampler_rows_thm n1 n2 j1 j2 inp1 inp2 var reads std1 std2 hist1 hist2 tp1 tp2 tinv trigger r1 r2 :
    j1 < n1 -> j2 < n2 ->
    indep_inputs_related A G (fun v1 v2 => reindex A [j1] v1 = reindex A [j2] v2) inp1 inp2 ->
    (exists nd, nth_error (g_nodes G) var = Some nd /\ n_kind nd = Indep) ->
    (forall q, In q reads -> exists l, level_at G q = Some l /\ l <> LAgg) ->
    nth j1 std1 zero = nth j2 std2 zero ->
    nth j1 hist1 [] = nth j2 hist2 [] ->
    nth j1 (t_eps tp1) [] = nth j2 (t_eps tp2) [] ->
    nth j1 (t_u tp1) zero = nth j2 (t_u tp2) zero ->
    sample_step A add zero propose decide adapt G fs inp1 n1 var reads std1 hist1 tp1 tinv trigger = Some r1 ->
    sample_step A add zero propose decide adapt G fs inp2 n2 var reads std2 hist2 tp2 tinv trigger = Some r2 ->
    nth j1 (r_acc r1) false = nth j2 (r_acc r2) false /\
    nth j1 (r_rows r1) [] = nth j2 (r_rows r2) [] /\
    nth j1 (r_std r1) zero = nth j2 (r_std r2) zero /\
    nth j1 (r_hist r1) [] = nth j2 (r_hist r2) [].
  Proof.
    intros H1 H2 Hin (ndv & Ev & Kv) Hreads Hstd Hhist Heps Hu S1 S2.
    unfold sample_step in S1, S2.
    destruct (inp1 var) as [|xs1] eqn:I1; [discriminate|]. destruct (inp2 var) as [|xs2] eqn:I2; [discriminate|].
    assert (Hx : nth j1 xs1 [] = nth j2 xs2 []).
    { pose proof (Hin var ndv Ev Kv) as H. rewrite I1, I2 in H. simpl in H. congruence. }
    set (prop1 := map (fun j => propose (nth j std1 zero) (nth j xs1 []) (nth j (t_eps tp1) [])) (seq 0 n1)) in *.
    set (prop2 := map (fun j => propose (nth j std2 zero) (nth j xs2 []) (nth j (t_eps tp2) [])) (seq 0 n2)) in *.
    assert (Hprop : nth j1 prop1 [] = nth j2 prop2 []).
    { unfold prop1, prop2. rewrite !nth_map_seq by assumption. congruence. }
    destruct (gather (eval A add G fs inp1 n1) reads) as [v01|] eqn:G01; [|discriminate].
    destruct (gather (eval A add G fs (set_input A inp1 var (VInd prop1)) n1) reads) as [v11|] eqn:G11; [|discriminate].
    destruct (gather (eval A add G fs inp2 n2) reads) as [v02|] eqn:G02; [|discriminate].
    destruct (gather (eval A add G fs (set_input A inp2 var (VInd prop2)) n2) reads) as [v12|] eqn:G12; [|discriminate].
    assert (R0 : map (vrow A j1) v01 = map (vrow A j2) v02).
    { eapply gather_rows; eauto. intros q Hq v1 v2 E1 E2. destruct (Hreads q Hq) as (l & Hl & Hna).
      eapply (locality_thm A add G fs n1 n2 j1 j2 inp1 inp2); eauto. }
    assert (R1 : map (vrow A j1) v11 = map (vrow A j2) v12).
    { eapply gather_rows; eauto. intros q Hq v1 v2 E1 E2. destruct (Hreads q Hq) as (l & Hl & Hna).
      eapply (locality_thm A add G fs n1 n2 j1 j2 (set_input A inp1 var (VInd prop1)) (set_input A inp2 var (VInd prop2))); eauto.
      intros i nd E K. unfold set_input. destruct (Nat.eqb i var).
      - simpl. now rewrite Hprop.
      - now apply (Hin i nd). }
    inversion S1; subst r1; clear S1. inversion S2; subst r2; clear S2. simpl.
    set (acc1 := map (fun j => decide (map (vrow A j) v01) (map (vrow A j) v11) tinv (nth j (t_u tp1) zero)) (seq 0 n1)).
    set (acc2 := map (fun j => decide (map (vrow A j) v02) (map (vrow A j) v12) tinv (nth j (t_u tp2) zero)) (seq 0 n2)).
    assert (Hacc : nth j1 acc1 false = nth j2 acc2 false).
    { unfold acc1, acc2. rewrite !nth_map_seq by assumption. congruence. }
    set (h1 := map (fun j => tl (nth j hist1 []) ++ [nth j acc1 false]) (seq 0 n1)).
    set (h2 := map (fun j => tl (nth j hist2 []) ++ [nth j acc2 false]) (seq 0 n2)).
    assert (Hh : nth j1 h1 [] = nth j2 h2 []).
    { unfold h1, h2. rewrite !nth_map_seq by assumption. congruence. }
    repeat split.
    - exact Hacc.
    - rewrite !nth_map_seq by assumption. rewrite Hacc, Hprop, Hx. reflexivity.
    - rewrite !nth_map_seq by assumption. rewrite Hstd, Hh. reflexivity.
    - exact Hh.
  Qed.

  (** Row form: what the step computes at position j, written with position-j entries only. *)
  Definition proposal_rows n (std : list A) (xs : list (row A)) (tp : tape A) : list (row A) :=
    map (fun k => propose (nth k std zero) (nth k xs []) (nth k (t_eps tp) [])) (seq 0 n).

  Theorem sampler_row_form_thm n j inp var reads std hist tp tinv trigger r xs :
    j < n -> inp var = VInd xs ->
    sample_step A add zero propose decide adapt G fs inp n var reads std hist tp tinv trigger = Some r ->
    (exists before after,
        gather (eval A add G fs inp n) reads = Some before /\
        gather (eval A add G fs (set_input A inp var (VInd (proposal_rows n std xs tp))) n) reads = Some after /\
        nth j (r_acc r) false = decide (map (vrow A j) before) (map (vrow A j) after) tinv (nth j (t_u tp) zero)) /\
    nth j (r_rows r) [] = (if nth j (r_acc r) false
                           then propose (nth j std zero) (nth j xs []) (nth j (t_eps tp) []) else nth j xs []) /\
    nth j (r_hist r) [] = (tl (nth j hist []) ++ [nth j (r_acc r) false]) /\
    nth j (r_std r) zero = (if trigger then adapt (nth j std zero) (nth j (r_hist r) []) else nth j std zero).
  Proof.
    intros Hj I S. unfold sample_step in S. rewrite I in S. unfold proposal_rows.
    destruct (gather (eval A add G fs inp n) reads) as [v0|] eqn:G0; [|discriminate].
    destruct (gather (eval A add G fs (set_input A inp var (VInd (map (fun k => propose (nth k std zero) (nth k xs []) (nth k (t_eps tp) [])) (seq 0 n)))) n) reads) as [v1|] eqn:G1; [|discriminate].
    inversion S; subst r; clear S. simpl. repeat split.
    - exists v0, v1. repeat split. now rewrite nth_map_seq.
    - rewrite (nth_map_seq _ n j []) by assumption. now rewrite (nth_map_seq _ n j []) by assumption.
    - now rewrite nth_map_seq.
    - now rewrite nth_map_seq.
  Qed.
End SamplerProofs.
