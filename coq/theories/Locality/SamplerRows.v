(** C07 — minimal model of one step of the individual sampler on top of the graph semantics (definitions only).

    Code mirrored: samplers/gibbs.py [IndividualGibbsSampler.sample] (l.679-761):
      previous terms = rows of the read nodes (nll_attach_ind, nll_regul_<var>_ind, and for the mixture model
      nll_regul_ind_sum_ind) ; proposal = value + std[j] * randn[j] (l.659-677, 731-735) ; new terms ;
      alpha[j] = exp(-((new_regul - prev_regul) * temperature_inv + new_attach - prev_attach)) (l.748-754, with the
      per-row cluster softmax of the mixture model l.722-747) ; accepted[j] = rand[j] < alpha[j]
      (samplers/base.py:101-115) ; state.revert(~accepted) keeps the old row where refused (l.758) ;
      acceptation history shifted by one (base.py:144-160) ; every [acceptation_history_length] steps
      std[j] is scaled according to the mean of j's own history (gibbs.py:191-216).
    The arithmetic of the proposal, of the decision and of the adaptation are parameters ([propose], [decide],
    [adapt]); what is modelled is WHICH entries each of them is given. *)
From Coq Require Import List Bool Arith PeanoNat String.
From Leaspy Require Import Locality.AxisTypes.
Import ListNotations.

(** The header above, as data (compared with the source on every run: Locality/SamplerReadsTie.v proves these equal to
    what harness/translate/c07_sample_reads.py regenerates from gibbs.py / base.py with python `ast`):
    every use of `state` in [IndividualGibbsSampler.sample], in source order — (node, how it is read); `<self.name>` is the
    name of the sampled variable; the tag `if-ndim>1` marks the reads of the mixture branch. *)
Definition sample_reads : list (string * string) :=
  [("nll_attach_ind", "values"); ("nll_regul_<self.name>_ind", "values");
   ("nll_regul_ind_sum_ind", "ndim"); ("nll_regul_ind_sum_ind", "value:if-ndim>1")]%string.
(** ... and the only two writes: the proposal on the sampled variable, the partial revert *)
Definition sample_writes : list string := ["put:self.name"; "revert:~accepted"]%string.
(** samplers/base.py:113-115 — one uniform per entry of alpha, compared entry by entry (no reduction over individuals) *)
Definition group_decision : string := "torch.rand(alpha.shape) < alpha"%string.
(** gibbs.py:204-216 — the acceptance mean is over the HISTORY axis only (dim=0): one value per individual *)
Definition std_update : list string :=
  ["mean_acceptation = self.acceptation_history.mean(dim=0)";
   "idx_toolow = mean_acceptation < self._mean_acceptation_lower_bound_before_adaptation";
   "idx_toohigh = mean_acceptation > self._mean_acceptation_upper_bound_before_adaptation";
   "self.std[idx_toolow] *= 1 - self._adaptive_std_factor";
   "self.std[idx_toohigh] *= 1 + self._adaptive_std_factor"]%string.
(** base.py:157-160 — the window drops its oldest row and receives the new decisions as one row *)
Definition acceptation_update : list string :=
  ["old_acceptation_history = self.acceptation_history[1:]";
   "self.acceptation_history = torch.cat([old_acceptation_history, accepted.unsqueeze(0)])"]%string.
(** gibbs.py:655-658 / 101-103 — std and acceptance have one entry per individual *)
Definition shape_adapted_std : string := "(self.n_patients,)"%string.
Definition shape_acceptation : string := "self.shape_adapted_std"%string.

Section Sampler.
  Variable A : Type.
  Variable add : A -> A -> A.
  Variable zero : A.  (* only the default of out-of-range [nth]; never read for j < n (lemmas) *)

  Variable propose : A -> row A -> row A -> row A.      (* std[j], current row j, normal draws of position j *)
  Variable decide : list (row A) -> list (row A) -> A -> A -> bool.
                                                       (* rows j of the read nodes before / after, 1/T, uniform draw of position j *)
  Variable adapt : A -> list bool -> A.                (* std[j], acceptance history of j *)

  Record tape := mkTape { t_eps : list (row A); t_u : list A }.
  Record step_result := mkRes { r_acc : list bool; r_rows : list (row A); r_std : list A; r_hist : list (list bool) }.

  Definition set_input (inp : nat -> value A) (var : nat) (v : value A) : nat -> value A :=
    fun i => if Nat.eqb i var then v else inp i.

  Definition sample_step (G : graph) (fs : nat -> nodefun A) (inp : nat -> value A) (n : nat)
             (var : nat) (reads : list nat) (std : list A) (hist : list (list bool)) (tp : tape)
             (tinv : A) (trigger : bool) : option step_result :=
    match inp var with
    | VPop _ => None
    | VInd xs =>
        let prop := map (fun j => propose (nth j std zero) (nth j xs []) (nth j (t_eps tp) [])) (seq 0 n) in
        let e0 := eval A add G fs inp n in
        let e1 := eval A add G fs (set_input inp var (VInd prop)) n in
        match gather e0 reads, gather e1 reads with
        | Some v0, Some v1 =>
            let acc := map (fun j => decide (map (vrow A j) v0) (map (vrow A j) v1) tinv (nth j (t_u tp) zero)) (seq 0 n) in
            let rows := map (fun j => if nth j acc false then nth j prop [] else nth j xs []) (seq 0 n) in
            let hist' := map (fun j => tl (nth j hist []) ++ [nth j acc false]) (seq 0 n) in
            let std' := map (fun j => if trigger then adapt (nth j std zero) (nth j hist' []) else nth j std zero) (seq 0 n) in
            Some (mkRes acc rows std' hist')
        | _, _ => None
        end
    end.
End Sampler.

Arguments mkTape {A} _ _.
Arguments t_eps {A} _.
Arguments t_u {A} _.
Arguments r_acc {A} _.
Arguments r_rows {A} _.
Arguments r_std {A} _.
Arguments r_hist {A} _.
