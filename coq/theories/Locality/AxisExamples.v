(** C07 — concrete instances: the hypotheses of the theorems are met by non-trivial values, and a graph the
    checker rejects really is non-local (the check is not decorative). *)
From Coq Require Import List Bool Arith PeanoNat ZArith Permutation.
From Leaspy Require Import Locality.AxisTypes Locality.SamplerRows.
Import ListNotations.
Local Open Scope Z_scope.

(** nodes: 0 g (population), 1 xi (individual), 2 y (individual, one row of observations per individual),
    3 model = g + xi broadcast over the visits, 4 nll_ind = sum_visits (y - model)^2, 5 nll = sum_j nll_ind[j]. *)
Definition toy : graph := mkGraph
  [ mkNode Pop Indep []; mkNode Ind Indep []; mkNode Ind Indep [];
    mkNode Ind (Linked Pointwise) [0%nat; 1%nat];
    mkNode Ind (Linked ReduceOther) [2%nat; 3%nat];
    mkNode Pop (Linked ReduceInd) [4%nat] ]
  [0%nat; 1%nat; 2%nat; 3%nat; 4%nat; 5%nat].

(** the same with a 6th node "nll_ind normalised by the batch total": a per-individual node reading an aggregate. *)
Definition toy_bad : graph := mkGraph
  (g_nodes toy ++ [mkNode Ind (Linked Pointwise) [5%nat; 4%nat]])
  [0%nat; 1%nat; 2%nat; 3%nat; 4%nat; 5%nat; 6%nat].

Definition hdz (r : list Z) : Z := match r with x :: _ => x | [] => 0 end.
Definition toy_fs (i : nat) : nodefun Z :=
  match i with
  | 3%nat => mkFun (fun pops rows => match pops, rows with [g], [xi] => [hdz g + hdz xi] | _, _ => [] end) (fun _ => [])
  | 4%nat => mkFun (fun _ rows => match rows with [y; m] => [fold_right Z.add 0 (map (fun v => (v - hdz m) * (v - hdz m)) y)] | _ => [] end) (fun _ => [])
  | 5%nat => mkFun (fun _ rows => match rows with [r] => r | _ => [] end) (fun _ => [])
  | 6%nat => mkFun (fun pops rows => match pops, rows with [t], [r] => [hdz r - hdz t] | _, _ => [] end) (fun _ => [])
  | _ => mkFun (fun _ _ => []) (fun _ => [])
  end.

Definition toy_inp (ys : list (list Z)) (i : nat) : value Z :=
  match i with
  | 0%nat => VPop [10]
  | 1%nat => VInd [[1]; [2]; [3]]
  | 2%nat => VInd ys
  | _ => VPop []
  end.

Definition ys1 : list (list Z) := [[11; 12]; [13; 15]; [10; 20]].
Definition ys2 : list (list Z) := [[11; 12]; [0; 99]; [10; 20]].   (* individual 1 changed *)

Example toy_well_typed : well_typed toy = true.
Proof. vm_compute. reflexivity. Qed.

Example toy_levels : map (level_at toy) (seq 0 6%nat) = [Some LPop; Some LInd; Some LInd; Some LInd; Some LInd; Some LAgg].
Proof. vm_compute. reflexivity. Qed.

Example toy_eval : map (eval Z Z.add toy toy_fs (toy_inp ys1) 3%nat) [3%nat; 4%nat; 5%nat]
  = [Some (VInd [[11]; [12]; [13]]); Some (VInd [[1]; [10]; [58]]); Some (VPop [69])].
Proof. vm_compute. reflexivity. Qed.

(** locality on the toy graph: individual 1 changed, rows 0 and 2 of nll_ind unchanged, the total changed. *)
Example toy_other_changed : map (eval Z Z.add toy toy_fs (toy_inp ys2) 3%nat) [4%nat; 5%nat]
  = [Some (VInd [[1]; [7713]; [58]]); Some (VPop [7772])].
Proof. vm_compute. reflexivity. Qed.

Example toy_bad_rejected : well_typed toy_bad = false.
Proof. vm_compute. reflexivity. Qed.

(** ... and rightly so: on the rejected graph row 0 of node 6 depends on individual 1's observations. *)
Example toy_bad_not_local :
  vrow Z 0%nat (match eval Z Z.add toy_bad toy_fs (toy_inp ys1) 3%nat 6%nat with Some v => v | None => VPop [] end) <>
  vrow Z 0%nat (match eval Z Z.add toy_bad toy_fs (toy_inp ys2) 3%nat 6%nat with Some v => v | None => VPop [] end).
Proof. vm_compute. discriminate. Qed.

(** other ill-typed shapes the checker refuses *)
Example rejects_order : well_typed (mkGraph (g_nodes toy) [0%nat; 1%nat; 2%nat; 4%nat; 3%nat; 5%nat]) = false.
Proof. vm_compute. reflexivity. Qed.
Example rejects_missing_node : well_typed (mkGraph (g_nodes toy) [0%nat; 1%nat; 2%nat; 3%nat; 4%nat]) = false.
Proof. vm_compute. reflexivity. Qed.
Example rejects_wrong_signature : well_typed (mkGraph
  [mkNode Ind Indep []; mkNode Ind (Linked ReduceInd) [0%nat]] [0%nat; 1%nat]) = false.
Proof. vm_compute. reflexivity. Qed.
Example rejects_opaque_on_individuals : well_typed (mkGraph
  [mkNode Ind Indep []; mkNode Ind (Linked Opaque) [0%nat]] [0%nat; 1%nat]) = false.
Proof. vm_compute. reflexivity. Qed.
Example rejects_matmul_ind_ind : well_typed (mkGraph
  [mkNode Ind Indep []; mkNode Ind Indep []; mkNode Ind (Linked RowMatMul) [0%nat; 1%nat]] [0%nat; 1%nat; 2%nat]) = false.
Proof. vm_compute. reflexivity. Qed.

(** one sampler step on the toy graph: proposal x + std*eps, accept iff the individual's own term decreased by more
    than u; individuals 0 and 2 accept / refuse independently of individual 1. *)
Definition toy_step (ys : list (list Z)) :=
  sample_step Z Z.add 0
    (fun std x eps => map (fun xe => fst xe + std * snd xe) (combine x eps))
    (fun before after _ u => match before, after with [b], [a] => Z.ltb (hdz a - hdz b) u | _, _ => false end)
    (fun std h => if forallb (fun b => b) h then 2 * std else std)
    toy toy_fs (toy_inp ys) 3%nat 1%nat [4%nat] [1; 1; 1] [[true; true]; [false; true]; [true; true]]
    (mkTape [[1]; [1]; [-1]] [0; -10; 11]) 1 true.

Example toy_step_result : toy_step ys1 =
  Some {| r_acc := [false; false; true]; r_rows := [[1]; [2]; [2]]; r_std := [1; 1; 2];
          r_hist := [[true; false]; [true; false]; [true; true]] |}.
Proof. vm_compute. reflexivity. Qed.

Example toy_step_other_changed :
  match toy_step ys1, toy_step ys2 with
  | Some a, Some b => nth 0%nat (r_acc a) false = nth 0%nat (r_acc b) false /\ nth 2%nat (r_rows a) [] = nth 2%nat (r_rows b) []
                      /\ nth 1%nat (r_acc a) false <> nth 1%nat (r_acc b) false
  | _, _ => False
  end.
Proof. vm_compute. repeat split; discriminate. Qed.

Example perm_is_permutation : Permutation [2%nat; 0%nat; 1%nat] (seq 0%nat 3%nat).
Proof. simpl. apply Permutation_sym. apply (Permutation_cons_app [2%nat] [1%nat] 0%nat). simpl.
  apply (perm_swap 2%nat 1%nat []). Qed.
