(** C07 — T1 of the extension: what [IndividualGibbsSampler.sample] reads, as regenerated from the source
    (gen/GenC07Reads.v, harness/translate/c07_sample_reads.py), IS the hand-written header of SamplerRows.v. *)
From Coq Require Import String List.
From Leaspy Require Import Locality.SamplerRows.
From LeaspyGen Require Import GenC07Reads.
Import ListNotations.

Lemma sample_reads_tie :
  gen_sample_reads = sample_reads /\ gen_sample_writes = sample_writes /\ gen_group_decision = group_decision /\
  gen_std_update = std_update /\ gen_acceptation_update = acceptation_update /\
  gen_shape_adapted_std = shape_adapted_std /\ gen_shape_acceptation = shape_acceptation.
Proof. repeat split; reflexivity. Qed.
