(** Source-level programs of leaspy.utils.weighted_tensor and compute_std_from_variance — definitions only.

    [harness/translate/c06_weighted.py] reads the CURRENT source with python's [ast] and prints every function body
    of the weighted-tensor layer as a term of the little language below (coq/gen/GenC06.v): [st] = if / assignment /
    assert / return / raise, [sx] = expressions whose calls are [prim]itives.  This file gives the language a meaning
    ([exec_st]) over the tensors of Masked/Weighted.v; Masked/SourceTie.v proves that every regenerated body computes
    exactly the hand-written function of Masked/Weighted.v, for ALL inputs.

    Three kinds of primitives:
      * python / torch operations ([PValue] = attribute .value, [PIsNone], [PMaskedFill], [PMul], [PSum] ...): their
        meaning is the tensor operation of Weighted.v (torch kernels are modelled, checked by execution (T2), not verified);
      * calls to a SIBLING function of the layer ([PFilled], [PWsum], [PGetDim] ...): their meaning is the hand-written
        function of Weighted.v, whose own body is tied separately (the translator checks that the call graph is acyclic);
      * the few comprehension shapes of [_get_dim] ([PWrapNeg], [PAllNonneg], [PComplement]) matched verbatim.
    Ill-typed programs are [SStuck] (never an implementation outcome; never equal to a model outcome). *)
From Coq Require Import List NArith ZArith Bool Arith QArith String.
From Leaspy Require Import Base.Atoms Masked.Weighted Masked.Pipeline.
Import ListNotations.
Local Close Scope Q_scope.
Local Open Scope nat_scope.

(* ------------------------------------------------------------------ outcomes *)

Inductive sres (A : Type) : Type :=
| SOk (a : A)
| SExc (name : string)      (* the python exception class that is raised *)
| SStuck.                   (* ill-typed program / unbound name *)
Arguments SOk {A} a.
Arguments SExc {A} name.
Arguments SStuck {A}.

Definition sbind {A B} (r : sres A) (f : A -> sres B) : sres B :=
  match r with SOk a => f a | SExc n => SExc n | SStuck => SStuck end.

Definition of_res {A} (r : res A) : sres A :=
  match r with
  | Ok a => SOk a
  | Err EAssertion => SExc "AssertionError"
  | Err ENotImplemented => SExc "NotImplementedError"
  | Err ERuntime => SExc "RuntimeError"
  | Err EIndex => SExc "IndexError"
  | Err EValue => SExc "ValueError"
  | Err EMalformed => SStuck
  end.

Definition rmap {A B} (f : A -> B) (r : res A) : res B :=
  match r with Ok a => Ok (f a) | Err e => Err e end.

(* ------------------------------------------------------------------ values *)

Inductive sval : Type :=
| VNone
| VBool (b : bool)
| VInt (z : Z)
| VAtom (a : atom)
| VDims (l : list Z)                 (* a tuple / set of axes *)
| VShape (s : list nat)              (* torch.Size (innermost axis first, as everywhere in Weighted.v) *)
| VTen (t : tensor atom)             (* torch tensor of numbers *)
| VWgt (t : tensor N)                (* torch tensor of weights *)
| VMask (t : tensor bool)            (* boolean tensor (w == 0, v < tol) *)
| VWT (t : wt)                       (* WeightedTensor *)
| VTuple (a b : sval)
| VOpName                            (* operator_name *)
| VOperator                          (* getattr(operator, operator_name): the binary operation under test *)
| VFun (fv : tensor atom -> res (tensor atom)) (fw : tensor N -> res (tensor N))   (* func(., *args, **kws) *)
| VIdx (idx : list (list Z))
| VVals (l : list atom)
| VKws (dim : list Z)                (* **kws of the torch sum: dim=... ([] = no dim) *)
| VSqrtOf (t : tensor atom)          (* t.sqrt(), kept symbolic: atoms are rationals *)
| VStr (s : string)
| VDict (l : list (string * sval)).  (* state: a mapping with constant string keys *)

Definition sval_of_operand (x : operand) : sval :=
  match x with OW t => VWT t | OT v => VTen v end.

Definition sval_of_weight (w : option (tensor N)) : sval :=
  match w with None => VNone | Some w => VWgt w end.

(** a python number used as a fill value *)
Definition as_atom (v : sval) : option atom :=
  match v with
  | VAtom a => Some a
  | VInt z => Some (ofZ z)
  | _ => None
  end.

(** an optional fill value: Some None = python None *)
Definition as_fill (v : sval) : option (option atom) :=
  match v with
  | VNone => Some None
  | _ => match as_atom v with Some a => Some (Some a) | None => None end
  end.

(** (dim, but_dim) keyword arguments -> the [dimspec] of Weighted.v *)
Definition dimspec_of (dim but_dim : sval) : option dimspec :=
  match dim, but_dim with
  | VNone, VNone => Some DimDefault
  | VDims l, VNone => Some (Dim l)
  | VNone, VDims l => Some (ButDim l)
  | VNone, VInt z => Some (ButDim [z])
  | VDims _, VDims _ | VDims _, VInt _ => Some DimAndButDim
  | _, _ => None
  end.

Definition ndim_of (v : sval) : option nat :=
  match v with
  | VWT t => Some (ndim t)
  | VTen t => Some (List.length (shape t))
  | _ => None
  end.

(* ------------------------------------------------------------------ syntax *)

Inductive prim : Type :=
(* attributes *)
| PValue | PWeight | PNdim | PShape
(* tests *)
| PIsNone | PIsNotNone | PIsWeighted | PIsTensor | PIsInt | PNot | PAnd | POr | PNe | PEq | PGeInt | PTorchEqual
(* the binary operation *)
| PGetOperator | PApply
(* torch *)
| PExpand | PClone | PMaskedFill | PMul | POnesLike | PSum | PKwsDim | PLt | PAny | PSqrt | PTorchTensor
| PIndexPutFn | PViewFn | PExpandFn | PRightShape | PAbs | PPow
(* python *)
| PTuple | PItem0 | PItem1 | PMk
| PSingleton | PWrapNeg | PAllNonneg | PComplement | PEmptyDims | PIsCollection | PMapCollection
(* sibling functions of the layer: meaning = the hand-written function of Weighted.v *)
| PFilled | PValued | PMap | PMapBoth | PWsum | PSumM | PGetDim | PWsumDim | PView | PWAbs | PSumDimU | PStd
(* python arithmetic on tensors / WeightedTensors (dispatch to the dunder methods), mapping lookup *)
| PAdd | PDiv | PFloat | PGetItem.

Inductive sx : Type :=
| XVar (x : string)
| XNone
| XInt (z : Z)
| XBool (b : bool)
| XStr (s : string)
| XQ (q : Q)                         (* a float literal / constant, read as the decimal it is written as *)
| XIte (c a b : sx)                  (* a if c else b — lazy *)
| XCall (p : prim) (args : list sx).

Inductive st : Type :=
| SLet (x : string) (e : sx) (k : st)
| SIf (c : sx) (t e : st)
| SAssert (c : sx) (k : st)
| SRet (e : sx)
| SRaise (exc : string).

(* ------------------------------------------------------------------ meaning of the primitives *)

Definition is_none (v : sval) : bool := match v with VNone => true | _ => false end.

Definition masked_fill {A} (v : tensor A) (m : tensor bool) (f : A) : tensor A :=
  mkT (shape v) (fun i => if at_ m i then f else at_ v i).

(** x.sum( **kws) for a tensor of numbers / of weights *)
Definition sum_ten (v : tensor atom) (dim : list Z) : res (tensor atom) :=
  bind (torch_sum_mask (List.length (shape v)) dim) (fun R => Ok (reduce aadd azero R v)).
Definition sum_wgt (w : tensor N) (dim : list Z) : res (tensor N) :=
  bind (torch_sum_mask (List.length (shape w)) dim) (fun R => Ok (reduce N.add 0%N R w)).

Definition wrap_neg (n : Z) (l : list Z) : list Z := map (fun i => if (0 <=? i)%Z then i else (n + i)%Z) l.
Definition all_nonneg (l : list Z) : bool := forallb (fun i => (0 <=? i)%Z) l.
Definition complement (n : Z) (l : list Z) : list Z :=
  filter (fun i => negb (existsb (Z.eqb i) l)) (map Z.of_nat (seq 0 (Z.to_nat n))).

Definition stuck_fun {A} (_ : tensor A) : res (tensor A) := Err EMalformed.

Definition pair_val (p : tensor atom * tensor N) : sval := VTuple (VTen (fst p)) (VWgt (snd p)).

(** get_filled_value_and_weight has no counterpart in Weighted.v: its specification *)
Definition filled_value_and_weight (fill : option atom) (x : operand) : tensor atom * option (tensor N) :=
  match x with
  | OW t => (filled fill t, weight t)
  | OT v => (v, None)
  end.

(** compute_std_from_variance(variance, varname, tol): refuses (LeaspyConvergenceError) as soon as one entry is
    < tol, otherwise the entry-wise square root of the variance *)
Inductive std_outcome : Type :=
| StdRefused
| StdSqrt (v : tensor atom).

Definition std_from_variance (tol : atom) (v : tensor atom) : std_outcome :=
  if existsb (fun x => alt x tol) (to_flat v) then StdRefused else StdSqrt v.

Fixpoint lookup (x : string) (env : list (string * sval)) : option sval :=
  match env with
  | [] => None
  | (y, v) :: r => if String.eqb x y then Some v else lookup x r
  end.

Definition apply_prim (op : atom -> atom -> atom) (p : prim) (args : list sval) : sres sval :=
  match p with
  | PValue => match args with [VWT t] => SOk (VTen (value t)) | _ => SStuck end
  | PWeight => match args with [VWT t] => SOk (sval_of_weight (weight t)) | _ => SStuck end
  | PNdim => match args with [v] => match ndim_of v with Some n => SOk (VInt (Z.of_nat n)) | None => SStuck end | _ => SStuck end
  | PShape =>
      match args with
      | [VWT t] => SOk (VShape (shape (value t)))
      | [VTen t] => SOk (VShape (shape t))
      | [VWgt t] => SOk (VShape (shape t))
      | _ => SStuck
      end
  | PIsNone => match args with [v] => SOk (VBool (is_none v)) | _ => SStuck end
  | PIsNotNone => match args with [v] => SOk (VBool (negb (is_none v))) | _ => SStuck end
  | PIsWeighted => match args with [v] => SOk (VBool (match v with VWT _ => true | _ => false end)) | _ => SStuck end
  | PIsTensor => match args with [v] => SOk (VBool (match v with VTen _ => true | _ => false end)) | _ => SStuck end
  | PIsInt => match args with [v] => SOk (VBool (match v with VInt _ => true | _ => false end)) | _ => SStuck end
  | PNot => match args with [VBool b] => SOk (VBool (negb b)) | _ => SStuck end
  | PAnd => match args with [VBool a; VBool b] => SOk (VBool (a && b)) | _ => SStuck end
  | POr => match args with [VBool a; VBool b] => SOk (VBool (a || b)) | _ => SStuck end
  | PNe => match args with [VShape a; VShape b] => SOk (VBool (negb (shape_eqb a b))) | _ => SStuck end
  | PEq =>       (* ints: a bool; tensor of weights == 0: a mask *)
      match args with
      | [VInt a; VInt b] => SOk (VBool (Z.eqb a b))
      | [VWgt w; VInt Z0] => SOk (VMask (tmap (fun n => N.eqb n 0) w))
      | _ => SStuck
      end
  | PGeInt => match args with [VInt a; VInt b] => SOk (VBool (Z.leb b a)) | _ => SStuck end
  | PTorchEqual => match args with [VWgt a; VWgt b] => SOk (VBool (tensor_eqb N.eqb a b)) | _ => SStuck end
  | PGetOperator => match args with [VOpName] => SOk VOperator | _ => SStuck end
  | PApply =>
      match args with
      | [VOperator; VTen a; VTen b] =>
          match tzip2 op a b with Some r => SOk (VTen r) | None => SExc "RuntimeError" end
      | [VFun fv fw; VTen a] => of_res (rmap VTen (fv a))
      | [VFun fv fw; VWgt a] => of_res (rmap VWgt (fw a))
      | _ => SStuck
      end
  | PExpand => match args with [VWgt w; VShape s] => of_res (rmap VWgt (texpand s w)) | _ => SStuck end
  | PClone => match args with [VWgt w] => SOk (VWgt w) | [VTen v] => SOk (VTen v) | _ => SStuck end
  | PMaskedFill =>
      match args with
      | [VTen v; VMask m; f] => match as_atom f with Some a => SOk (VTen (masked_fill v m a)) | None => SStuck end
      | _ => SStuck
      end
  | PMul =>      (* weight * tensor ; python int * tensor ; int * WeightedTensor = WeightedTensor.__rmul__(int) ; WeightedTensor * x *)
      match args with
      | [VWgt w; VTen v] => SOk (VTen (weight_times w v))
      | [VInt z; VTen v] => SOk (VTen (tmap (amul (ofZ z)) v))
      | [VInt z; VWT t] => of_res (rmap VWT (apply_operation t (OT (scalar0 (ofZ z))) amul true))
      | [VWT t; VTen v] => of_res (rmap VWT (apply_operation t (OT v) amul false))
      | [VWT t; VWT u] => of_res (rmap VWT (apply_operation t (OW u) amul false))
      | _ => SStuck
      end
  | PAdd =>      (* WeightedTensor.__add__ ; torch addition with broadcasting *)
      match args with
      | [VWT t; VTen v] => of_res (rmap VWT (apply_operation t (OT v) aadd false))
      | [VWT t; VWT u] => of_res (rmap VWT (apply_operation t (OW u) aadd false))
      | [VTen a; VTen b] => of_res (rmap VTen (tbin aadd a b))
      | _ => SStuck
      end
  | PDiv => match args with [VTen a; VTen b] => of_res (rmap VTen (tbin adiv a b)) | _ => SStuck end
  | PFloat => match args with [VWgt n] => SOk (VTen (tmap ofN n)) | [VTen v] => SOk (VTen v) | _ => SStuck end
  | PGetItem => match args with [VDict l; VStr k] => match lookup k l with Some v => SOk v | None => SExc "KeyError" end | _ => SStuck end
  | PSumDimU =>      (* _utils.sum_dim(x, fill_value=, dim=, but_dim=) *)
      match args with
      | [x; f; dim; but_dim] =>
          match as_atom f, dimspec_of dim but_dim, x with
          | Some fill, Some d, VWT t => of_res (rmap VTen (sum_dim fill d (OW t)))
          | Some fill, Some d, VTen v => of_res (rmap VTen (sum_dim fill d (OT v)))
          | _, _, _ => SStuck
          end
      | _ => SStuck
      end
  | PStd =>          (* compute_std_from_variance(variance, varname=..., tol=...) *)
      match args with
      | [VTen v; t] =>
          match as_atom t with
          | Some tol => match std_from_variance tol v with StdRefused => SExc "LeaspyConvergenceError" | StdSqrt r => SOk (VSqrtOf r) end
          | None => SStuck
          end
      | _ => SStuck
      end
  | PAbs => match args with [VTen v] => SOk (VTen (tmap aabs v)) | _ => SStuck end
  | PPow =>      (* tensor ** n for a natural number n (the model's [wpow]) *)
      match args with
      | [VTen v; VInt z] => if (0 <=? z)%Z then SOk (VTen (tmap (fun x => apow x (Z.to_nat z)) v)) else SStuck
      | _ => SStuck
      end
  | PIsCollection =>      (* isinstance(r, (tuple, list, set, frozenset)): the functions of the model return ONE tensor *)
      match args with [VTen _] => SOk (VBool false) | _ => SStuck end
  | PMapCollection => SStuck
  | PWAbs => match args with [VWT t] => SOk (VWT (wabs t)) | _ => SStuck end
  | POnesLike => match args with [VTen v] => SOk (VWgt (ones_like v)) | _ => SStuck end
  | PSum =>
      match args with
      | [VTen v; VKws dim] => of_res (rmap VTen (sum_ten v dim))
      | [VWgt w; VKws dim] => of_res (rmap VWgt (sum_wgt w dim))
      | _ => SStuck
      end
  | PKwsDim => match args with [VDims l] => SOk (VKws l) | _ => SStuck end
  | PLt =>
      match args with
      | [VTen v; t] => match as_atom t with Some tol => SOk (VMask (tmap (fun x => alt x tol) v)) | None => SStuck end
      | _ => SStuck
      end
  | PAny => match args with [VMask m] => SOk (VBool (existsb (fun b => b) (to_flat m))) | _ => SStuck end
  | PSqrt => match args with [VTen v] => SOk (VSqrtOf v) | _ => SStuck end
  | PTorchTensor => SStuck      (* torch.tensor(non-tensor): outside the model (operands are tensors) *)
  | PIndexPutFn =>
      match args with
      | [VIdx idx; VVals vals; VBool acc] => SOk (VFun (tindex_put idx vals acc) stuck_fun)
      | _ => SStuck
      end
  | PViewFn => match args with [VShape s] => SOk (VFun (tview s) (tview s)) | _ => SStuck end
  | PExpandFn => match args with [VShape s] => SOk (VFun (texpand s) (texpand s)) | _ => SStuck end
  | PRightShape =>    (* t.shape + (1,) * ndim *)
      match args with [VShape s; VInt n] => SOk (VShape (repeat 1 (Z.to_nat n) ++ s)) | _ => SStuck end
  | PTuple => match args with [a; b] => SOk (VTuple a b) | _ => SStuck end
  | PItem0 => match args with [VTuple a _] => SOk a | _ => SStuck end
  | PItem1 => match args with [VTuple _ b] => SOk b | _ => SStuck end
  | PMk =>
      match args with
      | [VTen v] => SOk (VWT (mkW v None))
      | [VTen v; VNone] => SOk (VWT (mkW v None))
      | [VTen v; VWgt w] => of_res (rmap VWT (mk_weightedN v (Some w)))
      | _ => SStuck
      end
  | PSingleton => match args with [VInt z] => SOk (VDims [z]) | _ => SStuck end
  | PWrapNeg => match args with [VInt n; VDims l] => SOk (VDims (wrap_neg n l)) | _ => SStuck end
  | PAllNonneg => match args with [VDims l] => SOk (VBool (all_nonneg l)) | _ => SStuck end
  | PComplement => match args with [VInt n; VDims l] => SOk (VDims (complement n l)) | _ => SStuck end
  | PEmptyDims => match args with [] => SOk (VDims []) | _ => SStuck end
  | PFilled =>
      match args with
      | [VWT t; f] => match as_fill f with Some fill => SOk (VTen (filled fill t)) | None => SStuck end
      | _ => SStuck
      end
  | PValued => match args with [VWT t; VTen v] => of_res (rmap VWT (valued t v)) | _ => SStuck end
  | PMap =>
      match args with
      | [VWT t; VFun fv _; f] => match as_fill f with Some fill => of_res (rmap VWT (wmap fv fill t)) | None => SStuck end
      | _ => SStuck
      end
  | PMapBoth => match args with [VWT t; VFun fv fw] => of_res (rmap VWT (wmap_both fv fw t)) | _ => SStuck end
  | PWsum =>
      match args with
      | [VWT t; f; VKws dim] => match as_atom f with Some fill => of_res (rmap pair_val (wsum fill dim t)) | None => SStuck end
      | _ => SStuck
      end
  | PSumM =>
      match args with
      | [VWT t; f; VKws dim] => match as_atom f with Some fill => of_res (rmap VTen (wsum_only fill dim t)) | None => SStuck end
      | _ => SStuck
      end
  | PGetDim =>
      match args with
      | [x; dim; but_dim] =>
          match ndim_of x, dimspec_of dim but_dim with
          | Some n, Some d => of_res (rmap VDims (get_dim n d))
          | _, _ => SStuck
          end
      | _ => SStuck
      end
  | PWsumDim =>
      match args with
      | [VWT t; f; dim; but_dim] =>
          match as_atom f, dimspec_of dim but_dim with
          | Some fill, Some d => of_res (rmap pair_val (wsum_dim fill d t))
          | _, _ => SStuck
          end
      | _ => SStuck
      end
  | PView =>
      match args with
      | [VWT t; VShape s] => of_res (rmap VWT (wview s t))
      | [VTen t; VShape s] => of_res (rmap VTen (tview s t))
      | _ => SStuck
      end
  end.

(* ------------------------------------------------------------------ evaluation *)

Fixpoint eval_sx (op : atom -> atom -> atom) (env : list (string * sval)) (e : sx) {struct e} : sres sval :=
  match e with
  | XVar x => match lookup x env with Some v => SOk v | None => SStuck end
  | XNone => SOk VNone
  | XInt z => SOk (VInt z)
  | XBool b => SOk (VBool b)
  | XStr s => SOk (VStr s)
  | XQ q => SOk (VAtom (Fin q))
  | XIte c a b =>
      match eval_sx op env c with
      | SOk (VBool true) => eval_sx op env a
      | SOk (VBool false) => eval_sx op env b
      | SOk _ => SStuck
      | SExc n => SExc n
      | SStuck => SStuck
      end
  | XCall p args =>
      sbind ((fix evals (l : list sx) : sres (list sval) :=
                match l with
                | [] => SOk []
                | a :: r => sbind (eval_sx op env a) (fun v => sbind (evals r) (fun vr => SOk (v :: vr)))
                end) args)
            (apply_prim op p)
  end.

Fixpoint exec_st (op : atom -> atom -> atom) (env : list (string * sval)) (s : st) : sres sval :=
  match s with
  | SLet x e k => sbind (eval_sx op env e) (fun v => exec_st op ((x, v) :: env) k)
  | SIf c t e =>
      match eval_sx op env c with
      | SOk (VBool true) => exec_st op env t
      | SOk (VBool false) => exec_st op env e
      | SOk _ => SStuck
      | SExc n => SExc n
      | SStuck => SStuck
      end
  | SAssert c k =>
      match eval_sx op env c with
      | SOk (VBool true) => exec_st op env k
      | SOk (VBool false) => SExc "AssertionError"
      | SOk _ => SStuck
      | SExc n => SExc n
      | SStuck => SStuck
      end
  | SRet e => eval_sx op env e
  | SRaise n => SExc n
  end.

(** a translated function: parameter names (bound positionally) and body *)
Record fundef : Type := mkF { f_params : list string; f_body : st }.

Definition call (op : atom -> atom -> atom) (f : fundef) (args : list sval) : sres sval :=
  if Nat.eqb (List.length (f_params f)) (List.length args)
  then exec_st op (combine (f_params f) args) (f_body f)
  else SStuck.

(** back to the result type of Weighted.v (a python exception the model does not know is EMalformed: it then never
    equals a model outcome) *)
Definition err_of_name (n : string) : err :=
  if String.eqb n "AssertionError" then EAssertion
  else if String.eqb n "NotImplementedError" then ENotImplemented
  else if String.eqb n "RuntimeError" then ERuntime
  else if String.eqb n "IndexError" then EIndex
  else if String.eqb n "ValueError" then EValue
  else EMalformed.

Definition to_res {A} (proj : sval -> option A) (r : sres sval) : res A :=
  match r with
  | SOk v => match proj v with Some a => Ok a | None => Err EMalformed end
  | SExc n => Err (err_of_name n)
  | SStuck => Err EMalformed
  end.

Definition proj_wt (v : sval) : option wt := match v with VWT t => Some t | _ => None end.
Definition proj_ten (v : sval) : option (tensor atom) := match v with VTen t => Some t | _ => None end.
Definition proj_pair (v : sval) : option (tensor atom * tensor N) :=
  match v with VTuple (VTen a) (VWgt b) => Some (a, b) | _ => None end.

(* ------------------------------------------------------------------ the API run through translated bodies *)

(** The functions of the layer as a record, so that the tree evaluator of Weighted.v ([eval], [run_query]) can be
    re-stated over ANY implementation of them: [model_impl] = Weighted.v, [SourceTie.gen_impl] = the regenerated bodies. *)
Record impl : Type := mkImpl {
  i_apply : wt -> operand -> (atom -> atom -> atom) -> bool -> res wt;
  i_map : (tensor atom -> res (tensor atom)) -> option atom -> wt -> res wt;
  i_index_put : list (list Z) -> list atom -> bool -> wt -> res wt;
  i_view : list nat -> wt -> res wt;
  i_expand : list nat -> wt -> res wt;
  i_filled : option atom -> wt -> tensor atom;
  i_weighted_value : wt -> tensor atom;
  i_wsum : atom -> list Z -> wt -> res (tensor atom * tensor N);
  i_sum : atom -> list Z -> wt -> res (tensor atom);
  i_sum_dim : atom -> dimspec -> operand -> res (tensor atom);
  i_wsum_dim : atom -> dimspec -> wt -> res (tensor atom * tensor N)
}.

Definition model_impl : impl :=
  mkImpl apply_operation wmap windex_put wview wexpand filled weighted_value wsum wsum_only sum_dim wsum_dim.

Fixpoint eval_with (I : impl) (env : nat -> res operand) (e : expr) : res operand :=
  match e with
  | EVar i => env i
  | EBin o reverse a b =>
      bind (eval_with I env a) (fun xa => bind (as_wt xa) (fun ta =>
      bind (eval_with I env b) (fun xb =>
      bind (i_apply I ta xb (binop_fun o) reverse) (fun r => Ok (OW r)))))
  | ENeg a => bind (eval_with I env a) (fun xa => bind (as_wt xa) (fun ta => Ok (OW (wneg ta))))
  | EAbs a => bind (eval_with I env a) (fun xa => bind (as_wt xa) (fun ta => Ok (OW (wabs ta))))
  | EPow n a => bind (eval_with I env a) (fun xa => bind (as_wt xa) (fun ta => Ok (OW (wpow n ta))))
  | EMap f fill a =>
      bind (eval_with I env a) (fun xa => bind (as_wt xa) (fun ta =>
      bind (i_map I (fun v => Ok (tmap f v)) fill ta) (fun r => Ok (OW r))))
  | EIndexPut idx vals acc a =>
      bind (eval_with I env a) (fun xa => bind (as_wt xa) (fun ta =>
      bind (i_index_put I idx vals acc ta) (fun r => Ok (OW r))))
  | EView s a =>
      bind (eval_with I env a) (fun xa => bind (as_wt xa) (fun ta => bind (i_view I s ta) (fun r => Ok (OW r))))
  | EExpand s a =>
      bind (eval_with I env a) (fun xa => bind (as_wt xa) (fun ta => bind (i_expand I s ta) (fun r => Ok (OW r))))
  end.

(** the aggregating / filling queries: what a caller can READ from a weighted tensor *)
Inductive reading : Type :=
| RTen (t : tensor atom)
| RPair (p : tensor atom * tensor N).

Definition read_with (I : impl) (q : query) (x : operand) : res reading :=
  match q, x with
  | QFilled (Some f), OW t => Ok (RTen (i_filled I (Some f) t))
  | QWeightedValue, OW t => Ok (RTen (i_weighted_value I t))
  | QWsum fill dim, OW t => rmap RPair (i_wsum I fill dim t)
  | QSum fill dim, OW t => rmap RTen (i_sum I fill dim t)
  | QSumDim fill d, _ => rmap RTen (i_sum_dim I fill d x)
  | QWsumDim fill d, OW t => rmap RPair (i_wsum_dim I fill d t)
  | _, _ => Err EMalformed     (* QRaw / filled(None) expose the raw values: not a masked reading *)
  end.

Definition run_with (I : impl) (env : nat -> res operand) (e : expr) (q : query) : res reading :=
  bind (eval_with I env e) (read_with I q).

(* ------------------------------------------------------------------ signatures: defaults and the dunder dispatch *)


Inductive default : Type :=
| DNone
| DBool (b : bool)
| DInt (z : Z)
| DQ (q : Q).     (* a float literal, read as the decimal it is written as *)

(** what the hand-written model (and the T2 harness, which omits these arguments at random) assumes *)
Definition model_defaults : list (string * list (string * default)) :=
  [("apply_operation", [("reverse", DBool false)]);
   ("filled", [("fill_value", DNone)]);
   ("map", [("fill_value", DNone)]);
   ("map_both", [("fill_value", DNone)]);
   ("index_put", [("accumulate", DBool false)]);
   ("wsum", [("fill_value", DInt 0)]);
   ("sum", [("fill_value", DInt 0)]);
   ("get_filled_value_and_weight", [("fill_value", DNone)]);
   ("get_dim", [("dim", DNone); ("but_dim", DNone)]);
   ("sum_dim", [("fill_value", DInt 0); ("dim", DNone); ("but_dim", DNone)]);
   ("wsum_dim", [("fill_value", DInt 0); ("dim", DNone); ("but_dim", DNone)]);
   ("compute_std_from_variance", [("tol", DQ (1 # 100000))])]%string.

(** [EBin o reverse] of Weighted.v <-> the dunder methods: (method, (operator name, reverse)) *)
Definition model_dunders : list (string * (string * bool)) :=
  [("__add__", ("add", false)); ("__radd__", ("add", true)); ("__sub__", ("sub", false)); ("__rsub__", ("sub", true));
   ("__mul__", ("mul", false)); ("__rmul__", ("mul", true)); ("__truediv__", ("truediv", false)); ("__rtruediv__", ("truediv", true));
   ("__lt__", ("lt", false)); ("__le__", ("le", false)); ("__eq__", ("eq", false)); ("__ne__", ("ne", false));
   ("__gt__", ("gt", false)); ("__ge__", ("ge", false))]%string.

(* ------------------------------------------------------------------ T2 checker for compute_std_from_variance *)

Inductive std_obs : Type :=
| ObsRefused                    (* LeaspyConvergenceError *)
| ObsSqrt (l : list atom).      (* the returned tensor, row-major *)

(** [s] is the correctly rounded square root of [v] up to 2^-k relative on the square (exact rational arithmetic);
    specials as IEEE: sqrt(+inf) = +inf, sqrt(NaN) = sqrt(negative) = sqrt(-inf) = NaN *)
Definition sqrt_close (k : positive) (v s : atom) : bool :=
  match v, s with
  | NaN, NaN | NInf, NaN => true
  | PInf, PInf => true
  | Fin qv, NaN => negb (Qle_bool 0 qv)
  | Fin qv, Fin qs =>
      Qle_bool 0 qs && Qle_bool (Qabs.Qabs (qs * qs - qv) * inject_Z (2 ^ Zpos k)) qv
  | _, _ => false
  end.

Fixpoint all2 {A B} (f : A -> B -> bool) (l1 : list A) (l2 : list B) : bool :=
  match l1, l2 with
  | [], [] => true
  | a :: r1, b :: r2 => f a b && all2 f r1 r2
  | _, _ => false
  end.

(** (effective tol, (reversed shape, variance entries), precision of the dtype, observed outcome) *)
Definition check_std_case (c : atom * (list nat * list atom) * positive * std_obs) : bool :=
  match c with
  | (tol, (rs, vals), k, obs) =>
      Nat.eqb (List.length vals) (size rs) &&
      match std_from_variance tol (of_flat NaN rs vals), obs with
      | StdRefused, ObsRefused => true
      | StdSqrt v, ObsSqrt l => all2 (sqrt_close k) (to_flat v) l
      | _, _ => false
      end
  end.

(** the python signatures the tie lemmas (which bind arguments in this order: positional, keyword-only, *args, **kws) and the
    callers inside the layer (which pass these keywords) rely on *)
Definition model_signatures : list (string * list string) :=
  [("apply_operation", ["a"; "b"; "operator_name"; "reverse"]);
   ("weighted_value", ["self"]);
   ("filled", ["self"; "fill_value"]);
   ("valued", ["self"; "value"]);
   ("map", ["self"; "func"; "*args"; "fill_value"; "**kws"]);
   ("map_both", ["self"; "func"; "*args"; "fill_value"; "**kws"]);
   ("index_put", ["self"; "indices"; "values"; "*"; "accumulate"]);
   ("wsum", ["self"; "*"; "fill_value"; "**kws"]);
   ("sum", ["self"; "*"; "fill_value"; "**kws"]);
   ("view", ["self"; "*shape"]);
   ("expand", ["self"; "*shape"]);
   ("get_filled_value_and_weight", ["t"; "*"; "fill_value"]);
   ("neg", ["self"]);
   ("abs_dunder", ["self"]);
   ("abs", ["self"]);
   ("pow", ["self"; "exponent"]);
   ("get_dim", ["x"; "*"; "dim"; "but_dim"]);
   ("sum_dim", ["x"; "*"; "fill_value"; "dim"; "but_dim"; "**kws"]);
   ("wsum_dim", ["x"; "*"; "fill_value"; "dim"; "but_dim"; "**kws"]);
   ("wsum_dim_return_weighted_sum_only", ["x"; "*"; "fill_value"; "dim"; "but_dim"; "**kws"]);
   ("wsum_dim_return_sum_of_weights_only", ["x"; "*"; "fill_value"; "dim"; "but_dim"; "**kws"]);
   ("unsqueeze_right", ["t"; "*"; "ndim"]);
   ("compute_std_from_variance", ["variance"; "varname"; "tol"]);
   ("scalar_noise_std_update", ["cls"; "*"; "state"; "y_x_model"; "model_x_model"]);
   ("diagonal_noise_std_update", ["cls"; "*"; "state"; "y_x_model"; "model_x_model"]);
   ("factory", ["x"; "*args"; "**kws"])]%string.
