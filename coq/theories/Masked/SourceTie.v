(** T1 for C06: every function body regenerated from the current source (coq/gen/GenC06.v, written by
    harness/translate/c06_weighted.py) computes, for ALL inputs, exactly the hand-written function of
    Masked/Weighted.v (resp. the specification of Masked/Source.v for the two functions Weighted.v does not have).
    Then the statements of C06 over the REGENERATED bodies ([gen_impl]). *)
From Coq Require Import List NArith ZArith Bool Arith QArith String Lia.
From Leaspy Require Import Base.Atoms Masked.Weighted Masked.Observed Masked.WeightedProofs Masked.ClosedProofs
     Masked.Source Masked.SourceProofs.
From LeaspyGen Require Import GenC06.
Import ListNotations.
Local Close Scope Q_scope.
Local Open Scope nat_scope.

(** case analysis on every test the two sides make — atomic tests first, so that both sides see the same answer —
    closing contradictory combinations; robust to the ORDER in which the source makes its tests *)
Ltac crush :=
  repeat (cbn in *; try discriminate; try congruence;
    match goal with
    | |- ?x = ?x => reflexivity
    | |- context [shape_eqb ?a ?b] => destruct (shape_eqb a b) eqn:?
    | |- context [tensor_eqb ?f ?a ?b] => destruct (tensor_eqb f a b) eqn:?
    | |- context [texpand ?s ?w] => destruct (texpand s w) as [?|[]] eqn:?
    | |- context [tzip2 ?f ?a ?b] => destruct (tzip2 f a b) eqn:?
    | |- context [mk_weightedN ?v ?w] => unfold mk_weightedN
    | |- context [if ?c then _ else _] => destruct c eqn:?
    | |- context [match ?c with _ => _ end] => destruct c eqn:?
    end).

Definition sval_of_fill (f : option atom) : sval := match f with None => VNone | Some a => VAtom a end.

(* ------------------------------------------------------------------ (a) the binary dispatch *)

Theorem gen_apply_operation : forall op a b rev,
    call op src_apply_operation [VWT a; sval_of_operand b; VOpName; VBool rev]
    = of_res (rmap VWT (apply_operation a b op rev)).
Proof.
  intros op [va [wa|]] [[vb [wb|]]|vb] [|]; unfold call; cbn.
  all: unfold expand_weight.
  all: crush.
Qed.

Lemma gen_dunders : src_dunders = model_dunders.
Proof. reflexivity. Qed.

(* ------------------------------------------------------------------ (b) methods *)

Theorem gen_filled : forall op t fill,
    call op src_filled [VWT t; sval_of_fill fill] = SOk (VTen (filled fill t)).
Proof. intros op [v [w|]] [f|]; unfold call; cbn; reflexivity. Qed.

Theorem gen_weighted_value : forall op t, call op src_weighted_value [VWT t] = SOk (VTen (weighted_value t)).
Proof. intros op [v [w|]]; unfold call; cbn; reflexivity. Qed.

Theorem gen_valued : forall op t v, call op src_valued [VWT t; VTen v] = of_res (rmap VWT (valued t v)).
Proof. intros op [v0 [w|]] v; unfold call, valued; crush. Qed.

Theorem gen_map : forall op t fv fw fill,
    call op src_map [VWT t; VFun fv fw; sval_of_fill fill; VNone; VNone] = of_res (rmap VWT (wmap fv fill t)).
Proof.
  intros op t fv fw fill. unfold call, wmap; destruct fill; cbn;
    match goal with |- context [fv ?x] => destruct (fv x) as [r|[]] end; cbn; reflexivity.
Qed.

Theorem gen_map_both : forall op t fv fw,
    call op src_map_both [VWT t; VFun fv fw; VNone; VNone; VNone] = of_res (rmap VWT (wmap_both fv fw t)).
Proof.
  intros op [v [w|]] fv fw; unfold call, wmap_both; cbn.
  - destruct (fv v) as [r|[]]; cbn; try reflexivity; destruct (fw w) as [r'|[]]; cbn; try reflexivity.
  - destruct (fv v) as [r|[]]; cbn; reflexivity.
Qed.

Theorem gen_index_put : forall op t idx vals acc,
    call op src_index_put [VWT t; VIdx idx; VVals vals; VBool acc] = of_res (rmap VWT (windex_put idx vals acc t)).
Proof. intros. unfold call. cbn. reflexivity. Qed.

Theorem gen_view : forall op t s, call op src_view [VWT t; VShape s] = of_res (rmap VWT (wview s t)).
Proof. intros. unfold call. cbn. reflexivity. Qed.

Theorem gen_expand : forall op t s, call op src_expand [VWT t; VShape s] = of_res (rmap VWT (wexpand s t)).
Proof. intros. unfold call. cbn. reflexivity. Qed.

Theorem gen_wsum : forall op t fill dim, wf t ->
    call op src_wsum [VWT t; VAtom fill; VKws dim] = of_res (rmap pair_val (wsum fill dim t)).
Proof.
  intros op [v [[sw fw]|]] fill dim W; unfold wf in W; cbn in W; try subst sw; unfold call, wsum, wsum_mask, ndim; cbn;
    unfold sum_ten, sum_wgt; cbn;
    destruct (torch_sum_mask (List.length (shape v)) dim) as [R|[]]; cbn; reflexivity.
Qed.

Theorem gen_sum : forall op t fill dim, wf t ->
    call op src_sum [VWT t; VAtom fill; VKws dim] = of_res (rmap VTen (wsum_only fill dim t)).
Proof.
  intros op [v [w|]] fill dim W; unfold call, wsum_only, ndim; cbn; unfold sum_ten; cbn.
  - destruct (wsum fill dim _) as [[a b]|[]]; cbn; reflexivity.
  - destruct (torch_sum_mask (List.length (shape v)) dim) as [R|[]]; cbn; reflexivity.
Qed.

Theorem gen_get_filled_value_and_weight : forall op x fill,
    call op src_get_filled_value_and_weight [sval_of_operand x; sval_of_fill fill]
    = SOk (VTuple (VTen (fst (filled_value_and_weight fill x))) (sval_of_weight (snd (filled_value_and_weight fill x)))).
Proof. intros op [t|v] [f|]; unfold call; cbn; reflexivity. Qed.

(* ------------------------------------------------------------------ (c) _utils.py *)

Theorem gen_get_dim : forall op x dim but_dim n d,
    ndim_of x = Some n -> dimspec_of dim but_dim = Some d ->
    call op src_get_dim [x; dim; but_dim] = of_res (rmap VDims (get_dim n d)).
Proof.
  intros op x dim but_dim n d Hn Hd. unfold call.
  destruct dim; try discriminate; destruct but_dim; try discriminate; cbn in Hd; injection Hd as <-; cbn;
    rewrite ?Hn; cbn; unfold complement, wrap_neg, all_nonneg; rewrite ?Nat2Z.id; crush.
Qed.

Theorem gen_sum_dim : forall op x fill dim but_dim d,
    dimspec_of dim but_dim = Some d ->
    call op src_sum_dim [sval_of_operand x; VAtom fill; dim; but_dim; VNone] = of_res (rmap VTen (sum_dim fill d x)).
Proof.
  intros op [t|v] fill dim but_dim d Hd; unfold call, sum_dim, sum_ten; cbn; rewrite Hd; cbn.
  - destruct (get_dim (ndim t) d) as [l|[]]; cbn; reflexivity.
  - destruct (get_dim (List.length (shape v)) d) as [l|[]]; cbn; reflexivity.
Qed.

Theorem gen_wsum_dim : forall op t fill dim but_dim d,
    dimspec_of dim but_dim = Some d ->
    call op src_wsum_dim [VWT t; VAtom fill; dim; but_dim; VNone] = of_res (rmap pair_val (wsum_dim fill d t)).
Proof.
  intros op t fill dim but_dim d Hd; unfold call, wsum_dim; cbn; rewrite Hd; cbn.
  destruct (get_dim (ndim t) d) as [l|[]]; cbn; reflexivity.
Qed.

Theorem gen_wsum_dim_first : forall op t fill dim but_dim d,
    dimspec_of dim but_dim = Some d ->
    call op src_wsum_dim_return_weighted_sum_only [VWT t; VAtom fill; dim; but_dim; VNone]
    = of_res (rmap (fun p => VTen (fst p)) (wsum_dim fill d t)).
Proof.
  intros op t fill dim but_dim d Hd; unfold call; cbn; rewrite Hd; cbn.
  destruct (wsum_dim fill d t) as [[a b]|[]]; cbn; reflexivity.
Qed.

Theorem gen_wsum_dim_second : forall op t fill dim but_dim d,
    dimspec_of dim but_dim = Some d ->
    call op src_wsum_dim_return_sum_of_weights_only [VWT t; VAtom fill; dim; but_dim; VNone]
    = of_res (rmap (fun p => VWgt (snd p)) (wsum_dim fill d t)).
Proof.
  intros op t fill dim but_dim d Hd; unfold call; cbn; rewrite Hd; cbn.
  destruct (wsum_dim fill d t) as [[a b]|[]]; cbn; reflexivity.
Qed.

(** unsqueeze_right(t, ndim=n): n more axes of size 1 on the right (= innermost: in front, in the reversed shapes) *)
Theorem gen_unsqueeze_right : forall op t n,
    call op src_unsqueeze_right [VWT t; VInt (Z.of_nat n)]
    = of_res (rmap VWT (match n with 0 => Ok t | S _ => wview (repeat 1 n ++ shape (value t)) t end)).
Proof.
  intros op t [|n]; unfold call; [cbn; reflexivity|].
  cbn -[repeat Z.to_nat]. change (Z.pos (Pos.of_succ_nat n)) with (Z.of_nat (S n)). rewrite Nat2Z.id. reflexivity.
Qed.

Theorem gen_unsqueeze_right_negative : forall op x z,
    (z < 0)%Z -> call op src_unsqueeze_right [x; VInt z] = SExc "AssertionError".
Proof.
  intros op x z Hz. unfold call. cbn. destruct z; try lia. cbn. reflexivity.
Qed.

(* ------------------------------------------------------------------ (d) compute_std_from_variance *)

Definition exc_convergence : string := "LeaspyConvergenceError".

Definition std_result (o : std_outcome) : sres sval :=
  match o with
  | StdRefused => SExc "LeaspyConvergenceError"
  | StdSqrt v => SOk (VSqrtOf v)
  end.

Theorem gen_compute_std_from_variance : forall op v name tol,
    call op src_compute_std_from_variance [VTen v; name; VAtom tol] = std_result (std_from_variance tol v).
Proof.
  intros op v name tol. unfold call, std_from_variance. cbn -[to_flat]. rewrite any_lt_flat.
  destruct (existsb (fun x => alt x tol) (to_flat v)); reflexivity.
Qed.

(* ------------------------------------------------------------------ signatures *)

Lemma gen_defaults :
  [("apply_operation", defaults_apply_operation); ("filled", defaults_filled); ("map", defaults_map);
   ("map_both", defaults_map_both); ("index_put", defaults_index_put); ("wsum", defaults_wsum); ("sum", defaults_sum);
   ("get_filled_value_and_weight", defaults_get_filled_value_and_weight); ("get_dim", defaults_get_dim);
   ("sum_dim", defaults_sum_dim); ("wsum_dim", defaults_wsum_dim);
   ("compute_std_from_variance", defaults_compute_std_from_variance)]%string = model_defaults.
Proof. reflexivity. Qed.

(* ------------------------------------------------------------------ the API run through the REGENERATED bodies *)

Definition run_wt (f : fundef) (args : list sval) : res wt := to_res proj_wt (call aadd f args).
Definition run_ten (f : fundef) (args : list sval) : res (tensor atom) := to_res proj_ten (call aadd f args).
Definition run_pair (f : fundef) (args : list sval) : res (tensor atom * tensor N) := to_res proj_pair (call aadd f args).

Definition total_ten (r : res (tensor atom)) : tensor atom :=
  match r with Ok t => t | Err _ => mkT [] (fun _ => NaN) end.

Definition args_of_dimspec (d : dimspec) : list sval :=
  match d with
  | DimDefault => [VNone; VNone]
  | Dim l => [VDims l; VNone]
  | ButDim l => [VNone; VDims l]
  | DimAndButDim => [VDims []; VDims []]
  end.

Definition gen_impl : impl :=
  mkImpl
    (fun a b op rev => to_res proj_wt (call op src_apply_operation [VWT a; sval_of_operand b; VOpName; VBool rev]))
    (fun f fill t => run_wt src_map [VWT t; VFun f stuck_fun; sval_of_fill fill; VNone; VNone])
    (fun idx vals acc t => run_wt src_index_put [VWT t; VIdx idx; VVals vals; VBool acc])
    (fun s t => run_wt src_view [VWT t; VShape s])
    (fun s t => run_wt src_expand [VWT t; VShape s])
    (fun fill t => total_ten (run_ten src_filled [VWT t; sval_of_fill fill]))
    (fun t => total_ten (run_ten src_weighted_value [VWT t]))
    (fun fill dim t => run_pair src_wsum [VWT t; VAtom fill; VKws dim])
    (fun fill dim t => run_ten src_sum [VWT t; VAtom fill; VKws dim])
    (fun fill d x => run_ten src_sum_dim ([sval_of_operand x; VAtom fill] ++ args_of_dimspec d ++ [VNone]))
    (fun fill d t => run_pair src_wsum_dim ([VWT t; VAtom fill] ++ args_of_dimspec d ++ [VNone])).

Lemma dimspec_args : forall d, exists dim but_dim, args_of_dimspec d = [dim; but_dim] /\ dimspec_of dim but_dim = Some d.
Proof. intros [|l|l|]; simpl; eauto. Qed.

Lemma gen_impl_tree : impl_eq_tree gen_impl model_impl.
Proof.
  repeat split; simpl; intros; unfold run_wt.
  - rewrite gen_apply_operation. now apply to_res_of_res.
  - rewrite gen_map. now apply to_res_of_res.
  - rewrite gen_index_put. now apply to_res_of_res.
  - rewrite gen_view. now apply to_res_of_res.
  - rewrite gen_expand. now apply to_res_of_res.
Qed.

Lemma gen_impl_read : impl_eq_read gen_impl model_impl.
Proof.
  intros q x W. destruct q as [|[f|]| | | | |]; destruct x as [t|v]; try reflexivity;
    unfold read_with, gen_impl, model_impl; cbn [i_filled i_weighted_value i_wsum i_sum i_sum_dim i_wsum_dim owf] in *;
    unfold run_ten, run_pair.
  - rewrite (gen_filled aadd t (Some f)). reflexivity.
  - rewrite gen_weighted_value. reflexivity.
  - rewrite gen_wsum by assumption. rewrite (to_res_of_res _ pair_val proj_pair) by apply proj_pair_val. reflexivity.
  - rewrite gen_sum by assumption. now rewrite (to_res_of_res _ VTen proj_ten).
  - destruct (dimspec_args d) as (dim & bd & -> & Hd). cbn [app].
    rewrite (gen_sum_dim aadd (OW t) fill dim bd d Hd). now rewrite (to_res_of_res _ VTen proj_ten).
  - destruct (dimspec_args d) as (dim & bd & -> & Hd). cbn [app].
    rewrite (gen_sum_dim aadd (OT v) fill dim bd d Hd). now rewrite (to_res_of_res _ VTen proj_ten).
  - destruct (dimspec_args d) as (dim & bd & -> & Hd). cbn [app].
    rewrite (gen_wsum_dim aadd t fill dim bd d Hd).
    rewrite (to_res_of_res _ pair_val proj_pair) by apply proj_pair_val. reflexivity.
Qed.

(** C06 over the regenerated bodies: for EVERY tree of API operations executed by the translated source
    (_apply_operation, map, index_put, view, expand) and every reading executed by the translated source (filled with a
    fill value, weighted_value, wsum, sum, sum_dim, wsum_dim): if the leaves agree on observed positions, both runs fail
    identically or read the same tensors — what sits at a position of weight 0 of an operand never reaches a reading. *)
Theorem gen_run_ignores_masked : forall e q env1 env2,
    (forall i, ragree oagree (env1 i) (env2 i)) ->
    ragree reading_agree (run_with gen_impl env1 e q) (run_with gen_impl env2 e q).
Proof. exact (run_impl_ignores_masked gen_impl gen_impl_tree gen_impl_read). Qed.

Theorem gen_eval_agree : forall e env1 env2,
    (forall i, ragree oagree (env1 i) (env2 i)) ->
    ragree oagree (eval_with gen_impl env1 e) (eval_with gen_impl env2 e).
Proof. exact (eval_impl_agree gen_impl gen_impl_tree). Qed.

(** the regenerated bodies compute the model's trees and readings (so every theorem of Props/C06.v about [eval],
    [wsum], [sum_dim] ... is a theorem about the translated source) *)
Theorem gen_eval_is_model : forall env e, eval_with gen_impl env e = eval env e.
Proof. intros. rewrite (eval_with_ext gen_impl model_impl gen_impl_tree). apply eval_with_model. Qed.

(** the translated compute_std_from_variance: refuses exactly when an entry is < tol; otherwise returns the square
    root of the very tensor it was given, whose entries (when not NaN) are >= tol, hence have a square root *)
Definition gen_std (tol : atom) (v : tensor atom) : sres sval :=
  call aadd src_compute_std_from_variance [VTen v; VNone; VAtom tol].

Theorem gen_std_spec : forall tol v,
    (gen_std tol v = SExc "LeaspyConvergenceError" <-> exists x, In x (to_flat v) /\ alt x tol = true) /\
    (forall r, gen_std tol v = SOk r -> r = VSqrtOf v /\ forall x, In x (to_flat v) -> alt x tol = false) /\
    (gen_std tol v = SExc "LeaspyConvergenceError" \/ gen_std tol v = SOk (VSqrtOf v)).
Proof.
  intros tol v. unfold gen_std. rewrite gen_compute_std_from_variance.
  pose proof (std_refused_iff tol v) as HR.
  destruct (std_from_variance tol v) as [|v'] eqn:E; simpl.
  - split; [|split]; [| discriminate | auto]. split; [intros _; now apply HR | reflexivity].
  - destruct (std_accepted_spec tol v v' E) as [-> Hall].
    split; [|split]; [| | auto].
    + split; [discriminate|]. intros Hx. apply HR in Hx. discriminate.
    + intros r [= <-]. auto.
Qed.

Theorem gen_std_sqrt_defined : forall q v r,
    (0 <= q)%Q -> gen_std (Fin q) v = SOk r ->
    r = VSqrtOf v /\ forall x, In x (to_flat v) -> is_nan x = false -> ale (Fin q) x = true /\ sqrt_defined x.
Proof.
  intros q v r Hq H. unfold gen_std in H. rewrite gen_compute_std_from_variance in H.
  destruct (std_from_variance (Fin q) v) as [|v'] eqn:E; simpl in H; [discriminate|].
  injection H as <-. destruct (std_accepted_spec _ _ _ E) as [-> _]. split; [reflexivity|].
  intros x Hx Hn. now apply (std_accepted_sqrt_defined q v v Hq E).
Qed.

Theorem gen_std_nan_not_refused : forall tol, exists v, gen_std tol v = SOk (VSqrtOf v) /\ In NaN (to_flat v).
Proof.
  intros tol. exists (of_flat NaN [] [NaN]). split; [|simpl; auto].
  unfold gen_std. rewrite gen_compute_std_from_variance. reflexivity.
Qed.

(* ------------------------------------------------------------------ grouped statements (for Props/C06.v) *)

Definition tie_readings : Prop :=
  (forall op t fill, call op src_filled [VWT t; sval_of_fill fill] = SOk (VTen (filled fill t))) /\
  (forall op t, call op src_weighted_value [VWT t] = SOk (VTen (weighted_value t))) /\
  (forall op t fill dim, wf t -> call op src_wsum [VWT t; VAtom fill; VKws dim] = of_res (rmap pair_val (wsum fill dim t))) /\
  (forall op t fill dim, wf t -> call op src_sum [VWT t; VAtom fill; VKws dim] = of_res (rmap VTen (wsum_only fill dim t))) /\
  (forall op x fill, call op src_get_filled_value_and_weight [sval_of_operand x; sval_of_fill fill]
     = SOk (VTuple (VTen (fst (filled_value_and_weight fill x))) (sval_of_weight (snd (filled_value_and_weight fill x))))).

Theorem gen_tie_readings : tie_readings.
Proof.
  unfold tie_readings. repeat match goal with |- _ /\ _ => split end; intros;
    [apply gen_filled | apply gen_weighted_value | now apply gen_wsum | now apply gen_sum | apply gen_get_filled_value_and_weight].
Qed.

Definition tie_maps : Prop :=
  (forall op t v, call op src_valued [VWT t; VTen v] = of_res (rmap VWT (valued t v))) /\
  (forall op t fv fw fill, call op src_map [VWT t; VFun fv fw; sval_of_fill fill; VNone; VNone] = of_res (rmap VWT (wmap fv fill t))) /\
  (forall op t fv fw, call op src_map_both [VWT t; VFun fv fw; VNone; VNone; VNone] = of_res (rmap VWT (wmap_both fv fw t))) /\
  (forall op t idx vals acc, call op src_index_put [VWT t; VIdx idx; VVals vals; VBool acc] = of_res (rmap VWT (windex_put idx vals acc t))) /\
  (forall op t s, call op src_view [VWT t; VShape s] = of_res (rmap VWT (wview s t))) /\
  (forall op t s, call op src_expand [VWT t; VShape s] = of_res (rmap VWT (wexpand s t))).

Theorem gen_tie_maps : tie_maps.
Proof.
  unfold tie_maps. repeat match goal with |- _ /\ _ => split end; intros;
    [apply gen_valued | apply gen_map | apply gen_map_both | apply gen_index_put | apply gen_view | apply gen_expand].
Qed.

Definition tie_utils : Prop :=
  (forall op x dim but_dim n d, ndim_of x = Some n -> dimspec_of dim but_dim = Some d ->
     call op src_get_dim [x; dim; but_dim] = of_res (rmap VDims (get_dim n d))) /\
  (forall op x fill dim but_dim d, dimspec_of dim but_dim = Some d ->
     call op src_sum_dim [sval_of_operand x; VAtom fill; dim; but_dim; VNone] = of_res (rmap VTen (sum_dim fill d x))) /\
  (forall op t fill dim but_dim d, dimspec_of dim but_dim = Some d ->
     call op src_wsum_dim [VWT t; VAtom fill; dim; but_dim; VNone] = of_res (rmap pair_val (wsum_dim fill d t))) /\
  (forall op t fill dim but_dim d, dimspec_of dim but_dim = Some d ->
     call op src_wsum_dim_return_weighted_sum_only [VWT t; VAtom fill; dim; but_dim; VNone]
     = of_res (rmap (fun p => VTen (fst p)) (wsum_dim fill d t))) /\
  (forall op t fill dim but_dim d, dimspec_of dim but_dim = Some d ->
     call op src_wsum_dim_return_sum_of_weights_only [VWT t; VAtom fill; dim; but_dim; VNone]
     = of_res (rmap (fun p => VWgt (snd p)) (wsum_dim fill d t))) /\
  (forall op t n, call op src_unsqueeze_right [VWT t; VInt (Z.of_nat n)]
     = of_res (rmap VWT (match n with 0 => Ok t | S _ => wview (repeat 1 n ++ shape (value t)) t end))) /\
  (forall op x z, (z < 0)%Z -> call op src_unsqueeze_right [x; VInt z] = SExc "AssertionError").

Theorem gen_tie_utils : tie_utils.
Proof.
  unfold tie_utils. repeat match goal with |- _ /\ _ => split end; intros;
    [now apply gen_get_dim | now apply gen_sum_dim | now apply gen_wsum_dim | now apply gen_wsum_dim_first
     | now apply gen_wsum_dim_second | apply gen_unsqueeze_right | now apply gen_unsqueeze_right_negative].
Qed.

Definition tie_signatures : Prop :=
  src_dunders = model_dunders /\ src_signatures = model_signatures /\
  [("apply_operation", defaults_apply_operation); ("filled", defaults_filled); ("map", defaults_map);
   ("map_both", defaults_map_both); ("index_put", defaults_index_put); ("wsum", defaults_wsum); ("sum", defaults_sum);
   ("get_filled_value_and_weight", defaults_get_filled_value_and_weight); ("get_dim", defaults_get_dim);
   ("sum_dim", defaults_sum_dim); ("wsum_dim", defaults_wsum_dim);
   ("compute_std_from_variance", defaults_compute_std_from_variance)]%string = model_defaults.

Theorem gen_tie_signatures : tie_signatures.
Proof. split; [exact gen_dunders | split; [reflexivity | exact gen_defaults]]. Qed.

(* ------------------------------------------------------------------ unary dunders and the unary-operator factory *)

Theorem gen_neg : forall op t, wf t -> call op src_neg [VWT t] = SOk (VWT (wneg t)).
Proof.
  intros op [v [[sw fw]|]] W; unfold wf in W; cbn in W; try subst sw; unfold call, wneg; cbn; rewrite ?shape_eqb_refl; reflexivity.
Qed.

Theorem gen_abs : forall op t, wf t ->
    call op src_abs_dunder [VWT t] = SOk (VWT (wabs t)) /\ call op src_abs [VWT t] = SOk (VWT (wabs t)).
Proof.
  intros op [v [[sw fw]|]] W; unfold wf in W; cbn in W; try subst sw; unfold call, wabs; cbn; rewrite ?shape_eqb_refl; split; reflexivity.
Qed.

Theorem gen_pow : forall op t n, wf t -> call op src_pow [VWT t; VInt (Z.of_nat n)] = SOk (VWT (wpow n t)).
Proof.
  intros op [v [[sw fw]|]] n W; unfold wf in W; cbn in W; try subst sw; unfold call, wpow, valued.
  all: cbn -[Z.of_nat Z.to_nat Z.leb]; rewrite (proj2 (Z.leb_le 0 (Z.of_nat n)) (Nat2Z.is_nonneg n)); cbn -[Z.of_nat Z.to_nat];
    rewrite Nat2Z.id, ?shape_eqb_refl; reflexivity.
Qed.

(** f_compatible = factory_weighted_tensor_unary_operator(f, fill_value=fill): on a WeightedTensor it is [wmap]
    (f on filled(fill), weights kept), on a plain tensor it is f itself (f returning ONE tensor) *)
Theorem gen_factory : forall op fv fw fill,
    (forall t, call op src_factory [VFun fv fw; sval_of_fill fill; VWT t; VNone; VNone] = of_res (rmap VWT (wmap fv fill t))) /\
    (forall v, call op src_factory [VFun fv fw; sval_of_fill fill; VTen v; VNone; VNone] = of_res (rmap VTen (fv v))).
Proof.
  intros op fv fw fill. split.
  - intros t. unfold call, wmap; destruct fill; cbn;
      match goal with |- context [fv ?x] => destruct (fv x) as [r|[]] end; cbn; reflexivity.
  - intros v. unfold call; destruct fill; cbn; destruct (fv v) as [r|[]]; cbn; reflexivity.
Qed.

Definition tie_unary : Prop :=
  (forall op t, wf t -> call op src_neg [VWT t] = SOk (VWT (wneg t))) /\
  (forall op t, wf t -> call op src_abs_dunder [VWT t] = SOk (VWT (wabs t)) /\ call op src_abs [VWT t] = SOk (VWT (wabs t))) /\
  (forall op t n, wf t -> call op src_pow [VWT t; VInt (Z.of_nat n)] = SOk (VWT (wpow n t))) /\
  (forall op fv fw fill,
    (forall t, call op src_factory [VFun fv fw; sval_of_fill fill; VWT t; VNone; VNone] = of_res (rmap VWT (wmap fv fill t))) /\
    (forall v, call op src_factory [VFun fv fw; sval_of_fill fill; VTen v; VNone; VNone] = of_res (rmap VTen (fv v)))).

Theorem gen_tie_unary : tie_unary.
Proof.
  unfold tie_unary. repeat match goal with |- _ /\ _ => split end; intros;
    [now apply gen_neg | now apply gen_abs | now apply gen_pow | apply gen_factory].
Qed.
