(** Non-vacuity: concrete values meeting the hypotheses of the C06 theorems, and what would go wrong
    without the masking discipline. *)
From Coq Require Import List NArith ZArith Bool Arith QArith.
From Leaspy Require Import Base.Atoms Masked.Weighted Masked.Observed Masked.Pipeline.
Import ListNotations.
Local Close Scope Q_scope.
Local Open Scope nat_scope.

Definition exA : wt := mkW (of_flat NaN [3] [Fin 1; NaN; Fin 3]%Q) (Some (of_flat 0%N [3] [1; 0; 2]%N)).
Definition exB : wt := mkW (of_flat NaN [3] [Fin 1; PInf; Fin 3]%Q) (Some (of_flat 0%N [3] [1; 0; 2]%N)).

(** two tensors with different garbage (NaN / +inf) under the mask agree on observed positions *)
Example ex_wagree : wagree exA exB.
Proof.
  unfold wagree, wf, observed; simpl. repeat split; auto.
  intros m Hm Ho. unfold inr in Hm; simpl in Hm.
  destruct Hm as [<-|[<-|[<-|[]]]]; try reflexivity. exfalso; apply Ho; reflexivity.
Qed.

(** the weighted sum is 1*1 + 2*3 = 7 for both, the sum of weights 3 *)
Example ex_wsum : (at_ (fst (wsum_mask azero [true] exA)) [], at_ (snd (wsum_mask azero [true] exA)) [])
                  = (Fin (7 # 1)%Q, 3%N)
               /\ at_ (fst (wsum_mask azero [true] exB)) [] = Fin (7 # 1)%Q.
Proof. split; vm_compute; reflexivity. Qed.

(** weighting BEFORE filling would leak: 0 * NaN = NaN *)
Example ex_leak_if_weighted_before_filling :
  fold_left aadd (map (fun m => amul (ofN (match weight exA with Some w => at_ w m | None => 1%N end)) (at_ (value exA) m))
                      (indices [3])) azero = NaN.
Proof. vm_compute. reflexivity. Qed.

(** padding with garbage: same sums *)
Example ex_padding :
  at_ (fst (wsum_mask azero [true] (wpad 0 4 (fun _ => NaN) exA))) [] = Fin (7 # 1)%Q
  /\ shape (value (wpad 0 4 (fun _ => NaN) exA)) = [7].
Proof. split; vm_compute; reflexivity. Qed.

(** an empty aggregate is filled with the requested value *)
Example ex_empty_aggregate :
  let t := mkW (of_flat NaN [2; 2] [NaN; PInf; Fin 1; Fin 2]%Q) (Some (of_flat 0%N [2; 2] [0; 0; 1; 1]%N)) in
  to_flat (fst (wsum_mask (Fin (-5 # 1)%Q) [true; false] t)) = [Fin (-5 # 1)%Q; Fin (3 # 1)%Q].
Proof. vm_compute. reflexivity. Qed.

(** the linear model on 2 individuals x 2 visits x 1 feature, second visit of individual 0 is padding whose
    time is NaN: the model there is exactly 0, elsewhere g + v0 * alpha * (t - tau) + shift *)
Definition ex_env (tpad : atom) (i : nat) : res operand :=
  match i with
  | 0 => bind (put_t (of_flat NaN [2; 2] [Fin 1; tpad; Fin 1; Fin 2]%Q) (of_flat 0%N [1; 2; 2] [1; 0; 1; 1]%N))
              (fun t => Ok (OW t))
  | 1 => Ok (OT (of_flat NaN [1; 2] [Fin 0; Fin 1]%Q))        (* tau *)
  | 2 => Ok (OT (of_flat NaN [1; 2] [Fin 1; Fin 2]%Q))        (* alpha *)
  | 3 => Ok (OT (of_flat NaN [1; 1; 1] [Fin 3]%Q))            (* v0 *)
  | 4 => Ok (OT (of_flat NaN [1; 1; 1] [Fin 10]%Q))           (* g *)
  | 5 => Ok (OT (of_flat NaN [1; 1; 2] [Fin 0; Fin 100]%Q))   (* space shifts *)
  | _ => Err EMalformed
  end.

Example ex_linear_model :
  bind (model_of (ex_env NaN) (linear_model_expr 2 2)) (fun t => Ok (to_flat t))
  = Ok [Fin (13 # 1); Fin 0; Fin (110 # 1); Fin (116 # 1)]%Q
  /\ bind (model_of (ex_env PInf) (linear_model_expr 2 2)) (fun t => Ok (to_flat t))
  = Ok [Fin (13 # 1); Fin 0; Fin (110 # 1); Fin (116 # 1)]%Q.
Proof. split; vm_compute; reflexivity. Qed.

(** hypotheses of the attachment and noise theorems are met by the F3 witness data *)
Example ex_put_y_wf : exists y, put_y w_values w_mask = Ok y /\ wf y /\ weight y <> None.
Proof. eexists. split; [reflexivity|]. split; [reflexivity | discriminate]. Qed.

(** Non-vacuity of the noise theorem on the F3 witness (2 individuals x 1 visit x 2 features, y[0,0,1] missing):
    the two model tensors differ (5 against 0) only where y is not observed ... *)
Definition ex_w_y : wt := mkW w_values (Some (tmap to_bool_weight w_mask)).

Example ex_noise_hypotheses :
  wagree ex_w_y ex_w_y /\ shape w_model_a = shape (value ex_w_y) /\ shape w_model_b = shape w_model_a /\
  (forall m, inr (shape w_model_a) m -> observed ex_w_y m -> at_ w_model_a m = at_ w_model_b m) /\
  at_ w_model_a [1; 0; 0] <> at_ w_model_b [1; 0; 0].
Proof.
  split.
  { unfold wagree, wf; simpl. repeat split; auto. }
  split; [reflexivity|]. split; [reflexivity|]. split.
  { intros m Hm Ho. unfold inr in Hm. simpl in Hm.
    destruct Hm as [Hm|[Hm|[Hm|[Hm|[]]]]]; subst m; try reflexivity.
    exfalso. apply Ho. reflexivity. }
  vm_compute. discriminate.
Qed.

(** ... and both give the variance 0 = residual mean square over the 3 observed entries, with BOTH rules
    (the former scalar rule, which summed model^2 without the mask, gave 25/3 for the first model tensor). *)
Definition flat_is (r : res (tensor atom)) (rs : list nat) (want : list atom) : bool :=
  match r with
  | Ok t => shape_eqb (shape t) rs && list_eqb atom_same (to_flat t) want
  | Err _ => false
  end.

Example ex_noise_witness :
  flat_is (noise_var_scalar ex_w_y w_model_a) [] [Fin 0] = true /\
  flat_is (noise_var_scalar ex_w_y w_model_b) [] [Fin 0] = true /\
  flat_is (noise_var_diagonal ex_w_y w_model_a) [2] [Fin 0; Fin 0] = true /\
  flat_is (noise_var_diagonal ex_w_y w_model_b) [2] [Fin 0; Fin 0] = true /\
  bind (rss_over_observed ex_w_y w_model_a) (fun r => Ok (atom_same r (Fin 0))) = Ok true.
Proof. repeat split; vm_compute; reflexivity. Qed.

(** a case with non-zero residuals and garbage under the mask on both sides: y[0,0,1] = NaN (masked), model there
    +inf; residuals 1-0, 2-2, 3-5: scalar variance (1 + 0 + 4) / 3, per feature (1 + 0) / 2 and 4 / 1;
    replacing the garbage by -inf / NaN changes nothing *)
Definition ex_y_nan : wt := mkW (of_flat NaN [2; 1; 2] [Fin 1; NaN; Fin 2; Fin 3]%Q) (Some (tmap to_bool_weight w_mask)).
Definition ex_y_ninf : wt := mkW (of_flat NaN [2; 1; 2] [Fin 1; NInf; Fin 2; Fin 3]%Q) (Some (tmap to_bool_weight w_mask)).
Definition ex_model_pinf : tensor atom := of_flat NaN [2; 1; 2] [Fin 0; PInf; Fin 2; Fin 5]%Q.
Definition ex_model_nan : tensor atom := of_flat NaN [2; 1; 2] [Fin 0; NaN; Fin 2; Fin 5]%Q.

Example ex_noise_garbage :
  flat_is (noise_var_scalar ex_y_nan ex_model_pinf) [] [Fin (5 # 3)]%Q = true /\
  flat_is (noise_var_scalar ex_y_ninf ex_model_nan) [] [Fin (5 # 3)]%Q = true /\
  flat_is (noise_var_diagonal ex_y_nan ex_model_pinf) [2] [Fin (1 # 2); Fin 4]%Q = true /\
  flat_is (noise_var_diagonal ex_y_ninf ex_model_nan) [2] [Fin (1 # 2); Fin 4]%Q = true /\
  flat_is (rss_over_observed_per_ft ex_y_nan ex_model_pinf) [2] [Fin (1 # 2); Fin 4]%Q = true.
Proof. repeat split; vm_compute; reflexivity. Qed.

(** the correspondence checker accepts the model's own value and rejects the value of the former rule *)
Example ex_check_noise_case :
  check_noise_case (false, [2; 1; 2], [Fin 1; NaN; Fin 2; Fin 3]%Q, [1; 0; 1; 1]%N, [Fin 1; Fin 5; Fin 2; Fin 3]%Q,
                    [], [Fin 0]) = true /\
  check_noise_case (false, [2; 1; 2], [Fin 1; NaN; Fin 2; Fin 3]%Q, [1; 0; 1; 1]%N, [Fin 1; Fin 5; Fin 2; Fin 3]%Q,
                    [], [Fin (25 # 3)]%Q) = false.
Proof. split; vm_compute; reflexivity. Qed.

(** non-vacuity of the noise padding theorem: [ex_y_nan] meets its hypotheses; with 2 more visits holding NaN (y)
    and +inf (model) the variances are the same 5/3 and (1/2, 4), and the padded shapes really are 2 x 3 x 2 *)
Example ex_noise_padding :
  wf ex_y_nan /\ weight ex_y_nan <> None /\ length (shape (value ex_y_nan)) = 3 /\
  shape ex_model_pinf = shape (value ex_y_nan) /\
  shape (value (wpad VISIT_POS 2 (fun _ => NaN) ex_y_nan)) = [2; 3; 2] /\
  flat_is (noise_var_scalar (wpad VISIT_POS 2 (fun _ => NaN) ex_y_nan) (tpad VISIT_POS 2 (fun _ => PInf) ex_model_pinf))
          [] [Fin (5 # 3)]%Q = true /\
  flat_is (noise_var_diagonal (wpad VISIT_POS 2 (fun _ => NaN) ex_y_nan) (tpad VISIT_POS 2 (fun _ => PInf) ex_model_pinf))
          [2] [Fin (1 # 2); Fin 4]%Q = true.
Proof. repeat split; try discriminate; vm_compute; reflexivity. Qed.
