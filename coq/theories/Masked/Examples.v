(** Non-vacuity: concrete values meeting the hypotheses of the C06 theorems, and what would go wrong
    without the masking discipline. *)
From Coq Require Import List NArith ZArith Bool Arith QArith.
From Leaspy Require Import Base.Atoms Masked.Weighted Masked.Observed Masked.Pipeline.
Import ListNotations.
Local Close Scope Q_scope.
Local Open Scope nat_scope.

Definition exA : wt := mkW (of_flat NaN [3] [Fin 1; NaN; Fin 3]%Q) (Some (of_flat 0%N [3] [1; 0; 2]%N)).
Definition exB : wt := mkW (of_flat NaN [3] [Fin 1; PInf; Fin 3]%Q) (Some (of_flat 0%N [3] [1; 0; 2]%N)).

(** two tensors with different garbage (NaN / +inf) under the mask agree on observed positions *)
Example ex_wagree : wagree exA exB.
Proof.
  unfold wagree, wf, observed; simpl. repeat split; auto.
  intros m Hm Ho. unfold inr in Hm; simpl in Hm.
  destruct Hm as [<-|[<-|[<-|[]]]]; try reflexivity. exfalso; apply Ho; reflexivity.
Qed.

(** the weighted sum is 1*1 + 2*3 = 7 for both, the sum of weights 3 *)
Example ex_wsum : (at_ (fst (wsum_mask azero [true] exA)) [], at_ (snd (wsum_mask azero [true] exA)) [])
                  = (Fin (7 # 1)%Q, 3%N)
               /\ at_ (fst (wsum_mask azero [true] exB)) [] = Fin (7 # 1)%Q.
Proof. split; vm_compute; reflexivity. Qed.

(** weighting BEFORE filling would leak: 0 * NaN = NaN *)
Example ex_leak_if_weighted_before_filling :
  fold_left aadd (map (fun m => amul (ofN (match weight exA with Some w => at_ w m | None => 1%N end)) (at_ (value exA) m))
                      (indices [3])) azero = NaN.
Proof. vm_compute. reflexivity. Qed.

(** padding with garbage: same sums *)
Example ex_padding :
  at_ (fst (wsum_mask azero [true] (wpad 0 4 (fun _ => NaN) exA))) [] = Fin (7 # 1)%Q
  /\ shape (value (wpad 0 4 (fun _ => NaN) exA)) = [7].
Proof. split; vm_compute; reflexivity. Qed.

(** an empty aggregate is filled with the requested value *)
Example ex_empty_aggregate :
  let t := mkW (of_flat NaN [2; 2] [NaN; PInf; Fin 1; Fin 2]%Q) (Some (of_flat 0%N [2; 2] [0; 0; 1; 1]%N)) in
  to_flat (fst (wsum_mask (Fin (-5 # 1)%Q) [true; false] t)) = [Fin (-5 # 1)%Q; Fin (3 # 1)%Q].
Proof. vm_compute. reflexivity. Qed.

(** the linear model on 2 individuals x 2 visits x 1 feature, second visit of individual 0 is padding whose
    time is NaN: the model there is exactly 0, elsewhere g + v0 * alpha * (t - tau) + shift *)
Definition ex_env (tpad : atom) (i : nat) : res operand :=
  match i with
  | 0 => bind (put_t (of_flat NaN [2; 2] [Fin 1; tpad; Fin 1; Fin 2]%Q) (of_flat 0%N [1; 2; 2] [1; 0; 1; 1]%N))
              (fun t => Ok (OW t))
  | 1 => Ok (OT (of_flat NaN [1; 2] [Fin 0; Fin 1]%Q))        (* tau *)
  | 2 => Ok (OT (of_flat NaN [1; 2] [Fin 1; Fin 2]%Q))        (* alpha *)
  | 3 => Ok (OT (of_flat NaN [1; 1; 1] [Fin 3]%Q))            (* v0 *)
  | 4 => Ok (OT (of_flat NaN [1; 1; 1] [Fin 10]%Q))           (* g *)
  | 5 => Ok (OT (of_flat NaN [1; 1; 2] [Fin 0; Fin 100]%Q))   (* space shifts *)
  | _ => Err EMalformed
  end.

Example ex_linear_model :
  bind (model_of (ex_env NaN) (linear_model_expr 2 2)) (fun t => Ok (to_flat t))
  = Ok [Fin (13 # 1); Fin 0; Fin (110 # 1); Fin (116 # 1)]%Q
  /\ bind (model_of (ex_env PInf) (linear_model_expr 2 2)) (fun t => Ok (to_flat t))
  = Ok [Fin (13 # 1); Fin 0; Fin (110 # 1); Fin (116 # 1)]%Q.
Proof. split; vm_compute; reflexivity. Qed.

(** hypotheses of the attachment theorem are met by the F3 witness data *)
Example ex_put_y_wf : exists y, put_y w_values w_mask = Ok y /\ wf y /\ weight y <> None.
Proof. eexists. split; [reflexivity|]. split; [reflexivity | discriminate]. Qed.
