(** The memory phase of MCMC-SAEM seen from the Gaussian noise statistics (definitions only).

    Mirrors
      algo/fit/mcmc_saem.py::_maximization_step
          sufficient_statistics = model.compute_sufficient_statistics(state)
          burn-in, or current_iteration == 1 + n_burn_in_iter :  self.sufficient_statistics = sufficient_statistics
          else  e = (current_iteration - n_burn_in_iter) ** -burn_in_step_power
                self.sufficient_statistics = {k: v * (1.0 - e) + e * sufficient_statistics[k] for k, v in ...}
          model.update_parameters(state, self.sufficient_statistics, burn_in=...)
      models/obs_models/_gaussian.py   the two noise update rules, which receive the statistics
                                       y_x_model (a WeightedTensor carrying the weights of y) and model_x_model (a plain tensor)

    `v * (1.0 - e)` on a WeightedTensor is `_apply_operation(v, float, "mul")`, `e * new` is the reflected call
    `_apply_operation(new, float, "mul", reverse=True)`, the sum is `_apply_operation(a, b, "add")` on TWO WeightedTensors:
    it requires equal weights, blends the values and KEEPS the weights.  On plain tensors the three operations are torch's.
    The two coefficients are the python floats `1.0 - e` and `e`, whatever they are: the model takes them as given. *)
From Coq Require Import List NArith ZArith Bool Arith QArith Qabs.
From Leaspy Require Import Base.Atoms Masked.Weighted Masked.Observed Masked.Pipeline.
Import ListNotations.
Local Close Scope Q_scope.
Local Open Scope nat_scope.

(** the two collected statistics of `noise_std`: y_x_model (WeightedTensor), model_x_model (plain tensor) *)
Record stats : Type := mkStats { s_yxm : wt; s_mxm : tensor atom }.

(** compute_sufficient_statistics (the part read by the noise rules) for the current model tensor *)
Definition collect (y : wt) (model : tensor atom) : res stats :=
  bind (y_x_model y model) (fun a => Ok (mkStats a (model_x_model model))).

(** the body of both update rules on ANY statistics: sum_dim(-2 * y_x_model + model_x_model, <dims>) *)
Definition noise_summed_stats (d : dimspec) (s : stats) : res (tensor atom) :=
  bind (apply_operation (s_yxm s) (OT (scalar0 (Fin (-2 # 1)%Q))) amul true) (fun m2 =>
  bind (apply_operation m2 (OT (s_mxm s)) aadd false) (fun tot =>
  sum_dim azero d (OW tot))).

(** v * c1 + c2 * new  on two WeightedTensors (c1 = 1.0 - e, c2 = e) *)
Definition blend_w (c1 c2 : atom) (old new : wt) : res wt :=
  bind (apply_operation old (OT (scalar0 c1)) amul false) (fun a =>
  bind (apply_operation new (OT (scalar0 c2)) amul true) (fun b =>
  apply_operation a (OW b) aadd false)).

(** the same expression on two plain tensors *)
Definition blend_t (c1 c2 : atom) (old new : tensor atom) : res (tensor atom) :=
  bind (tbin amul old (scalar0 c1)) (fun a =>
  bind (tbin amul (scalar0 c2) new) (fun b =>
  tbin aadd a b)).

Definition blend_stats (c1 c2 : atom) (old new : stats) : res stats :=
  bind (blend_w c1 c2 (s_yxm old) (s_yxm new)) (fun a =>
  bind (blend_t c1 c2 (s_mxm old) (s_mxm new)) (fun b =>
  Ok (mkStats a b))).

(** one memory iteration per element of [steps]: (1.0 - e, e, model tensor of that iteration).  y never changes. *)
Fixpoint saem_fold (y : wt) (cur : stats) (steps : list (atom * atom * tensor atom)) : res stats :=
  match steps with
  | [] => Ok cur
  | (c1, c2, model) :: rest =>
      bind (collect y model) (fun new =>
      bind (blend_stats c1 c2 cur new) (fun s => saem_fold y s rest))
  end.

(** self.sufficient_statistics after the last memory-less maximization (model tensor [m0]: any burn-in iteration, or
    iteration n_burn_in_iter + 1) followed by [length steps] iterations with memory *)
Definition saem_stats (y : wt) (m0 : tensor atom) (steps : list (atom * atom * tensor atom)) : res stats :=
  bind (collect y m0) (fun s0 => saem_fold y s0 steps).

(** update_parameters on the averaged statistics: the variance handed to compute_std_from_variance *)
Definition noise_var_scalar_saem (y : wt) (m0 : tensor atom) (steps : list (atom * atom * tensor atom)) : res (tensor atom) :=
  bind (y_L2_n_obs y) (fun p =>
  bind (saem_stats y m0 steps) (fun s =>
  bind (noise_summed_stats DimDefault s) (noise_var_of p))).

Definition noise_var_diagonal_saem (y : wt) (m0 : tensor atom) (steps : list (atom * atom * tensor atom)) : res (tensor atom) :=
  bind (y_L2_n_obs_per_ft y) (fun p =>
  bind (saem_stats y m0 steps) (fun s =>
  bind (noise_summed_stats (ButDim [LVL_FT]) s) (noise_var_of p))).

(* ---- vocabulary of the statements *)

(** two model tensors of the shape of y that are equal wherever y is observed (anything elsewhere) *)
Definition magree (y : wt) (model model' : tensor atom) : Prop :=
  shape model = shape (value y) /\ shape model' = shape model /\
  forall m, inr (shape model) m -> observed y m -> at_ model m = at_ model' m.

(** two runs of the memory phase: same coefficients, model tensors that agree wherever y is observed *)
Definition steps_agree (y : wt) (steps steps' : list (atom * atom * tensor atom)) : Prop :=
  Forall2 (fun st st' => fst st = fst st' /\ magree y (snd st) (snd st')) steps steps'.

(* ---- the variant that is NOT the code (used in Examples only): the blend done on regular tensors
        (`weighted_value` of each operand first), after which y_x_model is a plain tensor without weights;
        the update rule then is plain torch arithmetic and a plain sum *)
Definition saem_fold_unweighted (y : wt) (cur : tensor atom * tensor atom) (steps : list (atom * atom * tensor atom))
  : res (tensor atom * tensor atom) :=
  fold_left (fun acc st =>
    match st with (c1, c2, model) =>
      bind acc (fun cur =>
      bind (collect y model) (fun new =>
      bind (blend_t c1 c2 (fst cur) (weighted_value (s_yxm new))) (fun a =>
      bind (blend_t c1 c2 (snd cur) (s_mxm new)) (fun b => Ok (a, b)))))
    end) steps (Ok cur).

Definition noise_var_unweighted (d : dimspec) (p : res (tensor atom * tensor N)) (y : wt) (m0 : tensor atom)
           (steps : list (atom * atom * tensor atom)) : res (tensor atom) :=
  bind p (fun p =>
  bind (collect y m0) (fun s0 =>
  bind (saem_fold_unweighted y (weighted_value (s_yxm s0), s_mxm s0) steps) (fun s =>
  bind (tbin amul (scalar0 (Fin (-2 # 1)%Q)) (fst s)) (fun m2 =>
  bind (tbin aadd m2 (snd s)) (fun tot =>
  bind (sum_dim azero d (OT tot)) (noise_var_of p)))))).

(* ---- correspondence: what the real `_maximization_step` left in `self.sufficient_statistics` and handed to
        compute_std_from_variance after each call, against the model.  One observation per call:
        (weights of y_x_model as stored — None: a plain tensor or a WeightedTensor without weights —,
         its values with 0 written where the weight is 0, model_x_model, shape and entries of the variance). *)
Definition obs_step : Type := (option (list N) * list atom * list atom * list nat * list atom)%type.

Definition weights_same (w : option (tensor N)) (o : option (list N)) : bool :=
  match w, o with
  | None, None => true
  | Some w, Some l => list_eqb N.eqb (to_flat w) l
  | _, _ => false
  end.

Definition check_obs (s : res stats) (var : res (tensor atom)) (o : obs_step) : bool :=
  match o, s, var with
  | (ow, oyxm, omxm, ors, ovar), Ok s, Ok v =>
      weights_same (weight (s_yxm s)) ow &&
      list_eqb atom_same (to_flat (filled (Some azero) (s_yxm s))) oyxm &&
      list_eqb atom_same (to_flat (s_mxm s)) omxm &&
      shape_eqb (shape v) ors && list_eqb atom_within_ulp ovar (to_flat v)
  | _, _, _ => false
  end.

(** (diagonal rule?, reversed shape, y values, mask, first model tensor, [(1.0 - e, e, model tensor)], observations) *)
Definition check_saem_case
  (c : bool * list nat * list atom * list N * list atom * list (atom * atom * list atom) * list obs_step) : bool :=
  match c with
  | (diagonal, rs, yv, mask, m0, steps, obs) =>
      match mk_weightedN (of_flat NaN rs yv) (Some (of_flat 0%N rs mask)) with
      | Err _ => false
      | Ok y =>
          let m0 := of_flat NaN rs m0 in
          let steps := map (fun st => match st with (c1, c2, mv) => (c1, c2, of_flat NaN rs mv) end) steps in
          Nat.eqb (length obs) (S (length steps)) &&
          forallb (fun k =>
                     let pre := firstn k steps in
                     match nth_error obs k with
                     | Some o => check_obs (saem_stats y m0 pre)
                                           ((if diagonal then noise_var_diagonal_saem else noise_var_scalar_saem) y m0 pre) o
                     | None => false
                     end)
                  (seq 0 (S (length steps)))
      end
  end.
