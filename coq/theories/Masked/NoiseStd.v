(** The noise estimate that is finally ADOPTED: the variance of the two update rules (Masked/Pipeline.v, and
    Masked/Saem.v for the statistics averaged by the memory phase) handed to compute_std_from_variance
    (Masked/Source.v: [std_from_variance], tied to the source by Masked/SourceTie.v).  Definitions only.

    _gaussian.py: `return compute_std_from_variance(noise_var, varname="noise_std", tol=cls.tol_noise_variance)` *)
From Coq Require Import List NArith ZArith Bool Arith QArith.
From Leaspy Require Import Base.Atoms Masked.Weighted Masked.Observed Masked.Pipeline Masked.Saem Masked.Source.
Import ListNotations.
Local Close Scope Q_scope.

Definition noise_std_scalar (tol : atom) (y : wt) (model : tensor atom) : res std_outcome :=
  rmap (std_from_variance tol) (noise_var_scalar y model).

Definition noise_std_diagonal (tol : atom) (y : wt) (model : tensor atom) : res std_outcome :=
  rmap (std_from_variance tol) (noise_var_diagonal y model).

Definition noise_std_scalar_saem (tol : atom) (y : wt) (m0 : tensor atom) (steps : list (atom * atom * tensor atom)) : res std_outcome :=
  rmap (std_from_variance tol) (noise_var_scalar_saem y m0 steps).

Definition noise_std_diagonal_saem (tol : atom) (y : wt) (m0 : tensor atom) (steps : list (atom * atom * tensor atom)) : res std_outcome :=
  rmap (std_from_variance tol) (noise_var_diagonal_saem y m0 steps).

(** T2: the outcome of the REAL update rule (refusal / returned std, float64) against the model:
    (diagonal, reversed shape, y values, mask, model values, tol, observed outcome).
    The variance carries the rounding of one float64 division (2^-52), the square root another: 2^-50 on the square. *)
Definition check_noise_std_case (c : bool * list nat * list atom * list N * list atom * atom * std_obs) : bool :=
  match c with
  | (diagonal, rs, yv, mask, mv, tol, obs) =>
      match mk_weightedN (of_flat NaN rs yv) (Some (of_flat 0%N rs mask)) with
      | Err _ => false
      | Ok y =>
          match (if diagonal then noise_std_diagonal else noise_std_scalar) tol y (of_flat NaN rs mv), obs with
          | Ok StdRefused, ObsRefused => true
          | Ok (StdSqrt v), ObsSqrt l => all2 (sqrt_close 50) (to_flat v) l
          | _, _ => false
          end
      end
  end.

(** the body of scalar_noise_std_update / diagonal_noise_std_update on ANY state statistics (y_L2, n_obs | y_L2_per_ft,
    n_obs_per_ft) and ANY collected statistics:
      summed = sum_dim(-2 * y_x_model + model_x_model[, but_dim=LVL_FT]); noise_var = (y_l2 + summed) / n_obs.float();
      return compute_std_from_variance(noise_var, varname="noise_std", tol=cls.tol_noise_variance) *)
Definition noise_rule (d : dimspec) (tol : atom) (p : tensor atom * tensor N) (s : stats) : res std_outcome :=
  rmap (std_from_variance tol) (bind (noise_summed_stats d s) (noise_var_of p)).
