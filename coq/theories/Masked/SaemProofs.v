(** Proofs about the memory phase of MCMC-SAEM on the noise statistics: the stochastic-approximation blend of two
    weighted statistics keeps the weights of y, and the noise rules applied to the averaged statistics still ignore
    everything under the mask, for every number of memory iterations. *)
From Coq Require Import List NArith ZArith Bool Arith Lia QArith.
From Leaspy Require Import Base.Atoms Base.AtomsProofs Masked.Weighted Masked.Observed Masked.WeightedProofs
     Masked.ClosedProofs Masked.Pipeline Masked.PipelineProofs Masked.Saem.
Import ListNotations.
Local Close Scope Q_scope.
Local Open Scope nat_scope.

Local Arguments filled : simpl never.
Local Arguments amul : simpl never.
Local Arguments aadd : simpl never.
Local Arguments ofN : simpl never.

(* ------------------------------------------------------------------ the rules on the current statistics *)

(** with no memory iteration the averaged-statistics rules ARE the rules of Masked/Pipeline.v *)
Lemma noise_summed_collect : forall d y model,
    noise_summed d y model = bind (collect y model) (noise_summed_stats d).
Proof.
  intros. unfold noise_summed, collect, noise_summed_stats.
  destruct (y_x_model y model); reflexivity.
Qed.

Theorem noise_var_saem_nil : forall y m0,
    noise_var_scalar_saem y m0 [] = noise_var_scalar y m0 /\
    noise_var_diagonal_saem y m0 [] = noise_var_diagonal y m0.
Proof.
  intros. unfold noise_var_scalar_saem, noise_var_diagonal_saem, noise_var_scalar, noise_var_diagonal, saem_stats.
  rewrite !noise_summed_collect. simpl saem_fold.
  split.
  - destruct (y_L2_n_obs y); [|reflexivity]. cbn [bind]. destruct (collect y m0); reflexivity.
  - destruct (y_L2_n_obs_per_ft y); [|reflexivity]. cbn [bind]. destruct (collect y m0); reflexivity.
Qed.

(* ------------------------------------------------------------------ the blend of two weighted statistics *)

Lemma bshape_nil_r : forall s, bshape s [] = Some s.
Proof. destruct s; reflexivity. Qed.

(** v * c1 + c2 * new on WeightedTensors: agreement on observed positions is preserved (any atoms under the mask) *)
Lemma blend_w_agree : forall c1 c2 o o' n n', wagree o o' -> wagree n n' ->
    ragree wagree (blend_w c1 c2 o n) (blend_w c1 c2 o' n').
Proof.
  intros c1 c2 o o' n n' Ho Hn. unfold blend_w.
  eapply bind_ragree; [apply apply_operation_agree; [exact Ho | simpl; apply teq_refl]|].
  intros a a' Ha.
  eapply bind_ragree; [apply apply_operation_agree; [exact Hn | simpl; apply teq_refl]|].
  intros b b' Hb. apply apply_operation_agree; assumption.
Qed.

(** a binary operation on TWO WeightedTensors of the same shape: the result has that shape and the weights of the
    first operand (the very same tensor of weights: nothing is recomputed) *)
Lemma apply_ww_keeps : forall a b op r, wf a ->
    shape (value b) = shape (value a) ->
    apply_operation a (OW b) op false = Ok r ->
    weight a <> None ->
    shape (value r) = shape (value a) /\ weight r = weight a.
Proof.
  intros a b op r W S H Hn. unfold apply_operation, tzip2 in H. rewrite S, bshape_refl in H. cbn [shape] in H.
  unfold wf in W. destruct (weight a) as [wa|] eqn:E; [|congruence].
  destruct (weight b) as [wb|].
  - destruct (tensor_eqb N.eqb wa wb); [|discriminate].
    unfold expand_weight in H. rewrite W, shape_eqb_refl in H. cbn [bind] in H.
    unfold mk_weightedN in H. cbn [shape] in H. rewrite W, shape_eqb_refl in H. inversion H; subst; simpl; auto.
  - unfold expand_weight in H. rewrite W, shape_eqb_refl in H. cbn [bind] in H.
    unfold mk_weightedN in H. cbn [shape] in H. rewrite W, shape_eqb_refl in H. inversion H; subst; simpl; auto.
Qed.

(** THE point of the memory phase: the blended statistic still CARRIES the weights of its operands *)
Lemma blend_w_keeps : forall c1 c2 o n r, wf o -> wf n ->
    shape (value n) = shape (value o) -> weight n = weight o ->
    blend_w c1 c2 o n = Ok r ->
    wf r /\ shape (value r) = shape (value o) /\ weight r = weight o.
Proof.
  intros c1 c2 o n r Wo Wn S E H. unfold blend_w in H.
  destruct (apply_operation o (OT (scalar0 c1)) amul false) as [a|] eqn:Ea; [|discriminate]. cbn [bind] in H.
  destruct (apply_operation n (OT (scalar0 c2)) amul true) as [b|] eqn:Eb; [|discriminate]. cbn [bind] in H.
  destruct (apply_plain_keeps o (scalar0 c1) amul false a Wo (bshape_nil_r _) Ea) as [Sa Wa].
  destruct (apply_plain_keeps n (scalar0 c2) amul true b Wn eq_refl Eb) as [Sb Wb].
  assert (WA : wf a) by (unfold wf in *; rewrite Wa, Sa; exact Wo).
  destruct (weight o) as [wo|] eqn:Eo.
  - assert (Hne : weight a <> None) by (rewrite Wa; discriminate).
    destruct (apply_ww_keeps a b aadd r WA (eq_trans Sb (eq_trans S (eq_sym Sa))) H Hne) as [Sr Wr].
    assert (weight r = Some wo) by congruence.
    repeat split; try congruence.
    unfold wf in *. rewrite H0. rewrite Sr, Sa. rewrite Eo in Wo. exact Wo.
  - (* no weights at all on either side *)
    unfold apply_operation, tzip2 in H. rewrite Wa, Wb, E in H.
    rewrite Sb, S, <- Sa, bshape_refl in H. inversion H; subst; simpl.
    unfold wf; simpl. repeat split; auto.
Qed.

(* ------------------------------------------------------------------ the blend of two plain statistics *)

(** two plain tensors of the shape of y that are equal wherever y is observed *)
Definition pagree (y : wt) (a b : tensor atom) : Prop :=
  shape a = shape (value y) /\ shape b = shape (value y) /\
  forall m, inr (shape (value y)) m -> observed y m -> at_ a m = at_ b m.

Lemma blend_t_spec : forall c1 c2 o n, shape n = shape o ->
    exists r, blend_t c1 c2 o n = Ok r /\ shape r = shape o /\
      forall m, inr (shape o) m -> at_ r m = aadd (amul (at_ o m) c1) (amul c2 (at_ n m)).
Proof.
  intros c1 c2 o n S. unfold blend_t, tbin, tzip2. cbn [shape scalar0].
  rewrite bshape_nil_r. cbn [bind shape bshape]. rewrite S, bshape_refl. cbn [bind].
  eexists. split; [reflexivity|]. split; [reflexivity|].
  intros m Hm. cbn [at_ shape]. rewrite !(bidx_id _ m Hm). reflexivity.
Qed.

Lemma blend_t_agree : forall y c1 c2 o o' n n', pagree y o o' -> pagree y n n' ->
    ragree (pagree y) (blend_t c1 c2 o n) (blend_t c1 c2 o' n').
Proof.
  intros y c1 c2 o o' n n' (So & So' & Ho) (Sn & Sn' & Hn).
  destruct (blend_t_spec c1 c2 o n (eq_trans Sn (eq_sym So))) as (r & Er & Sr & Vr).
  destruct (blend_t_spec c1 c2 o' n' (eq_trans Sn' (eq_sym So'))) as (r' & Er' & Sr' & Vr').
  rewrite Er, Er'. simpl. unfold pagree. split; [congruence|]. split; [congruence|].
  intros m Hm Hobs. rewrite Vr, Vr' by congruence. rewrite Ho, Hn by assumption. reflexivity.
Qed.

(* ------------------------------------------------------------------ the invariant of the memory phase *)

(** what is true of the stored statistics of two runs (s for y, s' for y') after any number of iterations:
    y_x_model has the shape and THE WEIGHTS of y and the two agree wherever y is observed; model_x_model has the
    shape of y and the two agree wherever y is observed (anything elsewhere) *)
Definition sinv (y : wt) (s s' : stats) : Prop :=
  wagree (s_yxm s) (s_yxm s') /\
  shape (value (s_yxm s)) = shape (value y) /\ weight (s_yxm s) = weight y /\
  pagree y (s_mxm s) (s_mxm s').

Definition carries (y : wt) (s : stats) : Prop :=
  wf (s_yxm s) /\ shape (value (s_yxm s)) = shape (value y) /\ weight (s_yxm s) = weight y /\
  shape (s_mxm s) = shape (value y).

Lemma collect_carries : forall y model s, wf y -> shape model = shape (value y) ->
    collect y model = Ok s -> carries y s.
Proof.
  intros y model s W Sm H. unfold collect, y_x_model in H.
  destruct (apply_operation y (OT model) amul false) as [a|] eqn:Ea; [|discriminate]. inversion H; subst. clear H.
  assert (B1 : bshape (shape (value y)) (shape model) = Some (shape (value y))) by (rewrite Sm; apply bshape_refl).
  destruct (apply_plain_keeps y model amul false a W B1 Ea) as [Sa Wa].
  unfold carries; simpl. repeat split; auto. unfold wf in *. rewrite Wa, Sa. exact W.
Qed.

Lemma collect_inv : forall y y' model model', wagree y y' -> magree y model model' ->
    ragree (sinv y) (collect y model) (collect y' model').
Proof.
  intros y y' model model' H (Sm & Sm' & Hm). pose proof H as (W & _).
  unfold collect, y_x_model.
  pose proof (apply_same_shape_agree amul y y' model model' H Sm Sm' Hm) as H1.
  destruct (apply_operation y (OT model) amul false) as [a|e] eqn:Ea;
    destruct (apply_operation y' (OT model') amul false) as [a'|e'] eqn:Ea'; simpl in H1; try contradiction;
    [|exact H1].
  simpl.
  assert (B1 : bshape (shape (value y)) (shape model) = Some (shape (value y))) by (rewrite Sm; apply bshape_refl).
  destruct (apply_plain_keeps y model amul false a W B1 Ea) as [Sa Wa].
  unfold sinv, pagree; simpl.
  split; [exact H1|]. split; [exact Sa|]. split; [exact Wa|]. split; [exact Sm|]. split; [congruence|].
  intros m Hin Ho. rewrite Hm; auto. now rewrite Sm.
Qed.

Lemma blend_carries : forall y c1 c2 cur new s, carries y cur -> carries y new ->
    blend_stats c1 c2 cur new = Ok s -> carries y s.
Proof.
  intros y c1 c2 cur new s (Wc & Sc & Ec & Mc) (Wn & Sn & En & Mn) H. unfold blend_stats in H.
  destruct (blend_w c1 c2 (s_yxm cur) (s_yxm new)) as [a|] eqn:Ea; [|discriminate]. cbn [bind] in H.
  destruct (blend_t c1 c2 (s_mxm cur) (s_mxm new)) as [b|] eqn:Eb; [|discriminate]. cbn [bind] in H.
  inversion H; subst; clear H.
  destruct (blend_w_keeps c1 c2 _ _ a Wc Wn (eq_trans Sn (eq_sym Sc)) (eq_trans En (eq_sym Ec)) Ea) as (Wa & Sa & Ea').
  destruct (blend_t_spec c1 c2 (s_mxm cur) (s_mxm new) (eq_trans Mn (eq_sym Mc))) as (r & Er & Sr & _).
  rewrite Er in Eb. inversion Eb; subst.
  unfold carries; simpl. repeat split; auto; congruence.
Qed.

Lemma sinv_wf : forall y s s', sinv y s s' -> wf (s_yxm s).
Proof. intros y s s' ((W & _) & _). exact W. Qed.

Lemma blend_inv : forall y c1 c2 cur cur' new new', sinv y cur cur' -> sinv y new new' ->
    ragree (sinv y) (blend_stats c1 c2 cur new) (blend_stats c1 c2 cur' new').
Proof.
  intros y c1 c2 cur cur' new new' Hc Hn.
  pose proof Hc as (Ac & Sc & Ec & Pc). pose proof Hn as (An & Sn & En & Pn).
  unfold blend_stats.
  pose proof (blend_w_agree c1 c2 _ _ _ _ Ac An) as HW.
  destruct (blend_w c1 c2 (s_yxm cur) (s_yxm new)) as [a|e] eqn:Ea;
    destruct (blend_w c1 c2 (s_yxm cur') (s_yxm new')) as [a'|e'] eqn:Ea'; simpl in HW; try contradiction;
    [|exact HW].
  cbn [bind].
  pose proof (blend_t_agree y c1 c2 _ _ _ _ Pc Pn) as HT.
  destruct (blend_t c1 c2 (s_mxm cur) (s_mxm new)) as [b|e] eqn:Eb;
    destruct (blend_t c1 c2 (s_mxm cur') (s_mxm new')) as [b'|e'] eqn:Eb'; simpl in HT; try contradiction;
    [|exact HT].
  simpl.
  destruct (blend_w_keeps c1 c2 _ _ a (sinv_wf _ _ _ Hc) (sinv_wf _ _ _ Hn)
                          (eq_trans Sn (eq_sym Sc)) (eq_trans En (eq_sym Ec)) Ea) as (Wa & Sa & Ea2).
  unfold sinv; simpl.
  split; [exact HW|]. split; [congruence|]. split; [congruence|]. exact HT.
Qed.

(** induction over the number of memory iterations *)
Lemma saem_fold_inv : forall y y' steps steps' cur cur',
    wagree y y' -> steps_agree y steps steps' -> sinv y cur cur' ->
    ragree (sinv y) (saem_fold y cur steps) (saem_fold y' cur' steps').
Proof.
  intros y y' steps steps' cur cur' H HS. revert cur cur'.
  induction HS as [|[[c1 c2] model] [[c1' c2'] model'] steps steps' [Hc Hm] _ IH]; intros cur cur' Hcur.
  - exact Hcur.
  - simpl in Hc. inversion Hc; subst c1' c2'. simpl in Hm. simpl saem_fold.
    eapply bind_ragree; [apply collect_inv; eassumption|]. intros new new' Hnew.
    eapply bind_ragree; [apply blend_inv; eassumption|]. intros s s' Hs. now apply IH.
Qed.

Lemma saem_stats_inv : forall y y' m0 m0' steps steps',
    wagree y y' -> magree y m0 m0' -> steps_agree y steps steps' ->
    ragree (sinv y) (saem_stats y m0 steps) (saem_stats y' m0' steps').
Proof.
  intros. unfold saem_stats. eapply bind_ragree; [apply collect_inv; eassumption|].
  intros s s' Hs. now apply saem_fold_inv.
Qed.

(** the averaged y_x_model carries the weights of y after ANY number of memory iterations *)
Theorem saem_stats_carry_weights : forall y m0 steps s,
    wf y -> shape m0 = shape (value y) -> Forall (fun st => shape (snd st) = shape (value y)) steps ->
    saem_stats y m0 steps = Ok s ->
    weight (s_yxm s) = weight y /\ shape (value (s_yxm s)) = shape (value y) /\ shape (s_mxm s) = shape (value y).
Proof.
  intros y m0 steps s W S0 HF H. unfold saem_stats in H.
  destruct (collect y m0) as [s0|] eqn:E0; [|discriminate]. cbn [bind] in H.
  pose proof (collect_carries y m0 s0 W S0 E0) as C0. clear E0.
  revert s0 C0 H. induction HF as [|[[c1 c2] model] steps Hm _ IH]; intros s0 C0 H.
  - simpl in H. inversion H; subst. destruct C0 as (_ & A & B & C). auto.
  - simpl in Hm. simpl saem_fold in H.
    destruct (collect y model) as [new|] eqn:En; [|discriminate]. cbn [bind] in H.
    destruct (blend_stats c1 c2 s0 new) as [s1|] eqn:Eb; [|discriminate]. cbn [bind] in H.
    apply (IH s1); [|exact H].
    eapply blend_carries; [exact C0 | eapply collect_carries; eassumption | exact Eb].
Qed.

(* ------------------------------------------------------------------ the noise rules on the averaged statistics *)

Lemma noise_summed_stats_agree : forall d y s s', sinv y s s' ->
    ragree teq (noise_summed_stats d s) (noise_summed_stats d s').
Proof.
  intros d y s s' (Ha & Sa & Wa & (Sm & Sm' & Hm)). unfold noise_summed_stats.
  pose proof Ha as (WA & _).
  set (c := OT (scalar0 (Fin (-2 # 1)%Q))).
  pose proof (apply_operation_agree amul true (s_yxm s) (s_yxm s') c c Ha (teq_refl _ _)) as H2.
  destruct (apply_operation (s_yxm s) c amul true) as [b|e] eqn:Eb;
    destruct (apply_operation (s_yxm s') c amul true) as [b'|e'] eqn:Eb'; simpl in H2; try contradiction;
    [|exact H2].
  cbn [bind].
  destruct (apply_plain_keeps (s_yxm s) (scalar0 (Fin (-2 # 1)%Q)) amul true b WA eq_refl Eb) as [Sb Wb].
  assert (H3 : ragree wagree (apply_operation b (OT (s_mxm s)) aadd false)
                             (apply_operation b' (OT (s_mxm s')) aadd false)).
  { apply apply_same_shape_agree; [exact H2 | congruence | congruence |].
    intros m Hin Ho. apply Hm; [now rewrite <- Sm|].
    unfold observed in *. now rewrite Wb, Wa in Ho. }
  eapply bind_ragree; [exact H3|]. intros t t' Ht. apply sum_dim_ignores_masked. exact Ht.
Qed.

(** C06, noise after burn-in: BOTH update rules applied to the statistics averaged over ANY number of memory
    iterations use observed entries only.  If y changes under the mask (any atoms) and, at every iteration, the model
    tensor changes at entries where y is not observed, the variance handed to compute_std_from_variance is the same
    (or the step fails with the same error). *)
Theorem noise_saem_observed_only : forall y y' m0 m0' steps steps',
    wagree y y' -> magree y m0 m0' -> steps_agree y steps steps' ->
    ragree teq (noise_var_scalar_saem y m0 steps) (noise_var_scalar_saem y' m0' steps') /\
    ragree teq (noise_var_diagonal_saem y m0 steps) (noise_var_diagonal_saem y' m0' steps').
Proof.
  intros y y' m0 m0' steps steps' H H0 HS.
  pose proof (saem_stats_inv y y' m0 m0' steps steps' H H0 HS) as HI.
  split.
  - unfold noise_var_scalar_saem, y_L2_n_obs.
    eapply bind_ragree.
    { eapply bind_ragree; [apply sqr_agree, H|]. intros a b Hab. apply wsum_dim_ignores_masked, Hab. }
    intros p p' Hp. eapply bind_ragree; [exact HI|]. intros s s' Hs.
    eapply bind_ragree; [eapply noise_summed_stats_agree; exact Hs|].
    intros t t' Ht. now apply noise_var_of_agree.
  - unfold noise_var_diagonal_saem, y_L2_n_obs_per_ft.
    eapply bind_ragree.
    { eapply bind_ragree; [apply sqr_agree, H|]. intros a b Hab. apply wsum_dim_ignores_masked, Hab. }
    intros p p' Hp. eapply bind_ragree; [exact HI|]. intros s s' Hs.
    eapply bind_ragree; [eapply noise_summed_stats_agree; exact Hs|].
    intros t t' Ht. now apply noise_var_of_agree.
Qed.
