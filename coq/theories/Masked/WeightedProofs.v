(** Proofs about the WeightedTensor model: masked entries never reach a weighted sum; padding is invisible. *)
From Coq Require Import List NArith ZArith Bool Arith Lia.
From Leaspy Require Import Base.Atoms Base.AtomsProofs Masked.Weighted Masked.Observed.
Import ListNotations.

Local Arguments filled : simpl never.
Local Arguments amul : simpl never.
Local Arguments aadd : simpl never.
Local Arguments ofN : simpl never.

(* ------------------------------------------------------------------ positions *)

Lemma inr_nil : inr [] [].
Proof. left; reflexivity. Qed.

Lemma inr_cons : forall d rs i m, inr (d :: rs) (i :: m) <-> i < d /\ inr rs m.
Proof.
  unfold inr; intros d rs i m; simpl. rewrite in_flat_map. split.
  - intros (m' & Hm' & Hin). apply in_map_iff in Hin. destruct Hin as (j & Heq & Hj).
    inversion Heq; subst. apply in_seq in Hj. split; [lia | assumption].
  - intros (Hi & Hm). exists m. split; [assumption|]. apply in_map_iff. exists i. split; [reflexivity|].
    apply in_seq. lia.
Qed.

Lemma inr_inv : forall d rs m, inr (d :: rs) m -> exists i m', m = i :: m' /\ i < d /\ inr rs m'.
Proof.
  unfold inr; intros d rs m H; simpl in H. apply in_flat_map in H. destruct H as (m' & Hm' & Hin).
  apply in_map_iff in Hin. destruct Hin as (j & Heq & Hj). apply in_seq in Hj.
  exists j, m'. repeat split; [now symmetry | lia | assumption].
Qed.

Lemma inr_nil_inv : forall m, inr [] m -> m = [].
Proof. unfold inr; simpl; intros m [H|[]]; now symmetry. Qed.

Lemma fiber_inr : forall rs R o m, inr (out_shape rs R) o -> In m (fiber rs R o) -> inr rs m.
Proof.
  induction rs as [|d rs IH]; intros R o m Ho Hm.
  - simpl in Hm. destruct Hm as [<-|[]]. apply inr_nil.
  - destruct R as [|[|] R']; simpl in Hm.
    + destruct Hm.
    + apply in_flat_map in Hm. destruct Hm as (m' & Hm' & Hin).
      apply in_map_iff in Hin. destruct Hin as (i & <- & Hi). apply in_seq in Hi.
      apply inr_cons. split; [lia|]. eapply IH; [exact Ho | exact Hm'].
    + simpl in Ho. destruct o as [|i o'].
      * destruct Hm.
      * apply inr_cons in Ho. destruct Ho as [Hi Ho'].
        apply in_map_iff in Hm. destruct Hm as (m' & <- & Hm').
        apply inr_cons. split; [assumption|]. eapply IH; eassumption.
Qed.

(* ------------------------------------------------------------------ teq *)

Lemma teq_refl : forall A (a : tensor A), teq a a.
Proof. split; auto. Qed.

Lemma teq_sym : forall A (a b : tensor A), teq a b -> teq b a.
Proof. intros A a b [Hs H]. split; [now symmetry|]. intros m Hm. symmetry. apply H. now rewrite Hs. Qed.

Lemma teq_trans : forall A (a b c : tensor A), teq a b -> teq b c -> teq a c.
Proof.
  intros A a b c [Hs1 H1] [Hs2 H2]. split; [congruence|]. intros m Hm.
  rewrite H1 by assumption. apply H2. now rewrite <- Hs1.
Qed.

Lemma teq_to_flat : forall A (a b : tensor A), teq a b -> to_flat a = to_flat b.
Proof.
  intros A a b [Hs H]. unfold to_flat. rewrite <- Hs. apply map_ext_in. intros m Hm. now apply H.
Qed.

Lemma reduce_teq : forall A (add : A -> A -> A) zero R (a b : tensor A),
    teq a b -> teq (reduce add zero R a) (reduce add zero R b).
Proof.
  intros A add zero R a b [Hs H]. split; simpl; [now rewrite Hs|].
  intros o Ho. rewrite <- Hs. f_equal. apply map_ext_in. intros m Hm. apply H.
  eapply fiber_inr; eassumption.
Qed.

(* ------------------------------------------------------------------ masked entries never reach a sum *)

(** after [filled 0] nothing is left of the values at weight-0 positions *)
Lemma filled_agree : forall f t1 t2, wagree t1 t2 -> weight t1 <> None ->
    teq (filled (Some f) t1) (filled (Some f) t2).
Proof.
  intros f t1 t2 (W1 & W2 & Hs & Hw & Hv) Hn. unfold filled.
  destruct (weight t1) as [w1|] eqn:E1; [|congruence].
  destruct (weight t2) as [w2|] eqn:E2; [|contradiction].
  destruct Hw as [Hws Hwv]. unfold wf in W1. rewrite E1 in W1.
  split; simpl; [assumption|]. intros m Hm.
  rewrite <- Hwv by (now rewrite W1).
  destruct (N.eqb (at_ w1 m) 0) eqn:E; [reflexivity|].
  apply Hv; [assumption|]. unfold observed. rewrite E1. now apply N.eqb_neq.
Qed.

Lemma weighted_values_agree : forall t1 t2, wagree t1 t2 ->
    teq (weight_times (match weight t1 with Some w => w | None => ones_like (value t1) end) (filled (Some azero) t1))
        (weight_times (match weight t2 with Some w => w | None => ones_like (value t2) end) (filled (Some azero) t2)).
Proof.
  intros t1 t2 H. pose proof H as (W1 & W2 & Hs & Hw & Hv).
  destruct (weight t1) as [w1|] eqn:E1; destruct (weight t2) as [w2|] eqn:E2; try contradiction.
  - assert (HF : teq (filled (Some azero) t1) (filled (Some azero) t2))
      by (apply filled_agree; [assumption | congruence]).
    destruct HF as [HFs HFv]. destruct Hw as [Hws Hwv]. unfold wf in W1; rewrite E1 in W1.
    split; simpl; [assumption|]. intros m Hm.
    assert (Hsf : shape (filled (Some azero) t1) = shape (value t1))
      by (unfold filled; rewrite E1; reflexivity).
    rewrite Hsf in Hm.
    rewrite HFv by (now rewrite Hsf). rewrite Hwv by (now rewrite W1). reflexivity.
  - unfold filled. rewrite E1, E2. split; simpl; [assumption|]. intros m Hm.
    f_equal. apply Hv; [assumption|]. unfold observed. now rewrite E1.
Qed.

Lemma weights_agree : forall t1 t2, wagree t1 t2 ->
    teq (match weight t1 with Some w => w | None => ones_like (value t1) end)
        (match weight t2 with Some w => w | None => ones_like (value t2) end).
Proof.
  intros t1 t2 (W1 & W2 & Hs & Hw & Hv).
  destruct (weight t1) as [w1|]; destruct (weight t2) as [w2|]; try contradiction.
  - exact Hw.
  - split; simpl; auto.
Qed.

(** C06, first clause: every weighted sum (any set of summed axes, any fill value for empty aggregates)
    and every sum of weights is the same for two weighted tensors that agree on observed positions. *)
Theorem wsum_mask_ignores_masked : forall fill R t1 t2,
    wagree t1 t2 -> pair_teq (wsum_mask fill R t1) (wsum_mask fill R t2).
Proof.
  intros fill R t1 t2 H. unfold wsum_mask, pair_teq; simpl.
  pose proof (reduce_teq _ aadd azero R _ _ (weighted_values_agree _ _ H)) as [HSs HSv].
  pose proof (reduce_teq _ N.add 0%N R _ _ (weights_agree _ _ H)) as [HWs HWv].
  split; [|split; assumption].
  split; simpl; [exact HSs|]. intros o Ho.
  simpl in HSs, HSv, HWs, HWv.
  rewrite <- HSv by exact Ho.
  rewrite <- HWv; [reflexivity|].
  (* the two reductions have the same output shape *)
  pose proof H as (W1 & _ & _ & _ & _). unfold wf in W1.
  destruct (weight t1) as [w1|] eqn:E1; simpl in *.
  - unfold filled in Ho. rewrite E1 in Ho. simpl in Ho. now rewrite W1.
  - unfold filled in Ho. rewrite E1 in Ho. exact Ho.
Qed.

Lemma bind_ragree : forall A B (P : A -> A -> Prop) (Q : B -> B -> Prop) r1 r2 f1 f2,
    ragree P r1 r2 -> (forall a b, P a b -> ragree Q (f1 a) (f2 b)) -> ragree Q (bind r1 f1) (bind r2 f2).
Proof.
  intros A B P Q [a|e1] [b|e2] f1 f2 H Hf; simpl in *; try contradiction; auto.
Qed.

Lemma ragree_eq_refl : forall A (r : res A), ragree eq r r.
Proof. intros A [a|e]; simpl; reflexivity. Qed.

Lemma wagree_ndim : forall t1 t2, wagree t1 t2 -> ndim t1 = ndim t2.
Proof. intros t1 t2 (_ & _ & Hs & _). unfold ndim. now rewrite Hs. Qed.

Theorem wsum_ignores_masked : forall fill dim t1 t2,
    wagree t1 t2 -> ragree pair_teq (wsum fill dim t1) (wsum fill dim t2).
Proof.
  intros fill dim t1 t2 H. unfold wsum. rewrite <- (wagree_ndim _ _ H).
  eapply bind_ragree; [apply ragree_eq_refl|]. intros R ? <-. simpl.
  now apply wsum_mask_ignores_masked.
Qed.

Theorem wsum_dim_ignores_masked : forall fill d t1 t2,
    wagree t1 t2 -> ragree pair_teq (wsum_dim fill d t1) (wsum_dim fill d t2).
Proof.
  intros fill d t1 t2 H. unfold wsum_dim. rewrite <- (wagree_ndim _ _ H).
  eapply bind_ragree; [apply ragree_eq_refl|]. intros dim ? <-.
  now apply wsum_ignores_masked.
Qed.

Theorem wsum_only_ignores_masked : forall fill dim t1 t2,
    wagree t1 t2 -> ragree teq (wsum_only fill dim t1) (wsum_only fill dim t2).
Proof.
  intros fill dim t1 t2 H. unfold wsum_only.
  pose proof H as (W1 & W2 & Hs & Hw & Hv).
  destruct (weight t1) as [w1|] eqn:E1; destruct (weight t2) as [w2|] eqn:E2; try contradiction.
  - eapply bind_ragree; [apply wsum_ignores_masked; exact H|].
    intros p q [Hp _]. exact Hp.
  - rewrite <- (wagree_ndim _ _ H).
    eapply bind_ragree; [apply ragree_eq_refl|]. intros R ? <-. simpl.
    apply reduce_teq. split; [assumption|]. intros m Hm. apply Hv; [assumption|].
    unfold observed. now rewrite E1.
Qed.

Theorem sum_dim_ignores_masked : forall fill d x1 x2,
    oagree x1 x2 -> ragree teq (sum_dim fill d x1) (sum_dim fill d x2).
Proof.
  intros fill d [t1|v1] [t2|v2] H; simpl in H; try contradiction; unfold sum_dim.
  - rewrite <- (wagree_ndim _ _ H).
    eapply bind_ragree; [apply ragree_eq_refl|]. intros dim ? <-.
    now apply wsum_only_ignores_masked.
  - destruct H as [Hs Hv]. rewrite <- Hs.
    eapply bind_ragree; [apply ragree_eq_refl|]. intros dim ? <-.
    eapply bind_ragree; [apply ragree_eq_refl|]. intros R ? <-. simpl.
    apply reduce_teq. split; assumption.
Qed.

(* ------------------------------------------------------------------ padding *)

Lemma filter_flat_map : forall A B (P : B -> bool) (f : A -> list B) l,
    filter P (flat_map f l) = flat_map (fun x => filter P (f x)) l.
Proof.
  induction l as [|x l IH]; simpl; [reflexivity|]. now rewrite filter_app, IH.
Qed.

Lemma filter_all : forall A (P : A -> bool) l b, (forall x, In x l -> P x = b) ->
    filter P l = if b then l else [].
Proof.
  induction l as [|x l IH]; intros b H; simpl.
  - now destruct b.
  - rewrite (H x) by now left. rewrite (IH b) by (intros; apply H; now right). now destruct b.
Qed.

Lemma filter_seq_lt : forall d k, filter (fun i => Nat.ltb i d) (seq 0 (d + k)) = seq 0 d.
Proof.
  intros d k. rewrite seq_app, filter_app.
  rewrite (filter_all _ _ (seq 0 d) true), (filter_all _ _ (seq (0 + d) k) false).
  - now rewrite app_nil_r.
  - intros x Hx. apply in_seq in Hx. apply Nat.ltb_ge. lia.
  - intros x Hx. apply in_seq in Hx. apply Nat.ltb_lt. lia.
Qed.

Lemma pad_shape_S : forall p k d rs, pad_shape (S p) k (d :: rs) = d :: pad_shape p k rs.
Proof. reflexivity. Qed.

Lemma pad_shape_0 : forall k d rs, pad_shape 0 k (d :: rs) = (d + k) :: rs.
Proof. reflexivity. Qed.

Lemma out_shape_pad : forall rs p k R, p < length rs -> nth p R false = true ->
    out_shape (pad_shape p k rs) R = out_shape rs R.
Proof.
  induction rs as [|d rs IH]; intros p k R Hp HR; simpl in Hp; [lia|].
  destruct p as [|p].
  - rewrite pad_shape_0. destruct R as [|[|] R']; simpl in *; try discriminate. reflexivity.
  - rewrite pad_shape_S. destruct R as [|r R']; simpl in HR; [discriminate|].
    destruct r; simpl; rewrite IH by (try lia; assumption); reflexivity.
Qed.

(** the positions of the padded tensor that are summed into [o] are, once the padded ones are dropped,
    exactly the positions of the original tensor summed into [o], in the same order *)
Lemma fiber_pad : forall rs p k R o, p < length rs -> nth p R false = true ->
    filter (fun m => Nat.ltb (nth p m 0) (nth p rs 0)) (fiber (pad_shape p k rs) R o) = fiber rs R o.
Proof.
  induction rs as [|d rs IH]; intros p k R o Hp HR; simpl in Hp; [lia|].
  destruct p as [|p].
  - rewrite pad_shape_0. destruct R as [|[|] R']; simpl in HR; try discriminate.
    simpl fiber. rewrite filter_flat_map. apply flat_map_ext. intros m'.
    rewrite <- (filter_seq_lt d k). simpl nth.
    induction (seq 0 (d + k)) as [|i l IHl]; simpl; [reflexivity|].
    destruct (Nat.ltb i d); simpl; now rewrite IHl.
  - rewrite pad_shape_S. destruct R as [|r R']; simpl in HR; [discriminate|].
    specialize (IH p k R'). simpl nth.
    destruct r; simpl fiber.
    + rewrite filter_flat_map. rewrite <- (IH o) by (try lia; assumption).
      generalize (fiber (pad_shape p k rs) R' o). intros L.
      induction L as [|m' L IHL]; simpl; [reflexivity|].
      rewrite (filter_all _ _ _ (Nat.ltb (nth p m' 0) (nth p rs 0))).
      * destruct (Nat.ltb (nth p m' 0) (nth p rs 0)); simpl; now rewrite IHL.
      * intros x Hx. apply in_map_iff in Hx. destruct Hx as (i & <- & _). reflexivity.
    + destruct o as [|i o']; [reflexivity|].
      rewrite <- (IH o') by (try lia; assumption).
      generalize (fiber (pad_shape p k rs) R' o'). intros L.
      induction L as [|m' L IHL]; simpl; [reflexivity|].
      destruct (Nat.ltb (nth p m' 0) (nth p rs 0)); simpl; now rewrite IHL.
Qed.

Section Fold.
  Variable A : Type.
  Variable add : A -> A -> A.
  Variable zero : A.
  Hypothesis add_zero_r : forall x, add x zero = x.

  Lemma fold_drop_zeros : forall B (g : B -> A) (keep : B -> bool) l a,
      (forall x, In x l -> keep x = false -> g x = zero) ->
      fold_left add (map g l) a = fold_left add (map g (filter keep l)) a.
  Proof.
    induction l as [|x l IH]; intros a H; simpl; [reflexivity|].
    destruct (keep x) eqn:E; simpl.
    - apply IH. intros; apply H; [now right | assumption].
    - rewrite (H x) by (auto; now left). rewrite add_zero_r. apply IH.
      intros; apply H; [now right | assumption].
  Qed.

  (** a reduction that includes the padded axis does not see padding filled with [zero] *)
  Lemma reduce_pad : forall R p k (t : tensor A), p < length (shape t) -> nth p R false = true ->
      teq (reduce add zero R (tpad p k (fun _ => zero) t)) (reduce add zero R t).
  Proof.
    intros R p k t Hp HR. split; simpl.
    - now apply out_shape_pad.
    - intros o Ho.
      rewrite (fold_drop_zeros _ _ (fun m => Nat.ltb (nth p m 0) (nth p (shape t) 0))).
      + rewrite fiber_pad by assumption. f_equal. apply map_ext_in. intros m Hm.
        rewrite <- (fiber_pad (shape t) p k R o) in Hm by assumption.
        apply filter_In in Hm. destruct Hm as [_ Hlt]. now rewrite Hlt.
      + intros m _ Hk. now rewrite Hk.
  Qed.
End Fold.

Lemma tpad_teq : forall A p k (g1 g2 : list nat -> A) (a b : tensor A),
    teq a b -> (forall m, g1 m = g2 m) -> teq (tpad p k g1 a) (tpad p k g2 b).
Proof.
  intros A p k g1 g2 a b [Hs Hv] Hg. split; simpl; [now rewrite Hs|].
  intros m Hm. rewrite <- Hs. destruct (Nat.ltb (nth p m 0) (nth p (shape a) 0)) eqn:E; [|apply Hg].
  apply Hv.
  (* m is a position of the padded shape whose p-th index is below the original size: it is a position of a *)
  clear - Hm E. revert p m Hm E. generalize (shape a). intros rs.
  induction rs as [|d rs IH]; intros p m Hm E.
  - destruct p; simpl in E; apply Nat.ltb_lt in E; lia.
  - destruct p as [|p].
    + rewrite pad_shape_0 in Hm. apply inr_inv in Hm. destruct Hm as (i & m' & -> & Hi & Hm').
      simpl in E. apply Nat.ltb_lt in E. apply inr_cons. split; assumption.
    + rewrite pad_shape_S in Hm. apply inr_inv in Hm. destruct Hm as (i & m' & -> & Hi & Hm').
      apply inr_cons. split; [assumption|]. apply (IH p); assumption.
Qed.

(** C06, padding: appending [k] weight-0 entries (with ANY values) along a summed axis changes no weighted
    sum and no sum of weights. *)
Theorem wsum_mask_padding : forall fill R p k garbage t w,
    wf t -> weight t = Some w -> p < ndim t -> nth p R false = true ->
    pair_teq (wsum_mask fill R (wpad p k garbage t)) (wsum_mask fill R t).
Proof.
  intros fill R p k garbage t w W E Hp HR. unfold wf in W. rewrite E in W. unfold ndim in Hp.
  unfold wsum_mask, wpad. rewrite E. cbn [weight value].
  set (wv := weight_times w (filled (Some azero) t)).
  assert (Hwv : teq (weight_times (tpad p k (fun _ => 0%N) w)
                       (filled (Some azero) {| value := tpad p k garbage (value t);
                                               weight := Some (tpad p k (fun _ => 0%N) w) |}))
                    (tpad p k (fun _ => azero) wv)).
  { unfold wv, weight_times, filled. rewrite E. cbn [weight value].
    split; unfold tpad; cbn [shape at_]; [reflexivity|]. intros m Hm.
    rewrite W. destruct (Nat.ltb (nth p m 0) (nth p (shape (value t)) 0)); reflexivity. }
  assert (Hp' : p < length (shape wv)) by (unfold wv, weight_times, filled; rewrite E; exact Hp).
  pose proof (teq_trans _ _ _ _ (reduce_teq _ aadd azero R _ _ Hwv)
                        (reduce_pad _ aadd azero aadd_zero_r R p k wv Hp' HR)) as [HSs HSv].
  assert (Hpw : p < length (shape w)) by (now rewrite W).
  pose proof (reduce_pad _ N.add 0%N N.add_0_r R p k w Hpw HR) as [HWs HWv].
  unfold pair_teq; cbn [fst snd]. split; [|split; assumption].
  split; cbn [shape at_]; [exact HSs|]. intros o Ho.
  rewrite HSv by exact Ho. rewrite HWv; [reflexivity|].
  rewrite HWs. rewrite HSs in Ho. unfold reduce in Ho |- *. cbn [shape] in Ho |- *.
  unfold wv, weight_times, filled in Ho. rewrite E in Ho. cbn [shape] in Ho.
  now rewrite W.
Qed.

(** and for a plain tensor (no weights) whose padded entries are 0 — the form in which [model] reaches the sums *)
Theorem reduce_zero_padding : forall R p k (v : tensor atom),
    p < length (shape v) -> nth p R false = true ->
    teq (reduce aadd azero R (tpad p k (fun _ => azero) v)) (reduce aadd azero R v).
Proof. intros. now apply reduce_pad; [apply aadd_zero_r| |]. Qed.
