(** T1 for the two noise update rules of models/obs_models/_gaussian.py: their bodies as regenerated from the current
    source (coq/gen/GenC06.v) compute [noise_rule] of Masked/NoiseStd.v, for all state statistics and all collected statistics. *)
From Coq Require Import List NArith ZArith Bool Arith QArith String Lia.
From Leaspy Require Import Base.Atoms Masked.Weighted Masked.Observed Masked.Pipeline Masked.Saem
     Masked.Source Masked.SourceProofs Masked.SourceTie Masked.NoiseStd Masked.NoiseStdProofs.
From LeaspyGen Require Import GenC06.
Import ListNotations.
Local Close Scope Q_scope.

Definition rule_result (r : res std_outcome) : sres sval :=
  match r with
  | Ok o => std_result o
  | Err e => of_res (@Err sval e)
  end.

(** tol_noise_variance = 1e-5 as written in the class body *)
Definition tol_noise_variance : atom := Fin (1 # 100000).

Local Opaque apply_operation sum_dim tbin std_from_variance.

Ltac step_rule :=
  match goal with
  | |- ?x = ?x => reflexivity
  | |- context [apply_operation ?a ?b ?o ?r] => destruct (apply_operation a b o r) as [?|[]]
  | |- context [sum_dim ?f ?d ?x] => destruct (sum_dim f d x) as [?|[]]
  | |- context [tbin ?o ?a ?b] => destruct (tbin o a b) as [?|[]]
  | |- context [std_from_variance ?t ?v] => destruct (std_from_variance t v)
  end; cbn; unfold ofZ, inject_Z, azero, LVL_FT.

Theorem gen_scalar_noise_rule : forall op l2 n s,
    call op src_scalar_noise_std_update
         [VNone; VDict [("y_L2"%string, VTen l2); ("n_obs"%string, VWgt n)]; VWT (s_yxm s); VTen (s_mxm s)]
    = rule_result (noise_rule DimDefault tol_noise_variance (l2, n) s).
Proof.
  intros op l2 n [yxm mxm]. unfold call, noise_rule, noise_summed_stats, noise_var_of, tol_noise_variance. cbn. unfold ofZ, inject_Z, azero, LVL_FT.
  repeat step_rule.
Qed.

Theorem gen_diagonal_noise_rule : forall op l2 n s,
    call op src_diagonal_noise_std_update
         [VNone; VDict [("y_L2_per_ft"%string, VTen l2); ("n_obs_per_ft"%string, VWgt n)]; VWT (s_yxm s); VTen (s_mxm s)]
    = rule_result (noise_rule (ButDim [LVL_FT]) tol_noise_variance (l2, n) s).
Proof.
  intros op l2 n [yxm mxm]. unfold call, noise_rule, noise_summed_stats, noise_var_of, tol_noise_variance. cbn. unfold ofZ, inject_Z, azero, LVL_FT.
  repeat step_rule.
Qed.

Definition tie_noise_rules : Prop :=
  (forall op l2 n s,
    call op src_scalar_noise_std_update
         [VNone; VDict [("y_L2"%string, VTen l2); ("n_obs"%string, VWgt n)]; VWT (s_yxm s); VTen (s_mxm s)]
    = rule_result (noise_rule DimDefault tol_noise_variance (l2, n) s)) /\
  (forall op l2 n s,
    call op src_diagonal_noise_std_update
         [VNone; VDict [("y_L2_per_ft"%string, VTen l2); ("n_obs_per_ft"%string, VWgt n)]; VWT (s_yxm s); VTen (s_mxm s)]
    = rule_result (noise_rule (ButDim [LVL_FT]) tol_noise_variance (l2, n) s)).

Theorem gen_tie_noise_rules : tie_noise_rules.
Proof. split; [exact gen_scalar_noise_rule | exact gen_diagonal_noise_rule]. Qed.
