(** The places where leaspy's model layer uses WeightedTensor for observations (definitions only).

    Mirrors
      models/mcmc_saem_compatible.py::put_data_variables   t = WeightedTensor(timepoints, mask.bool().any(dim=FT)), y = WeightedTensor(values, mask.bool())
      models/linear.py / logistic.py::model_with_sources   (... broadcasting operations on rt ...).weighted_value
      variables/distributions.py::NormalFamily._nll        WeightedTensor(pointwise(x.value, loc, scale), x.weight)
      models/obs_models/_base.py                           nll_attach_ind = sum_dim(nll, but_dim=LVL_IND)
      models/obs_models/_gaussian.py                       y_L2, n_obs, y_L2_per_ft, n_obs_per_ft, y_x_model, model_x_model,
                                                           scalar_noise_std_update, diagonal_noise_std_update (the variance, before sqrt)
    Axes (torch order): 0 = individual, 1 = visit, 2 = feature; stored innermost first, i.e. positions
    0 = feature, 1 = visit, 2 = individual. *)
From Coq Require Import List NArith ZArith Bool Arith QArith Qabs.
From Leaspy Require Import Base.Atoms Masked.Weighted Masked.Observed.
Import ListNotations.
Local Close Scope Q_scope.
Local Open Scope nat_scope.

Definition LVL_IND : Z := 0%Z.
Definition LVL_FT : Z := (-1)%Z.
Definition VISIT_POS : nat := 1.   (* position of the visit axis in a reversed 3-axis shape *)

Definition to_bool_weight (n : N) : N := if N.eqb n 0 then 0%N else 1%N.

(** mask.to(torch.bool).any(dim=LVL_FT) *)
Definition mask_any_ft (mask : tensor N) : tensor N :=
  reduce (fun a b => if N.eqb a 0 && N.eqb b 0 then 0%N else 1%N) 0%N [true; false; false]
         (tmap to_bool_weight mask).

(** put_data_variables *)
Definition put_t (timepoints : tensor atom) (mask : tensor N) : res wt :=
  mk_weightedN timepoints (Some (mask_any_ft mask)).
Definition put_y (values : tensor atom) (mask : tensor N) : res wt :=
  mk_weightedN values (Some (tmap to_bool_weight mask)).

(** linear.py::model_with_sources, as the tree of dunder calls python performs:
      rt  = alpha * (t - tau)                      time_reparametrization
      rt  = unsqueeze_right(rt, ndim=1)            view(n, v, 1)
      (g[None, None, :] + v0[None, None, :] * rt + space_shifts[:, None, :]).weighted_value
    environment: 0 = t (WeightedTensor), 1 = tau, 2 = alpha, 3 = v0, 4 = g, 5 = space_shifts (plain tensors) *)
Definition linear_model_expr (n v : nat) : expr :=
  let rt := EBin BMul true (EBin BSub false (EVar 0) (EVar 1)) (EVar 2) in
  let rt3 := EView [1; v; n] rt in
  EBin BAdd false (EBin BAdd true (EBin BMul true rt3 (EVar 3)) (EVar 4)) (EVar 5).

(** the model tensor of ANY expression tree: its weighted value *)
Definition model_of (env : nat -> res operand) (e : expr) : res (tensor atom) :=
  bind (eval env e) (fun x => bind (as_wt x) (fun r => Ok (weighted_value r))).

(** a point-wise negative log-likelihood: value of y, value of the model, anything depending on the position
    (noise scale per feature, constants): WeightedTensor(f(x.value, loc, scale), x.weight) *)
Definition nll_full (f : list nat -> atom -> atom -> atom) (y : wt) (model : tensor atom) : wt :=
  mkW (mkT (shape (value y)) (fun m => f m (at_ (value y) m) (at_ model m))) (weight y).

Definition nll_attach_ind (f : list nat -> atom -> atom -> atom) (y : wt) (model : tensor atom) : res (tensor atom) :=
  sum_dim azero (ButDim [LVL_IND]) (OW (nll_full f y model)).

(** Sqr("y") : the unary-operator factory with torch.square, no fill *)
Definition sqr (y : wt) : res wt := wmap (fun v => Ok (tmap (fun x => amul x x) v)) None y.

(** y_L2 / n_obs (scalar noise) and y_L2_per_ft / n_obs_per_ft (diagonal noise) *)
Definition y_L2_n_obs (y : wt) : res (tensor atom * tensor N) :=
  bind (sqr y) (fun y2 => wsum_dim azero DimDefault y2).
Definition y_L2_n_obs_per_ft (y : wt) : res (tensor atom * tensor N) :=
  bind (sqr y) (fun y2 => wsum_dim azero (ButDim [LVL_FT]) y2).

(** sufficient statistics: y_x_model = Prod(y, model) = y * model ; model_x_model = Sqr(model) on a plain tensor *)
Definition y_x_model (y : wt) (model : tensor atom) : res wt := apply_operation y (OT model) amul false.
Definition model_x_model (model : tensor atom) : tensor atom := tmap (fun x => amul x x) model.

Definition scalar0 (a : atom) : tensor atom := mkT [] (fun _ => a).

(** a plain torch binary operation (broadcasting; shapes that do not broadcast: RuntimeError) *)
Definition tbin (op : atom -> atom -> atom) (a b : tensor atom) : res (tensor atom) :=
  match tzip2 op a b with
  | Some r => Ok r
  | None => Err ERuntime
  end.

(** summed = sum_dim(-2 * y_x_model + model_x_model, <dims>): the sum is taken AFTER the combination, so that the
    weights of y (carried by y_x_model) mask model_x_model too.  Both update rules compute it; they differ by the
    summed axes only: all of them (scalar rule) / all but the feature axis (diagonal rule). *)
Definition noise_summed (d : dimspec) (y : wt) (model : tensor atom) : res (tensor atom) :=
  bind (y_x_model y model) (fun yxm =>
  bind (apply_operation yxm (OT (scalar0 (Fin (-2 # 1)%Q))) amul true) (fun m2 =>
  bind (apply_operation m2 (OT (model_x_model model)) aadd false) (fun tot =>
  sum_dim azero d (OW tot)))).

(** the three dunder calls of [noise_summed] and Sqr("y") written point-wise, as instances of [nll_full]
    (used to state and prove that padding is invisible to the noise rules) *)
Definition f_tot : list nat -> atom -> atom -> atom :=
  fun _ a b => aadd (amul (Fin (-2 # 1)%Q) (amul a b)) (amul b b).
Definition f_sq : list nat -> atom -> atom -> atom := fun _ a _ => amul a a.

(** noise_var = (y_l2 + summed) / n_obs.float()   (plain tensors) *)
Definition noise_var_of (p : tensor atom * tensor N) (summed : tensor atom) : res (tensor atom) :=
  bind (tbin aadd (fst p) summed) (fun num => tbin adiv num (tmap ofN (snd p))).

(** scalar_noise_std_update: summed = sum_dim(-2 * y_x_model + model_x_model);
    noise_var = (y_l2 + summed) / n_obs  (the variance, a 0-dim tensor, before the positivity check and sqrt) *)
Definition noise_var_scalar (y : wt) (model : tensor atom) : res (tensor atom) :=
  bind (y_L2_n_obs y) (fun p =>
  bind (noise_summed DimDefault y model) (noise_var_of p)).

(** diagonal_noise_std_update: summed = sum_dim(-2 * y_x_model + model_x_model, but_dim=LVL_FT);
    noise_var = (y_l2_per_ft + summed) / n_obs_per_ft *)
Definition noise_var_diagonal (y : wt) (model : tensor atom) : res (tensor atom) :=
  bind (y_L2_n_obs_per_ft y) (fun p =>
  bind (noise_summed (ButDim [LVL_FT]) y model) (noise_var_of p)).

(** the documented estimator: residual sum of squares over OBSERVED entries divided by their number *)
Definition rss_over_observed (y : wt) (model : tensor atom) : res atom :=
  let r := mkW (mkT (shape (value y)) (fun m => let d := asub (at_ (value y) m) (at_ model m) in amul d d)) (weight y) in
  bind (wsum_dim azero DimDefault r) (fun p => Ok (adiv (at_ (fst p) []) (ofN (at_ (snd p) [])))).

Definition rss_over_observed_per_ft (y : wt) (model : tensor atom) : res (tensor atom) :=
  let r := mkW (mkT (shape (value y)) (fun m => let d := asub (at_ (value y) m) (at_ model m) in amul d d)) (weight y) in
  bind (wsum_dim azero (ButDim [LVL_FT]) r) (fun p => tbin adiv (fst p) (tmap ofN (snd p))).

(** correspondence: the variance observed on the implementation ([obs], row-major, with its reversed shape) is the
    model's, entry for entry: non-finite entries identical; finite entries equal up to the one rounding of the final
    float64 division, |obs - v| * 2^52 <= |v| (all other operations are exact on the generated inputs). *)
Definition atom_within_ulp (obs v : atom) : bool :=
  match obs, v with
  | Fin o, Fin q => Qle_bool (Qabs (o - q) * (4503599627370496 # 1))%Q (Qabs q)
  | _, _ => atom_same obs v
  end.

Definition check_noise_case (c : bool * list nat * list atom * list N * list atom * list nat * list atom) : bool :=
  match c with
  | (diagonal, rs, yv, mask, mv, ors, obs) =>
      match mk_weightedN (of_flat NaN rs yv) (Some (of_flat 0%N rs mask)) with
      | Err _ => false
      | Ok y =>
          match (if diagonal then noise_var_diagonal else noise_var_scalar) y (of_flat NaN rs mv) with
          | Ok v => shape_eqb (shape v) ors && list_eqb atom_within_ulp obs (to_flat v)
          | Err _ => false
          end
      end
  end.

(* ---- the F3 witness (of the former scalar rule, which summed model^2 without the mask): 2 individuals x 1 visit x 2 features, y[0,0,1] missing *)
Definition w_values : tensor atom := of_flat NaN [2; 1; 2] [Fin 1; Fin 0; Fin 2; Fin 3]%Q.
Definition w_mask : tensor N := of_flat 0%N [2; 1; 2] [1; 0; 1; 1]%N.
Definition w_model_a : tensor atom := of_flat NaN [2; 1; 2] [Fin 1; Fin 5; Fin 2; Fin 3]%Q.
Definition w_model_b : tensor atom := of_flat NaN [2; 1; 2] [Fin 1; Fin 0; Fin 2; Fin 3]%Q.
Definition w_y : res wt := put_y w_values w_mask.
