(** Non-vacuity of the source-level statements of C06: the regenerated bodies are RUN (vm_compute) on concrete
    weighted tensors with garbage under the mask. *)
From Coq Require Import List NArith ZArith Bool Arith QArith String.
From Leaspy Require Import Base.Atoms Masked.Weighted Masked.Observed Masked.Pipeline Masked.Examples Masked.Source Masked.SourceProofs
     Masked.SourceTie Masked.Saem Masked.NoiseStd Masked.NoiseStdTie.
From LeaspyGen Require Import GenC06.
Import ListNotations.
Local Close Scope Q_scope.
Local Open Scope nat_scope.

Definition q (n : Z) : atom := Fin (inject_Z n).

(** y = [[1, NaN], [2, 3]] with mask [[1, 0], [1, 1]]  and the same with +inf under the mask *)
Definition ex_lits (garbage : atom) : list lit :=
  [LitW [2; 2] [q 1; garbage; q 2; q 3] (Some ([2; 2], [1; 0; 1; 1]%Z));
   LitT [2] [q 10; q 20]].

(** (y * plain) + y, read by sum_dim(but_dim=0) *)
Definition ex_tree : expr := EBin BAdd false (EBin BMul false (EVar 0) (EVar 1)) (EVar 0).

Definition reading_flat (r : res reading) : option (list atom * list N) :=
  match r with
  | Ok (RTen t) => Some (to_flat t, [])
  | Ok (RPair (t, w)) => Some (to_flat t, to_flat w)
  | Err _ => None
  end.

(** the translated source, executed: the NaN / +inf under the mask never reaches the sums, the counts are 1 and 2 *)
Example ex_gen_run :
  reading_flat (run_with gen_impl (env_of (ex_lits NaN)) ex_tree (QWsumDim (q 0) (ButDim [0%Z]))) = Some ([q 11; q (22 + 63)], [1%N; 2%N]) /\
  reading_flat (run_with gen_impl (env_of (ex_lits PInf)) ex_tree (QWsumDim (q 0) (ButDim [0%Z]))) = Some ([q 11; q (22 + 63)], [1%N; 2%N]) /\
  reading_flat (run_with gen_impl (env_of (ex_lits NaN)) ex_tree (QFilled (Some (q 7)))) = Some ([q 11; q 7; q 22; q 63], []).
Proof. vm_compute. repeat split. Qed.

(** the hypotheses of C06_src_tree_ignores_masked are met by these two environments (which really differ) *)
Example ex_gen_hypotheses : forall i, ragree oagree (env_of (ex_lits NaN) i) (env_of (ex_lits PInf) i).
Proof.
  intros [|[|i]]; [| |destruct i; simpl; reflexivity].
  - simpl. unfold wagree, wf, weq, teq, observed, inr. simpl. repeat split; auto.
    intros m Hm Ho. destruct Hm as [<-|[<-|[<-|[<-|[]]]]]; simpl in *; try reflexivity. now elim Ho.
  - simpl. unfold teq. simpl. auto.
Qed.

(** differing weights are refused by the translated dispatch, equal weights are kept (left operand's) *)
Example ex_gen_refused :
  let a := LitW [2] [q 1; q 2] (Some ([2], [1; 0]%Z)) in
  let b := LitW [2] [q 1; q 2] (Some ([2], [1; 1]%Z)) in
  eval_with gen_impl (env_of [a; b]) (EBin BAdd false (EVar 0) (EVar 1)) = Err ENotImplemented /\
  reading_flat (run_with gen_impl (env_of [a; b]) (EBin BAdd false (EVar 0) (EVar 0)) (QWsum (q 0) [])) = Some ([q 2], [1%N]).
Proof. vm_compute. split; reflexivity. Qed.

(** compute_std_from_variance as translated: tol = 1e-5 *)
Definition tol5 : atom := Fin (1 # 100000).
Example ex_gen_std :
  gen_std tol5 (of_flat NaN [2] [Fin (1 # 100000); q 4]) = SOk (VSqrtOf (of_flat NaN [2] [Fin (1 # 100000); q 4])) /\
  gen_std tol5 (of_flat NaN [2] [Fin (9 # 1000000); q 4]) = SExc "LeaspyConvergenceError" /\
  gen_std tol5 (of_flat NaN [2] [q 4; q (-1)]) = SExc "LeaspyConvergenceError" /\
  gen_std tol5 (of_flat NaN [1] [q 0]) = SExc "LeaspyConvergenceError" /\
  gen_std tol5 (of_flat NaN [1] [NInf]) = SExc "LeaspyConvergenceError".
Proof.
  unfold gen_std. rewrite !gen_compute_std_from_variance. vm_compute. repeat split.
Qed.

(** the adopted noise estimate on the examples of Masked/Examples.v (whose hypotheses are [ex_noise_hypotheses]):
    the F3 witness has variance 0 -> refused for both models, by both rules; with residuals and garbage (NaN / -inf under
    the mask of y, +inf / NaN in the model there) both runs adopt sqrt(5/3), resp. (sqrt(1/2), sqrt(4)) *)
Definition std_is (r : res std_outcome) (expected : option (list atom)) : bool :=
  match r, expected with
  | Ok StdRefused, None => true
  | Ok (StdSqrt v), Some l => list_eqb atom_same (to_flat v) l
  | _, _ => false
  end.

Example ex_noise_std :
  std_is (noise_std_scalar tol5 ex_w_y w_model_a) None = true /\
  std_is (noise_std_scalar tol5 ex_w_y w_model_b) None = true /\
  std_is (noise_std_diagonal tol5 ex_w_y w_model_a) None = true /\
  std_is (noise_std_scalar tol5 ex_y_nan ex_model_pinf) (Some [Fin (5 # 3)]) = true /\
  std_is (noise_std_scalar tol5 ex_y_ninf ex_model_nan) (Some [Fin (5 # 3)]) = true /\
  std_is (noise_std_diagonal tol5 ex_y_nan ex_model_pinf) (Some [Fin (1 # 2); q 4]) = true /\
  std_is (noise_std_diagonal tol5 ex_y_ninf ex_model_nan) (Some [Fin (1 # 2); q 4]) = true.
Proof. repeat split; vm_compute; reflexivity. Qed.

(** the checker accepts a correctly rounded float64 square root of 5/3 and of (1/2, 4), rejects the square root of the former
    rule's 25/3 and a refusal *)
Example ex_check_noise_std_case :
  check_noise_std_case (false, [2; 1; 2], [Fin 1; NaN; Fin 2; Fin 3], [1; 0; 1; 1]%N, [Fin 0; PInf; Fin 2; Fin 5], tol5,
                        ObsSqrt [Fin (5814122118263953 # 4503599627370496)]) = true /\
  check_noise_std_case (true, [2; 1; 2], [Fin 1; NaN; Fin 2; Fin 3], [1; 0; 1; 1]%N, [Fin 0; PInf; Fin 2; Fin 5], tol5,
                        ObsSqrt [Fin (6369051672525773 # 9007199254740992); q 2]) = true /\
  check_noise_std_case (false, [2; 1; 2], [Fin 1; NaN; Fin 2; Fin 3], [1; 0; 1; 1]%N, [Fin 0; PInf; Fin 2; Fin 5], tol5,
                        ObsSqrt [Fin (1625096535740409 # 562949953421312)]) = false /\
  check_noise_std_case (false, [2; 1; 2], [Fin 1; NaN; Fin 2; Fin 3], [1; 0; 1; 1]%N, [Fin 0; PInf; Fin 2; Fin 5], tol5, ObsRefused) = false.
Proof. repeat split; vm_compute; reflexivity. Qed.

(** the two update rules AS TRANSLATED, executed on the state statistics and the collected statistics of the garbage example:
    sqrt(5/3), resp. (sqrt(1/2), sqrt(4)); on the F3 witness (variance 0): LeaspyConvergenceError *)
Definition run_rule (diagonal : bool) (y : wt) (model : tensor atom) : sres sval :=
  match bind (if diagonal then y_L2_n_obs_per_ft y else y_L2_n_obs y) (fun p => bind (collect y model) (fun s => Ok (p, s))) with
  | Ok ((l2, n), s) =>
      if diagonal
      then call aadd src_diagonal_noise_std_update
                [VNone; VDict [("y_L2_per_ft"%string, VTen l2); ("n_obs_per_ft"%string, VWgt n)]; VWT (s_yxm s); VTen (s_mxm s)]
      else call aadd src_scalar_noise_std_update
                [VNone; VDict [("y_L2"%string, VTen l2); ("n_obs"%string, VWgt n)]; VWT (s_yxm s); VTen (s_mxm s)]
  | Err _ => SStuck
  end.

Definition sqrt_of_is (r : sres sval) (l : list atom) : bool :=
  match r with SOk (VSqrtOf v) => list_eqb atom_same (to_flat v) l | _ => false end.

Example ex_gen_noise_rules :
  sqrt_of_is (run_rule false ex_y_nan ex_model_pinf) [Fin (5 # 3)] = true /\
  sqrt_of_is (run_rule false ex_y_ninf ex_model_nan) [Fin (5 # 3)] = true /\
  sqrt_of_is (run_rule true ex_y_nan ex_model_pinf) [Fin (1 # 2); q 4] = true /\
  run_rule false ex_w_y w_model_a = SExc exc_convergence /\
  run_rule true ex_w_y w_model_b = SExc exc_convergence.
Proof. repeat split; vm_compute; reflexivity. Qed.
