(** Proofs about the language of Masked/Source.v that do not depend on the regenerated programs:
    round trip between the two result types, the tree evaluator over an arbitrary implementation record,
    masked entries never reach a reading (over [model_impl]), the guard of compute_std_from_variance. *)
From Coq Require Import List NArith ZArith Bool Arith QArith String Lia.
From Leaspy Require Import Base.Atoms Masked.Weighted Masked.Observed Masked.WeightedProofs Masked.ClosedProofs Masked.Source.
Import ListNotations.
Local Close Scope Q_scope.
Local Open Scope nat_scope.

(* ------------------------------------------------------------------ result types *)

Lemma to_res_of_res : forall A (inj : A -> sval) (proj : sval -> option A) (r : res A),
    (forall a, proj (inj a) = Some a) -> to_res proj (of_res (rmap inj r)) = r.
Proof. intros A inj proj [a|[]] H; simpl; try reflexivity. now rewrite H. Qed.

Lemma proj_pair_val : forall p, proj_pair (pair_val p) = Some p.
Proof. now intros [a b]. Qed.

(* ------------------------------------------------------------------ implementations that agree point-wise *)

(** the operations that build trees: equal on all arguments *)
Definition impl_eq_tree (I J : impl) : Prop :=
  (forall a b op rev, i_apply I a b op rev = i_apply J a b op rev) /\
  (forall f fill t, i_map I f fill t = i_map J f fill t) /\
  (forall idx vals acc t, i_index_put I idx vals acc t = i_index_put J idx vals acc t) /\
  (forall s t, i_view I s t = i_view J s t) /\
  (forall s t, i_expand I s t = i_expand J s t).

(** the readings: equal on every weighted tensor that satisfies the class invariant (weights of the shape of the values) *)
Definition owf (x : operand) : Prop := match x with OW t => wf t | OT _ => True end.

Definition impl_eq_read (I J : impl) : Prop :=
  forall q x, owf x -> read_with I q x = read_with J q x.

Lemma eval_with_ext : forall I J, impl_eq_tree I J -> forall env e, eval_with I env e = eval_with J env e.
Proof.
  intros I J (Ha & Hm & Hi & Hv & He) env e.
  induction e; simpl; try rewrite IHe; try rewrite IHe1; try rewrite IHe2; try reflexivity.
  - destruct (eval_with J env e1) as [xa|]; simpl; [|reflexivity].
    destruct (as_wt xa); simpl; [|reflexivity].
    destruct (eval_with J env e2); simpl; [|reflexivity]. now rewrite Ha.
  - destruct (eval_with J env e) as [xa|]; simpl; [|reflexivity].
    destruct (as_wt xa); simpl; [|reflexivity]. now rewrite Hm.
  - destruct (eval_with J env e) as [xa|]; simpl; [|reflexivity].
    destruct (as_wt xa); simpl; [|reflexivity]. now rewrite Hi.
  - destruct (eval_with J env e) as [xa|]; simpl; [|reflexivity].
    destruct (as_wt xa); simpl; [|reflexivity]. now rewrite Hv.
  - destruct (eval_with J env e) as [xa|]; simpl; [|reflexivity].
    destruct (as_wt xa); simpl; [|reflexivity]. now rewrite He.
Qed.

Lemma eval_with_model : forall env e, eval_with model_impl env e = eval env e.
Proof. intros env e. induction e; simpl; try rewrite IHe; try rewrite IHe1; try rewrite IHe2; reflexivity. Qed.

(* ------------------------------------------------------------------ masked entries never reach a reading *)

Definition reading_agree (a b : reading) : Prop :=
  match a, b with
  | RTen x, RTen y => teq x y
  | RPair p, RPair q => pair_teq p q
  | _, _ => False
  end.

Lemma filled_agree_any : forall f t1 t2, wagree t1 t2 -> teq (filled (Some f) t1) (filled (Some f) t2).
Proof.
  intros f t1 t2 H. destruct (weight t1) as [w1|] eqn:E1.
  - apply filled_agree; [assumption | congruence].
  - pose proof H as (W1 & W2 & Hs & Hw & Hv). rewrite E1 in Hw.
    destruct (weight t2) as [w2|] eqn:E2; [contradiction|].
    unfold filled. rewrite E1, E2. split; [assumption|]. intros m Hm. apply Hv; [assumption|].
    unfold observed. now rewrite E1.
Qed.

Lemma weighted_value_agree : forall t1 t2, wagree t1 t2 -> teq (weighted_value t1) (weighted_value t2).
Proof.
  intros t1 t2 H. pose proof (weighted_values_agree t1 t2 H) as HW.
  pose proof H as (W1 & W2 & Hs & Hw & Hv). unfold weighted_value.
  destruct (weight t1) as [w1|] eqn:E1; destruct (weight t2) as [w2|] eqn:E2; try contradiction.
  - exact HW.
  - split; [assumption|]. intros m Hm. apply Hv; [assumption|]. unfold observed. now rewrite E1.
Qed.

Lemma rmap_ragree : forall A B (P : A -> A -> Prop) (Q : B -> B -> Prop) (f : A -> B) r1 r2,
    (forall a b, P a b -> Q (f a) (f b)) -> ragree P r1 r2 -> ragree Q (rmap f r1) (rmap f r2).
Proof. intros A B P Q f [a|e1] [b|e2] Hf H; simpl in *; auto. Qed.

Lemma read_model_agree : forall q x y, oagree x y -> ragree reading_agree (read_with model_impl q x) (read_with model_impl q y).
Proof.
  intros q [t1|v1] [t2|v2] H; simpl in H; try contradiction; destruct q as [|[f|]| | | | |]; simpl; try reflexivity.
  - now apply filled_agree_any.
  - now apply weighted_value_agree.
  - eapply rmap_ragree; [|apply wsum_ignores_masked; exact H]. auto.
  - eapply rmap_ragree; [|apply wsum_only_ignores_masked; exact H]. auto.
  - eapply rmap_ragree; [|apply (sum_dim_ignores_masked fill d (OW t1) (OW t2)); exact H]. auto.
  - eapply rmap_ragree; [|apply wsum_dim_ignores_masked; exact H]. auto.
  - eapply rmap_ragree; [|apply (sum_dim_ignores_masked fill d (OT v1) (OT v2)); exact H]. auto.
Qed.

Theorem run_model_ignores_masked : forall e q env1 env2,
    (forall i, ragree oagree (env1 i) (env2 i)) ->
    ragree reading_agree (run_with model_impl env1 e q) (run_with model_impl env2 e q).
Proof.
  intros e q env1 env2 H. unfold run_with. rewrite !eval_with_model.
  pose proof (eval_agree e env1 env2 H) as HE.
  destruct (eval env1 e) as [x|e1]; destruct (eval env2 e) as [y|e2]; simpl in *; try contradiction; try assumption.
  now apply read_model_agree.
Qed.

Lemma oagree_owf : forall x y, oagree x y -> owf x /\ owf y.
Proof. intros [a|a] [b|b] H; simpl in *; try contradiction; [destruct H as (W1 & W2 & _); auto | auto]. Qed.

(** the same for ANY implementation record that computes what the model computes *)
Theorem run_impl_ignores_masked : forall I, impl_eq_tree I model_impl -> impl_eq_read I model_impl ->
    forall e q env1 env2,
    (forall i, ragree oagree (env1 i) (env2 i)) ->
    ragree reading_agree (run_with I env1 e q) (run_with I env2 e q).
Proof.
  intros I HT HR e q env1 env2 H. unfold run_with. rewrite !(eval_with_ext I model_impl HT), !eval_with_model.
  pose proof (eval_agree e env1 env2 H) as HE.
  destruct (eval env1 e) as [x|e1]; destruct (eval env2 e) as [y|e2]; simpl in *; try contradiction; try assumption.
  destruct (oagree_owf x y HE) as [Wx Wy]. rewrite !HR by assumption.
  now apply read_model_agree.
Qed.

Theorem eval_impl_agree : forall I, impl_eq_tree I model_impl ->
    forall e env1 env2,
    (forall i, ragree oagree (env1 i) (env2 i)) ->
    ragree oagree (eval_with I env1 e) (eval_with I env2 e).
Proof.
  intros I HT e env1 env2 H. rewrite !(eval_with_ext I model_impl HT), !eval_with_model. now apply eval_agree.
Qed.

(* ------------------------------------------------------------------ compute_std_from_variance *)

Lemma existsb_map_comp : forall A B (f : B -> bool) (g : A -> B) l,
    existsb (fun b => b) (map (fun m => f (g m)) l) = existsb f (map g l).
Proof. intros A B f g l. induction l; simpl; [reflexivity | now rewrite IHl]. Qed.

Lemma any_lt_flat : forall tol (v : tensor atom),
    existsb (fun b => b) (to_flat (tmap (fun x => alt x tol) v)) = existsb (fun x => alt x tol) (to_flat v).
Proof. intros tol v. unfold to_flat, tmap. simpl. exact (existsb_map_comp _ _ (fun x => alt x tol) (at_ v) (indices (shape v))). Qed.

(** the guard: refusal exactly when some entry is < tol *)
Theorem std_refused_iff : forall tol v,
    std_from_variance tol v = StdRefused <-> exists x, In x (to_flat v) /\ alt x tol = true.
Proof.
  intros tol v. unfold std_from_variance.
  destruct (existsb (fun x => alt x tol) (to_flat v)) eqn:E.
  - split; [intros _ | reflexivity]. apply existsb_exists in E. exact E.
  - split; [discriminate|]. intros Hx. apply existsb_exists in Hx. congruence.
Qed.

(** sqrt is defined (not NaN) on an atom *)
Definition sqrt_defined (x : atom) : Prop :=
  match x with
  | Fin q => (0 <= q)%Q
  | PInf => True
  | NInf | NaN => False
  end.

Definition is_nan (x : atom) : bool := match x with NaN => true | _ => false end.

Lemma not_lt_ge : forall x q, is_nan x = false -> alt x (Fin q) = false -> ale (Fin q) x = true.
Proof.
  intros [p| | |] q Hn H; try discriminate; try reflexivity.
  unfold ale, alt, aeq in *.
  destruct (p ?= q)%Q eqn:E; try discriminate.
  - apply Qeq_alt in E. assert (E' : (q == p)%Q) by (now symmetry).
    apply Qeq_bool_iff in E'. rewrite E'. apply orb_true_r.
  - apply Qgt_alt in E. assert (E' : (q < p)%Q) by exact E. destruct (Qlt_alt q p) as [F _]. now rewrite (F E').
Qed.

(** accepted: the result is the square root of the SAME tensor, every entry is not < tol; with a finite tol >= 0
    every entry that is not NaN is >= tol and has a square root (never NaN, never of a negative number) *)
Theorem std_accepted_spec : forall tol v v',
    std_from_variance tol v = StdSqrt v' ->
    v' = v /\ forall x, In x (to_flat v) -> alt x tol = false.
Proof.
  intros tol v v'. unfold std_from_variance.
  destruct (existsb (fun x => alt x tol) (to_flat v)) eqn:E; [discriminate|].
  intros [= <-]. split; [reflexivity|]. intros x Hx.
  destruct (alt x tol) eqn:Ex; [|reflexivity].
  assert (existsb (fun x => alt x tol) (to_flat v) = true) by (apply existsb_exists; eauto). congruence.
Qed.

Theorem std_accepted_sqrt_defined : forall q v v',
    (0 <= q)%Q -> std_from_variance (Fin q) v = StdSqrt v' ->
    forall x, In x (to_flat v') -> is_nan x = false -> ale (Fin q) x = true /\ sqrt_defined x.
Proof.
  intros q v v' Hq H x Hx Hn. apply std_accepted_spec in H. destruct H as [-> H].
  specialize (H x Hx). split; [now apply not_lt_ge|].
  destruct x as [p| | |]; try discriminate; try exact I.
  unfold alt in H. unfold sqrt_defined.
  destruct (p ?= q)%Q eqn:E; try discriminate.
  - apply Qeq_alt in E. rewrite E. exact Hq.
  - apply Qgt_alt in E. apply Qlt_le_weak. eapply Qle_lt_trans; eassumption.
Qed.

(** conversely every tensor whose entries are all >= tol is accepted *)
Theorem std_accepts_all_ge : forall tol v,
    (forall x, In x (to_flat v) -> alt x tol = false) -> std_from_variance tol v = StdSqrt v.
Proof.
  intros tol v H. unfold std_from_variance.
  destruct (existsb (fun x => alt x tol) (to_flat v)) eqn:E; [|reflexivity].
  apply existsb_exists in E. destruct E as (x & Hx & Hlt). rewrite (H x Hx) in Hlt. discriminate.
Qed.

(** the guard is a comparison, and comparisons with NaN are false: a NaN variance is NOT refused *)
Theorem std_nan_accepted : forall tol, exists v, std_from_variance tol v = StdSqrt v /\ In NaN (to_flat v).
Proof.
  intros tol. exists (of_flat NaN [] [NaN]). split; [reflexivity | simpl; auto].
Qed.

(** equal variances: same outcome *)
Definition std_agree (a b : std_outcome) : Prop :=
  match a, b with
  | StdRefused, StdRefused => True
  | StdSqrt x, StdSqrt y => teq x y
  | _, _ => False
  end.

Lemma std_respects_teq : forall tol v v', teq v v' -> std_agree (std_from_variance tol v) (std_from_variance tol v').
Proof.
  intros tol v v' H. unfold std_from_variance. rewrite (teq_to_flat _ _ _ H).
  destruct (existsb (fun x => alt x tol) (to_flat v')); simpl; auto.
Qed.
