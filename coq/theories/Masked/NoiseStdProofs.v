(** The adopted noise estimate (or the refusal of a collapsed variance) uses observed entries only. *)
From Coq Require Import List NArith ZArith Bool Arith QArith.
From Leaspy Require Import Base.Atoms Masked.Weighted Masked.Observed Masked.Pipeline Masked.PipelineProofs Masked.Saem Masked.SaemProofs
     Masked.Source Masked.SourceProofs Masked.NoiseStd.
Import ListNotations.
Local Close Scope Q_scope.

Lemma std_lift : forall tol r r', ragree teq r r' ->
    ragree std_agree (rmap (std_from_variance tol) r) (rmap (std_from_variance tol) r').
Proof. intros tol r r' H. eapply rmap_ragree; [|exact H]. intros a b Hab. now apply std_respects_teq. Qed.

Theorem noise_std_observed_only : forall tol y y' model model',
    wagree y y' ->
    shape model = shape (value y) -> shape model' = shape model ->
    (forall m, inr (shape model) m -> observed y m -> at_ model m = at_ model' m) ->
    ragree std_agree (noise_std_scalar tol y model) (noise_std_scalar tol y' model') /\
    ragree std_agree (noise_std_diagonal tol y model) (noise_std_diagonal tol y' model').
Proof.
  intros tol y y' model model' H1 H2 H3 H4.
  destruct (noise_observed_only y y' model model' H1 H2 H3 H4) as [A B].
  split; apply std_lift; assumption.
Qed.

Theorem noise_std_saem_observed_only : forall tol y y' m0 m0' steps steps',
    wagree y y' -> magree y m0 m0' -> steps_agree y steps steps' ->
    ragree std_agree (noise_std_scalar_saem tol y m0 steps) (noise_std_scalar_saem tol y' m0' steps') /\
    ragree std_agree (noise_std_diagonal_saem tol y m0 steps) (noise_std_diagonal_saem tol y' m0' steps').
Proof.
  intros tol y y' m0 m0' steps steps' H1 H2 H3.
  destruct (noise_saem_observed_only y y' m0 m0' steps steps' H1 H2 H3) as [A B].
  split; apply std_lift; assumption.
Qed.

(** the adopted estimate is the RULE BODY ([noise_rule], tied to the source by Masked/NoiseStdTie.v) applied to the state
    statistics of y and to the collected (resp. averaged) statistics *)
Theorem noise_std_is_rule : forall tol y model,
    noise_std_scalar tol y model = bind (y_L2_n_obs y) (fun p => bind (collect y model) (noise_rule DimDefault tol p)) /\
    noise_std_diagonal tol y model = bind (y_L2_n_obs_per_ft y) (fun p => bind (collect y model) (noise_rule (ButDim [LVL_FT]) tol p)).
Proof.
  intros tol y model.
  unfold noise_std_scalar, noise_std_diagonal, noise_var_scalar, noise_var_diagonal, noise_rule, noise_summed, noise_summed_stats, collect.
  split.
  - destruct (y_L2_n_obs y) as [p|e]; simpl; [|reflexivity]. destruct (y_x_model y model) as [a|e]; simpl; reflexivity.
  - destruct (y_L2_n_obs_per_ft y) as [p|e]; simpl; [|reflexivity]. destruct (y_x_model y model) as [a|e]; simpl; reflexivity.
Qed.

Theorem noise_std_saem_is_rule : forall tol y m0 steps,
    noise_std_scalar_saem tol y m0 steps
    = bind (y_L2_n_obs y) (fun p => bind (saem_stats y m0 steps) (noise_rule DimDefault tol p)) /\
    noise_std_diagonal_saem tol y m0 steps
    = bind (y_L2_n_obs_per_ft y) (fun p => bind (saem_stats y m0 steps) (noise_rule (ButDim [LVL_FT]) tol p)).
Proof.
  intros tol y m0 steps.
  unfold noise_std_scalar_saem, noise_std_diagonal_saem, noise_var_scalar_saem, noise_var_diagonal_saem, noise_rule.
  split.
  - destruct (y_L2_n_obs y) as [p|e]; simpl; [|reflexivity]. destruct (saem_stats y m0 steps) as [s|e]; simpl; reflexivity.
  - destruct (y_L2_n_obs_per_ft y) as [p|e]; simpl; [|reflexivity]. destruct (saem_stats y m0 steps) as [s|e]; simpl; reflexivity.
Qed.
