(** Proofs about the observation layer (model tensor, attachment, counts, noise rules). *)
From Coq Require Import List NArith ZArith Bool Arith Lia QArith.
From Leaspy Require Import Base.Atoms Base.AtomsProofs Masked.Weighted Masked.Observed Masked.WeightedProofs
     Masked.ClosedProofs Masked.Pipeline.
Import ListNotations.
Local Close Scope Q_scope.
Local Open Scope nat_scope.

Local Arguments filled : simpl never.
Local Arguments amul : simpl never.
Local Arguments aadd : simpl never.
Local Arguments ofN : simpl never.

(* ------------------------------------------------------------------ the model tensor *)

(** weighted_value is exactly 0 wherever the weight is 0, whatever the raw value (NaN, inf, ...) *)
Theorem weighted_value_zero : forall t w m, weight t = Some w -> at_ w m = 0%N ->
    at_ (weighted_value t) m = azero.
Proof.
  intros t w m E H. unfold weighted_value, weight_times, filled. rewrite E. simpl. rewrite H. reflexivity.
Qed.

Lemma weighted_value_agree : forall r r', wagree r r' -> teq (weighted_value r) (weighted_value r').
Proof.
  intros r r' H. pose proof (weighted_values_agree _ _ H) as HW.
  pose proof H as (W & W' & Hs & Hw & Hv). unfold weighted_value.
  destruct (weight r) as [w|] eqn:E; destruct (weight r') as [w'|] eqn:E'; try contradiction.
  - exact HW.
  - split; [assumption|]. intros m Hm. apply Hv; auto. unfold observed. now rewrite E.
Qed.

(** the model tensor of any expression tree depends on observed positions of its leaves only
    (in particular not on the time stored at a padded / fully missing visit) *)
Theorem model_of_agree : forall e env1 env2,
    (forall i, ragree oagree (env1 i) (env2 i)) ->
    ragree teq (model_of env1 e) (model_of env2 e).
Proof.
  intros e env1 env2 H. unfold model_of.
  eapply bind_ragree; [apply eval_agree, H|]. intros x x' Hx.
  eapply bind_ragree; [apply as_wt_agree, Hx|]. intros r r' Hr. simpl.
  now apply weighted_value_agree.
Qed.

(* ------------------------------------------------------------------ attachment *)

Lemma nll_full_agree : forall f y y' model model',
    wagree y y' ->
    (forall m, inr (shape (value y)) m -> observed y m -> at_ model m = at_ model' m) ->
    wagree (nll_full f y model) (nll_full f y' model').
Proof.
  intros f y y' model model' (W & W' & Hs & Hw & Hv) Hm. unfold nll_full, wagree, wf, observed in *; simpl.
  repeat split; auto. intros m Hin Ho. rewrite Hv, Hm; auto.
Qed.

(** C06, attachment: for ANY point-wise nll, the per-individual attachment does not depend on y at masked
    entries nor on the model values at masked entries *)
Theorem attach_agree : forall f y y' model model',
    wagree y y' ->
    (forall m, inr (shape (value y)) m -> observed y m -> at_ model m = at_ model' m) ->
    ragree teq (nll_attach_ind f y model) (nll_attach_ind f y' model').
Proof.
  intros. unfold nll_attach_ind. apply sum_dim_ignores_masked. simpl. now apply nll_full_agree.
Qed.

(** ... nor on padding: k more visits with weight 0, ANY y values and ANY model values in them *)
Theorem attach_padding : forall f y w model k gy gm,
    wf y -> weight y = Some w -> length (shape (value y)) = 3 -> shape model = shape (value y) ->
    ragree teq (nll_attach_ind f (wpad VISIT_POS k gy y) (tpad VISIT_POS k gm model))
               (nll_attach_ind f y model).
Proof.
  intros f y w model k gy gm W E L3 Sm. unfold nll_attach_ind, sum_dim, ndim.
  assert (Lp : length (shape (value (nll_full f (wpad VISIT_POS k gy y) (tpad VISIT_POS k gm model)))) = 3).
  { simpl. unfold pad_shape, VISIT_POS. destruct (shape (value y)) as [|a [|b [|c [|]]]]; simpl in *; try lia. }
  rewrite Lp. assert (Lq : length (shape (value (nll_full f y model))) = 3) by exact L3. rewrite Lq.
  simpl get_dim. cbn [bind]. unfold wsum_only. simpl weight. rewrite E. cbn [bind].
  unfold wsum, ndim. rewrite Lp, Lq. simpl torch_sum_mask. cbn [bind]. simpl.
  (* the padded nll tensor agrees, on observed positions, with the padding of the nll tensor *)
  set (n0 := nll_full f y model).
  set (g := fun m => f m (gy m) (gm m)).
  assert (HA : wagree (nll_full f (wpad VISIT_POS k gy y) (tpad VISIT_POS k gm model)) (wpad VISIT_POS k g n0)).
  { unfold wf in W. rewrite E in W.
    unfold wagree, wf, observed, nll_full, wpad, n0; simpl. rewrite E. simpl.
    repeat split; auto; try (now rewrite W).
    intros m Hm Ho. rewrite W in Ho. rewrite Sm.
    destruct (Nat.ltb (nth VISIT_POS m 0) (nth VISIT_POS (shape (value y)) 0)); [reflexivity | congruence]. }
  pose proof (wsum_mask_ignores_masked azero [true; true; false] _ _ HA) as [H1 _].
  assert (Wn : wf n0) by (unfold n0, nll_full, wf; simpl; exact W).
  assert (En : weight n0 = Some w) by (unfold n0, nll_full; simpl; exact E).
  assert (Hp : VISIT_POS < ndim n0) by (unfold ndim, n0, nll_full, VISIT_POS; simpl; lia).
  pose proof (wsum_mask_padding azero [true; true; false] VISIT_POS k g n0 w Wn En Hp eq_refl) as [H2 _].
  exact (teq_trans _ _ _ _ H1 H2).
Qed.

(* ------------------------------------------------------------------ counts *)

Lemma fold_count : forall A (wgt : A -> N) (l : list A) (a : N),
    (forall x, In x l -> wgt x = 0%N \/ wgt x = 1%N) ->
    fold_left N.add (map wgt l) a = (a + N.of_nat (length (filter (fun x => negb (N.eqb (wgt x) 0)) l)))%N.
Proof.
  induction l as [|x l IH]; intros a H; simpl.
  - lia.
  - rewrite IH by (intros; apply H; now right).
    destruct (H x (or_introl eq_refl)) as [E|E]; rewrite E; simpl; lia.
Qed.

(** C06, counts: with a 0/1 mask the sum of weights of every aggregate (n_obs, n_obs_per_ft, ...) is the NUMBER
    of its weight-1 positions; values play no role at all. *)
Theorem counts_are_numbers_of_observed : forall fill R t w o,
    weight t = Some w -> inr (out_shape (shape w) R) o ->
    (forall m, inr (shape w) m -> at_ w m = 0%N \/ at_ w m = 1%N) ->
    at_ (snd (wsum_mask fill R t)) o =
    N.of_nat (length (filter (fun m => negb (N.eqb (at_ w m) 0)) (fiber (shape w) R o))).
Proof.
  intros fill R t w o E Ho H01. unfold wsum_mask. rewrite E. simpl.
  rewrite fold_count; [lia|]. intros m Hm. apply H01. eapply fiber_inr; eassumption.
Qed.

Theorem counts_ignore_values : forall fill R v1 v2 w,
    snd (wsum_mask fill R (mkW v1 (Some w))) = snd (wsum_mask fill R (mkW v2 (Some w))).
Proof. reflexivity. Qed.

(* ------------------------------------------------------------------ noise rules *)

Lemma bshape_refl : forall s, bshape s s = Some s.
Proof.
  induction s as [|d s IH]; simpl; [reflexivity|]. now rewrite IH, Nat.eqb_refl.
Qed.

(** a binary operation with a plain tensor of the SAME shape that is only known to agree on observed positions *)
Lemma apply_same_shape_agree : forall op a a' vb vb',
    wagree a a' ->
    shape vb = shape (value a) -> shape vb' = shape vb ->
    (forall m, inr (shape vb) m -> observed a m -> at_ vb m = at_ vb' m) ->
    ragree wagree (apply_operation a (OT vb) op false) (apply_operation a' (OT vb') op false).
Proof.
  intros op a a' vb vb' H Sb Sb' Hb. pose proof H as (W & W' & Hs & Hw & Hv).
  unfold apply_operation, tzip2. rewrite Sb', Sb, <- Hs, bshape_refl. cbn [shape].
  unfold wf in W, W'.
  destruct (weight a) as [w|] eqn:E; destruct (weight a') as [w'|] eqn:E'; try contradiction.
  - destruct Hw as [Hws Hwv].
    unfold expand_weight. rewrite <- Hws, W, shape_eqb_refl. cbn [bind].
    unfold mk_weightedN. cbn [shape]. rewrite <- Hws, W, shape_eqb_refl.
    simpl. unfold wagree, wf, observed; simpl. repeat split; auto.
    + congruence.
    + intros m Hm Ho. rewrite !bidx_id by assumption.
      rewrite Hv, Hb; auto; try (now rewrite Sb); unfold observed; now rewrite E.
  - simpl. unfold wagree, wf, observed; simpl. repeat split; auto.
    intros m Hm _. rewrite !bidx_id by assumption.
    rewrite Hv, Hb; auto; try (now rewrite Sb); unfold observed; now rewrite E.
Qed.

Lemma sqr_agree : forall y y', wagree y y' -> ragree wagree (sqr y) (sqr y').
Proof. intros. unfold sqr. now apply wmap_pointwise_agree. Qed.

Lemma apply_operation_weight : forall a b op rev r, apply_operation a b op rev = Ok r ->
    weight a <> None -> weight r <> None.
Proof.
  intros a b op rev r H Hn. unfold apply_operation in H.
  destruct (weight a) as [wa|] eqn:Ea; [|congruence].
  destruct b as [b|vb].
  - destruct (if rev then _ else _) as [rv|]; [|discriminate].
    destruct (weight b) as [wb|].
    + destruct (tensor_eqb N.eqb wa wb); [|discriminate].
      destruct (expand_weight wa (shape rv)) as [we|]; [|discriminate]. simpl in H. unfold mk_weightedN in H.
      destruct (shape_eqb (shape we) (shape rv)); inversion H; subst; simpl; congruence.
    + destruct (expand_weight wa (shape rv)) as [we|]; [|discriminate]. simpl in H. unfold mk_weightedN in H.
      destruct (shape_eqb (shape we) (shape rv)); inversion H; subst; simpl; congruence.
  - destruct (if rev then _ else _) as [rv|]; [|discriminate].
    destruct (expand_weight wa (shape rv)) as [we|]; [|discriminate]. simpl in H. unfold mk_weightedN in H.
    destruct (shape_eqb (shape we) (shape rv)); inversion H; subst; simpl; congruence.
Qed.

Lemma apply_operation_shape : forall a vb op r, apply_operation a (OT vb) op false = Ok r ->
    shape vb = shape (value a) -> shape (value r) = shape (value a).
Proof.
  intros a vb op r H S. unfold apply_operation, tzip2 in H. rewrite S, bshape_refl in H. cbn [shape] in H.
  destruct (weight a) as [wa|].
  - destruct (expand_weight wa (shape (value a))) as [we|]; [|discriminate]. simpl in H. unfold mk_weightedN in H.
    cbn [shape] in H. destruct (shape_eqb (shape we) (shape (value a))); inversion H; subst; reflexivity.
  - inversion H; subst; reflexivity.
Qed.

(** a binary operation with a plain tensor that broadcasts to the shape of [a] keeps the shape and the weights of [a] *)
Lemma apply_plain_keeps : forall a vb op (rev : bool) r, wf a ->
    bshape (if rev then shape vb else shape (value a)) (if rev then shape (value a) else shape vb)
    = Some (shape (value a)) ->
    apply_operation a (OT vb) op rev = Ok r ->
    shape (value r) = shape (value a) /\ weight r = weight a.
Proof.
  intros a vb op rev r W B H. unfold apply_operation, tzip2 in H. unfold wf in W.
  destruct rev; rewrite B in H; cbn [shape] in H;
    (destruct (weight a) as [wa|] eqn:E;
     [ unfold expand_weight in H; rewrite W, shape_eqb_refl in H; cbn [bind] in H;
       unfold mk_weightedN in H; cbn [shape] in H; rewrite W, shape_eqb_refl in H
     | ]; inversion H; subst; simpl; auto).
Qed.

Lemma tmap_teq : forall A B (f : A -> B) (a b : tensor A), teq a b -> teq (tmap f a) (tmap f b).
Proof. intros A B f a b [Hs Hv]. split; simpl; [assumption|]. intros m Hm. now rewrite Hv. Qed.

(** plain torch operations see equal tensors: same error or equal results *)
Lemma tbin_teq : forall op a a' b b', teq a a' -> teq b b' -> ragree teq (tbin op a b) (tbin op a' b').
Proof.
  intros op a a' b b' [Sa Ha] [Sb Hb]. unfold tbin, tzip2. rewrite <- Sa, <- Sb.
  destruct (bshape (shape a) (shape b)) as [s|] eqn:E; simpl; [|reflexivity].
  destruct (bshape_expandable _ _ _ E) as [E1 E2].
  split; [reflexivity|]. simpl. intros m Hm.
  rewrite Ha, Hb; eauto using bidx_inr.
Qed.

(** summed = sum_dim(-2 * y_x_model + model_x_model, ...) for ANY set of summed axes: independent of y under the
    mask and of the model where y is masked *)
Lemma noise_summed_agree : forall d y y' model model',
    wagree y y' ->
    shape model = shape (value y) -> shape model' = shape model ->
    (forall m, inr (shape model) m -> observed y m -> at_ model m = at_ model' m) ->
    ragree teq (noise_summed d y model) (noise_summed d y' model').
Proof.
  intros d y y' model model' H Sm Sm' Hm. pose proof H as (W & W' & Hs & Hw & Hv).
  unfold noise_summed, y_x_model.
  pose proof (apply_same_shape_agree amul y y' model model' H Sm Sm' Hm) as H1.
  destruct (apply_operation y (OT model) amul false) as [a|e] eqn:Ea;
    destruct (apply_operation y' (OT model') amul false) as [a'|e'] eqn:Ea'; simpl in H1; try contradiction;
    [|exact H1].
  cbn [bind].
  assert (B1 : bshape (shape (value y)) (shape model) = Some (shape (value y))) by (rewrite Sm; apply bshape_refl).
  destruct (apply_plain_keeps y model amul false a W B1 Ea) as [Sa Wa].
  pose proof H1 as (WA & _).
  set (c := OT (scalar0 (Fin (-2 # 1)%Q))).
  pose proof (apply_operation_agree amul true a a' c c H1 (teq_refl _ _)) as H2.
  destruct (apply_operation a c amul true) as [b|e] eqn:Eb;
    destruct (apply_operation a' c amul true) as [b'|e'] eqn:Eb'; simpl in H2; try contradiction;
    [|exact H2].
  cbn [bind].
  destruct (apply_plain_keeps a (scalar0 (Fin (-2 # 1)%Q)) amul true b WA eq_refl Eb) as [Sb Wb].
  assert (H3 : ragree wagree (apply_operation b (OT (model_x_model model)) aadd false)
                             (apply_operation b' (OT (model_x_model model')) aadd false)).
  { apply apply_same_shape_agree; [exact H2 | | exact Sm' |].
    - simpl. now rewrite Sb, Sa.
    - intros m Hin Ho. simpl. simpl in Hin. rewrite Hm; auto.
      unfold observed in *. now rewrite Wb, Wa in Ho. }
  eapply bind_ragree; [exact H3|]. intros t t' Ht. apply sum_dim_ignores_masked. exact Ht.
Qed.

Lemma noise_var_of_agree : forall p p' s s', pair_teq p p' -> teq s s' ->
    ragree teq (noise_var_of p s) (noise_var_of p' s').
Proof.
  intros p p' s s' [Hp1 Hp2] Hs. unfold noise_var_of.
  eapply bind_ragree; [apply tbin_teq; eassumption|]. intros n n' Hn.
  apply tbin_teq; [exact Hn | now apply tmap_teq].
Qed.

(** C06, noise: BOTH update rules (scalar and per feature) use observed entries only.  If y changes under the mask
    (ANY atoms there: NaN, infinities, huge) and the model tensor changes at entries where y is not observed,
    the updated variance is the same (or the rule fails with the same error). *)
Theorem noise_observed_only : forall y y' model model',
    wagree y y' ->
    shape model = shape (value y) -> shape model' = shape model ->
    (forall m, inr (shape model) m -> observed y m -> at_ model m = at_ model' m) ->
    ragree teq (noise_var_scalar y model) (noise_var_scalar y' model') /\
    ragree teq (noise_var_diagonal y model) (noise_var_diagonal y' model').
Proof.
  intros y y' model model' H Sm Sm' Hm. split.
  - unfold noise_var_scalar, y_L2_n_obs.
    eapply bind_ragree.
    { eapply bind_ragree; [apply sqr_agree, H|]. intros a b Hab. apply wsum_dim_ignores_masked, Hab. }
    intros p p' Hp. eapply bind_ragree; [now apply noise_summed_agree|].
    intros s s' Hs. now apply noise_var_of_agree.
  - unfold noise_var_diagonal, y_L2_n_obs_per_ft.
    eapply bind_ragree.
    { eapply bind_ragree; [apply sqr_agree, H|]. intros a b Hab. apply wsum_dim_ignores_masked, Hab. }
    intros p p' Hp. eapply bind_ragree; [now apply noise_summed_agree|].
    intros s s' Hs. now apply noise_var_of_agree.
Qed.

(** the ingredients on their own (statistics stored in the state): y_L2 / n_obs, their per-feature twins and
    y_x_model on observed positions *)
Theorem noise_ingredients_observed_only : forall y y' model model',
    wagree y y' ->
    shape model = shape (value y) -> shape model' = shape model ->
    (forall m, inr (shape model) m -> observed y m -> at_ model m = at_ model' m) ->
    ragree pair_teq (y_L2_n_obs_per_ft y) (y_L2_n_obs_per_ft y') /\
    ragree pair_teq (y_L2_n_obs y) (y_L2_n_obs y') /\
    ragree wagree (y_x_model y model) (y_x_model y' model').
Proof.
  intros y y' model model' H Sm Sm' Hm. repeat split.
  - unfold y_L2_n_obs_per_ft. eapply bind_ragree; [apply sqr_agree, H|]. intros a b Hab.
    apply wsum_dim_ignores_masked, Hab.
  - unfold y_L2_n_obs. eapply bind_ragree; [apply sqr_agree, H|]. intros a b Hab.
    apply wsum_dim_ignores_masked, Hab.
  - unfold y_x_model. apply apply_same_shape_agree; assumption.
Qed.

(* ------------------------------------------------------------------ noise rules and padding *)

Lemma apply_plain_spec : forall a vb op (rev : bool), wf a ->
    bshape (if rev then shape vb else shape (value a)) (if rev then shape (value a) else shape vb)
    = Some (shape (value a)) ->
    exists r, apply_operation a (OT vb) op rev = Ok r /\ weight r = weight a /\
      shape (value r) = shape (value a) /\
      forall m, at_ (value r) m =
                if rev then op (at_ vb (bidx (shape vb) m)) (at_ (value a) (bidx (shape (value a)) m))
                else op (at_ (value a) (bidx (shape (value a)) m)) (at_ vb (bidx (shape vb) m)).
Proof.
  intros a vb op rev W B. unfold apply_operation, tzip2. unfold wf in W.
  destruct rev; rewrite B; cbn [shape]; destruct (weight a) as [wa|] eqn:E.
  all: try (unfold expand_weight; rewrite W, shape_eqb_refl; cbn [bind];
       unfold mk_weightedN; cbn [shape]; rewrite W, shape_eqb_refl).
  all: eexists; (split; [reflexivity|]); simpl; auto.
Qed.

Lemma noise_summed_direct : forall d y model, wf y -> shape model = shape (value y) ->
    ragree teq (noise_summed d y model) (sum_dim azero d (OW (nll_full f_tot y model))).
Proof.
  intros d y model W Sm. unfold noise_summed, y_x_model.
  assert (B1 : bshape (shape (value y)) (shape model) = Some (shape (value y))) by (rewrite Sm; apply bshape_refl).
  destruct (apply_plain_spec y model amul false W B1) as (a & Ea & Wa & Sa & Va).
  rewrite Ea. cbn [bind].
  assert (WA : wf a) by (unfold wf in *; rewrite Wa, Sa; exact W).
  destruct (apply_plain_spec a (scalar0 (Fin (-2 # 1)%Q)) amul true WA eq_refl) as (b & Eb & Wb & Sb & Vb).
  rewrite Eb. cbn [bind].
  assert (WB : wf b) by (unfold wf in *; rewrite Wb, Sb; exact WA).
  assert (B3 : bshape (shape (value b)) (shape (model_x_model model)) = Some (shape (value b))).
  { simpl. rewrite Sm, Sb, Sa. apply bshape_refl. }
  destruct (apply_plain_spec b (model_x_model model) aadd false WB B3) as (c & Ec & Wc & Sc & Vc).
  rewrite Ec. cbn [bind].
  apply sum_dim_ignores_masked. simpl.
  assert (WC : wf c) by (unfold wf in *; rewrite Wc, Sc; exact WB).
  unfold wagree. split; [exact WC|]. split; [exact W|].
  split; [simpl; now rewrite Sc, Sb, Sa|].
  split.
  { rewrite Wc, Wb, Wa. simpl. destruct (weight y); simpl; [apply teq_refl | exact I]. }
  intros m Hm _. rewrite Sc, Sb, Sa in Hm.
  pose proof (bidx_id _ _ Hm) as Ei.
  rewrite Vc, Vb, Va. simpl. rewrite Sb, Sa, Sm, !Ei. reflexivity.
Qed.

Lemma sqr_direct : forall y model, wf y -> sqr y = Ok (nll_full f_sq y model).
Proof.
  intros y model W. unfold sqr, wmap, valued, mk_weightedN, nll_full, f_sq, filled, wf in *. simpl.
  destruct (weight y) as [w|]; [|reflexivity]. simpl. now rewrite W, shape_eqb_refl.
Qed.

Lemma pad_shape_length : forall p k rs, p < length rs -> length (pad_shape p k rs) = length rs.
Proof.
  intros p k rs H. unfold pad_shape. rewrite app_length, firstn_length. cbn [length]. rewrite skipn_length. lia.
Qed.

Lemma ragree_trans : forall A (P : A -> A -> Prop), (forall a b c, P a b -> P b c -> P a c) ->
    forall r1 r2 r3, ragree P r1 r2 -> ragree P r2 r3 -> ragree P r1 r3.
Proof. intros A P T [a|e] [b|e'] [c|e'']; simpl; intros; try contradiction; eauto; congruence. Qed.

Lemma ragree_teq_sym : forall A (r1 r2 : res (tensor A)), ragree teq r1 r2 -> ragree teq r2 r1.
Proof. intros A [a|e] [b|e']; simpl; intros; try contradiction; auto using teq_sym. Qed.

Lemma pair_teq_trans : forall A B (p q r : tensor A * tensor B), pair_teq p q -> pair_teq q r -> pair_teq p r.
Proof. intros A B p q r [H1 H2] [H3 H4]. split; eapply teq_trans; eassumption. Qed.

(** weighted sums through the argument handling of wsum_dim / sum_dim: padding along a summed axis is invisible *)
Lemma sums_padding : forall fill d R p k g t w, wf t -> weight t = Some w -> p < ndim t ->
    bind (get_dim (ndim t) d) (torch_sum_mask (ndim t)) = Ok R -> nth p R false = true ->
    ragree pair_teq (wsum_dim fill d (wpad p k g t)) (wsum_dim fill d t) /\
    ragree teq (sum_dim fill d (OW (wpad p k g t))) (sum_dim fill d (OW t)).
Proof.
  intros fill d R p k g t w W E Hp HR Hn.
  assert (Hd : ndim (wpad p k g t) = ndim t) by (unfold ndim; simpl; now apply pad_shape_length).
  pose proof (wsum_mask_padding fill R p k g t w W E Hp Hn) as HP.
  unfold wsum_dim, sum_dim, wsum_only, wsum. rewrite Hd. simpl weight. rewrite E.
  destruct (get_dim (ndim t) d) as [dim|e]; cbn [bind] in HR; [|discriminate]. cbn [bind]. rewrite HR. cbn [bind].
  split; [exact HP | exact (proj1 HP)].
Qed.

Lemma nll_full_pad : forall f y w model p k gy gm, wf y -> weight y = Some w -> shape model = shape (value y) ->
    wagree (nll_full f (wpad p k gy y) (tpad p k gm model))
           (wpad p k (fun m => f m (gy m) (gm m)) (nll_full f y model)).
Proof.
  intros f y w model p k gy gm W E Sm. unfold wf in W. rewrite E in W.
  unfold wagree, wf, observed, nll_full, wpad; simpl. rewrite E. simpl.
  repeat split; auto; try (now rewrite W).
  intros m Hm Ho. rewrite Sm.
  destruct (Nat.ltb (nth p m 0) (nth p (shape (value y)) 0)); reflexivity.
Qed.

Lemma nll_sums_padding : forall f d R y w model p k gy gm,
    wf y -> weight y = Some w -> shape model = shape (value y) -> p < length (shape (value y)) ->
    bind (get_dim (length (shape (value y))) d) (torch_sum_mask (length (shape (value y)))) = Ok R ->
    nth p R false = true ->
    ragree pair_teq (wsum_dim azero d (nll_full f (wpad p k gy y) (tpad p k gm model)))
                    (wsum_dim azero d (nll_full f y model)) /\
    ragree teq (sum_dim azero d (OW (nll_full f (wpad p k gy y) (tpad p k gm model))))
               (sum_dim azero d (OW (nll_full f y model))).
Proof.
  intros f d R y w model p k gy gm W E Sm Hp HR Hn.
  pose proof (nll_full_pad f y w model p k gy gm W E Sm) as HA.
  set (n0 := nll_full f y model) in *.
  assert (Wn : wf n0) by (unfold n0, nll_full, wf; simpl; exact W).
  assert (En : weight n0 = Some w) by (unfold n0, nll_full; simpl; exact E).
  destruct (sums_padding azero d R p k (fun m => f m (gy m) (gm m)) n0 w Wn En Hp HR Hn) as [P1 P2].
  split.
  - eapply ragree_trans; [apply pair_teq_trans | apply wsum_dim_ignores_masked, HA | exact P1].
  - eapply ragree_trans; [apply teq_trans | | exact P2].
    apply (sum_dim_ignores_masked azero d (OW _) (OW _)). exact HA.
Qed.

(** C06, noise and padding: k more visits with weight 0 — ANY y values and ANY model values in them — change neither
    update rule's variance *)
Theorem noise_padding : forall y w model k gy gm,
    wf y -> weight y = Some w -> length (shape (value y)) = 3 -> shape model = shape (value y) ->
    ragree teq (noise_var_scalar (wpad VISIT_POS k gy y) (tpad VISIT_POS k gm model)) (noise_var_scalar y model) /\
    ragree teq (noise_var_diagonal (wpad VISIT_POS k gy y) (tpad VISIT_POS k gm model)) (noise_var_diagonal y model).
Proof.
  intros y w model k gy gm W E L3 Sm.
  set (yp := wpad VISIT_POS k gy y). set (mp := tpad VISIT_POS k gm model).
  assert (Wp : wf yp).
  { unfold yp, wf, wpad. simpl. rewrite E. simpl. unfold wf in W. rewrite E in W. now rewrite W. }
  assert (Sp : shape mp = shape (value yp)) by (unfold mp, yp; simpl; now rewrite Sm).
  assert (Hp : VISIT_POS < length (shape (value y))) by (unfold VISIT_POS; lia).
  assert (main : forall d R,
             bind (get_dim (length (shape (value y))) d) (torch_sum_mask (length (shape (value y)))) = Ok R ->
             nth VISIT_POS R false = true ->
             ragree teq (bind (bind (sqr yp) (fun y2 => wsum_dim azero d y2))
                              (fun p => bind (noise_summed d yp mp) (noise_var_of p)))
                        (bind (bind (sqr y) (fun y2 => wsum_dim azero d y2))
                              (fun p => bind (noise_summed d y model) (noise_var_of p)))).
  { intros d R HR Hn.
    rewrite (sqr_direct yp mp Wp), (sqr_direct y model W). cbn [bind].
    eapply bind_ragree.
    { exact (proj1 (nll_sums_padding f_sq d R y w model VISIT_POS k gy gm W E Sm Hp HR Hn)). }
    intros p p' Hpp. eapply bind_ragree with (P := teq); [|intros s s' Hs; now apply noise_var_of_agree].
    eapply ragree_trans; [apply teq_trans | apply noise_summed_direct; assumption |].
    eapply ragree_trans; [apply teq_trans | | apply ragree_teq_sym, noise_summed_direct; assumption].
    exact (proj2 (nll_sums_padding f_tot d R y w model VISIT_POS k gy gm W E Sm Hp HR Hn)). }
  split.
  - apply (main DimDefault [true; true; true]); [rewrite L3|]; reflexivity.
  - apply (main (ButDim [LVL_FT]) [false; true; true]); [rewrite L3|]; reflexivity.
Qed.
