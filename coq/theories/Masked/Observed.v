(** Vocabulary of the C06 statements: positions of a tensor, equality of tensors on their positions,
    agreement of two weighted tensors on observed positions, padding along an axis.  Definitions only. *)
From Coq Require Import List NArith ZArith Bool Arith.
From Leaspy Require Import Base.Atoms Masked.Weighted.
Import ListNotations.

(** [m] is a position of a tensor of (reversed) shape [rs] *)
Definition inr (rs m : list nat) : Prop := In m (indices rs).

(** same shape and same entry at every position *)
Definition teq {A} (a b : tensor A) : Prop :=
  shape a = shape b /\ forall m, inr (shape a) m -> at_ a m = at_ b m.

Definition weq (wa wb : option (tensor N)) : Prop :=
  match wa, wb with
  | None, None => True
  | Some a, Some b => teq a b
  | _, _ => False
  end.

(** the class invariant established by __post_init__ *)
Definition wf (t : wt) : Prop :=
  match weight t with
  | None => True
  | Some w => shape w = shape (value t)
  end.

(** position [m] carries information: no weights at all, or a non-zero weight *)
Definition observed (t : wt) (m : list nat) : Prop :=
  match weight t with
  | None => True
  | Some w => at_ w m <> 0%N
  end.

(** same shape, same weights, same values wherever the weight is not 0
    (what sits at weight-0 positions is unconstrained: any atom, NaN and infinities included) *)
Definition wagree (t1 t2 : wt) : Prop :=
  wf t1 /\ wf t2 /\
  shape (value t1) = shape (value t2) /\
  weq (weight t1) (weight t2) /\
  forall m, inr (shape (value t1)) m -> observed t1 m -> at_ (value t1) m = at_ (value t2) m.

Definition oagree (x y : operand) : Prop :=
  match x, y with
  | OW a, OW b => wagree a b
  | OT a, OT b => teq a b
  | _, _ => False
  end.

(** two outcomes are related: same error, or related values *)
Definition ragree {A} (P : A -> A -> Prop) (r1 r2 : res A) : Prop :=
  match r1, r2 with
  | Ok a, Ok b => P a b
  | Err e1, Err e2 => e1 = e2
  | _, _ => False
  end.

Definition pair_teq {A B} (p q : tensor A * tensor B) : Prop :=
  teq (fst p) (fst q) /\ teq (snd p) (snd q).

(** padding: [k] more entries along the axis at position [p] (innermost first); the new entries are [padv m] *)
Definition pad_shape (p k : nat) (rs : list nat) : list nat :=
  firstn p rs ++ (nth p rs 0 + k) :: skipn (S p) rs.

Definition tpad {A} (p k : nat) (padv : list nat -> A) (t : tensor A) : tensor A :=
  mkT (pad_shape p k (shape t))
      (fun m => if Nat.ltb (nth p m 0) (nth p (shape t) 0) then at_ t m else padv m).

(** padding of a weighted tensor: arbitrary values [garbage], weight 0 *)
Definition wpad (p k : nat) (garbage : list nat -> atom) (t : wt) : wt :=
  mkW (tpad p k garbage (value t))
      (match weight t with
       | None => None
       | Some w => Some (tpad p k (fun _ => 0%N) w)
       end).
