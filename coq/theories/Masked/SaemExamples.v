(** Non-vacuity examples for the memory phase (Masked/Saem.v): the hypotheses of the theorems are met by concrete,
    non-trivial values; the variant that blends regular tensors (weights lost) is really different. *)
From Coq Require Import List NArith ZArith Bool Arith QArith.
From Leaspy Require Import Base.Atoms Masked.Weighted Masked.Observed Masked.Pipeline Masked.Examples Masked.Saem.
Import ListNotations.
Local Close Scope Q_scope.
Local Open Scope nat_scope.

(** y of the F3 witness (2 individuals x 1 visit x 2 features, y[0,0,1] missing: a partially observed visit).
    Three maximization steps: the first memory-less, then e = 1/2 and e = 1/4.  The two runs a / b use model tensors
    that differ ONLY at the missing entry (5, 3, 1 against -7, NaN, +inf). *)
Definition mt (l : list atom) : tensor atom := of_flat NaN [2; 1; 2] l.
Definition sa_m0 := mt [Fin 1; Fin 5; Fin 2; Fin 2]%Q.
Definition sb_m0 := mt [Fin 1; Fin (-7 # 1); Fin 2; Fin 2]%Q.
Definition half : atom := Fin (1 # 2)%Q.
Definition sa_steps := [(half, half, mt [Fin 1; Fin 3; Fin 2; Fin 1]%Q);
                        (Fin (3 # 4)%Q, Fin (1 # 4)%Q, mt [Fin 0; Fin 1; Fin 2; Fin 1]%Q)].
Definition sb_steps := [(half, half, mt [Fin 1; NaN; Fin 2; Fin 1]%Q);
                        (Fin (3 # 4)%Q, Fin (1 # 4)%Q, mt [Fin 0; PInf; Fin 2; Fin 1]%Q)].

Lemma ex_magree : forall a c d x x', magree ex_w_y (mt [a; x; c; d]) (mt [a; x'; c; d]).
Proof.
  intros. split; [reflexivity|]. split; [reflexivity|].
  intros m Hm Ho. unfold inr in Hm. simpl in Hm.
  destruct Hm as [Hm|[Hm|[Hm|[Hm|[]]]]]; subst m; try reflexivity.
  exfalso. apply Ho. reflexivity.
Qed.

Example ex_saem_hypotheses :
  wagree ex_w_y ex_w_y /\ magree ex_w_y sa_m0 sb_m0 /\ steps_agree ex_w_y sa_steps sb_steps /\
  at_ sa_m0 [1; 0; 0] <> at_ sb_m0 [1; 0; 0].
Proof.
  split.
  { unfold wagree, wf; simpl. repeat split; auto. }
  split; [apply ex_magree|]. split.
  { repeat constructor; apply ex_magree. }
  vm_compute. discriminate.
Qed.

(** both runs hand the same variances to compute_std_from_variance at each of the three steps:
    scalar 1/3, 5/6, 25/24; per feature (0, 1), (0, 5/2), (1/8, 23/8) — the values the real `_maximization_step` produces
    on these inputs — and the averaged y_x_model still carries the weights of y *)
Example ex_saem_values :
  flat_is (noise_var_scalar_saem ex_w_y sa_m0 []) [] [Fin (1 # 3)]%Q = true /\
  flat_is (noise_var_scalar_saem ex_w_y sa_m0 (firstn 1 sa_steps)) [] [Fin (5 # 6)]%Q = true /\
  flat_is (noise_var_scalar_saem ex_w_y sa_m0 sa_steps) [] [Fin (25 # 24)]%Q = true /\
  flat_is (noise_var_scalar_saem ex_w_y sb_m0 sb_steps) [] [Fin (25 # 24)]%Q = true /\
  flat_is (noise_var_diagonal_saem ex_w_y sa_m0 (firstn 1 sa_steps)) [2] [Fin 0; Fin (5 # 2)]%Q = true /\
  flat_is (noise_var_diagonal_saem ex_w_y sa_m0 sa_steps) [2] [Fin (1 # 8); Fin (23 # 8)]%Q = true /\
  flat_is (noise_var_diagonal_saem ex_w_y sb_m0 sb_steps) [2] [Fin (1 # 8); Fin (23 # 8)]%Q = true.
Proof. repeat split; vm_compute; reflexivity. Qed.

Example ex_saem_carries :
  bind (saem_stats ex_w_y sb_m0 sb_steps) (fun s => Ok (weights_same (weight (s_yxm s)) (Some [1; 0; 1; 1]%N))) = Ok true.
Proof. vm_compute. reflexivity. Qed.

(** the blend done on regular tensors (weights lost) is a DIFFERENT function: with a finite model at the missing entry
    the square of the model there leaks into the residual sum from the first averaged step on: scalar (5/6 + 17/3 =) 13/2
    instead of 5/6, second feature (5/2 + 17 =) 39/2 instead of 5/2; and it depends on the model at the missing
    entry (run b: NaN).  This is what the tie and the per-iteration oracle of the check look for. *)
Example ex_saem_unweighted_differs :
  flat_is (noise_var_unweighted DimDefault (y_L2_n_obs ex_w_y) ex_w_y sa_m0 (firstn 1 sa_steps)) [] [Fin (13 # 2)]%Q = true /\
  flat_is (noise_var_unweighted DimDefault (y_L2_n_obs ex_w_y) ex_w_y sb_m0 (firstn 1 sb_steps)) [] [NaN] = true /\
  flat_is (noise_var_unweighted (ButDim [LVL_FT]) (y_L2_n_obs_per_ft ex_w_y) ex_w_y sa_m0 (firstn 1 sa_steps)) [2]
          [Fin 0; Fin (39 # 2)]%Q = true.
Proof. repeat split; vm_compute; reflexivity. Qed.

(** the correspondence checker accepts what the real step produces on run a (weights of y carried, values 0 under the
    mask, variance 1/3 then 5/6) and rejects the same record with the weights lost, or with the leaked variance *)
Definition ex_obs0 : obs_step :=
  (Some [1; 0; 1; 1]%N, [Fin 1; Fin 0; Fin 4; Fin 6]%Q, [Fin 1; Fin 25; Fin 4; Fin 4]%Q, [], [Fin (1 # 3)]%Q).
Definition ex_obs1 (w : option (list N)) (v : atom) : obs_step :=
  (w, [Fin 1; Fin 0; Fin 4; Fin (9 # 2)]%Q, [Fin 1; Fin 17; Fin 4; Fin (5 # 2)]%Q, [], [v]).
Definition ex_case (o1 : obs_step) :=
  (false, [2; 1; 2], [Fin 1; NaN; Fin 2; Fin 3]%Q, [1; 0; 1; 1]%N, [Fin 1; Fin 5; Fin 2; Fin 2]%Q,
   [(half, half, [Fin 1; Fin 3; Fin 2; Fin 1]%Q)], [ex_obs0; o1]).

Example ex_check_saem_case :
  check_saem_case (ex_case (ex_obs1 (Some [1; 0; 1; 1]%N) (Fin (5 # 6)%Q))) = true /\
  check_saem_case (ex_case (ex_obs1 None (Fin (5 # 6)%Q))) = false /\
  check_saem_case (ex_case (ex_obs1 (Some [1; 0; 1; 1]%N) (Fin (13 # 2)%Q))) = false.
Proof. repeat split; vm_compute; reflexivity. Qed.
