(** Model of leaspy.utils.weighted_tensor (WeightedTensor and the sum helpers), definitions only.

    Mirrors, line by line,
      src/leaspy/utils/weighted_tensor/_weighted_tensor.py   (class WeightedTensor, _apply_operation)
      src/leaspy/utils/weighted_tensor/_utils.py             (_get_dim, sum_dim, wsum_dim, unsqueeze_right)
      src/leaspy/utils/weighted_tensor/_factory.py           (factory_weighted_tensor_unary_operator = [wmap])

    A tensor is a shape and a total function from multi-indices to entries.
    !! Shapes and multi-indices are stored INNERMOST AXIS FIRST (reversed w.r.t. torch): torch's
    right-aligned broadcasting then is a plain left-aligned zip.  [to_flat] enumerates row-major,
    so flat data read from torch (contiguous) can be used as is.

    Entries are [atom]s (exact rationals + inf/-inf/NaN, IEEE rules for the specials, no rounding);
    weights are naturals ([N]; a bool mask is 0/1).  Errors are values ([res]). *)
From Coq Require Import List NArith ZArith Bool Arith QArith.
From Leaspy Require Import Base.Atoms.
Import ListNotations.
Local Close Scope Q_scope.
Local Open Scope nat_scope.

(* ------------------------------------------------------------------ errors *)

(** exception classes of the implementation *)
Inductive err : Type :=
| EAssertion        (* AssertionError: constructor checks, _get_dim assertion *)
| ENotImplemented   (* NotImplementedError: binary operation on differing weights *)
| ERuntime          (* RuntimeError: shapes that do not broadcast / view / expand, repeated dim *)
| EIndex            (* IndexError: dim / index out of range *)
| EValue            (* ValueError: dim and but_dim both given *)
| EMalformed.       (* a literal / expression that is not well formed (never an implementation outcome) *)

Inductive res (A : Type) : Type :=
| Ok (a : A)
| Err (e : err).
Arguments Ok {A} a.
Arguments Err {A} e.

Definition bind {A B} (r : res A) (f : A -> res B) : res B :=
  match r with Ok a => f a | Err e => Err e end.

(* ------------------------------------------------------------------ tensors *)

Record tensor (A : Type) : Type := mkT { shape : list nat; at_ : list nat -> A }.
Arguments mkT {A} shape at_.
Arguments shape {A} t.
Arguments at_ {A} t m.

(** all multi-indices of a (reversed) shape, row-major: the LAST list element (outermost axis) varies slowest *)
Fixpoint indices (rs : list nat) : list (list nat) :=
  match rs with
  | [] => [[]]
  | d :: rs' => flat_map (fun m' => map (fun i => i :: m') (seq 0 d)) (indices rs')
  end.

Definition to_flat {A} (t : tensor A) : list A := map (at_ t) (indices (shape t)).

Fixpoint ravel (rs m : list nat) : nat :=
  match rs, m with
  | d :: rs', i :: m' => i + d * ravel rs' m'
  | _, _ => 0
  end.

Definition size (rs : list nat) : nat := fold_right Nat.mul 1 rs.

Definition of_flat {A} (d : A) (rs : list nat) (data : list A) : tensor A :=
  mkT rs (fun m => nth (ravel rs m) data d).

Definition tmap {A B} (f : A -> B) (t : tensor A) : tensor B :=
  mkT (shape t) (fun m => f (at_ t m)).

Fixpoint shape_eqb (s1 s2 : list nat) : bool :=
  match s1, s2 with
  | [], [] => true
  | a :: r1, b :: r2 => Nat.eqb a b && shape_eqb r1 r2
  | _, _ => false
  end.

Fixpoint list_eqb {A} (eqb : A -> A -> bool) (l1 l2 : list A) : bool :=
  match l1, l2 with
  | [], [] => true
  | a :: r1, b :: r2 => eqb a b && list_eqb eqb r1 r2
  | _, _ => false
  end.

(** torch.equal: same shape and same entries *)
Definition tensor_eqb {A} (eqb : A -> A -> bool) (a b : tensor A) : bool :=
  shape_eqb (shape a) (shape b) && list_eqb eqb (to_flat a) (to_flat b).

(** broadcasting (shapes reversed: innermost first) *)
Fixpoint bshape (s1 s2 : list nat) : option (list nat) :=
  match s1, s2 with
  | [], s => Some s
  | s, [] => Some s
  | d1 :: r1, d2 :: r2 =>
      match bshape r1 r2 with
      | None => None
      | Some r =>
          if Nat.eqb d1 d2 then Some (d1 :: r)
          else if Nat.eqb d1 1 then Some (d2 :: r)
          else if Nat.eqb d2 1 then Some (d1 :: r)
          else None
      end
  end.

(** the entry of an operand of shape [s] that is read for position [m] of the broadcast result *)
Fixpoint bidx (s m : list nat) : list nat :=
  match s, m with
  | d :: s', i :: m' => (if Nat.eqb d 1 then 0 else i) :: bidx s' m'
  | _, _ => []
  end.

(** point-wise binary operation with broadcasting; None = shapes do not broadcast *)
Definition tzip2 {A B C} (f : A -> B -> C) (a : tensor A) (b : tensor B) : option (tensor C) :=
  match bshape (shape a) (shape b) with
  | None => None
  | Some s => Some (mkT s (fun m => f (at_ a (bidx (shape a) m)) (at_ b (bidx (shape b) m))))
  end.

(** Tensor.expand(shape) (no -1 entries): every existing axis must be equal to the target or be 1 *)
Fixpoint expandable (s target : list nat) : bool :=
  match s, target with
  | [], _ => true
  | d :: s', e :: t' => (Nat.eqb d e || Nat.eqb d 1) && expandable s' t'
  | _ :: _, [] => false
  end.

Definition texpand {A} (target : list nat) (t : tensor A) : res (tensor A) :=
  if expandable (shape t) target
  then Ok (mkT target (fun m => at_ t (bidx (shape t) m)))
  else Err ERuntime.

(** Tensor.view(shape) on contiguous data (no -1 entries) *)
Fixpoint unravel (rs : list nat) (k : nat) : list nat :=
  match rs with
  | [] => []
  | d :: rs' => (k mod d) :: unravel rs' (k / d)
  end.

Definition tview {A} (target : list nat) (t : tensor A) : res (tensor A) :=
  if Nat.eqb (size target) (size (shape t))
  then Ok (mkT target (fun m => at_ t (unravel (shape t) (ravel target m))))
  else Err ERuntime.

(* ------------------------------------------------------------------ reductions *)

(** [R] says for every axis (innermost first) whether it is summed *)
Fixpoint out_shape (rs : list nat) (R : list bool) : list nat :=
  match rs, R with
  | d :: rs', true :: R' => out_shape rs' R'
  | d :: rs', false :: R' => d :: out_shape rs' R'
  | _, _ => []
  end.

(** the input positions that are summed into output position [o], row-major *)
Fixpoint fiber (rs : list nat) (R : list bool) (o : list nat) : list (list nat) :=
  match rs, R with
  | [], _ => [[]]
  | d :: rs', true :: R' => flat_map (fun m' => map (fun i => i :: m') (seq 0 d)) (fiber rs' R' o)
  | d :: rs', false :: R' =>
      match o with
      | i :: o' => map (cons i) (fiber rs' R' o')
      | [] => []
      end
  | _ :: _, [] => []
  end.

Definition reduce {A} (add : A -> A -> A) (zero : A) (R : list bool) (t : tensor A) : tensor A :=
  mkT (out_shape (shape t) R) (fun o => fold_left add (map (at_ t) (fiber (shape t) R o)) zero).

(** torch.sum(dim=...) argument handling: dims may be negative; out of range -> IndexError,
    repeated -> RuntimeError, the empty tuple means a FULL reduction. *)
Definition norm_dim (ndim : nat) (i : Z) : res nat :=
  let n := Z.of_nat (Nat.max ndim 1) in   (* a 0-dim tensor accepts dim 0 and -1 *)
  if ((- n <=? i) && (i <? n))%Z then Ok (Z.to_nat (if (i <? 0)%Z then n + i else i))%Z
  else Err EIndex.

Fixpoint norm_dims (ndim : nat) (l : list Z) : res (list nat) :=
  match l with
  | [] => Ok []
  | i :: r =>
      bind (norm_dim ndim i) (fun a =>
      bind (norm_dims ndim r) (fun ar =>
      if existsb (Nat.eqb a) ar then Err ERuntime else Ok (a :: ar)))
  end.

(** reduction mask (innermost first) of a list of torch axes; [] = all axes *)
Definition redmask (ndim : nat) (D : list nat) : list bool :=
  match D with
  | [] => repeat true ndim
  | _ => map (fun p => existsb (Nat.eqb (ndim - 1 - p)) D) (seq 0 ndim)
  end.

Definition torch_sum_mask (ndim : nat) (dim : list Z) : res (list bool) :=
  bind (norm_dims ndim dim) (fun D => Ok (redmask ndim D)).

(** _utils._get_dim *)
Inductive dimspec : Type :=
| DimDefault                 (* neither dim nor but_dim *)
| Dim (l : list Z)           (* dim=int or tuple *)
| ButDim (l : list Z)        (* but_dim=int or tuple *)
| DimAndButDim.              (* both: ValueError *)

Definition get_dim (ndim : nat) (d : dimspec) : res (list Z) :=
  match d with
  | DimAndButDim => Err EValue
  | ButDim l =>
      let l' := map (fun i => if (0 <=? i)%Z then i else (Z.of_nat ndim + i)%Z) l in
      if forallb (fun i => (0 <=? i)%Z) l'
      then Ok (filter (fun i => negb (existsb (Z.eqb i) l')) (map Z.of_nat (seq 0 ndim)))
      else Err EAssertion
  | DimDefault => Ok []
  | Dim l => Ok l
  end.

(* ------------------------------------------------------------------ WeightedTensor *)

Record wt : Type := mkW { value : tensor atom; weight : option (tensor N) }.

(** __post_init__ : weights non-negative, same shape as the values *)
Definition mk_weighted (v : tensor atom) (w : option (tensor Z)) : res wt :=
  match w with
  | None => Ok (mkW v None)
  | Some w =>
      if negb (forallb (fun z => (0 <=? z)%Z) (to_flat w)) then Err EAssertion
      else if negb (shape_eqb (shape w) (shape v)) then Err EAssertion
      else Ok (mkW v (Some (tmap Z.to_N w)))
  end.

(** the same check when the weight is already a tensor of naturals (internal constructions) *)
Definition mk_weightedN (v : tensor atom) (w : option (tensor N)) : res wt :=
  match w with
  | None => Ok (mkW v None)
  | Some w' => if shape_eqb (shape w') (shape v) then Ok (mkW v w) else Err EAssertion
  end.

(** filled(fill_value) *)
Definition filled (fill : option atom) (t : wt) : tensor atom :=
  match fill, weight t with
  | Some f, Some w =>
      mkT (shape (value t)) (fun m => if N.eqb (at_ w m) 0 then f else at_ (value t) m)
  | _, _ => value t
  end.

(** weight * tensor (same shape) *)
Definition weight_times (w : tensor N) (v : tensor atom) : tensor atom :=
  mkT (shape v) (fun m => amul (ofN (at_ w m)) (at_ v m)).

(** weighted_value *)
Definition weighted_value (t : wt) : tensor atom :=
  match weight t with
  | None => value t
  | Some w => weight_times w (filled (Some azero) t)
  end.

(** valued(value) : same weight, new value (the constructor re-checks the shapes) *)
Definition valued (t : wt) (v : tensor atom) : res wt := mk_weightedN v (weight t).

(** map(func, fill_value=...) and factory_weighted_tensor_unary_operator *)
Definition wmap (f : tensor atom -> res (tensor atom)) (fill : option atom) (t : wt) : res wt :=
  bind (f (filled fill t)) (valued t).

(** map_both(func, fill_value=None) *)
Definition wmap_both (fv : tensor atom -> res (tensor atom)) (fw : tensor N -> res (tensor N)) (t : wt) : res wt :=
  bind (fv (filled None t)) (fun v =>
  match weight t with
  | None => Ok (mkW v None)
  | Some w => bind (fw w) (fun w' => mk_weightedN v (Some w'))
  end).

Definition wview (target : list nat) (t : wt) : res wt := wmap_both (tview target) (tview target) t.
Definition wexpand (target : list nat) (t : wt) : res wt := wmap_both (texpand target) (texpand target) t.

(** wsum(fill_value=0, **kws): fill masked values with 0, THEN weight, sum, fill empty aggregates *)
Definition ones_like {A} (v : tensor A) : tensor N := mkT (shape v) (fun _ => 1%N).

Definition wsum_mask (fill : atom) (R : list bool) (t : wt) : tensor atom * tensor N :=
  let w := match weight t with Some w => w | None => ones_like (value t) end in
  let weighted_values := weight_times w (filled (Some azero) t) in
  let weighted_sum := reduce aadd azero R weighted_values in
  let sum_weights := reduce N.add 0%N R w in
  (mkT (shape weighted_sum) (fun o => if N.eqb (at_ sum_weights o) 0 then fill else at_ weighted_sum o),
   sum_weights).

Definition ndim (t : wt) : nat := length (shape (value t)).

Definition wsum (fill : atom) (dim : list Z) (t : wt) : res (tensor atom * tensor N) :=
  bind (torch_sum_mask (ndim t) dim) (fun R => Ok (wsum_mask fill R t)).

(** sum(fill_value=0, **kws) *)
Definition wsum_only (fill : atom) (dim : list Z) (t : wt) : res (tensor atom) :=
  match weight t with
  | None => bind (torch_sum_mask (ndim t) dim) (fun R => Ok (reduce aadd azero R (value t)))
  | Some _ => bind (wsum fill dim t) (fun p => Ok (fst p))
  end.

(** operands of a binary operation / arguments of sum_dim: a WeightedTensor or a plain tensor *)
Inductive operand : Type :=
| OW (t : wt)
| OT (t : tensor atom).

(** _utils.sum_dim and _utils.wsum_dim *)
Definition sum_dim (fill : atom) (d : dimspec) (x : operand) : res (tensor atom) :=
  match x with
  | OW t => bind (get_dim (ndim t) d) (fun dim => wsum_only fill dim t)
  | OT v => bind (get_dim (length (shape v)) d) (fun dim =>
            bind (torch_sum_mask (length (shape v)) dim) (fun R => Ok (reduce aadd azero R v)))
  end.

Definition wsum_dim (fill : atom) (d : dimspec) (t : wt) : res (tensor atom * tensor N) :=
  bind (get_dim (ndim t) d) (fun dim => wsum fill dim t).

(** weight.expand(result.shape).clone() if weight.shape != result.shape else weight.clone() *)
Definition expand_weight (w : tensor N) (s : list nat) : res (tensor N) :=
  if shape_eqb (shape w) s then Ok w else texpand s w.

(** _apply_operation(a, b, operator_name, reverse) *)
Definition apply_operation (a : wt) (b : operand) (op : atom -> atom -> atom) (reverse : bool) : res wt :=
  match b with
  | OW b =>
      match (if reverse then tzip2 op (value b) (value a) else tzip2 op (value a) (value b)) with
      | None => Err ERuntime
      | Some result_value =>
          match weight a, weight b with
          | None, None => Ok (mkW result_value None)
          | None, Some wb =>
              bind (expand_weight wb (shape result_value)) (fun w => mk_weightedN result_value (Some w))
          | Some wa, None =>
              bind (expand_weight wa (shape result_value)) (fun w => mk_weightedN result_value (Some w))
          | Some wa, Some wb =>
              if tensor_eqb N.eqb wa wb
              then bind (expand_weight wa (shape result_value)) (fun w => mk_weightedN result_value (Some w))
              else Err ENotImplemented
          end
      end
  | OT b =>
      match (if reverse then tzip2 op b (value a) else tzip2 op (value a) b) with
      | None => Err ERuntime
      | Some result_value =>
          match weight a with
          | Some wa =>
              bind (expand_weight wa (shape result_value)) (fun w => mk_weightedN result_value (Some w))
          | None => Ok (mkW result_value None)
          end
      end
  end.

(** unary dunders: __neg__ = -1 * value, __abs__, __pow__ (weights unchanged) *)
Definition wneg (t : wt) : wt := mkW (tmap (amul (Fin (-1)%Q)) (value t)) (weight t).
Definition wabs (t : wt) : wt := mkW (tmap aabs (value t)) (weight t).
Definition wpow (n : nat) (t : wt) : wt := mkW (tmap (fun x => apow x n) (value t)) (weight t).

(** torch.index_put(value, indices, values, accumulate) with one index list per axis
    (outermost axis first, as in torch; negative indices wrap), values of the same length or a scalar *)
Definition norm_index (d : nat) (i : Z) : res nat :=
  let n := Z.of_nat d in
  if ((- n <=? i) && (i <? n))%Z then Ok (Z.to_nat (if (i <? 0)%Z then n + i else i))%Z
  else Err EIndex.

(** positions (innermost first) addressed by the index lists [idx] (outermost axis first) *)
Fixpoint transpose_idx (idx : list (list Z)) (len : nat) : list (list Z) :=
  match len with
  | O => []
  | S k => map (fun l => hd 0%Z l) idx :: transpose_idx (map (@tl Z) idx) k
  end.

Fixpoint norm_pos (rs_outer_first : list nat) (p : list Z) : res (list nat) :=
  match rs_outer_first, p with
  | [], [] => Ok []
  | d :: r, i :: q =>
      bind (norm_index d i) (fun a => bind (norm_pos r q) (fun ar => Ok (a :: ar)))
  | _, _ => Err EIndex
  end.

Fixpoint mapM {A B} (f : A -> res B) (l : list A) : res (list B) :=
  match l with
  | [] => Ok []
  | a :: r => bind (f a) (fun b => bind (mapM f r) (fun br => Ok (b :: br)))
  end.

Definition index_put_fun (pos : list (list nat)) (vals : list atom) (accumulate : bool)
           (base : list nat -> atom) (m : list nat) : atom :=
  fold_left (fun cur pv =>
               if list_eqb Nat.eqb (fst pv) m
               then (if accumulate then aadd cur (snd pv) else snd pv)
               else cur)
            (combine pos vals) (base m).

Definition tindex_put (idx : list (list Z)) (vals : list atom) (accumulate : bool)
           (v : tensor atom) : res (tensor atom) :=
  let len := match idx with [] => 0 | l :: _ => length l end in
  if negb (Nat.eqb (length idx) (length (shape v))) then Err EMalformed
  else if negb (forallb (fun l => Nat.eqb (length l) len) idx) then Err EMalformed
  else
    let vals' := match vals with [x] => repeat x len | _ => vals end in
    if negb (Nat.eqb (length vals') len) then Err ERuntime
    else
      bind (mapM (norm_pos (rev (shape v))) (transpose_idx idx len)) (fun pos =>
      Ok (mkT (shape v) (index_put_fun (map (@rev nat) pos) vals' accumulate (at_ v)))).

Definition windex_put (idx : list (list Z)) (vals : list atom) (accumulate : bool) (t : wt) : res wt :=
  wmap (tindex_put idx vals accumulate) None t.

(* ------------------------------------------------------------------ expressions over the API *)

Inductive binop : Type := BAdd | BSub | BMul | BDiv | BLt | BLe | BEq | BNe | BGt | BGe.

Definition binop_fun (o : binop) : atom -> atom -> atom :=
  match o with
  | BAdd => aadd | BSub => asub | BMul => amul | BDiv => adiv
  | BLt => fun a b => ofbool (alt a b)
  | BLe => fun a b => ofbool (ale a b)
  | BEq => fun a b => ofbool (aeq a b)
  | BNe => fun a b => ofbool (ane a b)
  | BGt => fun a b => ofbool (agt a b)
  | BGe => fun a b => ofbool (age a b)
  end.

(** trees of API calls; leaves are looked up in an environment of operands *)
Inductive expr : Type :=
| EVar (i : nat)
| EBin (o : binop) (reverse : bool) (a b : expr)   (* a must be a WeightedTensor; b any operand *)
| ENeg (a : expr)
| EAbs (a : expr)
| EPow (n : nat) (a : expr)
| EMap (f : atom -> atom) (fill : option atom) (a : expr)  (* map / unary-operator factory with a point-wise func *)
| EIndexPut (idx : list (list Z)) (vals : list atom) (accumulate : bool) (a : expr)
| EView (target : list nat) (a : expr)
| EExpand (target : list nat) (a : expr).

Definition as_wt (x : operand) : res wt :=
  match x with OW t => Ok t | OT _ => Err EMalformed end.

Fixpoint eval (env : nat -> res operand) (e : expr) : res operand :=
  match e with
  | EVar i => env i
  | EBin o reverse a b =>
      bind (eval env a) (fun xa => bind (as_wt xa) (fun ta =>
      bind (eval env b) (fun xb =>
      bind (apply_operation ta xb (binop_fun o) reverse) (fun r => Ok (OW r)))))
  | ENeg a => bind (eval env a) (fun xa => bind (as_wt xa) (fun ta => Ok (OW (wneg ta))))
  | EAbs a => bind (eval env a) (fun xa => bind (as_wt xa) (fun ta => Ok (OW (wabs ta))))
  | EPow n a => bind (eval env a) (fun xa => bind (as_wt xa) (fun ta => Ok (OW (wpow n ta))))
  | EMap f fill a =>
      bind (eval env a) (fun xa => bind (as_wt xa) (fun ta =>
      bind (wmap (fun v => Ok (tmap f v)) fill ta) (fun r => Ok (OW r))))
  | EIndexPut idx vals acc a =>
      bind (eval env a) (fun xa => bind (as_wt xa) (fun ta =>
      bind (windex_put idx vals acc ta) (fun r => Ok (OW r))))
  | EView s a =>
      bind (eval env a) (fun xa => bind (as_wt xa) (fun ta => bind (wview s ta) (fun r => Ok (OW r))))
  | EExpand s a =>
      bind (eval env a) (fun xa => bind (as_wt xa) (fun ta => bind (wexpand s ta) (fun r => Ok (OW r))))
  end.

(* ------------------------------------------------------------------ literals, queries, outcomes (for the tie) *)

(** a literal operand as read from the implementation: reversed shape + row-major data *)
Inductive lit : Type :=
| LitW (rs : list nat) (vals : list atom) (w : option (list nat * list Z))   (* WeightedTensor(value, weight) *)
| LitT (rs : list nat) (vals : list atom).                                  (* plain torch tensor *)

Definition lit_tensor {A} (d : A) (rs : list nat) (data : list A) : res (tensor A) :=
  if Nat.eqb (length data) (size rs) then Ok (of_flat d rs data) else Err EMalformed.

Definition eval_lit (l : lit) : res operand :=
  match l with
  | LitT rs vals => bind (lit_tensor NaN rs vals) (fun v => Ok (OT v))
  | LitW rs vals None => bind (lit_tensor NaN rs vals) (fun v => bind (mk_weighted v None) (fun t => Ok (OW t)))
  | LitW rs vals (Some (ws, wd)) =>
      bind (lit_tensor NaN rs vals) (fun v =>
      bind (lit_tensor 0%Z ws wd) (fun w =>
      bind (mk_weighted v (Some w)) (fun t => Ok (OW t))))
  end.

Definition env_of (ls : list lit) (i : nat) : res operand :=
  match nth_error ls i with
  | Some l => eval_lit l
  | None => Err EMalformed
  end.

Inductive query : Type :=
| QRaw                                   (* .value and .weight *)
| QFilled (fill : option atom)           (* .filled(fill) *)
| QWeightedValue                         (* .weighted_value *)
| QWsum (fill : atom) (dim : list Z)     (* .wsum(fill_value=, dim=) ; dim = [] is the call without dim *)
| QSum (fill : atom) (dim : list Z)      (* .sum(fill_value=, dim=) *)
| QSumDim (fill : atom) (d : dimspec)    (* sum_dim(x, fill_value=, dim=/but_dim=) *)
| QWsumDim (fill : atom) (d : dimspec).  (* wsum_dim(x, fill_value=, dim=/but_dim=) *)

Inductive outcome : Type :=
| OutT (rs : list nat) (vals : list atom)
| OutP (rs : list nat) (vals : list atom) (sw : list N)
| OutW (rs : list nat) (vals : list atom) (w : option (list N))
| OutE (e : err).

Definition out_tensor (t : tensor atom) : outcome := OutT (shape t) (to_flat t).

Definition run_query (q : query) (x : operand) : outcome :=
  match q, x with
  | QRaw, OW t => OutW (shape (value t)) (to_flat (value t))
                       (match weight t with None => None | Some w => Some (to_flat w) end)
  | QRaw, OT v => out_tensor v
  | QFilled fill, OW t => out_tensor (filled fill t)
  | QWeightedValue, OW t => out_tensor (weighted_value t)
  | QWsum fill dim, OW t =>
      match wsum fill dim t with
      | Ok (s, sw) => OutP (shape s) (to_flat s) (to_flat sw)
      | Err e => OutE e
      end
  | QSum fill dim, OW t =>
      match wsum_only fill dim t with Ok s => out_tensor s | Err e => OutE e end
  | QSumDim fill d, _ =>
      match sum_dim fill d x with Ok s => out_tensor s | Err e => OutE e end
  | QWsumDim fill d, OW t =>
      match wsum_dim fill d t with
      | Ok (s, sw) => OutP (shape s) (to_flat s) (to_flat sw)
      | Err e => OutE e
      end
  | _, OT _ => OutE EMalformed
  end.

Definition run (ls : list lit) (e : expr) (q : query) : outcome :=
  match eval (env_of ls) e with
  | Ok x => run_query q x
  | Err e => OutE e
  end.

Definition err_eqb (a b : err) : bool :=
  match a, b with
  | EAssertion, EAssertion | ENotImplemented, ENotImplemented | ERuntime, ERuntime
  | EIndex, EIndex | EValue, EValue | EMalformed, EMalformed => true
  | _, _ => false
  end.

Definition opt_eqb {A} (eqb : A -> A -> bool) (a b : option A) : bool :=
  match a, b with
  | None, None => true
  | Some x, Some y => eqb x y
  | _, _ => false
  end.

Definition outcome_eqb (a b : outcome) : bool :=
  match a, b with
  | OutT s1 v1, OutT s2 v2 => shape_eqb s1 s2 && list_eqb atom_same v1 v2
  | OutP s1 v1 w1, OutP s2 v2 w2 => shape_eqb s1 s2 && list_eqb atom_same v1 v2 && list_eqb N.eqb w1 w2
  | OutW s1 v1 w1, OutW s2 v2 w2 => shape_eqb s1 s2 && list_eqb atom_same v1 v2 && opt_eqb (list_eqb N.eqb) w1 w2
  | OutE e1, OutE e2 => err_eqb e1 e2
  | _, _ => false
  end.

(** one correspondence case: environment, expression, query, outcome observed on the implementation *)
Definition check_case (c : list lit * expr * query * outcome) : bool :=
  match c with (ls, e, q, observed) => outcome_eqb (run ls e q) observed end.
