(** Proofs: agreement on observed positions is preserved by every operation of the WeightedTensor API
    (binary operations with weight propagation, unary operations, map, index_put, expand). *)
From Coq Require Import List NArith ZArith Bool Arith Lia.
From Leaspy Require Import Base.Atoms Base.AtomsProofs Masked.Weighted Masked.Observed Masked.WeightedProofs.
Import ListNotations.

Local Arguments filled : simpl never.
Local Arguments amul : simpl never.
Local Arguments aadd : simpl never.
Local Arguments ofN : simpl never.

(* ------------------------------------------------------------------ shapes and broadcast indices *)

Lemma shape_eqb_eq : forall a b, shape_eqb a b = true <-> a = b.
Proof.
  induction a as [|x a IH]; destruct b as [|y b]; simpl; split; intros H; try discriminate; auto.
  - apply andb_true_iff in H. destruct H as [H1 H2]. apply Nat.eqb_eq in H1. apply IH in H2. congruence.
  - inversion H; subst. rewrite Nat.eqb_refl. simpl. now apply IH.
Qed.

Lemma shape_eqb_refl : forall a, shape_eqb a a = true.
Proof. intros. now apply shape_eqb_eq. Qed.

Lemma expandable_refl : forall s, expandable s s = true.
Proof. induction s as [|d s IH]; simpl; [reflexivity|]. now rewrite Nat.eqb_refl, IH. Qed.

Lemma bidx_inr : forall sw s m, expandable sw s = true -> inr s m -> inr sw (bidx sw m).
Proof.
  induction sw as [|d sw IH]; intros s m He Hm.
  - simpl. apply inr_nil.
  - destruct s as [|e s]; simpl in He; [discriminate|].
    apply andb_true_iff in He. destruct He as [Hd He].
    apply inr_inv in Hm. destruct Hm as (i & m' & -> & Hi & Hm'). simpl.
    apply inr_cons. split; [|now apply (IH s)].
    destruct (Nat.eqb d 1) eqn:E1.
    + apply Nat.eqb_eq in E1. lia.
    + rewrite orb_false_r in Hd. apply Nat.eqb_eq in Hd. lia.
Qed.

Lemma bidx_id : forall s m, inr s m -> bidx s m = m.
Proof.
  induction s as [|d s IH]; intros m Hm.
  - apply inr_nil_inv in Hm. now subst.
  - apply inr_inv in Hm. destruct Hm as (i & m' & -> & Hi & Hm'). simpl. rewrite IH by assumption.
    destruct (Nat.eqb d 1) eqn:E; [|reflexivity]. apply Nat.eqb_eq in E. f_equal. lia.
Qed.

Lemma expandable_nil_r : forall s, expandable [] s = true.
Proof. reflexivity. Qed.

Lemma bshape_expandable : forall s1 s2 s, bshape s1 s2 = Some s ->
    expandable s1 s = true /\ expandable s2 s = true.
Proof.
  induction s1 as [|d1 r1 IH]; intros s2 s H.
  - simpl in H. destruct s2; inversion H; subst; split; try reflexivity; apply expandable_refl.
  - destruct s2 as [|d2 r2].
    + simpl in H. inversion H; subst. split; [apply expandable_refl | reflexivity].
    + simpl in H. destruct (bshape r1 r2) as [r|] eqn:E; [|discriminate].
      destruct (IH _ _ E) as [H1 H2].
      destruct (Nat.eqb d1 d2) eqn:E12.
      { inversion H; subst. apply Nat.eqb_eq in E12. subst. simpl. rewrite Nat.eqb_refl, H1, H2. now split. }
      destruct (Nat.eqb d1 1) eqn:E11.
      { inversion H; subst. simpl. rewrite Nat.eqb_refl, E11, H1, H2. simpl. rewrite orb_true_r. now split. }
      destruct (Nat.eqb d2 1) eqn:E21; [|discriminate].
      inversion H; subst. simpl. rewrite Nat.eqb_refl, E21, H1, H2. simpl. rewrite orb_true_r. now split.
Qed.

(* ------------------------------------------------------------------ torch.equal respects teq *)

Lemma list_eqb_N_eq : forall l1 l2, list_eqb N.eqb l1 l2 = true <-> l1 = l2.
Proof.
  induction l1 as [|x l1 IH]; destruct l2 as [|y l2]; simpl; split; intros H; try discriminate; auto.
  - apply andb_true_iff in H. destruct H as [H1 H2]. apply N.eqb_eq in H1. apply IH in H2. congruence.
  - inversion H; subst. rewrite N.eqb_refl. simpl. now apply IH.
Qed.

Lemma tensor_eqb_teq : forall (a a' b b' : tensor N), teq a a' -> teq b b' ->
    tensor_eqb N.eqb a b = tensor_eqb N.eqb a' b'.
Proof.
  intros a a' b b' Ha Hb. unfold tensor_eqb.
  rewrite (teq_to_flat _ _ _ Ha), (teq_to_flat _ _ _ Hb).
  destruct Ha as [-> _], Hb as [-> _]. reflexivity.
Qed.

Lemma tensor_eqb_true : forall (a b : tensor N), tensor_eqb N.eqb a b = true -> teq a b.
Proof.
  intros a b H. unfold tensor_eqb in H. apply andb_true_iff in H. destruct H as [Hs Hl].
  apply shape_eqb_eq in Hs. apply list_eqb_N_eq in Hl. split; [assumption|].
  intros m Hm. unfold to_flat in Hl. rewrite <- Hs in Hl.
  unfold inr in Hm. revert Hl Hm. generalize (indices (shape a)). intros l.
  induction l as [|x l IH]; intros Hl Hm; [destruct Hm|].
  simpl in Hl. inversion Hl. destruct Hm as [->|Hm]; [assumption | now apply IH].
Qed.

(* ------------------------------------------------------------------ the pieces of _apply_operation *)

Definition zipv (rev : bool) (op : atom -> atom -> atom) (va vb : tensor atom) : option (tensor atom) :=
  if rev then tzip2 op vb va else tzip2 op va vb.

Lemma zipv_spec : forall rev op va vb r, zipv rev op va vb = Some r ->
    expandable (shape va) (shape r) = true /\ expandable (shape vb) (shape r) = true /\
    forall m, at_ r m = (if rev then fun x y => op y x else op)
                          (at_ va (bidx (shape va) m)) (at_ vb (bidx (shape vb) m)).
Proof.
  intros rev op va vb r H. unfold zipv, tzip2 in H. destruct rev.
  - destruct (bshape (shape vb) (shape va)) as [s|] eqn:E; [|discriminate]. inversion H; subst. simpl.
    destruct (bshape_expandable _ _ _ E). repeat split; auto.
  - destruct (bshape (shape va) (shape vb)) as [s|] eqn:E; [|discriminate]. inversion H; subst. simpl.
    destruct (bshape_expandable _ _ _ E). repeat split; auto.
Qed.

Lemma zipv_shapes : forall rev op va vb va' vb', shape va = shape va' -> shape vb = shape vb' ->
    match zipv rev op va vb, zipv rev op va' vb' with
    | Some r, Some r' => shape r = shape r'
    | None, None => True
    | _, _ => False
    end.
Proof.
  intros rev op va vb va' vb' Ha Hb. unfold zipv, tzip2. rewrite <- Ha, <- Hb.
  destruct rev.
  - destruct (bshape (shape vb) (shape va)); simpl; auto.
  - destruct (bshape (shape va) (shape vb)); simpl; auto.
Qed.

Lemma expand_weight_spec : forall w s we, expand_weight w s = Ok we ->
    shape we = s /\ expandable (shape w) s = true /\
    forall m, inr s m -> at_ we m = at_ w (bidx (shape w) m).
Proof.
  intros w s we H. unfold expand_weight in H.
  destruct (shape_eqb (shape w) s) eqn:E.
  - inversion H; subst. apply shape_eqb_eq in E. subst. repeat split; [apply expandable_refl|].
    intros m Hm. now rewrite bidx_id.
  - unfold texpand in H. destruct (expandable (shape w) s) eqn:Ex; [|discriminate].
    inversion H; subst. simpl. repeat split; auto.
Qed.

(** the common tail of every branch of _apply_operation that keeps a weight *)
Lemma finish_agree : forall (rv rv' : tensor atom) (w w' : tensor N),
    shape rv = shape rv' -> teq w w' ->
    (forall m, inr (shape rv) m -> expandable (shape w) (shape rv) = true ->
               at_ w (bidx (shape w) m) <> 0%N -> at_ rv m = at_ rv' m) ->
    ragree wagree (bind (expand_weight w (shape rv)) (fun we => mk_weightedN rv (Some we)))
                  (bind (expand_weight w' (shape rv')) (fun we => mk_weightedN rv' (Some we))).
Proof.
  intros rv rv' w w' Hs [Hws Hwv] Hkey. rewrite <- Hs.
  destruct (expand_weight w (shape rv)) as [we|e] eqn:E1.
  - destruct (expand_weight_spec _ _ _ E1) as (S1 & X1 & V1).
    assert (E2 : exists we', expand_weight w' (shape rv) = Ok we').
    { unfold expand_weight in *. rewrite <- Hws.
      destruct (shape_eqb (shape w) (shape rv)); [eauto|].
      unfold texpand in *. rewrite <- Hws. destruct (expandable (shape w) (shape rv)); [eauto | discriminate]. }
    destruct E2 as [we' E2]. rewrite E2.
    destruct (expand_weight_spec _ _ _ E2) as (S2 & X2 & V2).
    simpl. unfold mk_weightedN. rewrite S1, S2. rewrite <- Hs. rewrite shape_eqb_refl.
    simpl. unfold wagree, wf, observed; simpl. repeat split; auto.
    + congruence.
    + congruence.
    + intros m Hm. rewrite S1 in Hm. rewrite V1, V2 by assumption. rewrite <- Hws. apply Hwv.
      now apply (bidx_inr _ (shape rv)).
    + intros m Hm Ho. apply Hkey; auto. now rewrite <- V1.
  - assert (E2 : expand_weight w' (shape rv) = Err e).
    { unfold expand_weight in *. rewrite <- Hws.
      destruct (shape_eqb (shape w) (shape rv)); [discriminate|].
      unfold texpand in *. rewrite <- Hws. destruct (expandable (shape w) (shape rv)); [discriminate | assumption]. }
    rewrite E2. simpl. reflexivity.
Qed.

Lemma wagree_value_at : forall a a' q, wagree a a' -> inr (shape (value a)) q -> observed a q ->
    at_ (value a) q = at_ (value a') q.
Proof. intros a a' q (_ & _ & _ & _ & H) Hq Ho. now apply H. Qed.

(** C06: the binary-operation rule preserves agreement on observed positions (and fails identically) *)
Theorem apply_operation_agree : forall op rev a a' b b',
    wagree a a' -> oagree b b' ->
    ragree wagree (apply_operation a b op rev) (apply_operation a' b' op rev).
Proof.
  intros op rev a a' b b' Ha Hb.
  pose proof Ha as (Wa & Wa' & Hsa & Hwa & Hva).
  destruct b as [b|vb]; destruct b' as [b'|vb']; simpl in Hb; try contradiction.
  - (* both WeightedTensor *)
    pose proof Hb as (Wb & Wb' & Hsb & Hwb & Hvb).
    unfold apply_operation. fold (zipv rev op (value a) (value b)). fold (zipv rev op (value a') (value b')).
    pose proof (zipv_shapes rev op _ _ _ _ Hsa Hsb) as HZ.
    destruct (zipv rev op (value a) (value b)) as [rv|] eqn:Z1;
      destruct (zipv rev op (value a') (value b')) as [rv'|] eqn:Z2; try contradiction; [|reflexivity].
    destruct (zipv_spec _ _ _ _ _ Z1) as (Xa & Xb & V1).
    destruct (zipv_spec _ _ _ _ _ Z2) as (_ & _ & V2).
    assert (Hcore : forall m, inr (shape rv) m ->
              at_ (value a) (bidx (shape (value a)) m) = at_ (value a') (bidx (shape (value a)) m) ->
              at_ (value b) (bidx (shape (value b)) m) = at_ (value b') (bidx (shape (value b)) m) ->
              at_ rv m = at_ rv' m).
    { intros m Hm E1 E2. rewrite V1, V2, <- Hsa, <- Hsb, E1, E2. reflexivity. }
    unfold wf in Wa, Wb.
    destruct (weight a) as [wa|] eqn:Ea; destruct (weight a') as [wa'|] eqn:Ea'; try contradiction;
      destruct (weight b) as [wb|] eqn:Eb; destruct (weight b') as [wb'|] eqn:Eb'; try contradiction.
    + (* both weighted *)
      rewrite <- (tensor_eqb_teq _ _ _ _ Hwa Hwb).
      destruct (tensor_eqb N.eqb wa wb) eqn:Eq; [|reflexivity].
      apply tensor_eqb_true in Eq. destruct Eq as [Eqs Eqv].
      apply finish_agree; auto. intros m Hm _ Hne. rewrite Wa in Hne.
      assert (Hq : inr (shape (value a)) (bidx (shape (value a)) m)) by now apply (bidx_inr _ (shape rv)).
      apply Hcore; auto.
      * apply Hva; auto. unfold observed. now rewrite Ea.
      * assert (Hsab : shape (value b) = shape (value a)) by congruence.
        rewrite Hsab. apply Hvb; [now rewrite Hsab|]. unfold observed. rewrite Eb.
        rewrite <- Eqv; [assumption | now rewrite Wa].
    + (* a weighted, b without weights *)
      apply finish_agree; auto. intros m Hm _ Hne. rewrite Wa in Hne.
      apply Hcore; auto.
      * apply Hva; [now apply (bidx_inr _ (shape rv))|]. unfold observed. now rewrite Ea.
      * apply Hvb; [now apply (bidx_inr _ (shape rv))|]. unfold observed. now rewrite Eb.
    + (* only b weighted *)
      apply finish_agree; auto. intros m Hm _ Hne. rewrite Wb in Hne.
      apply Hcore; auto.
      * apply Hva; [now apply (bidx_inr _ (shape rv))|]. unfold observed. now rewrite Ea.
      * apply Hvb; [now apply (bidx_inr _ (shape rv))|]. unfold observed. now rewrite Eb.
    + (* no weights *)
      simpl. unfold wagree, wf, observed; simpl. repeat split; auto.
      intros m Hm _. apply Hcore; auto.
      * apply Hva; [now apply (bidx_inr _ (shape rv))|]. unfold observed. now rewrite Ea.
      * apply Hvb; [now apply (bidx_inr _ (shape rv))|]. unfold observed. now rewrite Eb.
  - (* b a plain tensor *)
    destruct Hb as [Hsb Hvb].
    unfold apply_operation. fold (zipv rev op (value a) vb). fold (zipv rev op (value a') vb').
    pose proof (zipv_shapes rev op _ _ _ _ Hsa Hsb) as HZ.
    destruct (zipv rev op (value a) vb) as [rv|] eqn:Z1;
      destruct (zipv rev op (value a') vb') as [rv'|] eqn:Z2; try contradiction; [|reflexivity].
    destruct (zipv_spec _ _ _ _ _ Z1) as (Xa & Xb & V1).
    destruct (zipv_spec _ _ _ _ _ Z2) as (_ & _ & V2).
    assert (Hcore : forall m, inr (shape rv) m ->
              at_ (value a) (bidx (shape (value a)) m) = at_ (value a') (bidx (shape (value a)) m) ->
              at_ rv m = at_ rv' m).
    { intros m Hm E1. rewrite V1, V2, <- Hsa, <- Hsb, E1.
      rewrite (Hvb (bidx (shape vb) m)) by now apply (bidx_inr _ (shape rv)). reflexivity. }
    unfold wf in Wa.
    destruct (weight a) as [wa|] eqn:Ea; destruct (weight a') as [wa'|] eqn:Ea'; try contradiction.
    + apply finish_agree; auto. intros m Hm _ Hne. rewrite Wa in Hne.
      apply Hcore; auto. apply Hva; [now apply (bidx_inr _ (shape rv))|]. unfold observed. now rewrite Ea.
    + simpl. unfold wagree, wf, observed; simpl. repeat split; auto.
      intros m Hm _. apply Hcore; auto.
      apply Hva; [now apply (bidx_inr _ (shape rv))|]. unfold observed. now rewrite Ea.
Qed.

(* ------------------------------------------------------------------ unary operations, map, index_put *)

Lemma pointwise_agree : forall (g : atom -> atom) a a', wagree a a' ->
    wagree (mkW (tmap g (value a)) (weight a)) (mkW (tmap g (value a')) (weight a')).
Proof.
  intros g a a' (Wa & Wa' & Hs & Hw & Hv). unfold wagree, wf, observed in *; simpl.
  repeat split; auto. intros m Hm Ho. f_equal. now apply Hv.
Qed.

Lemma shape_filled : forall fill t, shape (filled fill t) = shape (value t).
Proof. intros [f|] t; unfold filled; destruct (weight t); reflexivity. Qed.

Lemma filled_observed : forall fill t m, observed t m -> at_ (filled fill t) m = at_ (value t) m.
Proof.
  intros [f|] t m Ho; unfold filled, observed in *; destruct (weight t) as [w|]; try reflexivity.
  simpl. apply N.eqb_neq in Ho. now rewrite Ho.
Qed.

(** map / the unary-operator factory with a point-wise function, any fill value *)
Theorem wmap_pointwise_agree : forall (f : atom -> atom) fill a a', wagree a a' ->
    ragree wagree (wmap (fun v => Ok (tmap f v)) fill a) (wmap (fun v => Ok (tmap f v)) fill a').
Proof.
  intros f fill a a' H. pose proof H as (Wa & Wa' & Hs & Hw & Hv).
  unfold wmap, valued, mk_weightedN; simpl. unfold wf in Wa, Wa'.
  destruct (weight a) as [w|] eqn:Ea; destruct (weight a') as [w'|] eqn:Ea'; try contradiction.
  - rewrite !shape_filled, Wa, Wa', !shape_eqb_refl. simpl.
    unfold wagree, wf, observed; simpl. rewrite !shape_filled. repeat split; auto; try (apply Hw).
    intros m Hm Ho. f_equal.
    rewrite !filled_observed.
    + apply Hv; auto. unfold observed. now rewrite Ea.
    + unfold observed. rewrite Ea'. destruct Hw as [Hws Hwv]. rewrite <- Hwv; [assumption | now rewrite Wa].
    + unfold observed. now rewrite Ea.
  - simpl. unfold wagree, wf, observed; simpl. rewrite !shape_filled. repeat split; auto.
    intros m Hm _. f_equal. unfold filled. rewrite Ea, Ea'.
    destruct fill; apply Hv; auto; unfold observed; now rewrite Ea.
Qed.

Lemma tindex_put_agree : forall idx vals acc (v v' : tensor atom), shape v = shape v' ->
    match tindex_put idx vals acc v, tindex_put idx vals acc v' with
    | Ok r, Ok r' => shape r = shape v /\ shape r' = shape v' /\
                     forall m, at_ v m = at_ v' m -> at_ r m = at_ r' m
    | Err e, Err e' => e = e'
    | _, _ => False
    end.
Proof.
  intros idx vals acc v v' Hs. unfold tindex_put. rewrite <- Hs.
  destruct (negb (Nat.eqb (length idx) (length (shape v)))); [reflexivity|].
  destruct (negb (forallb _ idx)); [reflexivity|].
  destruct (negb (Nat.eqb _ _)); [reflexivity|].
  destruct (mapM _ _) as [pos|e]; simpl; [|reflexivity].
  repeat split; auto. intros m E. unfold index_put_fun. now rewrite E.
Qed.

Theorem windex_put_agree : forall idx vals acc a a', wagree a a' ->
    ragree wagree (windex_put idx vals acc a) (windex_put idx vals acc a').
Proof.
  intros idx vals acc a a' H. pose proof H as (Wa & Wa' & Hs & Hw & Hv).
  unfold windex_put, wmap. unfold filled.
  pose proof (tindex_put_agree idx vals acc _ _ Hs) as HT.
  destruct (tindex_put idx vals acc (value a)) as [r|e];
    destruct (tindex_put idx vals acc (value a')) as [r'|e']; try contradiction; simpl; [|assumption].
  destruct HT as (S1 & S2 & HV). unfold valued, mk_weightedN. unfold wf in Wa, Wa'.
  destruct (weight a) as [w|] eqn:Ea; destruct (weight a') as [w'|] eqn:Ea'; try contradiction.
  - rewrite S1, S2, Wa, Wa', !shape_eqb_refl. simpl.
    unfold wagree, wf, observed; simpl. repeat split; try congruence; auto; try (apply Hw).
    intros m Hm Ho. apply HV. apply Hv; [congruence|]. unfold observed. now rewrite Ea.
  - simpl. unfold wagree, wf, observed; simpl. repeat split; try congruence; auto.
    intros m Hm _. apply HV. apply Hv; [congruence|]. unfold observed. now rewrite Ea.
Qed.

(* ------------------------------------------------------------------ expand and view (re-indexing) *)

Lemma reindex_agree : forall (target : list nat) (phi : list nat -> list nat) a a',
    wagree a a' ->
    (forall m, inr target m -> inr (shape (value a)) (phi m)) ->
    wagree (mkW (mkT target (fun m => at_ (value a) (phi m)))
                (match weight a with None => None | Some w => Some (mkT target (fun m => at_ w (phi m))) end))
           (mkW (mkT target (fun m => at_ (value a') (phi m)))
                (match weight a' with None => None | Some w => Some (mkT target (fun m => at_ w (phi m))) end)).
Proof.
  intros target phi a a' (Wa & Wa' & Hs & Hw & Hv) Hphi. unfold wf in Wa, Wa'.
  destruct (weight a) as [w|] eqn:Ea; destruct (weight a') as [w'|] eqn:Ea'; try contradiction;
    unfold wagree, wf, observed; simpl; repeat split; auto.
  - intros m Hm. destruct Hw as [Hws Hwv]. apply Hwv. rewrite Wa. now apply Hphi.
  - intros m Hm Ho. apply Hv; [now apply Hphi|]. unfold observed. now rewrite Ea.
  - intros m Hm _. apply Hv; [now apply Hphi|]. unfold observed. now rewrite Ea.
Qed.

Theorem wexpand_agree : forall target a a', wagree a a' ->
    ragree wagree (wexpand target a) (wexpand target a').
Proof.
  intros target a a' H. pose proof H as (Wa & Wa' & Hs & Hw & Hv).
  unfold wexpand, wmap_both, texpand. unfold filled. rewrite <- Hs. unfold wf in Wa, Wa'.
  destruct (expandable (shape (value a)) target) eqn:Ex; simpl; [|reflexivity].
  pose proof (reindex_agree target (bidx (shape (value a))) a a' H
                            (fun m Hm => bidx_inr _ _ _ Ex Hm)) as HR.
  destruct (weight a) as [w|] eqn:Ea; destruct (weight a') as [w'|] eqn:Ea'; try contradiction.
  - destruct Hw as [Hws Hwv]. rewrite <- Hws, Wa, Ex. simpl. unfold mk_weightedN. simpl.
    rewrite shape_eqb_refl. simpl. exact HR.
  - simpl. exact HR.
Qed.

Lemma ravel_lt : forall rs m, inr rs m -> ravel rs m < size rs.
Proof.
  induction rs as [|d rs IH]; intros m Hm.
  - apply inr_nil_inv in Hm. subst. simpl. lia.
  - apply inr_inv in Hm. destruct Hm as (i & m' & -> & Hi & Hm'). simpl. specialize (IH _ Hm'). nia.
Qed.

Lemma unravel_inr : forall rs k, k < size rs -> inr rs (unravel rs k).
Proof.
  induction rs as [|d rs IH]; intros k Hk; simpl.
  - apply inr_nil.
  - simpl in Hk. assert (d <> 0) by (intros ->; simpl in Hk; lia).
    apply inr_cons. split.
    + now apply Nat.mod_upper_bound.
    + apply IH. apply Nat.div_lt_upper_bound; assumption.
Qed.

Theorem wview_agree : forall target a a', wagree a a' ->
    ragree wagree (wview target a) (wview target a').
Proof.
  intros target a a' H. pose proof H as (Wa & Wa' & Hs & Hw & Hv).
  unfold wview, wmap_both, tview. unfold filled. rewrite <- Hs. unfold wf in Wa, Wa'.
  destruct (Nat.eqb (size target) (size (shape (value a)))) eqn:Ex; simpl; [|reflexivity].
  apply Nat.eqb_eq in Ex.
  assert (Hphi : forall m, inr target m ->
                           inr (shape (value a)) (unravel (shape (value a)) (ravel target m))).
  { intros m Hm. apply unravel_inr. rewrite <- Ex. now apply ravel_lt. }
  pose proof (reindex_agree target _ a a' H Hphi) as HR.
  destruct (weight a) as [w|] eqn:Ea; destruct (weight a') as [w'|] eqn:Ea'; try contradiction.
  - destruct Hw as [Hws Hwv]. rewrite <- Hws, Wa, Ex, Nat.eqb_refl. simpl. unfold mk_weightedN. simpl.
    rewrite shape_eqb_refl. simpl. exact HR.
  - simpl. exact HR.
Qed.

(* ------------------------------------------------------------------ every expression tree *)

Lemma as_wt_agree : forall x y, oagree x y -> ragree wagree (as_wt x) (as_wt y).
Proof. intros [a|v] [b|v'] H; simpl in *; try contradiction; auto. Qed.

(** C06, closure: for EVERY tree of API operations, if the leaves agree on their observed positions (same
    weights; plain tensors equal), then the two evaluations fail with the same error or both succeed with
    results that have the same weights and agree on every observed position.  What sits under a mask of a
    leaf (any atom: NaN, infinities, huge) never reaches an observed position of any result. *)
Theorem eval_agree : forall e env1 env2,
    (forall i, ragree oagree (env1 i) (env2 i)) ->
    ragree oagree (eval env1 e) (eval env2 e).
Proof.
  induction e as [i|o rev a IHa b IHb|a IH|a IH|n a IH|f fill a IH|idx vals acc a IH|s a IH|s a IH];
    intros env1 env2 Henv; simpl.
  - apply Henv.
  - eapply bind_ragree; [apply IHa, Henv|]. intros xa ya Hxa.
    eapply bind_ragree; [apply as_wt_agree, Hxa|]. intros ta ta' Hta.
    eapply bind_ragree; [apply IHb, Henv|]. intros xb yb Hxb.
    eapply bind_ragree; [apply apply_operation_agree; eassumption|]. intros r r' Hr. exact Hr.
  - eapply bind_ragree; [apply IH, Henv|]. intros xa ya Hxa.
    eapply bind_ragree; [apply as_wt_agree, Hxa|]. intros ta ta' Hta. simpl.
    now apply pointwise_agree.
  - eapply bind_ragree; [apply IH, Henv|]. intros xa ya Hxa.
    eapply bind_ragree; [apply as_wt_agree, Hxa|]. intros ta ta' Hta. simpl.
    now apply pointwise_agree.
  - eapply bind_ragree; [apply IH, Henv|]. intros xa ya Hxa.
    eapply bind_ragree; [apply as_wt_agree, Hxa|]. intros ta ta' Hta. simpl.
    now apply (pointwise_agree (fun x => apow x n)).
  - eapply bind_ragree; [apply IH, Henv|]. intros xa ya Hxa.
    eapply bind_ragree; [apply as_wt_agree, Hxa|]. intros ta ta' Hta.
    eapply bind_ragree; [apply wmap_pointwise_agree, Hta|]. intros r r' Hr. exact Hr.
  - eapply bind_ragree; [apply IH, Henv|]. intros xa ya Hxa.
    eapply bind_ragree; [apply as_wt_agree, Hxa|]. intros ta ta' Hta.
    eapply bind_ragree; [apply windex_put_agree, Hta|]. intros r r' Hr. exact Hr.
  - eapply bind_ragree; [apply IH, Henv|]. intros xa ya Hxa.
    eapply bind_ragree; [apply as_wt_agree, Hxa|]. intros ta ta' Hta.
    eapply bind_ragree; [apply wview_agree, Hta|]. intros r r' Hr. exact Hr.
  - eapply bind_ragree; [apply IH, Henv|]. intros xa ya Hxa.
    eapply bind_ragree; [apply as_wt_agree, Hxa|]. intros ta ta' Hta.
    eapply bind_ragree; [apply wexpand_agree, Hta|]. intros r r' Hr. exact Hr.
Qed.
