(** C12 — the executable float32 rounding [r32] of Io/SaveLoadExec.v, cut into named pieces (definitions only).
    [r32'] is [r32] with its local definitions named; [R32Proofs.r32_unfold : r32 q = r32' q] holds by conversion, so
    every theorem about the pieces is a theorem about the very function the correspondence runs against torch. *)
From Coq Require Import ZArith QArith Qreduction.
From Leaspy Require Import Io.SaveLoad Io.SaveLoadExec.
From Leaspy Require Io.F32.
Open Scope Z_scope.

(** scaled numerator / denominator: (n / d) / 2^sh = numS n sh / denS d sh *)
Definition numS (n sh : Z) : Z := if 0 <=? sh then n else n * 2 ^ (- sh).
Definition denS (d sh : Z) : Z := if 0 <=? sh then d * 2 ^ sh else d.
Definition rne (num den : Z) : Z :=
  let fl := num / den in let rem := num mod den in
  if 2 * rem <? den then fl else if den <? 2 * rem then fl + 1 else if Z.even fl then fl else fl + 1.
Definition mk (m sh : Z) : Q := if 0 <=? sh then inject_Z (m * 2 ^ sh) else Qred (m # Z.to_pos (2 ^ (- sh))).
Definition e0_of (n d : Z) : Z :=
  let k := Z.log2 n - Z.log2 d in
  if 0 <=? k then (if d * 2 ^ k <=? n then k else k - 1) else (if d <=? n * 2 ^ (- k) then k else k - 1).
Definition core (n d : Z) : Q :=
  let sh := Z.max (e0_of n d) (-126) - 23 in mk (rne (numS n sh) (denS d sh)) sh.
Definition r32' (q : Q) : Q :=
  match Qnum q with
  | Z0 => 0%Q
  | _ => let v := core (Z.abs (Qnum q)) (Zpos (Qden q)) in if Qnum q <? 0 then Qopp v else v
  end.

(** correspondence case for the OTHER executable rounding of the development ([F32.f32] / [F32.store32], the cast of the
    ingestion model of C14 / C20): value, what torch made of it.  On the normal range [f32], [store32] and [r32] must all give
    torch's float32; where [f32] answers [None] the expected value must be below the normal range. *)
Definition f32_case_ok (c : Q * Q) : bool :=
  match F32.f32 (fst c) with
  | Some y => Qeq_bool y (snd c) && Qeq_bool (F32.store32 (fst c)) (snd c) && Qeq_bool (r32 (fst c)) y
  | None => Qle_bool (Qabs.Qabs (snd c)) (F32.pow2 (-126))
  end.
