(** C12 — rounding to binary32 (round-to-nearest-even, subnormals; [r32] of Io/SaveLoadExec.v) is idempotent on EVERY rational.
    Consequence: the hypothesis [cast_idem_on] of [idempotent_after_one] holds of every model for the executable cast. *)
From Coq Require Import ZArith QArith Qreduction List Bool Lia ZifyBool.
From Leaspy Require Import Io.SaveLoad Io.SaveLoadExec Io.SaveLoadProofs Io.SaveLoadIdem Io.R32.
Open Scope Z_scope.
Local Arguments Z.pow : simpl never.
Local Arguments Z.log2 : simpl never.

Lemma r32_unfold q : r32 q = r32' q.
Proof. reflexivity. Qed.

Lemma p2_pos k : 0 <= k -> 0 < 2 ^ k.
Proof. intros. apply Z.pow_pos_nonneg; lia. Qed.

Lemma p2_split a b : 0 <= a -> 0 <= b -> 2 ^ (a + b) = 2 ^ a * 2 ^ b.
Proof. intros. apply Z.pow_add_r; lia. Qed.

Lemma numS_pos n sh : 0 < n -> 0 < numS n sh.
Proof. intros. unfold numS. destruct (Z.leb_spec 0 sh); [lia|]. pose proof (p2_pos (- sh)). nia. Qed.

Lemma denS_pos d sh : 0 < d -> 0 < denS d sh.
Proof. intros. unfold denS. destruct (Z.leb_spec 0 sh); [|lia]. pose proof (p2_pos sh). nia. Qed.

(** (a) the exponent the definition computes: 2^e <= n/d < 2^(e+1) *)
Lemma e0_spec n d : 0 < n -> 0 < d -> denS d (e0_of n d) <= numS n (e0_of n d) < 2 * denS d (e0_of n d).
Proof.
  intros Hn Hd. unfold e0_of.
  destruct (Z.log2_spec n Hn) as [Ha1 Ha2]. destruct (Z.log2_spec d Hd) as [Hb1 Hb2].
  pose proof (Z.log2_nonneg n) as Ha0. pose proof (Z.log2_nonneg d) as Hb0.
  set (a := Z.log2 n) in *. set (b := Z.log2 d) in *.
  rewrite Z.pow_succ_r in Ha2, Hb2 by assumption.
  pose proof (p2_pos a Ha0) as Pa. pose proof (p2_pos b Hb0) as Pb.
  destruct (Z.leb_spec 0 (a - b)) as [Hk|Hk].
  - assert (Ea : 2 ^ a = 2 ^ b * 2 ^ (a - b)) by (rewrite <- p2_split by lia; f_equal; lia).
    pose proof (p2_pos (a - b) Hk) as Pk.
    destruct (Z.leb_spec (d * 2 ^ (a - b)) n) as [Ht|Ht].
    + unfold denS, numS. destruct (Z.leb_spec 0 (a - b)); [|lia]. nia.
    + destruct (Z.eq_dec (a - b) 0) as [E0|E0].
      * replace (a - b - 1) with (-1) by lia. unfold denS, numS.
        change (0 <=? -1) with false. cbv iota. change (2 ^ (- -1)) with 2.
        rewrite E0 in *. change (2 ^ 0) with 1 in *. nia.
      * assert (E1 : 2 ^ (a - b) = 2 * 2 ^ (a - b - 1)) by (rewrite <- Z.pow_succ_r by lia; f_equal; lia).
        pose proof (p2_pos (a - b - 1)).
        unfold denS, numS. destruct (Z.leb_spec 0 (a - b - 1)); [|lia]. nia.
  - assert (Eb : 2 ^ b = 2 ^ a * 2 ^ (- (a - b))) by (rewrite <- p2_split by lia; f_equal; lia).
    pose proof (p2_pos (- (a - b))) as Pk.
    destruct (Z.leb_spec d (n * 2 ^ (- (a - b)))) as [Ht|Ht].
    + unfold denS, numS. destruct (Z.leb_spec 0 (a - b)); [lia|]. nia.
    + assert (E1 : 2 ^ (- (a - b - 1)) = 2 * 2 ^ (- (a - b))) by (rewrite <- Z.pow_succ_r by lia; f_equal; lia).
      unfold denS, numS. destruct (Z.leb_spec 0 (a - b - 1)); [lia|]. nia.
Qed.

(** changing the scale by 2^t *)
Lemma cross_shift n d sh t : 0 <= t -> numS n (sh + t) * denS d sh * 2 ^ t = numS n sh * denS d (sh + t).
Proof.
  intros Ht. unfold numS, denS. destruct (Z.leb_spec 0 sh), (Z.leb_spec 0 (sh + t)); try lia.
  - rewrite p2_split by lia. ring.
  - assert (E : 2 ^ t = 2 ^ (- sh) * 2 ^ (sh + t)) by (rewrite <- p2_split by lia; f_equal; lia). rewrite E. ring.
  - assert (E : 2 ^ (- sh) = 2 ^ (- (sh + t)) * 2 ^ t) by (rewrite <- p2_split by lia; f_equal; lia). rewrite E. ring.
Qed.

(** the exponent is determined by the value: if N/D = m * 2^sh and 2^e <= N/D < 2^(e+1) then 2^(e-sh) <= m < 2^(e-sh+1) *)
Lemma log_unique N D sh m e : 0 < N -> 0 < D -> 0 < m -> numS N sh = m * denS D sh ->
  denS D e <= numS N e < 2 * denS D e -> sh <= e /\ 2 ^ (e - sh) <= m < 2 * 2 ^ (e - sh).
Proof.
  intros HN HD Hm Hv He.
  pose proof (denS_pos D sh HD) as PB. pose proof (denS_pos D e HD) as PB'. pose proof (numS_pos N e HN) as PA'.
  destruct (Z_le_gt_dec sh e) as [L|G].
  - split; [exact L|]. pose proof (cross_shift N D sh (e - sh) ltac:(lia)) as C.
    replace (sh + (e - sh)) with e in C by lia. rewrite Hv in C.
    pose proof (p2_pos (e - sh) ltac:(lia)) as PP.
    set (A' := numS N e) in *. set (B' := denS D e) in *. set (B := denS D sh) in *. set (P := 2 ^ (e - sh)) in *.
    assert (C' : A' * P = m * B') by nia.
    assert (B' * P <= A' * P) by nia. assert (A' * P < 2 * B' * P) by nia.
    split; [apply (Z.mul_le_mono_pos_r _ _ B'); lia | apply (Z.mul_lt_mono_pos_r B'); lia].
  - exfalso. pose proof (cross_shift N D e (sh - e) ltac:(lia)) as C.
    replace (e + (sh - e)) with sh in C by lia. rewrite Hv in C.
    assert (PP : 2 <= 2 ^ (sh - e)) by (change 2 with (2 ^ 1) at 1; apply Z.pow_le_mono_r; lia).
    set (A' := numS N e) in *. set (B' := denS D e) in *. set (B := denS D sh) in *. set (P := 2 ^ (sh - e)) in *.
    assert (C' : m * B' * P = A') by nia.
    assert (B' * 2 <= B' * P) by (apply Z.mul_le_mono_nonneg_l; lia).
    assert (1 * (B' * P) <= m * (B' * P)) by (apply Z.mul_le_mono_nonneg_r; nia). lia.
Qed.

Lemma p2_sandwich u v m : 0 <= u -> 0 <= v -> 2 ^ u <= m < 2 * 2 ^ u -> 2 ^ v <= m < 2 * 2 ^ v -> u = v.
Proof.
  intros Hu Hv H1 H2. rewrite <- !Z.pow_succ_r in * by assumption.
  destruct (Z.lt_trichotomy u v) as [L|[E|G]]; [exfalso| exact E | exfalso].
  - pose proof (Z.pow_le_mono_r 2 (Z.succ u) v ltac:(lia) ltac:(lia)). lia.
  - pose proof (Z.pow_le_mono_r 2 (Z.succ v) u ltac:(lia) ltac:(lia)). lia.
Qed.

(** the rounding step *)
Lemma rne_exact M den : 0 < den -> rne (M * den) den = M.
Proof.
  intros H. unfold rne. rewrite Z_div_mult by lia. rewrite Z_mod_mult.
  destruct (Z.ltb_spec (2 * 0) den); [reflexivity | lia].
Qed.

Lemma rne_range lo hi A B : 0 < B -> lo * B <= A < hi * B -> lo <= rne A B <= hi.
Proof.
  intros HB [H1 H2]. unfold rne.
  assert (lo <= A / B) by (apply Z.div_le_lower_bound; lia).
  assert (A / B < hi) by (apply Z.div_lt_upper_bound; lia).
  destruct (2 * (A mod B) <? B); [lia|]. destruct (B <? 2 * (A mod B)); [lia|]. destruct (Z.even (A / B)); lia.
Qed.

(** (b) the image: m * 2^sh with 0 <= m <= 2^24, sh >= -149, and m < 2^23 only at the bottom exponent *)
Lemma core_val n d : 0 < n -> 0 < d ->
  exists m sh, core n d = mk m sh /\ 0 <= m <= 2 ^ 24 /\ -149 <= sh /\ (m < 2 ^ 23 -> sh = -149).
Proof.
  intros Hn Hd. unfold core. pose proof (e0_spec n d Hn Hd) as He. set (e0 := e0_of n d) in *.
  set (sh := Z.max e0 (-126) - 23).
  exists (rne (numS n sh) (denS d sh)), sh. split; [reflexivity|].
  pose proof (denS_pos d sh Hd) as PB.
  destruct (Z_le_gt_dec (-126) e0) as [L|G].
  - assert (Esh : sh + 23 = e0) by (unfold sh; lia).
    pose proof (cross_shift n d sh 23 ltac:(lia)) as C. rewrite Esh in C.
    pose proof (denS_pos d e0 Hd) as PB'.
    change (2 ^ 23) with 8388608 in *. change (2 ^ 24) with 16777216.
    assert (R : 8388608 <= rne (numS n sh) (denS d sh) <= 16777216).
    { apply rne_range; [exact PB|].
      set (A' := numS n e0) in *. set (B' := denS d e0) in *. set (B := denS d sh) in *. set (A := numS n sh) in *. nia. }
    split; [lia|]. split; [lia|]. lia.
  - assert (Esh : sh = -149) by (unfold sh; lia). rewrite Esh in *.
    assert (R : 0 <= rne (numS n (-149)) (denS d (-149)) <= 2 ^ 23).
    { apply rne_range; [exact PB|]. pose proof (numS_pos n (-149) Hn).
      split; [lia|]. unfold numS, denS in *. change (0 <=? -149) with false in *. cbv iota in *.
      destruct (Z.leb_spec 0 e0); [lia|].
      assert (E : 2 ^ (- e0) = 2 ^ 127 * 2 ^ (- e0 - 127)) by (rewrite <- p2_split by lia; f_equal; lia).
      pose proof (p2_pos (- e0 - 127) ltac:(lia)).
      change (- -149) with (127 + 22). rewrite (p2_split 127 22) by lia.
      pose proof (p2_pos 127 ltac:(lia)). change (2 ^ 22) with 4194304. change (2 ^ 23) with 8388608.
      set (X := 2 ^ 127) in *. set (Y := 2 ^ (- e0 - 127)) in *. nia. }
    change (2 ^ 24) with 16777216. change (2 ^ 23) with 8388608 in *. split; [lia|]. split; [lia|]. reflexivity.
Qed.

(** numerator / denominator of the reduced dyadic *)
Lemma mk_repr m sh : 0 < m -> let x := mk m sh in
  0 < Qnum x /\ numS (Qnum x) sh = m * denS (Zpos (Qden x)) sh.
Proof.
  intros Hm. unfold mk, numS, denS. destruct (Z.leb_spec 0 sh) as [H|H]; cbn [inject_Z Qnum Qden].
  - pose proof (p2_pos sh H). split; [nia | ring].
  - pose proof (p2_pos (- sh) ltac:(lia)) as P.
    pose proof (Qred_correct (m # Z.to_pos (2 ^ (- sh)))) as E. unfold Qeq in E. cbn [Qnum Qden] in E.
    rewrite Z2Pos.id in E by exact P. split; [|exact E].
    set (N := Qnum (Qred (m # Z.to_pos (2 ^ (- sh))))) in *.
    pose proof (Pos2Z.is_pos (Qden (Qred (m # Z.to_pos (2 ^ (- sh)))))). nia.
Qed.

Lemma Qred_inject z : Qred (inject_Z z) = inject_Z z.
Proof.
  unfold Qred, inject_Z. pose proof (Z.ggcd_gcd z 1) as G. pose proof (Z.ggcd_correct_divisors z 1) as C.
  destruct (Z.ggcd z 1) as (g, (a, b)). cbn [fst snd] in *. rewrite Z.gcd_1_r in G. subst g. destruct C as [C1 C2].
  rewrite Z.mul_1_l in C1, C2. subst z b. reflexivity.
Qed.

(** 2m at one exponent is m at the next *)
Lemma mk_double m sh : mk (2 * m) sh = mk m (sh + 1).
Proof.
  unfold mk. destruct (Z.leb_spec 0 sh) as [H|H]; destruct (Z.leb_spec 0 (sh + 1)) as [H'|H']; try lia.
  - f_equal. rewrite p2_split by lia. change (2 ^ 1) with 2. ring.
  - assert (sh = -1) by lia. subst sh. change (2 ^ (-1 + 1)) with 1. change (Z.to_pos (2 ^ (- -1))) with 2%positive.
    rewrite <- Qred_inject. apply Qred_complete. unfold Qeq, inject_Z. cbn [Qnum Qden]. lia.
  - apply Qred_complete. unfold Qeq. cbn [Qnum Qden].
    pose proof (p2_pos (- (sh + 1)) ltac:(lia)). pose proof (p2_pos (- sh) ltac:(lia)).
    rewrite !Z2Pos.id by assumption.
    assert (E : 2 ^ (- sh) = 2 * 2 ^ (- (sh + 1))) by (rewrite <- Z.pow_succ_r by lia; f_equal; lia). rewrite E. ring.
Qed.

(** (c) on a value of the image the division is exact and the value is reproduced *)
Lemma core_fix m sh : 0 < m <= 2 ^ 24 -> -149 <= sh -> (m < 2 ^ 23 -> sh = -149) ->
  let x := mk m sh in 0 < Qnum x /\ core (Qnum x) (Zpos (Qden x)) = x.
Proof.
  intros [Hm Hm'] Hsh Hsub x. destruct (mk_repr m sh Hm) as [PN Hv]. fold x in PN, Hv. split; [exact PN|].
  set (N := Qnum x) in *. set (D := Zpos (Qden x)) in *. assert (PD : 0 < D) by (unfold D; lia).
  pose proof (e0_spec N D PN PD) as He. unfold core. set (e0 := e0_of N D) in *.
  destruct (log_unique N D sh m e0 PN PD Hm Hv He) as [Le Hu].
  destruct (Z.eq_dec m (2 ^ 24)) as [E24|N24]; [|destruct (Z_lt_ge_dec m (2 ^ 23)) as [Lo|Hi]].
  - (* m = 2^24 renormalises *)
    assert (Eu : e0 - sh = 24) by (apply (p2_sandwich _ _ m); [lia | lia | exact Hu | rewrite E24; change (2 ^ 24) with 16777216; lia]).
    replace (Z.max e0 (-126) - 23) with (sh + 1) by lia.
    pose proof (cross_shift N D sh 1 ltac:(lia)) as C. rewrite Hv in C. change (2 ^ 1) with 2 in C.
    pose proof (denS_pos D sh PD) as PB. pose proof (denS_pos D (sh + 1) PD) as PB'.
    assert (EN : numS N (sh + 1) = 2 ^ 23 * denS D (sh + 1)).
    { rewrite E24 in C. change (2 ^ 24) with (2 * 2 ^ 23) in C.
      set (A' := numS N (sh + 1)) in *. set (B' := denS D (sh + 1)) in *. set (B := denS D sh) in *. set (c := 2 ^ 23) in *. nia. }
    rewrite EN, rne_exact by exact PB'. unfold x. rewrite E24. change (2 ^ 24) with (2 * 2 ^ 23). symmetry. apply mk_double.
  - (* subnormal *)
    assert (Es : sh = -149) by auto.
    assert (Eu : e0 - sh < 23).
    { destruct (Z_lt_ge_dec (e0 - sh) 23) as [?|G]; [assumption|exfalso].
      pose proof (Z.pow_le_mono_r 2 23 (e0 - sh) ltac:(lia) ltac:(lia)). lia. }
    replace (Z.max e0 (-126) - 23) with sh by lia.
    rewrite Hv, rne_exact by (apply denS_pos; exact PD). reflexivity.
  - (* normal *)
    assert (Eu : e0 - sh = 23) by (apply (p2_sandwich _ _ m); [lia | lia | exact Hu | change (2 * 2 ^ 23) with (2 ^ 24); lia]).
    replace (Z.max e0 (-126) - 23) with sh by lia.
    rewrite Hv, rne_exact by (apply denS_pos; exact PD). reflexivity.
Qed.

(** rounding to binary32 twice is rounding once — for EVERY rational *)
Theorem r32_idempotent q : r32 (r32 q) = r32 q.
Proof.
  rewrite (r32_unfold q). unfold r32'.
  destruct (Qnum q) as [|p|p] eqn:En; [reflexivity| |].
  - destruct (core_val (Z.abs (Z.pos p)) (Zpos (Qden q)) ltac:(lia) ltac:(lia)) as (m & sh & Ec & Hm & Hsh & Hsub).
    change (Z.pos p <? 0) with false. cbv iota zeta. rewrite Ec.
    destruct (Z.eq_dec m 0) as [Z0|NZ].
    + subst m. rewrite Hsub by (change (2 ^ 23) with 8388608; lia). reflexivity.
    + destruct (core_fix m sh ltac:(lia) Hsh Hsub) as [PN Ef]. rewrite r32_unfold. unfold r32'.
      destruct (Qnum (mk m sh)) as [|p'|p'] eqn:En'; [lia| |lia].
      change (Z.pos p' <? 0) with false. cbv iota zeta. change (Z.abs (Z.pos p')) with (Z.pos p'). exact Ef.
  - destruct (core_val (Z.abs (Z.neg p)) (Zpos (Qden q)) ltac:(lia) ltac:(lia)) as (m & sh & Ec & Hm & Hsh & Hsub).
    change (Z.neg p <? 0) with true. cbv iota zeta. rewrite Ec.
    destruct (Z.eq_dec m 0) as [Z0|NZ].
    + subst m. rewrite Hsub by (change (2 ^ 23) with 8388608; lia). reflexivity.
    + destruct (core_fix m sh ltac:(lia) Hsh Hsub) as [PN Ef]. rewrite r32_unfold. unfold r32'.
      cbn [Qopp Qnum Qden].
      destruct (Qnum (mk m sh)) as [|p'|p'] eqn:En'; [lia| |lia].
      change (- Z.pos p') with (Z.neg p'). cbv iota.
      change (Z.neg p' <? 0) with true. cbv iota zeta. change (Z.abs (Z.neg p')) with (Z.pos p'). rewrite Ef. reflexivity.
Qed.

(** hence the only hypothesis [idempotent_after_one] makes on the cast holds of EVERY model for the executable cast *)
Lemma cast_idem_on_r32 m : cast_idem_on r32 m.
Proof. intros n t q _ _. apply r32_idempotent. Qed.

(** Non-vacuity / sanity of the pieces, by computation: a value that is not a float32 (1/3), a half-way case whose rounding
    renormalises (2^24 - 1/2 -> 2^24, the [m = 2^24] branch of [core_fix]), a subnormal (3 * 2^-150 is half-way between
    2^-149 and 2^-148: ties to even), a value that underflows to zero, a negative value. *)
Example r32_idempotent_example :
  r32 (1 # 3) = (11184811 # 33554432)%Q /\ r32 (r32 (1 # 3)) = r32 (1 # 3) /\
  r32 (33554431 # 2) = inject_Z (2 ^ 24) /\ r32 (inject_Z (2 ^ 24)) = inject_Z (2 ^ 24) /\
  r32 (3 # Z.to_pos (2 ^ 150)) = (1 # Z.to_pos (2 ^ 148))%Q /\ r32 (1 # Z.to_pos (2 ^ 148)) = (1 # Z.to_pos (2 ^ 148))%Q /\
  r32 (1 # Z.to_pos (2 ^ 150)) = 0%Q /\ r32 (- (16777217 # 1)) = (- (16777216 # 1))%Q.
Proof. vm_compute. repeat split. Qed.
