(** Executable round-to-nearest-even of a rational to a binary floating-point format with [p] significant bits
    (normal range only: outside it the result is [None], never a guess).  Used to *run* the ingestion model on
    the very numbers the implementation stores (float64 ages, float32 tensors) and in the [_refuted] witnesses;
    no theorem depends on properties of this function other than by computation. *)
From Coq Require Import ZArith QArith Qround Qabs Bool.
From Leaspy Require Import Base.QAux Io.Ingest.
Open Scope Z_scope.

Definition pow2 (e : Z) : Q := if 0 <=? e then inject_Z (2 ^ e) else / inject_Z (2 ^ (- e)).

(** floor(log2 a) for a > 0 *)
Definition ilog2 (a : Q) : Z :=
  let e0 := Z.log2 (Qnum a) - Z.log2 (Zpos (Qden a)) in
  if Qle_bool (pow2 e0) a then e0 else e0 - 1.

Definition round_bin (p emin emax : Z) (q : Q) : option Q :=
  if Qeq_bool q 0 then Some 0%Q else
  let a := Qabs q in
  let e := ilog2 a in
  if (e <? emin) || (emax <? e) then None else
  let sh := e - (p - 1) in
  let m := round_half_even (a / pow2 sh) in          (* 2^(p-1) <= m <= 2^p *)
  let r := (inject_Z m * pow2 sh)%Q in
  if Qle_bool (pow2 (emax + 1)) r then None else
  Some (Qred (if Qle_bool 0 q then r else - r)%Q).

Definition f64 (q : Q) : option Q := round_bin 53 (-1022) 1023 q.
Definition f32 (q : Q) : option Q := round_bin 24 (-126) 127 q.

(** float64 then float32, as `torch.tensor(np.array(float64), dtype=float32)` does; outside the normal
    range the value is left as it is and the correspondence then fails on it (never generated). *)
Definition store32 (q : Q) : Q :=
  match f64 q with
  | Some x => match f32 x with Some y => y | None => q end
  | None => q
  end.
Definition store64 (q : Q) : Q := match f64 q with Some x => x | None => q end.

Example f32_third : f32 (1 # 3) = Some (11184811 # 33554432)%Q. Proof. vm_compute. reflexivity. Qed.
Example f32_70 : store32 (70000001 # 1000000) = 70%Q /\ store32 (70000003 # 1000000) = 70%Q /\ store32 (70000004 # 1000000) = (9175041 # 131072)%Q. Proof. vm_compute. repeat split. Qed. 
Example f64_tenth : f64 (1 # 10) = Some (3602879701896397 # 36028797018963968)%Q. Proof. vm_compute. reflexivity. Qed.

(** the constants of the implementation at the time of writing (the harness reads them again on every run) *)
Definition P32 : params := {| scale := 1000000; tol := (1 # 1000)%Q; store := store32 |}.
