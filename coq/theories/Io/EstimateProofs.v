(** C09 — proofs about the list model of [BaseModel.estimate]. *)
From Coq Require Import List Bool Permutation Arith Lia.
From Leaspy Require Import Io.Estimate.
Import ListNotations.

(** generic list facts *)
Section ListFacts.
  Context {A B C : Type}.

  Lemma map_flat_map (g : B -> C) (h : A -> list B) l :
    map g (flat_map h l) = flat_map (fun x => map g (h x)) l.
  Proof. induction l as [|x l IH]; simpl; [reflexivity|]. now rewrite map_app, IH. Qed.

  Lemma flat_map_map (g : A -> B) (h : B -> list C) l :
    flat_map h (map g l) = flat_map (fun x => h (g x)) l.
  Proof. induction l as [|x l IH]; simpl; [reflexivity|]. now rewrite IH. Qed.

  Lemma filter_flat_map (p : B -> bool) (h : A -> list B) l :
    filter p (flat_map h l) = flat_map (fun x => filter p (h x)) l.
  Proof. induction l as [|x l IH]; simpl; [reflexivity|]. now rewrite filter_app, IH. Qed.

  Lemma filter_map_comm (p : B -> bool) (g : A -> B) l :
    filter p (map g l) = map g (filter (fun x => p (g x)) l).
  Proof.
    induction l as [|x l IH]; simpl; [reflexivity|].
    destruct (p (g x)); simpl; now rewrite IH.
  Qed.

  Lemma flat_map_ext_in (h1 h2 : A -> list B) l :
    (forall a, In a l -> h1 a = h2 a) -> flat_map h1 l = flat_map h2 l.
  Proof.
    induction l as [|x l IH]; simpl; intros H; [reflexivity|].
    rewrite (H x) by now left. rewrite IH; [reflexivity|]. intros a Ha. apply H. now right.
  Qed.

  Lemma flat_map_nil (h : A -> list B) l : (forall a, In a l -> h a = []) -> flat_map h l = [].
  Proof.
    induction l as [|x l IH]; simpl; intros H; [reflexivity|].
    rewrite (H x) by now left. apply IH. intros a Ha. apply H. now right.
  Qed.

  Lemma flat_map_single (h : A -> list B) l a :
    NoDup l -> In a l -> (forall x, In x l -> x <> a -> h x = []) -> flat_map h l = h a.
  Proof.
    induction 1 as [|x l Hx Hnd IH]; simpl; intros Hin Hnil; [contradiction|].
    destruct Hin as [->|Hin].
    - rewrite (flat_map_nil h l); [apply app_nil_r|].
      intros y Hy. apply Hnil; [now right|]. intros ->. contradiction.
    - rewrite (Hnil x); [|now left|intros ->; contradiction]. simpl.
      apply IH; [assumption|]. intros y Hy. apply Hnil. now right.
  Qed.

  Lemma flat_map_singleton (g : A -> B) l : flat_map (fun x => [g x]) l = map g l.
  Proof. induction l as [|x l IH]; simpl; [reflexivity|]. now rewrite IH. Qed.

  Lemma map_repeat' (g : A -> B) x n : map g (repeat x n) = repeat (g x) n.
  Proof. induction n as [|n IH]; simpl; [reflexivity|]. now rewrite IH. Qed.
End ListFacts.

Section Proofs.
  Variables ID T V : Type.
  Variable id_eqb : ID -> ID -> bool.
  Variable id_leb : ID -> ID -> bool.
  Variable t_eqb : T -> T -> bool.
  Hypothesis id_eqb_spec : forall a b, id_eqb a b = true <-> a = b.
  Hypothesis t_eqb_spec : forall a b, t_eqb a b = true <-> a = b.

  (** the value of individual [i] at age [t] (given by the closed-form theorems); the trajectory of a list of ages is
      computed age by age *)
  Variable f : ID -> T -> V.
  Definition pointwise (i : ID) (ts : list T) : list V := map (f i) ts.

  Notation estimate := (estimate ID T V id_eqb id_leb t_eqb pointwise).
  Notation group_keys := (group_keys ID T id_eqb id_leb).
  Notation ages_of := (ages_of ID T id_eqb).
  Notation count := (count ID T id_eqb t_eqb).

  Lemma id_eqb_refl a : id_eqb a a = true.
  Proof. now apply id_eqb_spec. Qed.

  Lemma t_eqb_refl a : t_eqb a a = true.
  Proof. now apply t_eqb_spec. Qed.

  Lemma id_eqb_sym a b : id_eqb a b = id_eqb b a.
  Proof.
    destruct (id_eqb a b) eqn:E1, (id_eqb b a) eqn:E2; try reflexivity.
    - apply id_eqb_spec in E1. subst. now rewrite id_eqb_refl in E2.
    - apply id_eqb_spec in E2. subst. now rewrite id_eqb_refl in E1.
  Qed.

  Lemma id_eqb_false a b : a <> b -> id_eqb a b = false.
  Proof. intros H. destruct (id_eqb a b) eqn:E; [|reflexivity]. apply id_eqb_spec in E. contradiction. Qed.

  (** ---- sorted distinct keys *)
  Lemma existsb_eqb_In x l : existsb (id_eqb x) l = true <-> In x l.
  Proof.
    rewrite existsb_exists. split.
    - intros [y [Hy E]]. apply id_eqb_spec in E. now subst.
    - intros H. exists x. split; [assumption | apply id_eqb_refl].
  Qed.

  Lemma In_dedup y l : In y (dedup ID id_eqb l) <-> In y l.
  Proof.
    induction l as [|x l IH]; simpl; [tauto|].
    destruct (existsb (id_eqb x) l) eqn:E.
    - rewrite IH. split; [now right|]. intros [->|H]; [|assumption]. now apply existsb_eqb_In.
    - simpl. rewrite IH. tauto.
  Qed.

  Lemma NoDup_dedup l : NoDup (dedup ID id_eqb l).
  Proof.
    induction l as [|x l IH]; simpl; [constructor|].
    destruct (existsb (id_eqb x) l) eqn:E; [assumption|].
    constructor; [|assumption]. rewrite In_dedup. intros H.
    apply existsb_eqb_In in H. congruence.
  Qed.

  Lemma ins_perm i l : Permutation (ins ID id_leb i l) (i :: l).
  Proof.
    induction l as [|j l IH]; simpl; [reflexivity|].
    destruct (id_leb i j); [reflexivity|].
    rewrite IH. apply perm_swap.
  Qed.

  Lemma isort_perm l : Permutation (isort ID id_leb l) l.
  Proof.
    induction l as [|x l IH]; simpl; [reflexivity|].
    unfold isort in *. simpl. rewrite ins_perm. now constructor.
  Qed.

  Lemma NoDup_group_keys ix : NoDup (group_keys ix).
  Proof.
    unfold Estimate.group_keys. eapply Permutation_NoDup; [symmetry; apply isort_perm | apply NoDup_dedup].
  Qed.

  Lemma In_group_keys i ix : In i (group_keys ix) <-> In i (map fst ix).
  Proof.
    unfold Estimate.group_keys. rewrite <- (In_dedup i (map fst ix)). split; apply Permutation_in.
    - apply isort_perm.
    - symmetry. apply isort_perm.
  Qed.

  (** ---- frames *)
  Lemma zip_rows_pointwise i ts :
    zip_rows ID T V i ts (pointwise i ts) = Some (map (fun t => (i, t, f i t)) ts).
  Proof. unfold pointwise. induction ts as [|t ts IH]; simpl; [reflexivity|]. now rewrite IH. Qed.

  Lemma frame_pointwise req :
    frame ID T V pointwise req = Some (flat_map (fun r => map (fun t => (fst r, t, f (fst r) t)) (snd r)) req).
  Proof.
    induction req as [|r req IH]; simpl; [reflexivity|].
    now rewrite zip_rows_pointwise, IH.
  Qed.

  (** ---- dict requests *)
  Lemma estimate_dict req to_dataframe : to_dataframe = None \/ to_dataframe = Some false ->
    estimate (InDict req) to_dataframe = OutDict (map (fun r => (fst r, map (f (fst r)) (snd r))) req).
  Proof. intros [-> | ->]; reflexivity. Qed.

  Lemma estimate_dict_frame req :
    estimate (InDict req) (Some true) =
    OutFrame (flat_map (fun r => map (fun t => (fst r, t, Some (f (fst r) t))) (snd r)) req).
  Proof.
    unfold Estimate.estimate. simpl. rewrite frame_pointwise. f_equal.
    rewrite map_flat_map. apply flat_map_ext_in. intros r _. now rewrite map_map.
  Qed.

  (** ---- MultiIndex requests *)
  Lemma ages_filter i0 t0 ix :
    filter (t_eqb t0) (ages_of i0 ix) = repeat t0 (count (i0, t0) ix).
  Proof.
    unfold Estimate.ages_of, Estimate.count. induction ix as [|[i t] ix IH]; simpl; [reflexivity|].
    rewrite (id_eqb_sym i0 i).
    destruct (id_eqb i i0) eqn:Ei; simpl.
    - destruct (t_eqb t0 t) eqn:Et; simpl.
      + apply t_eqb_spec in Et. subst t. now rewrite IH.
      + assumption.
    - assumption.
  Qed.

  Lemma count_pos k ix : In k ix -> exists n, count k ix = S n.
  Proof.
    intros H. unfold Estimate.count.
    assert (Hin : In k (filter (fun r => id_eqb (fst k) (fst r) && t_eqb (snd k) (snd r)) ix)).
    { apply filter_In. split; [assumption|]. now rewrite id_eqb_refl, t_eqb_refl. }
    destruct (filter _ ix); [contradiction|]. simpl. eauto.
  Qed.

  Lemma count_NoDup k ix : NoDup ix -> In k ix -> count k ix = 1.
  Proof.
    unfold Estimate.count. induction 1 as [|a ix Ha Hnd IH]; simpl; intros Hin; [contradiction|].
    destruct (id_eqb (fst k) (fst a) && t_eqb (snd k) (snd a)) eqn:E.
    - apply andb_true_iff in E. destruct E as [E1 E2].
      apply id_eqb_spec in E1. apply t_eqb_spec in E2.
      assert (k = a) by (destruct k, a; simpl in *; congruence). subst a. simpl. f_equal.
      assert (Hnil : filter (fun r => id_eqb (fst k) (fst r) && t_eqb (snd k) (snd r)) ix = []).
      { clear IH Hnd Hin. induction ix as [|b ix IHix]; simpl; [reflexivity|].
        destruct (id_eqb (fst k) (fst b) && t_eqb (snd k) (snd b)) eqn:Eb.
        - apply andb_true_iff in Eb. destruct Eb as [B1 B2].
          apply id_eqb_spec in B1. apply t_eqb_spec in B2.
          exfalso. apply Ha. left. destruct k, b; simpl in *; congruence.
        - apply IHix. intros H. apply Ha. now right. }
      now rewrite Hnil.
    - destruct Hin as [->|Hin]; [now rewrite id_eqb_refl, t_eqb_refl in E|]. now apply IH.
  Qed.

  Lemma frame_group ix :
    frame ID T V pointwise (group ID T id_eqb id_leb ix) =
    Some (flat_map (fun i => map (fun t => (i, t, f i t)) (ages_of i ix)) (group_keys ix)).
  Proof. rewrite frame_pointwise. unfold Estimate.group. now rewrite flat_map_map. Qed.

  Lemma matches_of_key i0 t0 ix : In (i0, t0) ix ->
    filter (key_eqb ID T V id_eqb t_eqb (i0, t0))
           (flat_map (fun i => map (fun t => (i, t, f i t)) (ages_of i ix)) (group_keys ix))
    = repeat (i0, t0, f i0 t0) (count (i0, t0) ix).
  Proof.
    intros Hin. rewrite filter_flat_map.
    rewrite (flat_map_single _ _ i0).
    - rewrite filter_map_comm. unfold key_eqb. simpl. rewrite id_eqb_refl. simpl.
      rewrite ages_filter. now rewrite map_repeat'.
    - apply NoDup_group_keys.
    - apply In_group_keys. apply in_map_iff. now exists (i0, t0).
    - intros i _ Hne. rewrite filter_map_comm. unfold key_eqb. simpl.
      rewrite (id_eqb_false i0 i) by congruence. simpl.
      clear. induction (ages_of i ix); simpl; auto.
  Qed.

  (** every requested row comes back once per occurrence of its (ID, TIME) pair in the request *)
  Lemma estimate_index_general ix to_dataframe : to_dataframe = None \/ to_dataframe = Some true ->
    estimate (InIndex ix) to_dataframe =
    OutFrame (flat_map (fun k => repeat (fst k, snd k, Some (f (fst k) (snd k))) (count k ix)) ix).
  Proof.
    intros Hdf. assert (Hto : to_df ID T (InIndex ix) to_dataframe = true) by (destruct Hdf as [-> | ->]; reflexivity).
    unfold Estimate.estimate. rewrite Hto. simpl. rewrite frame_group. f_equal.
    unfold join. apply flat_map_ext_in. intros [i0 t0] Hin.
    rewrite (matches_of_key i0 t0 ix Hin).
    destruct (count_pos _ _ Hin) as [n ->]. simpl. f_equal. now rewrite map_repeat'.
  Qed.

  Lemma estimate_index ix to_dataframe : to_dataframe = None \/ to_dataframe = Some true ->
    NoDup ix ->
    estimate (InIndex ix) to_dataframe = OutFrame (map (fun k => (fst k, snd k, Some (f (fst k) (snd k)))) ix).
  Proof.
    intros Hdf Hnd. rewrite estimate_index_general by assumption. f_equal.
    rewrite <- flat_map_singleton. apply flat_map_ext_in. intros k Hin.
    now rewrite (count_NoDup k ix Hnd Hin).
  Qed.

  (** number of returned rows in general: sum over requested rows of the multiplicity of their pair *)
  Lemma estimate_index_length ix rows :
    estimate (InIndex ix) None = OutFrame rows ->
    length rows = list_sum (map (fun k => count k ix) ix).
  Proof.
    rewrite estimate_index_general by now left. intros H. injection H as <-.
    assert (G : forall l, length (flat_map (fun k => repeat (fst k, snd k, Some (f (fst k) (snd k))) (count k ix)) l)
                          = list_sum (map (fun k => count k ix) l)).
    { induction l as [|k l IH]; simpl; [reflexivity|]. now rewrite app_length, repeat_length, IH. }
    apply G.
  Qed.

  (** MultiIndex request, dict output: one entry per requested individual (sorted, distinct), ages in request order *)
  Lemma estimate_index_dict ix :
    estimate (InIndex ix) (Some false) = OutDict (map (fun i => (i, map (f i) (ages_of i ix))) (group_keys ix))
    /\ NoDup (group_keys ix)
    /\ (forall i, In i (group_keys ix) <-> In i (map fst ix)).
  Proof.
    split; [|split; [apply NoDup_group_keys | intros i; apply In_group_keys]].
    unfold Estimate.estimate. simpl. unfold estimations, Estimate.group. now rewrite map_map.
  Qed.
End Proofs.
