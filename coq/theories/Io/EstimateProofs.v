(** C09 — proofs about the list model of [BaseModel.estimate]. *)
From Coq Require Import List Bool Permutation Arith Lia.
From Leaspy Require Import Io.Estimate.
Import ListNotations.

(** generic list facts *)
Section ListFacts.
  Context {A B C : Type}.

  Lemma map_flat_map (g : B -> C) (h : A -> list B) l :
    map g (flat_map h l) = flat_map (fun x => map g (h x)) l.
  Proof. induction l as [|x l IH]; simpl; [reflexivity|]. now rewrite map_app, IH. Qed.

  Lemma flat_map_map (g : A -> B) (h : B -> list C) l :
    flat_map h (map g l) = flat_map (fun x => h (g x)) l.
  Proof. induction l as [|x l IH]; simpl; [reflexivity|]. now rewrite IH. Qed.

  Lemma filter_flat_map (p : B -> bool) (h : A -> list B) l :
    filter p (flat_map h l) = flat_map (fun x => filter p (h x)) l.
  Proof. induction l as [|x l IH]; simpl; [reflexivity|]. now rewrite filter_app, IH. Qed.

  Lemma filter_map_comm (p : B -> bool) (g : A -> B) l :
    filter p (map g l) = map g (filter (fun x => p (g x)) l).
  Proof.
    induction l as [|x l IH]; simpl; [reflexivity|].
    destruct (p (g x)); simpl; now rewrite IH.
  Qed.

  Lemma flat_map_ext_in (h1 h2 : A -> list B) l :
    (forall a, In a l -> h1 a = h2 a) -> flat_map h1 l = flat_map h2 l.
  Proof.
    induction l as [|x l IH]; simpl; intros H; [reflexivity|].
    rewrite (H x) by now left. rewrite IH; [reflexivity|]. intros a Ha. apply H. now right.
  Qed.

  Lemma flat_map_nil (h : A -> list B) l : (forall a, In a l -> h a = []) -> flat_map h l = [].
  Proof.
    induction l as [|x l IH]; simpl; intros H; [reflexivity|].
    rewrite (H x) by now left. apply IH. intros a Ha. apply H. now right.
  Qed.

  Lemma flat_map_single (h : A -> list B) l a :
    NoDup l -> In a l -> (forall x, In x l -> x <> a -> h x = []) -> flat_map h l = h a.
  Proof.
    induction 1 as [|x l Hx Hnd IH]; simpl; intros Hin Hnil; [contradiction|].
    destruct Hin as [->|Hin].
    - rewrite (flat_map_nil h l); [apply app_nil_r|].
      intros y Hy. apply Hnil; [now right|]. intros ->. contradiction.
    - rewrite (Hnil x); [|now left|intros ->; contradiction]. simpl.
      apply IH; [assumption|]. intros y Hy. apply Hnil. now right.
  Qed.

  Lemma flat_map_singleton (g : A -> B) l : flat_map (fun x => [g x]) l = map g l.
  Proof. induction l as [|x l IH]; simpl; [reflexivity|]. now rewrite IH. Qed.

  Lemma map_repeat' (g : A -> B) x n : map g (repeat x n) = repeat (g x) n.
  Proof. induction n as [|n IH]; simpl; [reflexivity|]. now rewrite IH. Qed.
End ListFacts.

Section Proofs.
  Variables ID T V : Type.
  Variable id_eqb : ID -> ID -> bool.
  Variable id_leb : ID -> ID -> bool.
  Variable t_eqb : T -> T -> bool.
  Hypothesis id_eqb_spec : forall a b, id_eqb a b = true <-> a = b.
  Hypothesis t_eqb_spec : forall a b, t_eqb a b = true <-> a = b.

  (** the value of individual [i] at age [t] (given by the closed-form theorems); the trajectory of a list of ages is
      computed age by age, a unique age being a list of one age ([compute_individual_trajectory] returns a tensor of
      shape (1, n_tpts, n_features) for "the age(s)" it is given) *)
  Variable f : ID -> T -> V.
  Definition pointwise (i : ID) (a : ages T) : list V := map (f i) (atleast_1d T a).

  Notation estimate := (estimate ID T V id_eqb id_leb t_eqb pointwise).
  Notation group_keys := (group_keys ID T id_eqb id_leb).
  Notation ages_of := (ages_of ID T id_eqb).
  Notation count := (count ID T id_eqb t_eqb).
  Notation pair_eqb := (pair_eqb ID T id_eqb t_eqb).
  Notation key_eqb := (key_eqb ID T V id_eqb t_eqb).
  Notation first_rows := (first_rows ID T V id_eqb t_eqb).

  Lemma id_eqb_refl a : id_eqb a a = true.
  Proof. now apply id_eqb_spec. Qed.

  Lemma t_eqb_refl a : t_eqb a a = true.
  Proof. now apply t_eqb_spec. Qed.

  Lemma id_eqb_sym a b : id_eqb a b = id_eqb b a.
  Proof.
    destruct (id_eqb a b) eqn:E1, (id_eqb b a) eqn:E2; try reflexivity.
    - apply id_eqb_spec in E1. subst. now rewrite id_eqb_refl in E2.
    - apply id_eqb_spec in E2. subst. now rewrite id_eqb_refl in E1.
  Qed.

  Lemma id_eqb_false a b : a <> b -> id_eqb a b = false.
  Proof. intros H. destruct (id_eqb a b) eqn:E; [|reflexivity]. apply id_eqb_spec in E. contradiction. Qed.

  Lemma pair_eqb_spec a b : pair_eqb a b = true <-> a = b.
  Proof.
    unfold Estimate.pair_eqb. rewrite andb_true_iff, id_eqb_spec, t_eqb_spec.
    destruct a, b; simpl. split; [intros [-> ->]; reflexivity | intros H; injection H; auto].
  Qed.

  Lemma pair_eqb_refl a : pair_eqb a a = true.
  Proof. now apply pair_eqb_spec. Qed.

  Lemma pair_eqb_false a b : a <> b -> pair_eqb a b = false.
  Proof. intros H. destruct (pair_eqb a b) eqn:E; [|reflexivity]. apply pair_eqb_spec in E. contradiction. Qed.

  Lemma existsb_pair_In k l : existsb (pair_eqb k) l = true <-> In k l.
  Proof.
    rewrite existsb_exists. split.
    - intros [y [Hy E]]. apply pair_eqb_spec in E. now subst.
    - intros H. exists k. split; [assumption | apply pair_eqb_refl].
  Qed.

  (** ---- sorted distinct keys *)
  Lemma existsb_eqb_In x l : existsb (id_eqb x) l = true <-> In x l.
  Proof.
    rewrite existsb_exists. split.
    - intros [y [Hy E]]. apply id_eqb_spec in E. now subst.
    - intros H. exists x. split; [assumption | apply id_eqb_refl].
  Qed.

  Lemma In_dedup y l : In y (dedup ID id_eqb l) <-> In y l.
  Proof.
    induction l as [|x l IH]; simpl; [tauto|].
    destruct (existsb (id_eqb x) l) eqn:E.
    - rewrite IH. split; [now right|]. intros [->|H]; [|assumption]. now apply existsb_eqb_In.
    - simpl. rewrite IH. tauto.
  Qed.

  Lemma NoDup_dedup l : NoDup (dedup ID id_eqb l).
  Proof.
    induction l as [|x l IH]; simpl; [constructor|].
    destruct (existsb (id_eqb x) l) eqn:E; [assumption|].
    constructor; [|assumption]. rewrite In_dedup. intros H.
    apply existsb_eqb_In in H. congruence.
  Qed.

  Lemma ins_perm i l : Permutation (ins ID id_leb i l) (i :: l).
  Proof.
    induction l as [|j l IH]; simpl; [reflexivity|].
    destruct (id_leb i j); [reflexivity|].
    rewrite IH. apply perm_swap.
  Qed.

  Lemma isort_perm l : Permutation (isort ID id_leb l) l.
  Proof.
    induction l as [|x l IH]; simpl; [reflexivity|].
    unfold isort in *. simpl. rewrite ins_perm. now constructor.
  Qed.

  Lemma NoDup_group_keys ix : NoDup (group_keys ix).
  Proof.
    unfold Estimate.group_keys. eapply Permutation_NoDup; [symmetry; apply isort_perm | apply NoDup_dedup].
  Qed.

  Lemma In_group_keys i ix : In i (group_keys ix) <-> In i (map fst ix).
  Proof.
    unfold Estimate.group_keys. rewrite <- (In_dedup i (map fst ix)). split; apply Permutation_in.
    - apply isort_perm.
    - symmetry. apply isort_perm.
  Qed.

  (** ---- frames *)
  Lemma zip_rows_map i ts :
    zip_rows ID T V i ts (map (f i) ts) = Some (map (fun t => (i, t, f i t)) ts).
  Proof. induction ts as [|t ts IH]; simpl; [reflexivity|]. now rewrite IH. Qed.

  Lemma frame_pointwise req :
    frame ID T V pointwise req =
    Some (flat_map (fun r => map (fun t => (fst r, t, f (fst r) t)) (atleast_1d T (snd r))) req).
  Proof.
    induction req as [|r req IH]; simpl; [reflexivity|].
    unfold pointwise at 1. now rewrite zip_rows_map, IH.
  Qed.

  (** ---- dict requests (each value a unique age or a list of ages) *)
  Lemma estimate_dict req to_dataframe : to_dataframe = None \/ to_dataframe = Some false ->
    estimate (InDict req) to_dataframe =
    OutDict (map (fun r => (fst r, map (f (fst r)) (atleast_1d T (snd r)))) req).
  Proof. intros [-> | ->]; reflexivity. Qed.

  Lemma estimate_dict_frame req :
    estimate (InDict req) (Some true) =
    OutFrame (flat_map (fun r => map (fun t => (fst r, t, Some (f (fst r) t))) (atleast_1d T (snd r))) req).
  Proof.
    unfold Estimate.estimate. simpl. rewrite frame_pointwise. f_equal.
    rewrite map_flat_map. apply flat_map_ext_in. intros r _. now rewrite map_map.
  Qed.

  (** a unique age behaves as the list of that one age, whatever the output form *)
  Lemma estimate_dict_scalar req1 i t req2 to_dataframe :
    estimate (InDict (req1 ++ (i, One t) :: req2)) to_dataframe =
    estimate (InDict (req1 ++ (i, Many [t]) :: req2)) to_dataframe.
  Proof.
    destruct to_dataframe as [[|]|].
    - now rewrite !estimate_dict_frame, !flat_map_app.
    - rewrite !estimate_dict by now right. now rewrite !map_app.
    - rewrite !estimate_dict by now left. now rewrite !map_app.
  Qed.

  Lemma estimate_dict_scalar_full req1 i t req2 to_dataframe :
    estimate (InDict (req1 ++ (i, One t) :: req2)) to_dataframe =
    estimate (InDict (req1 ++ (i, Many [t]) :: req2)) to_dataframe
    /\ estimate (InDict [(i, One t)]) (Some true) = OutFrame [(i, t, Some (f i t))]
    /\ estimate (InDict [(i, One t)]) None = OutDict [(i, [f i t])].
  Proof. split; [apply estimate_dict_scalar | split; reflexivity]. Qed.

  (** ---- MultiIndex requests *)
  Lemma ages_filter i0 t0 ix :
    filter (t_eqb t0) (ages_of i0 ix) = repeat t0 (count (i0, t0) ix).
  Proof.
    unfold Estimate.ages_of, Estimate.count, Estimate.pair_eqb.
    induction ix as [|[i t] ix IH]; simpl; [reflexivity|].
    rewrite (id_eqb_sym i0 i).
    destruct (id_eqb i i0) eqn:Ei; simpl.
    - destruct (t_eqb t0 t) eqn:Et; simpl.
      + apply t_eqb_spec in Et. subst t. now rewrite IH.
      + assumption.
    - assumption.
  Qed.

  Lemma count_pos k ix : In k ix -> exists n, count k ix = S n.
  Proof.
    intros H. unfold Estimate.count.
    assert (Hin : In k (filter (pair_eqb k) ix)).
    { apply filter_In. split; [assumption | apply pair_eqb_refl]. }
    destruct (filter _ ix); [contradiction|]. simpl. eauto.
  Qed.

  Lemma frame_group ix :
    frame ID T V pointwise (group ID T id_eqb id_leb ix) =
    Some (flat_map (fun i => map (fun t => (i, t, f i t)) (ages_of i ix)) (group_keys ix)).
  Proof. rewrite frame_pointwise. unfold Estimate.group. now rewrite flat_map_map. Qed.

  (** the concatenated frame holds the pair of a requested row as many times as the request does *)
  Lemma matches_of_key i0 t0 ix : In (i0, t0) ix ->
    filter (key_eqb (i0, t0))
           (flat_map (fun i => map (fun t => (i, t, f i t)) (ages_of i ix)) (group_keys ix))
    = repeat (i0, t0, f i0 t0) (count (i0, t0) ix).
  Proof.
    intros Hin. rewrite filter_flat_map.
    rewrite (flat_map_single _ _ i0).
    - rewrite filter_map_comm. unfold Estimate.key_eqb, Estimate.pair_eqb. simpl. rewrite id_eqb_refl. simpl.
      rewrite ages_filter. now rewrite map_repeat'.
    - apply NoDup_group_keys.
    - apply In_group_keys. apply in_map_iff. now exists (i0, t0).
    - intros i _ Hne. rewrite filter_map_comm. unfold Estimate.key_eqb, Estimate.pair_eqb. simpl.
      rewrite (id_eqb_false i0 i) by congruence. simpl.
      clear. induction (ages_of i ix); simpl; auto.
  Qed.

  (** [~index.duplicated()]: of the rows carrying a pair not seen before, exactly the first one is kept *)
  Lemma first_rows_filter k seen fr :
    filter (key_eqb k) (first_rows seen fr) =
    if existsb (pair_eqb k) seen then [] else firstn 1 (filter (key_eqb k) fr).
  Proof.
    revert seen. induction fr as [|r fr IH]; intros seen.
    - simpl. now destruct (existsb (pair_eqb k) seen).
    - cbn [Estimate.first_rows filter]. change (key_eqb k r) with (pair_eqb k (fst r)).
      destruct (existsb (pair_eqb (fst r)) seen) eqn:Er.
      + rewrite IH. destruct (existsb (pair_eqb k) seen) eqn:Ek; [reflexivity|].
        destruct (pair_eqb k (fst r)) eqn:E; [|reflexivity].
        apply pair_eqb_spec in E. subst k. congruence.
      + cbn [filter]. change (key_eqb k r) with (pair_eqb k (fst r)).
        destruct (pair_eqb k (fst r)) eqn:E.
        * apply pair_eqb_spec in E. subst k. rewrite IH, Er. cbn [existsb]. now rewrite pair_eqb_refl.
        * rewrite IH. cbn [existsb]. now rewrite E.
  Qed.

  Lemma first_rows_match i0 t0 ix : In (i0, t0) ix ->
    filter (key_eqb (i0, t0))
           (first_rows [] (flat_map (fun i => map (fun t => (i, t, f i t)) (ages_of i ix)) (group_keys ix)))
    = [(i0, t0, f i0 t0)].
  Proof.
    intros Hin. rewrite first_rows_filter. simpl. rewrite (matches_of_key i0 t0 ix Hin).
    destruct (count_pos _ _ Hin) as [n ->]. reflexivity.
  Qed.

  (** the FULL layout statement: whatever the request (individuals interleaved, ages unsorted, pairs repeated), the frame
      holds exactly the requested rows in the requested order, each with the value of its own (ID, TIME) *)
  Lemma estimate_index ix to_dataframe : to_dataframe = None \/ to_dataframe = Some true ->
    estimate (InIndex ix) to_dataframe = OutFrame (map (fun k => (fst k, snd k, Some (f (fst k) (snd k)))) ix).
  Proof.
    intros Hdf. assert (Hto : to_df ID T (InIndex ix) to_dataframe = true) by (destruct Hdf as [-> | ->]; reflexivity).
    unfold Estimate.estimate. rewrite Hto. simpl. rewrite frame_group. f_equal.
    unfold join. rewrite <- flat_map_singleton. apply flat_map_ext_in. intros [i0 t0] Hin.
    now rewrite (first_rows_match i0 t0 ix Hin).
  Qed.

  (** read row by row: as many rows as requested, the n-th row is the n-th requested pair with its own value *)
  Lemma estimate_index_rowwise ix to_dataframe : to_dataframe = None \/ to_dataframe = Some true ->
    exists rows, estimate (InIndex ix) to_dataframe = OutFrame rows /\ length rows = length ix /\
      forall n i t, nth_error ix n = Some (i, t) -> nth_error rows n = Some (i, t, Some (f i t)).
  Proof.
    intros Hdf. eexists. split; [now apply estimate_index|]. split; [apply map_length|].
    intros n i t H. now rewrite nth_error_map, H.
  Qed.

  (** why the de-duplication is there: joined with the concatenated frame itself, a requested row would come back once
      per occurrence of its pair in the request *)
  Lemma join_without_first_rows ix fr :
    frame ID T V pointwise (group ID T id_eqb id_leb ix) = Some fr ->
    join ID T V id_eqb t_eqb ix fr =
    flat_map (fun k => repeat (fst k, snd k, Some (f (fst k) (snd k))) (count k ix)) ix.
  Proof.
    rewrite frame_group. intros H. injection H as <-.
    unfold join. apply flat_map_ext_in. intros [i0 t0] Hin.
    rewrite (matches_of_key i0 t0 ix Hin).
    destruct (count_pos _ _ Hin) as [n ->]. simpl. f_equal. now rewrite map_repeat'.
  Qed.

  (** MultiIndex request, dict output: one entry per requested individual (sorted, distinct), ages in request order *)
  Lemma estimate_index_dict ix :
    estimate (InIndex ix) (Some false) = OutDict (map (fun i => (i, map (f i) (ages_of i ix))) (group_keys ix))
    /\ NoDup (group_keys ix)
    /\ (forall i, In i (group_keys ix) <-> In i (map fst ix)).
  Proof.
    split; [|split; [apply NoDup_group_keys | intros i; apply In_group_keys]].
    unfold Estimate.estimate. simpl. unfold estimations, Estimate.group. now rewrite map_map.
  Qed.
End Proofs.
