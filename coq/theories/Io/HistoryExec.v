(** C12 — executable companion of Io/History.v used only by the correspondence: the sequence of State assignments that the
    model's [load_parameters] script performs (a logging store: the State is the list of names assigned so far), compared
    inside Coq with the sequence of [State.__setitem__] calls recorded on the real code during one [load_parameters]. *)
From Coq Require Import List String Bool.
From Leaspy Require Import Io.EndOfFit Io.History.
Import ListNotations.
Open Scope string_scope.

Definition log_set (n : string) (_ : unit) (s : list string) : list string := s ++ [n].

(** names assigned, in order, by load_parameters given the provided parameters and the population variables *)
Definition lp_trace (provided pops : list string) : list string :=
  load_parameters unit (list string) (fun _ _ => tt) log_set (fun _ _ _ => tt) (fun _ _ => true) pops
                  (map (fun p => (p, tt)) provided) [].

Fixpoint names_eqb (a b : list string) : bool :=
  match a, b with
  | [], [] => true
  | x :: a', y :: b' => String.eqb x y && names_eqb a' b'
  | _, _ => false
  end.

(** ((provided parameter names, population variable names), observed assignments) *)
Definition lp_trace_ok (c : (list string * list string) * list string) : bool :=
  names_eqb (lp_trace (fst (fst c)) (snd (fst c))) (snd c).

Example lp_trace_example :
  lp_trace ["betas_mean"; "log_g_mean"; "tau_mean"] ["betas"; "log_g"] = ["betas_mean"; "log_g_mean"; "tau_mean"; "betas"; "log_g"].
Proof. reflexivity. Qed.
