(** C16 — T1: the tables regenerated from individual_parameters.py (gen/GenC16.v) are the ones the hand-written model was
    written from, hence the source-level interpreter on the REGENERATED tables is the hand-written model, and the C16 theorems
    hold of it.  Every lemma of the first part is closed by computation on the generated constants: it stops compiling when the
    source takes one of these decisions differently. *)
From Coq Require Import List String Ascii Bool Arith QArith.
From Leaspy Require Import Io.IndivParams Io.IndivParamsProofs Io.IndivParamsSrc Io.IndivParamsSrcProofs.
From LeaspyGen Require Import GenC16.
Import ListNotations.
Open Scope string_scope.

(* ------------------------------------------------------------------------------------------ generated = reference *)

(** same accepted types, whatever their order in the source; [bool] is not one of them and the test is by identity *)
Lemma gen_types_same : same_types gen_types.
Proof. split; [reflexivity | intros ty; destruct ty; reflexivity]. Qed.

Lemma gen_add_ref : gen_add = ref_add.
Proof. reflexivity. Qed.

Lemma gen_col_rule_ref : gen_col_rule = ref_col_rule.
Proof. reflexivity. Qed.

Lemma gen_df_rows_ref : gen_df_rows_from = SrcIndices.
Proof. reflexivity. Qed.

Lemma gen_split_rule_ref : gen_split_rule = ref_split_rule.
Proof. reflexivity. Qed.

Lemma gen_torch_iter_ref : gen_torch_iter = ref_torch_iter.
Proof. reflexivity. Qed.

Lemma gen_subset_rule_ref : gen_subset_rule = ref_subset_rule.
Proof. reflexivity. Qed.

Lemma gen_json_members_ref : gen_json_members = ref_json_members.
Proof. reflexivity. Qed.

Lemma gen_builders_ref : gen_builders = ref_builders.
Proof. reflexivity. Qed.

Lemma gen_load_dispatch_ref : gen_load_dispatch = ref_load_dispatch.
Proof. reflexivity. Qed.

Lemma gen_save_rule_ref : gen_save_rule = ref_save_rule.
Proof. reflexivity. Qed.

Lemma gen_attributes_ref : gen_attributes = ref_attributes /\ gen_writers = ref_writers.
Proof. split; reflexivity. Qed.

(* ------------------------------------------------------------------------------------------ interpreter on the generated tables = model *)

Lemma gen_add_is_model c id arg : keys_agree c ->
  src_add gen_types gen_add c id arg = lift_add c (add c id arg).
Proof. rewrite gen_add_ref. apply src_add_ref. exact gen_types_same. Qed.

Lemma gen_add_all_is_model c l : keys_agree c -> src_add_all gen_types gen_add c l = add_all c l.
Proof. rewrite gen_add_ref. apply src_add_all_ref. exact gen_types_same. Qed.

Lemma gen_keys_agree_kept c id arg c' : keys_agree c -> src_add gen_types gen_add c id arg = SAdded c' -> keys_agree c'.
Proof.
  intros Hk H. rewrite (gen_add_is_model c id arg Hk) in H. destruct (add c id arg) eqn:Ha; try discriminate H.
  injection H as <-. eapply add_keys_agree; eauto.
Qed.

Lemma gen_load_format_is_model p : src_load_format gen_load_dispatch p = load_format p.
Proof.
  rewrite gen_load_dispatch_ref. unfold src_load_format, load_format, ref_load_dispatch.
  destruct (get_extension p) as [e|]; [|reflexivity].
  cbn [fst snd mem_str existsb]. destruct (String.eqb e "csv"); [reflexivity|]. destruct (String.eqb e "json"); reflexivity.
Qed.

Lemma gen_conversions_are_model :
  (forall c, src_to_dataframe gen_df_rows_from gen_col_rule c = to_dataframe c)
  /\ (forall t, src_from_dataframe gen_types gen_add gen_split_rule t = from_dataframe t)
  /\ (forall ids d, src_from_pytorch gen_types gen_add ids d = from_pytorch ids d)
  /\ (forall rnd c, src_to_pytorch rnd gen_torch_iter c = to_pytorch rnd c)
  /\ (forall c ids, src_subset gen_types gen_add gen_subset_rule c ids = subset c ids)
  /\ (forall p, src_load_format gen_load_dispatch p = load_format p)
  /\ (forall c p, src_save_target gen_save_rule c p = save_target c p)
  /\ (forall c, src_csv_roundtrip gen_types gen_add gen_df_rows_from gen_col_rule gen_split_rule c = csv_roundtrip c).
Proof.
  rewrite gen_df_rows_ref, gen_col_rule_ref, gen_split_rule_ref, gen_torch_iter_ref, gen_subset_rule_ref, gen_add_ref, gen_save_rule_ref.
  pose proof gen_types_same as Htt.
  split; [exact src_to_dataframe_ref|]. split; [intros t; apply src_from_dataframe_ref; exact Htt|].
  split; [intros ids d; apply src_from_pytorch_ref; exact Htt|]. split; [exact src_to_pytorch_ref|].
  split; [intros c ids; apply src_subset_ref; exact Htt|]. split; [exact gen_load_format_is_model|].
  split; [exact src_save_target_ref|]. intros c; apply src_csv_roundtrip_ref; exact Htt.
Qed.

(* ------------------------------------------------------------------------------------------ the C16 theorems, over the generated tables *)

Theorem gen_add_rejects c id arg :
  id = IdNotStr
  \/ (exists s, id = IdStr s /\ In s (indices c))
  \/ arg = ArgNotDict
  \/ (exists d, arg = ArgDict d /\
        (Exists (fun kv => head_unsupported (snd kv)) d
         \/ exists sh, shapes c = Some sh /\ shapes_eqb sh (pshapes d) = false)) ->
  src_add gen_types gen_add c id arg = SRaised InputError c.
Proof. rewrite gen_add_ref. apply src_add_rejects. exact gen_types_same. Qed.

Theorem gen_add_bool_rejected c id k d1 d2 :
  src_add gen_types gen_add c id (ArgDict (d1 ++ (k, VAtom ABool) :: d2)) = SRaised InputError c
  /\ src_type_ok gen_types (VAtom ABool) = false /\ src_type_ok gen_types (VList [ABool]) = false.
Proof.
  split; [rewrite gen_add_ref; apply src_add_bool_rejected; exact gen_types_same | apply bool_refused; exact gen_types_same].
Qed.

Theorem gen_add_accepts c s d : keys_agree c ->
  ~ In s (indices c) ->
  Forall (fun kv => fully_supported (snd kv) = true) d ->
  (forall sh, shapes c = Some sh -> shapes_eqb sh (pshapes d) = true) ->
  exists e, store_all (map (fun kv => (fst kv, tolist (snd kv))) d) = Some e
    /\ entry_shapes e = pshapes d /\ map fst e = map fst d
    /\ src_add gen_types gen_add c (IdStr s) (ArgDict d) =
       SAdded (mkC (indices c ++ [s]) (params c ++ [(s, e)])
                   (Some (match shapes c with None => pshapes d | Some sh => sh end))).
Proof. rewrite gen_add_ref. apply src_add_accepts. exact gen_types_same. Qed.

Lemma wf_keys_agree c : wf c -> keys_agree c.
Proof. intros [H _]. exact H. Qed.

Theorem gen_torch_roundtrip (rnd : Q -> Q) c sh :
  wf c -> shapes c = Some sh ->
  src_to_pytorch rnd gen_torch_iter c = Ok (indices c, torch_dict rnd c sh)
  /\ map fst (torch_dict rnd c sh) = map fst sh
  /\ Forall (fun kt => List.length (snd kt) = List.length (indices c)) (torch_dict rnd c sh)
  /\ src_from_pytorch gen_types gen_add (map IdStr (indices c)) (map (fun kt => (fst kt, T2 (snd kt))) (torch_dict rnd c sh))
     = Ok (vec_container rnd c sh).
Proof.
  intros Hwf Hsh. destruct gen_conversions_are_model as [_ [_ [Hf [Ht _]]]]. rewrite Ht, Hf. apply torch_roundtrip; assumption.
Qed.

Theorem gen_table_roundtrip c sh :
  wf c -> shapes c = Some sh -> table_safe sh ->
  src_to_dataframe gen_df_rows_from gen_col_rule c = Ok (table_of c sh)
  /\ src_from_dataframe gen_types gen_add gen_split_rule (table_of c sh) = Ok (vec_container (fun q => q) c sh)
  /\ map (fun ps => (fst ps, [size_of_shape (snd ps)])) sh = sh.
Proof.
  intros Hwf Hsh Hs. destruct gen_conversions_are_model as [Hd [Hf _]]. rewrite Hd, Hf. apply table_roundtrip; assumption.
Qed.

Theorem gen_csv_roundtrip c sh :
  wf c -> shapes c = Some sh -> table_safe sh ->
  Forall (fun ps => fst ps <> "") sh -> Forall (fun i => ~ In i na_tokens) (indices c) ->
  src_csv_roundtrip gen_types gen_add gen_df_rows_from gen_col_rule gen_split_rule c = Ok (vec_container (fun q => q) c sh).
Proof.
  intros. destruct gen_conversions_are_model as [_ [_ [_ [_ [_ [_ [_ Hc]]]]]]]. rewrite Hc. apply csv_roundtrip_ok; assumption.
Qed.

(** F7a / F7b are properties of the rules READ FROM THE SOURCE *)
Theorem gen_scalar_refuted :
  exists c, add_all empty [(IdStr "index-1", ArgDict [("xi", VAtom (ANum KFloat (1 # 10))); ("tau", VAtom (ANum KInt 70));
                                                      ("sources", VList [ANum KFloat (1 # 10); ANum KFloat (-3 # 10)])])] = Ok c
            /\ src_to_dataframe gen_df_rows_from gen_col_rule c = Err Crash.
Proof. eexists. split; vm_compute; reflexivity. Qed.

Theorem gen_underscore_refuted :
  exists c t c', add_all empty [(IdStr "a", ArgDict [("random_intercept", VList [ANum KFloat (1 # 2)]);
                                                     ("random_slope_age", VList [ANum KFloat (1 # 4)])])] = Ok c
    /\ src_to_dataframe gen_df_rows_from gen_col_rule c = Ok t /\ src_from_dataframe gen_types gen_add gen_split_rule t = Ok c'
    /\ shapes c' = Some [("random", [2%nat])].
Proof. do 3 eexists. repeat split; vm_compute; reflexivity. Qed.

(** json: the reader fills the three attributes with the members the writer wrote; so save/load json is the model's
    [to_json] / [from_json], for which [json_roundtrip] holds *)
Theorem gen_json_roundtrip c sh :
  shapes c = Some sh -> json_serialisable c = true ->
  exists file, src_save_json gen_json_members c = Ok file
    /\ src_load_json (fill_of gen_builders) file empty
       = Ok (mkC (indices c) (params_map (value_map_kind kind_after_json) (params c)) (Some sh))
    /\ (native c = true -> src_load_json (fill_of gen_builders) file empty = Ok c).
Proof.
  intros Hsh Hj. rewrite gen_json_members_ref, gen_builders_ref. change (fill_of ref_builders) with ref_json_fill.
  destruct (json_roundtrip c sh Hsh Hj) as [j [H1 [H2 H3]]].
  pose proof (src_json_ref c) as H. rewrite H1 in H. destruct H as [file [Hs Hl]].
  exists file. split; [exact Hs|]. split; [now rewrite Hl, H2 | intros Hn; now rewrite Hl, (H3 Hn)].
Qed.

(** every attribute of an instance is one of the model's three fields (plus the default extension, a constant); the json reader
    assigns all three, every other builder goes through [add_individual_parameters]; and what the duplicate test of [add] looks
    at is one of the attributes the reader fills — a container read from a file refuses a duplicate like any other *)
Theorem gen_load_fills :
  gen_attributes = ["_indices"; "_individual_parameters"; "_parameters_shape"; "_default_saving_type"]
  /\ gen_writers = ["__init__"; "add_individual_parameters"; "_load_json"]
  /\ (forall f, filled (fill_of gen_builders) f = true)
  /\ (forall m b, In (m, b) gen_builders -> m <> "_load_json" -> b = ViaAdd \/ b = ViaMethod "from_dataframe")
  /\ (forall s, In s (dup_sources gen_add) -> exists f, source_field s = Some f /\ filled (fill_of gen_builders) f = true).
Proof.
  split; [reflexivity|]. split; [reflexivity|]. split; [intros []; reflexivity|]. split.
  - intros m b Hin Hm. cbn in Hin.
    repeat (destruct Hin as [Hin|Hin]; [injection Hin as <- <-; try (now left); try (now right); now elim Hm|]). destruct Hin.
  - intros s Hin. cbn in Hin. destruct Hin as [<-|[]]. exists FIndices. split; reflexivity.
Qed.
