(** C12 — proofs about the save/load model. *)
From Coq Require Import ZArith QArith List String Ascii Bool Lia.
From Leaspy Require Import Io.SaveLoad Io.SaveLoadExec.
Import ListNotations.
Open Scope string_scope.
Open Scope list_scope.

(** ** nested lists *)
Lemma chunks_concat {A} : forall n k (l : list A), List.length l = (n * k)%nat -> List.concat (chunks n k l) = l.
Proof.
  induction n as [|n IH]; intros k l H; simpl in *.
  - destruct l; [reflexivity | discriminate].
  - rewrite IH; [apply firstn_skipn | rewrite skipn_length; lia].
Qed.

Lemma chunks_length {A} : forall n k (l : list A), List.length l = (n * k)%nat ->
  Forall (fun c => List.length c = k) (chunks n k l).
Proof.
  induction n as [|n IH]; intros k l H; simpl in *; constructor.
  - rewrite firstn_length. lia.
  - apply IH. rewrite skipn_length. lia.
Qed.

Lemma flat_cons x r : flat (JList (x :: r)) =
  match flat x, flat (JList r) with Some a, Some b => Some (a ++ b) | _, _ => None end.
Proof. reflexivity. Qed.

Lemma flat_map_tolist s' (IH : forall d, List.length d = prod s' -> flat (tolist s' d) = Some d) :
  forall cs, Forall (fun c => List.length c = prod s') cs -> flat (JList (map (tolist s') cs)) = Some (List.concat cs).
Proof.
  induction cs as [|c cs IHc]; intros H; [reflexivity|].
  inversion H; subst. simpl map. rewrite flat_cons, IH, IHc by assumption. reflexivity.
Qed.

Lemma flat_tolist : forall s d, List.length d = prod s -> flat (tolist s d) = Some d.
Proof.
  induction s as [|n s IH]; intros d H.
  - simpl in *. destruct d as [|x [|y d]]; simpl in H; try discriminate. reflexivity.
  - change (tolist (n :: s) d) with (JList (map (tolist s) (chunks n (prod s) d))).
    change (prod (n :: s)) with (n * prod s)%nat in H.
    rewrite (flat_map_tolist s IH) by (apply chunks_length; exact H).
    now rewrite chunks_concat.
Qed.

(** ** association lists *)
Lemma lookup_app_l {A} k (a b : list (string * A)) v : lookup k a = Some v -> lookup k (a ++ b) = Some v.
Proof. induction a as [|[k' v'] a IH]; simpl; [discriminate|]. destruct (String.eqb k k'); auto. Qed.

Lemma lookup_jtensors k ps t : NoDup (map fst ps) -> In (k, t) ps -> lookup k (jtensors ps) = Some (tensor_to_list t).
Proof.
  induction ps as [|[k' t'] ps IH]; simpl; intros Hn Hi; [contradiction|].
  inversion Hn; subst. destruct Hi as [E|Hi].
  - inversion E; subst. now rewrite String.eqb_refl.
  - destruct (String.eqb k k') eqn:E.
    + apply String.eqb_eq in E. subst. exfalso. apply H1. now apply (in_map fst _ (k', t)).
    + auto.
Qed.

Lemma mem_In s l : mem s l = true <-> In s l.
Proof.
  unfold mem. rewrite existsb_exists. split.
  - intros [x [Hx E]]. apply String.eqb_eq in E. now subst.
  - intros H. exists s. split; [assumption | apply String.eqb_refl].
Qed.

Lemma has_In {A} k (l : list (string * A)) : In k (map fst l) -> has k l = true.
Proof.
  unfold has. induction l as [|[k' v] l IH]; simpl; [contradiction|].
  intros [E|H]; [subst; now rewrite String.eqb_refl|]. destruct (String.eqb k k'); auto.
Qed.

(** ** parameters *)
Lemma params_fit_names : forall decl ps, params_fit decl ps -> map fst ps = map fst decl.
Proof.
  induction decl as [|[n sh] decl IH]; destruct ps as [|[n' t] ps]; simpl; try tauto.
  intros (E & _ & _ & H). subst. f_equal. auto.
Qed.

Lemma recast_names cast : forall decl ps, params_fit decl ps -> map fst (recast cast decl ps) = map fst decl.
Proof.
  induction decl as [|[n sh] decl IH]; destruct ps as [|[n' t] ps]; simpl; try tauto.
  intros (E & _ & _ & H). f_equal. auto.
Qed.

Section Load.
Variable cast32 : Q -> Q.
Variable derive : mkind -> Z -> Z -> list (string * tensor) -> tensor.

Lemma of_json_tolist sh t : List.length (t_data t) = prod (t_shape t) -> prod (t_shape t) = prod sh ->
  of_json cast32 sh (tensor_to_list t) = Ok (mkT sh (map cast32 (t_data t))).
Proof.
  intros H1 H2. unfold of_json, tensor_to_list. rewrite flat_tolist by assumption.
  rewrite H1, H2, Nat.eqb_refl. reflexivity.
Qed.

Lemma load_each_ok given : forall decl ps, params_fit decl ps ->
  (forall n t, In (n, t) ps -> lookup n given = Some (tensor_to_list t)) ->
  load_each cast32 decl given = Ok (recast cast32 decl ps).
Proof.
  induction decl as [|[n sh] decl IH]; destruct ps as [|[n' t] ps]; simpl; try tauto.
  intros (E & H1 & H2 & Hf) Hl. subst n'.
  rewrite (Hl n t (or_introl eq_refl)). rewrite of_json_tolist by assumption. simpl.
  rewrite (IH ps Hf) by (intros; apply Hl; now right). reflexivity.
Qed.

(** declared parameter names are pairwise distinct, never "mixing_matrix" *)
Lemma noise_spec_cases obs : noise_spec obs = [] \/ exists n, noise_spec obs = [("noise_std", [n])].
Proof. unfold noise_spec. destruct (find _ obs) as [[n| | |]|]; eauto. Qed.

Lemma decl_nodup k obs d s ncl nbe : NoDup (map fst (decl_params k obs d s ncl nbe)).
Proof.
  unfold decl_params.
  destruct (noise_spec_cases obs) as [-> | [n ->]];
  destruct (1 <=? s)%nat; destruct (has_obs _ obs); destruct k; cbv;
  repeat (constructor; [cbv; intuition discriminate|]); constructor.
Qed.

Lemma forallb_names {A} (f : string -> bool) (l : list (string * A)) :
  (forall k, In k (map fst l) -> f k = true) -> forallb (fun kv => f (fst kv)) l = true.
Proof.
  intros H. apply forallb_forall. intros [k v] Hi. apply H. now apply (in_map fst _ (k, v)).
Qed.

Lemma load_parameters_ok (m0 : model) ps d s mixj :
  (if mkind_eqb (m_kind m0) Mixture then m_nclusters m0 <> None else True) ->
  dim_of (m_dim m0) (m_features m0) = Some d -> m_sdim m0 = Some s ->
  params_fit (decl_of m0 d s) ps ->
  load_parameters cast32 derive m0 (JObj (jtensors ps ++ (if (1 <=? s)%Z then [("mixing_matrix", mixj)] else []))) =
  Ok (mkM (m_kind m0) (m_name m0) (m_features m0) (m_dim m0) (m_sdim m0) (m_obs m0) (m_nclusters m0) (m_nb_events m0)
          (m_fit_metrics m0) (recast cast32 (decl_of m0 d s) ps)
          (derive (m_kind m0) d s (recast cast32 (decl_of m0 d s) ps))).
Proof.
  intros Hmix Hd Hs Hfit. unfold load_parameters.
  replace (mkind_eqb (m_kind m0) Mixture && match m_nclusters m0 with None => true | Some _ => false end) with false.
  2:{ destruct (mkind_eqb (m_kind m0) Mixture); [|reflexivity]. destruct (m_nclusters m0); [reflexivity | congruence]. }
  rewrite Hd, Hs. fold (decl_of m0 d s).
  pose proof (params_fit_names _ _ Hfit) as Hn.
  pose proof (decl_nodup (m_kind m0) (m_obs m0) (Z.to_nat d) (Z.to_nat s)
                (match m_nclusters m0 with Some n => Z.to_nat n | None => O end) (Z.to_nat (m_nb_events m0))) as Hnd.
  fold (decl_of m0 d s) in Hnd.
  match goal with |- context [forallb ?f ?l] => assert (Hk : forallb f l = true) end.
  { apply (forallb_names (fun k => mem k _)). intros k Hk. apply mem_In.
    rewrite map_app in Hk. apply in_app_or in Hk. destruct Hk as [Hk|Hk].
    - apply in_or_app. left. unfold jtensors in Hk. rewrite map_map in Hk. simpl in Hk.
      change (map (fun x : string * tensor => fst x) ps) with (map fst ps) in Hk. now rewrite Hn in Hk.
    - apply in_or_app. right. apply in_or_app. right. destruct (1 <=? s)%Z; exact Hk. }
  rewrite Hk. simpl negb. cbv iota.
  rewrite (load_each_ok _ _ ps Hfit).
  2:{ intros n t Hi. apply lookup_app_l. apply lookup_jtensors; [now rewrite Hn | assumption]. }
  simpl bind.
  match goal with |- context [forallb ?f ?l] => assert (Hp : forallb f l = true) end.
  { apply forallb_forall. intros [k sh] Hi. apply orb_true_iff. right. apply has_In.
    rewrite recast_names by assumption. now apply (in_map fst _ (k, sh)). }
  rewrite Hp. reflexivity.
Qed.
End Load.

(** ** constructors and the round trip *)
Lemma as_strings_map fs : as_strings (map JStr fs) = Ok fs.
Proof. induction fs as [|f fs IH]; simpl; [reflexivity|]. now rewrite IH. Qed.

Lemma validate_sdim_ok d s : (0 <= s <= d - 1)%Z -> validate_sdim (Some d) (JInt s) = Ok (Some s).
Proof.
  intros H. unfold validate_sdim, opt_is. destruct (d =? 1)%Z eqn:E.
  - apply Z.eqb_eq in E. f_equal. f_equal. lia.
  - destruct (s <? 0)%Z eqn:E1; [apply Z.ltb_lt in E1; lia|].
    destruct (d - 1 <? s)%Z eqn:E2; [apply Z.ltb_lt in E2; lia|]. reflexivity.
Qed.

Definition tr_kind (k : mkind) : bool := match k with Logistic | Linear | SharedSpeed | Joint => true | _ => false end.

Lemma early_dimension_features fs rest :
  early_dimension (("features", JList (map JStr fs)) :: rest) = Ok (Some (JInt (Z.of_nat (List.length fs)))).
Proof. unfold early_dimension. simpl. now rewrite map_length. Qed.

Lemma base_validate_ok fs d rest : d = Z.of_nat (List.length fs) -> lookup "initialization_method" rest = None ->
  base_validate (("features", JList (map JStr fs)) :: ("dimension", JInt d) :: rest) = Ok (Some d, Some fs).
Proof.
  intros Hd Hi. unfold base_validate. simpl lookup. rewrite Hi. simpl. rewrite as_strings_map. simpl.
  rewrite <- Hd, Z.eqb_refl. reflexivity.
Qed.

Lemma construct_tr_ok k inst fs d s obs fm nbe :
  tr_kind k = true -> d = Z.of_nat (List.length fs) -> (0 <= s <= d - 1)%Z -> reload_obs k d s obs = Ok obs ->
  (if mkind_eqb k Joint then True else nbe = 1%Z) ->
  construct_tr k inst ([("features", JList (map JStr fs)); ("dimension", JInt d); ("obs_models", JObj (obs_dict obs));
                        ("fit_metrics", fm); ("source_dimension", JInt s)]
                       ++ (if mkind_eqb k Joint then [("nb_events", JInt nbe)] else [])) =
  Ok (mkM k inst (Some fs) (Some d) (Some s) obs None nbe fm [] empty_tensor).
Proof.
  intros Hk Hd Hs Hobs Hnbe. unfold reload_obs in Hobs.
  destruct (obs_of_kw (Some (JObj (obs_dict obs))) "gaussian-diagonal" (Some d)) as [o|e] eqn:Eo; [|discriminate].
  simpl bind in Hobs.
  unfold construct_tr.
  destruct k; try discriminate Hk;
  [ change (mkind_eqb Logistic Joint) with false in * | change (mkind_eqb Linear Joint) with false in *
  | change (mkind_eqb SharedSpeed Joint) with false in * | change (mkind_eqb Joint Joint) with true in * ];
  cbv iota in *; simpl app; simpl remove; simpl (lookup "source_dimension" _); simpl (lookup "obs_models" _);
  simpl (lookup "fit_metrics" _); simpl (lookup "nb_events" _);
  rewrite early_dimension_features, <- Hd; simpl bind; simpl dim_for_factory; simpl bind; cbv beta iota. all: unfold obs_of_kw in Eo; rewrite Eo; simpl bind;
  rewrite (base_validate_ok fs d) by (assumption || reflexivity); simpl bind; cbv beta iota;
  unfold dim_of; rewrite validate_sdim_ok by assumption; simpl bind.
  - inversion Hobs; subst. reflexivity.
  - inversion Hobs; subst. reflexivity.
  - inversion Hobs; subst. reflexivity.
  - rewrite Hobs. reflexivity.
Qed.

Lemma construct_mix_ok inst fs d s obs fm k :
  d = Z.of_nat (List.length fs) -> (0 <= s <= d - 1)%Z -> reload_obs Mixture d s obs = Ok obs -> (2 <= k)%Z ->
  construct_mix inst [("features", JList (map JStr fs)); ("dimension", JInt d); ("obs_models", JObj (obs_dict obs));
                      ("fit_metrics", fm); ("n_clusters", JInt k); ("source_dimension", JInt s)] =
  Ok (mkM Mixture inst (Some fs) (Some d) (Some s) obs (Some k) 1%Z fm [] empty_tensor).
Proof.
  intros Hd Hs Hobs Hk. unfold reload_obs in Hobs. change (mkind_eqb Mixture Joint) with false in Hobs.
  destruct (obs_of_kw (Some (JObj (obs_dict obs))) "gaussian-diagonal" (Some d)) as [o|e] eqn:Eo; [|discriminate].
  simpl bind in Hobs. inversion Hobs; subst o.
  unfold construct_mix. rewrite early_dimension_features, <- Hd. simpl bind. simpl dim_for_factory. simpl bind.
  simpl (lookup "obs_models" _). cbv beta iota. simpl bind. unfold obs_of_kw in Eo. try rewrite Eo. unfold obs_of_kw. try rewrite Eo. simpl bind.
  simpl remove. rewrite (base_validate_ok fs d) by (assumption || reflexivity). simpl bind. cbv beta iota.
  unfold rehash_dim. simpl (lookup "dimension" _). cbv iota. simpl bind.
  simpl (lookup "source_dimension" _). simpl (lookup "n_clusters" _). simpl (lookup "fit_metrics" _). cbv iota.
  unfold dim_of.
  destruct (s <? 0)%Z eqn:E1; [apply Z.ltb_lt in E1; lia|].
  destruct (d - 1 <? s)%Z eqn:E2; [apply Z.ltb_lt in E2; lia|].
  destruct (k <? 2)%Z eqn:E3; [apply Z.ltb_lt in E3; lia|].
  simpl. reflexivity.
Qed.

Section RoundTrip.
Variable cast32 : Q -> Q.
Variable derive : mkind -> Z -> Z -> list (string * tensor) -> tensor.
Variable ver : string.

Definition reloaded (m : model) (d s : Z) : model :=
  let ps := recast cast32 (decl_of m d s) (m_params m) in
  mkM (m_kind m) (m_name m) (m_features m) (Some d) (Some s) (m_obs m) (m_nclusters m) (m_nb_events m) (m_fit_metrics m)
      ps (derive (m_kind m) d s ps).

Local Opaque load_parameters.
Theorem roundtrip m : wf m -> default_named m ->
  exists dct d s, save ver m = Ok dct /\ dimension m = Some d /\ m_sdim m = Some s /\
                  load cast32 derive dct = Ok (reloaded m d s).
Proof.
  intros (fs & d & s & Hf & Hd & Hdim & Hs & Hr & Hk & Hobs & Hncl & Hnbe & Hfit) Hname.
  assert (Hdm : dimension m = Some d).
  { unfold dimension. rewrite Hf. destruct Hdim as [-> | ->]; [simpl; now subst | reflexivity]. }
  unfold default_named in Hname. unfold reloaded.
  destruct m as [k name feats dim sdim obs ncl nbe fm ps mix]. simpl in *.
  subst feats sdim name.
  destruct k; try discriminate Hk.
  1-4: (eexists; exists d, s; unfold save; rewrite Hdm; simpl m_sdim; cbv iota; simpl m_kind; cbv iota;
        split; [reflexivity|]; split; [reflexivity|]; split; [reflexivity|]).
  all: cbn [m_name m_features m_dim m_sdim m_obs m_nclusters m_nb_events m_fit_metrics m_params m_mixing m_kind] in *.
  1-4: unfold load, settings; simpl lookup; simpl has; simpl negb; cbv iota; simpl kind_name; simpl lower;
       simpl fold_left; simpl bind; cbv beta iota; simpl model_name; simpl bind; simpl (lookup "instance_name" _); cbv iota;
       simpl bind;
       repeat match goal with |- context [lower_ascii ?c] => let v := eval vm_compute in (lower_ascii c) in change (lower_ascii c) with v end;
       simpl remove.
  1: pose proof (construct_tr_ok Logistic "logistic" fs d s obs fm nbe eq_refl Hd Hr Hobs Hnbe) as Hc.
  2: pose proof (construct_tr_ok Linear "linear" fs d s obs fm nbe eq_refl Hd Hr Hobs Hnbe) as Hc.
  3: pose proof (construct_tr_ok SharedSpeed "shared_speed_logistic" fs d s obs fm nbe eq_refl Hd Hr Hobs Hnbe) as Hc.
  4: pose proof (construct_tr_ok Joint "joint" fs d s obs fm nbe eq_refl Hd Hr Hobs Hnbe) as Hc.
  1: change (mkind_eqb Logistic Joint) with false in *.
  2: change (mkind_eqb Linear Joint) with false in *.
  3: change (mkind_eqb SharedSpeed Joint) with false in *.
  4: change (mkind_eqb Joint Joint) with true in *.
  1: change (mkind_eqb Logistic Mixture) with false in *.
  2: change (mkind_eqb Linear Mixture) with false in *.
  3: change (mkind_eqb SharedSpeed Mixture) with false in *.
  4: change (mkind_eqb Joint Mixture) with false in *.
  1-4: cbv iota in Hc, Hncl, Hnbe; simpl app in Hc; rewrite Hc; cbn [bind]; subst ncl.
  1-4: match goal with |- load_parameters _ _ ?m0 _ = _ =>
         rewrite (load_parameters_ok cast32 derive m0 ps d s (tensor_to_list mix) I eq_refl eq_refl Hfit) end;
       reflexivity.
  change (mkind_eqb Mixture Mixture) with true in *. change (mkind_eqb Mixture Joint) with false in *. cbv iota in Hncl, Hnbe.
  destruct Hncl as (kc & -> & Hkc).
  eexists; exists d, s; unfold save; rewrite Hdm; simpl m_sdim; cbv iota; simpl m_kind; cbv iota; simpl m_nclusters; cbv iota.
  split; [reflexivity|]; split; [reflexivity|]; split; [reflexivity|].
  cbn [m_name m_features m_dim m_sdim m_obs m_nclusters m_nb_events m_fit_metrics m_params m_mixing m_kind] in *.
  unfold load, settings; simpl lookup; simpl has; simpl negb; cbv iota; simpl kind_name; simpl lower;
       simpl fold_left; simpl bind; cbv beta iota; simpl model_name; simpl bind; simpl (lookup "instance_name" _); cbv iota;
       simpl bind;
       repeat match goal with |- context [lower_ascii ?c] => let v := eval vm_compute in (lower_ascii c) in change (lower_ascii c) with v end;
       simpl remove.
  rewrite (construct_mix_ok "mixture_logistic" fs d s obs fm kc Hd Hr Hobs Hkc). cbn [bind]. subst nbe.
  match goal with |- load_parameters _ _ ?m0 _ = _ =>
    rewrite (load_parameters_ok cast32 derive m0 ps d s (tensor_to_list mix)) end;
  [reflexivity | simpl; discriminate | reflexivity | reflexivity | exact Hfit].
Qed.
End RoundTrip.

(** ** exact round trip, idempotence *)
Lemma recast_id cast : forall decl ps, params_fit decl ps -> declared_shapes decl ps ->
  (forall n t, In (n, t) ps -> map cast (t_data t) = t_data t) -> recast cast decl ps = ps.
Proof.
  induction decl as [|[n sh] decl IH]; destruct ps as [|[n' t] ps]; simpl; try tauto.
  intros (E & _ & _ & Hf) (Hs & Hd) Hc. subst n'. destruct t as [tsh td]. simpl in *. subst tsh.
  pose proof (Hc n (mkT sh td) (or_introl eq_refl)) as E. simpl in E. rewrite E. f_equal. apply IH; auto. intros n0 t0 H0. apply (Hc n0 t0). now right.
Qed.

Section Idem.
Variable cast32 : Q -> Q.
Variable derive : mkind -> Z -> Z -> list (string * tensor) -> tensor.
Variable ver : string.

(** the state's mixing matrix is the one derived from the parameters (what C12_self_consistent gives after a fit) *)
Definition mixing_consistent (m : model) : Prop :=
  forall d s, dimension m = Some d -> m_sdim m = Some s -> (1 <= s)%Z -> m_mixing m = derive (m_kind m) d s (m_params m).

Theorem roundtrip_exact m : wf m -> default_named m ->
  (forall d s, dimension m = Some d -> m_sdim m = Some s -> declared_shapes (decl_of m d s) (m_params m)) ->
  single_precision cast32 m -> mixing_consistent m ->
  exists dct d, save ver m = Ok dct /\ dimension m = Some d /\
    exists m', load cast32 derive dct = Ok m' /\ m_params m' = m_params m /\ m_kind m' = m_kind m /\ m_name m' = m_name m /\
      m_features m' = m_features m /\ dimension m' = dimension m /\ m_sdim m' = m_sdim m /\ m_obs m' = m_obs m /\
      m_nclusters m' = m_nclusters m /\ m_nb_events m' = m_nb_events m /\ m_fit_metrics m' = m_fit_metrics m /\
      save ver m' = Ok dct.
Proof.
  intros Hwf Hn Hsh Hsp Hmix.
  destruct (roundtrip cast32 derive ver m Hwf Hn) as (dct & d & s & Hs & Hd & Hsd & Hl).
  exists dct, d. split; [exact Hs|]. split; [exact Hd|]. exists (reloaded cast32 derive m d s). split; [exact Hl|].
  assert (Hps : recast cast32 (decl_of m d s) (m_params m) = m_params m).
  { destruct Hwf as (fs & d' & s' & Hf & Hd' & Hdim & Hs' & _ & _ & _ & _ & _ & Hfit).
    assert (d' = d) by (unfold dimension in Hd; rewrite Hf in Hd; destruct Hdim as [E|E]; rewrite E in Hd; simpl in Hd; congruence).
    assert (s' = s) by congruence. subst. apply recast_id; [exact Hfit | now apply Hsh | exact Hsp]. }
  unfold reloaded. rewrite Hps. cbn [m_params m_kind m_name m_features m_sdim m_obs m_nclusters m_nb_events m_fit_metrics].
  repeat (split; [first [reflexivity | now rewrite Hd | now rewrite Hsd] |]).
  revert Hs. unfold save. rewrite Hd, Hsd.
  cbn [dimension m_dim m_features m_sdim m_kind m_params m_obs m_name m_fit_metrics m_nclusters m_nb_events m_mixing].
  destruct (1 <=? s)%Z eqn:E.
  - rewrite <- (Hmix d s Hd Hsd) by (now apply Z.leb_le). tauto.
  - tauto.
Qed.
End Idem.

(** ** refutations: the faithful model violates the unrestricted statements *)
Definition t1 (q : Q) : tensor := mkT [1%nat] [q].
Definition logistic_params (noise : tensor) : list (string * tensor) :=
  [("log_g_mean", t1 (1 # 2)); ("log_v0_mean", t1 (-3)); ("noise_std", noise); ("tau_mean", t1 70); ("tau_std", t1 5); ("xi_std", t1 (1 # 2))].
Definition witness (name : string) (noise : tensor) : model :=
  mkM Logistic name (Some ["Y0"]) None (Some 0%Z) [Gauss 1] None 1%Z JNull (logistic_params noise) (mkT [] []).

Lemma witness_wf name noise : List.length (t_data noise) = prod (t_shape noise) -> prod (t_shape noise) = 1%nat -> wf (witness name noise).
Proof.
  intros H1 H2. exists ["Y0"], 1%Z, 0%Z. repeat split; try reflexivity; try lia; auto; simpl; try lia.
Qed.

(** F5: a custom instance name is written as [name] and fed to [ModelName] *)
Lemma instance_name_refuted : exists m, wf m /\ forall cast derive, exists d, save "2.0.2" m = Ok d /\ load cast derive d = Err ValueError.
Proof.
  exists (witness "my-study" (t1 (1 # 8))). split; [now apply witness_wf|].
  intros cast derive. eexists. split; reflexivity.
Qed.

(** the same name in another case is accepted but not kept *)
Lemma instance_name_case_refuted : exists m, wf m /\ forall derive, exists d m', save "2.0.2" m = Ok d /\
  load (fun q => q) derive d = Ok m' /\ m_name m = "LOGISTIC" /\ m_name m' = "logistic".
Proof.
  exists (witness "LOGISTIC" (t1 (1 # 8))). split; [now apply witness_wf|].
  intros derive. eexists. eexists. repeat split; reflexivity.
Qed.

(** a default-constructed model fitted on one feature has source_dimension = 1 (floor(sqrt 1)); the loader forces 0 when
    dimension = 1 and then rejects the saved betas_mean / mixing_matrix *)
Definition univariate_default : model :=
  mkM Logistic "logistic" (Some ["Y0"]) None (Some 1%Z) [Gauss 1] None 1%Z JNull
      (("betas_mean", mkT [0%nat; 1%nat] []) :: logistic_params (mkT [] [(1 # 8)%Q])) (mkT [1%nat; 1%nat] [0%Q]).
Lemma univariate_default_refuted : forall cast derive, exists d, save "2.0.2" univariate_default = Ok d /\
  load cast derive d = Err ModelInputError.
Proof. intros. eexists. split; reflexivity. Qed.

(** after a fit with scalar noise [noise_std] has shape () instead of its declared (1,): reload works, the re-saved file differs *)
Lemma scalar_noise_shape_refuted : exists m, wf m /\ default_named m /\ single_precision (fun q => q) m /\
  forall derive, exists d m', save "2.0.2" m = Ok d /\ load (fun q => q) derive d = Ok m' /\ save "2.0.2" m' <> Ok d.
Proof.
  exists (witness "logistic" (mkT [] [(1 # 8)%Q])). split; [now apply witness_wf|]. split; [reflexivity|]. split.
  - intros n t _. apply map_id.
  - intros derive. eexists. eexists. split; [reflexivity|]. split; [reflexivity|]. discriminate.
Qed.

(** joint / mixture fits leave float64 parameters; the loader casts to float32: equal to single precision, file not reproduced *)
Lemma float64_refuted : exists m, wf m /\ default_named m /\
  (forall d s, dimension m = Some d -> m_sdim m = Some s -> declared_shapes (decl_of m d s) (m_params m)) /\
  forall derive, exists d m', save "2.0.2" m = Ok d /\ load r32 derive d = Ok m' /\ save "2.0.2" m' <> Ok d.
Proof.
  exists (witness "logistic" (t1 (1 # 3))). split; [now apply witness_wf|]. split; [reflexivity|]. split.
  - intros d s Hd Hs. unfold dimension in Hd. simpl in Hd, Hs. inversion Hd; inversion Hs; subst. simpl. tauto.
  - intros derive. eexists. eexists. split; [reflexivity|]. split; [vm_compute; reflexivity|]. vm_compute. discriminate.
Qed.

(** non-vacuity of the hypotheses of the round-trip theorems *)
Example roundtrip_hypotheses_met : wf (witness "logistic" (t1 (1 # 8))) /\ default_named (witness "logistic" (t1 (1 # 8))) /\
  single_precision r32 (witness "logistic" (t1 (1 # 8))).
Proof.
  split; [now apply witness_wf|]. split; [reflexivity|].
  intros n t H. simpl in H. repeat (destruct H as [H|H]; [inversion H; subst; vm_compute; reflexivity|]). contradiction.
Qed.
