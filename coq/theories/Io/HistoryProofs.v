(** C12 — after ANY sequence of load_parameters / fit on one model object, the population variables are the modes of their
    priors under the LAST parameters and every read is the from-scratch value under them; two model objects whose last
    parameters agree read the same everywhere, whatever their pasts (a reloaded / re-parametrised model = a fresh one).
    Same store interface and graph-shape hypotheses as Io/EndOfFitProofs.v (discharged for the real State model in
    Compose/StateHistoryProofs.v). *)
From Coq Require Import List String Bool.
From Leaspy Require Import Io.EndOfFit Io.EndOfFitProofs Io.History.
Import ListNotations.
Open Scope string_scope.
Open Scope list_scope.

Section Proofs.
Variable V St : Type.
Variable get : St -> string -> V.
Variable set : string -> V -> St -> St.
Variable clone : St -> St.
Variable stat : prior_stat -> string -> (string -> V) -> V.
Variable isset : St -> string -> bool.

Variable vals : St -> string -> V.
Variable eval : (string -> V) -> string -> V.
Variable indep : string -> bool.
Variable prior_params : string -> list string.

Notation upd := (EndOfFitProofs.upd V).

Hypothesis fresh_reads : forall s n, get s n = eval (vals s) n.
Hypothesis set_vals : forall s n v m, indep n = true -> vals (set n v s) m = upd (vals s) n v m.
Hypothesis clone_vals : forall s m, vals (clone s) m = vals s m.
Hypothesis eval_indep : forall a n, indep n = true -> eval a n = a n.
Hypothesis eval_ext : forall a a' n, (forall m, a m = a' m) -> eval a n = eval a' n.

Variable pops : list string.
Hypothesis pops_nodup : NoDup pops.
Hypothesis pops_indep : forall pp, In pp pops -> indep pp = true.
Hypothesis stat_local : forall k pp g g', (forall q, In q (prior_params pp) -> g q = g' q) -> stat k pp g = stat k pp g'.
Hypothesis prior_params_ok : forall pp q, In pp pops -> In q (prior_params pp) -> indep q = true /\ ~ In q pops.

Notation load_parameters := (load_parameters V St get set stat isset).
Notation run_event := (run_event V St get set clone stat isset).
Notation event := (event V St).
Notation run_hist := (run_hist V St).
Notation target := (target V St get stat vals).

(** ** the specification *)

(** the non-derived values of a FRESH model built from the non-population values [a] (parameters, hyper-parameters, ...):
    every population variable at the mode of its prior read under [a] *)
Definition fresh_model (a : string -> V) : string -> V :=
  fun m => if inb m pops then stat UseMode m a else a m.

(** [a] updated, left to right, with the provided parameter values (a later occurrence of a name wins) *)
Fixpoint updl (a : list (string * V)) (f : string -> V) : string -> V :=
  match a with
  | [] => f
  | pv :: r => updl r (upd f (fst pv) (snd pv))
  end.

Definition Consistent (s : St) : Prop := forall m, vals s m = fresh_model (vals s) m.
Definition at_mode (s : St) : Prop := forall pp, In pp pops -> get s pp = stat UseMode pp (get s).

(** [load_parameters] only assigns model parameters: settable, not population variables *)
Definition params_ok (a : list (string * V)) : Prop := forall p v, In (p, v) a -> indep p = true /\ ~ In p pops.
Definition event_ok (e : event) : Prop := match e with EvLoad a _ => params_ok a | EvFit _ => True | EvRead _ => True end.
(** the non-population values in force after event [e] started from [s]: the LAST parameters *)
Definition after (e : event) (s : St) : string -> V :=
  match e with EvLoad a _ => updl a (vals s) | EvFit body => vals (body s) | EvRead _ => vals s end.
(** observers that only read, after the last load_parameters / fit *)
Definition reads (rs : list (list string)) : list event := map (fun c => EvRead c) rs.

(** ** fresh_model *)

Lemma fresh_model_ext a a' : (forall q, ~ In q pops -> a q = a' q) -> forall m, fresh_model a m = fresh_model a' m.
Proof.
  intros H m. unfold fresh_model. destruct (inb m pops) eqn:E.
  - apply inb_In in E. apply stat_local. intros q Hq. apply H. now destruct (prior_params_ok m q E Hq).
  - apply H. intros Hc. apply inb_In in Hc. congruence.
Qed.

Lemma fresh_model_nonpop a q : ~ In q pops -> fresh_model a q = a q.
Proof. intros H. unfold fresh_model. destruct (inb q pops) eqn:E; [|reflexivity]. apply inb_In in E. contradiction. Qed.

Lemma fresh_model_idem a m : fresh_model (fresh_model a) m = fresh_model a m.
Proof.
  unfold fresh_model at 1. destruct (inb m pops) eqn:E.
  - unfold fresh_model at 2. rewrite E. apply inb_In in E. apply stat_local. intros q Hq.
    apply fresh_model_nonpop. now destruct (prior_params_ok m q E Hq).
  - reflexivity.
Qed.

Lemma stat_get_vals s pp : In pp pops -> stat UseMode pp (get s) = stat UseMode pp (vals s).
Proof.
  intros Hp. apply stat_local. intros q Hq. destruct (prior_params_ok pp q Hp Hq) as [Hi _].
  now rewrite fresh_reads, eval_indep.
Qed.

Lemma target_fresh s m : target UseMode s pops m = fresh_model (vals s) m.
Proof.
  unfold EndOfFitProofs.target, fresh_model. destruct (inb m pops) eqn:E; [|reflexivity].
  apply inb_In in E. now apply stat_get_vals.
Qed.

(** put_population_latent_variables(PRIOR_MODE) on any state *)
Lemma put_pop_vals s m :
  vals (put_population V St get set stat init_route InitMode pops s) m = fresh_model (vals s) m.
Proof.
  rewrite <- target_fresh.
  exact (put_population_vals V St get set stat vals eval indep prior_params fresh_reads set_vals eval_indep pops pops_indep
           stat_local prior_params_ok UseMode init_route InitMode eq_refl pops [] s s
           (fun _ h => h) (fun _ h => match h with end) pops_nodup (fun _ _ h => h) (fun _ => eq_refl) m).
Qed.

Lemma consistent_of_vals s a : (forall m, vals s m = fresh_model a m) -> Consistent s.
Proof.
  intros H m. rewrite H. symmetry. rewrite (fresh_model_ext (vals s) (fresh_model a)) by (intros; apply H).
  apply fresh_model_idem.
Qed.

Lemma consistent_at_mode s : Consistent s -> at_mode s.
Proof.
  intros H pp Hp. rewrite fresh_reads, eval_indep by now apply pops_indep. rewrite H. unfold fresh_model.
  assert (E : inb pp pops = true) by now apply inb_In. rewrite E. symmetry. now apply stat_get_vals.
Qed.

Lemma consistent_reads s : Consistent s -> forall n, get s n = eval (fresh_model (vals s)) n.
Proof. intros H n. rewrite fresh_reads. apply eval_ext. exact H. Qed.

(** two consistent states with the same non-population values read the same, everywhere *)
Lemma consistent_independent s1 s2 :
  Consistent s1 -> Consistent s2 -> (forall q, ~ In q pops -> vals s1 q = vals s2 q) -> forall n, get s1 n = get s2 n.
Proof.
  intros H1 H2 H n. rewrite (consistent_reads s1 H1), (consistent_reads s2 H2). apply eval_ext. now apply fresh_model_ext.
Qed.

(** ** assigning the parameters *)

Lemma upd_ext f f' p v : (forall m, f m = f' m) -> forall m, upd f p v m = upd f' p v m.
Proof. intros H m. unfold EndOfFitProofs.upd. now destruct (String.eqb m p). Qed.

Lemma updl_ext a : forall f f', (forall m, f m = f' m) -> forall m, updl a f m = updl a f' m.
Proof. induction a as [|pv r IH]; intros f f' H m; cbn; [apply H|]. apply IH. now apply upd_ext. Qed.

Lemma updl_agree a : forall f f' q, In q (map fst a) \/ f q = f' q -> updl a f q = updl a f' q.
Proof.
  induction a as [|pv r IH]; intros f f' q H; cbn.
  - destruct H as [[]|H]. exact H.
  - apply IH. destruct H as [[H|H]|H].
    + right. unfold EndOfFitProofs.upd. subst q. now rewrite String.eqb_refl.
    + now left.
    + right. unfold EndOfFitProofs.upd. now destruct (String.eqb q (fst pv)).
Qed.

Lemma updl_notin a : forall f p, ~ In p (map fst a) -> updl a f p = f p.
Proof.
  induction a as [|pv r IH]; intros f p H; cbn; [reflexivity|].
  rewrite IH by (intros Hc; apply H; now right). unfold EndOfFitProofs.upd.
  destruct (String.eqb p (fst pv)) eqn:E; [|reflexivity]. apply String.eqb_eq in E. exfalso. apply H. now left.
Qed.

Lemma updl_in a : forall f p v, NoDup (map fst a) -> In (p, v) a -> updl a f p = v.
Proof.
  induction a as [|pv r IH]; intros f p v ND H; [destruct H|]. cbn. inversion ND as [|? ? Hn NDr]; subst.
  destruct H as [->|H].
  - rewrite updl_notin by exact Hn. cbn. unfold EndOfFitProofs.upd. now rewrite String.eqb_refl.
  - now apply IH.
Qed.

Lemma assign_vals a : forall s f, (forall p v, In (p, v) a -> indep p = true) -> (forall m, vals s m = f m) ->
  forall m, vals (assign_params V St set a s) m = updl a f m.
Proof.
  induction a as [|pv r IH]; intros s f Ha H m; cbn; [apply H|].
  apply IH; [intros p v Hp; apply (Ha p v); now right|]. intros m'.
  rewrite set_vals by (apply (Ha (fst pv) (snd pv)); left; now destruct pv). now apply upd_ext.
Qed.

(** ** one load_parameters *)

Lemma load_is a s : load_parameters pops a s = put_population V St get set stat init_route InitMode pops (assign_params V St set a s).
Proof. reflexivity. Qed.

Lemma load_vals a s : params_ok a -> forall m, vals (load_parameters pops a s) m = fresh_model (updl a (vals s)) m.
Proof.
  intros Ha m. rewrite load_is, put_pop_vals. apply fresh_model_ext. intros q _.
  apply assign_vals; [intros p v Hp; now destruct (Ha p v Hp) | reflexivity].
Qed.

Theorem load_parameters_spec a s : params_ok a ->
  let s' := load_parameters pops a s in
  (* every population variable is the mode of its prior, read under the NEW parameters *)
  at_mode s' /\
  (* the parameters are the provided ones; what was not provided is unchanged *)
  (NoDup (map fst a) -> forall p v, In (p, v) a -> get s' p = v) /\
  (forall q, indep q = true -> ~ In q pops -> ~ In q (map fst a) -> get s' q = get s q) /\
  (* every read is the from-scratch value of a fresh model with those parameters *)
  (forall n, get s' n = eval (fresh_model (updl a (vals s))) n).
Proof.
  intros Ha s'. pose proof (load_vals a s Ha) as Hv. fold s' in Hv.
  split; [exact (consistent_at_mode s' (consistent_of_vals s' _ Hv))|]. split; [|split].
  - intros ND p v Hp. destruct (Ha p v Hp) as [Hi Hn].
    now rewrite fresh_reads, eval_indep, Hv, fresh_model_nonpop, (updl_in a _ p v ND Hp).
  - intros q Hi Hn Hk. now rewrite !fresh_reads, !eval_indep, Hv, fresh_model_nonpop, updl_notin.
  - intros n. rewrite fresh_reads. apply eval_ext. exact Hv.
Qed.

(** ** one event *)

Lemma event_vals e s : event_ok e -> is_read e = false ->
  exists y, run_event pops s e = Some y /\ forall m, vals y m = fresh_model (after e s) m.
Proof.
  destruct e as [a cmp|body|cmp]; intros Hok Hr; cbn; [| |discriminate].
  - eexists. split; [reflexivity|]. now apply load_vals.
  - destruct (end_of_fit_installed V St get set clone stat vals eval indep prior_params fresh_reads set_vals clone_vals eval_indep
                pops pops_nodup pops_indep stat_local prior_params_ok (body s)) as [y [E Hy]].
    exists y. split; [exact E|]. intros m. rewrite Hy. apply target_fresh.
Qed.

Lemma event_total e s : event_ok e -> exists y, run_event pops s e = Some y.
Proof.
  intros Hok. destruct (is_read e) eqn:Hr.
  - destruct e; try discriminate. now exists s.
  - destruct (event_vals e s Hok Hr) as (y & Hy & _). now exists y.
Qed.

(** ** histories, for any runner that leaves the same non-derived values as the scripts of Io/History.v *)
Section Runner.
Variable rn : St -> event -> option St.
Hypothesis rn_sim : forall s e, event_ok e ->
  exists x y, rn s e = Some x /\ run_event pops s e = Some y /\ forall m, vals x m = vals y m.

Lemma rn_vals e s : event_ok e -> is_read e = false -> exists x, rn s e = Some x /\ forall m, vals x m = fresh_model (after e s) m.
Proof.
  intros Hok Hr. destruct (rn_sim s e Hok) as (x & y & Hx & Hy & Hxy). destruct (event_vals e s Hok Hr) as (y' & Hy' & Hv).
  exists x. split; [exact Hx|]. intros m. rewrite Hxy. assert (y = y') by congruence. subst. apply Hv.
Qed.

Lemma rn_total e s : event_ok e -> exists x, rn s e = Some x.
Proof. intros Hok. destruct (rn_sim s e Hok) as (x & _ & Hx & _). now exists x. Qed.

(** an observer leaves every non-derived value as it was *)
Lemma rn_read c s : exists x, rn s (EvRead c) = Some x /\ forall m, vals x m = vals s m.
Proof.
  destruct (rn_sim s (EvRead c) I) as (x & y & Hx & Hy & Hxy). cbn in Hy. injection Hy as <-. now exists x.
Qed.

Lemma hist_total h : forall s, Forall event_ok h -> exists s', run_hist rn h s = Some s'.
Proof.
  induction h as [|e r IH]; intros s Hh; cbn; [now exists s|]. inversion Hh as [|? ? He Hr]; subst.
  destruct (rn_total e s He) as (x & Hx). rewrite Hx. now apply IH.
Qed.

Lemma hist_app h1 h2 : forall s, run_hist rn (h1 ++ h2) s = match run_hist rn h1 s with Some s1 => run_hist rn h2 s1 | None => None end.
Proof.
  induction h1 as [|e' r IH]; intros s; cbn; [reflexivity|]. destruct (rn s e') as [x|]; [apply IH | reflexivity].
Qed.

Lemma reads_vals rs : forall s, exists s', run_hist rn (reads rs) s = Some s' /\ forall m, vals s' m = vals s m.
Proof.
  induction rs as [|c r IH]; intros s; cbn; [now exists s|].
  destruct (rn_read c s) as (x & Hx & Hv). rewrite Hx. destruct (IH x) as (s' & Hs' & Hv'). exists s'.
  split; [exact Hs'|]. intros m. now rewrite Hv', Hv.
Qed.

Lemma hist_last h e rs s : Forall event_ok (h ++ [e]) -> is_read e = false ->
  exists s1 s', run_hist rn h s = Some s1 /\ run_hist rn (h ++ e :: reads rs) s = Some s' /\
    forall m, vals s' m = fresh_model (after e s1) m.
Proof.
  intros Hh Hr. apply Forall_app in Hh. destruct Hh as [Hh He]. inversion He as [|? ? He' _]; subst.
  destruct (hist_total h s Hh) as [s1 H1]. destruct (rn_vals e s1 He' Hr) as (x & Hx & Hv).
  destruct (reads_vals rs x) as (s' & Hs' & Hv').
  exists s1, s'. split; [exact H1|]. split; [|intros m; now rewrite Hv', Hv]. rewrite hist_app, H1. cbn. now rewrite Hx.
Qed.

(** The statement of the property, for histories: after any sequence of load_parameters / fit / observers whose last
    load_parameters-or-fit is [e] (followed by any number of observers) *)
Theorem history_self_consistent h e rs s : Forall event_ok (h ++ [e]) -> is_read e = false ->
  exists s1 s', run_hist rn h s = Some s1 /\ run_hist rn (h ++ e :: reads rs) s = Some s' /\
    (* every population variable is the mode of its prior, read in the final state ... *)
    at_mode s' /\
    (* ... whose parameters (settable, non-population values) are the LAST ones ... *)
    (forall q, indep q = true -> ~ In q pops -> get s' q = after e s1 q) /\
    (* ... and every read — v0, mixing matrix, trajectories — is the from-scratch value of a fresh model under them *)
    (forall n, get s' n = eval (fresh_model (after e s1)) n).
Proof.
  intros Hh Hr. destruct (hist_last h e rs s Hh Hr) as (s1 & s' & H1 & H' & Hv). exists s1, s'.
  split; [exact H1|]. split; [exact H'|]. split; [exact (consistent_at_mode s' (consistent_of_vals s' _ Hv))|]. split.
  - intros q Hi Hn. now rewrite fresh_reads, eval_indep, Hv, fresh_model_nonpop.
  - intros n. rewrite fresh_reads. apply eval_ext. exact Hv.
Qed.

(** ... in particular after a last [load_parameters(a)]: the parameters are exactly the provided values *)
Corollary history_last_load_params h a cmp rs s : Forall event_ok (h ++ [EvLoad a cmp]) -> NoDup (map fst a) ->
  exists s', run_hist rn (h ++ EvLoad a cmp :: reads rs) s = Some s' /\ at_mode s' /\ forall p v, In (p, v) a -> get s' p = v.
Proof.
  intros Hh ND. destruct (history_self_consistent h _ rs s Hh eq_refl) as (s1 & s' & _ & H' & Hm & Hp & _). exists s'.
  split; [exact H'|]. split; [exact Hm|]. intros p v Hin.
  apply Forall_app in Hh. destruct Hh as [_ He]. inversion He as [|? ? Ha _]; subst. destruct (Ha p v Hin) as [Hi Hn].
  rewrite (Hp p Hi Hn). cbn. now apply updl_in.
Qed.

(** Two model objects, any two pasts: if the LAST parameters (and the other non-population values) agree, every read agrees. *)
Theorem history_independent h1 e1 r1 s1 h2 e2 r2 s2 :
  Forall event_ok (h1 ++ [e1]) -> is_read e1 = false -> Forall event_ok (h2 ++ [e2]) -> is_read e2 = false ->
  exists m1 m2 f1 f2, run_hist rn h1 s1 = Some m1 /\ run_hist rn h2 s2 = Some m2 /\
    run_hist rn (h1 ++ e1 :: reads r1) s1 = Some f1 /\ run_hist rn (h2 ++ e2 :: reads r2) s2 = Some f2 /\
    ((forall q, ~ In q pops -> after e1 m1 q = after e2 m2 q) -> forall n, get f1 n = get f2 n).
Proof.
  intros H1 R1 H2 R2. destruct (hist_last h1 e1 r1 s1 H1 R1) as (m1 & f1 & A1 & B1 & V1).
  destruct (hist_last h2 e2 r2 s2 H2 R2) as (m2 & f2 & A2 & B2 & V2).
  exists m1, m2, f1, f2. repeat (split; [assumption|]). intros Hq n.
  apply consistent_independent; [exact (consistent_of_vals f1 _ V1) | exact (consistent_of_vals f2 _ V2)|].
  intros q Hn. now rewrite V1, V2, !fresh_model_nonpop, Hq.
Qed.

(** load -> ... -> load_parameters(a) on an OLD model object reads like load_parameters(a) on a FRESH one [s0], as soon as
    what [a] does not provide (hyper-parameters, missing parameters, data) is the same in both. *)
Corollary history_vs_fresh h a cmp rs s s0 : Forall event_ok (h ++ [EvLoad a cmp]) ->
  exists s1 s' f, run_hist rn h s = Some s1 /\ run_hist rn (h ++ EvLoad a cmp :: reads rs) s = Some s' /\
    run_hist rn [EvLoad a cmp] s0 = Some f /\
    ((forall q, ~ In q pops -> ~ In q (map fst a) -> vals s1 q = vals s0 q) -> forall n, get s' n = get f n).
Proof.
  intros Hh. assert (H0 : Forall event_ok ([] ++ [EvLoad a cmp])).
  { apply Forall_app in Hh. now destruct Hh. }
  destruct (history_independent h _ rs s [] _ [] s0 Hh eq_refl H0 eq_refl) as (m1 & m2 & f1 & f2 & A1 & A2 & B1 & B2 & Hind).
  cbn in A2. injection A2 as <-. exists m1, f1, f2. split; [exact A1|]. split; [exact B1|]. split; [exact B2|].
  intros Hq. apply Hind. intros q Hn. cbn. apply updl_agree.
  destruct (in_dec string_dec q (map fst a)) as [Hk|Hk]; [now left | right; now apply Hq].
Qed.
End Runner.

(** the scripts of Io/History.v themselves *)
Lemma run_event_sim s e : event_ok e ->
  exists x y, run_event pops s e = Some x /\ run_event pops s e = Some y /\ forall m, vals x m = vals y m.
Proof. intros Hok. destruct (event_total e s Hok) as (y & Hy). exists y, y. now repeat split. Qed.

End Proofs.

(** ** Non-vacuity, and why the reset must be unconditional: the store of EndOfFitProofs.Toy *)
Module ToyHistory.
  Import EndOfFitProofs.Toy.
  Definition isset (s : St) (n : string) : bool := negb (Nat.eqb (s n) 0).
  Definition blank : St := fun _ => 0.
  Definition ev := event V St.
  (** load(7) ; a fit whose iterations leave log_v0_mean = 5 and log_v0 = 3 ; load_parameters(9) comparing v0 *)
  Definition h3 : list ev :=
    [EvLoad [("log_v0_mean", 7)] []; EvFit (fun s => set "log_v0" 3 (set "log_v0_mean" 5 s));
     EvLoad [("log_v0_mean", 9)] ["v0"]; EvRead ["v0"]].

  Example history_runs :
    exists s1 s2 s3,
      run_history V St get set clone stat isset ["log_v0"] [hd (EvFit (fun s => s)) h3] blank = Some s1 /\
      run_history V St get set clone stat isset ["log_v0"] (firstn 2 h3) blank = Some s2 /\
      run_history V St get set clone stat isset ["log_v0"] h3 blank = Some s3 /\
      (get s1 "log_v0_mean", get s1 "log_v0", get s1 "v0") = (7, 7, 14) /\
      (get s2 "log_v0_mean", get s2 "log_v0", get s2 "v0") = (5, 5, 10) /\
      (get s3 "log_v0_mean", get s3 "log_v0", get s3 "v0") = (9, 9, 18).
  Proof. do 3 eexists. repeat split. Qed.

  Example history_events_ok : Forall (event_ok V St indep ["log_v0"]) h3.
  Proof.
    assert (L : forall n, params_ok V indep ["log_v0"] [("log_v0_mean", n)]).
    { intros n p v [H|[]]. injection H as <- <-. split; [reflexivity|]. intros [H|[]]. discriminate. }
    constructor; [apply L|]. constructor; [exact I|]. constructor; [apply L|]. constructor; [exact I|]. constructor.
  Qed.

  (** the same statements with the reset guarded by "only if the population variables are not all set":
      the second load_parameters keeps log_v0 = 7 and v0 = 14 although the prior mode under the new parameter is 9 *)
  Definition guarded_ops : list lp_op :=
    [LpInitState; LpWarnMissing; LpRefuseUnknown; LpReshape; LpAssignParams; LpIfPopsUnset (LpPutPop InitMode); LpCompareDerived].
  Definition guarded_load := run_lp V St get set stat isset init_route guarded_ops ["log_v0"].

  Example guarded_reset_refuted :
    let s1 := guarded_load [("log_v0_mean", 7)] blank in
    let s2 := guarded_load [("log_v0_mean", 9)] s1 in
    (get s1 "log_v0", get s1 "v0") = (7, 14) /\
    get s2 "log_v0_mean" = 9 /\ stat UseMode "log_v0" (get s2) = 9 /\ (get s2 "log_v0", get s2 "v0") = (7, 14) /\
    guarded_ops <> load_parameters_ops.
  Proof. repeat split. discriminate. Qed.
End ToyHistory.
