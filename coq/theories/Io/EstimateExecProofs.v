(** C09 — the hypotheses of the [estimate] theorems hold for the executable instantiation (non-vacuity), and the faithful
    model multiplies rows on a repeated (ID, TIME) pair (finding F8). *)
From Coq Require Import List Bool String QArith ZArith.
From Leaspy Require Import Io.Estimate Io.EstimateProofs Io.EstimateExec.
Import ListNotations.

Lemma string_eqb_spec' a b : String.eqb a b = true <-> a = b.
Proof. apply String.eqb_eq. Qed.

Lemma Qeqb_spec a b : Qeqb a b = true <-> a = b.
Proof.
  destruct a as [n1 d1], b as [n2 d2]. unfold Qeqb. simpl.
  rewrite andb_true_iff, Z.eqb_eq, Pos.eqb_eq. split.
  - intros [-> ->]. reflexivity.
  - intros H. injection H. auto.
Qed.

(** the general theorem, instantiated: hypotheses discharged *)
Lemma estimate_tag_index ix : NoDup ix ->
  estimate_tag (InIndex ix) None = OutFrame (map (fun k => (fst k, snd k, Some (tag (fst k) (snd k)))) ix).
Proof.
  intros H. unfold estimate_tag.
  apply (estimate_index string Q (string * Q) String.eqb String.leb Qeqb string_eqb_spec' Qeqb_spec tag ix None);
    [now left | assumption].
Qed.

(** non-vacuity: an unsorted request over two individuals, no repeated pair, comes back as requested *)
Example estimate_index_example :
  let ix := [("b"%string, 75 # 1); ("a"%string, 70 # 1); ("b"%string, 71 # 1)] in
  NoDup ix /\
  estimate_tag (InIndex ix) None = OutFrame (map (fun k => (fst k, snd k, Some (tag (fst k) (snd k)))) ix).
Proof.
  split; [|vm_compute; reflexivity].
  repeat constructor; simpl; intuition congruence.
Qed.

Lemma f8_refuted :
  exists (ix : index string Q) rows,
    estimate_tag (InIndex ix) None = OutFrame rows /\ List.length ix = 4%nat /\ List.length rows = 6%nat.
Proof.
  exists f8_request. eexists. split; [vm_compute; reflexivity|]. split; reflexivity.
Qed.

(** hence the statement "a MultiIndex request returns exactly the requested rows" is false on the model of the code *)
Lemma estimate_index_refuted :
  ~ (forall ix : index string Q,
       estimate_tag (InIndex ix) None = OutFrame (map (fun k => (fst k, snd k, Some (tag (fst k) (snd k)))) ix)).
Proof.
  intros H. specialize (H f8_request). vm_compute in H. discriminate H.
Qed.
