(** C09 — the hypotheses of the [estimate] theorems hold for the executable instantiation (non-vacuity), with concrete
    requests: repeated (ID, TIME) pairs, interleaved individuals, unsorted ages, a unique age in a dict request. *)
From Coq Require Import List Bool String QArith ZArith.
From Leaspy Require Import Io.Estimate Io.EstimateProofs Io.EstimateExec.
Import ListNotations.

Lemma string_eqb_spec' a b : String.eqb a b = true <-> a = b.
Proof. apply String.eqb_eq. Qed.

Lemma Qeqb_spec a b : Qeqb a b = true <-> a = b.
Proof.
  destruct a as [n1 d1], b as [n2 d2]. unfold Qeqb. simpl.
  rewrite andb_true_iff, Z.eqb_eq, Pos.eqb_eq. split.
  - intros [-> ->]. reflexivity.
  - intros H. injection H. auto.
Qed.

(** the full theorem, instantiated: hypotheses discharged, no condition on the request left *)
Lemma estimate_tag_index ix :
  estimate_tag (InIndex ix) None = OutFrame (map (fun k => (fst k, snd k, Some (tag (fst k) (snd k)))) ix).
Proof.
  unfold estimate_tag.
  apply (estimate_index string Q (string * Q) String.eqb String.leb Qeqb string_eqb_spec' Qeqb_spec tag ix None).
  now left.
Qed.

(** non-vacuity, computed: the request with a repeated pair (4 rows: b, a, b, b — b's ages 75, 71, 75 unsorted) comes
    back as its 4 rows, in the requested order *)
Example estimate_index_example :
  ~ NoDup f8_request /\
  estimate_tag (InIndex f8_request) None =
  OutFrame [("b"%string, 75 # 1, Some ("b"%string, 75 # 1)); ("a"%string, 70 # 1, Some ("a"%string, 70 # 1));
            ("b"%string, 71 # 1, Some ("b"%string, 71 # 1)); ("b"%string, 75 # 1, Some ("b"%string, 75 # 1))].
Proof.
  split; [|vm_compute; reflexivity].
  intros H. inversion H as [|x l Hx _]. apply Hx. right. right. now left.
Qed.

(** individuals alternating, index sorted by TIME across individuals, a pair repeated non-adjacently *)
Example estimate_index_interleaved_example :
  let ix := [("b"%string, 70 # 1); ("a"%string, 71 # 1); ("b"%string, 72 # 1); ("a"%string, 73 # 1);
             ("b"%string, 70 # 1); ("a"%string, 141 # 2)] in
  estimate_tag (InIndex ix) (Some true) = OutFrame (map (fun k => (fst k, snd k, Some (tag (fst k) (snd k)))) ix).
Proof. vm_compute. reflexivity. Qed.

(** the de-duplication is what makes it hold: the requested index joined with the concatenated frame itself (the code
    before the repair) has 6 rows for this request *)
Example join_without_first_rows_example :
  forall fr, frame string Q (string * Q) (fun i a => map (tag i) (atleast_1d Q a))
                   (group string Q String.eqb String.leb f8_request) = Some fr ->
  List.length (join string Q (string * Q) String.eqb Qeqb f8_request fr) = 6%nat /\
  List.length (join string Q (string * Q) String.eqb Qeqb f8_request (first_rows string Q (string * Q) String.eqb Qeqb [] fr)) = 4%nat.
Proof. intros fr H. vm_compute in H. injection H as <-. split; vm_compute; reflexivity. Qed.

(** a dict request with a unique age, a list of ages (unsorted, one repeated) and no age *)
Example estimate_dict_example :
  let req := [("b"%string, One (75 # 1)); ("a"%string, Many [72 # 1; 70 # 1; 72 # 1]); ("c"%string, Many [])] in
  estimate_tag (InDict req) (Some true) =
    OutFrame [("b"%string, 75 # 1, Some ("b"%string, 75 # 1)); ("a"%string, 72 # 1, Some ("a"%string, 72 # 1));
              ("a"%string, 70 # 1, Some ("a"%string, 70 # 1)); ("a"%string, 72 # 1, Some ("a"%string, 72 # 1))]
  /\ estimate_tag (InDict req) None =
    OutDict [("b"%string, [("b"%string, 75 # 1)]);
             ("a"%string, [("a"%string, 72 # 1); ("a"%string, 70 # 1); ("a"%string, 72 # 1)]); ("c"%string, [])].
Proof. split; vm_compute; reflexivity. Qed.
