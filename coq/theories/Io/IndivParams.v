(** C16 — model of [leaspy.io.outputs.individual_parameters.IndividualParameters]
    (src/leaspy/io/outputs/individual_parameters.py).  Definitions only; proofs are in IndivParamsProofs.v.

    The container is the three private fields of the class (l. 40-44):
      _indices                : ordered list of IDs,
      _individual_parameters  : dict ID -> dict name -> value   (insertion-ordered association lists),
      _parameters_shape       : None | dict name -> shape       (shape () = [] , (n,) = [n]).
    Values are exact rationals tagged with the Python type that carries them (the tag matters for
    json.dump, l. 677).  Errors are values: [InputError] = LeaspyIndividualParamsInputError,
    [Crash] = any other exception, [Unmodelled] = the input leaves the modelled fragment (said explicitly,
    never totalised).  Everything here is executable ([vm_compute]) and is run against the implementation
    on every check (harness/props/c16.py). *)
From Coq Require Import List String Ascii Bool Arith QArith.
From Coq Require Import Decimal DecimalString.
Import ListNotations.
Open Scope string_scope.

(* ------------------------------------------------------------------------------------------ errors *)

Inductive err := InputError | Crash | Unmodelled.
Inductive res (A : Type) := Ok (a : A) | Err (e : err).
Arguments Ok {A} a.
Arguments Err {A} e.

Definition bind {A B} (r : res A) (f : A -> res B) : res B :=
  match r with Ok a => f a | Err e => Err e end.
Notation "'do' x <- r ; k" := (bind r (fun x => k)) (at level 200, x name, r at level 100, k at level 200).

Fixpoint mapM {A B} (f : A -> res B) (l : list A) : res (list B) :=
  match l with
  | [] => Ok []
  | a :: r => do b <- f a; do bs <- mapM f r; Ok (b :: bs)
  end.

(* ------------------------------------------------------------------------------------------ strings *)

(** [name.split("_")[0]] (l. 424) *)
Fixpoint before_underscore (s : string) : string :=
  match s with
  | EmptyString => EmptyString
  | String c r => if Ascii.eqb c "_" then EmptyString else String c (before_underscore r)
  end.

Fixpoint has_char (c : ascii) (s : string) : bool :=
  match s with
  | EmptyString => false
  | String d r => Ascii.eqb d c || has_char c r
  end.

(** [sub in s] (l. 381: ["source" not in p_name]) *)
Fixpoint contains (sub s : string) : bool :=
  match s with
  | EmptyString => String.eqb sub EmptyString
  | String _ r => String.prefix sub s || contains sub r
  end.

(** [str(i)] *)
Definition str_nat (n : nat) : string := NilEmpty.string_of_uint (Nat.to_uint n).

Definition mem_str (s : string) (l : list string) : bool := existsb (String.eqb s) l.

Fixpoint nodup_str (l : list string) : bool :=
  match l with
  | [] => true
  | s :: r => negb (mem_str s r) && nodup_str r
  end.

(* ------------------------------------------------------------------------------------------ dicts *)

Fixpoint lookup {A} (k : string) (l : list (string * A)) : option A :=
  match l with
  | [] => None
  | (k', v) :: r => if String.eqb k k' then Some v else lookup k r
  end.

(** [d[k] = v]: overwrite in place when the key exists (the position is kept), else append *)
Fixpoint assoc_set {A} (k : string) (v : A) (l : list (string * A)) : list (string * A) :=
  match l with
  | [] => [(k, v)]
  | (k', v') :: r => if String.eqb k k' then (k, v) :: r else (k', v') :: assoc_set k v r
  end.

(* ------------------------------------------------------------------------------------------ values *)

(** The Python type carrying a number.  The first six are [valid_scalar_types] (l. 121-128);
    [KNpOther] stands for any other numpy scalar type (np.float16, np.int8, ...). *)
Inductive numkind := KInt | KFloat | KNpInt32 | KNpInt64 | KNpFloat32 | KNpFloat64 | KNpOther.

Definition kind_valid (k : numkind) : bool :=
  match k with KNpOther => false | _ => true end.

(** what [json.dump] accepts: python int, python float and its subclass np.float64 *)
Definition kind_json (k : numkind) : bool :=
  match k with KInt | KFloat | KNpFloat64 => true | _ => false end.

(** the type a value has after [json.load] *)
Definition kind_after_json (k : numkind) : numkind :=
  match k with KNpFloat64 => KFloat | k => k end.

Definition num := (numkind * Q)%type.

Inductive value := Scalar (x : num) | Vec (l : list num).

Definition shape := list nat.      (* () = [] ; (n,) = [n] *)

Definition shape_of (v : value) : shape :=
  match v with Scalar _ => [] | Vec l => [List.length l] end.

(** [functools.reduce(operator.mul, shape, 1)] (l. 64) *)
Definition size_of_shape (s : shape) : nat := fold_left Nat.mul s 1%nat.

Definition entry := list (string * value).
Definition shapes_t := list (string * shape).

Record container := mkC {
  indices : list string;
  params : list (string * entry);
  shapes : option shapes_t
}.

Definition empty : container := mkC [] [] None.

(* ------------------------------------------------------------------------------------------ add *)

(** What a caller can hand to [add_individual_parameters]. *)
Inductive pyid := IdStr (s : string) | IdNotStr.

Inductive atom :=
  | ANum (k : numkind) (q : Q)
  | ABool | AStr | ANone        (* bool, str, None *)
  | ANested                      (* a list / tuple inside a list *)
  | AOther.                      (* tensor, tuple, dict, ... *)

Inductive pyval :=
  | VAtom (a : atom)             (* not a list, not an ndarray *)
  | VList (l : list atom)        (* python list *)
  | VArr0 (isint : bool) (q : Q)         (* 0-d ndarray *)
  | VArr1 (isint : bool) (l : list Q)    (* 1-d ndarray *)
  | VArrNd (outer : nat).        (* >= 2-d ndarray with [outer] rows *)

Inductive pyarg := ArgDict (d : list (string * pyval)) | ArgNotDict.

Definition arr_kind (isint : bool) : numkind := if isint then KInt else KFloat.

(** l. 114-117: [v.tolist() if isinstance(v, np.ndarray) else v] *)
Definition tolist (v : pyval) : pyval :=
  match v with
  | VArr0 i q => VAtom (ANum (arr_kind i) q)
  | VArr1 i l => VList (map (fun q => ANum (arr_kind i) q) l)
  | VArrNd n => VList (repeat ANested n)
  | v => v
  end.

Definition atom_valid (a : atom) : bool :=
  match a with ANum k _ => kind_valid k | _ => false end.

(** l. 130-139: the type of [v], or of [v[0]] for a list ([None] for the empty list), must be valid.
    Only the FIRST element of a list is looked at. *)
Definition type_ok (v : pyval) : bool :=
  match v with
  | VAtom a => atom_valid a
  | VList [] => false
  | VList (a :: _) => atom_valid a
  | _ => false  (* not reachable after [tolist] *)
  end.

(** l. 143-146 *)
Definition pshape (v : pyval) : shape :=
  match v with VList l => [List.length l] | _ => [] end.

Definition shape_eqb (a b : shape) : bool :=
  Nat.eqb (List.length a) (List.length b) && forallb (fun p => Nat.eqb (fst p) (snd p)) (combine a b).

(** Python dict equality on shape dicts (l. 151): same number of keys and every key of [a] is in [b]
    with an equal value; order is irrelevant. *)
Definition shapes_eqb (a b : shapes_t) : bool :=
  Nat.eqb (List.length a) (List.length b) &&
  forallb (fun kv => match lookup (fst kv) b with Some s => shape_eqb (snd kv) s | None => false end) a.

(** the stored form of an accepted value, when it is inside the model's value domain *)
Definition atom_num (a : atom) : option num :=
  match a with ANum k q => Some (k, q) | _ => None end.

Fixpoint atoms_nums (l : list atom) : option (list num) :=
  match l with
  | [] => Some []
  | a :: r => match atom_num a, atoms_nums r with Some x, Some xs => Some (x :: xs) | _, _ => None end
  end.

Definition store (v : pyval) : option value :=
  match v with
  | VAtom a => option_map Scalar (atom_num a)
  | VList l => option_map Vec (atoms_nums l)
  | _ => None
  end.

Fixpoint store_all (d : list (string * pyval)) : option entry :=
  match d with
  | [] => Some []
  | (k, v) :: r => match store v, store_all r with Some x, Some xs => Some ((k, x) :: xs) | _, _ => None end
  end.

Inductive addres :=
  | Added (c : container)
  | Rejected (e : err)
  | AcceptedOutsideModel.   (* the code ACCEPTS the entry but it holds non-numeric elements (list tail) *)

(** [add_individual_parameters] (l. 68-159), check by check and in the code's order. *)
Definition add (c : container) (id : pyid) (arg : pyarg) : addres :=
  match id with
  | IdNotStr => Rejected InputError                                   (* l. 97 *)
  | IdStr s =>
    if mem_str s (indices c) then Rejected InputError                 (* l. 102 *)
    else match arg with
    | ArgNotDict => Rejected InputError                               (* l. 108 *)
    | ArgDict d0 =>
      let d := map (fun kv => (fst kv, tolist (snd kv))) d0 in        (* l. 114 *)
      if negb (forallb (fun kv => type_ok (snd kv)) d) then Rejected InputError   (* l. 120-139 *)
      else
        let psh := map (fun kv => (fst kv, pshape (snd kv))) d in     (* l. 143 *)
        let ok := match shapes c with None => true | Some sh => shapes_eqb sh psh end in
        if negb ok then Rejected InputError                           (* l. 151 *)
        else match store_all d with
        | None => AcceptedOutsideModel
        | Some e =>
          Added (mkC (indices c ++ [s])%list (params c ++ [(s, e)])%list
                     (match shapes c with None => Some psh | Some sh => Some sh end))
        end
    end
  end.

(** adding a sequence; the first rejection aborts (an exception propagates) *)
Fixpoint add_all (c : container) (l : list (pyid * pyarg)) : res container :=
  match l with
  | [] => Ok c
  | (i, a) :: r =>
    match add c i a with
    | Added c' => add_all c' r
    | Rejected e => Err e
    | AcceptedOutsideModel => Err Unmodelled
    end
  end.

(* ------------------------------------------------------------------------------------------ table *)

(** A DataFrame: column labels and rows (index label, cell values).  Cells are exact rationals: the
    python type of a number does not survive pandas' per-column / per-row dtype unification. *)
Record table := mkT { cols : list string; rows : list (pyid * list Q) }.

Definition value_cells (v : value) : list Q :=
  match v with Scalar x => [snd x] | Vec l => map snd l end.

Definition opt_res {A} (o : option A) (e : err) : res A :=
  match o with Some a => Ok a | None => Err e end.

(** l. 371-375 ; a missing key is a KeyError, [list += scalar] a TypeError *)
Definition row_cells (sh : shapes_t) (e : entry) : res (list Q) :=
  do cells <- mapM (fun ps =>
      do v <- opt_res (lookup (fst ps) e) Crash;
      match snd ps, v with
      | [], Scalar x => Ok [snd x]
      | [], Vec l => Err Unmodelled            (* a list in one cell: object column *)
      | _ :: _, Vec l => Ok (map snd l)
      | _ :: _, Scalar _ => Err Crash          (* list += number *)
      end) sh;
  Ok (List.concat cells).

(** l. 380-386.  [range(p_shape[0])] on the empty shape is the IndexError of finding F7a. *)
Definition col_names (ps : string * shape) : res (list string) :=
  let (p, s) := ps in
  if shape_eqb s [1%nat] && negb (contains "source" p) then Ok [p]
  else match s with
       | [] => Err Crash                        (* p_shape[0] : IndexError *)
       | n :: _ => Ok (map (fun i => p ++ "_" ++ str_nat i) (seq 0 n))
       end.

(** [to_dataframe] (l. 347-389) *)
Definition to_dataframe (c : container) : res table :=
  match shapes c with
  | None => Err Crash                           (* None.items() : AttributeError *)
  | Some sh =>
    do rws <- mapM (fun idx =>
        do e <- opt_res (lookup idx (params c)) Crash;
        do cells <- row_cells sh e;
        Ok (IdStr idx, cells)) (indices c);
    do names <- mapM col_names sh;
    let names := List.concat names in
    if mem_str "ID" names then Err Unmodelled    (* a parameter column called like the index column *)
    else if negb (forallb (fun r => Nat.eqb (List.length (snd r)) (List.length names)) rws) then Err Crash
    else Ok (mkT names rws)
  end.

(** how [from_dataframe] reads the cells of a parameter: one column, or a list of columns *)
Inductive colspec := Single (col : string) | Multi (cs : list string).

(** l. 422-430, including what happens when a plain column meets a prefixed one *)
Fixpoint group_cols (names : list string) (acc : list (string * colspec)) : res (list (string * colspec)) :=
  match names with
  | [] => Ok acc
  | name :: r =>
    let split := before_underscore name in
    if String.eqb split name then group_cols r (assoc_set name (Single name) acc)
    else match lookup split acc with
         | None => group_cols r (acc ++ [(split, Multi [name])])%list
         | Some (Multi l) => group_cols r (assoc_set split (Multi (l ++ [name])%list) acc)
         | Some (Single _) => Err Crash          (* 'str' object has no attribute 'append' *)
         end
  end.

Definition row_value (header : list string) (cells : list Q) (cs : colspec) : res pyval :=
  let r := combine header cells in
  match cs with
  | Single c => do x <- opt_res (lookup c r) Crash; Ok (VArr1 false [x])
  | Multi l => do xs <- mapM (fun c => opt_res (lookup c r) Crash) l; Ok (VArr1 false xs)
  end.

(** [from_dataframe] (l. 391-444) *)
Definition from_dataframe (t : table) : res container :=
  if negb (nodup_str (cols t)) then Err Unmodelled     (* duplicated labels: pandas returns frames, not cells *)
  else
  do groups <- group_cols (cols t) [];
  fold_left (fun acc row =>
      do c <- acc;
      do d <- mapM (fun g => do v <- row_value (cols t) (snd row) (snd g); Ok (fst g, v)) groups;
      match add c (fst row) (ArgDict d) with
      | Added c' => Ok c'
      | Rejected e => Err e
      | AcceptedOutsideModel => Err Unmodelled
      end) (rows t) (Ok empty).

(* ------------------------------------------------------------------------------------------ tensors *)

(** a torch tensor whose first axis is the individuals: 1-D, or 2-D given by rows *)
Inductive tensor := T1 (l : list Q) | T2 (rows : list (list Q)).

Definition tensor_len (t : tensor) : nat :=
  match t with T1 l => List.length l | T2 r => List.length r end.

Section Torch.
  (** rounding to single precision, kept abstract: [torch.tensor(..., dtype=torch.float32)] *)
  Variable rnd : Q -> Q.

  (** [to_pytorch] (l. 496-523): one (n, size) tensor per parameter, in the order of [_parameters_shape] *)
  Definition to_pytorch (c : container) : res (list string * list (string * list (list Q))) :=
    match shapes c with
    | None => Err Crash
    | Some sh =>
      do d <- mapM (fun ps =>
          do rws <- mapM (fun idx =>
              do e <- opt_res (lookup idx (params c)) Crash;
              do v <- opt_res (lookup (fst ps) e) Crash;
              let cells := map rnd (value_cells v) in
              if Nat.eqb (List.length cells) (size_of_shape (snd ps)) then Ok cells else Err Crash) (indices c);
          Ok (fst ps, rws)) sh;
      Ok (indices c, d)
    end.
End Torch.

Definition tensor_row (t : tensor) (i : nat) : res pyval :=
  match t with
  | T1 l => do x <- opt_res (nth_error l i) Crash; Ok (VAtom (ANum KFloat x))
  | T2 r => do x <- opt_res (nth_error r i) Crash; Ok (VList (map (fun q => ANum KFloat q) x))
  end.

(** [from_pytorch] (l. 446-494) *)
Definition from_pytorch (ids : list pyid) (d : list (string * tensor)) : res container :=
  if negb (forallb (fun kt => Nat.eqb (tensor_len (snd kt)) (List.length ids)) d) then Err InputError   (* l. 478-483 *)
  else
  fold_left (fun acc ii =>
      do c <- acc;
      do p <- mapM (fun kt => do v <- tensor_row (snd kt) (fst ii); Ok (fst kt, v)) d;
      match add c (snd ii) (ArgDict p) with
      | Added c' => Ok c'
      | Rejected e => Err e
      | AcceptedOutsideModel => Err Unmodelled
      end) (combine (seq 0 (List.length ids)) ids) (Ok empty).

(* ------------------------------------------------------------------------------------------ json *)

(** the file content, as the three json members written by [_save_json] (l. 667-671) *)
Record json := mkJ {
  j_indices : list string;
  j_params : list (string * entry);      (* kinds restricted to KInt / KFloat by construction below *)
  j_shapes : list (string * list nat)
}.

Definition value_kinds (v : value) : list numkind :=
  match v with Scalar x => [fst x] | Vec l => map fst l end.

Definition value_map_kind (f : numkind -> numkind) (v : value) : value :=
  match v with Scalar (k, q) => Scalar (f k, q) | Vec l => Vec (map (fun x => (f (fst x), snd x)) l) end.

Definition entry_map (f : value -> value) (e : entry) : entry := map (fun pv => (fst pv, f (snd pv))) e.

Definition params_map (f : value -> value) (p : list (string * entry)) : list (string * entry) :=
  map (fun ie => (fst ie, entry_map f (snd ie))) p.

Definition json_serialisable (c : container) : bool :=
  forallb (fun ie => forallb (fun pv => forallb kind_json (value_kinds (snd pv))) (snd ie)) (params c).

(** [_save_json]; a numpy scalar other than np.float64 makes [json.dump] raise TypeError *)
Definition to_json (c : container) : res json :=
  match shapes c with
  | None => Err InputError                       (* [save] refuses the empty container, l. 557 *)
  | Some sh =>
    if json_serialisable c
    then Ok (mkJ (indices c) (params_map (value_map_kind kind_after_json) (params c)) sh)
    else Err Crash
  end.

(** [_load_json] (l. 699-725): the three members are installed as they are *)
Definition from_json (j : json) : container :=
  mkC (j_indices j) (j_params j) (Some (j_shapes j)).

(* ------------------------------------------------------------------------------------------ csv *)

(** pandas' default NA tokens: such an ID is read back as NaN (a float), whatever [dtype] says *)
Definition na_tokens : list string :=
  [""; "#N/A"; "#N/A N/A"; "#NA"; "-1.#IND"; "-1.#QNAN"; "-NaN"; "-nan"; "1.#IND"; "1.#QNAN";
   "<NA>"; "N/A"; "NA"; "NULL"; "NaN"; "None"; "n/a"; "nan"; "null"].

(** The csv file is the table written as text and parsed again: labels are strings, the ID column is read with
    [dtype=str] (l. 694) so "007" stays "007"; numbers are rendered exactly (on the dyadic test domain). *)
Definition csv_reread (t : table) : res table :=
  if existsb (String.eqb "") (cols t) then Err Unmodelled      (* pandas renames empty labels *)
  else if negb (nodup_str (cols t)) then Err Unmodelled         (* pandas renames duplicated labels *)
  else Ok (mkT (cols t)
               (map (fun r => (match fst r with
                               | IdStr s => if mem_str s na_tokens then IdNotStr else IdStr s
                               | IdNotStr => IdNotStr end, snd r)) (rows t))).

Definition csv_roundtrip (c : container) : res container :=
  match shapes c with
  | None => Err InputError                       (* l. 557 *)
  | Some _ => do t <- to_dataframe c; do t' <- csv_reread t; from_dataframe t'
  end.

(* ------------------------------------------------------------------------------------------ paths *)

Fixpoint after_last (c : ascii) (s : string) : option string :=
  match s with
  | EmptyString => None
  | String d r =>
    match after_last c r with
    | Some x => Some x
    | None => if Ascii.eqb d c then Some r else None
    end
  end.

Fixpoint drop_leading (c : ascii) (s : string) : string :=
  match s with
  | String d r => if Ascii.eqb d c then drop_leading c r else s
  | EmptyString => EmptyString
  end.

(** [_check_and_get_extension] (l. 620-640) = os.path.splitext on a POSIX path *)
Definition get_extension (path : string) : option string :=
  let base := match after_last "/" path with Some b => b | None => path end in
  after_last "." (drop_leading "." base).

Inductive fmt := Csv | Json.

(** which file [save] writes (l. 557-579): the path actually used and the format *)
Definition save_target (c : container) (path : string) : res (string * fmt) :=
  match shapes c with
  | None => Err InputError
  | Some _ =>
    match get_extension path with
    | None => Ok (path ++ ".csv", Csv)
    | Some e => if String.eqb e "csv" then Ok (path, Csv)
                else if String.eqb e "json" then Ok (path, Json)
                else Err InputError
    end
  end.

(** which reader [load] uses (l. 606-616) *)
Definition load_format (path : string) : res fmt :=
  match get_extension path with
  | Some e => if String.eqb e "csv" then Ok Csv else if String.eqb e "json" then Ok Json else Err InputError
  | None => Err InputError
  end.

(** [save(path)] then [load(path')] *)
Definition save_load (c : container) (path path' : string) : res container :=
  do tf <- save_target c path;
  do f' <- load_format path';
  if negb (String.eqb (fst tf) path') then Err Crash           (* FileNotFoundError *)
  else match snd tf, f' with
       | Csv, Csv => csv_roundtrip c
       | Json, Json => do j <- to_json c; Ok (from_json j)
       | _, _ => Err Unmodelled                                  (* same path, two formats: impossible *)
       end.

(* ------------------------------------------------------------------------------------------ subset *)

Definition value_to_py (v : value) : pyval :=
  match v with
  | Scalar (k, q) => VAtom (ANum k q)
  | Vec l => VList (map (fun x => ANum (fst x) (snd x)) l)
  end.

(** [subset] (l. 206-249) *)
Definition subset (c : container) (ids : list pyid) : res container :=
  if negb (forallb (fun i => match i with IdStr s => mem_str s (indices c) | IdNotStr => false end) ids)
  then Err InputError
  else add_all empty
         (map (fun i => (i, match i with
                            | IdStr s => match lookup s (params c) with
                                         | Some e => ArgDict (map (fun pv => (fst pv, value_to_py (snd pv))) e)
                                         | None => ArgNotDict end
                            | IdNotStr => ArgNotDict end)) ids).

(* ------------------------------------------------------------------------------------------ predicates used by the theorems *)

Definition pshapes (d : list (string * pyval)) : shapes_t :=
  map (fun kv => (fst kv, pshape (tolist (snd kv)))) d.

(** the type test of the code fails on this value (scalar of an unsupported type, empty list, list whose FIRST element is unsupported) *)
Definition head_unsupported (v : pyval) : Prop := type_ok (tolist v) = false.

(** what the property calls a supported value: a number of a valid type, or a non-empty list / 1-d array of such numbers *)
Definition fully_supported (v : pyval) : bool :=
  match tolist v with
  | VAtom a => atom_valid a
  | VList l => negb (Nat.eqb (List.length l) 0) && forallb atom_valid l
  | _ => false
  end.

(** state after an attempted addition: an exception leaves the object as it was *)
Definition after_add (c : container) (id : pyid) (arg : pyarg) : container :=
  match add c id arg with Added c' => c' | _ => c end.

Definition entry_shapes (e : entry) : shapes_t := map (fun pv => (fst pv, shape_of (snd pv))) e.

Definition entry_wf (sh : shapes_t) (e : entry) : Prop :=
  NoDup (map fst e) /\ shapes_eqb sh (entry_shapes e) = true /\
  Forall (fun pv => snd pv <> Vec []) e.

(** the invariant of containers built by [add] from the empty one *)
Definition wf (c : container) : Prop :=
  indices c = map fst (params c) /\ NoDup (indices c) /\
  match shapes c with
  | None => params c = []
  | Some sh => params c <> [] /\ NoDup (map fst sh) /\ Forall (fun ie => entry_wf sh (snd ie)) (params c)
  end.

Definition native_kind (k : numkind) : bool := match k with KInt | KFloat => true | _ => false end.

Definition native (c : container) : bool :=
  forallb (fun ie => forallb (fun pv => forallb native_kind (value_kinds (snd pv))) (snd ie)) (params c).

Definition cells_of (e : entry) (p : string) : list Q :=
  match lookup p e with Some v => value_cells v | None => [] end.

(** the entry as it comes back from tensors / tables: names in the order of the shape dict, every value a list of floats *)
Definition vec_form (f : Q -> Q) (sh : shapes_t) (e : entry) : entry :=
  map (fun ps => (fst ps, Vec (map (fun q => (KFloat, f q)) (cells_of e (fst ps))))) sh.

Definition vec_container (f : Q -> Q) (c : container) (sh : shapes_t) : container :=
  mkC (indices c) (map (fun ie => (fst ie, vec_form f sh (snd ie))) (params c))
      (Some (map (fun ps => (fst ps, [size_of_shape (snd ps)])) sh)).

Definition no_underscore (s : string) : Prop := has_char "_" s = false.
