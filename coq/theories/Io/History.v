(** C12 — HISTORIES on one model object: [StatefulModel.load_parameters] (models/stateful.py:308) as a script over the same
    abstract store as Io/EndOfFit.v, and sequences of load_parameters / fit on ONE model.  Definitions only.

    A model object holds one State; [load_parameters(values)] assigns the provided parameters, then resets EVERY population
    latent variable to the mode of its prior read under the NEW parameters ([put_population_latent_variables(PRIOR_MODE)],
    unconditionally), then reads the derived values present in the dictionary (e.g. [mixing_matrix]) to compare them.
    A fit is whatever the iterations do to the model's State (an arbitrary state transformer) followed by the end-of-fit
    script of Io/EndOfFit.v.

    The statements of [load_parameters] are an op list ([load_parameters_ops]) that the harness regenerates from the source
    (coq/gen/GenC12.v, [gen_load_parameters]); the language has a guard [LpIfPopsUnset] ("only when the population variables
    are not all set") so that a guarded reset is *expressible* — and is a different script (HistoryProofs.ToyHistory.guarded_reset_refuted). *)
From Coq Require Import List String Bool.
From Leaspy Require Import Io.EndOfFit.
Import ListNotations.
Open Scope string_scope.

Inductive lp_op :=
| LpInitState                 (* if self._state is None: self._initialize_state() *)
| LpWarnMissing               (* params_names / missing_params: warnings.warn, nothing else *)
| LpRefuseUnknown             (* extra_vars: raise LeaspyModelInputError (Io/SaveLoad.v load_parameters) *)
| LpReshape                   (* provided_params = {p: val_to_tensor(parameters[p], self.dag[p].shape) ...} *)
| LpAssignParams              (* for p, val in provided_params.items(): self._state[p] = val *)
| LpPutPop (i : init_type)    (* self._state.put_population_latent_variables(i) *)
| LpIfPopsUnset (body : lp_op)(* if not self._state.are_variables_set(self.population_variables_names): body *)
| LpCompareDerived.           (* for parameter_name, parameter_value in parameters.items(): read + always-true asserts *)

(** the statements of load_parameters, in order *)
Definition load_parameters_ops : list lp_op :=
  [LpInitState; LpWarnMissing; LpRefuseUnknown; LpReshape; LpAssignParams; LpPutPop InitMode; LpCompareDerived].

Section Store.
Variable V St : Type.
Variable get : St -> string -> V.
Variable set : string -> V -> St -> St.
Variable clone : St -> St.
Variable stat : prior_stat -> string -> (string -> V) -> V.
(** [State.is_variable_set] (only used by the guard) *)
Variable isset : St -> string -> bool.

(** for p, val in provided_params.items(): self._state[p] = val *)
Definition assign_params (a : list (string * V)) (s : St) : St :=
  fold_left (fun s pv => set (fst pv) (snd pv) s) a s.

Fixpoint lp_step (route : init_type -> prior_stat) (pops : list string) (a : list (string * V)) (op : lp_op) (s : St) : St :=
  match op with
  | LpAssignParams => assign_params a s
  | LpPutPop i => put_population V St get set stat route i pops s
  | LpIfPopsUnset body => if forallb (isset s) pops then s else lp_step route pops a body s
  | LpInitState | LpWarnMissing | LpRefuseUnknown | LpReshape | LpCompareDerived => s
  end.
Definition run_lp (route : init_type -> prior_stat) (ops : list lp_op) (pops : list string) (a : list (string * V)) (s : St) : St :=
  fold_left (fun s op => lp_step route pops a op s) ops s.

(** the model's State after [load_parameters(a)] ([a] = the provided parameters, reshaped) *)
Definition load_parameters (pops : list string) (a : list (string * V)) (s : St) : St :=
  run_lp init_route load_parameters_ops pops a s.

(** what can happen to one model object: load_parameters (provided parameters; the other names of the dictionary, which are
    read and compared), a fit (what the iterations did to the State, then the end-of-fit script), or an observer that only
    READS the model's State (to_dict / save read the parameters and [mixing_matrix]; [parameters]; estimate works on a clone) *)
Inductive event :=
| EvLoad (a : list (string * V)) (cmp : list string)
| EvFit (body : St -> St)
| EvRead (cmp : list string).

Definition is_read (e : event) : bool := match e with EvRead _ => true | _ => false end.

Definition run_event (pops : list string) (s : St) (e : event) : option St :=
  match e with
  | EvLoad a _ => Some (load_parameters pops a s)
  | EvFit body => end_of_fit V St get set clone stat pops (body s)
  | EvRead _ => Some s
  end.

(** a history, for any way [rn] of running one event (the script above, or the script with its caching reads) *)
Fixpoint run_hist (rn : St -> event -> option St) (h : list event) (s : St) : option St :=
  match h with
  | [] => Some s
  | e :: r => match rn s e with Some s' => run_hist rn r s' | None => None end
  end.
Definition run_history (pops : list string) : list event -> St -> option St := run_hist (run_event pops).
End Store.
Arguments EvLoad {V St} a cmp.
Arguments EvFit {V St} body.
Arguments EvRead {V St} cmp.
Arguments is_read {V St} e.
