(** C14 — model of leaspy's data ingestion (definitions only; proofs are in IngestProofs.v).

    What is mirrored, line by line (paths under src/leaspy/io/data):
      - [check_id]            abstract_dataframe_data_reader.py  _check_ID            (l. 55-98)
      - [clean_index]         abstract_dataframe_data_reader.py  _clean_index         (l. 100-142)
                              visit_dataframe_data_reader.py     _check_TIME/_set_index (l. 41-106)
                              event_dataframe_data_reader.py     _set_index           (l. 60-74)
      - [clean_numeric]       abstract_dataframe_data_reader.py  _clean_numeric_data  (l. 144-209)
      - [clean_visits]        visit_dataframe_data_reader.py     _clean_dataframe     (l. 108-147)
      - [clean_events]        event_dataframe_data_reader.py     _clean_dataframe     (l. 76-162)
      - [crossed_check]       joint_dataframe_data_reader.py     _clean_dataframe     (l. 160-176)
      - [clean_covariates]    covariate_dataframe_data_reader.py _clean_dataframe_covariates (l. 84-154)
      - [groupby]             abstract_dataframe_data_reader.py  read: groupby(level="ID", sort=False) (l. 326)
      - [add_observations]    individual_data.py                 add_observations     (l. 48-80)
      - [load_event]          event_dataframe_data_reader.py     _load_individuals_data (l. 164-190)
      - [construct]           dataset.py  _construct_values/_construct_timepoints/_construct_events/_construct_covariates (l. 131-217)
      - [to_table]            dataset.py  to_pandas (l. 332-389) + individual_data.py to_frame/_event_to_frame (l. 142-264)

    Numbers.  A float64 cell of the caller's table is [Fin q] (q its exact rational), [NaN] or [Inf].
    After [round(TIME, 6)] an age is an integer number of 10^-digits units ([Z], so equality is Leibniz);
    [micro P n] is the rational it denotes.  What float64/float32 storage does to a rational is the
    parameter [store P] (identity in most theorems' hypotheses-free parts; the executable float32 rounding
    [Io.F32.f32] in the correspondence and in the [_refuted] witnesses).
    Errors are values: [Err DataError] = LeaspyDataInputError, [Err OtherError] = any other exception. *)
From Coq Require Import ZArith QArith Qround Qabs List Bool String Ascii Lia.
From Leaspy Require Import Base.QAux.
Import ListNotations.
Open Scope Z_scope.

(* ------------------------------------------------------------------ errors as values *)
Inductive error := DataError | OtherError.
Inductive result (A : Type) := Ok (a : A) | Err (e : error).
Arguments Ok {A} a. Arguments Err {A} e.
Definition bind {A B} (r : result A) (f : A -> result B) : result B :=
  match r with Ok a => f a | Err e => Err e end.
Notation "x <- r ;; k" := (bind r (fun x => k)) (at level 61, r at next level, right associativity).
Notation "r ;;; k" := (bind r (fun _ => k)) (at level 61, right associativity).
(** [refuse_if b]: `if b: raise LeaspyDataInputError` *)
Definition refuse_if (b : bool) : result unit := if b then Err DataError else Ok tt.

Fixpoint mapM {A B} (f : A -> result B) (l : list A) : result (list B) :=
  match l with
  | [] => Ok []
  | a :: r => b <- f a ;; bs <- mapM f r ;; Ok (b :: bs)
  end.

(* ------------------------------------------------------------------ identifiers *)
Inductive ident := IdS (s : string) | IdZ (z : Z).

Definition ident_eqb (a b : ident) : bool :=
  match a, b with
  | IdS s, IdS s' => String.eqb s s'
  | IdZ z, IdZ z' => Z.eqb z z'
  | _, _ => false
  end.

(** order used by pandas' sort_index / groupby(sort=True): integers numerically, strings by code point.
    A column never mixes both (the dtype would be "mixed", refused by [check_id]); integers are put first. *)
Definition ident_leb (a b : ident) : bool :=
  match a, b with
  | IdZ z, IdZ z' => Z.leb z z'
  | IdS s, IdS s' => String.leb s s'
  | IdZ _, IdS _ => true
  | IdS _, IdZ _ => false
  end.

(** what [pd.api.types.infer_dtype] says of the ID column *)
Inductive idkind := KString | KInteger | KCategorical | KOther.

(* ------------------------------------------------------------------ the caller's table *)
Inductive cell := Fin (q : Q) | NaN | Inf.
Definition is_nan (c : cell) : bool := match c with NaN => true | _ => false end.
Definition is_inf (c : cell) : bool := match c with Inf => true | _ => false end.

Inductive layout := LVisit | LEvent | LJoint | LCov.
Definition has_time (L : layout) : bool := match L with LEvent => false | _ => true end.
Definition has_event (L : layout) : bool := match L with LEvent | LJoint => true | _ => false end.
Definition has_cov (L : layout) : bool := match L with LCov => true | _ => false end.

Record row := {
  r_id : option ident;      (* None = missing identifier *)
  r_time : cell;            (* TIME (ignored by the event layout) *)
  r_vals : list cell;       (* the features *)
  r_evt : cell;             (* EVENT_TIME, EVENT_BOOL (event and joint layouts) *)
  r_evb : cell;
  r_cov : list cell         (* the covariates (covariate layout) *)
}.

Record table := {
  t_layout : layout;
  t_idkind : idkind;
  t_time_numeric : bool;    (* dtype of TIME is numeric *)
  t_cols_numeric : bool;    (* dtype of every other column is numeric (not object / complex) *)
  t_nfeat : nat;            (* number of feature columns *)
  t_ncov : nat;             (* number of covariate names given to the reader *)
  t_drop_full_nan : bool;   (* reader option, default True *)
  t_nb_events : option Z;   (* reader option, default None *)
  t_cov_named : bool;       (* the covariate columns are labelled by the names given to the reader *)
  t_rows : list row
}.

(** constants of the implementation, read from it at run time by the harness *)
Record params := {
  scale : Z;         (* 10 ^ time_rounding_digits *)
  tol : Q;           (* JointDataframeDataReader.tol_diff *)
  store : Q -> Q     (* what storing a float64 into a float32 tensor does *)
}.

Definition micro (P : params) (n : Z) : Q := inject_Z n / inject_Z (scale P).

(** numpy.round: round half to even *)
Definition round_half_even (x : Q) : Z :=
  let f := Qfloor x in
  match Qcompare (x - inject_Z f) (1 # 2) with
  | Lt => f
  | Gt => f + 1
  | Eq => if Z.even f then f else f + 1
  end.
Definition round_time (P : params) (q : Q) : Z := round_half_even (q * inject_Z (scale P)).

(* ------------------------------------------------------------------ stage A: cleaning *)

(** _check_ID *)
Definition check_id (k : idkind) (ids : list (option ident)) : result unit :=
  match ids, k with
  | [], _ => Err DataError                       (* infer_dtype = "empty" *)
  | _, KOther => Err DataError                   (* floating, mixed, boolean, ... *)
  | _, _ =>
    refuse_if (existsb (fun i => match i with None => true | _ => false end) ids) ;;;
    match k with
    | KInteger => refuse_if (existsb (fun i => match i with Some (IdZ z) => z <? 0 | _ => false end) ids)
    | KString => refuse_if (existsb (fun i => match i with Some (IdS s) => (String.length s =? 0)%nat | _ => false end) ids)
    | _ => Ok tt
    end
  end.

(** rows once the index is set: identifier known, age rounded *)
Record irow := {
  x_id : ident;
  x_time : Z;               (* 0 for the event layout *)
  x_vals : list cell;
  x_evt : cell;
  x_evb : cell;
  x_cov : list cell
}.

Definition index_row (P : params) (L : layout) (r : row) : result irow :=
  match r_id r with
  | None => Err DataError
  | Some i =>
    if has_time L then
      match r_time r with
      | Fin q => Ok {| x_id := i; x_time := round_time P q; x_vals := r_vals r; x_evt := r_evt r; x_evb := r_evb r; x_cov := r_cov r |}
      | _ => Err DataError                        (* _check_TIME: inf replaced by nan, nan refused *)
      end
    else Ok {| x_id := i; x_time := 0; x_vals := r_vals r; x_evt := r_evt r; x_evb := r_evb r; x_cov := r_cov r |}
  end.

Definition key_eqb (a b : ident * Z) : bool := ident_eqb (fst a) (fst b) && Z.eqb (snd a) (snd b).
Fixpoint nodupb (l : list (ident * Z)) : bool :=
  match l with
  | [] => true
  | k :: r => negb (existsb (key_eqb k) r) && nodupb r
  end.
Definition xkey (x : irow) : ident * Z := (x_id x, x_time x).

(** _clean_index: _check_ID, then _set_index (TIME numeric, finite, rounded), then index.is_unique *)
Definition clean_index (P : params) (t : table) : result (list irow) :=
  check_id (t_idkind t) (map r_id (t_rows t)) ;;;
  refuse_if (has_time (t_layout t) && negb (t_time_numeric t)) ;;;
  xs <- mapM (index_row P (t_layout t)) (t_rows t) ;;
  refuse_if (negb (nodupb (map xkey xs))) ;;;
  Ok xs.

(** the non-index cells of a row, for the layout at hand *)
Definition data_cells (L : layout) (x : irow) : list cell :=
  x_vals x ++ (if has_event L then [x_evt x; x_evb x] else []) ++ (if has_cov L then x_cov x else []).

(** _clean_numeric_data: dtypes, infinities, rows full of nan *)
Definition clean_numeric (t : table) (xs : list irow) : result (list irow) :=
  refuse_if (negb (t_cols_numeric t)) ;;;
  refuse_if (existsb (fun x => existsb is_inf (data_cells (t_layout t) x)) xs) ;;;
  Ok (if t_drop_full_nan t then filter (fun x => negb (forallb is_nan (data_cells (t_layout t) x))) xs else xs).

(** VisitDataframeDataReader._clean_dataframe *)
Definition clean_visits (t : table) (xs : list irow) : result unit :=
  refuse_if (Nat.eqb (List.length xs) 0) ;;;
  refuse_if (Nat.ltb (t_nfeat t) 1).

Definition is_integral (q : Q) : bool := Qeq_bool (inject_Z (Qfloor q)) q.

(** one event per row, cleaned: (rounded time, integer indicator) *)
Definition event_cell (P : params) (x : irow) : result (Z * Z) :=
  match x_evt x, x_evb x with
  | Fin tq, Fin bq => Ok (round_time P tq, Qfloor bq)
  | _, _ => Err OtherError       (* unreachable after the checks of [clean_events] *)
  end.

Fixpoint list_maxZ (d : Z) (l : list Z) : Z := match l with [] => d | a :: r => Z.max a (list_maxZ d r) end.

Definition ids_of (xs : list irow) : list ident := map x_id xs.

(** first occurrences, in order *)
Fixpoint firsts (l : list ident) : list ident :=
  match l with
  | [] => []
  | a :: r => a :: filter (fun b => negb (ident_eqb a b)) (firsts r)
  end.

(** [nunique().eq(1)] per ID on a column-extractor [f] *)
Definition unique_per_id {A} (eqb : A -> A -> bool) (f : irow -> A) (xs : list irow) : bool :=
  forallb (fun x => forallb (fun y => negb (ident_eqb (x_id x) (x_id y)) || eqb (f x) (f y)) xs) xs.

Definition pair_eqb (a b : Z * Z) : bool := Z.eqb (fst a) (fst b) && Z.eqb (snd a) (snd b).

(** EventDataframeDataReader._clean_dataframe; returns the number of events in force *)
Definition clean_events (P : params) (t : table) (lost : bool) (xs : list irow) : result Z :=
  (* (event_time > 0).all(), after rounding; NaN > 0 is False *)
  refuse_if (negb (forallb (fun x => match x_evt x with Fin q => 0 <? round_time P q | _ => false end) xs)) ;;;
  (* array_equal(b, b.astype(int)): astype raises on NaN (pandas IntCastingNaNError) *)
  (if existsb (fun x => is_nan (x_evb x)) xs then Err OtherError else Ok tt) ;;;
  refuse_if (negb (forallb (fun x => match x_evb x with Fin q => is_integral q | _ => false end) xs)) ;;;
  evs <- mapM (event_cell P) xs ;;
  (* one event time and one indicator per ID (an unobserved category of a categorical ID column counts 0 values) *)
  refuse_if lost ;;;
  refuse_if (negb (unique_per_id Z.eqb (fun x => match x_evt x with Fin q => round_time P q | _ => 0 end) xs
                   && unique_per_id Z.eqb (fun x => match x_evb x with Fin q => Qfloor q | _ => 0 end) xs)) ;;;
  refuse_if (Nat.eqb (List.length xs) 0) ;;;
  let mx := match evs with [] => 0 | e :: r => list_maxZ (snd e) (map snd r) end in   (* df_event[bool].max(); not empty here *)
  match t_nb_events t with
  | None | Some 0 => refuse_if (mx =? 0) ;;; Ok mx
  | Some nb => if nb =? mx then Ok nb else if mx =? 0 then Ok nb else Err DataError
  end.

(** JointDataframeDataReader: the crossed check event time / last visit.
    offenders = IDs with not (event_time - max TIME >= -tol); refused iff the indicators of the offenders do not sum to 0 *)
Definition last_visit (i : ident) (xs : list irow) : Z :=
  match filter (fun y => ident_eqb i (x_id y)) xs with
  | [] => 0
  | y :: r => list_maxZ (x_time y) (map x_time r)
  end.
Definition offender (P : params) (xs : list irow) (x : irow) : bool :=
  match x_evt x with
  | Fin q => negb (Qle_bool (- tol P) (micro P (round_time P q) - micro P (last_visit (x_id x) xs)))
  | _ => false
  end.
Fixpoint sumZ (l : list Z) : Z := match l with [] => 0 | a :: r => a + sumZ r end.
Definition first_row_of (i : ident) (xs : list irow) : option irow := find (fun y => ident_eqb i (x_id y)) xs.
Definition crossed_check (P : params) (xs : list irow) : result unit :=
  let offenders := filter (fun i => match first_row_of i xs with Some x => offender P xs x | None => false end) (firsts (ids_of xs)) in
  let s := sumZ (map (fun i => match first_row_of i xs with Some x => match x_evb x with Fin q => Qfloor q | _ => 0 end | None => 0 end) offenders) in
  refuse_if (negb (Nat.eqb (List.length offenders) 0) && negb (s =? 0)).

(** CovariateDataframeDataReader._clean_dataframe_covariates *)
Definition cov_ints (x : irow) : list Z := map (fun c => match c with Fin q => Qfloor q | _ => 0 end) (x_cov x).
Fixpoint list_eqbZ (a b : list Z) : bool :=
  match a, b with
  | [], [] => true
  | x :: a', y :: b' => Z.eqb x y && list_eqbZ a' b'
  | _, _ => false
  end.
Fixpoint distinctZ (l : list Z) : list Z :=
  match l with [] => [] | a :: r => a :: filter (fun b => negb (Z.eqb a b)) (distinctZ r) end.
Definition clean_covariates (t : table) (lost : bool) (xs : list irow) : result unit :=
  refuse_if (existsb (fun x => existsb is_nan (x_cov x)) xs) ;;;
  refuse_if (negb (forallb (fun x => forallb (fun c => match c with Fin q => is_integral q | _ => false end) (x_cov x)) xs)) ;;;
  refuse_if lost ;;;
  refuse_if (negb (unique_per_id list_eqbZ cov_ints xs)) ;;;
  refuse_if (Nat.eqb (List.length xs) 0) ;;;
  (* at least two levels per covariate, across patients *)
  refuse_if (existsb (fun j => Nat.ltb (List.length (distinctZ (map (fun x => nth j (cov_ints x) 0) xs))) 2) (seq 0 (t_ncov t))).

(** cleaned rows *)
Definition obs := list (option Q).
Record crow := {
  c_id : ident;
  c_time : Z;
  c_vals : obs;                 (* None = missing *)
  c_ev : option (Z * Z);        (* rounded event time, indicator *)
  c_cov : list Z
}.
Definition cell_value (c : cell) : option Q := match c with Fin q => Some q | _ => None end.
Definition crow_of (P : params) (L : layout) (x : irow) : crow :=
  {| c_id := x_id x; c_time := x_time x; c_vals := map cell_value (x_vals x);
     c_ev := if has_event L then match x_evt x, x_evb x with Fin tq, Fin bq => Some (round_time P tq, Qfloor bq) | _, _ => None end else None;
     c_cov := if has_cov L then cov_ints x else [] |}.

(** read(): everything before the groupby.  Result: the cleaned rows in their original order and the number of events. *)
Definition clean (P : params) (t : table) : result (list crow * Z) :=
  let L := t_layout t in
  refuse_if (has_cov L && Nat.eqb (t_ncov t) 0) ;;;            (* CovariateDataframeDataReader.__init__ *)
  xs <- clean_index P t ;;
  xs0 <- Ok xs ;;
  xs <- clean_numeric t xs ;;
  (* a categorical ID column keeps the identifiers of the dropped rows as (unobserved) categories: groupby still yields them *)
  let lost := match t_idkind t with
              | KCategorical => existsb (fun i => negb (existsb (ident_eqb i) (ids_of xs))) (ids_of xs0)
              | _ => false
              end in
  (* CovariateDataframeDataReader._clean_dataframe starts with df.drop(columns=covariate_names): KeyError *)
  (if has_cov L && negb (t_cov_named t) then Err OtherError else Ok tt) ;;;
  nb <- match L with
        | LVisit => clean_visits t xs ;;;
                    (* the empty group becomes an IndividualData without timepoints; Dataset(...) then raises TypeError (len(None)) *)
                    (if lost then Err OtherError else Ok 0)
        | LEvent => clean_events P t lost xs
        | LJoint => clean_visits t xs ;;; nb <- clean_events P t lost xs ;; crossed_check P xs ;;; Ok nb
        | LCov => clean_visits t xs ;;; clean_covariates t lost xs ;;; Ok 0
        end ;;
  Ok (map (crow_of P L) xs, nb).

(* ------------------------------------------------------------------ stage B: individuals *)
Definition visit := (Z * obs)%type.

(** bisect(timepoints, t) then concatenate: insertion before the first strictly larger age *)
Fixpoint insert_visit (v : visit) (l : list visit) : list visit :=
  match l with
  | [] => [v]
  | w :: r => if fst v <? fst w then v :: l else w :: insert_visit v r
  end.

(** one turn of the loop of IndividualData.add_observations *)
Definition add_observation (acc : list visit) (v : visit) : result (list visit) :=
  match acc with
  | [] => Ok [v]
  | _ => if existsb (Z.eqb (fst v)) (map fst acc) then Err DataError else Ok (insert_visit v acc)
  end.
Fixpoint add_observations (acc : list visit) (vs : list visit) : result (list visit) :=
  match vs with
  | [] => Ok acc
  | v :: r => acc' <- add_observation acc v ;; add_observations acc' r
  end.

Record indiv := {
  i_id : ident;
  i_visits : list visit;                        (* timepoints + observations, kept sorted *)
  i_event : option (list Z * list bool);        (* event_time, event_bool arrays *)
  i_cov : option (list Z)
}.

(** python list item assignment l[i] = True with negative indices *)
Fixpoint set_nth_true (n : nat) (l : list bool) : list bool :=
  match l, n with
  | [], _ => []
  | _ :: r, O => true :: r
  | b :: r, S n' => b :: set_nth_true n' r
  end.
Definition load_event (nb : Z) (e : option (Z * Z)) : result (option (list Z * list bool)) :=
  match e with
  | None => Err OtherError
  | Some (tm, code) =>
    refuse_if (nb <? 1) ;;;
    let n := Z.to_nat nb in
    let times := repeat tm n in
    let flags := repeat false n in
    if code =? 0 then Ok (Some (times, flags))
    else
      let i := if code - 1 <? 0 then code - 1 + nb else code - 1 in
      if (i <? 0) || (nb <=? i) then Err OtherError          (* IndexError *)
      else Ok (Some (times, set_nth_true (Z.to_nat i) flags))
  end.

Definition rows_of (i : ident) (rows : list crow) : list crow := filter (fun r => ident_eqb i (c_id r)) rows.

(** groupby(level="ID", sort=False): groups in order of first appearance, rows in their original order *)
Definition groupby (rows : list crow) : list (ident * list crow) :=
  map (fun i => (i, rows_of i rows)) (firsts (map c_id rows)).

Definition load_indiv (L : layout) (nb : Z) (g : ident * list crow) : result indiv :=
  let (i, rows) := g in
  vis <- (if has_time L then add_observations [] (map (fun r => (c_time r, c_vals r)) rows) else Ok []) ;;
  ev <- (if has_event L then match rows with r :: _ => load_event nb (c_ev r) | [] => Err OtherError end else Ok None) ;;
  Ok {| i_id := i; i_visits := vis; i_event := ev;
        i_cov := if has_cov L then match rows with r :: _ => Some (c_cov r) | [] => None end else None |}.

(** order of the groups: the event layout went through groupby("ID").first(), which sorts by ID *)
Fixpoint insert_group (g : ident * list crow) (l : list (ident * list crow)) : list (ident * list crow) :=
  match l with
  | [] => [g]
  | h :: r => if ident_leb (fst g) (fst h) then g :: l else h :: insert_group g r
  end.
Definition sort_groups (l : list (ident * list crow)) : list (ident * list crow) := fold_right insert_group [] l.

(** Data.from_dataframe *)
Definition ingest_data (P : params) (t : table) : result (list indiv) :=
  cn <- clean P t ;;
  let (rows, nb) := cn in
  let groups := groupby rows in
  let groups := match t_layout t with LEvent => sort_groups groups | _ => groups end in
  mapM (load_indiv (t_layout t) nb) groups.

(* ------------------------------------------------------------------ stage C: tensors *)
Record dataset := {
  d_layout : layout;                      (* which of headers / event names / covariate names are set *)
  d_nfeat : nat;                          (* dimension *)
  d_indices : list ident;
  d_has_visits : bool;
  d_times : list (list Q);                (* n_individuals x n_visits_max *)
  d_values : list (list (list Q));        (* n_individuals x n_visits_max x dimension *)
  d_mask : list (list (list bool));
  d_nvis : list nat;                      (* n_visits_per_individual *)
  d_nvis_max : nat;
  d_nvis_total : nat;                     (* n_visits *)
  d_nobs_ind_ft : list (list nat);        (* n_observations_per_ind_per_ft *)
  d_nobs_ft : list nat;
  d_nobs : nat;
  d_event : option (list (list Z) * list (list bool));   (* event_time (float64: exact), event_bool *)
  d_cov : option (list (list Z))
}.

Definition pad {A} (d : A) (n : nat) (l : list A) : list A := l ++ repeat d (n - List.length l).
Definition list_max_nat (l : list nat) : nat := fold_right Nat.max O l.
Definition sum_nat (l : list nat) : nat := fold_right Nat.add O l.
Definition count_true (l : list bool) : nat := List.length (filter (fun b => b) l).
Fixpoint map2 {A B C} (f : A -> B -> C) (a : list A) (b : list B) : list C :=
  match a, b with
  | x :: a', y :: b' => f x y :: map2 f a' b'
  | _, _ => []
  end.
Definition is_some {A} (o : option A) : bool := match o with Some _ => true | None => false end.

(** values tensor of one individual before the NaN are zeroed: torch.zeros, then rows 0..nb_vis-1 := observations (float32) *)
Definition ind_values_nan (P : params) (nmax nfeat : nat) (i : indiv) : list obs :=
  pad (repeat (Some 0%Q) nfeat) nmax (map (fun v => map (option_map (store P)) (snd v)) (i_visits i)).
Definition ind_padding_mask (nmax nfeat : nat) (i : indiv) : list (list bool) :=
  map (fun j => repeat (Nat.ltb j (List.length (i_visits i))) nfeat) (seq 0 nmax).
(** mask = padding_mask * ~isnan(values) *)
Definition ind_mask (P : params) (nmax nfeat : nat) (i : indiv) : list (list bool) :=
  map2 (map2 andb) (ind_padding_mask nmax nfeat i) (map (map is_some) (ind_values_nan P nmax nfeat i)).
(** values[isnan(values)] = 0 *)
Definition ind_values (P : params) (nmax nfeat : nat) (i : indiv) : list (list Q) :=
  map (map (fun c => match c with Some q => q | None => 0%Q end)) (ind_values_nan P nmax nfeat i).
Definition ind_times (P : params) (nmax : nat) (i : indiv) : list Q :=
  pad 0%Q nmax (map (fun v => store P (micro P (fst v))) (i_visits i)).
(** mask.sum(dim=1) *)
Definition col_counts (nfeat : nat) (m : list (list bool)) : list nat :=
  map (fun j => count_true (map (fun rw => nth j rw false) m)) (seq 0 nfeat).
Definition col_sums (nfeat : nat) (m : list (list nat)) : list nat :=
  map (fun j => sum_nat (map (fun rw => nth j rw O) m)) (seq 0 nfeat).

Fixpoint all_some {A} (l : list (option A)) : option (list A) :=
  match l with
  | [] => Some []
  | Some a :: r => option_map (cons a) (all_some r)
  | None :: _ => None
  end.

(** Dataset(data) *)
Definition construct (P : params) (L : layout) (nfeat : nat) (inds : list indiv) : dataset :=
  let hv := has_time L in
  let nvis := map (fun i => List.length (i_visits i)) inds in
  let nmax := list_max_nat nvis in
  let mask := map (ind_mask P nmax nfeat) inds in
  let nobs_if := map (col_counts nfeat) mask in
  let nobs_f := col_sums nfeat nobs_if in
  {| d_layout := L; d_nfeat := nfeat;
     d_indices := map i_id inds;
     d_has_visits := hv;
     d_times := if hv then map (ind_times P nmax) inds else [];
     d_values := if hv then map (ind_values P nmax nfeat) inds else [];
     d_mask := if hv then mask else [];
     d_nvis := if hv then nvis else [];
     d_nvis_max := if hv then nmax else O;
     d_nvis_total := if hv then sum_nat nvis else O;
     d_nobs_ind_ft := if hv then nobs_if else [];
     d_nobs_ft := if hv then nobs_f else [];
     d_nobs := if hv then sum_nat nobs_f else O;
     d_event := if has_event L then
                  option_map (fun l => (map fst l, map snd l)) (all_some (map i_event inds))
                else None;
     d_cov := if has_cov L then all_some (map i_cov inds) else None |}.

(** the dataset seen as one block per individual: (ID, (ages, (values, (mask, (n_visits, n_observations per feature))))) *)
Definition d_blocks (d : dataset) : list (ident * (list Q * (list (list Q) * (list (list bool) * (nat * list nat))))) :=
  combine (d_indices d) (combine (d_times d) (combine (d_values d) (combine (d_mask d) (combine (d_nvis d) (d_nobs_ind_ft d))))).

(** the same table with its rows replaced *)
Definition with_rows (t : table) (rows : list row) : table :=
  {| t_layout := t_layout t; t_idkind := t_idkind t; t_time_numeric := t_time_numeric t; t_cols_numeric := t_cols_numeric t;
     t_nfeat := t_nfeat t; t_ncov := t_ncov t; t_drop_full_nan := t_drop_full_nan t; t_nb_events := t_nb_events t;
     t_cov_named := t_cov_named t; t_rows := rows |}.

Definition ingest (P : params) (t : table) : result dataset :=
  inds <- ingest_data P t ;;
  Ok (construct P (t_layout t) (t_nfeat t) inds).

(* ------------------------------------------------------------------ back to a table: Dataset.to_pandas *)
(** IndividualData.add_observations again, this time on the ages read back from the float32 tensor *)
Definition qvisit := (Q * obs)%type.
Fixpoint insert_qvisit (v : qvisit) (l : list qvisit) : list qvisit :=
  match l with
  | [] => [v]
  | w :: r => if Qlt_bool (fst v) (fst w) then v :: l else w :: insert_qvisit v r
  end.
Definition add_qobservation (acc : list qvisit) (v : qvisit) : result (list qvisit) :=
  match acc with
  | [] => Ok [v]
  | _ => if existsb (Qeq_bool (fst v)) (map fst acc) then Err DataError else Ok (insert_qvisit v acc)
  end.
Fixpoint add_qobservations (acc : list qvisit) (vs : list qvisit) : result (list qvisit) :=
  match vs with
  | [] => Ok acc
  | v :: r => acc' <- add_qobservation acc v ;; add_qobservations acc' r
  end.

(** get_values_patient: nan where the mask is 0 *)
Definition values_with_nan (vals : list (list Q)) (mask : list (list bool)) : list obs :=
  map2 (map2 (fun q (m : bool) => if m then Some q else None)) vals mask.

(** _event_to_frame: the indicator column from the boolean array *)
Fixpoint index_true (l : list bool) : nat :=
  match l with [] => O | true :: _ => O | false :: r => S (index_true r) end.
Definition event_code (times : list Z) (flags : list bool) : result (Z * Z) :=
  match times with
  | [] => Err OtherError
  | tm :: r =>
    if negb (forallb (Z.eqb tm) r) then Err OtherError       (* LeaspyInputError: several event times *)
    else match count_true flags with
         | O => Ok (tm, 0)
         | S O => Ok (tm, Z.of_nat (index_true flags) + 1)
         | _ => Err OtherError                                 (* LeaspyInputError: several observed events *)
         end
  end.

Definition cell_of (o : option Q) : cell := match o with Some q => Fin q | None => NaN end.

(** the rows of one individual: IndividualData(idx) rebuilt from the tensors, then to_frame *)
Definition ind_rows (P : params) (L : layout) (id : ident) (nvis : nat) (times : list Q) (vals : list (list Q))
           (mask : list (list bool)) (ev : option (list Z * list bool)) (cov : option (list Z)) : result (list row) :=
  evc <- match ev with
         | Some (ts, fl) => e <- event_code ts fl ;; Ok (Fin (micro P (fst e)), Fin (inject_Z (snd e)))
         | None => Ok (NaN, NaN)
         end ;;
  let covc := match cov with Some l => map (fun z => Fin (inject_Z z)) l | None => [] end in
  if has_time L then
    vis <- add_qobservations [] (combine (firstn nvis times) (values_with_nan (firstn nvis vals) (firstn nvis mask))) ;;
    Ok (map (fun v => {| r_id := Some id; r_time := Fin (fst v); r_vals := map cell_of (snd v);
                         r_evt := fst evc; r_evb := snd evc; r_cov := covc |}) vis)
  else Ok [{| r_id := Some id; r_time := NaN; r_vals := []; r_evt := fst evc; r_evb := snd evc; r_cov := covc |}].

(** sort_index() on (ID, TIME) *)
Definition row_leb (a b : row) : bool :=
  match r_id a, r_id b with
  | Some i, Some j =>
    if ident_eqb i j then
      match r_time a, r_time b with Fin x, Fin y => Qle_bool x y | _, _ => true end
    else ident_leb i j
  | _, _ => true
  end.
Fixpoint insert_row (x : row) (l : list row) : list row :=
  match l with
  | [] => [x]
  | y :: r => if row_leb x y then x :: l else y :: insert_row x r
  end.
Definition sort_rows (l : list row) : list row := fold_right insert_row [] l.

Definition kind_of_ids (l : list ident) : idkind :=
  if forallb (fun i => match i with IdZ _ => true | _ => false end) l then KInteger
  else if forallb (fun i => match i with IdS _ => true | _ => false end) l then KString
  else KOther.

Fixpoint zip_blocks (d : dataset) (ids : list ident) (k : nat) : list (ident * nat) :=
  match ids with [] => [] | i :: r => (i, k) :: zip_blocks d r (S k) end.

(** Dataset.to_pandas() as the table one would hand back to Data.from_dataframe with the same reader options.
    The covariate columns come out labelled by 1-tuples (`columns=[covariate_names]`), hence [t_cov_named := false]. *)
Definition to_table (P : params) (drop : bool) (nb : option Z) (d : dataset) : result table :=
  let L := d_layout d in
  blocks <- mapM (fun ik : ident * nat =>
                    let (i, k) := ik in
                    ind_rows P L i (nth k (d_nvis d) O) (nth k (d_times d) []) (nth k (d_values d) []) (nth k (d_mask d) [])
                             (match d_event d with Some (ts, fl) => Some (nth k ts [], nth k fl []) | None => None end)
                             (match d_cov d with Some cs => Some (nth k cs []) | None => None end))
                 (zip_blocks d (d_indices d) O) ;;
  Ok {| t_layout := L; t_idkind := kind_of_ids (d_indices d); t_time_numeric := true; t_cols_numeric := true;
        t_nfeat := d_nfeat d; t_ncov := match d_cov d with Some (c :: _) => List.length c | _ => O end;
        t_drop_full_nan := drop; t_nb_events := nb; t_cov_named := negb (has_cov L);
        t_rows := sort_rows (List.concat blocks) |}.
