(** C16 — SOURCE-LEVEL layer (T1) of the container model.  Definitions only; proofs are in IndivParamsSrcProofs.v.

    The hand-written model (Io/IndivParams.v) fixes, in Gallina, decisions that the python source takes in a particular
    way: which types the scalar-type test accepts and whether the test is exact ([type(v) in [...]]) or by subclass
    ([isinstance]), in which order [add_individual_parameters] runs its checks and where it starts to modify the object,
    which exception class each check raises, what the duplicate test looks at, how a column label is built and cut,
    which list the conversions iterate over, which attributes the json reader fills.  Here those decisions are DATA
    (tables / programs over named steps) with an interpreter; harness/translate/c16_container.py regenerates the data from
    the python [ast] of src/leaspy/io/outputs/individual_parameters.py into gen/GenC16.v on every run, and
    IndivParamsSrcProofs.v proves that the interpreter on the regenerated data IS the hand-written model.

    What python does with one step (that [bool] is a subclass of [int], that [x in list] compares with [==], that
    [d[k] = v] keeps the position of an existing key) is written here once, by hand. *)
From Coq Require Import List String Ascii Bool Arith QArith.
From Leaspy Require Import Io.IndivParams.
Import ListNotations.
Open Scope string_scope.

(* ------------------------------------------------------------------------------------------ python types *)

(** the python type of a value, as far as the model's value domain distinguishes them *)
Inductive pytype :=
  | TyInt | TyFloat | TyNpInt32 | TyNpInt64 | TyNpFloat32 | TyNpFloat64     (* the six types named by the source today *)
  | TyBool | TyStr | TyNoneType | TyList | TyNdarray | TyNpOther | TyOther.

Definition pytype_eqb (a b : pytype) : bool :=
  match a, b with
  | TyInt, TyInt | TyFloat, TyFloat | TyNpInt32, TyNpInt32 | TyNpInt64, TyNpInt64 | TyNpFloat32, TyNpFloat32
  | TyNpFloat64, TyNpFloat64 | TyBool, TyBool | TyStr, TyStr | TyNoneType, TyNoneType | TyList, TyList
  | TyNdarray, TyNdarray | TyNpOther, TyNpOther | TyOther, TyOther => true
  | _, _ => false
  end.

(** [issubclass(a, b)] for a <> b: python's [bool] derives from [int], numpy's [float64] from [float]; nothing else in
    this vocabulary ([np.int64] does not derive from python 3's [int]) *)
Definition proper_subclass (a b : pytype) : bool :=
  match a, b with
  | TyBool, TyInt | TyNpFloat64, TyFloat => true
  | _, _ => false
  end.

Definition kind_type (k : numkind) : pytype :=
  match k with
  | KInt => TyInt | KFloat => TyFloat | KNpInt32 => TyNpInt32 | KNpInt64 => TyNpInt64
  | KNpFloat32 => TyNpFloat32 | KNpFloat64 => TyNpFloat64 | KNpOther => TyNpOther
  end.

(** [type(a)] *)
Definition atom_type (a : atom) : pytype :=
  match a with
  | ANum k _ => kind_type k
  | ABool => TyBool | AStr => TyStr | ANone => TyNoneType | ANested => TyList | AOther => TyOther
  end.

(** how the source tests a type against the list *)
Inductive type_test :=
  | ExactType        (* [type(x) in types] / [type(x) not in types]: identity of the type object *)
  | IsInstance.      (* [isinstance(x, types)]: any subclass passes *)

Definition type_passes (t : type_test) (types : list pytype) (ty : pytype) : bool :=
  match t with
  | ExactType => existsb (pytype_eqb ty) types
  | IsInstance => existsb (fun u => pytype_eqb ty u || proper_subclass ty u) types
  end.

(** what is tested for a python list *)
Inductive list_rule :=
  | FirstElement     (* the type of [v[0]]; the empty list gives [None], which is in no list of types *)
  | EveryElement.    (* every element (and the empty list refused) *)

Record type_table := mkTT { tt_test : type_test; tt_types : list pytype; tt_list : list_rule }.

(** the scalar-type test of one value of the (converted) dictionary *)
Definition src_type_ok (tt : type_table) (v : pyval) : bool :=
  match v with
  | VAtom a => type_passes (tt_test tt) (tt_types tt) (atom_type a)
  | VList [] => false
  | VList (a :: r) =>
    match tt_list tt with
    | FirstElement => type_passes (tt_test tt) (tt_types tt) (atom_type a)
    | EveryElement => forallb (fun x => type_passes (tt_test tt) (tt_types tt) (atom_type x)) (a :: r)
    end
  | VArr0 _ _ | VArr1 _ _ | VArrNd _ => type_passes (tt_test tt) (tt_types tt) TyNdarray
  end.

(* ------------------------------------------------------------------------------------------ add: program over named steps *)

(** the exception class named by a [raise] *)
Inductive exc := ExcInput (* LeaspyIndividualParamsInputError *) | ExcOther.

Definition exc_err (e : exc) : err := match e with ExcInput => InputError | ExcOther => Crash end.

(** an attribute of the object that holds identifiers *)
Inductive id_source :=
  | SrcIndices           (* self._indices *)
  | SrcParamKeys         (* self._individual_parameters (its keys) *)
  | SrcPrivate (attr : string).   (* any other attribute: the model has no such field *)

(** One statement (group) of [add_individual_parameters], in the order of the source. *)
Inductive astep :=
  | AChkIdStr (e : exc)                      (* if not isinstance(index, str): raise e *)
  | AChkIdFresh (s : id_source) (e : exc)    (* if index in self.<s>: raise e *)
  | AChkIsDict (e : exc)                     (* if not isinstance(individual_parameters, dict): raise e *)
  | AToList                                  (* individual_parameters = {k: v.tolist() if isinstance(v, np.ndarray) else v ...} *)
  | AChkTypes (e : exc)                      (* for k, v in individual_parameters.items(): <type test of the table> raise e *)
  | AShapes                                  (* pshapes = {p: (len(v),) if isinstance(v, list) else () ...} *)
  | AChkShapes (e : exc)                     (* if self._parameters_shape is None: self._parameters_shape = pshapes
                                                elif self._parameters_shape != pshapes: raise e *)
  | APushIndex                               (* self._indices.append(index) *)
  | AStoreEntry.                             (* self._individual_parameters[index] = individual_parameters *)

(** The result keeps the object AS IT IS when the exception leaves the method. *)
Inductive srcres :=
  | SAdded (c : container)
  | SRaised (e : err) (c : container)
  | SOutside.              (* accepted, but the stored entry holds non-numeric elements: outside the value domain *)

(** the locals of the method *)
Record locals := mkL { l_arg : pyarg; l_psh : option shapes_t }.

Definition ids_of (s : id_source) (c : container) : option (list string) :=
  match s with
  | SrcIndices => Some (indices c)
  | SrcParamKeys => Some (map fst (params c))
  | SrcPrivate _ => None
  end.

(** one step: [inl (c', locals')] = go on, [inr r] = the method ends here *)
Definition src_step (tt : type_table) (st : astep) (id : pyid) (c : container) (l : locals) : (container * locals) + srcres :=
  match st with
  | AChkIdStr e => match id with IdNotStr => inr (SRaised (exc_err e) c) | IdStr _ => inl (c, l) end
  | AChkIdFresh s e =>
    match id, ids_of s c with
    | IdStr i, Some ids => if mem_str i ids then inr (SRaised (exc_err e) c) else inl (c, l)
    | _, _ => inr (SRaised Unmodelled c)          (* [x in list] for a non-string x, or an attribute the model does not have *)
    end
  | AChkIsDict e => match l_arg l with ArgNotDict => inr (SRaised (exc_err e) c) | ArgDict _ => inl (c, l) end
  | AToList =>
    match l_arg l with
    | ArgNotDict => inr (SRaised Crash c)          (* .items() of something that is not a dict *)
    | ArgDict d => inl (c, mkL (ArgDict (map (fun kv => (fst kv, tolist (snd kv))) d)) (l_psh l))
    end
  | AChkTypes e =>
    match l_arg l with
    | ArgNotDict => inr (SRaised Crash c)
    | ArgDict d => if forallb (fun kv => src_type_ok tt (snd kv)) d then inl (c, l) else inr (SRaised (exc_err e) c)
    end
  | AShapes =>
    match l_arg l with
    | ArgNotDict => inr (SRaised Crash c)
    | ArgDict d => inl (c, mkL (l_arg l) (Some (map (fun kv => (fst kv, pshape (snd kv))) d)))
    end
  | AChkShapes e =>
    match l_psh l with
    | None => inr (SRaised Crash c)                (* NameError: pshapes *)
    | Some psh =>
      match shapes c with
      | None => inl (mkC (indices c) (params c) (Some psh), l)
      | Some sh => if shapes_eqb sh psh then inl (c, l) else inr (SRaised (exc_err e) c)
      end
    end
  | APushIndex =>
    match id with
    | IdStr i => inl (mkC (indices c ++ [i])%list (params c) (shapes c), l)
    | IdNotStr => inr (SRaised Unmodelled c)
    end
  | AStoreEntry =>
    match id, l_arg l with
    | IdStr i, ArgDict d =>
      match store_all d with
      | Some e => inl (mkC (indices c) (assoc_set i e (params c)) (shapes c), l)     (* d[k] = v *)
      | None => inr SOutside
      end
    | _, _ => inr (SRaised Unmodelled c)
    end
  end.

Fixpoint src_run (tt : type_table) (p : list astep) (id : pyid) (c : container) (l : locals) : srcres :=
  match p with
  | [] => SAdded c                                 (* falls off the end: returns None *)
  | st :: r => match src_step tt st id c l with inl (c', l') => src_run tt r id c' l' | inr res => res end
  end.

Definition src_add (tt : type_table) (p : list astep) (c : container) (id : pyid) (arg : pyarg) : srcres :=
  src_run tt p id c (mkL arg None).

(** the hand-written model's answer in the same vocabulary: a rejection leaves the object as it was *)
Definition lift_add (c : container) (r : addres) : srcres :=
  match r with Added c' => SAdded c' | Rejected e => SRaised e c | AcceptedOutsideModel => SOutside end.

(** the program the hand-written [add] was written from (l. 97-159) *)
Definition ref_type_list : list pytype := [TyInt; TyNpInt32; TyNpInt64; TyFloat; TyNpFloat32; TyNpFloat64].
Definition ref_types : type_table := mkTT ExactType ref_type_list FirstElement.

(** the table accepts exactly the types the hand-written model accepts (the ORDER of the list is irrelevant) *)
Definition same_types (tt : type_table) : Prop :=
  tt_list tt = FirstElement /\
  forall ty, type_passes (tt_test tt) (tt_types tt) ty = type_passes ExactType ref_type_list ty.

Definition all_pytypes : list pytype :=
  [TyInt; TyFloat; TyNpInt32; TyNpInt64; TyNpFloat32; TyNpFloat64; TyBool; TyStr; TyNoneType; TyList; TyNdarray; TyNpOther; TyOther].

Definition ref_add : list astep :=
  [AChkIdStr ExcInput; AChkIdFresh SrcIndices ExcInput; AChkIsDict ExcInput; AToList; AChkTypes ExcInput;
   AShapes; AChkShapes ExcInput; APushIndex; AStoreEntry].

(** the keys of the parameter dict are the identifiers (part of [wf]); without it [d[index] = ...] could overwrite *)
Definition keys_agree (c : container) : Prop := indices c = map fst (params c).

(** a sequence of additions with the source-level program; the first exception aborts (it propagates to the caller) *)
Fixpoint src_add_all (tt : type_table) (p : list astep) (c : container) (l : list (pyid * pyarg)) : res container :=
  match l with
  | [] => Ok c
  | (i, a) :: r =>
    match src_add tt p c i a with
    | SAdded c' => src_add_all tt p c' r
    | SRaised e _ => Err e
    | SOutside => Err Unmodelled
    end
  end.

(* ------------------------------------------------------------------------------------------ column labels *)

(** [to_dataframe]: a parameter is ONE column called like it iff its shape is [plain_shape] and [plain_unless] does not
    occur in its name; otherwise one column [name ++ sep ++ str(i)] for i in range(shape[0]) *)
Record col_rule := mkCR { plain_shape : shape; plain_unless : string; col_sep : string }.

Definition src_col_names (r : col_rule) (ps : string * shape) : res (list string) :=
  let (p, s) := ps in
  if shape_eqb s (plain_shape r) && negb (contains (plain_unless r) p) then Ok [p]
  else match s with
       | [] => Err Crash
       | n :: _ => Ok (map (fun i => p ++ col_sep r ++ str_nat i) (seq 0 n))
       end.

(** [from_dataframe]: the parameter a column label belongs to *)
Inductive split_rule :=
  | SplitFirst (sep : ascii)     (* name.split(sep)[0]      : up to the FIRST separator *)
  | RSplitLast (sep : ascii).    (* name.rsplit(sep, 1)[0]  : up to the LAST separator  *)

(** up to the first [c] *)
Fixpoint before_first (c : ascii) (s : string) : string :=
  match s with
  | EmptyString => EmptyString
  | String d r => if Ascii.eqb d c then EmptyString else String d (before_first c r)
  end.

(** up to the last [c]; the whole string when [c] does not occur *)
Fixpoint before_last (c : ascii) (s : string) : string :=
  match s with
  | EmptyString => EmptyString
  | String d r => if Ascii.eqb d c && negb (has_char c r) then EmptyString else String d (before_last c r)
  end.

Definition src_group_key (r : split_rule) (name : string) : string :=
  match r with SplitFirst c => before_first c name | RSplitLast c => before_last c name end.

(** [group_cols] with the key function of the rule *)
Fixpoint src_group_cols (r : split_rule) (names : list string) (acc : list (string * colspec)) : res (list (string * colspec)) :=
  match names with
  | [] => Ok acc
  | name :: rest =>
    let split := src_group_key r name in
    if String.eqb split name then src_group_cols r rest (assoc_set name (Single name) acc)
    else match lookup split acc with
         | None => src_group_cols r rest (acc ++ [(split, Multi [name])])%list
         | Some (Multi l) => src_group_cols r rest (assoc_set split (Multi (l ++ [name])%list) acc)
         | Some (Single _) => Err Crash
         end
  end.

(* ------------------------------------------------------------------------------------------ iteration sources *)

(** what a loop over the individuals runs over *)
Definition iter_ids (s : id_source) (c : container) : res (list string) :=
  match ids_of s c with Some l => Ok l | None => Err Unmodelled end.

(** [to_dataframe]: rows from [rows_from], labels by [rule] *)
Definition src_to_dataframe (rows_from : id_source) (rule : col_rule) (c : container) : res table :=
  match shapes c with
  | None => Err Crash
  | Some sh =>
    do ids <- iter_ids rows_from c;
    do rws <- mapM (fun idx =>
        do e <- opt_res (lookup idx (params c)) Crash;
        do cells <- row_cells sh e;
        Ok (IdStr idx, cells)) ids;
    do names <- mapM (src_col_names rule) sh;
    let names := List.concat names in
    if mem_str "ID" names then Err Unmodelled
    else if negb (forallb (fun r => Nat.eqb (List.length (snd r)) (List.length names)) rws) then Err Crash
    else Ok (mkT names rws)
  end.

(** what a builder does with the outcome of one addition: an exception propagates *)
Definition src_outcome (r : srcres) : res container :=
  match r with SAdded c' => Ok c' | SRaised e _ => Err e | SOutside => Err Unmodelled end.

(** [from_dataframe] with the key function of the rule; every row is added by the source-level program *)
Definition src_from_dataframe (tt : type_table) (p : list astep) (r : split_rule) (t : table) : res container :=
  if negb (nodup_str (cols t)) then Err Unmodelled
  else
  do groups <- src_group_cols r (cols t) [];
  fold_left (fun acc row =>
      do c <- acc;
      do d <- mapM (fun g => do v <- row_value (cols t) (snd row) (snd g); Ok (fst g, v)) groups;
      src_outcome (src_add tt p c (fst row) (ArgDict d))) (rows t) (Ok empty).

(** [from_pytorch]; every individual is added by the source-level program *)
Definition src_from_pytorch (tt : type_table) (p : list astep) (ids : list pyid) (d : list (string * tensor)) : res container :=
  if negb (forallb (fun kt => Nat.eqb (tensor_len (snd kt)) (List.length ids)) d) then Err InputError
  else
  fold_left (fun acc ii =>
      do c <- acc;
      do pd <- mapM (fun kt => do v <- tensor_row (snd kt) (fst ii); Ok (fst kt, v)) d;
      src_outcome (src_add tt p c (snd ii) (ArgDict pd))) (combine (seq 0 (List.length ids)) ids) (Ok empty).

(** [to_pytorch]: the rows of every tensor from [rows_from], the identifiers returned from [ids_from] *)
Record torch_iter := mkTI { ti_rows_from : id_source; ti_ids_from : id_source }.

Section TorchSrc.
  Variable rnd : Q -> Q.

  Definition src_to_pytorch (ti : torch_iter) (c : container) : res (list string * list (string * list (list Q))) :=
    match shapes c with
    | None => Err Crash
    | Some sh =>
      do ids <- iter_ids (ti_rows_from ti) c;
      do d <- mapM (fun ps =>
          do rws <- mapM (fun idx =>
              do e <- opt_res (lookup idx (params c)) Crash;
              do v <- opt_res (lookup (fst ps) e) Crash;
              let cells := map rnd (value_cells v) in
              if Nat.eqb (List.length cells) (size_of_shape (snd ps)) then Ok cells else Err Crash) ids;
          Ok (fst ps, rws)) sh;
      do out <- iter_ids (ti_ids_from ti) c;
      Ok (out, d)
    end.
End TorchSrc.

(** [subset]: membership of the requested identifiers tested in [sub_member], entries read from [sub_read]
    ([self[idx]] = [__getitem__]), each one added to a fresh object by [add_individual_parameters] — the source-level program *)
Record subset_rule := mkSR { sub_member : id_source; sub_read : id_source; sub_via_add : bool }.

Definition src_subset (tt : type_table) (p : list astep) (r : subset_rule) (c : container) (ids : list pyid) : res container :=
  match ids_of (sub_member r) c, sub_read r, sub_via_add r with
  | Some known, SrcParamKeys, true =>
    if negb (forallb (fun i => match i with IdStr s => mem_str s known | IdNotStr => false end) ids)
    then Err InputError
    else src_add_all tt p empty
           (map (fun i => (i, match i with
                              | IdStr s => match lookup s (params c) with
                                           | Some e => ArgDict (map (fun pv => (fst pv, value_to_py (snd pv))) e)
                                           | None => ArgNotDict end
                              | IdNotStr => ArgNotDict end)) ids)
  | _, _, _ => Err Unmodelled
  end.

(* ------------------------------------------------------------------------------------------ json members and attributes *)

Inductive field := FIndices | FParams | FShapes.

Definition field_eqb (a b : field) : bool :=
  match a, b with FIndices, FIndices | FParams, FParams | FShapes, FShapes => true | _, _ => false end.

(** the attribute an identifier source lives in *)
Definition source_field (s : id_source) : option field :=
  match s with SrcIndices => Some FIndices | SrcParamKeys => Some FParams | SrcPrivate _ => None end.

Inductive jval := JIds (l : list string) | JParams (p : list (string * entry)) | JShapes (s : list (string * list nat)).

(** [_save_json]: member name -> the attribute written under it (in the order of the dict literal) *)
Definition src_save_json (tbl : list (string * field)) (c : container) : res (list (string * jval)) :=
  match shapes c with
  | None => Err InputError
  | Some sh =>
    if json_serialisable c
    then Ok (map (fun mf => (fst mf, match snd mf with
                                     | FIndices => JIds (indices c)
                                     | FParams => JParams (params_map (value_map_kind kind_after_json) (params c))
                                     | FShapes => JShapes sh end)) tbl)
    else Err Crash
  end.

(** [_load_json]: attribute <- member name, assigned in order on a fresh object; a member that is not in the file is a
    KeyError, a member of the wrong form leaves the model, an attribute that is never assigned keeps its [__init__] value *)
Fixpoint src_load_json (tbl : list (field * string)) (file : list (string * jval)) (c : container) : res container :=
  match tbl with
  | [] => Ok c
  | (f, m) :: r =>
    match lookup m file with
    | None => Err Crash
    | Some v =>
      match f, v with
      | FIndices, JIds l => src_load_json r file (mkC l (params c) (shapes c))
      | FParams, JParams p => src_load_json r file (mkC (indices c) p (shapes c))
      | FShapes, JShapes s => src_load_json r file (mkC (indices c) (params c) (Some s))
      | _, _ => Err Unmodelled
      end
    end
  end.

Definition filled (tbl : list (field * string)) (f : field) : bool := existsb (fun fm => field_eqb (fst fm) f) tbl.

(** how a constructor-like method builds the object it returns *)
Inductive build :=
  | ViaAdd                          (* fresh object, then add_individual_parameters for every individual *)
  | ViaMethod (m : string)          (* returns what another builder returns *)
  | DirectFill (tbl : list (field * string)).   (* fresh object, attributes assigned from json members *)

(** the attributes an instance carries: every [self.x = ...] / [obj.x = ...] of the class *)
Definition ref_attributes : list string :=
  ["_indices"; "_individual_parameters"; "_parameters_shape"; "_default_saving_type"].

Definition ref_json_members : list (string * field) :=
  [("indices", FIndices); ("individual_parameters", FParams); ("parameters_shape", FShapes)].

Definition ref_json_fill : list (field * string) :=
  [(FIndices, "indices"); (FParams, "individual_parameters"); (FShapes, "parameters_shape")].

(** the rules the hand-written model was written from *)
Definition ref_col_rule : col_rule := mkCR [1%nat] "source" "_".
Definition ref_split_rule : split_rule := SplitFirst "_".
Definition ref_torch_iter : torch_iter := mkTI SrcIndices SrcIndices.
Definition ref_subset_rule : subset_rule := mkSR SrcIndices SrcParamKeys true.
Definition ref_builders : list (string * build) :=
  [("from_dataframe", ViaAdd); ("from_pytorch", ViaAdd); ("subset", ViaAdd);
   ("_load_csv", ViaMethod "from_dataframe"); ("_load_json", DirectFill ref_json_fill)].

(** the json table of the [_load_json] row *)
Fixpoint fill_of (b : list (string * build)) : list (field * string) :=
  match b with
  | [] => []
  | (m, DirectFill t) :: r => if String.eqb m "_load_json" then t else fill_of r
  | _ :: r => fill_of r
  end.

(** the attributes the duplicate tests of a program look at *)
Fixpoint dup_sources (p : list astep) : list id_source :=
  match p with
  | [] => []
  | AChkIdFresh s _ :: r => s :: dup_sources r
  | _ :: r => dup_sources r
  end.

(** [load] (l. 606-616): extensions accepted, and the one that selects the csv reader (every other accepted one: json) *)
Definition src_load_format (d : list string * string) (path : string) : res fmt :=
  match get_extension path with
  | Some e => if mem_str e (fst d) then (if String.eqb e (snd d) then Ok Csv else Ok Json) else Err InputError
  | None => Err InputError
  end.

Definition ref_load_dispatch : list string * string := (["csv"; "json"], "csv").
Definition ref_writers : list string := ["__init__"; "add_individual_parameters"; "_load_json"].

(** [save] (l. 557-579): the extension used when the path has none ([_default_saving_type], set in [__init__]), the extension
    that selects the csv writer and the one that selects the json writer; anything else is refused *)
Record save_rule := mkSV { sv_default : string; sv_csv : string; sv_json : string }.

Definition src_save_target (r : save_rule) (c : container) (path : string) : res (string * fmt) :=
  match shapes c with
  | None => Err InputError
  | Some _ =>
    let dispatch (p e : string) :=
      if String.eqb e (sv_csv r) then Ok (p, Csv) else if String.eqb e (sv_json r) then Ok (p, Json) else Err InputError in
    match get_extension path with
    | None => dispatch (path ++ "." ++ sv_default r) (sv_default r)
    | Some e => dispatch path e
    end
  end.

Definition ref_save_rule : save_rule := mkSV "csv" "csv" "json".

(** save(csv) / load(csv) = [_save_csv] ([to_dataframe], text) then [_load_csv] (text, [from_dataframe]) *)
Definition src_csv_roundtrip (tt : type_table) (p : list astep) (rows : id_source) (rule : col_rule) (split : split_rule)
    (c : container) : res container :=
  match shapes c with
  | None => Err InputError
  | Some _ => do t <- src_to_dataframe rows rule c; do t' <- csv_reread t; src_from_dataframe tt p split t'
  end.
