(** C12 — model of leaspy's model serialisation ([to_dict] / [save]) and de-serialisation
    ([ModelSettings] -> [model_factory] -> constructor -> [load_parameters]).  Definitions only.

    Mirrors (file:line of /repo/src/leaspy at the time of writing):
      models/base.py:644            BaseModel.to_dict            -> [base_dict]
      models/mcmc_saem_compatible.py:112  McmcSaemCompatibleModel.to_dict -> [mcmc_dict]
      models/time_reparametrized.py:453   TimeReparametrizedModel.to_dict -> [save] (non-mixture kinds)
      models/joint.py:234           JointModel.to_dict            -> [save] (Joint)
      models/mixture.py:505         TimeReparametrizedMixtureModel.to_dict -> [save] (Mixture)
      models/settings.py:38         ModelSettings.__init__/_check_settings -> [settings]
      models/factory.py:31          ModelName / model_factory     -> [model_name], [load]
      models/time_reparametrized.py:53   TimeReparametrizedModel.__init__ -> [construct_tr]
      models/mixture.py:112         TimeReparametrizedMixtureModel.__init__ -> [construct_mix]
      models/base.py:435            _validate_user_provided_dimension_and_features_at_init -> [base_validate]
      models/time_reparametrized.py:389 / joint.py:217 / mixture.py:435  _load_hyperparameters
      models/time_reparametrized.py:131  _validate_source_dimension -> [validate_sdim]
      models/joint.py:71            _configure_observation_models -> [joint_obs]
      models/obs_models/_factory.py:58   observation_model_factory -> [obs_factory]
      models/obs_models/_gaussian.py:360 FullGaussianObservationModel.to_string -> [obs_string]
      models/stateful.py:308        StatefulModel.load_parameters -> [load_parameters]
      models/utilities.py:79,226    val_to_tensor / tensor_to_list -> [of_json] / [tolist]

    Numbers are exact rationals (every float is a dyadic rational); the float32 cast performed by
    [torch.tensor(list of python floats)] is the Section variable [cast32] (external behaviour, kept visible). *)
From Coq Require Import ZArith QArith List String Ascii Bool Lia.
Import ListNotations.
Open Scope string_scope.
Open Scope list_scope.

(** ** Errors are values *)
Inductive err :=
| ModelInputError      (* LeaspyModelInputError *)
| InputError           (* LeaspyInputError *)
| ValueError | TypeError | KeyError | AttributeError | NotImplementedErr | RuntimeErr
| Unmodelled.          (* input outside what this model describes: never silently accepted *)

Inductive result (A : Type) := Ok (a : A) | Err (e : err).
Arguments Ok {A} a. Arguments Err {A} e.
Definition bind {A B} (r : result A) (f : A -> result B) : result B :=
  match r with Ok a => f a | Err e => Err e end.
Notation "x <- r ;; k" := (bind r (fun x => k)) (at level 61, r at next level, right associativity).

(** ** JSON values *)
Inductive jv :=
| JNull | JInt (z : Z) | JNum (q : Q) | JStr (s : string) | JList (l : list jv) | JObj (l : list (string * jv)).
Definition dict := list (string * jv).

Fixpoint lookup {A} (k : string) (d : list (string * A)) : option A :=
  match d with [] => None | (k', v) :: r => if String.eqb k k' then Some v else lookup k r end.
Definition has {A} (k : string) (d : list (string * A)) : bool := match lookup k d with Some _ => true | None => false end.
Fixpoint remove {A} (k : string) (d : list (string * A)) : list (string * A) :=
  match d with [] => [] | (k', v) :: r => if String.eqb k k' then remove k r else (k', v) :: remove k r end.
(** python dict assignment: existing key keeps its position, new key goes last *)
Fixpoint dset {A} (k : string) (v : A) (d : list (string * A)) : list (string * A) :=
  match d with [] => [(k, v)] | (k', v') :: r => if String.eqb k k' then (k, v) :: r else (k', v') :: dset k v r end.
Definition mem (s : string) (l : list string) : bool := existsb (String.eqb s) l.

(** ** str.lower() on ASCII, str.replace("_", "-") *)
Definition lower_ascii (c : ascii) : ascii :=
  let n := nat_of_ascii c in if (65 <=? n)%nat && (n <=? 90)%nat then ascii_of_nat (n + 32) else c.
Fixpoint lower (s : string) : string := match s with EmptyString => EmptyString | String c r => String (lower_ascii c) (lower r) end.
Fixpoint under_to_dash (s : string) : string :=
  match s with EmptyString => EmptyString | String c r => String (if Ascii.eqb c "_"%char then "-"%char else c) (under_to_dash r) end.

(** ** Tensors: shape + row-major data *)
Record tensor := mkT { t_shape : list nat; t_data : list Q }.
Definition prod (s : list nat) : nat := fold_right Nat.mul 1%nat s.

Fixpoint chunks {A} (k size : nat) (l : list A) : list (list A) :=
  match k with O => [] | S k' => firstn size l :: chunks k' size (skipn size l) end.

(** [Tensor.tolist()] *)
Fixpoint tolist (s : list nat) (d : list Q) : jv :=
  match s with
  | [] => match d with x :: _ => JNum x | [] => JNull end
  | n :: s' => JList (map (tolist s') (chunks n (prod s') d))
  end.
Definition tensor_to_list (t : tensor) : jv := tolist (t_shape t) (t_data t).

(** flattened content of a nested number list ([torch.tensor(val)] then [.view(shape)] only needs the
    row-major data and the element count).  Integer literals (would give an int64 tensor), strings, nulls, objects: [None]. *)
Fixpoint flat (v : jv) : option (list Q) :=
  match v with
  | JNum q => Some [q]
  | JList l => (fix go (l : list jv) : option (list Q) :=
                  match l with [] => Some [] | x :: r => match flat x, go r with Some a, Some b => Some (a ++ b) | _, _ => None end end) l
  | _ => None
  end.

(** ** Model kinds, observation models *)
Inductive mkind := Logistic | Linear | SharedSpeed | Joint | Mixture | Lme | Constant.
Definition kind_name (k : mkind) : string :=
  match k with Logistic => "logistic" | Linear => "linear" | SharedSpeed => "shared_speed_logistic" | Joint => "joint"
             | Mixture => "mixture_logistic" | Lme => "lme" | Constant => "constant" end.
Definition all_kinds := [Joint; Logistic; Linear; SharedSpeed; Lme; Constant; Mixture].
(** [ModelName(name)] *)
Definition model_name (s : string) : result mkind :=
  match find (fun k => String.eqb (kind_name k) s) all_kinds with Some k => Ok k | None => Err ValueError end.
Definition mkind_eqb (a b : mkind) : bool := String.eqb (kind_name a) (kind_name b).

(** observation models; a Gaussian one is identified by the length of its [noise_std] *)
Inductive obsk := Gauss (n : nat) | Bern | Weib | WeibSrc.
Definition obs_string (o : obsk) : string :=
  match o with Gauss n => if (n =? 1)%nat then "gaussian-scalar" else "gaussian-diagonal" | Bern => "bernoulli"
             | Weib => "weibull-right-censored" | WeibSrc => "weibull-right-censored-with-sources" end.
Definition obs_var (o : obsk) : string := match o with Gauss _ | Bern => "y" | Weib | WeibSrc => "event" end.
Definition has_obs (name : string) (l : list obsk) : bool := existsb (fun o => String.eqb (obs_string o) name) l.

(** [observation_model_factory(str, dimension=…)] *)
Definition obs_factory (s : string) (dimension : option Z) : result obsk :=
  let s := under_to_dash (lower s) in
  if String.eqb s "gaussian-diagonal" then
    match dimension with None => Err NotImplementedErr | Some d => if (d <? 0)%Z then Err RuntimeErr else Ok (Gauss (Z.to_nat d)) end
  else if String.eqb s "gaussian-scalar" then Ok (Gauss 1)
  else if String.eqb s "bernoulli" then Ok Bern
  else if String.eqb s "weibull-right-censored" then Ok Weib
  else if String.eqb s "weibull-right-censored-with-sources" then Ok WeibSrc
  else Err NotImplementedErr.

(** ** The model object (the attributes that matter for save / load) *)
Record model := mkM {
  m_kind : mkind;
  m_name : string;                       (* instance name, [BaseModel._name] *)
  m_features : option (list string);
  m_dim : option Z;                      (* [BaseModel._dimension] *)
  m_sdim : option Z;
  m_obs : list obsk;
  m_nclusters : option Z;                (* mixture only *)
  m_nb_events : Z;                       (* joint only *)
  m_fit_metrics : jv;                    (* null or {name: float} — passed through untouched *)
  m_params : list (string * tensor);     (* values of the ModelParameter nodes, name-sorted *)
  m_mixing : tensor                      (* what [state["mixing_matrix"]] reads (used when sources >= 1) *)
}.

(** the [dimension] property *)
Definition dimension (m : model) : option Z :=
  match m_dim m with Some d => Some d | None => option_map (fun f => Z.of_nat (List.length f)) (m_features m) end.

(** ** Declared parameter shapes and Hyperparameter nodes ([get_variables_specs] of every kind), name-sorted *)
Definition f001 : Q := 5368709 # 536870912.   (* float32(0.01) *)
Definition scalar (q : Q) : tensor := mkT [] [q].
Definition sorted_insert {A} (kv : string * A) (l : list (string * A)) : list (string * A) :=
  (fix ins l := match l with [] => [kv] | (k, v) :: r => if (String.leb (fst kv) k) then kv :: (k, v) :: r else (k, v) :: ins r end) l.
Definition sort_by_name {A} (l : list (string * A)) : list (string * A) := fold_right sorted_insert [] l.

Definition noise_spec (obs : list obsk) : list (string * list nat) :=
  match find (fun o => match o with Gauss _ => true | _ => false end) obs with
  | Some (Gauss n) => [("noise_std", [n])] | _ => [] end.

Definition decl_params (k : mkind) (obs : list obsk) (d s ncl nbe : nat) : list (string * list nat) :=
  let betas := if (1 <=? s)%nat then [("betas_mean", [(d - 1)%nat; s])] else [] in
  let tr := [("tau_mean", [1%nat]); ("tau_std", [1%nat]); ("xi_std", [1%nat])] in
  sort_by_name
  match k with
  | Logistic => betas ++ tr ++ noise_spec obs ++ [("log_g_mean", [d]); ("log_v0_mean", [d])]
  | Linear => betas ++ tr ++ noise_spec obs ++ [("g_mean", [d]); ("log_v0_mean", [d])]
  | SharedSpeed => betas ++ tr ++ noise_spec obs ++ [("log_g_mean", [1%nat]); ("deltas_mean", [(d - 1)%nat]); ("xi_mean", [1%nat])]
  | Joint => betas ++ tr ++ noise_spec obs ++ [("log_g_mean", [d]); ("log_v0_mean", [d]); ("log_rho_mean", [nbe]); ("n_log_nu_mean", [nbe])]
             ++ (if has_obs "weibull-right-censored-with-sources" obs then [("zeta_mean", [s; nbe])] else [])
  | Mixture => betas ++ noise_spec obs ++ [("log_g_mean", [d]); ("log_v0_mean", [d]); ("probs", [ncl]);
               ("tau_mean", [ncl]); ("tau_std", [ncl]); ("xi_mean", [ncl]); ("xi_std", [ncl])]
               ++ (if (1 <=? s)%nat then [("sources_mean", [s; ncl])] else [])
  | Lme | Constant => []
  end.

Definition hyper_nodes (k : mkind) (obs : list obsk) (s : nat) : list (string * tensor) :=
  let src := if (1 <=? s)%nat then [("betas_std", scalar f001); ("sources_mean", mkT [s] (repeat 0%Q s)); ("sources_std", scalar 1%Q)] else [] in
  sort_by_name
  match k with
  | Logistic => src ++ [("log_g_std", scalar f001); ("log_v0_std", scalar f001); ("xi_mean", scalar 0%Q)]
  | Linear => src ++ [("g_std", scalar f001); ("log_v0_std", scalar f001); ("xi_mean", scalar 0%Q)]
  | SharedSpeed => src ++ [("log_g_std", scalar f001); ("deltas_std", scalar f001)]
  | Joint => src ++ [("log_g_std", scalar f001); ("log_v0_std", scalar f001); ("xi_mean", scalar 0%Q);
                     ("log_rho_std", scalar f001); ("n_log_nu_std", scalar f001)]
             ++ (if has_obs "weibull-right-censored-with-sources" obs then [("zeta_std", scalar f001)] else [])
  | Mixture => (if (1 <=? s)%nat then [("betas_std", scalar f001); ("sources_std", scalar 1%Q)] else [])
               ++ [("log_g_std", scalar f001); ("log_v0_std", scalar f001)]
  | Lme | Constant => []
  end.

(** ** save = to_dict (then json.dump, which is outside the model: see the trusted base) *)
Definition jopt_Z (o : option Z) : jv := match o with Some z => JInt z | None => JNull end.
Definition jfeatures (o : option (list string)) : jv := match o with Some f => JList (map JStr f) | None => JNull end.
Definition jtensors (l : list (string * tensor)) : dict := map (fun kv => (fst kv, tensor_to_list (snd kv))) l.
Definition obs_dict (l : list obsk) : dict := fold_left (fun d o => dset (obs_var o) (JStr (obs_string o)) d) l [].

Section WithVersion.
Variable version : string.   (* leaspy.__version__ *)

(** The DAG must exist: dimension and source dimension known (else [self.dag] / [get_variables_specs] raises). *)
Definition save (m : model) : result dict :=
  match dimension m, m_sdim m with
  | Some d, Some s =>
    let sn := Z.to_nat s in
    let params := jtensors (m_params m) ++ (if (1 <=? s)%Z then [("mixing_matrix", tensor_to_list (m_mixing m))] else []) in
    let base := [("leaspy_version", JStr version); ("name", JStr (m_name m)); ("features", jfeatures (m_features m));
                 ("dimension", JInt d); ("hyperparameters", JObj (jtensors (hyper_nodes (m_kind m) (m_obs m) sn)));
                 ("parameters", JObj params);
                 ("obs_models", JObj (obs_dict (m_obs m))); ("fit_metrics", m_fit_metrics m)] in
    match m_kind m with
    | Logistic | Linear | SharedSpeed => Ok (base ++ [("source_dimension", JInt s)])
    | Joint => Ok (base ++ [("source_dimension", JInt s); ("nb_events", JInt (m_nb_events m))])
    | Mixture => match m_nclusters m with
                 | Some k => Ok (base ++ [("n_clusters", JInt k); ("source_dimension", JInt s)])
                 | None => Err AttributeError end
    | Lme | Constant => Err Unmodelled
    end
  | None, _ => Err TypeError
  | _, None => Err TypeError
  end.
End WithVersion.

(** ** load *)
Definition settings_excluded := ["name"; "parameters"; "hyperparameters"; "leaspy_version"].

(** [ModelSettings]: (lower-cased name, parameters, hyper-parameters with lower-cased keys) *)
Definition settings (d : dict) : result (string * jv * dict) :=
  match lookup "name" d, lookup "parameters" d with
  | None, _ | _, None => Err ModelInputError
  | Some n, Some p =>
    if negb (has "leaspy_version" d) then Err ModelInputError else
    match n with
    | JStr n =>
      let hp := fold_left (fun acc kv => if mem (fst kv) settings_excluded then acc else dset (lower (fst kv)) (snd kv) acc) d [] in
      Ok (lower n, p, hp)
    | _ => Err AttributeError
    end
  end.

Definition jlen (v : jv) : result Z :=
  match v with JList l => Ok (Z.of_nat (List.length l)) | JStr s => Ok (Z.of_nat (String.length s)) | JObj l => Ok (Z.of_nat (List.length l))
             | _ => Err TypeError end.
Fixpoint as_strings (l : list jv) : result (list string) :=
  match l with [] => Ok [] | JStr s :: r => (x <- as_strings r ;; Ok (s :: x)) | _ => Err Unmodelled end.
(** feature lists: a list of strings or null; anything else Sized is outside the model *)
Definition as_features (v : jv) : result (option (list string)) :=
  match v with
  | JNull => Ok None
  | JList l => (x <- as_strings l ;; Ok (Some x))
  | _ => Err Unmodelled
  end.

(** the observation model(s) requested by the [obs_models] keyword, as the constructors read it *)
Definition obs_of_kw (o : option jv) (default : string) (dimension : option Z) : result (list obsk) :=
  match o with
  | None | Some JNull => (x <- obs_factory default dimension ;; Ok [x])
  | Some (JStr s) => (x <- obs_factory s dimension ;; Ok [x])
  | Some (JObj l) => match lookup "y" l with
                     | Some (JStr s) => (x <- obs_factory s dimension ;; Ok [x])
                     | Some _ => Err Unmodelled
                     | None => Err KeyError end
  | Some _ => Err Unmodelled      (* lists of observation models: not written by save *)
  end.

(** [dimension] as the constructors compute it before anything is validated *)
Definition early_dimension (kw : dict) : result (option jv) :=
  match lookup "features" kw with
  | Some f => (n <- jlen f ;; Ok (Some (JInt n)))
  | None => Ok (lookup "dimension" kw)
  end.
Definition dim_for_factory (d : option jv) : result (option Z) :=
  match d with None | Some JNull => Ok None | Some (JInt z) => Ok (Some z) | Some _ => Err Unmodelled end.

(** BaseModel.__init__ validation; returns (_dimension, _features) *)
Definition base_validate (kw : dict) : result (option Z * option (list string)) :=
  let fj := match lookup "features" kw with Some f => f | None => JNull end in
  let dj := match lookup "dimension" kw with Some d => d | None => JNull end in
  d <- match dj with JNull => Ok None | JInt z => Ok (Some z) | _ => Err ModelInputError end ;;
  _ <- match fj with JNull | JList _ | JStr _ | JObj _ => Ok tt | _ => Err ModelInputError end ;;
  f <- as_features fj ;;
  _ <- match d, f with
       | Some d', Some f' => if (d' =? Z.of_nat (List.length f'))%Z then Ok tt else Err ModelInputError
       | _, _ => Ok tt
       end ;;
  match lookup "initialization_method" kw with
  | None => Ok (d, f)
  | Some (JStr s) => if String.eqb s "default" || String.eqb s "random" then Ok (d, f) else Err ValueError
  | Some _ => Err ValueError
  end.

(** [_load_hyperparameters] re-checks of features / dimension that can still fail after [base_validate] *)
Definition rehash_dim (kw : dict) (f : option (list string)) : result unit :=
  match lookup "dimension" kw, f with
  | Some JNull, Some _ => Err ModelInputError
  | _, _ => Ok tt
  end.

(** [_validate_source_dimension] (time_reparametrized.py:131) *)
Definition opt_is (o : option Z) (z : Z) : bool := match o with Some x => (x =? z)%Z | None => false end.
Definition validate_sdim (dim : option Z) (sd : jv) : result (option Z) :=
  if opt_is dim 1 then Ok (Some 0%Z) else
  match sd with
  | JNull => Ok None
  | JInt s => if (s <? 0)%Z then Err ModelInputError
              else match dim with Some d => if (d - 1 <? s)%Z then Err ModelInputError else Ok (Some s) | None => Ok (Some s) end
  | _ => Err ModelInputError
  end.

(** JointModel._configure_observation_models *)
Definition joint_obs (dim sdim : option Z) (obs : list obsk) : result (list obsk) :=
  if opt_is dim 1 || opt_is sdim 0 then
    if has_obs "weibull-right-censored-with-sources" obs then Err InputError else
    let obs := if has_obs "gaussian-scalar" obs then obs else obs ++ [Gauss 1] in
    Ok (if has_obs "weibull-right-censored" obs then obs else obs ++ [Weib])
  else
    Ok (if has_obs "weibull-right-censored" obs then obs
        else if has_obs "weibull-right-censored-with-sources" obs then obs else obs ++ [WeibSrc]).

Definition dim_of (d : option Z) (f : option (list string)) : option Z :=
  match d with Some d => Some d | None => option_map (fun f => Z.of_nat (List.length f)) f end.

Definition empty_tensor := mkT [] [].

(** constructors of the kinds deriving from TimeReparametrizedModel (logistic, linear, shared speed, joint) *)
Definition construct_tr (k : mkind) (inst : string) (kw0 : dict) : result model :=
  let sd := match lookup "source_dimension" kw0 with Some v => v | None => JNull end in
  let kw := remove "source_dimension" kw0 in
  ed <- early_dimension kw ;;
  edz <- dim_for_factory ed ;;
  obs <- obs_of_kw (lookup "obs_models" kw) (match edz with None => "gaussian-scalar" | Some _ => "gaussian-diagonal" end) edz ;;
  df <- base_validate kw ;;
  let '(d, f) := df in
  nbe <- (if mkind_eqb k Joint then
            match lookup "nb_events" kw with None => Ok 1%Z | Some (JInt z) => Ok z | Some _ => Err Unmodelled end
          else Ok 1%Z) ;;
  _ <- rehash_dim kw f ;;
  s <- validate_sdim (dim_of d f) sd ;;
  obs <- (if mkind_eqb k Joint then joint_obs (dim_of d f) s obs else Ok obs) ;;
  Ok (mkM k inst f d s obs None nbe (match lookup "fit_metrics" kw with Some v => v | None => JNull end) [] empty_tensor).

(** constructor of the mixture kind (mixture.py:112, _load_hyperparameters mixture.py:435) *)
Definition mix_known := ["features"; "dimension"; "source_dimension"; "n_clusters"].
Definition construct_mix (inst : string) (kw : dict) : result model :=
  ed <- early_dimension kw ;;
  edz <- dim_for_factory ed ;;
  let ncl := lookup "n_clusters" kw in
  _ <- match lookup "obs_models" kw with
       | None | Some JNull | Some (JStr "gaussian-diagonal") =>
           match ncl with
           | Some (JInt n) => if (n <? 2)%Z then Err InputError
                              else if opt_is edz 1 then Err InputError else Ok tt
           | _ => Err TypeError end
       | _ => Ok tt end ;;
  obs <- obs_of_kw (lookup "obs_models" kw) "gaussian-diagonal" edz ;;
  let hp := remove "fit_metrics" (remove "obs_models" kw) in
  df <- base_validate hp ;;
  let '(d, f) := df in
  _ <- rehash_dim hp f ;;
  sn <- match lookup "source_dimension" hp with
        | None => Ok (None, None)
        | Some (JInt s) =>
            if (s <? 0)%Z || match dim_of d f with Some dd => (dd - 1 <? s)%Z | None => false end then Err ModelInputError else
            match ncl with
            | None => Ok (Some s, None)
            | Some (JInt n) => if (n <? 2)%Z then Err ModelInputError else Ok (Some s, Some n)
            | Some _ => Err ModelInputError
            end
        | Some _ => Err ModelInputError
        end ;;
  if negb (forallb (fun kv => mem (fst kv) mix_known) hp) then Err ModelInputError else
  Ok (mkM Mixture inst f d (fst sn) obs (snd sn) 1%Z (match lookup "fit_metrics" kw with Some v => v | None => JNull end) [] empty_tensor).

(** the model parameters that are the prior mean (= mode) of a population latent variable *)
Definition pop_locs := ["betas_mean"; "log_g_mean"; "log_v0_mean"; "g_mean"; "deltas_mean"; "log_rho_mean"; "n_log_nu_mean"; "zeta_mean"].

Section WithTorch.
Variable cast32 : Q -> Q.                               (* float64 -> float32 rounding of [torch.tensor] (default dtype) *)
Variable derive_mixing : mkind -> Z -> Z -> list (string * tensor) -> tensor.
   (* [state["mixing_matrix"]] recomputed from the parameters with the population variables at their prior mode *)

(** [val_to_tensor(value, declared shape)] *)
Definition of_json (shape : list nat) (v : jv) : result tensor :=
  match flat v with
  | None => Err Unmodelled
  | Some data => if (List.length data =? prod shape)%nat then Ok (mkT shape (map cast32 data)) else Err RuntimeErr
  end.

Fixpoint load_each (decl : list (string * list nat)) (given : dict) : result (list (string * tensor)) :=
  match decl with
  | [] => Ok []
  | (p, shape) :: r =>
      match lookup p given with
      | None => load_each r given                       (* missing parameter: a warning only *)
      | Some v => (t <- of_json shape v ;; rest <- load_each r given ;; Ok ((p, t) :: rest))
      end
  end.

(** Dimension UNKNOWN (neither [dimension] nor [features]; the constructor accepted it: dimension-free noise model).
    [get_variables_specs] still builds the DAG when it never computes [dimension - 1] (no sources, not the shared-speed
    kind): shapes that mention the dimension are then [(None,)].  [load_parameters] goes on: unknown names are refused
    FIRST (LeaspyModelInputError, stateful.py:331), then the provided values are reshaped in declaration order and
    [Tensor.view((None,))] raises TypeError (utilities.py:174) on the first parameter whose shape mentions the dimension
    (a shape is dimension-free iff it is the same for d = 1 and d = 2). *)
Definition dim_free_specs (k : mkind) (s : Z) : bool :=
  (s <=? 0)%Z && match k with SharedSpeed => false | _ => true end.
Fixpoint shape_eqb (a b : list nat) : bool :=
  match a, b with [], [] => true | x :: a', y :: b' => Nat.eqb x y && shape_eqb a' b' | _, _ => false end.
Fixpoint load_each_nodim (decl1 decl2 : list (string * list nat)) (given : dict) : result (list (string * tensor)) :=
  match decl1, decl2 with
  | (p, sh1) :: r1, (_, sh2) :: r2 =>
      match lookup p given with
      | None => load_each_nodim r1 r2 given
      | Some v =>
          (t <- (if shape_eqb sh1 sh2 then of_json sh1 v
                 else match flat v with None => Err Unmodelled | Some _ => Err TypeError end) ;;
           rest <- load_each_nodim r1 r2 given ;; Ok ((p, t) :: rest))
      end
  | _, _ => Ok []
  end.
Definition load_parameters_nodim (m : model) (given : dict) (s : Z) : result model :=
  if negb (dim_free_specs (m_kind m) s) then Err TypeError else
  let ncl := match m_nclusters m with Some n => Z.to_nat n | None => O end in
  let decl1 := decl_params (m_kind m) (m_obs m) 1 (Z.to_nat s) ncl (Z.to_nat (m_nb_events m)) in
  let decl2 := decl_params (m_kind m) (m_obs m) 2 (Z.to_nat s) ncl (Z.to_nat (m_nb_events m)) in
  let known := map fst decl1 ++ map fst (hyper_nodes (m_kind m) (m_obs m) (Z.to_nat s)) in
  if negb (forallb (fun kv => mem (fst kv) known) given) then Err ModelInputError else
  ps <- load_each_nodim decl1 decl2 given ;;
  (* every provided value had a dimension-free shape; the prior means (shape (dimension,)) are then missing *)
  if negb (forallb (fun kv => negb (mem (fst kv) pop_locs) || has (fst kv) ps) decl1) then Err InputError else
  Err Unmodelled.

(** [StatefulModel.load_parameters]; the derived values present in the file (mixing_matrix) are compared with
    [assert (cond, msg)] — a non-empty tuple, always true — hence ignored. *)
Definition load_parameters (m : model) (p : jv) : result model :=
  match p with
  | JObj given =>
    if mkind_eqb (m_kind m) Mixture && match m_nclusters m with None => true | Some _ => false end then Err AttributeError else
    match dim_of (m_dim m) (m_features m), m_sdim m with
    | Some d, Some s =>
      let ncl := match m_nclusters m with Some n => Z.to_nat n | None => O end in
      let decl := decl_params (m_kind m) (m_obs m) (Z.to_nat d) (Z.to_nat s) ncl (Z.to_nat (m_nb_events m)) in
      let known := map fst decl ++ map fst (hyper_nodes (m_kind m) (m_obs m) (Z.to_nat s))
                   ++ (if (1 <=? s)%Z then ["mixing_matrix"] else []) in
      if negb (forallb (fun kv => mem (fst kv) known) given) then Err ModelInputError else
      ps <- load_each decl given ;;
      (* put_population_latent_variables(PRIOR_MODE) reads the prior mean of every population variable *)
      if negb (forallb (fun kv => negb (mem (fst kv) pop_locs) || has (fst kv) ps) decl) then Err InputError else
      Ok (mkM (m_kind m) (m_name m) (m_features m) (m_dim m) (m_sdim m) (m_obs m) (m_nclusters m) (m_nb_events m)
              (m_fit_metrics m) ps (derive_mixing (m_kind m) d s ps))
    | None, Some s => load_parameters_nodim m given s
    | _, _ => Err TypeError
    end
  | _ => Err Unmodelled
  end.

(** [BaseModel.load] *)
Definition load (d : dict) : result model :=
  st <- settings d ;;
  let '(name, params, hp) := st in
  k <- model_name name ;;
  inst <- match lookup "instance_name" hp with
          | None | Some JNull | Some (JStr "") => Ok (kind_name k)
          | Some (JStr s) => Ok s
          | Some _ => Err Unmodelled end ;;
  let kw := remove "instance_name" hp in
  m <- match k with
       | Logistic | Linear | SharedSpeed | Joint => construct_tr k inst kw
       | Mixture => construct_mix inst kw
       | Lme | Constant => Err Unmodelled
       end ;;
  load_parameters m params.
End WithTorch.

(** ** Well-formed models: what a constructor followed by [initialize] / [fit] / [load_parameters] guarantees,
    minus the three things the code does NOT guarantee (instance name = kind, declared shapes, float32 data),
    which appear as separate hypotheses in the theorems. *)

(** the observation models a reload would configure from the saved [obs_models] entry *)
Definition reload_obs (k : mkind) (d s : Z) (obs : list obsk) : result (list obsk) :=
  o <- obs_of_kw (Some (JObj (obs_dict obs))) "gaussian-diagonal" (Some d) ;;
  if mkind_eqb k Joint then joint_obs (Some d) (Some s) o else Ok o.

Fixpoint params_fit (decl : list (string * list nat)) (ps : list (string * tensor)) : Prop :=
  match decl, ps with
  | [], [] => True
  | (n, sh) :: dr, (n', t) :: pr =>
      n = n' /\ List.length (t_data t) = prod (t_shape t) /\ prod (t_shape t) = prod sh /\ params_fit dr pr
  | _, _ => False
  end.

Definition stateful_kind (k : mkind) : bool := match k with Lme | Constant => false | _ => true end.

Definition decl_of (m : model) (d s : Z) : list (string * list nat) :=
  decl_params (m_kind m) (m_obs m) (Z.to_nat d) (Z.to_nat s)
              (match m_nclusters m with Some n => Z.to_nat n | None => O end) (Z.to_nat (m_nb_events m)).

Definition wf (m : model) : Prop :=
  exists fs d s,
    m_features m = Some fs /\ d = Z.of_nat (List.length fs) /\ (m_dim m = None \/ m_dim m = Some d) /\
    m_sdim m = Some s /\ (0 <= s <= d - 1)%Z /\
    stateful_kind (m_kind m) = true /\
    reload_obs (m_kind m) d s (m_obs m) = Ok (m_obs m) /\
    (if mkind_eqb (m_kind m) Mixture then exists k, m_nclusters m = Some k /\ (2 <= k)%Z else m_nclusters m = None) /\
    (if mkind_eqb (m_kind m) Joint then True else m_nb_events m = 1%Z) /\
    params_fit (decl_of m d s) (m_params m).

(** the parameters as [load_parameters] rebuilds them: declared shape, data cast to float32 *)
Fixpoint recast (cast32 : Q -> Q) (decl : list (string * list nat)) (ps : list (string * tensor)) : list (string * tensor) :=
  match decl, ps with
  | (n, sh) :: dr, (_, t) :: pr => (n, mkT sh (map cast32 (t_data t))) :: recast cast32 dr pr
  | _, _ => []
  end.

(** the three extra conditions *)
Definition default_named (m : model) : Prop := m_name m = kind_name (m_kind m).
Fixpoint declared_shapes (decl : list (string * list nat)) (ps : list (string * tensor)) : Prop :=
  match decl, ps with
  | (_, sh) :: dr, (_, t) :: pr => t_shape t = sh /\ declared_shapes dr pr
  | _, _ => True
  end.
Definition single_precision (cast32 : Q -> Q) (m : model) : Prop :=
  forall n t, In (n, t) (m_params m) -> map cast32 (t_data t) = t_data t.
