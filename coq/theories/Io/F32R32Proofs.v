(** The two executable binary32 roundings of the development — [r32] (Io/SaveLoadExec.v, integer arithmetic, subnormals; the
    cast of the save/load model, C12) and [F32.f32] = [round_bin 24 (-126) 127] (Io/F32.v, rational arithmetic, normal range
    only; the float32 store of the ingestion model, C14 / C20) — are the same function wherever [f32] is defined. *)
From Coq Require Import ZArith QArith Qround Qabs Qpower Qreduction Bool Lia Lqa.
From Leaspy Require Import Base.QAux Io.Ingest Io.F32 Io.F32Proofs.
From Leaspy Require Import Io.SaveLoad Io.SaveLoadExec Io.R32 Io.R32Proofs.
Open Scope Q_scope.

(** (n/d) / 2^sh = numS n sh / denS d sh *)
Lemma scale_eq n d sh : (n # d) * inject_Z (denS (Zpos d) sh) == inject_Z (numS n sh) * pow2 sh.
Proof.
  unfold numS, denS, pow2. rewrite (Qmake_Qdiv n d). destruct (Z.leb_spec 0 sh) as [H|H].
  - rewrite inject_Z_mult. field. discriminate.
  - rewrite inject_Z_mult. pose proof (R32Proofs.p2_pos (- sh) ltac:(lia)) as P. rewrite Zlt_Qlt in P. change (inject_Z 0) with 0 in P.
    field. repeat split; try discriminate; lra.
Qed.

Lemma e0_is_ilog2 n d : (0 < n)%Z -> e0_of n (Zpos d) = ilog2 (n # d).
Proof.
  intros Hn. symmetry. pose proof (e0_spec n (Zpos d) Hn ltac:(lia)) as [S1 S2]. set (e := e0_of n (Zpos d)) in *.
  pose proof (scale_eq n d e) as E. pose proof (denS_pos (Zpos d) e ltac:(lia)) as PB.
  rewrite Zle_Qle in S1. rewrite Zlt_Qlt in S2, PB. rewrite inject_Z_mult in S2. change (inject_Z 0) with 0 in PB. pose proof (pow2_pos e) as Pe.
  assert (Hq : 0 < n # d) by (unfold Qlt; simpl; lia).
  apply ilog2_unique; [exact Hq | |].
  - set (q := n # d) in *. set (B := inject_Z (denS (Z.pos d) e)) in *. set (A := inject_Z (numS n e)) in *. set (P := pow2 e) in *. nra.
  - rewrite pow2_succ. change (inject_Z 2) with 2 in S2.
    set (q := n # d) in *. set (B := inject_Z (denS (Z.pos d) e)) in *. set (A := inject_Z (numS n e)) in *. set (P := pow2 e) in *. nra.
Qed.

(** the integer rounding step of [r32] is the rational round-half-even of [round_bin] *)
Lemma rne_rhe A b : rne A (Zpos b) = round_half_even (A # b).
Proof.
  unfold rne, round_half_even. change (Qfloor (A # b)) with (A / Zpos b)%Z.
  set (fl := (A / Zpos b)%Z). set (rem := (A mod Zpos b)%Z).
  assert (Er : (A # b) - inject_Z fl == rem # b).
  { unfold Qeq, Qminus, Qplus, Qopp, inject_Z. cbn [Qnum Qden]. unfold rem, fl. rewrite (Z.mod_eq A (Zpos b)) by lia.
    rewrite Pos.mul_1_r. ring. }
  rewrite (Qcompare_comp _ _ Er _ _ (Qeq_refl (1 # 2))).
  unfold Qcompare. cbn [Qnum Qden].
  destruct (Z.compare_spec (rem * 2) (1 * Zpos b)); destruct (Z.ltb_spec (2 * rem) (Zpos b)); destruct (Z.ltb_spec (Zpos b) (2 * rem)); try lia; reflexivity.
Qed.

Lemma mk_val m sh : mk m sh == inject_Z m * pow2 sh.
Proof.
  unfold mk, pow2. destruct (Z.leb_spec 0 sh) as [H|H].
  - rewrite inject_Z_mult. reflexivity.
  - rewrite Qred_correct. pose proof (R32Proofs.p2_pos (- sh) ltac:(lia)) as P.
    rewrite (Qmake_Qdiv m). rewrite Z2Pos.id by exact P. reflexivity.
Qed.

Lemma mk_reduced m sh : Qred (mk m sh) = mk m sh.
Proof.
  unfold mk. destruct (Z.leb_spec 0 sh); [apply Qred_inject|]. apply Qred_complete. apply Qred_correct.
Qed.

Lemma div_cross q A B P : 0 < P -> 0 < B -> q * B == A * P -> A / B == q / P.
Proof.
  intros HP HB H. assert (E : A == q * B / P) by (rewrite H; field; lra). rewrite E. field. split; lra.
Qed.

Lemma core_f32 n d x : (0 < n)%Z -> f32 (n # d) = Some x -> core n (Zpos d) = x.
Proof.
  intros Hn F. assert (Hq : 0 < n # d) by (unfold Qlt; simpl; lia).
  destruct (round_bin_pos 24 (-126) 127 (n # d) x ltac:(lia) Hq F) as (_ & Rg & _ & EL).
  unfold core. rewrite (e0_is_ilog2 n d Hn). set (e := ilog2 (n # d)) in *.
  replace (Z.max e (-126) - 23)%Z with (e - (24 - 1))%Z by lia. set (sh := (e - (24 - 1))%Z) in *.
  pose proof (denS_pos (Zpos d) sh ltac:(lia)) as PB.
  pose proof (scale_eq n d sh) as E.
  destruct (denS (Zpos d) sh) as [|b|b] eqn:EB; try lia.
  rewrite rne_rhe.
  assert (Sv : numS n sh # b == (n # d) / pow2 sh).
  { rewrite (Qmake_Qdiv (numS n sh) b). apply div_cross; [apply pow2_pos | reflexivity | exact E]. }
  rewrite (rhe_comp _ _ Sv). rewrite EL, <- mk_reduced. apply Qred_complete. apply mk_val.
Qed.

(** on the normal range of binary32 the two executable roundings of the development are the same function *)
Theorem f32_is_r32 q x : f32 q = Some x -> r32 q = x.
Proof.
  intros F. rewrite r32_unfold. unfold r32'. destruct q as [n d]. cbn [Qnum Qden].
  destruct n as [|n|n].
  - assert (Hz : 0 # d == 0) by reflexivity. symmetry. exact (round_bin_zero 24 (-126) 127 (0 # d) x Hz F).
  - change (Z.pos n <? 0)%Z with false. cbv iota zeta. change (Z.abs (Z.pos n)) with (Z.pos n). apply core_f32; [lia | exact F].
  - change (Z.neg n <? 0)%Z with true. cbv iota zeta. change (Z.abs (Z.neg n)) with (Z.pos n).
    assert (Hq : 0 < Z.pos n # d) by reflexivity.
    pose proof (round_bin_opp 24 (-126) 127 (Z.pos n # d) Hq) as O. change (- (Z.pos n # d)) with (Z.neg n # d) in O.
    fold (f32 (Z.neg n # d)) in O. fold (f32 (Z.pos n # d)) in O. rewrite F in O.
    destruct (f32 (Z.pos n # d)) as [y|] eqn:Fy; [|discriminate]. injection O as ->.
    rewrite (core_f32 (Z.pos n) d y ltac:(lia) Fy). reflexivity.
Qed.

(** hence [r32] is monotone on the normal range *)
Theorem r32_monotone_normal q1 q2 : pow2 (-126) <= q1 -> q1 <= q2 -> q2 < pow2 127 -> r32 q1 <= r32 q2.
Proof.
  intros L H U.
  assert (P1 : 0 < q1) by (eapply Qlt_le_trans; [apply (pow2_pos (-126))|exact L]).
  assert (P2 : 0 < q2) by (eapply Qlt_le_trans; eassumption).
  destruct (round_bin_pos_defined 24 (-126) 127 q1 ltac:(lia) P1 L) as [x1 F1]; [eapply Qle_lt_trans; eassumption|].
  destruct (round_bin_pos_defined 24 (-126) 127 q2 ltac:(lia) P2) as [x2 F2]; [eapply Qle_trans; eassumption | exact U |].
  rewrite (f32_is_r32 q1 x1 F1), (f32_is_r32 q2 x2 F2).
  exact (round_bin_monotone 24 (-126) 127 q1 q2 x1 x2 ltac:(lia) H F1 F2).
Qed.

Example f32_is_r32_example :
  f32 (1 # 3) = Some (r32 (1 # 3)) /\ f32 (- (33554431 # 2)) = Some (r32 (- (33554431 # 2))) /\
  pow2 (-126) <= 70000001 # 1000000 /\ 70000003 # 1000000 < pow2 127.
Proof. split; [vm_compute; reflexivity|]. split; [vm_compute; reflexivity|]. split; [vm_compute; discriminate | vm_compute; reflexivity]. Qed.
