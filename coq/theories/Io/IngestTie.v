(** Executable comparison of the model's result with what the implementation was observed to produce
    (definitions only; evaluated by [vm_compute] on generated cases).  Floats arrive as exact rationals. *)
From Coq Require Import ZArith QArith List Bool String.
From Leaspy Require Import Base.QAux Io.Ingest Io.F32.
Import ListNotations.

Inductive observed :=
| ObsErr (e : error)
| ObsOk (indices : list ident)
        (data_times : list (list Q))            (* IndividualData.timepoints (float64), per individual *)
        (times : list (list Q)) (values : list (list (list Q))) (mask : list (list (list bool)))
        (nvis : list nat) (nvis_max nvis_total : nat)
        (nobs_ind_ft : list (list nat)) (nobs_ft : list nat) (nobs : nat)
        (event : option (list (list Q) * list (list bool)))
        (cov : option (list (list Z))).

Fixpoint list_eqb {A} (eqb : A -> A -> bool) (a b : list A) : bool :=
  match a, b with
  | [], [] => true
  | x :: a', y :: b' => eqb x y && list_eqb eqb a' b'
  | _, _ => false
  end.
Definition option_eqb {A} (eqb : A -> A -> bool) (a b : option A) : bool :=
  match a, b with Some x, Some y => eqb x y | None, None => true | _, _ => false end.
Definition error_eqb (a b : error) : bool :=
  match a, b with DataError, DataError | OtherError, OtherError => true | _, _ => false end.

Definition agree (P : params) (t : table) (o : observed) : bool :=
  match ingest_data P t, o with
  | Err e, ObsErr e' => error_eqb e e'
  | Ok inds, ObsOk ix dt tm va ma nv nvm nvt noif nof no ev cv =>
    let d := construct P (t_layout t) (t_nfeat t) inds in
    list_eqb ident_eqb (d_indices d) ix
    && (if d_has_visits d then list_eqb (list_eqb Qeq_bool) (map (fun i => map (fun v => store64 (micro P (fst v))) (i_visits i)) inds) dt
        else match dt with [] => true | _ => false end)
    && list_eqb (list_eqb Qeq_bool) (d_times d) tm
    && list_eqb (list_eqb (list_eqb Qeq_bool)) (d_values d) va
    && list_eqb (list_eqb (list_eqb Bool.eqb)) (d_mask d) ma
    && list_eqb Nat.eqb (d_nvis d) nv && Nat.eqb (d_nvis_max d) nvm && Nat.eqb (d_nvis_total d) nvt
    && list_eqb (list_eqb Nat.eqb) (d_nobs_ind_ft d) noif && list_eqb Nat.eqb (d_nobs_ft d) nof && Nat.eqb (d_nobs d) no
    && match d_event d, ev with
       | Some a, Some b => list_eqb (list_eqb Qeq_bool) (map (map (fun z => store64 (micro P z))) (fst a)) (fst b)
                           && list_eqb (list_eqb Bool.eqb) (snd a) (snd b)
       | None, None => true
       | _, _ => false
       end
    && option_eqb (list_eqb (list_eqb Z.eqb)) (d_cov d) cv
  | _, _ => false
  end.
