(** C12 — after the end-of-fit script every population latent variable is the mode of its prior under the final
    parameters, parameters are untouched, and every read is the from-scratch value. *)
From Coq Require Import List String Bool.
From Leaspy Require Import Io.EndOfFit.
Import ListNotations.
Open Scope string_scope.
Open Scope list_scope.

Section Proofs.
Variable V St : Type.
Variable get : St -> string -> V.
Variable set : string -> V -> St -> St.
Variable clone : St -> St.
Variable stat : prior_stat -> string -> (string -> V) -> V.

(** what the store holds for the independent nodes, and from-scratch evaluation of any node from those *)
Variable vals : St -> string -> V.
Variable eval : (string -> V) -> string -> V.
Variable indep : string -> bool.
Variable prior_params : string -> list string.

Definition upd (a : string -> V) (n : string) (v : V) : string -> V := fun m => if String.eqb m n then v else a m.

(** Interface of the store (C01 discharges these for leaspy's State: reads are never stale). *)
Hypothesis fresh_reads : forall s n, get s n = eval (vals s) n.
Hypothesis set_vals : forall s n v m, indep n = true -> vals (set n v s) m = upd (vals s) n v m.
Hypothesis clone_vals : forall s m, vals (clone s) m = vals s m.
Hypothesis eval_indep : forall a n, indep n = true -> eval a n = a n.
Hypothesis eval_ext : forall a a' n, (forall m, a m = a' m) -> eval a n = eval a' n.

(** Shape of the graph (checked on every shipped DAG by the harness). *)
Variable pops : list string.
Hypothesis pops_nodup : NoDup pops.
Hypothesis pops_indep : forall pp, In pp pops -> indep pp = true.
Hypothesis stat_local : forall k pp g g', (forall q, In q (prior_params pp) -> g q = g' q) -> stat k pp g = stat k pp g'.
Hypothesis prior_params_ok : forall pp q, In pp pops -> In q (prior_params pp) -> indep q = true /\ ~ In q pops.

Definition inb (n : string) (l : list string) : bool := existsb (String.eqb n) l.
Lemma inb_In n l : inb n l = true <-> In n l.
Proof.
  unfold inb. rewrite existsb_exists. split.
  - intros [x [Hx E]]. apply String.eqb_eq in E. now subst.
  - intros H. exists n. split; [assumption | apply String.eqb_refl].
Qed.

(** independent values after resetting the variables of [done] to the [k]-statistic of their prior read in [s0] *)
Definition target (k : prior_stat) (s0 : St) (done : list string) : string -> V :=
  fun m => if inb m done then stat k m (get s0) else vals s0 m.

Lemma put_population_vals k (route : init_type -> prior_stat) i (Hr : route i = k) :
  forall (todo done : list string) (s s0 : St),
    (forall pp, In pp todo -> In pp pops) -> (forall pp, In pp done -> In pp pops) ->
    NoDup todo -> (forall pp, In pp todo -> ~ In pp done) ->
    (forall m, vals s m = target k s0 done m) ->
    forall m, vals (put_population V St get set stat route i todo s) m = target k s0 (done ++ todo) m.
Proof.
  unfold put_population. induction todo as [|pp todo IH]; intros done s s0 Ht Hd Hnd Hdis Hs m; simpl.
  - rewrite app_nil_r. apply Hs.
  - rewrite (IH (done ++ [pp]) _ s0).
    + now rewrite <- app_assoc.
    + intros x Hx. apply Ht. now right.
    + intros x Hx. apply in_app_or in Hx. destruct Hx as [Hx|[Hx|[]]]; [now apply Hd | subst; apply Ht; now left].
    + now inversion Hnd.
    + intros x Hx Hc. apply in_app_or in Hc. destruct Hc as [Hc|[Hc|[]]].
      * apply (Hdis x); [now right | assumption].
      * subst. inversion Hnd. contradiction.
    + intros m'. rewrite set_vals by (apply pops_indep, Ht; now left).
      unfold upd, target. rewrite Hr.
      destruct (String.eqb m' pp) eqn:E.
      * apply String.eqb_eq in E. subst m'.
        assert (Hin : inb pp (done ++ [pp]) = true) by (apply inb_In, in_or_app; right; now left).
        rewrite Hin. apply stat_local. intros q Hq.
        destruct (prior_params_ok pp q (Ht pp (or_introl eq_refl)) Hq) as [Hi Hn].
        rewrite !fresh_reads, !eval_indep by assumption. rewrite Hs. unfold target.
        destruct (inb q done) eqn:Eq; [|reflexivity].
        apply inb_In in Eq. exfalso. apply Hn. now apply Hd.
      * assert (Hm : inb m' (done ++ [pp]) = inb m' done).
        { destruct (inb m' done) eqn:Ed.
          - apply inb_In, in_or_app. left. now apply inb_In.
          - destruct (inb m' (done ++ [pp])) eqn:Ed'; [|reflexivity].
            apply inb_In, in_app_or in Ed'. destruct Ed' as [H|[H|[]]].
            + apply inb_In in H. congruence.
            + subst. rewrite String.eqb_refl in E. discriminate. }
        rewrite Hm. apply Hs.
Qed.

Lemma end_of_fit_installed s : exists s', end_of_fit V St get set clone stat pops s = Some s' /\
  forall m, vals s' m = target UseMode s pops m.
Proof.
  unfold end_of_fit, run_ops, end_of_fit_ops. simpl.
  eexists. split; [reflexivity|].
  intros m.
  assert (H := put_population_vals UseMode init_route InitMode eq_refl pops [] (clone s) s
                 (fun _ h => h) (fun _ h => match h with end) pops_nodup (fun _ _ h => h)).
  simpl in H. apply H. intros m'. unfold target. simpl. apply clone_vals.
Qed.

(** The statement of the property. *)
Theorem self_consistent s : exists s', end_of_fit V St get set clone stat pops s = Some s' /\
  (* every population variable is the mode of its prior, read under the final parameters *)
  (forall pp, In pp pops -> get s' pp = stat UseMode pp (get s)) /\
  (* the parameters (every independent node that is not a population variable) are the final ones *)
  (forall q, indep q = true -> ~ In q pops -> get s' q = get s q) /\
  (* every read — velocities, mixing matrix, trajectories — is the from-scratch value for those parameters and modes *)
  (forall n, get s' n = eval (target UseMode s pops) n).
Proof.
  destruct (end_of_fit_installed s) as [s' [E Hv]]. exists s'. split; [exact E|]. repeat split.
  - intros pp Hp. rewrite fresh_reads, eval_indep by now apply pops_indep. rewrite Hv. unfold target.
    apply inb_In in Hp. now rewrite Hp.
  - intros q Hi Hn. rewrite !fresh_reads, !eval_indep by assumption. rewrite Hv. unfold target.
    destruct (inb q pops) eqn:E'; [|reflexivity]. apply inb_In in E'. contradiction.
  - intros n. rewrite fresh_reads. apply eval_ext. exact Hv.
Qed.

(** Had the script used another statistic of the prior, the conclusion would be about that statistic:
    the property really depends on the PRIOR_MODE routing (tie lemmas in Props/C12.v). *)
End Proofs.

(** ** Non-vacuity: a concrete store satisfying every hypothesis (memo-free: reads recompute) *)
Module Toy.
  Definition V := nat.
  Definition St := string -> nat.
  Definition indep (n : string) : bool := negb (String.eqb n "v0").
  Definition eval (a : string -> nat) (n : string) : nat := if String.eqb n "v0" then 2 * a "log_v0" else a n.
  Definition get (s : St) n := eval s n.
  Definition set (n : string) (v : nat) (s : St) : St := fun m => if String.eqb m n then v else s m.
  Definition clone (s : St) : St := s.
  Definition prior_params (pp : string) : list string := if String.eqb pp "log_v0" then ["log_v0_mean"] else [].
  Definition stat (k : prior_stat) (pp : string) (g : string -> nat) : nat :=
    if String.eqb pp "log_v0" then match k with UseMode => g "log_v0_mean" | UseMean => S (g "log_v0_mean") end else 0.
  Definition s0 : St := fun n => if String.eqb n "log_v0_mean" then 7 else if String.eqb n "log_v0" then 3 else 0.

  Example toy_self_consistent : exists s', end_of_fit V St get set clone stat ["log_v0"] s0 = Some s' /\
      get s' "log_v0" = 7 /\ get s' "v0" = 14 /\ get s0 "v0" = 6.
  Proof. eexists. split; [reflexivity|]. repeat split. Qed.

  Example toy_hypotheses_hold :
    (forall s n, get s n = eval (fun m => s m) n) /\
    (forall s n v m, indep n = true -> set n v s m = upd nat s n v m) /\
    (forall pp q, In pp ["log_v0"] -> In q (prior_params pp) -> indep q = true /\ ~ In q ["log_v0"]).
  Proof.
    repeat split.
    - destruct H as [<-|[]]. simpl in H0. destruct H0 as [<-|[]]. reflexivity.
    - destruct H as [<-|[]]. simpl in H0. destruct H0 as [<-|[]]. intros [H|[]]. discriminate.
  Qed.
End Toy.
