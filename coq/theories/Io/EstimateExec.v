(** C09 — executable instantiation of the [estimate] model used by the correspondence (T2, [vm_compute]) and by the
    witnesses: IDs are strings (IndividualParameters only accepts string IDs) ordered like Python orders
    ASCII strings, ages are exact rationals (every float is a dyadic rational; the harness writes reduced fractions, so
    structural equality is numeric equality), a row is the list of feature values.  Definitions only. *)
From Coq Require Import List Bool String QArith ZArith.
From Leaspy Require Import Io.Estimate.
Import ListNotations.

Definition Qeqb (a b : Q) : bool := Z.eqb (Qnum a) (Qnum b) && Pos.eqb (Qden a) (Qden b).

Fixpoint all2 {A B : Type} (p : A -> B -> bool) (l1 : list A) (l2 : list B) : bool :=
  match l1, l2 with
  | [], [] => true
  | a :: r1, b :: r2 => p a b && all2 p r1 r2
  | _, _ => false
  end.

Definition row := list Q.
Definition row_eqb : row -> row -> bool := all2 Qeqb.
Definition opt_row_eqb (a b : option row) : bool :=
  match a, b with Some x, Some y => row_eqb x y | None, None => true | _, _ => false end.

Definition ages_eqb (a b : ages Q) : bool :=
  match a, b with
  | One x, One y => Qeqb x y
  | Many xs, Many ys => all2 Qeqb xs ys
  | _, _ => false
  end.

(** one recorded call of [compute_individual_trajectory]: (ID, ages passed — a scalar or a sequence —, rows returned) *)
Definition call := (string * ages Q * list row)%type.

(** the trajectory function of a run = the table of the calls recorded on the implementation *)
Definition traj_of_calls (cs : list call) (i : string) (ts : ages Q) : list row :=
  match find (fun c => String.eqb (fst (fst c)) i && ages_eqb (snd (fst c)) ts) cs with
  | Some c => snd c
  | None => []
  end.

Definition estimate_x (cs : list call) : input string Q -> option bool -> output string Q row :=
  estimate string Q row String.eqb String.leb Qeqb (traj_of_calls cs).

Definition out_eqb (a b : output string Q row) : bool :=
  match a, b with
  | OutDict d1, OutDict d2 => all2 (fun x y => String.eqb (fst x) (fst y) && all2 row_eqb (snd x) (snd y)) d1 d2
  | OutFrame r1, OutFrame r2 =>
      all2 (fun x y => String.eqb (fst (fst x)) (fst (fst y)) && Qeqb (snd (fst x)) (snd (fst y))
                       && opt_row_eqb (snd x) (snd y)) r1 r2
  | OutError, OutError => true
  | _, _ => false
  end.

Definition calls_x (inp : input string Q) : request string Q := calls string Q String.eqb String.leb inp.

(** a case of the correspondence: request, [to_dataframe], recorded calls, observed output *)
Definition case := (input string Q * option bool * list call * output string Q row)%type.

Definition calls_agree (c : case) : bool :=
  match c with (inp, _, cs, _) =>
    all2 (fun r cl => String.eqb (fst r) (fst (fst cl)) && ages_eqb (snd r) (snd (fst cl))) (calls_x inp) cs
  end.

Definition output_agrees (c : case) : bool :=
  match c with (inp, todf, cs, obs) => out_eqb (estimate_x cs inp todf) obs end.

Definition check_case (c : case) : bool := calls_agree c && output_agrees c.

(** tagging instance for witnesses: the "value" of individual i at age t is the pair (i, t) itself *)
Definition tag (i : string) (t : Q) : string * Q := (i, t).
Definition estimate_tag : input string Q -> option bool -> output string Q (string * Q) :=
  estimate string Q (string * Q) String.eqb String.leb Qeqb (fun i a => map (tag i) (atleast_1d Q a)).

(** a MultiIndex request with a repeated (ID, TIME) pair, individuals interleaved, ages unsorted (the request of the former
    finding F8: the code used to return 6 rows for it) *)
Definition f8_request : index string Q :=
  [("b"%string, 75 # 1); ("a"%string, 70 # 1); ("b"%string, 71 # 1); ("b"%string, 75 # 1)].
