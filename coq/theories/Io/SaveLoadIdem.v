(** C12 — save∘load is a fixed point after ONE round, for every well-formed default-named model: whatever the shapes and
    the precision of the parameters the model holds (the three things [roundtrip_exact] asks for), the model obtained by
    ONE save/load has declared shapes, single-precision data and the derived mixing matrix, so the second round is exact.
    The only hypothesis on the cast is that casting twice is casting once (rounding to float32 is idempotent). *)
From Coq Require Import ZArith QArith List String Bool Lia.
From Leaspy Require Import Io.SaveLoad Io.SaveLoadExec Io.SaveLoadProofs.
Import ListNotations.
Open Scope string_scope.

Section AfterOne.
Variable cast32 : Q -> Q.
Variable derive : mkind -> Z -> Z -> list (string * tensor) -> tensor.
Variable ver : string.

(** casting twice is casting once, on the numbers the model holds (true of any rounding; for the executable [r32] it is
    decided by computation on the values of each case, see [after_one_example]) *)
Definition cast_idem_on (m : model) : Prop :=
  forall n t q, In (n, t) (m_params m) -> In q (t_data t) -> cast32 (cast32 q) = cast32 q.

Lemma recast_fit : forall decl ps, params_fit decl ps -> params_fit decl (recast cast32 decl ps).
Proof.
  induction decl as [|[n sh] decl IH]; destruct ps as [|[n' t] ps]; simpl; try tauto.
  intros (E & Hl & Hp & Hf). repeat split; [now rewrite map_length, Hl, Hp | now apply IH].
Qed.

Lemma recast_declared : forall decl ps, declared_shapes decl (recast cast32 decl ps).
Proof.
  induction decl as [|[n sh] decl IH]; destruct ps as [|[n' t] ps]; simpl; try tauto.
  split; [reflexivity | apply IH].
Qed.

Lemma recast_single : forall decl ps,
  (forall n t q, In (n, t) ps -> In q (t_data t) -> cast32 (cast32 q) = cast32 q) ->
  forall n t, In (n, t) (recast cast32 decl ps) -> map cast32 (t_data t) = t_data t.
Proof.
  induction decl as [|[n sh] decl IH]; destruct ps as [|[n' t'] ps]; simpl; try tauto.
  intros Hc n0 t0 [E | Hin].
  - inversion E; subst. simpl. rewrite map_map. apply map_ext_in. intros q Hq. apply (Hc n' t' q); [now left | exact Hq].
  - apply (IH ps) with (n := n0); [| exact Hin]. intros n1 t1 q H1 Hq. apply (Hc n1 t1 q); [now right | exact Hq].
Qed.

Lemma decl_of_reloaded m d s d' s' : decl_of (reloaded cast32 derive m d s) d' s' = decl_of m d' s'.
Proof. reflexivity. Qed.

Lemma reloaded_wf m d s : wf m -> dimension m = Some d -> m_sdim m = Some s -> wf (reloaded cast32 derive m d s).
Proof.
  intros (fs & d0 & s0 & Hf & Hd & Hdim & Hs & Hr & Hk & Hobs & Hncl & Hnbe & Hfit) Hdm Hsd.
  assert (Ed : d0 = d) by (unfold dimension in Hdm; rewrite Hf in Hdm; destruct Hdim as [E|E]; rewrite E in Hdm; simpl in Hdm; congruence).
  assert (Es : s0 = s) by congruence. rewrite Ed, Es in *. clear Ed Es d0 s0.
  exists fs, d, s. unfold reloaded.
  cbn [m_kind m_name m_features m_dim m_sdim m_obs m_nclusters m_nb_events m_fit_metrics m_params m_mixing].
  repeat split; try assumption; try lia.
  all: try (now right).
  change (params_fit (decl_of m d s) (recast cast32 (decl_of m d s) (m_params m))). now apply recast_fit.
Qed.

(** ONE round normalises: the reloaded model meets every hypothesis of the exact round trip. *)
Theorem reloaded_normal m d s : wf m -> default_named m -> cast_idem_on m -> dimension m = Some d -> m_sdim m = Some s ->
  let m1 := reloaded cast32 derive m d s in
  wf m1 /\ default_named m1 /\
  (forall d' s', dimension m1 = Some d' -> m_sdim m1 = Some s' -> declared_shapes (decl_of m1 d' s') (m_params m1)) /\
  single_precision cast32 m1 /\ mixing_consistent derive m1.
Proof.
  intros Hwf Hn Hc Hd Hs m1. split; [now apply reloaded_wf|]. split; [exact Hn|]. split; [|split].
  - intros d' s' Hd' Hs'. unfold m1, reloaded in *. cbn [dimension m_dim m_sdim m_params] in *.
    inversion Hd'; inversion Hs'; subst. apply recast_declared.
  - intros n t Hin. unfold m1, reloaded in Hin. cbn [m_params] in Hin. eapply recast_single; [exact Hc | exact Hin].
  - intros d' s' Hd' Hs' _. unfold m1, reloaded in *. cbn [dimension m_dim m_sdim m_params m_mixing m_kind] in *.
    inversion Hd'; inversion Hs'; subst. reflexivity.
Qed.

(** save (load (save (load (save m)))) = save (load (save m)) — and the second reload has the parameters of the first. *)
Theorem idempotent_after_one m : wf m -> default_named m -> cast_idem_on m ->
  exists dct m1, save ver m = Ok dct /\ load cast32 derive dct = Ok m1 /\
    exists dct1 m2, save ver m1 = Ok dct1 /\ load cast32 derive dct1 = Ok m2 /\
      save ver m2 = Ok dct1 /\ m_params m2 = m_params m1 /\ m_kind m2 = m_kind m /\ m_name m2 = m_name m /\
      m_features m2 = m_features m /\ dimension m2 = dimension m /\ m_sdim m2 = m_sdim m /\ m_obs m2 = m_obs m /\
      m_nclusters m2 = m_nclusters m /\ m_nb_events m2 = m_nb_events m /\ m_fit_metrics m2 = m_fit_metrics m.
Proof.
  intros Hwf Hn Hc.
  destruct (roundtrip cast32 derive ver m Hwf Hn) as (dct & d & s & Hsv & Hd & Hs & Hl).
  exists dct, (reloaded cast32 derive m d s). split; [exact Hsv|]. split; [exact Hl|].
  destruct (reloaded_normal m d s Hwf Hn Hc Hd Hs) as (W1 & N1 & Sh1 & Sp1 & Mx1).
  destruct (roundtrip_exact cast32 derive ver _ W1 N1 Sh1 Sp1 Mx1)
    as (dct1 & d1 & Hsv1 & Hd1 & m2 & Hl2 & Hp & Hk & Hnm & Hf & Hdm & Hsd & Ho & Hnc & Hne & Hfm & Hsv2).
  exists dct1, m2. split; [exact Hsv1|]. split; [exact Hl2|]. split; [exact Hsv2|]. split; [exact Hp|].
  unfold reloaded in Hk, Hnm, Hf, Hdm, Hsd, Ho, Hnc, Hne, Hfm.
  cbn [dimension m_kind m_name m_features m_dim m_sdim m_obs m_nclusters m_nb_events m_fit_metrics] in Hk, Hnm, Hf, Hdm, Hsd, Ho, Hnc, Hne, Hfm.
  repeat split; try assumption; congruence.
Qed.
End AfterOne.

(** Non-vacuity: the float64 witness of [float64_refuted] (parameters that are NOT float32 values, so the first round changes
    the file) meets the hypotheses, with the executable float32 rounding as the cast on the values involved. *)
Example after_one_example :
  let m := witness "logistic" (t1 (1 # 3)) in
  wf m /\ default_named m /\ cast_idem_on r32 m /\
  (forall derive, exists d m1 d1, save "2.0.2" m = Ok d /\ load r32 derive d = Ok m1 /\ save "2.0.2" m1 = Ok d1 /\ d1 <> d).
Proof.
  split; [now apply witness_wf|]. split; [reflexivity|]. split.
  - intros n t q H Hq. simpl in H.
    repeat (destruct H as [H|H]; [inversion H; subst; simpl in Hq; destruct Hq as [<-|[]]; vm_compute; reflexivity|]). contradiction.
  - intros derive. eexists. eexists. eexists. split; [reflexivity|]. split; [vm_compute; reflexivity|]. split; [vm_compute; reflexivity|].
    vm_compute. discriminate.
Qed.
