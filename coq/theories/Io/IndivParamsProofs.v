(** C16 — proofs about the model of IndividualParameters (Io/IndivParams.v). *)
From Coq Require Import List String Ascii Bool Arith QArith Lia Permutation.
From Coq Require Import Decimal DecimalString DecimalNat FinFun.
From Leaspy Require Import Io.IndivParams.
Import ListNotations.
Open Scope string_scope.

(* ------------------------------------------------------------------------------------------ basics *)

Lemma mem_str_In s l : mem_str s l = true <-> In s l.
Proof.
  unfold mem_str. rewrite existsb_exists. split.
  - intros [x [H E]]. apply String.eqb_eq in E. now subst.
  - intros H. exists s. split; [assumption | apply String.eqb_refl].
Qed.

Lemma mem_str_false s l : mem_str s l = false <-> ~ In s l.
Proof.
  rewrite <- mem_str_In. destruct (mem_str s l); split; congruence.
Qed.

Lemma nodup_str_NoDup l : nodup_str l = true <-> NoDup l.
Proof.
  induction l as [|a l IH]; simpl.
  - split; [constructor | reflexivity].
  - rewrite andb_true_iff, negb_true_iff, mem_str_false, IH. split.
    + intros [H1 H2]. now constructor.
    + intros H. inversion H; subst. now split.
Qed.

Lemma mapM_ok {A B} (f : A -> res B) (g : A -> B) l :
  (forall a, In a l -> f a = Ok (g a)) -> mapM f l = Ok (map g l).
Proof.
  induction l as [|a l IH]; intros H; simpl; [reflexivity|].
  rewrite (H a (or_introl eq_refl)). simpl. rewrite IH; [reflexivity|].
  intros b Hb. apply H. now right.
Qed.

Lemma mapM_map {A B C} (f : B -> res C) (g : A -> B) l : mapM f (map g l) = mapM (fun x => f (g x)) l.
Proof. induction l as [|a l IH]; simpl; [reflexivity|]. now rewrite IH. Qed.

Lemma lookup_In {A} k (l : list (string * A)) v : lookup k l = Some v -> In (k, v) l.
Proof.
  induction l as [|[k' v'] l IH]; simpl; [discriminate|].
  destruct (String.eqb k k') eqn:E.
  - apply String.eqb_eq in E. subst. intros H. inversion H. now left.
  - intros H. right. now apply IH.
Qed.

Lemma In_lookup {A} k (l : list (string * A)) v : NoDup (map fst l) -> In (k, v) l -> lookup k l = Some v.
Proof.
  induction l as [|[k' v'] l IH]; simpl; intros ND H; [contradiction|].
  inversion ND; subst. destruct H as [H|H].
  - inversion H; subst. now rewrite String.eqb_refl.
  - destruct (String.eqb k k') eqn:E.
    + apply String.eqb_eq in E. subst. exfalso. apply H2. change k' with (fst (k', v)). now apply in_map.
    + now apply IH.
Qed.

Lemma lookup_map {A B} (f : A -> B) k (l : list (string * A)) :
  lookup k (map (fun kv => (fst kv, f (snd kv))) l) = option_map f (lookup k l).
Proof.
  induction l as [|[k' v'] l IH]; simpl; [reflexivity|].
  destruct (String.eqb k k'); [reflexivity | apply IH].
Qed.

Lemma lookup_None {A} k (l : list (string * A)) : ~ In k (map fst l) -> lookup k l = None.
Proof.
  induction l as [|[k' v'] l IH]; simpl; intros H; [reflexivity|].
  destruct (String.eqb k k') eqn:E.
  - apply String.eqb_eq in E. subst. exfalso. apply H. now left.
  - apply IH. intros C. apply H. now right.
Qed.

Lemma lookup_app {A} k (l1 l2 : list (string * A)) :
  lookup k (l1 ++ l2) = match lookup k l1 with Some v => Some v | None => lookup k l2 end.
Proof.
  induction l1 as [|[k' v'] l1 IH]; simpl; [reflexivity|].
  destruct (String.eqb k k'); [reflexivity | apply IH].
Qed.

Lemma shape_eqb_eq a b : shape_eqb a b = true <-> a = b.
Proof.
  unfold shape_eqb. split.
  - revert b. induction a as [|x a IH]; destruct b as [|y b]; simpl; try discriminate; [reflexivity|].
    rewrite andb_true_iff. intros [H1 H2]. apply Nat.eqb_eq in H1.
    apply andb_true_iff in H2 as [H2 H3]. apply Nat.eqb_eq in H2. subst. f_equal.
    apply IH. now rewrite H1, Nat.eqb_refl.
  - intros ->. rewrite Nat.eqb_refl. simpl. induction b as [|y b IH]; simpl; [reflexivity|].
    now rewrite Nat.eqb_refl.
Qed.

Lemma shapes_eqb_refl sh : NoDup (map fst sh) -> shapes_eqb sh sh = true.
Proof.
  intros ND. unfold shapes_eqb. rewrite Nat.eqb_refl. simpl.
  apply forallb_forall. intros [k s] H. simpl.
  rewrite (In_lookup k sh s ND H). now apply shape_eqb_eq.
Qed.

Lemma shapes_eqb_lookup sh sh' p s :
  shapes_eqb sh sh' = true -> In (p, s) sh -> lookup p sh' = Some s.
Proof.
  unfold shapes_eqb. rewrite andb_true_iff. intros [_ H] Hin.
  rewrite forallb_forall in H. specialize (H _ Hin). simpl in H.
  destruct (lookup p sh') as [s'|]; [|discriminate].
  apply shape_eqb_eq in H. now subst.
Qed.

(* ------------------------------------------------------------------------------------------ add: rejections *)

Lemma add_rejects_nonstr c a : add c IdNotStr a = Rejected InputError.
Proof. reflexivity. Qed.

Lemma add_rejects_dup c s a : In s (indices c) -> add c (IdStr s) a = Rejected InputError.
Proof. intros H. unfold add. apply mem_str_In in H. now rewrite H. Qed.

Lemma add_rejects_notdict c i : add c i ArgNotDict = Rejected InputError.
Proof. unfold add. destruct i; [|reflexivity]. now destruct (mem_str s (indices c)). Qed.

Lemma add_rejects_type c i d :
  Exists (fun kv => head_unsupported (snd kv)) d -> add c i (ArgDict d) = Rejected InputError.
Proof.
  intros H. unfold add. destruct i; [|reflexivity]. destruct (mem_str s (indices c)); [reflexivity|].
  assert (E : forallb (fun kv : string * pyval => type_ok (snd kv)) (map (fun kv => (fst kv, tolist (snd kv))) d) = false).
  { apply Exists_exists in H as [kv [Hin Hu]]. apply not_true_is_false. intros C.
    rewrite forallb_forall in C. specialize (C (fst kv, tolist (snd kv))).
    unfold head_unsupported in Hu. simpl in C. rewrite Hu in C. discriminate C.
    apply in_map_iff. now exists kv. }
  now rewrite E.
Qed.

Lemma add_rejects_shape c i d sh :
  shapes c = Some sh -> shapes_eqb sh (pshapes d) = false -> add c i (ArgDict d) = Rejected InputError.
Proof.
  intros Hs Hne. unfold add. destruct i; [|reflexivity]. destruct (mem_str s (indices c)); [reflexivity|].
  destruct (negb (forallb _ _)); [reflexivity|].
  rewrite Hs. unfold pshapes in Hne. rewrite map_map. simpl. now rewrite Hne.
Qed.

Theorem add_rejects c id arg :
  id = IdNotStr
  \/ (exists s, id = IdStr s /\ In s (indices c))
  \/ arg = ArgNotDict
  \/ (exists d, arg = ArgDict d /\
        (Exists (fun kv => head_unsupported (snd kv)) d
         \/ exists sh, shapes c = Some sh /\ shapes_eqb sh (pshapes d) = false)) ->
  add c id arg = Rejected InputError /\ after_add c id arg = c.
Proof.
  intros H. assert (E : add c id arg = Rejected InputError).
  { destruct H as [->|[[s [-> H]]|[->|[d [-> [H|[sh [H1 H2]]]]]]]].
    - apply add_rejects_nonstr.
    - now apply add_rejects_dup.
    - apply add_rejects_notdict.
    - now apply add_rejects_type.
    - now apply (add_rejects_shape c id d sh). }
  split; [assumption|]. unfold after_add. now rewrite E.
Qed.

(** what [head_unsupported] means, case by case *)
Lemma head_unsupported_cases :
  head_unsupported (VAtom ABool) /\ head_unsupported (VAtom AStr) /\ head_unsupported (VAtom ANone) /\
  head_unsupported (VAtom AOther) /\ head_unsupported (VList []) /\ head_unsupported (VArr1 false []) /\
  (forall n, head_unsupported (VArrNd n)) /\ (forall q, head_unsupported (VAtom (ANum KNpOther q))) /\
  (forall a l, atom_valid a = false -> head_unsupported (VList (a :: l))).
Proof.
  unfold head_unsupported. repeat split; try reflexivity.
  - intros [|n]; reflexivity.
  - intros a l H. simpl. exact H.
Qed.

(* ------------------------------------------------------------------------------------------ add: acceptance *)

Lemma fully_supported_type_ok v : fully_supported v = true -> type_ok (tolist v) = true.
Proof.
  unfold fully_supported. destruct (tolist v) as [a|l| | |]; try discriminate; simpl; [trivial|].
  destruct l as [|a l]; simpl; [discriminate|]. rewrite andb_true_iff. tauto.
Qed.

Lemma atoms_nums_valid l : forallb atom_valid l = true -> exists ns, atoms_nums l = Some ns /\ List.length ns = List.length l.
Proof.
  induction l as [|a l IH]; simpl.
  - exists []. now split.
  - rewrite andb_true_iff. intros [Ha Hl]. destruct (IH Hl) as [ns [E L]].
    destruct a; try discriminate. simpl. rewrite E. exists ((k, q) :: ns). simpl. now rewrite L.
Qed.

Lemma fully_supported_store v :
  fully_supported v = true -> exists x, store (tolist v) = Some x /\ shape_of x = pshape (tolist v) /\ x <> Vec [].
Proof.
  unfold fully_supported. destruct (tolist v) as [a|l| | |]; try discriminate; simpl.
  - destruct a; try discriminate. intros _. exists (Scalar (k, q)). repeat split. discriminate.
  - rewrite andb_true_iff. intros [Hn Hl]. destruct (atoms_nums_valid l Hl) as [ns [E L]].
    rewrite E. exists (Vec ns). simpl. rewrite L. repeat split.
    intros C. inversion C. subst. simpl in L. rewrite <- L in Hn. discriminate.
Qed.

Lemma store_all_supported d :
  Forall (fun kv => fully_supported (snd kv) = true) d ->
  exists e, store_all (map (fun kv => (fst kv, tolist (snd kv))) d) = Some e
            /\ entry_shapes e = pshapes d /\ map fst e = map fst d /\ Forall (fun pv => snd pv <> Vec []) e.
Proof.
  induction 1 as [|[k v] d Hv _ IH]; simpl.
  - exists []. repeat split. constructor.
  - destruct IH as [e [E [S [K F]]]]. simpl in Hv. destruct (fully_supported_store v Hv) as [x [Ex [Sx Nx]]].
    rewrite Ex, E. exists ((k, x) :: e). simpl. unfold entry_shapes, pshapes in *. simpl. rewrite Sx, S, K.
    repeat split. constructor; assumption.
Qed.

Theorem add_accepts c s d :
  ~ In s (indices c) ->
  Forall (fun kv => fully_supported (snd kv) = true) d ->
  (forall sh, shapes c = Some sh -> shapes_eqb sh (pshapes d) = true) ->
  exists e, store_all (map (fun kv => (fst kv, tolist (snd kv))) d) = Some e
    /\ entry_shapes e = pshapes d /\ map fst e = map fst d
    /\ add c (IdStr s) (ArgDict d) =
       Added (mkC (indices c ++ [s]) (params c ++ [(s, e)])
                  (Some (match shapes c with None => pshapes d | Some sh => sh end))).
Proof.
  intros Hs Hd Hsh. destruct (store_all_supported d Hd) as [e [E [S [K F]]]].
  exists e. repeat split; try assumption.
  unfold add. apply mem_str_false in Hs. rewrite Hs.
  assert (T : forallb (fun kv : string * pyval => type_ok (snd kv)) (map (fun kv => (fst kv, tolist (snd kv))) d) = true).
  { apply forallb_forall. intros kv Hin. apply in_map_iff in Hin as [kv0 [<- Hin]]. simpl.
    apply fully_supported_type_ok. rewrite Forall_forall in Hd. now apply Hd. }
  rewrite T. simpl. rewrite map_map. simpl. fold (pshapes d).
  destruct (shapes c) as [sh|] eqn:Es.
  - rewrite (Hsh sh eq_refl). simpl. now rewrite E.
  - simpl. now rewrite E.
Qed.

(* ------------------------------------------------------------------------------------------ invariant *)

Lemma atoms_nums_length l ns : atoms_nums l = Some ns -> List.length ns = List.length l.
Proof.
  revert ns. induction l as [|a l IH]; simpl; intros ns H.
  - inversion H. reflexivity.
  - destruct (atom_num a); [|discriminate]. destruct (atoms_nums l) as [xs|]; [|discriminate].
    inversion H. simpl. now rewrite (IH xs eq_refl).
Qed.

Lemma store_shape v x : store v = Some x -> shape_of x = pshape v /\ (type_ok v = true -> x <> Vec []).
Proof.
  destruct v as [a|l| | |]; simpl; try discriminate.
  - destruct (atom_num a); simpl; [|discriminate]. intros H. inversion H. split; [reflexivity | discriminate].
  - destruct (atoms_nums l) as [ns|] eqn:E; simpl; [|discriminate]. intros H. inversion H. simpl.
    rewrite (atoms_nums_length l ns E). split; [reflexivity|].
    intros T C. inversion C. subst. destruct l; [discriminate T|]. simpl in E.
    destruct (atom_num a); [|discriminate]. destruct (atoms_nums l); discriminate.
Qed.

Lemma store_all_spec d e :
  store_all d = Some e ->
  map fst e = map fst d /\ entry_shapes e = map (fun kv => (fst kv, pshape (snd kv))) d
  /\ (forallb (fun kv => type_ok (snd kv)) d = true -> Forall (fun pv => snd pv <> Vec []) e).
Proof.
  revert e. induction d as [|[k v] d IH]; simpl; intros e H.
  - inversion H. repeat split. constructor.
  - destruct (store v) as [x|] eqn:Ex; [|discriminate]. destruct (store_all d) as [xs|]; [|discriminate].
    inversion H. subst. destruct (IH xs eq_refl) as [K [S F]]. destruct (store_shape v x Ex) as [Sx Nx].
    unfold entry_shapes in *. simpl. rewrite K, S, Sx. repeat split.
    rewrite andb_true_iff. intros [T1 T2]. constructor; [now apply Nx | now apply F].
Qed.

Lemma wf_empty : wf empty.
Proof. unfold wf, empty. simpl. repeat split. constructor. Qed.

Lemma NoDup_snoc {A} (l : list A) a : NoDup l -> ~ In a l -> NoDup (l ++ [a]).
Proof.
  intros ND H. induction l as [|b l IH]; simpl.
  - constructor; [intros [] | constructor].
  - inversion ND; subst. constructor.
    + rewrite in_app_iff. intros [C|[C|[]]]; [contradiction|]. subst. apply H. now left.
    + apply IH; [assumption|]. intros C. apply H. now right.
Qed.

Theorem wf_add c id arg c' :
  wf c -> (forall d, arg = ArgDict d -> NoDup (map fst d)) -> add c id arg = Added c' -> wf c'.
Proof.
  intros [W1 [W2 W3]] Hd H. unfold add in H.
  destruct id as [s|]; [|discriminate].
  destruct (mem_str s (indices c)) eqn:M; [discriminate|]. apply mem_str_false in M.
  destruct arg as [d|]; [|discriminate]. specialize (Hd d eq_refl).
  destruct (forallb _ _) eqn:T; simpl in H; [|discriminate].
  rewrite map_map in H. simpl in H. fold (pshapes d) in H.
  destruct (store_all _) as [e|] eqn:E.
  2:{ destruct (negb _); discriminate. }
  destruct (store_all_spec _ e E) as [K [S F]]. rewrite map_map in K, S. simpl in K, S. fold (pshapes d) in S.
  specialize (F T).
  assert (Ke : NoDup (map fst e)) by now rewrite K.
  destruct (shapes c) as [sh|] eqn:Es.
  - destruct (shapes_eqb sh (pshapes d)) eqn:Q; simpl in H; [|discriminate]. inversion H. subst c'. clear H.
    destruct W3 as [W3 [W4 W5]]. unfold wf. simpl. repeat split.
    + rewrite map_app, W1. reflexivity.
    + now apply NoDup_snoc.
    + intros C. apply app_eq_nil in C as [_ C]. discriminate.
    + assumption.
    + apply Forall_app. split; [assumption|]. constructor; [|constructor]. simpl.
      unfold entry_wf. rewrite S. repeat split; assumption.
  - simpl in H. inversion H. subst c'. clear H. unfold wf. simpl. rewrite W3. simpl. repeat split.
    + rewrite W1, W3. reflexivity.
    + rewrite W1, W3. simpl. constructor; [intros [] | constructor].
    + discriminate.
    + unfold pshapes. rewrite map_map. simpl. assumption.
    + constructor; [|constructor]. simpl. unfold entry_wf. rewrite S. repeat split; try assumption.
      apply shapes_eqb_refl. unfold pshapes. rewrite map_map. simpl. assumption.
Qed.

(** what the invariant gives to the conversions *)
Lemma wf_lookup_entry c idx : wf c -> In idx (indices c) -> exists e, lookup idx (params c) = Some e /\ In (idx, e) (params c).
Proof.
  intros [W1 [W2 _]] H. rewrite W1 in H. apply in_map_iff in H as [[i e] [<- H]].
  exists e. split; [|assumption]. apply In_lookup; [now rewrite <- W1 | assumption].
Qed.

Lemma entry_wf_lookup sh e p s :
  entry_wf sh e -> In (p, s) sh -> exists v, lookup p e = Some v /\ shape_of v = s /\ v <> Vec [].
Proof.
  intros [E1 [E2 E3]] H. pose proof (shapes_eqb_lookup sh _ p s E2 H) as L.
  unfold entry_shapes in L. rewrite (lookup_map shape_of) in L.
  destruct (lookup p e) as [v|] eqn:Lv; [|discriminate]. simpl in L. inversion L.
  exists v. repeat split. apply lookup_In in Lv. rewrite Forall_forall in E3. exact (E3 _ Lv).
Qed.

(** normalising the order of the names loses nothing: the names of every entry are those of the shape dict *)
Lemma entry_wf_names sh e : NoDup (map fst sh) -> entry_wf sh e -> Permutation (map fst sh) (map fst e).
Proof.
  intros ND [E1 [E2 E3]]. apply NoDup_Permutation_bis; [assumption| |].
  - unfold shapes_eqb in E2. apply andb_true_iff in E2 as [L _]. apply Nat.eqb_eq in L.
    unfold entry_shapes in L. rewrite !map_length in *. lia.
  - intros p Hp. apply in_map_iff in Hp as [[p' s] [<- Hp]]. simpl.
    destruct (entry_wf_lookup sh e p' s (conj E1 (conj E2 E3)) Hp) as [v [Lv _]].
    apply lookup_In in Lv. change p' with (fst (p', v)). now apply in_map.
Qed.

(* ------------------------------------------------------------------------------------------ json *)

Lemma value_map_kind_native v :
  forallb native_kind (value_kinds v) = true -> value_map_kind kind_after_json v = v.
Proof.
  destruct v as [[k q]|l]; simpl.
  - rewrite andb_true_iff. intros [H _]. destruct k; try discriminate; reflexivity.
  - intros H. f_equal. induction l as [|[k q] l IH]; simpl in *; [reflexivity|].
    apply andb_true_iff in H as [H1 H2]. rewrite IH by assumption.
    destruct k; try discriminate; reflexivity.
Qed.

Lemma params_map_native p :
  forallb (fun ie : string * entry => forallb (fun pv => forallb native_kind (value_kinds (snd pv))) (snd ie)) p = true ->
  params_map (value_map_kind kind_after_json) p = p.
Proof.
  induction p as [|[i e] p IH]; simpl; [reflexivity|]. rewrite andb_true_iff. intros [H1 H2].
  unfold params_map in *. simpl. rewrite IH by assumption. f_equal. f_equal.
  induction e as [|[n v] e IHe]; simpl in *; [reflexivity|].
  apply andb_true_iff in H1 as [Hv He]. unfold entry_map in *. simpl. rewrite IHe by assumption.
  now rewrite value_map_kind_native.
Qed.

Theorem json_roundtrip c sh :
  shapes c = Some sh -> json_serialisable c = true ->
  exists j, to_json c = Ok j
    /\ from_json j = mkC (indices c) (params_map (value_map_kind kind_after_json) (params c)) (Some sh)
    /\ (native c = true -> from_json j = c).
Proof.
  intros Hs Hj. unfold to_json. rewrite Hs, Hj. eexists. split; [reflexivity|]. split; [reflexivity|].
  intros Hn. unfold from_json. simpl. rewrite (params_map_native _ Hn). destruct c. simpl in *. now rewrite Hs.
Qed.

(** [value_map_kind] changes the python type only: the rational values, names, shapes, order are untouched *)
Lemma value_map_kind_cells f v : value_cells (value_map_kind f v) = value_cells v /\ shape_of (value_map_kind f v) = shape_of v.
Proof.
  destruct v as [[k q]|l]; simpl; [split; reflexivity|]. rewrite map_map, map_length. simpl. split; reflexivity.
Qed.

(* ------------------------------------------------------------------------------------------ paths *)

Theorem save_load_extension c p :
  shapes c <> None ->
  (get_extension p = None -> save_target c p = Ok (p ++ ".csv", Csv) /\ load_format p = Err InputError)
  /\ (get_extension p = Some "csv" -> save_target c p = Ok (p, Csv) /\ save_load c p p = csv_roundtrip c)
  /\ (get_extension p = Some "json" -> save_target c p = Ok (p, Json) /\ save_load c p p = (do j <- to_json c; Ok (from_json j)))
  /\ (forall e, get_extension p = Some e -> e <> "csv" -> e <> "json" ->
        save_target c p = Err InputError /\ load_format p = Err InputError).
Proof.
  intros Hs. unfold save_load, save_target, load_format. destruct (shapes c) as [sh|]; [|contradiction]. repeat split.
  - now rewrite H.
  - now rewrite H.
  - now rewrite H.
  - rewrite H. simpl. now rewrite String.eqb_refl.
  - now rewrite H.
  - rewrite H. simpl. now rewrite String.eqb_refl.
  - rewrite H. apply String.eqb_neq in H0, H1. now rewrite H0, H1.
  - rewrite H. apply String.eqb_neq in H0, H1. now rewrite H0, H1.
Qed.

(* ------------------------------------------------------------------------------------------ adding vector-form entries *)

Definition vec_dict (ce : list (string * list Q)) : list (string * pyval) :=
  map (fun x => (fst x, VList (map (fun q => ANum KFloat q) (snd x)))) ce.
Definition vec_entry (ce : list (string * list Q)) : entry :=
  map (fun x => (fst x, Vec (map (fun q => (KFloat, q)) (snd x)))) ce.
Definition vec_shapes (ce : list (string * list Q)) : shapes_t :=
  map (fun x => (fst x, [List.length (snd x)])) ce.

Lemma atoms_nums_floats l : atoms_nums (map (fun q => ANum KFloat q) l) = Some (map (fun q => (KFloat, q)) l).
Proof. induction l as [|q l IH]; simpl; [reflexivity|]. now rewrite IH. Qed.

Lemma vec_dict_facts ce :
  Forall (fun x => snd x <> []) ce ->
  forallb (fun kv : string * pyval => type_ok (snd kv)) (vec_dict ce) = true
  /\ map (fun kv : string * pyval => (fst kv, pshape (snd kv))) (vec_dict ce) = vec_shapes ce
  /\ store_all (vec_dict ce) = Some (vec_entry ce).
Proof.
  induction 1 as [|[p l] ce Hl _ [IH1 [IH2 IH3]]]; simpl; [repeat split|].
  simpl in Hl. rewrite IH1. unfold vec_shapes, vec_entry in *. simpl. rewrite IH2, IH3, atoms_nums_floats, map_length. simpl.
  destruct l as [|q l]; [contradiction|]. simpl. repeat split.
Qed.

Lemma add_vec c s d ce :
  map (fun kv => (fst kv, tolist (snd kv))) d = vec_dict ce ->
  ~ In s (indices c) -> Forall (fun x => snd x <> []) ce ->
  match shapes c with None => True | Some sh => shapes_eqb sh (vec_shapes ce) = true end ->
  add c (IdStr s) (ArgDict d) =
  Added (mkC (indices c ++ [s]) (params c ++ [(s, vec_entry ce)])
             (Some (match shapes c with None => vec_shapes ce | Some sh => sh end))).
Proof.
  intros Hd Hs Hce Hsh. unfold add. apply mem_str_false in Hs. rewrite Hs, Hd.
  destruct (vec_dict_facts ce Hce) as [T [P S]]. rewrite T, P, S. simpl.
  destruct (shapes c) as [sh|]; [rewrite Hsh|]; reflexivity.
Qed.

Section FoldAdd.
  Context {A : Type} (pid : A -> pyid) (idf : A -> string) (df : A -> res (list (string * pyval)))
          (cef : A -> list (string * list Q)) (shv : shapes_t).

  Definition fold_step (acc : res container) (a : A) : res container :=
    do c <- acc; do d <- df a;
    match add c (pid a) (ArgDict d) with
    | Added c' => Ok c'
    | Rejected e => Err e
    | AcceptedOutsideModel => Err Unmodelled
    end.

  Lemma fold_add_vec items :
    (forall a, In a items -> pid a = IdStr (idf a) /\ exists d, df a = Ok d
        /\ map (fun kv => (fst kv, tolist (snd kv))) d = vec_dict (cef a)
        /\ Forall (fun x => snd x <> []) (cef a) /\ vec_shapes (cef a) = shv) ->
    NoDup (map fst shv) ->
    forall c, NoDup (indices c ++ map idf items) -> (shapes c = None \/ shapes c = Some shv) ->
    fold_left fold_step items (Ok c)
    = Ok (mkC (indices c ++ map idf items) (params c ++ map (fun a => (idf a, vec_entry (cef a))) items)
              (match items with [] => shapes c | _ => Some shv end)).
  Proof.
    intros H ND. induction items as [|a items IH]; intros c NDc Hc; simpl.
    - rewrite !app_nil_r. now destruct c.
    - destruct (H a (or_introl eq_refl)) as [Hp [d [Hd [Hv [Hne Hs]]]]].
      rewrite Hd. simpl. rewrite Hp.
      assert (Hnot : ~ In (idf a) (indices c)).
      { intros C. apply NoDup_remove_2 in NDc. apply NDc. apply in_or_app. now left. }
      rewrite (add_vec c (idf a) d (cef a) Hv Hnot Hne).
      2:{ destruct Hc as [-> | ->]; [exact I|]. rewrite Hs. now apply shapes_eqb_refl. }
      assert (Es : Some (match shapes c with None => vec_shapes (cef a) | Some sh => sh end) = Some shv).
      { destruct Hc as [-> | ->]; [now rewrite Hs | reflexivity]. }
      rewrite Es. rewrite IH.
      + simpl. rewrite <- !app_assoc. simpl. destruct items; reflexivity.
      + intros b Hb. apply H. now right.
      + simpl. rewrite <- app_assoc. exact NDc.
      + now right.
  Qed.
End FoldAdd.

(* ------------------------------------------------------------------------------------------ tensors *)

Lemma size_of_shape_of v : v <> Vec [] -> size_of_shape (shape_of v) = List.length (value_cells v).
Proof.
  destruct v as [x|l]; simpl; [reflexivity|]. intros _. unfold size_of_shape. simpl. rewrite map_length. apply Nat.add_0_r.
Qed.

Lemma In_combine_seq {A} (l : list A) k i x :
  In (i, x) (combine (seq k (List.length l)) l) -> nth_error l (i - k) = Some x /\ (k <= i)%nat.
Proof.
  revert k. induction l as [|a l IH]; simpl; intros k H; [contradiction|].
  destruct H as [H|H].
  - inversion H; subst. rewrite Nat.sub_diag. split; [reflexivity | lia].
  - destruct (IH (S k) H) as [H1 H2]. split; [|lia].
    replace (i - k)%nat with (S (i - S k)) by lia. exact H1.
Qed.

Definition entry_of (c : container) (idx : string) : entry :=
  match lookup idx (params c) with Some e => e | None => [] end.

(** the tensors [to_pytorch] builds: per parameter (in the order of the shape dict), per ID (in order), the rounded cells *)
Definition torch_dict (rnd : Q -> Q) (c : container) (sh : shapes_t) : list (string * list (list Q)) :=
  map (fun ps => (fst ps, map (fun idx => map rnd (cells_of (entry_of c idx) (fst ps))) (indices c))) sh.

Lemma to_pytorch_ok rnd c sh :
  wf c -> shapes c = Some sh -> to_pytorch rnd c = Ok (indices c, torch_dict rnd c sh).
Proof.
  intros W Hs. unfold to_pytorch. rewrite Hs.
  rewrite (mapM_ok _ (fun ps => (fst ps, map (fun idx => map rnd (cells_of (entry_of c idx) (fst ps))) (indices c)))).
  - reflexivity.
  - intros [p s] Hps. simpl.
    rewrite (mapM_ok _ (fun idx => map rnd (cells_of (entry_of c idx) p))); [reflexivity|].
    intros idx Hidx. destruct (wf_lookup_entry c idx W Hidx) as [e [Le Ie]].
    unfold entry_of. rewrite Le. simpl.
    destruct W as [_ [_ W3]]. rewrite Hs in W3. destruct W3 as [_ [_ W5]].
    rewrite Forall_forall in W5. specialize (W5 _ Ie). simpl in W5.
    destruct (entry_wf_lookup sh e p s W5 Hps) as [v [Lv [Sv Nv]]].
    unfold cells_of. rewrite Lv. simpl. rewrite map_length, <- Sv, (size_of_shape_of v Nv), Nat.eqb_refl. reflexivity.
Qed.

Lemma wf_cells_nonempty c sh idx e p s :
  wf c -> shapes c = Some sh -> In (idx, e) (params c) -> In (p, s) sh ->
  cells_of e p <> [] /\ List.length (cells_of e p) = size_of_shape s.
Proof.
  intros [_ [_ W3]] Hs Ie Hps. rewrite Hs in W3. destruct W3 as [_ [_ W5]].
  rewrite Forall_forall in W5. specialize (W5 _ Ie). simpl in W5.
  destruct (entry_wf_lookup sh e p s W5 Hps) as [v [Lv [Sv Nv]]].
  unfold cells_of. rewrite Lv. rewrite <- Sv, (size_of_shape_of v Nv). split; [|reflexivity].
  destruct v as [x|l]; simpl; [discriminate|]. destruct l; [contradiction | discriminate].
Qed.

Theorem torch_roundtrip rnd c sh :
  wf c -> shapes c = Some sh ->
  to_pytorch rnd c = Ok (indices c, torch_dict rnd c sh)
  /\ map fst (torch_dict rnd c sh) = map fst sh
  /\ Forall (fun kt => List.length (snd kt) = List.length (indices c)) (torch_dict rnd c sh)
  /\ from_pytorch (map IdStr (indices c)) (map (fun kt => (fst kt, T2 (snd kt))) (torch_dict rnd c sh))
     = Ok (vec_container rnd c sh).
Proof.
  intros W Hs. split; [now apply to_pytorch_ok|]. split; [|split].
  - unfold torch_dict. rewrite map_map. reflexivity.
  - unfold torch_dict. apply Forall_forall. intros kt H. apply in_map_iff in H as [ps [<- _]]. simpl. now rewrite map_length.
  - unfold from_pytorch.
    assert (L : forallb (fun kt : string * tensor => Nat.eqb (tensor_len (snd kt)) (List.length (map IdStr (indices c))))
                  (map (fun kt => (fst kt, T2 (snd kt))) (torch_dict rnd c sh)) = true).
    { apply forallb_forall. intros kt H. apply in_map_iff in H as [kt0 [<- H]]. simpl.
      unfold torch_dict in H. apply in_map_iff in H as [ps [<- _]]. simpl. rewrite !map_length. apply Nat.eqb_refl. }
    rewrite L. simpl.
    pose (cef := fun (ii : nat * pyid) =>
      match snd ii with
      | IdStr idx => map (fun ps => (fst ps, map rnd (cells_of (entry_of c idx) (fst ps)))) sh
      | IdNotStr => [] end).
    pose (idf := fun (ii : nat * pyid) => match snd ii with IdStr idx => idx | IdNotStr => "" end).
    pose (shv := map (fun ps : string * shape => (fst ps, [size_of_shape (snd ps)])) sh).
    pose proof (fold_add_vec snd idf
        (fun ii => mapM (fun kt : string * tensor => do v <- tensor_row (snd kt) (fst ii); Ok (fst kt, v))
                        (map (fun kt => (fst kt, T2 (snd kt))) (torch_dict rnd c sh)))
        cef shv (combine (seq 0 (List.length (map IdStr (indices c)))) (map IdStr (indices c)))) as F.
    unfold fold_step in F. rewrite F with (c := empty); clear F.
    + simpl. unfold vec_container. f_equal.
      assert (E1 : forall l, map idf (combine (seq 0 (List.length (map IdStr l))) (map IdStr l)) = l).
      { intros l. generalize 0%nat. induction l as [|a l IH]; intros k; simpl; [reflexivity|]. now rewrite IH. }
      destruct W as [W1 [W2 W3]]. rewrite Hs in W3. destruct W3 as [W3 [W4 W5]].
      f_equal.
      * apply E1.
      * rewrite W1.
        assert (E2 : forall (pl : list (string * entry)) k,
                  (forall ie, In ie pl -> lookup (fst ie) (params c) = Some (snd ie)) ->
                  map (fun a => (idf a, vec_entry (cef a))) (combine (seq k (List.length (map IdStr (map fst pl)))) (map IdStr (map fst pl)))
                  = map (fun ie => (fst ie, vec_form rnd sh (snd ie))) pl).
        { induction pl as [|[i e] pl IH]; intros k Hl; simpl; [reflexivity|].
          rewrite IH by (intros ie Hie; apply Hl; now right). f_equal. f_equal.
          unfold cef, idf, vec_entry, vec_form, entry_of. simpl.
          pose proof (Hl (i, e) (or_introl eq_refl)) as Hle. simpl in Hle. rewrite Hle. rewrite map_map. simpl.
          apply map_ext. intros ps. now rewrite map_map. }
        apply E2. intros [i e] Hie. simpl. apply In_lookup; [now rewrite <- W1 | assumption].
      * rewrite W1. destruct (params c) as [|pe pl]; [now contradiction W3|]. reflexivity.
    + intros [i pid] Hin. rewrite map_length in Hin.
      assert (Hin' := Hin). rewrite <- (map_length IdStr) in Hin'. apply In_combine_seq in Hin' as [Hn _].
      rewrite Nat.sub_0_r in Hn. apply nth_error_In in Hn as Hpid. apply in_map_iff in Hpid as [idx [<- Hidx]].
      simpl. split; [reflexivity|].
      exists (vec_dict (cef (i, IdStr idx))). unfold cef. simpl. split; [|split; [|split]].
      * unfold vec_dict. rewrite mapM_map.
        rewrite (mapM_ok _ (fun kt : string * list (list Q) =>
                   (fst kt, VList (map (fun q => ANum KFloat q) (map rnd (cells_of (entry_of c idx) (fst kt))))))).
        -- unfold torch_dict. rewrite !map_map. reflexivity.
        -- intros kt Hkt. unfold torch_dict in Hkt. apply in_map_iff in Hkt as [ps [<- Hps]]. simpl.
           assert (N : nth_error (indices c) i = Some idx).
           { rewrite nth_error_map in Hn. destruct (nth_error (indices c) i); simpl in Hn; [|discriminate]. now inversion Hn. }
           rewrite (map_nth_error (fun idx0 => map rnd (cells_of (entry_of c idx0) (fst ps))) i (indices c) N). reflexivity.
      * unfold vec_dict. rewrite map_map. simpl. reflexivity.
      * apply Forall_forall. intros x Hx. apply in_map_iff in Hx as [[p s] [<- Hps]]. simpl.
        destruct (wf_lookup_entry c idx W Hidx) as [e [Le Ie]]. unfold entry_of. rewrite Le.
        destruct (wf_cells_nonempty c sh idx e p s W Hs Ie Hps) as [N _]. intros C. apply map_eq_nil in C. contradiction.
      * unfold vec_shapes, shv. rewrite map_map. simpl. apply map_ext_in. intros [p s] Hps. simpl.
        destruct (wf_lookup_entry c idx W Hidx) as [e [Le Ie]]. unfold entry_of. rewrite Le.
        destruct (wf_cells_nonempty c sh idx e p s W Hs Ie Hps) as [_ N]. now rewrite map_length, N.
    + unfold shv. rewrite map_map. simpl. destruct W as [_ [_ W3]]. rewrite Hs in W3. tauto.
    + simpl.
      assert (E1 : forall l k, map idf (combine (seq k (List.length (map IdStr l))) (map IdStr l)) = l).
      { induction l as [|a l IH]; intros k; simpl; [reflexivity|]. now rewrite IH. }
      rewrite E1. now destruct W as [_ [W2 _]].
    + now left.
Qed.

(* ------------------------------------------------------------------------------------------ strings *)

Lemma has_char_app c a b : has_char c (a ++ b) = has_char c a || has_char c b.
Proof. induction a as [|d a IH]; simpl; [reflexivity|]. now rewrite IH, orb_assoc. Qed.

Lemma before_underscore_no s : has_char "_" s = false -> before_underscore s = s.
Proof.
  induction s as [|c s IH]; simpl; [reflexivity|]. intros H. apply orb_false_iff in H as [H1 H2].
  rewrite H1. now rewrite IH.
Qed.

Lemma before_underscore_app p x : has_char "_" p = false -> before_underscore (p ++ "_" ++ x) = p.
Proof.
  change ("_" ++ x) with (String "_" x). induction p as [|c p IH]; simpl; [reflexivity|]. intros H. apply orb_false_iff in H as [H1 H2].
  rewrite H1. now rewrite IH.
Qed.

Lemma append_inj_l p a b : p ++ a = p ++ b -> a = b.
Proof. induction p as [|c p IH]; simpl; intros H; [assumption|]. inversion H. now apply IH. Qed.

Lemma str_nat_inj a b : str_nat a = str_nat b -> a = b.
Proof.
  unfold str_nat. intros H.
  assert (E : Nat.to_uint a = Nat.to_uint b).
  { apply (f_equal NilEmpty.uint_of_string) in H. rewrite !NilEmpty.usu in H. now inversion H. }
  apply (f_equal Nat.of_uint) in E. now rewrite !DecimalNat.Unsigned.of_to in E.
Qed.

(* ------------------------------------------------------------------------------------------ lists *)

Lemma NoDup_app_intro {A} (a b : list A) :
  NoDup a -> NoDup b -> (forall x, In x a -> ~ In x b) -> NoDup (a ++ b).
Proof.
  induction a as [|x a IH]; simpl; intros Ha Hb H; [assumption|]. inversion Ha; subst. constructor.
  - rewrite in_app_iff. intros [C|C]; [contradiction|]. apply (H x); [now left | assumption].
  - apply IH; try assumption. intros y Hy. apply H. now right.
Qed.

Lemma NoDup_app_elim {A} (a b : list A) :
  NoDup (a ++ b) -> NoDup a /\ NoDup b /\ (forall x, In x a -> ~ In x b).
Proof.
  induction a as [|x a IH]; simpl; intros H.
  - repeat split; [constructor | assumption | intros x []].
  - inversion H; subst. destruct (IH H3) as [Ha [Hb Hd]]. repeat split; try assumption.
    + constructor; [|assumption]. intros C. apply H2. apply in_or_app. now left.
    + intros y [->|Hy]; [|now apply Hd]. intros C. apply H2. apply in_or_app. now right.
Qed.

Lemma combine_app_eq {A B} (a1 a2 : list A) (b1 b2 : list B) :
  List.length a1 = List.length b1 -> combine (a1 ++ a2) (b1 ++ b2) = (combine a1 b1 ++ combine a2 b2)%list.
Proof.
  revert b1. induction a1 as [|x a1 IH]; destruct b1 as [|y b1]; simpl; intros H; try discriminate; [reflexivity|].
  f_equal. apply IH. now inversion H.
Qed.

Lemma map_fst_combine {A B} (a : list A) (b : list B) : List.length a = List.length b -> map fst (combine a b) = a.
Proof.
  revert b. induction a as [|x a IH]; destruct b as [|y b]; simpl; intros H; try discriminate; [reflexivity|].
  f_equal. apply IH. now inversion H.
Qed.

Lemma lookup_app_l {A} k (l1 l2 : list (string * A)) : In k (map fst l1) -> lookup k (l1 ++ l2) = lookup k l1.
Proof.
  intros H. rewrite lookup_app. destruct (lookup k l1) eqn:E; [reflexivity|].
  exfalso. induction l1 as [|[k' v'] l1 IH]; simpl in *; [contradiction|].
  destruct (String.eqb k k') eqn:Ek; [discriminate|]. destruct H as [H|H].
  - subst. now rewrite String.eqb_refl in Ek.
  - now apply IH.
Qed.

Lemma lookup_app_r {A} k (l1 l2 : list (string * A)) : ~ In k (map fst l1) -> lookup k (l1 ++ l2) = lookup k l2.
Proof. intros H. rewrite lookup_app. now rewrite (lookup_None k l1 H). Qed.

Lemma lookup_combine_self (ks : list string) (vs : list Q) :
  NoDup ks -> List.length ks = List.length vs ->
  map (fun c => lookup c (combine ks vs)) ks = map Some vs.
Proof.
  revert vs. induction ks as [|k ks IH]; destruct vs as [|v vs]; simpl; intros ND L; try discriminate; [reflexivity|].
  inversion ND; subst. rewrite String.eqb_refl. f_equal.
  rewrite <- (IH vs H2) by now inversion L. apply map_ext_in. intros c Hc.
  destruct (String.eqb c k) eqn:E; [|reflexivity]. apply String.eqb_eq in E. subst. contradiction.
Qed.

Lemma lookup_blocks {A} (kf : A -> list string) (vf : A -> list Q) (l : list A) a :
  NoDup (List.concat (map kf l)) -> (forall b, In b l -> List.length (kf b) = List.length (vf b)) -> In a l ->
  map (fun c => lookup c (combine (List.concat (map kf l)) (List.concat (map vf l)))) (kf a) = map Some (vf a).
Proof.
  induction l as [|b l IH]; simpl; intros ND L Ha; [contradiction|].
  apply NoDup_app_elim in ND as [N1 [N2 N3]].
  rewrite combine_app_eq by (apply L; now left).
  destruct Ha as [->|Ha].
  - rewrite <- (lookup_combine_self (kf a) (vf a) N1) by (apply L; now left).
    apply map_ext_in. intros c Hc. apply lookup_app_l. rewrite map_fst_combine by (apply L; now left). assumption.
  - rewrite <- IH; try assumption; [|intros b' Hb'; apply L; now right].
    apply map_ext_in. intros c Hc. apply lookup_app_r. rewrite map_fst_combine by (apply L; now left).
    intros C. apply (N3 c C). apply in_concat. exists (kf a). split; [now apply in_map | assumption].
Qed.

Lemma mapM_opt {A B} (f : A -> option B) (l : list A) (v : list B) :
  map f l = map Some v -> mapM (fun c => opt_res (f c) Crash) l = Ok v.
Proof.
  revert v. induction l as [|a l IH]; destruct v as [|b v]; simpl; intros H; try discriminate; [reflexivity|].
  inversion H. rewrite H1. simpl. now rewrite (IH v H2).
Qed.

Lemma assoc_set_absent {A} k (v : A) l : ~ In k (map fst l) -> assoc_set k v l = (l ++ [(k, v)])%list.
Proof.
  induction l as [|[k' v'] l IH]; simpl; intros H; [reflexivity|].
  destruct (String.eqb k k') eqn:E.
  - apply String.eqb_eq in E. subst. exfalso. apply H. now left.
  - f_equal. apply IH. intros C. apply H. now right.
Qed.

Lemma assoc_set_last {A} k (v w : A) l : ~ In k (map fst l) -> assoc_set k v (l ++ [(k, w)]) = (l ++ [(k, v)])%list.
Proof.
  induction l as [|[k' v'] l IH]; simpl; intros H.
  - now rewrite String.eqb_refl.
  - destruct (String.eqb k k') eqn:E.
    + apply String.eqb_eq in E. subst. exfalso. apply H. now left.
    + f_equal. apply IH. intros C. apply H. now right.
Qed.

(* ------------------------------------------------------------------------------------------ columns *)

Definition is_single (ps : string * shape) : bool := shape_eqb (snd ps) [1%nat] && negb (contains "source" (fst ps)).
Definition vcols (p : string) (n : nat) : list string := map (fun i => p ++ "_" ++ str_nat i) (seq 0 n).
Definition colsf (ps : string * shape) : list string :=
  if is_single ps then [fst ps] else vcols (fst ps) (hd 0%nat (snd ps)).
Definition groupf (ps : string * shape) : string * colspec :=
  (fst ps, if is_single ps then Single (fst ps) else Multi (colsf ps)).

Lemma col_names_ok ps : snd ps <> [] -> col_names ps = Ok (colsf ps).
Proof.
  destruct ps as [p s]. unfold col_names, colsf, is_single. simpl. intros H.
  destruct (shape_eqb s [1%nat] && negb (contains "source" p)); [reflexivity|].
  destruct s; [contradiction | reflexivity].
Qed.

Lemma colsf_key ps x : no_underscore (fst ps) -> In x (colsf ps) -> before_underscore x = fst ps.
Proof.
  unfold colsf, vcols. intros H. destruct (is_single ps).
  - intros [<-|[]]. now apply before_underscore_no.
  - intros Hx. apply in_map_iff in Hx as [i [<- _]]. now apply before_underscore_app.
Qed.

Lemma vcol_neq p x : no_underscore p -> p <> p ++ "_" ++ x.
Proof.
  intros H C. apply (f_equal (has_char "_")) in C. rewrite has_char_app in C. unfold no_underscore in H.
  rewrite H in C. simpl in C. discriminate.
Qed.

Lemma colsf_NoDup ps : NoDup (colsf ps).
Proof.
  unfold colsf, vcols. destruct (is_single ps); [constructor; [intros [] | constructor]|].
  apply FinFun.Injective_map_NoDup; [|apply seq_NoDup].
  intros i j H. apply append_inj_l in H. apply append_inj_l in H. now apply str_nat_inj.
Qed.

Lemma names_NoDup (sh : shapes_t) :
  NoDup (map fst sh) -> Forall (fun ps => no_underscore (fst ps)) sh -> NoDup (List.concat (map colsf sh)).
Proof.
  induction sh as [|ps sh IH]; simpl; intros ND F; [constructor|].
  inversion ND; subst. inversion F; subst. apply NoDup_app_intro; [apply colsf_NoDup | now apply IH|].
  intros x Hx C. apply in_concat in C as [blk [Hb Hxb]]. apply in_map_iff in Hb as [ps' [<- Hps']].
  apply H1. rewrite <- (colsf_key ps x H3 Hx).
  rewrite Forall_forall in H4. rewrite (colsf_key ps' x (H4 _ Hps') Hxb). now apply in_map.
Qed.

Lemma group_multi_rest p xs : forall l acc tail,
  ~ In p (map fst acc) -> (forall x, In x xs -> before_underscore x = p /\ x <> p) ->
  group_cols (xs ++ tail) (acc ++ [(p, Multi l)]) = group_cols tail (acc ++ [(p, Multi (l ++ xs))]).
Proof.
  induction xs as [|x xs IH]; intros l acc tail Hp Hx; simpl.
  - now rewrite app_nil_r.
  - destruct (Hx x (or_introl eq_refl)) as [Hb Hn]. rewrite Hb.
    assert (E : String.eqb p x = false) by (apply String.eqb_neq; congruence). rewrite E.
    rewrite lookup_app_r by assumption. simpl. rewrite String.eqb_refl.
    rewrite assoc_set_last by assumption. rewrite IH; try assumption.
    + now rewrite <- app_assoc.
    + intros y Hy. apply Hx. now right.
Qed.

Lemma group_block ps acc tail :
  no_underscore (fst ps) -> ~ In (fst ps) (map fst acc) -> colsf ps <> [] ->
  group_cols (colsf ps ++ tail) acc = group_cols tail (acc ++ [groupf ps]).
Proof.
  intros Hu Hp Hne. unfold groupf. pose proof (colsf_key ps) as K. unfold colsf in *. destruct (is_single ps).
  - simpl. rewrite (before_underscore_no _ Hu), String.eqb_refl. now rewrite assoc_set_absent.
  - destruct (vcols (fst ps) (hd 0%nat (snd ps))) as [|x xs] eqn:E; [contradiction|].
    assert (Hall : forall y, In y (x :: xs) -> before_underscore y = fst ps /\ y <> fst ps).
    { intros y Hy. split; [now apply K|]. rewrite <- E in Hy. unfold vcols in Hy.
      apply in_map_iff in Hy as [i [<- _]]. intros C. symmetry in C. revert C. now apply vcol_neq. }
    simpl. destruct (Hall x (or_introl eq_refl)) as [Hb Hn]. rewrite Hb.
    assert (E' : String.eqb (fst ps) x = false) by (apply String.eqb_neq; congruence). rewrite E'.
    rewrite (lookup_None _ acc Hp).
    rewrite (group_multi_rest (fst ps) xs [x] acc tail Hp); [reflexivity|].
    intros y Hy. apply Hall. now right.
Qed.

Lemma group_cols_ok (sh : shapes_t) : forall acc,
  NoDup (map fst sh) -> Forall (fun ps => no_underscore (fst ps) /\ colsf ps <> []) sh ->
  (forall ps, In ps sh -> ~ In (fst ps) (map fst acc)) ->
  group_cols (List.concat (map colsf sh)) acc = Ok (acc ++ map groupf sh)%list.
Proof.
  induction sh as [|ps sh IH]; intros acc ND F Hacc; simpl.
  - now rewrite app_nil_r.
  - inversion ND; subst. inversion F; subst. destruct H3 as [Hu Hne].
    rewrite group_block; try assumption; [|apply Hacc; now left].
    rewrite IH; try assumption.
    + now rewrite <- app_assoc.
    + intros ps' Hps'. rewrite map_app, in_app_iff. simpl. intros [C|[C|[]]].
      * apply (Hacc ps'); [now right | assumption].
      * apply H1. rewrite C. now apply in_map.
Qed.

(* ------------------------------------------------------------------------------------------ table round trip *)

(** names the table form can carry: no '_', not the label of the index column, vector-valued *)
Definition table_safe (sh : shapes_t) : Prop :=
  Forall (fun ps => no_underscore (fst ps) /\ fst ps <> "ID" /\ snd ps <> []) sh.

Definition row_of (c : container) (sh : shapes_t) (idx : string) : pyid * list Q :=
  (IdStr idx, List.concat (map (fun ps => cells_of (entry_of c idx) (fst ps)) sh)).

(** the table [to_dataframe] builds *)
Definition table_of (c : container) (sh : shapes_t) : table :=
  mkT (List.concat (map colsf sh)) (map (row_of c sh) (indices c)).

Lemma concat_length_eq {A B C} (f : A -> list B) (g : A -> list C) l :
  (forall x, In x l -> List.length (f x) = List.length (g x)) ->
  List.length (List.concat (map f l)) = List.length (List.concat (map g l)).
Proof.
  induction l as [|a l IH]; simpl; intros H; [reflexivity|].
  rewrite !app_length, (H a (or_introl eq_refl)), IH; [reflexivity|]. intros x Hx. apply H. now right.
Qed.

Lemma wf_vec_value c sh idx e p s :
  wf c -> shapes c = Some sh -> In (idx, e) (params c) -> In (p, s) sh -> s <> [] ->
  exists l, lookup p e = Some (Vec l) /\ l <> [] /\ s = [List.length l].
Proof.
  intros [_ [_ W3]] Hs Ie Hps Hne. rewrite Hs in W3. destruct W3 as [_ [_ W5]].
  rewrite Forall_forall in W5. specialize (W5 _ Ie). simpl in W5.
  destruct (entry_wf_lookup sh e p s W5 Hps) as [v [Lv [Sv Nv]]].
  destruct v as [x|l]; simpl in Sv; [now subst|]. exists l. repeat split; [assumption| |now subst].
  intros C. subst. contradiction.
Qed.

Lemma colsf_length c sh idx e p s :
  wf c -> shapes c = Some sh -> In (idx, e) (params c) -> In (p, s) sh -> s <> [] ->
  List.length (colsf (p, s)) = List.length (cells_of e p) /\ colsf (p, s) <> [].
Proof.
  intros W Hs Ie Hps Hne. destruct (wf_vec_value c sh idx e p s W Hs Ie Hps Hne) as [l [Lv [Nl ->]]].
  unfold cells_of. rewrite Lv. simpl. rewrite map_length.
  assert (L : List.length (colsf (p, [List.length l])) = List.length l).
  { unfold colsf, is_single, vcols. simpl. destruct (shape_eqb [List.length l] [1%nat]) eqn:E; simpl.
    - apply shape_eqb_eq in E. inversion E as [E1]. destruct (negb (contains "source" p)); simpl.
      + now rewrite E1.
      + now rewrite map_length, seq_length.
    - now rewrite map_length, seq_length. }
  split; [assumption|]. intros C. pose proof (f_equal (@List.length string) C) as C'. simpl in C'.
  assert (Z : List.length l = 0%nat) by (etransitivity; [symmetry; exact L | exact C']).
  destruct l; [contradiction | discriminate].
Qed.

Lemma to_dataframe_ok c sh :
  wf c -> shapes c = Some sh -> table_safe sh -> to_dataframe c = Ok (table_of c sh).
Proof.
  intros W Hs Hsafe. unfold table_safe in Hsafe. rewrite Forall_forall in Hsafe.
  unfold to_dataframe. rewrite Hs.
  rewrite (mapM_ok _ (row_of c sh)).
  2:{ intros idx Hidx. destruct (wf_lookup_entry c idx W Hidx) as [e [Le Ie]]. rewrite Le. simpl.
      unfold row_cells. rewrite (mapM_ok _ (fun ps => cells_of e (fst ps))).
      - simpl. unfold row_of, entry_of. now rewrite Le.
      - intros [p s] Hps. simpl. destruct (Hsafe _ Hps) as [_ [_ Hne]]. simpl in Hne.
        destruct (wf_vec_value c sh idx e p s W Hs Ie Hps Hne) as [l [Lv [Nl ->]]].
        rewrite Lv. simpl. unfold cells_of. now rewrite Lv. }
  simpl. rewrite (mapM_ok _ colsf).
  2:{ intros ps Hps. apply col_names_ok. now destruct (Hsafe _ Hps) as [_ [_ Hne]]. }
  simpl.
  assert (M : mem_str "ID" (List.concat (map colsf sh)) = false).
  { apply mem_str_false. intros C. apply in_concat in C as [blk [Hb Hx]]. apply in_map_iff in Hb as [ps [<- Hps]].
    destruct (Hsafe _ Hps) as [Hu [Hid _]]. apply Hid. pose proof (colsf_key ps "ID" Hu Hx) as K. simpl in K. now symmetry. }
  rewrite M.
  assert (L : forallb (fun r : pyid * list Q => Nat.eqb (List.length (snd r)) (List.length (List.concat (map colsf sh))))
                (map (row_of c sh) (indices c)) = true).
  { apply forallb_forall. intros r Hr. apply in_map_iff in Hr as [idx [<- Hidx]]. simpl. apply Nat.eqb_eq.
    destruct (wf_lookup_entry c idx W Hidx) as [e [Le Ie]]. unfold entry_of. rewrite Le.
    apply concat_length_eq. intros [p s] Hps. simpl. destruct (Hsafe _ Hps) as [_ [_ Hne]].
    symmetry. now apply (colsf_length c sh idx e p s W Hs Ie Hps Hne). }
  rewrite L. reflexivity.
Qed.

Theorem table_roundtrip c sh :
  wf c -> shapes c = Some sh -> table_safe sh ->
  to_dataframe c = Ok (table_of c sh)
  /\ from_dataframe (table_of c sh) = Ok (vec_container (fun q => q) c sh)
  /\ map (fun ps => (fst ps, [size_of_shape (snd ps)])) sh = sh.
Proof.
  intros W Hs Hsafe. split; [now apply to_dataframe_ok|]. split.
  - assert (Hsafe' := Hsafe). unfold table_safe in Hsafe'. rewrite Forall_forall in Hsafe'.
    unfold from_dataframe, table_of. simpl.
    assert (ND : NoDup (map fst sh)) by (destruct W as [_ [_ W3]]; rewrite Hs in W3; tauto).
    assert (Hu : Forall (fun ps : string * shape => no_underscore (fst ps)) sh).
    { apply Forall_forall. intros ps Hps. now destruct (Hsafe' _ Hps). }
    assert (Hex : exists idx0 e0, In (idx0, e0) (params c)).
    { destruct W as [_ [_ W3]]. rewrite Hs in W3. destruct W3 as [W3 _].
      destruct (params c) as [|[i e] pl]; [contradiction|]. exists i, e. now left. }
    destruct Hex as [idx0 [e0 Ie0]].
    assert (Hne : Forall (fun ps : string * shape => no_underscore (fst ps) /\ colsf ps <> []) sh).
    { apply Forall_forall. intros [p s] Hps. destruct (Hsafe' _ Hps) as [H1 [_ H3]]. split; [assumption|].
      now apply (colsf_length c sh idx0 e0 p s W Hs Ie0 Hps H3). }
    pose proof (names_NoDup sh ND Hu) as NDn. apply nodup_str_NoDup in NDn as NDb. rewrite NDb. simpl.
    rewrite (group_cols_ok sh [] ND Hne) by (intros ps _ []). simpl.
    pose (idf := fun (r : pyid * list Q) => match fst r with IdStr s => s | IdNotStr => "" end).
    pose (cef := fun (r : pyid * list Q) => map (fun ps : string * shape => (fst ps, cells_of (entry_of c (idf r)) (fst ps))) sh).
    pose (shv := map (fun ps : string * shape => (fst ps, [size_of_shape (snd ps)])) sh).
    pose proof (fold_add_vec fst idf
        (fun row : pyid * list Q => mapM (fun g : string * colspec =>
            do v <- row_value (List.concat (map colsf sh)) (snd row) (snd g); Ok (fst g, v)) (map groupf sh))
        cef shv (map (row_of c sh) (indices c))) as F.
    unfold fold_step in F. rewrite F with (c := empty); clear F.
    + simpl. unfold vec_container. rewrite !map_map. simpl.
      destruct W as [W1 [W2 W3]]. rewrite Hs in W3. destruct W3 as [W3 [W4 W5]]. apply f_equal. f_equal.
      * unfold idf, row_of. simpl. apply map_id.
      * rewrite W1, map_map. apply map_ext_in. intros [i e] Hie. simpl. f_equal.
        unfold cef, idf, vec_entry, vec_form, entry_of. simpl.
        rewrite (In_lookup i (params c) e) by (rewrite <- ?W1; assumption). rewrite map_map. reflexivity.
      * rewrite W1. destruct (params c); [contradiction | reflexivity].
    + intros r Hr. apply in_map_iff in Hr as [idx [<- Hidx]]. simpl. split; [reflexivity|].
      destruct (wf_lookup_entry c idx W Hidx) as [e [Le Ie]].
      exists (map (fun ps : string * shape => (fst ps, VArr1 false (cells_of e (fst ps)))) sh).
      unfold cef, idf. simpl. unfold entry_of. rewrite Le. split; [|split; [|split]].
      * rewrite mapM_map. apply mapM_ok. intros [p s] Hps. simpl.
        destruct (Hsafe' _ Hps) as [_ [_ H3]]. simpl in H3.
        pose proof (lookup_blocks colsf (fun ps => cells_of e (fst ps)) sh (p, s) NDn) as LB. simpl in LB.
        specialize (LB (fun b Hb => proj1 (colsf_length c sh idx e (fst b) (snd b) W Hs Ie
                            (eq_ind _ (fun x => In x sh) Hb _ (surjective_pairing b))
                            (proj2 (proj2 (Hsafe' _ Hb))))) Hps).
        unfold row_value. destruct (is_single (p, s)) eqn:Es.
        -- assert (Ec : colsf (p, s) = [p]) by (unfold colsf; now rewrite Es). rewrite Ec in LB. simpl in LB.
           destruct (cells_of e p) as [|x [|y l]]; simpl in LB; try discriminate.
           inversion LB as [LB1]. rewrite LB1. reflexivity.
        -- rewrite (mapM_opt _ _ _ LB). reflexivity.
      * unfold vec_dict. rewrite !map_map. reflexivity.
      * apply Forall_forall. intros x Hx. apply in_map_iff in Hx as [[p s] [<- Hps]]. simpl.
        now destruct (wf_cells_nonempty c sh idx e p s W Hs Ie Hps).
      * unfold vec_shapes, shv. rewrite map_map. simpl. apply map_ext_in. intros [p s] Hps. simpl.
        destruct (wf_cells_nonempty c sh idx e p s W Hs Ie Hps) as [_ N]. now rewrite N.
    + unfold shv. rewrite map_map. simpl. assumption.
    + simpl. rewrite map_map. simpl. rewrite map_id. now destruct W as [_ [W2 _]].
    + now left.
  - rewrite <- (map_id sh) at 2. apply map_ext_in. intros [p s] Hps. simpl.
    unfold table_safe in Hsafe. rewrite Forall_forall in Hsafe. destruct (Hsafe _ Hps) as [_ [_ H3]]. simpl in H3.
    assert (Hex : exists i e, In (i, e) (params c)).
    { destruct W as [_ [_ W3]]. rewrite Hs in W3. destruct W3 as [W3 _].
      destruct (params c) as [|[i e] pl]; [contradiction|]. exists i, e. now left. }
    destruct Hex as [i [e Ie]].
    destruct (wf_vec_value c sh i e p s W Hs Ie Hps H3) as [l [_ [_ ->]]].
    unfold size_of_shape. simpl. now rewrite Nat.add_0_r.
Qed.

(* ------------------------------------------------------------------------------------------ csv round trip *)

Theorem csv_roundtrip_ok c sh :
  wf c -> shapes c = Some sh -> table_safe sh ->
  Forall (fun ps => fst ps <> "") sh -> Forall (fun i => ~ In i na_tokens) (indices c) ->
  csv_roundtrip c = Ok (vec_container (fun q => q) c sh).
Proof.
  intros W Hs Hsafe Hne Hna. unfold csv_roundtrip. rewrite Hs.
  destruct (table_roundtrip c sh W Hs Hsafe) as [T1 [T2 _]]. rewrite T1. simpl.
  assert (R : csv_reread (table_of c sh) = Ok (table_of c sh)).
  { unfold csv_reread, table_of. cbn [cols rows].
    assert (ND : NoDup (map fst sh)) by (destruct W as [_ [_ W3]]; rewrite Hs in W3; tauto).
    unfold table_safe in Hsafe. rewrite Forall_forall in Hsafe, Hne, Hna.
    assert (Hu : Forall (fun ps : string * shape => no_underscore (fst ps)) sh).
    { apply Forall_forall. intros ps Hps. now destruct (Hsafe _ Hps). }
    assert (E : existsb (String.eqb "") (List.concat (map colsf sh)) = false).
    { apply not_true_is_false. intros C. apply existsb_exists in C as [x [Hx Ex]]. apply String.eqb_eq in Ex. subst x.
      apply in_concat in Hx as [blk [Hb Hx]]. apply in_map_iff in Hb as [ps [<- Hps]].
      destruct (Hsafe _ Hps) as [Hus _]. pose proof (colsf_key ps "" Hus Hx) as K. simpl in K.
      apply (Hne _ Hps). now symmetry. }
    rewrite E. pose proof (names_NoDup sh ND Hu) as NDn. apply nodup_str_NoDup in NDn. rewrite NDn. cbn [negb].
    f_equal. f_equal. rewrite <- (map_id (map (row_of c sh) (indices c))) at 2. apply map_ext_in.
    intros r Hr. apply in_map_iff in Hr as [idx [<- Hidx]]. unfold row_of. cbn [fst snd].
    pose proof (Hna _ Hidx) as N. apply mem_str_false in N. now rewrite N. }
  rewrite R. simpl. exact T2.
Qed.
