(** C16 — proofs about the model of IndividualParameters (Io/IndivParams.v). *)
From Coq Require Import List String Ascii Bool Arith QArith Lia Permutation.
From Coq Require Import Decimal DecimalString DecimalNat.
From Leaspy Require Import Io.IndivParams.
Import ListNotations.
Open Scope string_scope.

(* ------------------------------------------------------------------------------------------ basics *)

Lemma mem_str_In s l : mem_str s l = true <-> In s l.
Proof.
  unfold mem_str. rewrite existsb_exists. split.
  - intros [x [H E]]. apply String.eqb_eq in E. now subst.
  - intros H. exists s. split; [assumption | apply String.eqb_refl].
Qed.

Lemma mem_str_false s l : mem_str s l = false <-> ~ In s l.
Proof.
  rewrite <- mem_str_In. destruct (mem_str s l); split; congruence.
Qed.

Lemma nodup_str_NoDup l : nodup_str l = true <-> NoDup l.
Proof.
  induction l as [|a l IH]; simpl.
  - split; [constructor | reflexivity].
  - rewrite andb_true_iff, negb_true_iff, mem_str_false, IH. split.
    + intros [H1 H2]. now constructor.
    + intros H. inversion H; subst. now split.
Qed.

Lemma mapM_ok {A B} (f : A -> res B) (g : A -> B) l :
  (forall a, In a l -> f a = Ok (g a)) -> mapM f l = Ok (map g l).
Proof.
  induction l as [|a l IH]; intros H; simpl; [reflexivity|].
  rewrite (H a (or_introl eq_refl)). simpl. rewrite IH; [reflexivity|].
  intros b Hb. apply H. now right.
Qed.

Lemma lookup_In {A} k (l : list (string * A)) v : lookup k l = Some v -> In (k, v) l.
Proof.
  induction l as [|[k' v'] l IH]; simpl; [discriminate|].
  destruct (String.eqb k k') eqn:E.
  - apply String.eqb_eq in E. subst. intros H. inversion H. now left.
  - intros H. right. now apply IH.
Qed.

Lemma In_lookup {A} k (l : list (string * A)) v : NoDup (map fst l) -> In (k, v) l -> lookup k l = Some v.
Proof.
  induction l as [|[k' v'] l IH]; simpl; intros ND H; [contradiction|].
  inversion ND; subst. destruct H as [H|H].
  - inversion H; subst. now rewrite String.eqb_refl.
  - destruct (String.eqb k k') eqn:E.
    + apply String.eqb_eq in E. subst. exfalso. apply H2. change k' with (fst (k', v)). now apply in_map.
    + now apply IH.
Qed.

Lemma lookup_map {A B} (f : A -> B) k (l : list (string * A)) :
  lookup k (map (fun kv => (fst kv, f (snd kv))) l) = option_map f (lookup k l).
Proof.
  induction l as [|[k' v'] l IH]; simpl; [reflexivity|].
  destruct (String.eqb k k'); [reflexivity | apply IH].
Qed.

Lemma lookup_None {A} k (l : list (string * A)) : ~ In k (map fst l) -> lookup k l = None.
Proof.
  induction l as [|[k' v'] l IH]; simpl; intros H; [reflexivity|].
  destruct (String.eqb k k') eqn:E.
  - apply String.eqb_eq in E. subst. exfalso. apply H. now left.
  - apply IH. intros C. apply H. now right.
Qed.

Lemma lookup_app {A} k (l1 l2 : list (string * A)) :
  lookup k (l1 ++ l2) = match lookup k l1 with Some v => Some v | None => lookup k l2 end.
Proof.
  induction l1 as [|[k' v'] l1 IH]; simpl; [reflexivity|].
  destruct (String.eqb k k'); [reflexivity | apply IH].
Qed.

Lemma shape_eqb_eq a b : shape_eqb a b = true <-> a = b.
Proof.
  unfold shape_eqb. split.
  - revert b. induction a as [|x a IH]; destruct b as [|y b]; simpl; try discriminate; [reflexivity|].
    rewrite andb_true_iff. intros [H1 H2]. apply Nat.eqb_eq in H1.
    apply andb_true_iff in H2 as [H2 H3]. apply Nat.eqb_eq in H2. subst. f_equal.
    apply IH. now rewrite H1, Nat.eqb_refl.
  - intros ->. rewrite Nat.eqb_refl. simpl. induction b as [|y b IH]; simpl; [reflexivity|].
    now rewrite Nat.eqb_refl.
Qed.

Lemma shapes_eqb_refl sh : NoDup (map fst sh) -> shapes_eqb sh sh = true.
Proof.
  intros ND. unfold shapes_eqb. rewrite Nat.eqb_refl. simpl.
  apply forallb_forall. intros [k s] H. simpl.
  rewrite (In_lookup k sh s ND H). now apply shape_eqb_eq.
Qed.

Lemma shapes_eqb_lookup sh sh' p s :
  shapes_eqb sh sh' = true -> In (p, s) sh -> lookup p sh' = Some s.
Proof.
  unfold shapes_eqb. rewrite andb_true_iff. intros [_ H] Hin.
  rewrite forallb_forall in H. specialize (H _ Hin). simpl in H.
  destruct (lookup p sh') as [s'|]; [|discriminate].
  apply shape_eqb_eq in H. now subst.
Qed.

(* ------------------------------------------------------------------------------------------ add: rejections *)

Lemma add_rejects_nonstr c a : add c IdNotStr a = Rejected InputError.
Proof. reflexivity. Qed.

Lemma add_rejects_dup c s a : In s (indices c) -> add c (IdStr s) a = Rejected InputError.
Proof. intros H. unfold add. apply mem_str_In in H. now rewrite H. Qed.

Lemma add_rejects_notdict c i : add c i ArgNotDict = Rejected InputError.
Proof. unfold add. destruct i; [|reflexivity]. now destruct (mem_str s (indices c)). Qed.

Lemma add_rejects_type c i d :
  Exists (fun kv => head_unsupported (snd kv)) d -> add c i (ArgDict d) = Rejected InputError.
Proof.
  intros H. unfold add. destruct i; [|reflexivity]. destruct (mem_str s (indices c)); [reflexivity|].
  assert (E : forallb (fun kv : string * pyval => type_ok (snd kv)) (map (fun kv => (fst kv, tolist (snd kv))) d) = false).
  { apply Exists_exists in H as [kv [Hin Hu]]. apply not_true_is_false. intros C.
    rewrite forallb_forall in C. specialize (C (fst kv, tolist (snd kv))).
    unfold head_unsupported in Hu. simpl in C. rewrite Hu in C. discriminate C.
    apply in_map_iff. now exists kv. }
  now rewrite E.
Qed.

Lemma add_rejects_shape c i d sh :
  shapes c = Some sh -> shapes_eqb sh (pshapes d) = false -> add c i (ArgDict d) = Rejected InputError.
Proof.
  intros Hs Hne. unfold add. destruct i; [|reflexivity]. destruct (mem_str s (indices c)); [reflexivity|].
  destruct (negb (forallb _ _)); [reflexivity|].
  rewrite Hs. unfold pshapes in Hne. rewrite map_map. simpl. now rewrite Hne.
Qed.

Theorem add_rejects c id arg :
  id = IdNotStr
  \/ (exists s, id = IdStr s /\ In s (indices c))
  \/ arg = ArgNotDict
  \/ (exists d, arg = ArgDict d /\
        (Exists (fun kv => head_unsupported (snd kv)) d
         \/ exists sh, shapes c = Some sh /\ shapes_eqb sh (pshapes d) = false)) ->
  add c id arg = Rejected InputError /\ after_add c id arg = c.
Proof.
  intros H. assert (E : add c id arg = Rejected InputError).
  { destruct H as [->|[[s [-> H]]|[->|[d [-> [H|[sh [H1 H2]]]]]]]].
    - apply add_rejects_nonstr.
    - now apply add_rejects_dup.
    - apply add_rejects_notdict.
    - now apply add_rejects_type.
    - now apply (add_rejects_shape c id d sh). }
  split; [assumption|]. unfold after_add. now rewrite E.
Qed.

(** what [head_unsupported] means, case by case *)
Lemma head_unsupported_cases :
  head_unsupported (VAtom ABool) /\ head_unsupported (VAtom AStr) /\ head_unsupported (VAtom ANone) /\
  head_unsupported (VAtom AOther) /\ head_unsupported (VList []) /\ head_unsupported (VArr1 false []) /\
  (forall n, head_unsupported (VArrNd n)) /\ (forall q, head_unsupported (VAtom (ANum KNpOther q))) /\
  (forall a l, atom_valid a = false -> head_unsupported (VList (a :: l))).
Proof.
  unfold head_unsupported. repeat split; try reflexivity.
  - intros [|n]; reflexivity.
  - intros a l H. simpl. exact H.
Qed.

(* ------------------------------------------------------------------------------------------ add: acceptance *)

Lemma fully_supported_type_ok v : fully_supported v = true -> type_ok (tolist v) = true.
Proof.
  unfold fully_supported. destruct (tolist v) as [a|l| | |]; try discriminate; simpl; [trivial|].
  destruct l as [|a l]; simpl; [discriminate|]. rewrite andb_true_iff. tauto.
Qed.

Lemma atoms_nums_valid l : forallb atom_valid l = true -> exists ns, atoms_nums l = Some ns /\ List.length ns = List.length l.
Proof.
  induction l as [|a l IH]; simpl.
  - exists []. now split.
  - rewrite andb_true_iff. intros [Ha Hl]. destruct (IH Hl) as [ns [E L]].
    destruct a; try discriminate. simpl. rewrite E. exists ((k, q) :: ns). simpl. now rewrite L.
Qed.

Lemma fully_supported_store v :
  fully_supported v = true -> exists x, store (tolist v) = Some x /\ shape_of x = pshape (tolist v) /\ x <> Vec [].
Proof.
  unfold fully_supported. destruct (tolist v) as [a|l| | |]; try discriminate; simpl.
  - destruct a; try discriminate. intros _. exists (Scalar (k, q)). repeat split. discriminate.
  - rewrite andb_true_iff. intros [Hn Hl]. destruct (atoms_nums_valid l Hl) as [ns [E L]].
    rewrite E. exists (Vec ns). simpl. rewrite L. repeat split.
    intros C. inversion C. subst. simpl in L. rewrite <- L in Hn. discriminate.
Qed.

Lemma store_all_supported d :
  Forall (fun kv => fully_supported (snd kv) = true) d ->
  exists e, store_all (map (fun kv => (fst kv, tolist (snd kv))) d) = Some e
            /\ entry_shapes e = pshapes d /\ map fst e = map fst d /\ Forall (fun pv => snd pv <> Vec []) e.
Proof.
  induction 1 as [|[k v] d Hv _ IH]; simpl.
  - exists []. repeat split. constructor.
  - destruct IH as [e [E [S [K F]]]]. simpl in Hv. destruct (fully_supported_store v Hv) as [x [Ex [Sx Nx]]].
    rewrite Ex, E. exists ((k, x) :: e). simpl. unfold entry_shapes, pshapes in *. simpl. rewrite Sx, S, K.
    repeat split. constructor; assumption.
Qed.

Theorem add_accepts c s d :
  ~ In s (indices c) ->
  Forall (fun kv => fully_supported (snd kv) = true) d ->
  (forall sh, shapes c = Some sh -> shapes_eqb sh (pshapes d) = true) ->
  exists e, store_all (map (fun kv => (fst kv, tolist (snd kv))) d) = Some e
    /\ entry_shapes e = pshapes d /\ map fst e = map fst d
    /\ add c (IdStr s) (ArgDict d) =
       Added (mkC (indices c ++ [s]) (params c ++ [(s, e)])
                  (Some (match shapes c with None => pshapes d | Some sh => sh end))).
Proof.
  intros Hs Hd Hsh. destruct (store_all_supported d Hd) as [e [E [S [K F]]]].
  exists e. repeat split; try assumption.
  unfold add. apply mem_str_false in Hs. rewrite Hs.
  assert (T : forallb (fun kv : string * pyval => type_ok (snd kv)) (map (fun kv => (fst kv, tolist (snd kv))) d) = true).
  { apply forallb_forall. intros kv Hin. apply in_map_iff in Hin as [kv0 [<- Hin]]. simpl.
    apply fully_supported_type_ok. rewrite Forall_forall in Hd. now apply Hd. }
  rewrite T. simpl. rewrite map_map. simpl. fold (pshapes d).
  destruct (shapes c) as [sh|] eqn:Es.
  - rewrite (Hsh sh eq_refl). simpl. now rewrite E.
  - simpl. now rewrite E.
Qed.

(* ------------------------------------------------------------------------------------------ invariant *)

Lemma atoms_nums_length l ns : atoms_nums l = Some ns -> List.length ns = List.length l.
Proof.
  revert ns. induction l as [|a l IH]; simpl; intros ns H.
  - inversion H. reflexivity.
  - destruct (atom_num a); [|discriminate]. destruct (atoms_nums l) as [xs|]; [|discriminate].
    inversion H. simpl. now rewrite (IH xs eq_refl).
Qed.

Lemma store_shape v x : store v = Some x -> shape_of x = pshape v /\ (type_ok v = true -> x <> Vec []).
Proof.
  destruct v as [a|l| | |]; simpl; try discriminate.
  - destruct (atom_num a); simpl; [|discriminate]. intros H. inversion H. split; [reflexivity | discriminate].
  - destruct (atoms_nums l) as [ns|] eqn:E; simpl; [|discriminate]. intros H. inversion H. simpl.
    rewrite (atoms_nums_length l ns E). split; [reflexivity|].
    intros T C. inversion C. subst. destruct l; [discriminate T|]. simpl in E.
    destruct (atom_num a); [|discriminate]. destruct (atoms_nums l); discriminate.
Qed.

Lemma store_all_spec d e :
  store_all d = Some e ->
  map fst e = map fst d /\ entry_shapes e = map (fun kv => (fst kv, pshape (snd kv))) d
  /\ (forallb (fun kv => type_ok (snd kv)) d = true -> Forall (fun pv => snd pv <> Vec []) e).
Proof.
  revert e. induction d as [|[k v] d IH]; simpl; intros e H.
  - inversion H. repeat split. constructor.
  - destruct (store v) as [x|] eqn:Ex; [|discriminate]. destruct (store_all d) as [xs|]; [|discriminate].
    inversion H. subst. destruct (IH xs eq_refl) as [K [S F]]. destruct (store_shape v x Ex) as [Sx Nx].
    unfold entry_shapes in *. simpl. rewrite K, S, Sx. repeat split.
    rewrite andb_true_iff. intros [T1 T2]. constructor; [now apply Nx | now apply F].
Qed.

Lemma wf_empty : wf empty.
Proof. unfold wf, empty. simpl. repeat split. constructor. Qed.

Lemma NoDup_snoc {A} (l : list A) a : NoDup l -> ~ In a l -> NoDup (l ++ [a]).
Proof.
  intros ND H. induction l as [|b l IH]; simpl.
  - constructor; [intros [] | constructor].
  - inversion ND; subst. constructor.
    + rewrite in_app_iff. intros [C|[C|[]]]; [contradiction|]. subst. apply H. now left.
    + apply IH; [assumption|]. intros C. apply H. now right.
Qed.

Theorem wf_add c id arg c' :
  wf c -> (forall d, arg = ArgDict d -> NoDup (map fst d)) -> add c id arg = Added c' -> wf c'.
Proof.
  intros [W1 [W2 W3]] Hd H. unfold add in H.
  destruct id as [s|]; [|discriminate].
  destruct (mem_str s (indices c)) eqn:M; [discriminate|]. apply mem_str_false in M.
  destruct arg as [d|]; [|discriminate]. specialize (Hd d eq_refl).
  destruct (forallb _ _) eqn:T; simpl in H; [|discriminate].
  rewrite map_map in H. simpl in H. fold (pshapes d) in H.
  destruct (store_all _) as [e|] eqn:E.
  2:{ destruct (negb _); discriminate. }
  destruct (store_all_spec _ e E) as [K [S F]]. rewrite map_map in K, S. simpl in K, S. fold (pshapes d) in S.
  specialize (F T).
  assert (Ke : NoDup (map fst e)) by now rewrite K.
  destruct (shapes c) as [sh|] eqn:Es.
  - destruct (shapes_eqb sh (pshapes d)) eqn:Q; simpl in H; [|discriminate]. inversion H. subst c'. clear H.
    destruct W3 as [W3 [W4 W5]]. unfold wf. simpl. repeat split.
    + rewrite map_app, W1. reflexivity.
    + now apply NoDup_snoc.
    + intros C. apply app_eq_nil in C as [_ C]. discriminate.
    + assumption.
    + apply Forall_app. split; [assumption|]. constructor; [|constructor]. simpl.
      unfold entry_wf. rewrite S. repeat split; assumption.
  - simpl in H. inversion H. subst c'. clear H. unfold wf. simpl. rewrite W3. simpl. repeat split.
    + rewrite W1, W3. reflexivity.
    + rewrite W1, W3. simpl. constructor; [intros [] | constructor].
    + discriminate.
    + unfold pshapes. rewrite map_map. simpl. assumption.
    + constructor; [|constructor]. simpl. unfold entry_wf. rewrite S. repeat split; try assumption.
      apply shapes_eqb_refl. unfold pshapes. rewrite map_map. simpl. assumption.
Qed.

(** what the invariant gives to the conversions *)
Lemma wf_lookup_entry c idx : wf c -> In idx (indices c) -> exists e, lookup idx (params c) = Some e /\ In (idx, e) (params c).
Proof.
  intros [W1 [W2 _]] H. rewrite W1 in H. apply in_map_iff in H as [[i e] [<- H]].
  exists e. split; [|assumption]. apply In_lookup; [now rewrite <- W1 | assumption].
Qed.

Lemma entry_wf_lookup sh e p s :
  entry_wf sh e -> In (p, s) sh -> exists v, lookup p e = Some v /\ shape_of v = s /\ v <> Vec [].
Proof.
  intros [E1 [E2 E3]] H. pose proof (shapes_eqb_lookup sh _ p s E2 H) as L.
  unfold entry_shapes in L. rewrite (lookup_map shape_of) in L.
  destruct (lookup p e) as [v|] eqn:Lv; [|discriminate]. simpl in L. inversion L.
  exists v. repeat split. apply lookup_In in Lv. rewrite Forall_forall in E3. exact (E3 _ Lv).
Qed.

(** normalising the order of the names loses nothing: the names of every entry are those of the shape dict *)
Lemma entry_wf_names sh e : NoDup (map fst sh) -> entry_wf sh e -> Permutation (map fst sh) (map fst e).
Proof.
  intros ND [E1 [E2 E3]]. apply NoDup_Permutation_bis; [assumption| |].
  - unfold shapes_eqb in E2. apply andb_true_iff in E2 as [L _]. apply Nat.eqb_eq in L.
    unfold entry_shapes in L. rewrite !map_length in *. lia.
  - intros p Hp. apply in_map_iff in Hp as [[p' s] [<- Hp]]. simpl.
    destruct (entry_wf_lookup sh e p' s (conj E1 (conj E2 E3)) Hp) as [v [Lv _]].
    apply lookup_In in Lv. change p' with (fst (p', v)). now apply in_map.
Qed.

(* ------------------------------------------------------------------------------------------ json *)

Lemma value_map_kind_native v :
  forallb native_kind (value_kinds v) = true -> value_map_kind kind_after_json v = v.
Proof.
  destruct v as [[k q]|l]; simpl.
  - rewrite andb_true_iff. intros [H _]. destruct k; try discriminate; reflexivity.
  - intros H. f_equal. induction l as [|[k q] l IH]; simpl in *; [reflexivity|].
    apply andb_true_iff in H as [H1 H2]. rewrite IH by assumption.
    destruct k; try discriminate; reflexivity.
Qed.

Lemma params_map_native p :
  forallb (fun ie : string * entry => forallb (fun pv => forallb native_kind (value_kinds (snd pv))) (snd ie)) p = true ->
  params_map (value_map_kind kind_after_json) p = p.
Proof.
  induction p as [|[i e] p IH]; simpl; [reflexivity|]. rewrite andb_true_iff. intros [H1 H2].
  unfold params_map in *. simpl. rewrite IH by assumption. f_equal. f_equal.
  induction e as [|[n v] e IHe]; simpl in *; [reflexivity|].
  apply andb_true_iff in H1 as [Hv He]. unfold entry_map in *. simpl. rewrite IHe by assumption.
  now rewrite value_map_kind_native.
Qed.

Theorem json_roundtrip c sh :
  shapes c = Some sh -> json_serialisable c = true ->
  exists j, to_json c = Ok j
    /\ from_json j = mkC (indices c) (params_map (value_map_kind kind_after_json) (params c)) (Some sh)
    /\ (native c = true -> from_json j = c).
Proof.
  intros Hs Hj. unfold to_json. rewrite Hs, Hj. eexists. split; [reflexivity|]. split; [reflexivity|].
  intros Hn. unfold from_json. simpl. rewrite (params_map_native _ Hn). destruct c. simpl in *. now rewrite Hs.
Qed.

(** [value_map_kind] changes the python type only: the rational values, names, shapes, order are untouched *)
Lemma value_map_kind_cells f v : value_cells (value_map_kind f v) = value_cells v /\ shape_of (value_map_kind f v) = shape_of v.
Proof.
  destruct v as [[k q]|l]; simpl; [split; reflexivity|]. rewrite map_map, map_length. simpl. split; reflexivity.
Qed.

(* ------------------------------------------------------------------------------------------ paths *)

Theorem save_load_extension c p :
  shapes c <> None ->
  (get_extension p = None -> save_target c p = Ok (p ++ ".csv", Csv) /\ load_format p = Err InputError)
  /\ (get_extension p = Some "csv" -> save_target c p = Ok (p, Csv) /\ save_load c p p = csv_roundtrip c)
  /\ (get_extension p = Some "json" -> save_target c p = Ok (p, Json) /\ save_load c p p = (do j <- to_json c; Ok (from_json j)))
  /\ (forall e, get_extension p = Some e -> e <> "csv" -> e <> "json" ->
        save_target c p = Err InputError /\ load_format p = Err InputError).
Proof.
  intros Hs. unfold save_load, save_target, load_format. destruct (shapes c) as [sh|]; [|contradiction]. repeat split.
  - now rewrite H.
  - now rewrite H.
  - now rewrite H.
  - rewrite H. simpl. now rewrite String.eqb_refl.
  - now rewrite H.
  - rewrite H. simpl. now rewrite String.eqb_refl.
  - rewrite H. apply String.eqb_neq in H0, H1. now rewrite H0, H1.
  - rewrite H. apply String.eqb_neq in H0, H1. now rewrite H0, H1.
Qed.
