(** Properties of the executable binary rounding [round_bin] of Io/F32.v ([f32], [f64], [store32]: the float64 -> float32 store of
    the ingestion model, C14 / C20), proved for every rational where the rounding is defined (normal range): the exponent
    [ilog2] is the exponent, rounding is monotone, rounding twice is rounding once, and the float32 store is monotone; hence
    the age collision of C14 (finding F9b) holds of EVERY pair of ages in [70, 70.000003], not only of the recorded witness.
    Until now [round_bin] was used by computation only. *)
From Coq Require Import ZArith QArith Qround Qabs Qpower Qreduction Bool Lia Lqa.
From Leaspy Require Import Base.QAux Io.Ingest Io.F32.
Open Scope Q_scope.

(* ------------------------------------------------------------------ powers of two *)
Lemma pow2_Qpower e : pow2 e == 2 ^ e.
Proof.
  unfold pow2. destruct (Z.leb_spec 0 e).
  - rewrite Zpower_Qpower by assumption. reflexivity.
  - rewrite Zpower_Qpower by lia. rewrite <- Qpower_opp. rewrite Z.opp_involutive. reflexivity.
Qed.

Lemma pow2_pos e : 0 < pow2 e.
Proof. rewrite pow2_Qpower. apply Qpower_0_lt. reflexivity. Qed.

Lemma pow2_add a b : pow2 (a + b) == pow2 a * pow2 b.
Proof. rewrite !pow2_Qpower. apply Qpower_plus. discriminate. Qed.

Lemma pow2_le a b : (a <= b)%Z -> pow2 a <= pow2 b.
Proof. intros. rewrite !pow2_Qpower. apply Qpower_le_compat_l; [assumption | discriminate]. Qed.

Lemma pow2_lt_inv a b : pow2 a < pow2 b -> (a < b)%Z.
Proof. rewrite !pow2_Qpower. intros H. apply (Qpower_lt_compat_l_inv 2); [exact H | reflexivity]. Qed.

Lemma pow2_Z e : (0 <= e)%Z -> pow2 e = inject_Z (2 ^ e).
Proof. intros. unfold pow2. destruct (Z.leb_spec 0 e); [reflexivity | lia]. Qed.

Lemma pow2_succ e : pow2 (e + 1) == 2 * pow2 e.
Proof. rewrite pow2_add. change (pow2 1) with (inject_Z 2). change (inject_Z 2) with 2. ring. Qed.

(* ------------------------------------------------------------------ the exponent *)
Lemma ilog2_spec a : 0 < a -> pow2 (ilog2 a) <= a /\ a < pow2 (ilog2 a + 1).
Proof.
  destruct a as [n d]. intros Ha. assert (Hn : (0 < n)%Z) by (unfold Qlt in Ha; simpl in Ha; lia).
  unfold ilog2. cbn [Qnum Qden].
  destruct (Z.log2_spec n Hn) as [A1 A2]. destruct (Z.log2_spec (Zpos d) ltac:(lia)) as [B1 B2].
  pose proof (Z.log2_nonneg n) as A0. pose proof (Z.log2_nonneg (Zpos d)) as B0.
  set (ln := Z.log2 n) in *. set (ld := Z.log2 (Zpos d)) in *.
  rewrite <- Z.add_1_r in A2, B2.
  assert (N1 : pow2 ln <= inject_Z n) by (rewrite pow2_Z by lia; rewrite <- Zle_Qle; exact A1).
  assert (N2 : inject_Z n < pow2 (ln + 1)) by (rewrite pow2_Z by lia; rewrite <- Zlt_Qlt; exact A2).
  assert (D1 : pow2 ld <= inject_Z (Zpos d)) by (rewrite pow2_Z by lia; rewrite <- Zle_Qle; exact B1).
  assert (D2 : inject_Z (Zpos d) < pow2 (ld + 1)) by (rewrite pow2_Z by lia; rewrite <- Zlt_Qlt; exact B2).
  assert (Ea : (n # d) * inject_Z (Zpos d) == inject_Z n).
  { rewrite (Qmake_Qdiv n d). field. discriminate. }
  assert (PD : 0 < inject_Z (Zpos d)) by reflexivity.
  set (e0 := (ln - ld)%Z).
  assert (U : (n # d) < pow2 (e0 + 1)).
  { assert (E : pow2 (ln + 1) == pow2 (e0 + 1) * pow2 ld) by (rewrite <- pow2_add; unfold e0; f_equiv; lia).
    pose proof (pow2_pos (e0 + 1)). rewrite E in N2.
    set (a := n # d) in *. set (D := inject_Z (Z.pos d)) in *. set (X := pow2 (e0 + 1)) in *. set (Y := pow2 ld) in *. nra. }
  assert (L : pow2 (e0 - 1) < (n # d)).
  { assert (E : pow2 ln == pow2 (e0 - 1) * pow2 (ld + 1)) by (rewrite <- pow2_add; unfold e0; f_equiv; lia).
    pose proof (pow2_pos (e0 - 1)). rewrite E in N1.
    set (a := n # d) in *. set (D := inject_Z (Z.pos d)) in *. set (X := pow2 (e0 - 1)) in *. set (Y := pow2 (ld + 1)) in *. nra. }
  destruct (Qle_bool (pow2 e0) (n # d)) eqn:T.
  - apply Qle_bool_iff in T. split; assumption.
  - assert (T' : ~ pow2 e0 <= n # d) by (intros C; apply Qle_bool_iff in C; congruence).
    apply Qnot_le_lt in T'. replace (e0 - 1 + 1)%Z with e0 by lia. split; [apply Qlt_le_weak; exact L | exact T'].
Qed.

Lemma ilog2_unique a e : 0 < a -> pow2 e <= a -> a < pow2 (e + 1) -> ilog2 a = e.
Proof.
  intros Ha H1 H2. destruct (ilog2_spec a Ha) as [S1 S2].
  assert (e < ilog2 a + 1)%Z by (apply pow2_lt_inv; eapply Qle_lt_trans; eassumption).
  assert (ilog2 a < e + 1)%Z by (apply pow2_lt_inv; eapply Qle_lt_trans; eassumption). lia.
Qed.

Lemma ilog2_mono a b : 0 < a -> a <= b -> (ilog2 a <= ilog2 b)%Z.
Proof.
  intros Ha Hab. assert (Hb : 0 < b) by (eapply Qlt_le_trans; eassumption).
  destruct (ilog2_spec a Ha) as [S1 _]. destruct (ilog2_spec b Hb) as [_ S2].
  assert (ilog2 a < ilog2 b + 1)%Z by (apply pow2_lt_inv; eapply Qle_lt_trans; [|exact S2]; eapply Qle_trans; eassumption). lia.
Qed.

(* ------------------------------------------------------------------ round half to even on Q *)
Lemma rhe_cases x : round_half_even x = Qfloor x \/ round_half_even x = (Qfloor x + 1)%Z.
Proof. unfold round_half_even. destruct (Qcompare _ _); [destruct (Z.even _)|..]; auto. Qed.

Lemma rhe_Z k : round_half_even (inject_Z k) = k.
Proof.
  unfold round_half_even. rewrite Qfloor_Z.
  assert (H : inject_Z k - inject_Z k < 1 # 2) by lra. rewrite Qlt_alt in H. rewrite H. reflexivity.
Qed.

Lemma rhe_comp x y : x == y -> round_half_even x = round_half_even y.
Proof.
  intros H. unfold round_half_even. assert (F : Qfloor x = Qfloor y) by (apply Qfloor_comp; exact H). rewrite F.
  assert (C : Qcompare (x - inject_Z (Qfloor y)) (1 # 2) = Qcompare (y - inject_Z (Qfloor y)) (1 # 2))
    by (apply Qcompare_comp; [rewrite H; reflexivity | reflexivity]).
  rewrite C. reflexivity.
Qed.

Lemma rhe_mono x y : x <= y -> (round_half_even x <= round_half_even y)%Z.
Proof.
  intros H. pose proof (Qfloor_resp_le x y H) as F.
  destruct (Z_lt_le_dec (Qfloor x) (Qfloor y)) as [L|G].
  - destruct (rhe_cases x), (rhe_cases y); lia.
  - assert (E : Qfloor x = Qfloor y) by lia. unfold round_half_even. rewrite E. set (f := Qfloor y).
    destruct (Qcompare_spec (x - inject_Z f) (1 # 2)) as [X|X|X]; destruct (Qcompare_spec (y - inject_Z f) (1 # 2)) as [Y|Y|Y];
      try (destruct (Z.even f)); try lia; exfalso; lra.
Qed.

Lemma rhe_bounds lo hi x : inject_Z lo <= x -> x <= inject_Z hi -> (lo <= round_half_even x <= hi)%Z.
Proof. intros H1 H2. apply rhe_mono in H1, H2. rewrite rhe_Z in H1, H2. lia. Qed.

(* ------------------------------------------------------------------ round_bin on a positive rational *)
Lemma Qabs_pos_eq q : 0 < q -> Qabs q = q.
Proof. destruct q as [[|n|n] d]; unfold Qlt; simpl; intros H; try lia; reflexivity. Qed.

Lemma Qabs_opp_eq q : Qabs (- q) = Qabs q.
Proof. destruct q as [n d]. unfold Qabs, Qopp. cbn [Qnum Qden]. rewrite Z.abs_opp. reflexivity. Qed.

(** the scaled significand lies in [2^(p-1), 2^p], so the rounded value lies in [2^e, 2^(e+1)] *)
Lemma scaled_bounds p q : (1 <= p)%Z -> 0 < q ->
  let e := ilog2 q in let sh := (e - (p - 1))%Z in let m := round_half_even (q / pow2 sh) in
  (2 ^ (p - 1) <= m <= 2 ^ p)%Z /\ pow2 e <= inject_Z m * pow2 sh /\ inject_Z m * pow2 sh <= pow2 (e + 1).
Proof.
  intros Hp Hq e sh m. destruct (ilog2_spec q Hq) as [S1 S2]. fold e in S1, S2.
  pose proof (pow2_pos sh) as Psh.
  assert (E1 : pow2 e == pow2 (p - 1) * pow2 sh) by (rewrite <- pow2_add; unfold sh; f_equiv; lia).
  assert (E2 : pow2 (e + 1) == pow2 p * pow2 sh) by (rewrite <- pow2_add; unfold sh; f_equiv; lia).
  rewrite (pow2_Z (p - 1)) in E1 by lia. rewrite (pow2_Z p) in E2 by lia.
  assert (M : (2 ^ (p - 1) <= m <= 2 ^ p)%Z).
  { apply rhe_bounds.
    - apply Qle_shift_div_l; [exact Psh|]. rewrite <- E1. exact S1.
    - apply Qle_shift_div_r; [exact Psh|]. rewrite <- E2. apply Qlt_le_weak. exact S2. }
  split; [exact M|]. destruct M as [M1 M2]. rewrite Zle_Qle in M1, M2. rewrite E1, E2.
  split; apply Qmult_le_compat_r; try assumption; apply Qlt_le_weak; exact Psh.
Qed.

Lemma round_bin_pos p emin emax q x : (1 <= p)%Z -> 0 < q -> round_bin p emin emax q = Some x ->
  let e := ilog2 q in let sh := (e - (p - 1))%Z in
  x == inject_Z (round_half_even (q / pow2 sh)) * pow2 sh /\ (emin <= e <= emax)%Z /\ x < pow2 (emax + 1) /\
  x = Qred (inject_Z (round_half_even (q / pow2 sh)) * pow2 sh).
Proof.
  intros Hp Hq H e sh. unfold round_bin in H.
  destruct (Qeq_bool q 0) eqn:Z0; [apply Qeq_bool_iff in Z0; rewrite Z0 in Hq; discriminate|].
  rewrite (Qabs_pos_eq q Hq) in H. fold e in H. fold sh in H.
  destruct ((e <? emin)%Z || (emax <? e)%Z) eqn:R; [discriminate|].
  apply orb_false_iff in R. destruct R as [R1 R2]. apply Z.ltb_ge in R1, R2.
  destruct (Qle_bool (pow2 (emax + 1)) _) eqn:O; [discriminate|].
  assert (Hq' : Qle_bool 0 q = true) by (apply Qle_bool_iff; apply Qlt_le_weak; exact Hq). rewrite Hq' in H.
  set (r := inject_Z (round_half_even (q / pow2 sh)) * pow2 sh) in *.
  assert (Hx : Qred r = x) by congruence.
  assert (Ex : x == r) by (rewrite <- Hx; apply Qred_correct).
  split; [exact Ex|]. split; [lia|]. split; [|symmetry; exact Hx]. rewrite Ex.
  apply Qnot_le_lt. intros C. apply Qle_bool_iff in C. congruence.
Qed.

(** definedness on the normal range *)
Lemma round_bin_pos_defined p emin emax q : (1 <= p)%Z -> 0 < q -> pow2 emin <= q -> q < pow2 emax ->
  exists x, round_bin p emin emax q = Some x.
Proof.
  intros Hp Hq L U. destruct (ilog2_spec q Hq) as [S1 S2].
  assert (emin < ilog2 q + 1)%Z by (apply pow2_lt_inv; eapply Qle_lt_trans; eassumption).
  assert (ilog2 q < emax)%Z by (apply pow2_lt_inv; eapply Qle_lt_trans; eassumption).
  destruct (scaled_bounds p q Hp Hq) as (_ & _ & B).
  unfold round_bin.
  destruct (Qeq_bool q 0) eqn:Z0; [apply Qeq_bool_iff in Z0; rewrite Z0 in Hq; discriminate|].
  rewrite (Qabs_pos_eq q Hq).
  destruct ((ilog2 q <? emin)%Z || (emax <? ilog2 q)%Z) eqn:R.
  { apply orb_true_iff in R. destruct R as [R|R]; apply Z.ltb_lt in R; lia. }
  destruct (Qle_bool (pow2 (emax + 1)) _) eqn:O; [|eexists; reflexivity].
  exfalso. apply Qle_bool_iff in O.
  assert (pow2 (emax + 1) <= pow2 (ilog2 q + 1)) by (eapply Qle_trans; eassumption).
  assert (pow2 (ilog2 q + 1) < pow2 (emax + 1)).
  { rewrite !pow2_Qpower. apply Qpower_lt_compat_l; [lia | reflexivity]. }
  lra.
Qed.

Lemma round_bin_mono_pos p emin emax q1 q2 x1 x2 : (1 <= p)%Z -> 0 < q1 -> q1 <= q2 ->
  round_bin p emin emax q1 = Some x1 -> round_bin p emin emax q2 = Some x2 -> x1 <= x2.
Proof.
  intros Hp H1 H12 R1 R2. assert (H2 : 0 < q2) by (eapply Qlt_le_trans; eassumption).
  destruct (round_bin_pos _ _ _ _ _ Hp H1 R1) as (E1 & _ & _). destruct (round_bin_pos _ _ _ _ _ Hp H2 R2) as (E2 & _ & _).
  destruct (scaled_bounds p q1 Hp H1) as (_ & _ & U1). destruct (scaled_bounds p q2 Hp H2) as (_ & L2 & _).
  pose proof (ilog2_mono q1 q2 H1 H12) as Le. rewrite E1, E2.
  destruct (Z.eq_dec (ilog2 q1) (ilog2 q2)) as [Ee|Ne].
  - rewrite Ee. set (sh := (ilog2 q2 - (p - 1))%Z). pose proof (pow2_pos sh) as Psh.
    apply Qmult_le_compat_r; [|apply Qlt_le_weak; exact Psh]. rewrite <- Zle_Qle. apply rhe_mono.
    apply Qmult_le_compat_r; [exact H12|]. apply Qlt_le_weak. apply Qinv_lt_0_compat. exact Psh.
  - eapply Qle_trans; [exact U1|]. eapply Qle_trans; [|exact L2]. apply pow2_le. lia.
Qed.

Lemma round_bin_pos_sign p emin emax q x : (1 <= p)%Z -> 0 < q -> round_bin p emin emax q = Some x -> 0 < x.
Proof.
  intros Hp Hq R. destruct (round_bin_pos _ _ _ _ _ Hp Hq R) as (E & _ & _). destruct (scaled_bounds p q Hp Hq) as (_ & L & _).
  rewrite E. eapply Qlt_le_trans; [apply (pow2_pos (ilog2 q))|exact L].
Qed.

(* ------------------------------------------------------------------ signs *)
Lemma round_bin_zero p emin emax q x : q == 0 -> round_bin p emin emax q = Some x -> x = 0.
Proof. intros H R. unfold round_bin in R. apply Qeq_bool_iff in H. rewrite H in R. congruence. Qed.

Lemma round_bin_neg p emin emax q x : q < 0 -> round_bin p emin emax q = Some x ->
  exists y, round_bin p emin emax (- q) = Some y /\ x == - y.
Proof.
  intros Hq R. unfold round_bin in *.
  destruct (Qeq_bool q 0) eqn:Z0; [apply Qeq_bool_iff in Z0; rewrite Z0 in Hq; discriminate|].
  destruct (Qeq_bool (- q) 0) eqn:Z1; [apply Qeq_bool_iff in Z1; exfalso; lra|].
  rewrite Qabs_opp_eq. set (a := Qabs q) in *. set (e := ilog2 a) in *.
  destruct ((e <? emin)%Z || (emax <? e)%Z); [discriminate|].
  set (r := inject_Z (round_half_even (a / pow2 (e - (p - 1)))) * pow2 (e - (p - 1))) in *.
  destruct (Qle_bool (pow2 (emax + 1)) r); [discriminate|].
  assert (N : Qle_bool 0 q = false).
  { destruct (Qle_bool 0 q) eqn:C; [|reflexivity]. apply Qle_bool_iff in C. exfalso; lra. }
  assert (P : Qle_bool 0 (- q) = true) by (apply Qle_bool_iff; lra).
  rewrite N in R. rewrite P. exists (Qred r). split; [reflexivity|].
  assert (Hx : Qred (- r) = x) by congruence. rewrite <- Hx, !Qred_correct. reflexivity.
Qed.

(** round_bin is monotone wherever it is defined (whole normal range, both signs, zero) *)
Theorem round_bin_monotone p emin emax q1 q2 x1 x2 : (1 <= p)%Z -> q1 <= q2 ->
  round_bin p emin emax q1 = Some x1 -> round_bin p emin emax q2 = Some x2 -> x1 <= x2.
Proof.
  intros Hp H R1 R2.
  destruct (Q_dec q1 0) as [[N1|P1]|Z1]; destruct (Q_dec q2 0) as [[N2|P2]|Z2]; try (exfalso; lra).
  - destruct (round_bin_neg _ _ _ _ _ N1 R1) as (y1 & S1 & E1). destruct (round_bin_neg _ _ _ _ _ N2 R2) as (y2 & S2 & E2).
    assert (y2 <= y1) by (apply (round_bin_mono_pos p emin emax (- q2) (- q1)); try assumption; lra). lra.
  - destruct (round_bin_neg _ _ _ _ _ N1 R1) as (y1 & S1 & E1).
    assert (0 < - q1) by lra. pose proof (round_bin_pos_sign _ _ _ _ _ Hp H0 S1). pose proof (round_bin_pos_sign _ _ _ _ _ Hp P2 R2). lra.
  - destruct (round_bin_neg _ _ _ _ _ N1 R1) as (y1 & S1 & E1).
    assert (0 < - q1) by lra. pose proof (round_bin_pos_sign _ _ _ _ _ Hp H0 S1). rewrite (round_bin_zero _ _ _ _ _ Z2 R2). lra.
  - exact (round_bin_mono_pos p emin emax q1 q2 x1 x2 Hp P1 H R1 R2).
  - rewrite (round_bin_zero _ _ _ _ _ Z1 R1). pose proof (round_bin_pos_sign _ _ _ _ _ Hp P2 R2). lra.
  - rewrite (round_bin_zero _ _ _ _ _ Z1 R1), (round_bin_zero _ _ _ _ _ Z2 R2). lra.
Qed.

(* ------------------------------------------------------------------ idempotence *)
Lemma Qopp_opp_eq q : - - q = q.
Proof. destruct q as [n d]. unfold Qopp. cbn [Qnum Qden]. rewrite Z.opp_involutive. reflexivity. Qed.

Lemma round_bin_opp p emin emax q : 0 < q ->
  round_bin p emin emax (- q) = match round_bin p emin emax q with Some y => Some (- y) | None => None end.
Proof.
  intros Hq. unfold round_bin.
  destruct (Qeq_bool q 0) eqn:Z0; [apply Qeq_bool_iff in Z0; rewrite Z0 in Hq; discriminate|].
  destruct (Qeq_bool (- q) 0) eqn:Z1; [apply Qeq_bool_iff in Z1; exfalso; lra|].
  rewrite Qabs_opp_eq. set (a := Qabs q). set (e := ilog2 a).
  destruct ((e <? emin)%Z || (emax <? e)%Z); [reflexivity|].
  set (r := inject_Z (round_half_even (a / pow2 (e - (p - 1)))) * pow2 (e - (p - 1))).
  destruct (Qle_bool (pow2 (emax + 1)) r); [reflexivity|].
  assert (N : Qle_bool 0 (- q) = false).
  { destruct (Qle_bool 0 (- q)) eqn:C; [|reflexivity]. apply Qle_bool_iff in C. exfalso; lra. }
  assert (P : Qle_bool 0 q = true) by (apply Qle_bool_iff; lra).
  rewrite N, P. rewrite Qred_opp. reflexivity.
Qed.

Lemma round_bin_idem_pos p emin emax q x : (1 <= p)%Z -> 0 < q ->
  round_bin p emin emax q = Some x -> round_bin p emin emax x = Some x.
Proof.
  intros Hp Hq R. pose proof (round_bin_pos_sign _ _ _ _ _ Hp Hq R) as Hx.
  destruct (round_bin_pos _ _ _ _ _ Hp Hq R) as (E & Rg & Ov & EL).
  destruct (scaled_bounds p q Hp Hq) as ((M1 & M2) & L & U).
  set (e := ilog2 q) in *. set (sh := (e - (p - 1))%Z) in *. set (m := round_half_even (q / pow2 sh)) in *.
  pose proof (pow2_pos sh) as Psh.
  assert (E2 : pow2 (e + 1) == inject_Z (2 ^ p) * pow2 sh).
  { rewrite <- (pow2_Z p) by lia. rewrite <- pow2_add. unfold sh. f_equiv. lia. }
  unfold round_bin.
  destruct (Qeq_bool x 0) eqn:Z0; [apply Qeq_bool_iff in Z0; rewrite Z0 in Hx; discriminate|].
  rewrite (Qabs_pos_eq x Hx).
  assert (P : Qle_bool 0 x = true) by (apply Qle_bool_iff; apply Qlt_le_weak; exact Hx). rewrite P.
  destruct (Z.eq_dec m (2 ^ p)) as [Em|Nm].
  - (* the significand reached 2^p: the value is 2^(e+1), one exponent up *)
    assert (Xv : x == pow2 (e + 1)) by (rewrite E, E2, Em; reflexivity).
    assert (Ee : ilog2 x = (e + 1)%Z).
    { apply ilog2_unique; [exact Hx | rewrite Xv; apply Qle_refl |]. rewrite Xv.
      rewrite !pow2_Qpower. apply Qpower_lt_compat_l; [lia | reflexivity]. }
    rewrite Ee. assert (e + 1 < emax + 1)%Z by (apply pow2_lt_inv; rewrite <- Xv; exact Ov).
    destruct ((e + 1 <? emin)%Z || (emax <? e + 1)%Z) eqn:T.
    { apply orb_true_iff in T. destruct T as [T|T]; apply Z.ltb_lt in T; lia. }
    replace (e + 1 - (p - 1))%Z with (sh + 1)%Z by (unfold sh; lia).
    assert (Sv : x / pow2 (sh + 1) == inject_Z (2 ^ (p - 1))).
    { rewrite Xv. rewrite <- (pow2_Z (p - 1)) by lia.
      assert (E3 : pow2 (e + 1) == pow2 (p - 1) * pow2 (sh + 1)) by (rewrite <- pow2_add; unfold sh; f_equiv; lia).
      rewrite E3. field. pose proof (pow2_pos (sh + 1)). lra. }
    rewrite (rhe_comp _ _ Sv), rhe_Z.
    assert (Rv : inject_Z (2 ^ (p - 1)) * pow2 (sh + 1) == x).
    { rewrite Xv. rewrite <- (pow2_Z (p - 1)) by lia. rewrite <- pow2_add. unfold sh. f_equiv. lia. }
    destruct (Qle_bool (pow2 (emax + 1)) _) eqn:O.
    { apply Qle_bool_iff in O. rewrite Rv in O. exfalso. lra. }
    f_equal. rewrite EL. apply Qred_complete. rewrite Rv. exact E.
  - (* same exponent, exact division *)
    assert (Xu : x < pow2 (e + 1)).
    { rewrite E, E2. apply Qmult_lt_compat_r; [exact Psh|]. rewrite <- Zlt_Qlt. lia. }
    assert (Ee : ilog2 x = e) by (apply ilog2_unique; [exact Hx | rewrite E; exact L | exact Xu]).
    rewrite Ee. fold sh.
    destruct ((e <? emin)%Z || (emax <? e)%Z) eqn:T.
    { apply orb_true_iff in T. destruct T as [T|T]; apply Z.ltb_lt in T; lia. }
    assert (Sv : x / pow2 sh == inject_Z m) by (rewrite E; field; lra).
    rewrite (rhe_comp _ _ Sv), rhe_Z.
    destruct (Qle_bool (pow2 (emax + 1)) _) eqn:O.
    { apply Qle_bool_iff in O. rewrite <- E in O. exfalso. lra. }
    f_equal. symmetry. exact EL.
Qed.

(** rounding to a binary format twice is rounding once, wherever the first rounding is defined *)
Theorem round_bin_idempotent p emin emax q x : (1 <= p)%Z ->
  round_bin p emin emax q = Some x -> round_bin p emin emax x = Some x.
Proof.
  intros Hp R. destruct (Q_dec q 0) as [[N|P]|Z].
  - assert (Hq : 0 < - q) by lra. pose proof (round_bin_opp p emin emax (- q) Hq) as O. rewrite Qopp_opp_eq, R in O.
    destruct (round_bin p emin emax (- q)) as [y|] eqn:Ry; [|discriminate]. injection O as ->.
    pose proof (round_bin_idem_pos _ _ _ _ _ Hp Hq Ry) as I.
    pose proof (round_bin_pos_sign _ _ _ _ _ Hp Hq Ry) as Hy.
    rewrite (round_bin_opp p emin emax y Hy), I. reflexivity.
  - exact (round_bin_idem_pos _ _ _ _ _ Hp P R).
  - rewrite (round_bin_zero _ _ _ _ _ Z R). reflexivity.
Qed.

(** the two-step cast float64 -> float32 of the ingestion model, where both steps are defined *)
Theorem store32_monotone q1 q2 :
  (exists a b, f64 q1 = Some a /\ f32 a = Some b) -> (exists a b, f64 q2 = Some a /\ f32 a = Some b) -> q1 <= q2 ->
  store32 q1 <= store32 q2.
Proof.
  intros (a1 & b1 & A1 & B1) (a2 & b2 & A2 & B2) H. unfold store32. rewrite A1, B1, A2, B2.
  apply (round_bin_monotone 24 (-126) 127 a1 a2); try assumption; [lia|].
  apply (round_bin_monotone 53 (-1022) 1023 q1 q2); try assumption; lia.
Qed.

Lemma store32_defined q : pow2 (-126) <= q -> q < pow2 126 -> exists a b, f64 q = Some a /\ f32 a = Some b.
Proof.
  intros L U. assert (Hq : 0 < q) by (eapply Qlt_le_trans; [apply (pow2_pos (-126))|exact L]).
  destruct (round_bin_pos_defined 53 (-1022) 1023 q ltac:(lia) Hq) as [a A].
  { eapply Qle_trans; [|exact L]. apply pow2_le; lia. }
  { eapply Qlt_le_trans; [exact U|]. apply pow2_le; lia. }
  exists a. fold (f64 q) in A.
  (* a stays in [2^-126, 2^126]: monotonicity against the two bounds, which are fixed points *)
  assert (F1 : f64 (pow2 (-126)) = Some (pow2 (-126))) by (vm_compute; reflexivity).
  assert (F2 : f64 (pow2 126) = Some (pow2 126)) by (vm_compute; reflexivity).
  assert (La : pow2 (-126) <= a) by (apply (round_bin_monotone 53 (-1022) 1023 _ _ _ _ ltac:(lia) L F1 A)).
  assert (Ua : a <= pow2 126) by (apply (round_bin_monotone 53 (-1022) 1023 _ _ _ _ ltac:(lia) (Qlt_le_weak _ _ U) A F2)).
  assert (Ha : 0 < a) by (eapply Qlt_le_trans; [apply (pow2_pos (-126))|exact La]).
  destruct (round_bin_pos_defined 24 (-126) 127 a ltac:(lia) Ha La) as [b B].
  { eapply Qle_lt_trans; [exact Ua|]. rewrite !pow2_Qpower. apply Qpower_lt_compat_l; [lia | reflexivity]. }
  exists b. split; [exact A | exact B].
Qed.

(** C14 finding F9b, for EVERY pair of ages: whatever the two ages a <= b in [70, 70.000003], the ingestion model's
    float32 store maps both to the single age 70 (the witness of C14_roundtrip_collision_refuted is one such pair). *)
Theorem store32_collision_interval a b : 70 <= a -> a <= b -> b <= 70000003 # 1000000 ->
  store32 a == 70 /\ store32 b == 70.
Proof.
  intros H1 H2 H3.
  assert (D0 : exists x y, f64 70 = Some x /\ f32 x = Some y)
    by (eexists; eexists; split; [vm_compute; reflexivity | vm_compute; reflexivity]).
  assert (D1 : exists x y, f64 (70000003 # 1000000) = Some x /\ f32 x = Some y)
    by (eexists; eexists; split; [vm_compute; reflexivity | vm_compute; reflexivity]).
  assert (V0 : store32 70 = 70) by (vm_compute; reflexivity).
  assert (V1 : store32 (70000003 # 1000000) = 70) by (vm_compute; reflexivity).
  assert (R : forall q, 70 <= q -> q <= 70000003 # 1000000 -> store32 q == 70).
  { intros q L U.
    assert (D : exists x y, f64 q = Some x /\ f32 x = Some y).
    { apply store32_defined.
      - eapply Qle_trans; [|exact L]. vm_compute. discriminate.
      - eapply Qle_lt_trans; [exact U|]. vm_compute. reflexivity. }
    pose proof (store32_monotone 70 q D0 D L) as Lo. pose proof (store32_monotone q _ D D1 U) as Hi.
    rewrite V0 in Lo. rewrite V1 in Hi. apply Qle_antisym; assumption. }
  split; apply R; lra.
Qed.

(** Non-vacuity, by computation: the hypotheses are met by values that are not binary32 numbers, on both sides of zero, and
    by the two ages of the C14 witness [w_collision] (70.000001 and 70.000003). *)
Example round_bin_examples :
  f32 (1 # 3) = Some (11184811 # 33554432) /\ f32 (11184811 # 33554432) = Some (11184811 # 33554432) /\
  f32 (- (1 # 3)) = Some (- (11184811 # 33554432)) /\
  f32 (33554431 # 2) = Some (16777216 # 1) /\ f32 (16777216 # 1) = Some (16777216 # 1) /\
  (exists a b, f64 (70000001 # 1000000) = Some a /\ f32 a = Some b) /\
  70 <= 70000001 # 1000000 /\ 70000001 # 1000000 <= 70000003 # 1000000 /\
  store32 (70000004 # 1000000) = 9175041 # 131072 /\ ~ 9175041 # 131072 == 70.
Proof.
  split; [vm_compute; reflexivity|]. split; [vm_compute; reflexivity|]. split; [vm_compute; reflexivity|].
  split; [vm_compute; reflexivity|]. split; [vm_compute; reflexivity|].
  split; [eexists; eexists; split; [vm_compute; reflexivity | vm_compute; reflexivity]|].
  split; [vm_compute; discriminate|]. split; [vm_compute; discriminate|]. split; [vm_compute; reflexivity|]. vm_compute. discriminate.
Qed.
