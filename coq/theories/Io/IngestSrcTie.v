(** C14 — T1: the decision table regenerated from the readers' source IS the table the hand-written model implements
    (same checks, same order, same operators / quantifiers / aggregates / constants / exception classes).
    Decided by Coq on every run: [gen_readers] changes whenever the source does. *)
From Coq Require Import ZArith QArith List String.
From Leaspy Require Import Io.Ingest Io.IngestSrc.
From LeaspyGen Require Import GenC14.
Import ListNotations.

Lemma gen_readers_is_model : gen_readers = model_readers.
Proof. reflexivity. Qed.
