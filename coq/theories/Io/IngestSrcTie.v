(** C14 — T1: the decision table regenerated from the readers' source IS the table the hand-written model implements
    (same checks, same order, same operators / quantifiers / aggregates / constants / exception classes), hence running the
    regenerated table is running [Ingest.ingest]; the rejection theorems restated over the regenerated table.
    Decided by Coq on every run: [gen_readers] changes whenever the source does. *)
From Coq Require Import ZArith QArith List Bool String Permutation.
From Leaspy Require Import Base.QAux Io.Ingest Io.F32 Io.IngestProofs Io.IngestExamples Io.IngestSrc Io.IngestSrcProofs.
From LeaspyGen Require Import GenC14.
Import ListNotations.
Open Scope Z_scope.

Lemma gen_readers_is_model : gen_readers = model_readers.
Proof. reflexivity. Qed.

Lemma gen_ingest_data_is_model st t : src_ingest_data gen_readers st t = ingest_data (P_of gen_readers st) t.
Proof. rewrite gen_readers_is_model. apply src_ingest_data_model. Qed.

Lemma gen_ingest_is_model st t : src_ingest gen_readers st t = ingest (P_of gen_readers st) t.
Proof. rewrite gen_readers_is_model. apply src_ingest_model. Qed.

Lemma gen_scale_pos st : 0 < scale (P_of gen_readers st).
Proof. reflexivity. Qed.

Lemma gen_rejects_front st t : malformed_front (P_of gen_readers st) t -> src_ingest gen_readers st t = Err DataError.
Proof. intros H. rewrite gen_ingest_is_model. now apply rejects_front. Qed.

Lemma gen_rejects_inconsistent st t : inconsistent (P_of gen_readers st) t -> forall d, src_ingest gen_readers st t <> Ok d.
Proof. intros H d. rewrite gen_ingest_is_model. now apply rejects_inconsistent. Qed.

Lemma gen_rejects_event_before_any_age st t xs0 xs nb x y q :
  let P := P_of gen_readers st in
  t_layout t = LJoint ->
  clean_index P t = Ok xs0 -> clean_numeric t xs0 = Ok xs -> clean_visits t xs = Ok tt ->
  clean_events P t (match t_idkind t with
                    | KCategorical => existsb (fun i => negb (existsb (ident_eqb i) (ids_of xs))) (ids_of xs0)
                    | _ => false end) xs = Ok nb ->
  (forall z, In z xs -> 0 <= evb_z z) ->
  In x xs -> In y xs -> x_id y = x_id x -> x_evt x = Fin q -> 0 < evb_z x ->
  (micro P (round_time P q) - micro P (x_time y) < - tol P)%Q ->
  src_ingest gen_readers st t = Err DataError.
Proof.
  intros P EL H1 H2 H3 H4 Hnn Hx Hy Eid Eq Hobs Hlt. rewrite gen_ingest_is_model.
  exact (ingest_rejects_event_before_any_age P t xs0 xs nb x y q (gen_scale_pos st) EL H1 H2 H3 H4 Hnn Hx Hy Eid Eq Hobs Hlt).
Qed.

(** ... whatever the row order: the hypotheses only speak of membership *)
Lemma gen_row_order_invariant_data st t rows' inds inds' :
  Permutation (t_rows t) rows' ->
  src_ingest_data gen_readers st t = Ok inds -> src_ingest_data gen_readers st (with_rows t rows') = Ok inds' -> Permutation inds inds'.
Proof.
  intros Hp. rewrite !gen_ingest_data_is_model. intros H H'.
  exact (proj1 (ingest_data_perm _ t rows' inds inds' Hp H H')).
Qed.

(* ------------------------------------------------------------------ non-vacuity: the regenerated table, executed *)
(** individual b: visits at 71 then 70 (the LAST row of b is its EARLIEST age), observed event at 70.5: after the last row's
    age, before the maximal age *)
Definition w_before_max : table := jtable [jrow "b" 71 (Fin 1) (141#2) 1; jrow "a" 70 NaN 72 0; jrow "b" 70 (Fin 2) (141#2) 1].
Definition w_before_max_censored : table := jtable [jrow "b" 71 (Fin 1) (141#2) 0; jrow "a" 70 NaN 72 1; jrow "b" 70 (Fin 2) (141#2) 0].

Example ex_gen_before_max_refused : src_ingest gen_readers store32 w_before_max = Err DataError.
Proof. vm_compute. reflexivity. Qed.
Example ex_gen_before_max_censored_accepted : exists d, src_ingest gen_readers store32 w_before_max_censored = Ok d.
Proof. eexists. vm_compute. reflexivity. Qed.
Example ex_gen_accepted : exists d, src_ingest gen_readers store32 (jtable [jrow "b" 71 (Fin 1) 75 1; jrow "a" 70 NaN 72 0; jrow "b" 70 (Fin 2) 75 1]) = Ok d
  /\ d_event d = Some ([[75000000%Z]; [72000000%Z]], [[true]; [false]]).
Proof. eexists. vm_compute. repeat split. Qed.

(** the hypotheses of [gen_rejects_event_before_any_age] hold of [w_before_max] (x = its last row, y = its first row) *)
Example ex_gen_before_max_hypotheses :
  let P := P_of gen_readers store32 in
  exists xs0 xs nb x y q,
    clean_index P w_before_max = Ok xs0 /\ clean_numeric w_before_max xs0 = Ok xs /\ clean_visits w_before_max xs = Ok tt /\
    clean_events P w_before_max false xs = Ok nb /\ (forall z, In z xs -> 0 <= evb_z z) /\
    nth_error xs 2 = Some x /\ nth_error xs 0 = Some y /\ x_id y = x_id x /\ x_evt x = Fin q /\ 0 < evb_z x /\
    (micro P (round_time P q) - micro P (x_time y) < - tol P)%Q.
Proof.
  cbv zeta. do 6 eexists.
  split; [vm_compute; reflexivity|]. split; [vm_compute; reflexivity|]. split; [vm_compute; reflexivity|].
  split; [vm_compute; reflexivity|].
  split; [intros z [<-|[<-|[<-|[]]]]; vm_compute; discriminate|].
  split; [reflexivity|]. split; [reflexivity|]. split; [reflexivity|]. split; [reflexivity|]. split; [reflexivity|].
  vm_compute. reflexivity.
Qed.
