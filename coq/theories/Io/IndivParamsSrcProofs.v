(** C16 — the source-level interpreter (Io/IndivParamsSrc.v) on the reference tables IS the hand-written model
    (Io/IndivParams.v); and what a table must satisfy for that.  The regenerated tables are compared with the reference
    ones in IndivParamsSrcTie.v. *)
From Coq Require Import List String Ascii Bool Arith QArith Lia.
From Leaspy Require Import Io.IndivParams Io.IndivParamsProofs Io.IndivParamsSrc.
Import ListNotations.
Open Scope string_scope.

(* ------------------------------------------------------------------------------------------ the type test *)

Lemma ref_types_same : same_types ref_types.
Proof. split; [reflexivity | intros ty; reflexivity]. Qed.

Lemma atom_type_valid a : type_passes ExactType ref_type_list (atom_type a) = atom_valid a.
Proof. destruct a as [k q| | | | |]; try reflexivity. destruct k; reflexivity. Qed.

(** a table that accepts the same types gives the model's test, value by value *)
Lemma src_type_ok_model tt v : same_types tt -> src_type_ok tt v = type_ok v.
Proof.
  intros [Hl Ht]. destruct v as [a|l|i q|i l|n]; simpl.
  - rewrite Ht. apply atom_type_valid.
  - destruct l as [|a r]; [reflexivity|]. rewrite Hl, Ht. apply atom_type_valid.
  - rewrite Ht. reflexivity.
  - rewrite Ht. reflexivity.
  - rewrite Ht. reflexivity.
Qed.

(** [bool] is refused although it derives from [int] — and an [isinstance] test would accept it *)
Lemma bool_refused tt : same_types tt -> src_type_ok tt (VAtom ABool) = false /\ src_type_ok tt (VList [ABool]) = false.
Proof. intros H. rewrite !(src_type_ok_model _ _ H). split; reflexivity. Qed.


Lemma isinstance_not_same r : ~ same_types (mkTT IsInstance ref_type_list r).
Proof. intros [_ H]. specialize (H TyBool). discriminate H. Qed.

Lemma forallb_ext' {A} (f g : A -> bool) l : (forall a, f a = g a) -> forallb f l = forallb g l.
Proof. intros H. induction l as [|a r IH]; simpl; [reflexivity|]. now rewrite H, IH. Qed.

(* ------------------------------------------------------------------------------------------ add *)

(** The reference program, step by step, gives the hand-written [add]; a rejection leaves the object untouched because every
    [raise] of the program comes before its first assignment to an attribute. *)
Lemma src_add_ref_cases tt c id arg : same_types tt ->
  match add c id arg with
  | Added c' => keys_agree c -> src_add tt ref_add c id arg = SAdded c'
  | Rejected e => src_add tt ref_add c id arg = SRaised e c
  | AcceptedOutsideModel => src_add tt ref_add c id arg = SOutside
  end.
Proof.
  intros Htt. unfold src_add, ref_add, add.
  destruct id as [s|]; [|reflexivity]. cbn [src_run src_step ids_of].
  destruct (mem_str s (indices c)) eqn:Hm; [reflexivity|].
  destruct arg as [d0|]; [|reflexivity]. cbn [src_run src_step l_arg l_psh exc_err].
  rewrite (forallb_ext' (fun kv : string * pyval => src_type_ok tt (snd kv)) (fun kv => type_ok (snd kv)))
    by (intros; apply src_type_ok_model; exact Htt).
  destruct (forallb (fun kv : string * pyval => type_ok (snd kv)) (map (fun kv => (fst kv, tolist (snd kv))) d0)) eqn:Hty;
    [|reflexivity].
  cbn [negb src_run src_step l_arg l_psh exc_err].
  destruct c as [ix ps sho]. cbn [shapes indices params] in *.
  destruct sho as [sh|]; cbn [src_run src_step l_arg l_psh exc_err shapes indices params].
  - destruct (shapes_eqb sh _) eqn:Hs; [|reflexivity]. cbn [negb src_run src_step l_arg l_psh shapes indices params].
    destruct (store_all _) as [e|]; [|reflexivity].
    unfold keys_agree; cbn [indices params]. intros Hk.
    rewrite assoc_set_absent; [reflexivity|]. rewrite <- Hk. apply mem_str_false. exact Hm.
  - destruct (store_all _) as [e|]; [|reflexivity].
    unfold keys_agree; cbn [indices params]. intros Hk.
    rewrite assoc_set_absent; [reflexivity|]. rewrite <- Hk. apply mem_str_false. exact Hm.
Qed.

Lemma src_add_ref tt c id arg : same_types tt -> keys_agree c ->
  src_add tt ref_add c id arg = lift_add c (add c id arg).
Proof.
  intros Htt Hk. pose proof (src_add_ref_cases tt c id arg Htt) as H.
  destruct (add c id arg); simpl; auto.
Qed.

Lemma src_add_ref_rejected tt c id arg e : same_types tt ->
  add c id arg = Rejected e -> src_add tt ref_add c id arg = SRaised e c.
Proof. intros Htt Ha. pose proof (src_add_ref_cases tt c id arg Htt) as H. now rewrite Ha in H. Qed.

(** the rejection theorem of the model, for the source-level program: the exception is the input error AND the three
    attributes are what they were *)
Theorem src_add_rejects tt c id arg : same_types tt ->
  id = IdNotStr
  \/ (exists s, id = IdStr s /\ In s (indices c))
  \/ arg = ArgNotDict
  \/ (exists d, arg = ArgDict d /\
        (Exists (fun kv => head_unsupported (snd kv)) d
         \/ exists sh, shapes c = Some sh /\ shapes_eqb sh (pshapes d) = false)) ->
  src_add tt ref_add c id arg = SRaised InputError c.
Proof.
  intros Htt H. apply src_add_ref_rejected; [exact Htt|]. apply (add_rejects c id arg H).
Qed.

Theorem src_add_accepts tt c s d : same_types tt -> keys_agree c ->
  ~ In s (indices c) ->
  Forall (fun kv => fully_supported (snd kv) = true) d ->
  (forall sh, shapes c = Some sh -> shapes_eqb sh (pshapes d) = true) ->
  exists e, store_all (map (fun kv => (fst kv, tolist (snd kv))) d) = Some e
    /\ entry_shapes e = pshapes d /\ map fst e = map fst d
    /\ src_add tt ref_add c (IdStr s) (ArgDict d) =
       SAdded (mkC (indices c ++ [s]) (params c ++ [(s, e)])
                   (Some (match shapes c with None => pshapes d | Some sh => sh end))).
Proof.
  intros Htt Hk Hs Hd Hsh. destruct (add_accepts c s d Hs Hd Hsh) as [e [H1 [H2 [H3 H4]]]].
  exists e. repeat split; try assumption. rewrite (src_add_ref tt c _ _ Htt Hk), H4. reflexivity.
Qed.

(** the hypothesis [keys_agree] is an invariant of additions *)
Lemma add_keys_agree c id arg c' : keys_agree c -> add c id arg = Added c' -> keys_agree c'.
Proof.
  unfold add, keys_agree. intros Hk. destruct id as [s|]; [|discriminate]. destruct (mem_str s (indices c)); [discriminate|].
  destruct arg as [d|]; [|discriminate]. destruct (negb (forallb _ _)); [discriminate|]. cbv zeta.
  destruct (negb _); [discriminate|]. destruct (store_all _); [|discriminate].
  intros H. injection H as <-. cbn [indices params]. rewrite map_app, Hk. reflexivity.
Qed.

(** sequences of additions: the source-level program run over a list of calls is [add_all] *)
Lemma src_add_all_ref tt l : same_types tt -> forall c, keys_agree c -> src_add_all tt ref_add c l = add_all c l.
Proof.
  intros Htt. induction l as [|[i a] r IH]; intros c Hk; [reflexivity|]. cbn [src_add_all add_all].
  rewrite (src_add_ref tt c i a Htt Hk). destruct (add c i a) eqn:Ha; cbn [lift_add]; try reflexivity.
  apply IH. eapply add_keys_agree; eauto.
Qed.

(** bool values, whatever else the call says *)
Theorem src_add_bool_rejected tt c id k d1 d2 : same_types tt ->
  src_add tt ref_add c id (ArgDict (d1 ++ (k, VAtom ABool) :: d2)) = SRaised InputError c.
Proof.
  intros Htt. apply src_add_rejects; [exact Htt|]. right; right; right. eexists; split; [reflexivity|]. left.
  apply Exists_exists. exists (k, VAtom ABool). split; [apply in_elt | reflexivity].
Qed.

(** order of the steps, where it matters: the same steps with the insertion BEFORE the duplicate test refuse every addition
    and leave the identifier behind *)
Definition dup_after_insert : list astep :=
  [AChkIdStr ExcInput; AChkIsDict ExcInput; AToList; AChkTypes ExcInput; AShapes; AChkShapes ExcInput;
   APushIndex; AChkIdFresh SrcIndices ExcInput; AStoreEntry].

Lemma dup_after_insert_refuses_all :
  src_add ref_types dup_after_insert empty (IdStr "a") (ArgDict [("xi", VAtom (ANum KFloat 1))])
  = SRaised InputError (mkC ["a"] [] (Some [("xi", [])])).
Proof. reflexivity. Qed.

(* ------------------------------------------------------------------------------------------ labels *)

Lemma src_col_names_ref ps : src_col_names ref_col_rule ps = col_names ps.
Proof. destruct ps as [p s]. reflexivity. Qed.

Lemma before_first_underscore s : before_first "_" s = before_underscore s.
Proof. induction s as [|c r IH]; simpl; [reflexivity|]. now rewrite IH. Qed.

Lemma src_group_cols_ref names : forall acc, src_group_cols ref_split_rule names acc = group_cols names acc.
Proof.
  induction names as [|n r IH]; intros acc; [reflexivity|].
  cbn [src_group_cols group_cols]. change (src_group_key ref_split_rule n) with (before_first "_" n).
  rewrite before_first_underscore.
  destruct (String.eqb (before_underscore n) n); [apply IH|].
  destruct (lookup (before_underscore n) acc) as [[col|l]|]; [reflexivity | apply IH | apply IH].
Qed.

(** the two cuts differ exactly on names with two separators: [rsplit] is NOT the model's rule *)
Lemma rsplit_differs : src_group_key (RSplitLast "_") "w_0_1" = "w_0" /\ src_group_key (SplitFirst "_") "w_0_1" = "w".
Proof. split; reflexivity. Qed.

Lemma mapM_ext {A B} (f g : A -> res B) l : (forall a, f a = g a) -> mapM f l = mapM g l.
Proof. intros H. induction l as [|a r IH]; simpl; [reflexivity|]. now rewrite H, IH. Qed.

Lemma src_to_dataframe_ref c : src_to_dataframe SrcIndices ref_col_rule c = to_dataframe c.
Proof.
  unfold src_to_dataframe, to_dataframe. destruct (shapes c) as [sh|]; [|reflexivity].
  unfold iter_ids; cbn [ids_of bind].
  rewrite (mapM_ext (src_col_names ref_col_rule) col_names) by apply src_col_names_ref. reflexivity.
Qed.

(** a loop of additions started on a container with [keys_agree]: the source-level program and the model agree all along *)
Definition ok_keys (a : res container) : Prop := match a with Ok c => keys_agree c | Err _ => True end.

Lemma fold_adds_ref {X} tt (args : X -> res (pyid * pyarg)) (l : list X) : same_types tt -> forall acc, ok_keys acc ->
  fold_left (fun acc x => do c <- acc; do ia <- args x; src_outcome (src_add tt ref_add c (fst ia) (snd ia))) l acc
  = fold_left (fun acc x => do c <- acc; do ia <- args x;
                 match add c (fst ia) (snd ia) with Added c' => Ok c' | Rejected e => Err e | AcceptedOutsideModel => Err Unmodelled end) l acc.
Proof.
  intros Htt. induction l as [|x r IH]; intros acc Hk; [reflexivity|]. cbn [fold_left].
  assert (E : (do c <- acc; do ia <- args x; src_outcome (src_add tt ref_add c (fst ia) (snd ia)))
              = (do c <- acc; do ia <- args x;
                 match add c (fst ia) (snd ia) with Added c' => Ok c' | Rejected e => Err e | AcceptedOutsideModel => Err Unmodelled end)).
  { destruct acc as [c|e]; [|reflexivity]. cbn [bind]. destruct (args x) as [ia|e]; [|reflexivity]. cbn [bind].
    rewrite (src_add_ref tt c _ _ Htt Hk). destruct (add c (fst ia) (snd ia)); reflexivity. }
  rewrite E. apply IH.
  destruct acc as [c|e]; [|exact I]. cbn [bind]. destruct (args x) as [ia|e]; [|exact I]. cbn [bind].
  destruct (add c (fst ia) (snd ia)) eqn:Ha; try exact I. cbn [ok_keys]. eapply add_keys_agree; eauto.
Qed.

Lemma fold_left_ext {A B} (f g : A -> B -> A) l : (forall a b, f a b = g a b) -> forall a, fold_left f l a = fold_left g l a.
Proof. intros H. induction l as [|x r IH]; intros a; [reflexivity|]. cbn. now rewrite H, IH. Qed.

Lemma src_from_dataframe_ref tt t : same_types tt -> src_from_dataframe tt ref_add ref_split_rule t = from_dataframe t.
Proof.
  intros Htt. unfold src_from_dataframe, from_dataframe. rewrite src_group_cols_ref.
  destruct (negb _); [reflexivity|]. destruct (group_cols (cols t) []) as [groups|e]; [|reflexivity]. cbn [bind].
  pose (args := fun row : pyid * list Q =>
          do d <- mapM (fun g : string * colspec => do v <- row_value (cols t) (snd row) (snd g); Ok (fst g, v)) groups;
          Ok (fst row, ArgDict d)).
  pose proof (fold_adds_ref tt args (rows t) Htt (Ok empty) eq_refl) as H.
  etransitivity; [|etransitivity; [exact H|]]; apply fold_left_ext; intros acc row; unfold args;
    destruct acc as [c|e]; try reflexivity; cbn [bind]; destruct (mapM _ groups); reflexivity.
Qed.

Lemma src_from_pytorch_ref tt ids d : same_types tt -> src_from_pytorch tt ref_add ids d = from_pytorch ids d.
Proof.
  intros Htt. unfold src_from_pytorch, from_pytorch. destruct (negb _); [reflexivity|].
  pose (args := fun ii : nat * pyid =>
          do pd <- mapM (fun kt : string * tensor => do v <- tensor_row (snd kt) (fst ii); Ok (fst kt, v)) d;
          Ok (snd ii, ArgDict pd)).
  pose proof (fold_adds_ref tt args (combine (seq 0 (List.length ids)) ids) Htt (Ok empty) eq_refl) as H.
  etransitivity; [|etransitivity; [exact H|]]; apply fold_left_ext; intros acc ii; unfold args;
    destruct acc as [c|e]; try reflexivity; cbn [bind]; destruct (mapM _ d); reflexivity.
Qed.

(* ------------------------------------------------------------------------------------------ iteration sources *)

Lemma src_to_pytorch_ref rnd c : src_to_pytorch rnd ref_torch_iter c = to_pytorch rnd c.
Proof.
  unfold src_to_pytorch, to_pytorch. destruct (shapes c) as [sh|]; [|reflexivity].
  unfold iter_ids, ref_torch_iter; cbn [ids_of bind ti_rows_from ti_ids_from].
  destruct (mapM _ sh); reflexivity.
Qed.

(** iterating the dict instead of the list is the same thing only while the dict was filled in the order of the list *)
Lemma src_to_pytorch_dict_order rnd c : keys_agree c ->
  src_to_pytorch rnd (mkTI SrcParamKeys SrcIndices) c = to_pytorch rnd c.
Proof.
  intros Hk. unfold src_to_pytorch, to_pytorch. destruct (shapes c) as [sh|]; [|reflexivity].
  unfold iter_ids; cbn [ids_of bind ti_rows_from ti_ids_from]. rewrite <- Hk.
  destruct (mapM _ sh); reflexivity.
Qed.

Lemma dict_order_differs :
  let c := mkC ["b"; "a"] [("a", [("xi", Vec [(KFloat, 1)])]); ("b", [("xi", Vec [(KFloat, 2)])])] (Some [("xi", [1%nat])]) in
  src_to_pytorch (fun q => q) (mkTI SrcParamKeys SrcIndices) c = Ok (["b"; "a"], [("xi", [[1]; [2]])])
  /\ to_pytorch (fun q => q) c = Ok (["b"; "a"], [("xi", [[2]; [1]])]).
Proof. split; reflexivity. Qed.

Lemma src_subset_ref tt c ids : same_types tt -> src_subset tt ref_add ref_subset_rule c ids = subset c ids.
Proof.
  intros Htt. unfold src_subset, subset, ref_subset_rule; cbn [ids_of sub_member sub_read sub_via_add].
  destruct (negb _); [reflexivity|]. apply src_add_all_ref; [exact Htt | reflexivity].
Qed.

(* ------------------------------------------------------------------------------------------ json *)

(** what [_load_json] reads is what [_save_json] wrote: the three attributes, under the same member names *)
Lemma src_json_ref c :
  match to_json c with
  | Ok j => exists file, src_save_json ref_json_members c = Ok file
                         /\ src_load_json ref_json_fill file empty = Ok (from_json j)
  | Err e => src_save_json ref_json_members c = Err e
  end.
Proof.
  unfold to_json, src_save_json. destruct (shapes c) as [sh|]; [|reflexivity].
  destruct (json_serialisable c); [|reflexivity].
  eexists. split; [reflexivity|]. reflexivity.
Qed.

(** every attribute is assigned by the reader — in particular the one the duplicate test of [add] looks at *)
Lemma ref_fill_complete : forall f, filled ref_json_fill f = true.
Proof. intros []; reflexivity. Qed.

(* ------------------------------------------------------------------------------------------ save target, csv *)

Lemma src_save_target_ref c path : src_save_target ref_save_rule c path = save_target c path.
Proof.
  unfold src_save_target, save_target. destruct (shapes c); [|reflexivity].
  destruct (get_extension path) as [e|]; reflexivity.
Qed.

Lemma src_csv_roundtrip_ref tt c : same_types tt ->
  src_csv_roundtrip tt ref_add SrcIndices ref_col_rule ref_split_rule c = csv_roundtrip c.
Proof.
  intros Htt. unfold src_csv_roundtrip, csv_roundtrip. destruct (shapes c); [|reflexivity].
  rewrite src_to_dataframe_ref. destruct (to_dataframe c) as [t|e]; [|reflexivity]. cbn [bind].
  destruct (csv_reread t) as [t'|e]; [|reflexivity]. cbn [bind]. apply src_from_dataframe_ref. exact Htt.
Qed.
