(** C14 — proofs about the ingestion model of Io/Ingest.v. *)
From Coq Require Import ZArith QArith Qround Qabs List Bool String Ascii Lia Permutation Sorted.
From Leaspy Require Import Base.QAux Io.Ingest.
Import ListNotations.
Open Scope Z_scope.

(* ------------------------------------------------------------------ small tools *)
Ltac inv_bind H :=
  repeat match type of H with
  | bind ?r _ = Ok _ => let E := fresh "E" in destruct r eqn:E; simpl in H; [| discriminate H]
  | context [bind ?r _] => unfold bind in H
  end.

Lemma bind_ok {A B} (r : result A) (f : A -> result B) b :
  bind r f = Ok b -> exists a, r = Ok a /\ f a = Ok b.
Proof. destruct r; simpl; [eauto | discriminate]. Qed.

Lemma bind_err_l {A B} (r : result A) (f : A -> result B) e : r = Err e -> bind r f = Err e.
Proof. intros ->. reflexivity. Qed.

Lemma refuse_if_ok b : refuse_if b = Ok tt -> b = false.
Proof. destruct b; simpl; [discriminate | reflexivity]. Qed.
Lemma refuse_if_ok' b u : refuse_if b = Ok u -> b = false.
Proof. destruct b; simpl; [discriminate | reflexivity]. Qed.

Lemma ident_eqb_eq a b : ident_eqb a b = true <-> a = b.
Proof.
  destruct a, b; simpl; split; intros H; try discriminate.
  - apply String.eqb_eq in H. now subst.
  - inversion H. apply String.eqb_refl.
  - apply Z.eqb_eq in H. now subst.
  - inversion H. apply Z.eqb_refl.
Qed.
Lemma ident_eqb_refl a : ident_eqb a a = true.
Proof. now apply ident_eqb_eq. Qed.
Lemma ident_eqb_neq a b : ident_eqb a b = false <-> a <> b.
Proof.
  split.
  - intros H E. apply ident_eqb_eq in E. congruence.
  - intros H. destruct (ident_eqb a b) eqn:E; [|reflexivity]. apply ident_eqb_eq in E. contradiction.
Qed.
Lemma ident_eqb_sym a b : ident_eqb a b = ident_eqb b a.
Proof.
  destruct (ident_eqb a b) eqn:E.
  - apply ident_eqb_eq in E. subst. symmetry. apply ident_eqb_refl.
  - symmetry. apply ident_eqb_neq. apply ident_eqb_neq in E. congruence.
Qed.
Lemma ident_eq_dec (a b : ident) : {a = b} + {a <> b}.
Proof. destruct (ident_eqb a b) eqn:E; [left; now apply ident_eqb_eq | right; now apply ident_eqb_neq]. Qed.

Lemma mapM_Forall2 {A B} (f : A -> result B) l r :
  mapM f l = Ok r -> Forall2 (fun a b => f a = Ok b) l r.
Proof.
  revert r. induction l as [|a l IH]; simpl; intros r H.
  - inversion H. constructor.
  - apply bind_ok in H. destruct H as [b [Hb H]]. apply bind_ok in H. destruct H as [bs [Hbs H]].
    inversion H. subst. constructor; auto.
Qed.
Lemma Forall2_mapM {A B} (f : A -> result B) l r :
  Forall2 (fun a b => f a = Ok b) l r -> mapM f l = Ok r.
Proof. induction 1; simpl; [reflexivity|]. rewrite H. simpl. rewrite IHForall2. reflexivity. Qed.
Lemma mapM_ext {A B} (f g : A -> result B) l : (forall a, In a l -> f a = g a) -> mapM f l = mapM g l.
Proof.
  induction l as [|a l IH]; simpl; intros H; [reflexivity|].
  rewrite (H a) by auto. rewrite IH by auto. reflexivity.
Qed.
Lemma mapM_map {A B} (f : A -> B) l : mapM (fun a => Ok (f a)) l = Ok (map f l).
Proof. induction l; simpl; [reflexivity|]. rewrite IHl. reflexivity. Qed.

(* ------------------------------------------------------------------ sorted insertion *)
Definition ages (l : list visit) : list Z := map fst l.
Definition ssorted (l : list visit) : Prop := StronglySorted Z.lt (ages l).

Lemma insert_visit_perm v l : Permutation (insert_visit v l) (v :: l).
Proof.
  induction l as [|w r IH]; simpl; [reflexivity|].
  destruct (fst v <? fst w); [reflexivity|].
  rewrite IH. apply perm_swap.
Qed.

Lemma insert_visit_sorted v l :
  ssorted l -> ~ In (fst v) (ages l) -> ssorted (insert_visit v l).
Proof.
  unfold ssorted, ages. induction l as [|w r IH]; simpl; intros Hs Hn.
  - constructor; constructor.
  - inversion Hs as [|? ? Hr Hall]; subst.
    destruct (fst v <? fst w) eqn:E; simpl.
    + apply Z.ltb_lt in E. constructor; [exact Hs|]. constructor; [exact E|].
      eapply Forall_impl; [|exact Hall]. intros; lia.
    + apply Z.ltb_ge in E. constructor.
      * apply IH; [exact Hr | tauto].
      * assert (Hp := insert_visit_perm v r).
        apply Forall_forall. intros x Hx.
        apply (Permutation_in _ (Permutation_map fst Hp)) in Hx. simpl in Hx.
        destruct Hx as [<- | Hx]; [ assert (fst w <> fst v) by tauto; lia |].
        rewrite Forall_forall in Hall. now apply Hall.
Qed.

Lemma existsb_eqb_In z l : existsb (Z.eqb z) l = true <-> In z l.
Proof.
  rewrite existsb_exists. split.
  - intros [x [Hx E]]. apply Z.eqb_eq in E. now subst.
  - intros H. exists z. split; [exact H | apply Z.eqb_refl].
Qed.

Lemma add_observation_spec acc v r :
  add_observation acc v = Ok r -> ssorted acc ->
  ssorted r /\ Permutation r (v :: acc) /\ ~ In (fst v) (ages acc).
Proof.
  unfold add_observation. destruct acc as [|w a].
  - intros H _. inversion H. subst. repeat split; [constructor; constructor | reflexivity | auto].
  - destruct (existsb (Z.eqb (fst v)) (map fst (w :: a))) eqn:E; [discriminate|].
    intros H Hs. assert (Hr : r = insert_visit v (w :: a)) by congruence. clear H. subst r.
    assert (Hn : ~ In (fst v) (ages (w :: a))).
    { intros C. apply existsb_eqb_In in C. unfold ages in C. congruence. }
    repeat split; [now apply insert_visit_sorted | apply insert_visit_perm | exact Hn].
Qed.

Lemma add_observations_spec vs : forall acc r,
  add_observations acc vs = Ok r -> ssorted acc ->
  ssorted r /\ Permutation r (acc ++ vs) /\ NoDup (ages vs) /\ (forall z, In z (ages vs) -> ~ In z (ages acc)).
Proof.
  induction vs as [|v vs IH]; simpl; intros acc r H Hs.
  - inversion H; subst. rewrite app_nil_r. repeat split; [exact Hs | reflexivity | constructor | intros ? []].
  - apply bind_ok in H. destruct H as [acc' [H1 H2]].
    destruct (add_observation_spec _ _ _ H1 Hs) as [Hs' [Hp Hn]].
    destruct (IH _ _ H2 Hs') as [Hr [Hpr [Hnd Hdis]]].
    assert (Hages : forall z, In z (ages acc') <-> z = fst v \/ In z (ages acc)).
    { intros z. unfold ages. split; intros Hz.
      - apply (Permutation_in _ (Permutation_map fst Hp)) in Hz. simpl in Hz. intuition.
      - apply (Permutation_in _ (Permutation_sym (Permutation_map fst Hp))). simpl. intuition. }
    repeat split.
    + exact Hr.
    + rewrite Hpr. rewrite Hp. simpl. apply Permutation_middle.
    + constructor; [|exact Hnd]. intros C. apply (Hdis _ C). apply Hages. now left.
    + intros z [<- | Hz]; [exact Hn|]. intros C. apply (Hdis _ Hz). apply Hages. now right.
Qed.

(** conversely: distinct ages are always accepted *)
Lemma add_observations_total vs : forall acc,
  NoDup (ages vs) -> (forall z, In z (ages vs) -> ~ In z (ages acc)) -> exists r, add_observations acc vs = Ok r.
Proof.
  induction vs as [|v vs IH]; simpl; intros acc Hnd Hdis; [eauto|].
  inversion Hnd as [|? ? Hv Hnd']; subst.
  assert (exists acc', add_observation acc v = Ok acc' /\ Permutation acc' (v :: acc)) as [acc' [E Hp]].
  { unfold add_observation. destruct acc as [|w a]; [eexists; split; [reflexivity | reflexivity]|].
    destruct (existsb (Z.eqb (fst v)) (map fst (w :: a))) eqn:X.
    - apply existsb_eqb_In in X. exfalso. apply (Hdis (fst v)); [now left | exact X].
    - eexists; split; [reflexivity | apply insert_visit_perm]. }
  rewrite E. simpl. apply IH; [exact Hnd'|].
  intros z Hz C. apply (Permutation_in _ (Permutation_map fst Hp)) in C. simpl in C.
  destruct C as [<- | C]; [contradiction|]. apply (Hdis z); [now right | exact C].
Qed.

(** a strictly sorted list is determined by its elements *)
Lemma ssorted_perm_eq (l1 : list visit) : forall l2, ssorted l1 -> ssorted l2 -> Permutation l1 l2 -> l1 = l2.
Proof.
  unfold ssorted, ages. induction l1 as [|a r1 IH]; intros l2 H1 H2 Hp.
  - apply Permutation_nil in Hp. now subst.
  - destruct l2 as [|b r2]; [apply Permutation_sym, Permutation_nil in Hp; discriminate|].
    simpl in *. inversion H1 as [|? ? Hr1 Ha]; inversion H2 as [|? ? Hr2 Hb]; subst.
    assert (a = b).
    { assert (Ia : In a (b :: r2)) by (apply (Permutation_in _ Hp); now left).
      assert (Ib : In b (a :: r1)) by (apply (Permutation_in _ (Permutation_sym Hp)); now left).
      destruct Ia as [<- | Ia]; [reflexivity|]. destruct Ib as [<- | Ib]; [reflexivity|].
      rewrite Forall_forall in Ha, Hb.
      assert (fst a < fst b) by (apply Ha; now apply in_map).
      assert (fst b < fst a) by (apply Hb; now apply in_map). lia. }
    subst b. f_equal. apply IH; auto. eapply Permutation_cons_inv; eauto.
Qed.

(** hence [add_observations []] only depends on the *set* of visits *)
Lemma add_observations_perm vs vs' r r' :
  Permutation vs vs' -> add_observations [] vs = Ok r -> add_observations [] vs' = Ok r' -> r = r'.
Proof.
  intros Hp H H'.
  destruct (add_observations_spec _ _ _ H) as [Hs [Hpr _]]; [constructor|].
  destruct (add_observations_spec _ _ _ H') as [Hs' [Hpr' _]]; [constructor|].
  apply ssorted_perm_eq; auto. simpl in *. rewrite Hpr, Hpr'. exact Hp.
Qed.
Lemma add_observations_perm_ok vs vs' r :
  Permutation vs vs' -> add_observations [] vs = Ok r -> add_observations [] vs' = Ok r.
Proof.
  intros Hp H.
  destruct (add_observations_spec _ _ _ H) as [_ [_ [Hnd _]]]; [constructor|].
  destruct (add_observations_total vs' []) as [r' Hr'].
  - eapply Permutation_NoDup; [apply Permutation_map; exact Hp | exact Hnd].
  - intros ? ? [].
  - rewrite Hr'. f_equal. symmetry. eapply add_observations_perm; eauto.
Qed.

(* ------------------------------------------------------------------ first occurrences *)
Lemma firsts_In x l : In x (firsts l) <-> In x l.
Proof.
  induction l as [|a l IH]; simpl; [tauto|].
  rewrite filter_In, IH. destruct (ident_eq_dec a x) as [->|N].
  - tauto.
  - split; [tauto|]. intros [E|H]; [contradiction|]. right. split; [exact H|].
    apply negb_true_iff. now apply ident_eqb_neq.
Qed.
Lemma firsts_NoDup l : NoDup (firsts l).
Proof.
  induction l as [|a l IH]; simpl; [constructor|].
  constructor.
  - rewrite filter_In. intros [_ H]. rewrite ident_eqb_refl in H. discriminate.
  - now apply NoDup_filter.
Qed.
Lemma firsts_perm l l' : Permutation l l' -> Permutation (firsts l) (firsts l').
Proof.
  intros Hp. apply NoDup_Permutation; try apply firsts_NoDup.
  intros x. rewrite !firsts_In. split; apply Permutation_in; [exact Hp | now apply Permutation_sym].
Qed.

Lemma filter_perm {A} (f : A -> bool) l l' : Permutation l l' -> Permutation (filter f l) (filter f l').
Proof.
  induction 1; simpl.
  - constructor.
  - destruct (f x); [now constructor | assumption].
  - destruct (f x), (f y); try reflexivity; try apply perm_swap.
  - etransitivity; eauto.
Qed.

Lemma mapM_perm_ok {A B} (f : A -> result B) l l' :
  Permutation l l' -> forall r, mapM f l = Ok r -> exists r', mapM f l' = Ok r' /\ Permutation r r'.
Proof.
  induction 1; intros r Hr.
  - exists r. split; [exact Hr|reflexivity].
  - simpl in Hr. apply bind_ok in Hr. destruct Hr as [b [Hb Hr]]. apply bind_ok in Hr. destruct Hr as [bs [Hbs Hr]].
    inversion Hr; subst. destruct (IHPermutation _ Hbs) as [bs' [E P']].
    exists (b :: bs'). simpl. rewrite Hb. simpl. rewrite E. simpl. split; [reflexivity | now constructor].
  - simpl in Hr. apply bind_ok in Hr. destruct Hr as [b [Hb Hr]]. apply bind_ok in Hr. destruct Hr as [bs [Hbs Hr]].
    apply bind_ok in Hbs. destruct Hbs as [c [Hc Hbs]]. apply bind_ok in Hbs. destruct Hbs as [cs [Hcs Hbs]].
    inversion Hr; inversion Hbs; subst.
    exists (c :: b :: cs). simpl. rewrite Hc, Hb. simpl. rewrite Hcs. simpl. split; [reflexivity | apply perm_swap].
  - destruct (IHPermutation1 _ Hr) as [r1 [E1 P1]]. destruct (IHPermutation2 _ E1) as [r2 [E2 P2]].
    exists r2. split; [exact E2 | etransitivity; eauto].
Qed.
Lemma mapM_perm {A B} (f : A -> result B) l l' r r' :
  Permutation l l' -> mapM f l = Ok r -> mapM f l' = Ok r' -> Permutation r r'.
Proof.
  intros Hp H H'. destruct (mapM_perm_ok f _ _ Hp _ H) as [r2 [E P2]]. congruence.
Qed.

(* ------------------------------------------------------------------ what an accepted table went through *)
Definition kept (t : table) (xs : list irow) : list irow :=
  if t_drop_full_nan t then filter (fun x => negb (forallb is_nan (data_cells (t_layout t) x))) xs else xs.

(** all rows of one ID carry the same event and the same covariates *)
Definition coherent (rows : list crow) : Prop :=
  forall r1 r2, In r1 rows -> In r2 rows -> c_id r1 = c_id r2 -> c_ev r1 = c_ev r2 /\ c_cov r1 = c_cov r2.

Lemma unique_per_id_spec {A} (eqb : A -> A -> bool) (f : irow -> A) xs :
  unique_per_id eqb f xs = true ->
  forall x y, In x xs -> In y xs -> x_id x = x_id y -> eqb (f x) (f y) = true.
Proof.
  unfold unique_per_id. rewrite forallb_forall. intros H x y Hx Hy E.
  specialize (H x Hx). rewrite forallb_forall in H. specialize (H y Hy).
  rewrite E, ident_eqb_refl in H. exact H.
Qed.

Lemma list_eqbZ_eq a : forall b, list_eqbZ a b = true -> a = b.
Proof.
  induction a as [|x a IH]; destruct b as [|y b]; simpl; intros H; try discriminate; [reflexivity|].
  apply andb_true_iff in H. destruct H as [H1 H2]. apply Z.eqb_eq in H1. subst. f_equal. now apply IH.
Qed.

Lemma clean_events_coherent P t lost xs nb :
  clean_events P t lost xs = Ok nb ->
  forall x y, In x xs -> In y xs -> x_id x = x_id y ->
    exists tx bx ty by_, x_evt x = Fin tx /\ x_evb x = Fin bx /\ x_evt y = Fin ty /\ x_evb y = Fin by_ /\
      round_time P tx = round_time P ty /\ Qfloor bx = Qfloor by_.
Proof.
  unfold clean_events. intros H.
  apply bind_ok in H. destruct H as [u1 [H1 H]]. apply refuse_if_ok' in H1. apply negb_false_iff in H1.
  apply bind_ok in H. destruct H as [u2 [H2 H]].
  apply bind_ok in H. destruct H as [u3 [H3 H]]. apply refuse_if_ok' in H3. apply negb_false_iff in H3.
  apply bind_ok in H. destruct H as [evs [Hevs H]].
  apply bind_ok in H. destruct H as [u4 [_ H]].
  apply bind_ok in H. destruct H as [u5 [H5 H]]. apply refuse_if_ok' in H5. apply negb_false_iff in H5.
  apply andb_true_iff in H5. destruct H5 as [U1 U2].
  intros x y Hx Hy E.
  rewrite forallb_forall in H1, H3.
  pose proof (H1 x Hx) as A1. pose proof (H1 y Hy) as A2. pose proof (H3 x Hx) as B1. pose proof (H3 y Hy) as B2.
  destruct (x_evt x) as [tx| |] eqn:Etx; try discriminate. destruct (x_evt y) as [ty| |] eqn:Ety; try discriminate.
  destruct (x_evb x) as [bx| |] eqn:Ebx; try discriminate. destruct (x_evb y) as [by_| |] eqn:Eby; try discriminate.
  exists tx, bx, ty, by_. repeat split; try reflexivity.
  - pose proof (unique_per_id_spec _ _ _ U1 x y Hx Hy E) as Q. simpl in Q. rewrite Etx, Ety in Q. now apply Z.eqb_eq.
  - pose proof (unique_per_id_spec _ _ _ U2 x y Hx Hy E) as Q. simpl in Q. rewrite Ebx, Eby in Q. now apply Z.eqb_eq.
Qed.

Lemma clean_covariates_coherent t lost xs u :
  clean_covariates t lost xs = Ok u ->
  forall x y, In x xs -> In y xs -> x_id x = x_id y -> cov_ints x = cov_ints y.
Proof.
  unfold clean_covariates. intros H.
  apply bind_ok in H. destruct H as [u1 [_ H]]. apply bind_ok in H. destruct H as [u2 [_ H]].
  apply bind_ok in H. destruct H as [u3 [_ H]]. apply bind_ok in H. destruct H as [u4 [H4 H]].
  apply refuse_if_ok' in H4. apply negb_false_iff in H4.
  intros x y Hx Hy E. apply list_eqbZ_eq. exact (unique_per_id_spec _ _ _ H4 x y Hx Hy E).
Qed.

Lemma nodupb_NoDup l : nodupb l = true -> NoDup l.
Proof.
  induction l as [|k l IH]; simpl; intros H; [constructor|].
  apply andb_true_iff in H. destruct H as [H1 H2]. constructor; [|now apply IH].
  intros C. apply negb_true_iff in H1. assert (existsb (key_eqb k) l = true); [|congruence].
  apply existsb_exists. exists k. split; [exact C|]. unfold key_eqb. rewrite ident_eqb_refl, Z.eqb_refl. reflexivity.
Qed.

(** Everything [clean] guarantees about an accepted table. *)
Lemma clean_ok P t rows nb :
  clean P t = Ok (rows, nb) ->
  exists xs, mapM (index_row P (t_layout t)) (t_rows t) = Ok xs
    /\ NoDup (map xkey xs)
    /\ rows = map (crow_of P (t_layout t)) (kept t xs)
    /\ coherent rows
    /\ (has_event (t_layout t) = true -> exists u, clean_events P t
          (match t_idkind t with KCategorical => existsb (fun i => negb (existsb (ident_eqb i) (ids_of (kept t xs)))) (ids_of xs) | _ => false end)
          (kept t xs) = Ok nb /\ u = tt)
    /\ (has_time (t_layout t) = true -> kept t xs <> [])
    /\ (has_event (t_layout t) = false -> nb = 0).
Proof.
  unfold clean. intros H.
  apply bind_ok in H. destruct H as [u0 [_ H]].
  apply bind_ok in H. destruct H as [xs [Hci H]].
  apply bind_ok in H. destruct H as [xs0 [Hx0 H]]. inversion Hx0; subst xs0; clear Hx0.
  apply bind_ok in H. destruct H as [xk [Hcn H]].
  apply bind_ok in H. destruct H as [u1 [_ H]].
  apply bind_ok in H. destruct H as [nb' [Hl H]]. inversion H; subst nb' rows; clear H.
  unfold clean_index in Hci.
  apply bind_ok in Hci. destruct Hci as [v0 [_ Hci]]. apply bind_ok in Hci. destruct Hci as [v1 [_ Hci]].
  apply bind_ok in Hci. destruct Hci as [xs' [Hm Hci]]. apply bind_ok in Hci. destruct Hci as [v2 [Hnd Hci]].
  inversion Hci; subst xs'; clear Hci. apply refuse_if_ok' in Hnd. apply negb_false_iff in Hnd.
  unfold clean_numeric in Hcn.
  apply bind_ok in Hcn. destruct Hcn as [w0 [_ Hcn]]. apply bind_ok in Hcn. destruct Hcn as [w1 [_ Hcn]].
  inversion Hcn; clear Hcn. fold (kept t xs) in *. subst xk.
  exists xs. split; [exact Hm|]. split; [now apply nodupb_NoDup|]. split; [reflexivity|].
  assert (Hvis : forall u, clean_visits t (kept t xs) = Ok u -> kept t xs <> []).
  { intros u Hv. unfold clean_visits in Hv. apply bind_ok in Hv. destruct Hv as [z [Hz _]].
    apply refuse_if_ok' in Hz. intros C. rewrite C in Hz. discriminate. }
  split; [|split; [|split]].
  - (* coherent *)
    intros r1 r2 H1 H2 E. apply in_map_iff in H1. destruct H1 as [x [<- Hx]]. apply in_map_iff in H2. destruct H2 as [y [<- Hy]].
    simpl in E. unfold crow_of; simpl.
    destruct (t_layout t) eqn:EL; simpl in *.
    + auto.
    + pose proof (clean_events_coherent _ _ _ _ _ Hl x y Hx Hy E) as [tx [bx [ty [by_ [-> [-> [-> [-> [Q1 Q2]]]]]]]]].
      rewrite Q1, Q2. auto.
    + apply bind_ok in Hl. destruct Hl as [q0 [_ Hl]]. apply bind_ok in Hl. destruct Hl as [nb2 [Hl _]].
      pose proof (clean_events_coherent _ _ _ _ _ Hl x y Hx Hy E) as [tx [bx [ty [by_ [-> [-> [-> [-> [Q1 Q2]]]]]]]]].
      rewrite Q1, Q2. auto.
    + apply bind_ok in Hl. destruct Hl as [q0 [_ Hl]]. apply bind_ok in Hl. destruct Hl as [q1 [Hl _]].
      split; [reflexivity|]. exact (clean_covariates_coherent _ _ _ _ Hl x y Hx Hy E).
  - intros He. exists tt. split; [|reflexivity]. destruct (t_layout t) eqn:EL; simpl in *; try discriminate.
    + exact Hl.
    + apply bind_ok in Hl. destruct Hl as [q0 [_ Hl]]. apply bind_ok in Hl. destruct Hl as [nb2 [Hl Hc]].
      apply bind_ok in Hc. destruct Hc as [q1 [_ Hc]]. inversion Hc; subst. exact Hl.
  - intros Ht. destruct (t_layout t) eqn:EL; simpl in *; try discriminate;
      apply bind_ok in Hl; destruct Hl as [q0 [Hv _]]; eapply Hvis; eauto.
  - intros He. destruct (t_layout t) eqn:EL; simpl in *; try discriminate.
    + apply bind_ok in Hl. destruct Hl as [q0 [_ Hl]].
      match type of Hl with (if ?c then _ else _) = _ => destruct c end; congruence.
    + apply bind_ok in Hl. destruct Hl as [q0 [_ Hl]]. apply bind_ok in Hl. destruct Hl as [q1 [_ Hl]]. congruence.
Qed.

(* ------------------------------------------------------------------ individuals *)
Definition groups_of (L : layout) (rows : list crow) : list (ident * list crow) :=
  match L with LEvent => sort_groups (groupby rows) | _ => groupby rows end.

Lemma ingest_data_ok P t inds :
  ingest_data P t = Ok inds ->
  exists rows nb, clean P t = Ok (rows, nb) /\ mapM (load_indiv (t_layout t) nb) (groups_of (t_layout t) rows) = Ok inds.
Proof.
  unfold ingest_data. intros H. apply bind_ok in H. destruct H as [[rows nb] [Hc H]].
  exists rows, nb. split; [exact Hc|]. unfold groups_of. destruct (t_layout t); exact H.
Qed.

Lemma load_indiv_id L nb g ind : load_indiv L nb g = Ok ind -> i_id ind = fst g.
Proof.
  unfold load_indiv. destruct g as [i rows]. intros H.
  apply bind_ok in H. destruct H as [vis [_ H]]. apply bind_ok in H. destruct H as [ev [_ H]].
  inversion H. reflexivity.
Qed.

Definition visits_of_rows (rows : list crow) : list visit := map (fun r => (c_time r, c_vals r)) rows.

Lemma load_indiv_visits L nb i rows ind :
  load_indiv L nb (i, rows) = Ok ind ->
  ssorted (i_visits ind) /\
  (has_time L = true -> Permutation (i_visits ind) (visits_of_rows rows)) /\
  (has_time L = false -> i_visits ind = []).
Proof.
  unfold load_indiv. intros H.
  apply bind_ok in H. destruct H as [vis [Hv H]]. apply bind_ok in H. destruct H as [ev [_ H]].
  inversion H; subst; simpl; clear H.
  destruct (has_time L).
  - destruct (add_observations_spec _ _ _ Hv) as [Hs [Hp _]]; [constructor|].
    split; [exact Hs|]. split; [intros _; exact Hp | discriminate].
  - inversion Hv; subst. split; [constructor|]. split; [discriminate | reflexivity].
Qed.

Lemma insert_group_perm g l : Permutation (insert_group g l) (g :: l).
Proof.
  induction l as [|h r IH]; simpl; [reflexivity|].
  destruct (ident_leb (fst g) (fst h)); [reflexivity|]. rewrite IH. apply perm_swap.
Qed.
Lemma sort_groups_perm l : Permutation (sort_groups l) l.
Proof.
  unfold sort_groups. induction l as [|g l IH]; simpl; [reflexivity|].
  rewrite insert_group_perm. now constructor.
Qed.

Lemma rows_of_perm i rows rows' : Permutation rows rows' -> Permutation (rows_of i rows) (rows_of i rows').
Proof. apply filter_perm. Qed.

Lemma rows_of_In i rows r : In r (rows_of i rows) <-> In r rows /\ c_id r = i.
Proof.
  unfold rows_of. rewrite filter_In. split; intros [H1 H2]; split; auto.
  - apply ident_eqb_eq in H2. congruence.
  - subst. apply ident_eqb_refl.
Qed.

(** one individual's record depends on the set of its rows only *)
Lemma load_indiv_perm L nb i rows rows' a b :
  coherent rows -> Permutation rows rows' ->
  load_indiv L nb (i, rows_of i rows) = Ok a -> load_indiv L nb (i, rows_of i rows') = Ok b -> a = b.
Proof.
  intros Hc Hp Ha Hb. unfold load_indiv in *.
  apply bind_ok in Ha. destruct Ha as [va [Hva Ha]]. apply bind_ok in Ha. destruct Ha as [ea [Hea Ha]].
  apply bind_ok in Hb. destruct Hb as [vb [Hvb Hb]]. apply bind_ok in Hb. destruct Hb as [eb [Heb Hb]].
  pose proof (rows_of_perm i _ _ Hp) as Hpi.
  assert (Hfirst : match rows_of i rows, rows_of i rows' with
                   | r :: _, r' :: _ => c_ev r = c_ev r' /\ c_cov r = c_cov r'
                   | [], [] => True
                   | _, _ => False
                   end).
  { destruct (rows_of i rows) as [|r l] eqn:E1; destruct (rows_of i rows') as [|r' l'] eqn:E2.
    - exact I.
    - apply Permutation_nil in Hpi. discriminate.
    - apply Permutation_sym, Permutation_nil in Hpi. discriminate.
    - assert (I1 : In r (rows_of i rows)) by (rewrite E1; now left).
      assert (I2 : In r' (rows_of i rows')) by (rewrite E2; now left).
      apply rows_of_In in I1. apply rows_of_In in I2. destruct I1 as [I1 J1], I2 as [I2 J2].
      apply Hc; [exact I1 | apply (Permutation_in _ (Permutation_sym Hp)); exact I2 | congruence]. }
  assert (va = vb).
  { destruct (has_time L); [|congruence].
    eapply add_observations_perm; [|exact Hva|exact Hvb]. apply Permutation_map. exact Hpi. }
  subst vb.
  assert (ea = eb /\ (if has_cov L then match rows_of i rows with r :: _ => Some (c_cov r) | [] => None end else None)
                    = (if has_cov L then match rows_of i rows' with r :: _ => Some (c_cov r) | [] => None end else None)).
  { destruct (rows_of i rows) as [|r l]; destruct (rows_of i rows') as [|r' l']; try contradiction.
    - split; [destruct (has_event L); congruence | reflexivity].
    - destruct Hfirst as [F1 F2]. rewrite F1 in Hea. rewrite F2. split; [destruct (has_event L); congruence | reflexivity]. }
  destruct H as [-> Hcov]. inversion Ha; inversion Hb; subst. rewrite Hcov. reflexivity.
Qed.

Lemma Forall2_same_eq {A B} (F G : A -> result B) l r r' :
  Forall2 (fun a b => F a = Ok b) l r -> Forall2 (fun a b => G a = Ok b) l r' ->
  (forall a b b', In a l -> F a = Ok b -> G a = Ok b' -> b = b') -> r = r'.
Proof.
  intros H. revert r'. induction H; intros r' H' Hpt; inversion H'; subst; [reflexivity|].
  f_equal; [eapply Hpt; eauto; now left | apply IHForall2; auto]. intros; eapply Hpt; eauto. now right.
Qed.

Lemma groupby_perm_groups rows rows' :
  Permutation rows rows' -> Permutation (firsts (map c_id rows)) (firsts (map c_id rows')).
Proof. intros H. apply firsts_perm. now apply Permutation_map. Qed.

Lemma groups_of_as_map L rows : exists ids, groups_of L rows = map (fun i => (i, rows_of i rows)) ids /\ Permutation ids (firsts (map c_id rows))
  /\ (has_time L = true -> ids = firsts (map c_id rows)).
Proof.
  unfold groups_of, groupby.
  destruct L; try (exists (firsts (map c_id rows)); split; [reflexivity | split; [reflexivity | reflexivity]]).
  (* event layout: sorted *)
  set (ids := firsts (map c_id rows)).
  exists (map fst (sort_groups (map (fun i => (i, rows_of i rows)) ids))). split; [|split].
  - assert (G : forall l, Forall (fun g => snd g = rows_of (fst g) rows) l -> l = map (fun i => (i, rows_of i rows)) (map fst l)).
    { induction l as [|[i rs] l IH]; simpl; intros HF; [reflexivity|]. inversion HF; subst. simpl in *. subst rs. f_equal. now apply IH. }
    apply G. apply Forall_forall. intros g Hg.
    apply (Permutation_in _ (sort_groups_perm _)) in Hg. apply in_map_iff in Hg. destruct Hg as [i [<- _]]. reflexivity.
  - rewrite (Permutation_map fst (sort_groups_perm _)). rewrite map_map. simpl. rewrite map_id. reflexivity.
  - discriminate.
Qed.

Lemma list_maxZ_ge d l x : In x (d :: l) -> x <= list_maxZ d l.
Proof.
  induction l as [|a l IH]; simpl.
  - intros [<- | []]. lia.
  - intros [<- | [<- | H]]; [specialize (IH (or_introl eq_refl)); lia | lia | specialize (IH (or_intror H)); lia].
Qed.
Lemma list_maxZ_in d l : In (list_maxZ d l) (d :: l).
Proof.
  induction l as [|a l IH]; simpl; [now left|].
  destruct (Z.max_spec a (list_maxZ d l)) as [[_ ->] | [_ ->]].
  - simpl in IH. destruct IH as [IH | IH]; [now left | right; now right].
  - right. now left.
Qed.
Lemma max_events_perm (l l' : list (Z * Z)) : Permutation l l' ->
  match l with [] => 0 | e :: r => list_maxZ (snd e) (map snd r) end
  = match l' with [] => 0 | e :: r => list_maxZ (snd e) (map snd r) end.
Proof.
  intros Pl. destruct l as [|e r]; destruct l' as [|e' r'].
  - reflexivity.
  - apply Permutation_nil in Pl. discriminate.
  - apply Permutation_sym, Permutation_nil in Pl. discriminate.
  - assert (Pm := Permutation_map snd Pl). simpl in Pm.
    pose proof (list_maxZ_in (snd e) (map snd r)) as I1. pose proof (list_maxZ_in (snd e') (map snd r')) as I2.
    apply (Permutation_in _ Pm) in I1. apply (Permutation_in _ (Permutation_sym Pm)) in I2.
    apply list_maxZ_ge in I1. apply list_maxZ_ge in I2. lia.
Qed.

(** The Data object: same individuals whatever the row order; identical when first appearances keep their order. *)
Lemma ingest_data_perm P t rows' inds inds' :
  Permutation (t_rows t) rows' ->
  ingest_data P t = Ok inds -> ingest_data P (with_rows t rows') = Ok inds' ->
  Permutation inds inds' /\
  (has_time (t_layout t) = true ->
   (forall cr nb cr' nb', clean P t = Ok (cr, nb) -> clean P (with_rows t rows') = Ok (cr', nb') -> firsts (map c_id cr) = firsts (map c_id cr')) ->
   inds = inds').
Proof.
  intros Hp H H'.
  apply ingest_data_ok in H. destruct H as [cr [nb [Hc Hm]]].
  apply ingest_data_ok in H'. destruct H' as [cr' [nb' [Hc' Hm']]]. simpl in Hm'.
  destruct (clean_ok _ _ _ _ Hc) as [xs [Hxs [_ [Hrows [Hcoh [Hev [_ Hnb]]]]]]].
  destruct (clean_ok _ _ _ _ Hc') as [xs' [Hxs' [_ [Hrows' [_ [Hev' [_ Hnb']]]]]]]. simpl in *.
  pose proof (mapM_perm _ _ _ _ _ Hp Hxs Hxs') as Pxs.
  assert (Pk : Permutation (kept t xs) (kept (with_rows t rows') xs')).
  { unfold kept. simpl. destruct (t_drop_full_nan t); [now apply filter_perm | exact Pxs]. }
  assert (Pcr : Permutation cr cr') by (subst; now apply Permutation_map).
  (* number of events *)
  assert (nb = nb').
  { destruct (has_event (t_layout t)) eqn:HE.
    - destruct (Hev eq_refl) as [_ [E1 _]]. destruct (Hev' eq_refl) as [_ [E2 _]].
      revert E1 E2. generalize (match t_idkind t with KCategorical => existsb (fun i => negb (existsb (ident_eqb i) (ids_of (kept t xs)))) (ids_of xs) | _ => false end).
      generalize (match t_idkind t with KCategorical => existsb (fun i => negb (existsb (ident_eqb i) (ids_of (kept (with_rows t rows') xs')))) (ids_of xs') | _ => false end).
      intros l2 l1 E1 E2. unfold clean_events in E1, E2. simpl in E2.
      repeat (apply bind_ok in E1; destruct E1 as [? [? E1]]).
      repeat (apply bind_ok in E2; destruct E2 as [? [? E2]]).
      match goal with A : mapM (event_cell P) (kept t xs) = Ok ?e1, B : mapM (event_cell P) _ = Ok ?e2 |- _ =>
        pose proof (mapM_perm _ _ _ _ _ Pk A B) as Pe; set (ev1 := e1) in *; set (ev2 := e2) in * end.
      pose proof max_events_perm as Hmax.
      specialize (Hmax _ _ Pe). rewrite <- Hmax in E2.
      destruct (t_nb_events t) as [[|p|p]|];
        repeat match goal with
        | H : bind _ _ = Ok _ |- _ => apply bind_ok in H; destruct H as [? [? H]]
        | H : (if ?c then _ else _) = Ok _ |- _ => destruct c
        end; congruence.
    - rewrite (Hnb eq_refl), (Hnb' eq_refl). reflexivity. }
  subst nb'.
  destruct (groups_of_as_map (t_layout t) cr) as [ids [Eg [Pids Hids]]].
  destruct (groups_of_as_map (t_layout t) cr') as [ids' [Eg' [Pids' Hids']]].
  rewrite Eg in Hm. rewrite Eg' in Hm'.
  apply mapM_Forall2 in Hm. apply mapM_Forall2 in Hm'.
  assert (Fm : forall rws l r, Forall2 (fun a b => load_indiv (t_layout t) nb a = Ok b) (map (fun i => (i, rows_of i rws)) l) r ->
                Forall2 (fun i b => load_indiv (t_layout t) nb (i, rows_of i rws) = Ok b) l r).
  { intros rws l. induction l; intros r Hr; inversion Hr; subst; constructor; auto. }
  apply Fm in Hm. apply Fm in Hm'.
  assert (Pii : Permutation ids ids').
  { rewrite Pids, Pids'. now apply groupby_perm_groups. }
  split.
  - apply Forall2_mapM in Hm'.
    destruct (mapM_perm_ok _ _ _ (Permutation_sym Pii) _ Hm') as [r2 [E2 P2]].
    apply mapM_Forall2 in E2.
    assert (inds = r2).
    { eapply Forall2_same_eq; [exact Hm | exact E2 |]. intros i a b _ Ha Hb. eapply load_indiv_perm; [ | | exact Ha | exact Hb]; eassumption. }
    subst r2. now apply Permutation_sym.
  - intros Ht Hf. specialize (Hf _ _ _ _ Hc Hc').
    rewrite (Hids Ht) in Hm. rewrite (Hids' Ht), <- Hf in Hm'.
    eapply Forall2_same_eq; [exact Hm | exact Hm' |]. intros i a b _ Ha Hb. eapply load_indiv_perm; [ | | exact Ha | exact Hb]; eassumption.
Qed.

(* ------------------------------------------------------------------ order, sortedness *)
Lemma ingest_data_order P t inds rows nb :
  has_time (t_layout t) = true -> ingest_data P t = Ok inds -> clean P t = Ok (rows, nb) ->
  map i_id inds = firsts (map c_id rows).
Proof.
  intros Ht H Hc. apply ingest_data_ok in H. destruct H as [rows' [nb' [Hc' Hm]]].
  rewrite Hc in Hc'. inversion Hc'; subst rows' nb'.
  destruct (groups_of_as_map (t_layout t) rows) as [ids [Eg [_ Hids]]]. rewrite Eg, (Hids Ht) in Hm.
  apply mapM_Forall2 in Hm. clear Eg Hids.
  remember (firsts (map c_id rows)) as l. clear Heql. revert inds Hm.
  induction l as [|i l IH]; intros inds Hm; inversion Hm; subst; simpl; [reflexivity|].
  f_equal; [|now apply IH]. now apply load_indiv_id in H1.
Qed.

Lemma ingest_data_ids_nodup P t inds : ingest_data P t = Ok inds -> NoDup (map i_id inds).
Proof.
  intros H. apply ingest_data_ok in H. destruct H as [rows [nb [Hc Hm]]].
  destruct (groups_of_as_map (t_layout t) rows) as [ids [Eg [Pids _]]]. rewrite Eg in Hm.
  apply mapM_Forall2 in Hm.
  assert (map i_id inds = ids).
  { clear Eg Pids. revert inds Hm. induction ids as [|i l IH]; intros inds Hm; inversion Hm; subst; simpl; [reflexivity|].
    f_equal; [|now apply IH]. now apply load_indiv_id in H1. }
  rewrite H. eapply Permutation_NoDup; [apply Permutation_sym; exact Pids | apply firsts_NoDup].
Qed.

(** every individual: ages strictly increasing, and its visits are exactly its retained rows *)
Lemma ingest_data_sorted P t inds rows nb :
  ingest_data P t = Ok inds -> clean P t = Ok (rows, nb) ->
  Forall (fun ind => ssorted (i_visits ind) /\
                     (has_time (t_layout t) = true -> Permutation (i_visits ind) (visits_of_rows (rows_of (i_id ind) rows)))) inds.
Proof.
  intros H Hc. apply ingest_data_ok in H. destruct H as [rows' [nb' [Hc' Hm]]].
  rewrite Hc in Hc'. inversion Hc'; subst rows' nb'.
  destruct (groups_of_as_map (t_layout t) rows) as [ids [Eg _]]. rewrite Eg in Hm. apply mapM_Forall2 in Hm. clear Eg.
  revert inds Hm. induction ids as [|i l IH]; intros inds Hm; inversion Hm; subst; constructor; [|now apply IH].
  pose proof (load_indiv_id _ _ _ _ H1) as Hid. simpl in Hid. rewrite Hid.
  destruct (load_indiv_visits _ _ _ _ _ H1) as [Hs [Hp _]]. split; assumption.
Qed.

(* ------------------------------------------------------------------ refusals *)
Definition no_other {A} (r : result A) : Prop := r <> Err OtherError.

Lemma no_other_bind {A B} (r : result A) (f : A -> result B) :
  no_other r -> (forall a, r = Ok a -> no_other (f a)) -> no_other (bind r f).
Proof. unfold no_other. destruct r as [a|e]; simpl; intros H1 H2; [now apply H2 | intros C; apply H1; congruence]. Qed.
Lemma no_other_refuse b : no_other (refuse_if b).
Proof. unfold no_other. destruct b; simpl; discriminate. Qed.
Lemma no_other_ok {A} (a : A) : no_other (Ok a).
Proof. unfold no_other. discriminate. Qed.
Lemma no_other_not_ok {A} (r : result A) : no_other r -> (forall a, r <> Ok a) -> r = Err DataError.
Proof. unfold no_other. destruct r as [a|[|]]; intros H1 H2; [exfalso; now apply (H2 a) | reflexivity | contradiction]. Qed.

Lemma no_other_mapM {A B} (f : A -> result B) l : (forall a, no_other (f a)) -> no_other (mapM f l).
Proof.
  intros Hf. induction l as [|a l IH]; simpl; [apply no_other_ok|].
  apply no_other_bind; [apply Hf|]. intros b _. apply no_other_bind; [exact IH|]. intros; apply no_other_ok.
Qed.

Lemma no_other_check_id k ids : no_other (check_id k ids).
Proof.
  unfold check_id. destruct ids as [|i ids]; [discriminate|].
  destruct k; try discriminate; (apply no_other_bind; [apply no_other_refuse|]; intros; try apply no_other_refuse; apply no_other_ok).
Qed.

Lemma no_other_index_row P L r : no_other (index_row P L r).
Proof. unfold index_row, no_other. destruct (r_id r); [|discriminate]. destruct (has_time L); [destruct (r_time r)|]; discriminate. Qed.

Lemma no_other_clean_index P t : no_other (clean_index P t).
Proof.
  unfold clean_index.
  apply no_other_bind; [apply no_other_check_id|]. intros _ _.
  apply no_other_bind; [apply no_other_refuse|]. intros _ _.
  apply no_other_bind; [apply no_other_mapM; apply no_other_index_row|]. intros xs _.
  apply no_other_bind; [apply no_other_refuse|]. intros; apply no_other_ok.
Qed.

Lemma no_other_clean_numeric t xs : no_other (clean_numeric t xs).
Proof.
  unfold clean_numeric. apply no_other_bind; [apply no_other_refuse|]. intros _ _.
  apply no_other_bind; [apply no_other_refuse|]. intros; apply no_other_ok.
Qed.

(** the part of [clean] that precedes every site that can raise something else than a data-input error *)
Definition clean_front (P : params) (t : table) : result (list irow) :=
  refuse_if (has_cov (t_layout t) && Nat.eqb (t_ncov t) 0) ;;;
  xs <- clean_index P t ;; clean_numeric t xs.

Lemma no_other_clean_front P t : no_other (clean_front P t).
Proof.
  unfold clean_front. apply no_other_bind; [apply no_other_refuse|]. intros _ _.
  apply no_other_bind; [apply no_other_clean_index|]. intros; apply no_other_clean_numeric.
Qed.

Lemma clean_front_err P t e : clean_front P t = Err e -> clean P t = Err e.
Proof.
  unfold clean_front, clean. destruct (refuse_if _) as [u|e0]; simpl; [|intros H; inversion H; reflexivity].
  destruct (clean_index P t) as [xs|e1]; simpl; [|intros H; inversion H; reflexivity].
  destruct (clean_numeric t xs) as [xk|e2]; simpl; [discriminate | intros H; inversion H; reflexivity].
Qed.

Lemma front_refusal P t : (forall xs, clean_front P t <> Ok xs) -> ingest P t = Err DataError.
Proof.
  intros H. pose proof (no_other_not_ok _ (no_other_clean_front P t) H) as E.
  apply clean_front_err in E. unfold ingest, ingest_data. rewrite E. reflexivity.
Qed.

Lemma clean_front_ok P t xk :
  clean_front P t = Ok xk ->
  exists xs, check_id (t_idkind t) (map r_id (t_rows t)) = Ok tt
    /\ (has_time (t_layout t) && negb (t_time_numeric t) = false)
    /\ mapM (index_row P (t_layout t)) (t_rows t) = Ok xs
    /\ nodupb (map xkey xs) = true
    /\ t_cols_numeric t = true
    /\ existsb (fun x => existsb is_inf (data_cells (t_layout t) x)) xs = false.
Proof.
  unfold clean_front. intros H.
  apply bind_ok in H. destruct H as [u0 [_ H]]. apply bind_ok in H. destruct H as [xs [Hci Hcn]].
  unfold clean_index in Hci.
  apply bind_ok in Hci. destruct Hci as [[] [Hid Hci]]. apply bind_ok in Hci. destruct Hci as [v1 [Ht Hci]].
  apply bind_ok in Hci. destruct Hci as [xs' [Hm Hci]]. apply bind_ok in Hci. destruct Hci as [v2 [Hnd Hci]].
  inversion Hci; subst xs'; clear Hci.
  unfold clean_numeric in Hcn.
  apply bind_ok in Hcn. destruct Hcn as [w0 [Hn Hcn]]. apply bind_ok in Hcn. destruct Hcn as [w1 [Hi _]].
  exists xs. repeat split; auto.
  - now apply refuse_if_ok' in Ht.
  - apply refuse_if_ok' in Hnd. now apply negb_false_iff in Hnd.
  - apply refuse_if_ok' in Hn. now apply negb_false_iff in Hn.
  - now apply refuse_if_ok' in Hi.
Qed.

(** the malformation classes of the property text that are decided by the front part *)
Inductive malformed_front (P : params) (t : table) : Prop :=
| M_no_row : t_rows t = [] -> malformed_front P t
| M_id_kind : t_idkind t = KOther -> malformed_front P t                                  (* float, mixed, boolean identifiers *)
| M_id_missing r : In r (t_rows t) -> r_id r = None -> malformed_front P t
| M_id_negative r z : t_idkind t = KInteger -> In r (t_rows t) -> r_id r = Some (IdZ z) -> z < 0 -> malformed_front P t
| M_id_empty r : t_idkind t = KString -> In r (t_rows t) -> r_id r = Some (IdS EmptyString) -> malformed_front P t
| M_age_dtype : has_time (t_layout t) = true -> t_time_numeric t = false -> malformed_front P t
| M_age_missing r : has_time (t_layout t) = true -> In r (t_rows t) -> r_time r = NaN -> malformed_front P t
| M_age_infinite r : has_time (t_layout t) = true -> In r (t_rows t) -> r_time r = Inf -> malformed_front P t
| M_duplicate l1 r1 l2 r2 l3 i q1 q2 :              (* two rows of one ID whose ages coincide after rounding (event layout: two rows of one ID) *)
    t_rows t = l1 ++ r1 :: l2 ++ r2 :: l3 -> r_id r1 = Some i -> r_id r2 = Some i ->
    (has_time (t_layout t) = true -> r_time r1 = Fin q1 /\ r_time r2 = Fin q2 /\ round_time P q1 = round_time P q2) ->
    malformed_front P t
| M_value_dtype : t_cols_numeric t = false -> malformed_front P t                         (* non-numeric column *)
| M_value_infinite r : In r (t_rows t) -> In Inf (r_vals r) -> malformed_front P t
| M_event_infinite r : has_event (t_layout t) = true -> In r (t_rows t) -> (r_evt r = Inf \/ r_evb r = Inf) -> malformed_front P t
| M_cov_infinite r : has_cov (t_layout t) = true -> In r (t_rows t) -> In Inf (r_cov r) -> malformed_front P t.

Lemma Forall2_In_l {A B} (R : A -> B -> Prop) l l' a : Forall2 R l l' -> In a l -> exists b, In b l' /\ R a b.
Proof.
  induction 1; intros Hi; [contradiction|]. destruct Hi as [<- | Hi].
  - eexists; split; [now left | eassumption].
  - destruct (IHForall2 Hi) as [b [Hb Hr]]. exists b. split; [now right | exact Hr].
Qed.

Lemma index_row_fields P L r x : index_row P L r = Ok x ->
  r_id r = Some (x_id x) /\ x_vals x = r_vals r /\ x_evt x = r_evt r /\ x_evb x = r_evb r /\ x_cov x = r_cov r
  /\ (has_time L = true -> exists q, r_time r = Fin q /\ x_time x = round_time P q) /\ (has_time L = false -> x_time x = 0).
Proof.
  unfold index_row. destruct (r_id r) as [i|]; [|discriminate].
  destruct (has_time L).
  - destruct (r_time r) as [q| |]; try discriminate. intros H; inversion H; subst; simpl.
    repeat split; auto. + intros _. eauto. + discriminate.
  - intros H; inversion H; subst; simpl. repeat split; auto. discriminate.
Qed.

Lemma existsb_false_In {A} (f : A -> bool) l a : existsb f l = false -> In a l -> f a = false.
Proof.
  intros H Hi. destruct (f a) eqn:E; [|reflexivity].
  assert (existsb f l = true) by (apply existsb_exists; eauto). congruence.
Qed.

Lemma rejects_front P t : malformed_front P t -> ingest P t = Err DataError.
Proof.
  intros M. apply front_refusal. intros xk Hk.
  destruct (clean_front_ok _ _ _ Hk) as [xs [Hid [Htn [Hm [Hnd [Hcn Hinf]]]]]].
  pose proof (mapM_Forall2 _ _ _ Hm) as HF.
  destruct M as [E | E | r Hr E | r z Ek Hr E Hz | r Ek Hr E | Ht E | r Ht Hr E | r Ht Hr E
                 | l1 r1 l2 r2 l3 i q1 q2 E E1 E2 Hq | E | r Hr Hi | r He Hr Hi | r Hc Hr Hi].
  - rewrite E in Hid. discriminate.
  - unfold check_id in Hid. rewrite E in Hid. destruct (map r_id (t_rows t)); discriminate.
  - unfold check_id in Hid. destruct (map r_id (t_rows t)) eqn:El; [discriminate|]. rewrite <- El in Hid.
    assert (X : existsb (fun i => match i with None => true | _ => false end) (map r_id (t_rows t)) = true).
    { apply existsb_exists. exists None. split; [|reflexivity]. rewrite <- E. now apply in_map. }
    destruct (t_idkind t); try discriminate; rewrite X in Hid; discriminate.
  - unfold check_id in Hid. destruct (map r_id (t_rows t)) eqn:El; [discriminate|]. rewrite <- El in Hid. rewrite Ek in Hid.
    destruct (existsb (fun i => match i with None => true | _ => false end) (map r_id (t_rows t))); [discriminate|]. simpl in Hid.
    assert (X : existsb (fun i => match i with Some (IdZ z) => z <? 0 | _ => false end) (map r_id (t_rows t)) = true).
    { apply existsb_exists. exists (Some (IdZ z)). split; [rewrite <- E; now apply in_map | now apply Z.ltb_lt]. }
    rewrite X in Hid. discriminate.
  - unfold check_id in Hid. destruct (map r_id (t_rows t)) eqn:El; [discriminate|]. rewrite <- El in Hid. rewrite Ek in Hid.
    destruct (existsb (fun i => match i with None => true | _ => false end) (map r_id (t_rows t))); [discriminate|]. simpl in Hid.
    assert (X : existsb (fun i => match i with Some (IdS s) => (String.length s =? 0)%nat | _ => false end) (map r_id (t_rows t)) = true).
    { apply existsb_exists. exists (Some (IdS EmptyString)). split; [rewrite <- E; now apply in_map | reflexivity]. }
    rewrite X in Hid. discriminate.
  - rewrite Ht, E in Htn. discriminate.
  - destruct (Forall2_In_l _ _ _ _ HF Hr) as [x [_ Hx]]. apply index_row_fields in Hx.
    destruct Hx as [_ [_ [_ [_ [_ [Hx _]]]]]]. destruct (Hx Ht) as [q [Hq _]]. congruence.
  - destruct (Forall2_In_l _ _ _ _ HF Hr) as [x [_ Hx]]. apply index_row_fields in Hx.
    destruct Hx as [_ [_ [_ [_ [_ [Hx _]]]]]]. destruct (Hx Ht) as [q [Hq _]]. congruence.
  - (* duplicates *)
    apply nodupb_NoDup in Hnd. rewrite E in HF.
    apply Forall2_app_inv_l in HF. destruct HF as [a1 [a2 [_ [HF ->]]]].
    inversion HF as [|? x1 ? a3 Hx1 HF2]; subst.
    apply Forall2_app_inv_l in HF2. destruct HF2 as [b1 [b2 [_ [HF3 ->]]]].
    inversion HF3 as [|? x2 ? b3 Hx2 _]; subst.
    assert (xkey x1 = xkey x2).
    { apply index_row_fields in Hx1. apply index_row_fields in Hx2.
      destruct Hx1 as [I1 [_ [_ [_ [_ [T1 T1']]]]]]. destruct Hx2 as [I2 [_ [_ [_ [_ [T2 T2']]]]]].
      unfold xkey. f_equal; [congruence|].
      destruct (has_time (t_layout t)) eqn:Ht.
      - destruct (Hq eq_refl) as [Q1 [Q2 Q3]]. destruct (T1 eq_refl) as [p1 [A1 B1]]. destruct (T2 eq_refl) as [p2 [A2 B2]]. congruence.
      - rewrite T1', T2'; reflexivity. }
    rewrite map_app in Hnd. simpl in Hnd. apply NoDup_remove_2 in Hnd. apply Hnd.
    apply in_or_app. right. rewrite map_app. apply in_or_app. right. simpl. left. congruence.
  - congruence.
  - destruct (Forall2_In_l _ _ _ _ HF Hr) as [x [Hxi Hx]]. apply index_row_fields in Hx.
    destruct Hx as [_ [Hv _]]. pose proof (existsb_false_In _ _ _ Hinf Hxi) as F. simpl in F.
    assert (existsb is_inf (data_cells (t_layout t) x) = true); [|congruence].
    apply existsb_exists. exists Inf. split; [|reflexivity]. unfold data_cells. apply in_or_app. left. congruence.
  - destruct (Forall2_In_l _ _ _ _ HF Hr) as [x [Hxi Hx]]. apply index_row_fields in Hx.
    destruct Hx as [_ [_ [Ht [Hb _]]]]. pose proof (existsb_false_In _ _ _ Hinf Hxi) as F. simpl in F.
    assert (existsb is_inf (data_cells (t_layout t) x) = true); [|congruence].
    apply existsb_exists. exists Inf. split; [|reflexivity]. unfold data_cells. rewrite He. apply in_or_app. right. apply in_or_app. left.
    simpl. rewrite Ht, Hb. destruct Hi as [-> | ->]; auto.
  - destruct (Forall2_In_l _ _ _ _ HF Hr) as [x [Hxi Hx]]. apply index_row_fields in Hx.
    destruct Hx as [_ [_ [_ [_ [Hcv _]]]]]. pose proof (existsb_false_In _ _ _ Hinf Hxi) as F. simpl in F.
    assert (existsb is_inf (data_cells (t_layout t) x) = true); [|congruence].
    apply existsb_exists. exists Inf. split; [|reflexivity]. unfold data_cells. rewrite Hc. apply in_or_app. right. apply in_or_app. right. congruence.
Qed.

(* ------------------------------------------------------------------ inconsistent events / covariates are never accepted *)
Definition raw_cells (L : layout) (r : row) : list cell :=
  r_vals r ++ (if has_event L then [r_evt r; r_evb r] else []) ++ (if has_cov L then r_cov r else []).

Lemma accepted_rows P t d r :
  ingest P t = Ok d -> In r (t_rows t) -> (exists q, In (Fin q) (raw_cells (t_layout t) r)) ->
  exists rows nb x, clean P t = Ok (rows, nb) /\ coherent rows /\ index_row P (t_layout t) r = Ok x /\ In (crow_of P (t_layout t) x) rows
    /\ (has_event (t_layout t) = true -> exists tq bq, x_evt x = Fin tq /\ x_evb x = Fin bq).
Proof.
  unfold ingest. intros H Hr [q Hq]. apply bind_ok in H. destruct H as [inds [H _]].
  apply ingest_data_ok in H. destruct H as [rows [nb [Hc _]]].
  destruct (clean_ok _ _ _ _ Hc) as [xs [Hm [_ [Hrows [Hcoh [Hev _]]]]]].
  destruct (Forall2_In_l _ _ _ _ (mapM_Forall2 _ _ _ Hm) Hr) as [x [Hx Hix]].
  assert (Hk : In x (kept t xs)).
  { unfold kept. destruct (t_drop_full_nan t); [|exact Hx]. apply filter_In. split; [exact Hx|].
    apply negb_true_iff. destruct (forallb is_nan (data_cells (t_layout t) x)) eqn:E; [|reflexivity].
    rewrite forallb_forall in E. specialize (E (Fin q)). simpl in E. exfalso.
    assert (In (Fin q) (data_cells (t_layout t) x)); [|now apply E in H].
    apply index_row_fields in Hix. destruct Hix as [_ [E1 [E2 [E3 [E4 _]]]]].
    unfold data_cells, raw_cells in *. rewrite E1, E2, E3, E4. exact Hq. }
  exists rows, nb, x. split; [exact Hc|]. split; [exact Hcoh|]. split; [exact Hix|]. split; [subst rows; now apply in_map|].
  intros He. destruct (Hev He) as [_ [Hce _]].
  destruct (clean_events_coherent _ _ _ _ _ Hce x x Hk Hk eq_refl) as [tx [bx [_ [_ [E1 [E2 _]]]]]]. eauto.
Qed.

Inductive inconsistent (P : params) (t : table) : Prop :=
| I_two_event_times r1 r2 i q1 q2 :
    has_event (t_layout t) = true -> In r1 (t_rows t) -> In r2 (t_rows t) -> r_id r1 = Some i -> r_id r2 = Some i ->
    r_evt r1 = Fin q1 -> r_evt r2 = Fin q2 -> round_time P q1 <> round_time P q2 -> inconsistent P t
| I_two_indicators r1 r2 i b1 b2 :
    has_event (t_layout t) = true -> In r1 (t_rows t) -> In r2 (t_rows t) -> r_id r1 = Some i -> r_id r2 = Some i ->
    r_evb r1 = Fin b1 -> r_evb r2 = Fin b2 -> Qfloor b1 <> Qfloor b2 -> inconsistent P t
| I_covariate_varies r1 r2 i q1 q2 :
    has_cov (t_layout t) = true -> In r1 (t_rows t) -> In r2 (t_rows t) -> r_id r1 = Some i -> r_id r2 = Some i ->
    In (Fin q1) (r_cov r1) -> In (Fin q2) (r_cov r2) ->
    map (fun c => match c with Fin q => Qfloor q | _ => 0 end) (r_cov r1) <> map (fun c => match c with Fin q => Qfloor q | _ => 0 end) (r_cov r2) ->
    inconsistent P t.

Lemma rejects_inconsistent P t : inconsistent P t -> forall d, ingest P t <> Ok d.
Proof.
  intros M d H.
  destruct M as [r1 r2 i q1 q2 He H1 H2 I1 I2 E1 E2 N | r1 r2 i b1 b2 He H1 H2 I1 I2 E1 E2 N | r1 r2 i q1 q2 Hc H1 H2 I1 I2 E1 E2 N].
  - destruct (accepted_rows _ _ _ _ H H1) as [rows [nb [x1 [Hcl [Hcoh [X1 [R1 F1]]]]]]].
    { exists q1. unfold raw_cells. rewrite He. apply in_or_app. right. apply in_or_app. left. rewrite E1. now left. }
    destruct (accepted_rows _ _ _ _ H H2) as [rows' [nb' [x2 [Hcl' [_ [X2 [R2 F2]]]]]]].
    { exists q2. unfold raw_cells. rewrite He. apply in_or_app. right. apply in_or_app. left. rewrite E2. now left. }
    rewrite Hcl in Hcl'. inversion Hcl'; subst rows' nb'.
    pose proof (index_row_fields _ _ _ _ X1) as [J1 [_ [T1 [B1 _]]]]. pose proof (index_row_fields _ _ _ _ X2) as [J2 [_ [T2 [B2 _]]]].
    destruct (Hcoh _ _ R1 R2) as [Q _]; [simpl; congruence|].
    destruct (F1 He) as [t1 [c1 [A1 A2]]]. destruct (F2 He) as [t2 [c2 [A3 A4]]].
    unfold crow_of in Q; simpl in Q. rewrite He, A1, A2, A3, A4 in Q. inversion Q. apply N. congruence.
  - destruct (accepted_rows _ _ _ _ H H1) as [rows [nb [x1 [Hcl [Hcoh [X1 [R1 F1]]]]]]].
    { exists b1. unfold raw_cells. rewrite He. apply in_or_app. right. apply in_or_app. left. rewrite E1. right. now left. }
    destruct (accepted_rows _ _ _ _ H H2) as [rows' [nb' [x2 [Hcl' [_ [X2 [R2 F2]]]]]]].
    { exists b2. unfold raw_cells. rewrite He. apply in_or_app. right. apply in_or_app. left. rewrite E2. right. now left. }
    rewrite Hcl in Hcl'. inversion Hcl'; subst rows' nb'.
    pose proof (index_row_fields _ _ _ _ X1) as [J1 [_ [T1 [B1 _]]]]. pose proof (index_row_fields _ _ _ _ X2) as [J2 [_ [T2 [B2 _]]]].
    destruct (Hcoh _ _ R1 R2) as [Q _]; [simpl; congruence|].
    destruct (F1 He) as [t1 [c1 [A1 A2]]]. destruct (F2 He) as [t2 [c2 [A3 A4]]].
    unfold crow_of in Q; simpl in Q. rewrite He, A1, A2, A3, A4 in Q. inversion Q. apply N. congruence.
  - destruct (accepted_rows _ _ _ _ H H1) as [rows [nb [x1 [Hcl [Hcoh [X1 [R1 _]]]]]]].
    { exists q1. unfold raw_cells. rewrite Hc. apply in_or_app. right. apply in_or_app. right. exact E1. }
    destruct (accepted_rows _ _ _ _ H H2) as [rows' [nb' [x2 [Hcl' [_ [X2 [R2 _]]]]]]].
    { exists q2. unfold raw_cells. rewrite Hc. apply in_or_app. right. apply in_or_app. right. exact E2. }
    rewrite Hcl in Hcl'. inversion Hcl'; subst rows' nb'.
    pose proof (index_row_fields _ _ _ _ X1) as [J1 [_ [_ [_ [C1 _]]]]]. pose proof (index_row_fields _ _ _ _ X2) as [J2 [_ [_ [_ [C2 _]]]]].
    destruct (Hcoh _ _ R1 R2) as [_ Q]; [simpl; congruence|].
    unfold crow_of in Q; simpl in Q. rewrite Hc in Q. unfold cov_ints in Q. rewrite C1, C2 in Q. contradiction.
Qed.

(* ------------------------------------------------------------------ tensors *)
Lemma list_max_nat_perm l l' : Permutation l l' -> list_max_nat l = list_max_nat l'.
Proof. unfold list_max_nat. induction 1; simpl; lia. Qed.
Lemma sum_nat_perm l l' : Permutation l l' -> sum_nat l = sum_nat l'.
Proof. unfold sum_nat. induction 1; simpl; lia. Qed.
Lemma list_max_nat_ge l n : In n l -> (n <= list_max_nat l)%nat.
Proof. unfold list_max_nat. induction l as [|a l IH]; simpl; [contradiction|]. intros [<- | H]; [lia | specialize (IH H); lia]. Qed.

Lemma map_repeat {A B} (f : A -> B) x n : map f (repeat x n) = repeat (f x) n.
Proof. induction n; simpl; [reflexivity | now rewrite IHn]. Qed.
Lemma map_pad {A B} (f : A -> B) d n l : map f (pad d n l) = pad (f d) n (map f l).
Proof. unfold pad. rewrite map_app, map_repeat, map_length. reflexivity. Qed.

(** closed forms: one visit list drives the three tensors *)
Lemma ind_times_closed P nmax i :
  ind_times P nmax i = map (fun v => store P (micro P (fst v))) (i_visits i) ++ repeat 0%Q (nmax - List.length (i_visits i)).
Proof. unfold ind_times, pad. rewrite map_length. reflexivity. Qed.

Lemma ind_values_closed P nmax nfeat i :
  ind_values P nmax nfeat i =
  map (fun v => map (fun c => match c with Some q => store P q | None => 0%Q end) (snd v)) (i_visits i)
  ++ repeat (repeat 0%Q nfeat) (nmax - List.length (i_visits i)).
Proof.
  unfold ind_values, ind_values_nan. rewrite map_pad. unfold pad. rewrite !map_length, map_map, map_repeat. f_equal.
  apply map_ext. intros v. rewrite map_map. apply map_ext. intros [q|]; reflexivity.
Qed.

Lemma map2_app {A B C} (f : A -> B -> C) a1 : forall b1 a2 b2,
  List.length a1 = List.length b1 -> map2 f (a1 ++ a2) (b1 ++ b2) = map2 f a1 b1 ++ map2 f a2 b2.
Proof.
  induction a1 as [|x a1 IH]; destruct b1 as [|y b1]; simpl; intros a2 b2 H; try discriminate; [reflexivity|].
  f_equal. apply IH. lia.
Qed.
Lemma map2_andb_true r : map2 andb (repeat true (List.length r)) r = r.
Proof. induction r as [|b r IH]; simpl; [reflexivity|]. now rewrite IH. Qed.
Lemma map2_andb_false n : forall r, List.length r = n -> map2 andb (repeat false n) r = repeat false n.
Proof. induction n; destruct r; simpl; intros H; try discriminate; [reflexivity|]. f_equal. apply IHn. lia. Qed.

Lemma mask_real n nfeat : forall l (rows : list (list bool)),
  List.length l = List.length rows -> Forall (fun j => (j < n)%nat) l -> Forall (fun r => List.length r = nfeat) rows ->
  map2 (map2 andb) (map (fun j => repeat (Nat.ltb j n) nfeat) l) rows = rows.
Proof.
  induction l as [|j l IH]; destruct rows as [|r rows]; simpl; intros HL Hj Hr; try discriminate; [reflexivity|].
  inversion Hj; inversion Hr; subst. f_equal; [|apply IH; auto].
  assert (E : Nat.ltb j n = true) by now apply Nat.ltb_lt. rewrite E. apply map2_andb_true.
Qed.
Lemma mask_padding n nfeat : forall l (rows : list (list bool)),
  List.length l = List.length rows -> Forall (fun j => (n <= j)%nat) l -> Forall (fun r => List.length r = nfeat) rows ->
  map2 (map2 andb) (map (fun j => repeat (Nat.ltb j n) nfeat) l) rows = repeat (repeat false nfeat) (List.length rows).
Proof.
  induction l as [|j l IH]; destruct rows as [|r rows]; simpl; intros HL Hj Hr; try discriminate; [reflexivity|].
  inversion Hj; inversion Hr; subst. f_equal; [|apply IH; auto].
  assert (E : Nat.ltb j n = false) by now apply Nat.ltb_ge. rewrite E. now apply map2_andb_false.
Qed.

Definition rectangular_ind (nfeat : nat) (i : indiv) : Prop := Forall (fun v => List.length (snd v) = nfeat) (i_visits i).

(** mask = 1 exactly on (real visit, value present) *)
Lemma ind_mask_closed P nmax nfeat i :
  (List.length (i_visits i) <= nmax)%nat -> rectangular_ind nfeat i ->
  ind_mask P nmax nfeat i =
  map (fun v => map is_some (snd v)) (i_visits i) ++ repeat (repeat false nfeat) (nmax - List.length (i_visits i)).
Proof.
  intros Hn Hrect. unfold ind_mask, ind_padding_mask, ind_values_nan, pad.
  set (n := List.length (i_visits i)) in *.
  replace nmax with (n + (nmax - n))%nat at 1 by lia. rewrite seq_app, map_app. rewrite !map_app, !map_length. fold n.
  rewrite map2_app by (rewrite !map_length, seq_length; reflexivity).
  f_equal.
  - rewrite mask_real.
    + rewrite map_map. apply map_ext. intros v. rewrite map_map. apply map_ext. intros [q|]; reflexivity.
    + rewrite !map_length, seq_length. reflexivity.
    + apply Forall_forall. intros j Hj. apply in_seq in Hj. lia.
    + rewrite map_map. apply Forall_forall. intros r Hr. apply in_map_iff in Hr. destruct Hr as [v [<- Hv]].
      rewrite !map_length. unfold rectangular_ind in Hrect. rewrite Forall_forall in Hrect. now apply Hrect.
  - rewrite mask_padding.
    + rewrite map_length, repeat_length. reflexivity.
    + rewrite map_length, seq_length, repeat_length. reflexivity.
    + apply Forall_forall. intros j Hj. apply in_seq in Hj. simpl in Hj. lia.
    + apply Forall_forall. intros r Hr. apply in_map_iff in Hr. destruct Hr as [v [<- Hv]].
      apply repeat_spec in Hv. subst v. rewrite map_length, repeat_length. reflexivity.
Qed.

(** a dataset whose tensors are, row by row, the blocks of the individuals [inds] padded to [nmax] *)
Definition built_from (P : params) (nmax nfeat : nat) (inds : list indiv) (d : dataset) : Prop :=
  d_indices d = map i_id inds
  /\ d_times d = map (ind_times P nmax) inds
  /\ d_values d = map (ind_values P nmax nfeat) inds
  /\ d_mask d = map (ind_mask P nmax nfeat) inds
  /\ d_nvis d = map (fun i => List.length (i_visits i)) inds
  /\ d_nobs_ind_ft d = map (fun i => col_counts nfeat (ind_mask P nmax nfeat i)) inds
  /\ d_nvis_max d = nmax.

Lemma construct_built P L nfeat inds :
  has_time L = true ->
  built_from P (list_max_nat (map (fun i => List.length (i_visits i)) inds)) nfeat inds (construct P L nfeat inds).
Proof. intros Ht. unfold built_from, construct. simpl. rewrite Ht. rewrite map_map. repeat split; reflexivity. Qed.

Lemma col_sums_perm nfeat m m' : Permutation m m' -> col_sums nfeat m = col_sums nfeat m'.
Proof.
  intros Hp. unfold col_sums. apply map_ext. intros j. apply sum_nat_perm. now apply Permutation_map.
Qed.

(** Dataset level: same blocks, same padding, same counters, whatever the row order *)

Lemma ingest_perm P t rows' d d' :
  has_time (t_layout t) = true -> Permutation (t_rows t) rows' ->
  ingest P t = Ok d -> ingest P (with_rows t rows') = Ok d' ->
  exists inds inds', ingest_data P t = Ok inds /\ ingest_data P (with_rows t rows') = Ok inds' /\
    Permutation inds inds' /\ NoDup (map i_id inds) /\
    built_from P (d_nvis_max d) (t_nfeat t) inds d /\ built_from P (d_nvis_max d) (t_nfeat t) inds' d' /\
    d_nvis_total d = d_nvis_total d' /\ d_nobs_ft d = d_nobs_ft d' /\ d_nobs d = d_nobs d'.
Proof.
  intros Ht Hp H H'. unfold ingest in *.
  apply bind_ok in H. destruct H as [inds [Hi H]]. apply bind_ok in H'. destruct H' as [inds' [Hi' H']].
  inversion H; inversion H'; subst d d'; clear H H'. simpl t_layout in *. simpl t_nfeat in *.
  destruct (ingest_data_perm _ _ _ _ _ Hp Hi Hi') as [Pi _].
  exists inds, inds'. split; [exact Hi|]. split; [exact Hi'|]. split; [exact Pi|].
  split; [eapply ingest_data_ids_nodup; eauto|].
  assert (Pn : Permutation (map (fun i => List.length (i_visits i)) inds) (map (fun i => List.length (i_visits i)) inds')) by now apply Permutation_map.
  assert (En := list_max_nat_perm _ _ Pn).
  assert (Emax : d_nvis_max (construct P (t_layout t) (t_nfeat t) inds) = list_max_nat (map (fun i => List.length (i_visits i)) inds)).
  { unfold construct; simpl. now rewrite Ht. }
  rewrite Emax. split; [now apply construct_built|]. split; [rewrite En; now apply construct_built|].
  unfold construct; simpl. rewrite Ht. rewrite <- En.
  set (nmax := list_max_nat (map (fun i => List.length (i_visits i)) inds)).
  assert (Pm : Permutation (map (col_counts (t_nfeat t)) (map (ind_mask P nmax (t_nfeat t)) inds))
                           (map (col_counts (t_nfeat t)) (map (ind_mask P nmax (t_nfeat t)) inds'))) by (do 2 apply Permutation_map; exact Pi).
  split; [now apply sum_nat_perm|]. split; [now apply col_sums_perm|]. f_equal. now apply col_sums_perm.
Qed.

Lemma ingest_perm_whole P t rows' d d' :
  has_time (t_layout t) = true -> Permutation (t_rows t) rows' ->
  (forall cr nb cr' nb', clean P t = Ok (cr, nb) -> clean P (with_rows t rows') = Ok (cr', nb') -> firsts (map c_id cr) = firsts (map c_id cr')) ->
  ingest P t = Ok d -> ingest P (with_rows t rows') = Ok d' -> d = d'.
Proof.
  intros Ht Hp Hf H H'. unfold ingest in *.
  apply bind_ok in H. destruct H as [inds [Hi H]]. apply bind_ok in H'. destruct H' as [inds' [Hi' H']].
  destruct (ingest_data_perm _ _ _ _ _ Hp Hi Hi') as [_ E]. rewrite (E Ht Hf) in H. simpl in H'. congruence.
Qed.

(* ------------------------------------------------------------------ to_pandas, one individual *)
Definition qages (l : list qvisit) : list Q := map fst l.
Fixpoint qsorted (l : list Q) : Prop :=
  match l with
  | [] => True
  | a :: r => Forall (fun b => a < b)%Q r /\ qsorted r
  end.

Lemma insert_qvisit_last (v : qvisit) : forall acc : list qvisit, Forall (fun a => (a < fst v)%Q) (qages acc) -> insert_qvisit v acc = acc ++ [v].
Proof.
  induction acc as [|w acc IH]; simpl; intros H; [reflexivity|]. inversion H; subst.
  assert (E : Qlt_bool (fst v) (fst w) = false).
  { destruct (Qlt_bool (fst v) (fst w)) eqn:E; [|reflexivity]. apply Qlt_bool_iff in E. exfalso. eapply Qlt_irrefl. eapply Qlt_trans; eauto. }
  rewrite E. f_equal. now apply IH.
Qed.

Lemma existsb_qeq_false (v : qvisit) (acc : list qvisit) : Forall (fun a => (a < fst v)%Q) (qages acc) -> existsb (Qeq_bool (fst v)) (map fst acc) = false.
Proof.
  induction acc as [|w acc IH]; simpl; intros H; [reflexivity|]. inversion H; subst. rewrite IH by assumption.
  destruct (Qeq_bool (fst v) (fst w)) eqn:E; [|reflexivity]. apply Qeq_bool_iff in E. rewrite E in H2. exfalso. eapply Qlt_irrefl; eauto.
Qed.

(** ages read back from the tensor that are strictly increasing are re-inserted in place: the individual is rebuilt unchanged *)
Lemma add_qobservations_sorted (vs : list qvisit) : forall acc : list qvisit,
  qsorted (qages (acc ++ vs)) -> add_qobservations acc vs = Ok (acc ++ vs).
Proof.
  induction vs as [|v vs IH]; simpl; intros acc Hs; [now rewrite app_nil_r|].
  assert (Hlt : Forall (fun a => (a < fst v)%Q) (qages acc)).
  { clear IH. induction acc as [|w acc IHa]; simpl in *; [constructor|]. destruct Hs as [H1 H2]. constructor.
    - rewrite Forall_forall in H1. apply H1. unfold qages. rewrite map_app. apply in_or_app. right. now left.
    - now apply IHa. }
  assert (E : add_qobservation acc v = Ok (acc ++ [v])).
  { unfold add_qobservation. destruct acc as [|w acc]; [reflexivity|].
    rewrite existsb_qeq_false by assumption. now rewrite insert_qvisit_last. }
  rewrite E. simpl. rewrite IH; rewrite <- app_assoc; simpl; [reflexivity | exact Hs].
Qed.
