(** C14 — proofs about the ingestion model of Io/Ingest.v. *)
From Coq Require Import ZArith QArith Qround Qabs List Bool String Ascii Lia Permutation Sorted.
From Leaspy Require Import Base.QAux Io.Ingest.
Import ListNotations.
Open Scope Z_scope.

(* ------------------------------------------------------------------ small tools *)
Ltac inv_bind H :=
  repeat match type of H with
  | bind ?r _ = Ok _ => let E := fresh "E" in destruct r eqn:E; simpl in H; [| discriminate H]
  | context [bind ?r _] => unfold bind in H
  end.

Lemma bind_ok {A B} (r : result A) (f : A -> result B) b :
  bind r f = Ok b -> exists a, r = Ok a /\ f a = Ok b.
Proof. destruct r; simpl; [eauto | discriminate]. Qed.

Lemma bind_err_l {A B} (r : result A) (f : A -> result B) e : r = Err e -> bind r f = Err e.
Proof. intros ->. reflexivity. Qed.

Lemma refuse_if_ok b : refuse_if b = Ok tt -> b = false.
Proof. destruct b; simpl; [discriminate | reflexivity]. Qed.
Lemma refuse_if_ok' b u : refuse_if b = Ok u -> b = false.
Proof. destruct b; simpl; [discriminate | reflexivity]. Qed.

Lemma ident_eqb_eq a b : ident_eqb a b = true <-> a = b.
Proof.
  destruct a, b; simpl; split; intros H; try discriminate.
  - apply String.eqb_eq in H. now subst.
  - inversion H. apply String.eqb_refl.
  - apply Z.eqb_eq in H. now subst.
  - inversion H. apply Z.eqb_refl.
Qed.
Lemma ident_eqb_refl a : ident_eqb a a = true.
Proof. now apply ident_eqb_eq. Qed.
Lemma ident_eqb_neq a b : ident_eqb a b = false <-> a <> b.
Proof.
  split.
  - intros H E. apply ident_eqb_eq in E. congruence.
  - intros H. destruct (ident_eqb a b) eqn:E; [|reflexivity]. apply ident_eqb_eq in E. contradiction.
Qed.
Lemma ident_eqb_sym a b : ident_eqb a b = ident_eqb b a.
Proof.
  destruct (ident_eqb a b) eqn:E.
  - apply ident_eqb_eq in E. subst. symmetry. apply ident_eqb_refl.
  - symmetry. apply ident_eqb_neq. apply ident_eqb_neq in E. congruence.
Qed.
Lemma ident_eq_dec (a b : ident) : {a = b} + {a <> b}.
Proof. destruct (ident_eqb a b) eqn:E; [left; now apply ident_eqb_eq | right; now apply ident_eqb_neq]. Qed.

Lemma mapM_Forall2 {A B} (f : A -> result B) l r :
  mapM f l = Ok r -> Forall2 (fun a b => f a = Ok b) l r.
Proof.
  revert r. induction l as [|a l IH]; simpl; intros r H.
  - inversion H. constructor.
  - apply bind_ok in H. destruct H as [b [Hb H]]. apply bind_ok in H. destruct H as [bs [Hbs H]].
    inversion H. subst. constructor; auto.
Qed.
Lemma Forall2_mapM {A B} (f : A -> result B) l r :
  Forall2 (fun a b => f a = Ok b) l r -> mapM f l = Ok r.
Proof. induction 1; simpl; [reflexivity|]. rewrite H. simpl. rewrite IHForall2. reflexivity. Qed.
Lemma mapM_ext {A B} (f g : A -> result B) l : (forall a, In a l -> f a = g a) -> mapM f l = mapM g l.
Proof.
  induction l as [|a l IH]; simpl; intros H; [reflexivity|].
  rewrite (H a) by auto. rewrite IH by auto. reflexivity.
Qed.
Lemma mapM_map {A B} (f : A -> B) l : mapM (fun a => Ok (f a)) l = Ok (map f l).
Proof. induction l; simpl; [reflexivity|]. rewrite IHl. reflexivity. Qed.

(* ------------------------------------------------------------------ sorted insertion *)
Definition ages (l : list visit) : list Z := map fst l.
Definition ssorted (l : list visit) : Prop := StronglySorted Z.lt (ages l).

Lemma insert_visit_perm v l : Permutation (insert_visit v l) (v :: l).
Proof.
  induction l as [|w r IH]; simpl; [reflexivity|].
  destruct (fst v <? fst w); [reflexivity|].
  rewrite IH. apply perm_swap.
Qed.

Lemma insert_visit_sorted v l :
  ssorted l -> ~ In (fst v) (ages l) -> ssorted (insert_visit v l).
Proof.
  unfold ssorted, ages. induction l as [|w r IH]; simpl; intros Hs Hn.
  - constructor; constructor.
  - inversion Hs as [|? ? Hr Hall]; subst.
    destruct (fst v <? fst w) eqn:E; simpl.
    + apply Z.ltb_lt in E. constructor; [exact Hs|]. constructor; [exact E|].
      eapply Forall_impl; [|exact Hall]. intros; lia.
    + apply Z.ltb_ge in E. constructor.
      * apply IH; [exact Hr | tauto].
      * assert (Hp := insert_visit_perm v r).
        apply Forall_forall. intros x Hx.
        apply (Permutation_in _ (Permutation_map fst Hp)) in Hx. simpl in Hx.
        destruct Hx as [<- | Hx]; [ assert (fst w <> fst v) by tauto; lia |].
        rewrite Forall_forall in Hall. now apply Hall.
Qed.

Lemma existsb_eqb_In z l : existsb (Z.eqb z) l = true <-> In z l.
Proof.
  rewrite existsb_exists. split.
  - intros [x [Hx E]]. apply Z.eqb_eq in E. now subst.
  - intros H. exists z. split; [exact H | apply Z.eqb_refl].
Qed.

Lemma add_observation_spec acc v r :
  add_observation acc v = Ok r -> ssorted acc ->
  ssorted r /\ Permutation r (v :: acc) /\ ~ In (fst v) (ages acc).
Proof.
  unfold add_observation. destruct acc as [|w a].
  - intros H _. inversion H. subst. repeat split; [constructor; constructor | reflexivity | auto].
  - destruct (existsb (Z.eqb (fst v)) (map fst (w :: a))) eqn:E; [discriminate|].
    intros H Hs. assert (Hr : r = insert_visit v (w :: a)) by congruence. clear H. subst r.
    assert (Hn : ~ In (fst v) (ages (w :: a))).
    { intros C. apply existsb_eqb_In in C. unfold ages in C. congruence. }
    repeat split; [now apply insert_visit_sorted | apply insert_visit_perm | exact Hn].
Qed.

Lemma add_observations_spec vs : forall acc r,
  add_observations acc vs = Ok r -> ssorted acc ->
  ssorted r /\ Permutation r (acc ++ vs) /\ NoDup (ages vs) /\ (forall z, In z (ages vs) -> ~ In z (ages acc)).
Proof.
  induction vs as [|v vs IH]; simpl; intros acc r H Hs.
  - inversion H; subst. rewrite app_nil_r. repeat split; [exact Hs | reflexivity | constructor | intros ? []].
  - apply bind_ok in H. destruct H as [acc' [H1 H2]].
    destruct (add_observation_spec _ _ _ H1 Hs) as [Hs' [Hp Hn]].
    destruct (IH _ _ H2 Hs') as [Hr [Hpr [Hnd Hdis]]].
    assert (Hages : forall z, In z (ages acc') <-> z = fst v \/ In z (ages acc)).
    { intros z. unfold ages. split; intros Hz.
      - apply (Permutation_in _ (Permutation_map fst Hp)) in Hz. simpl in Hz. intuition.
      - apply (Permutation_in _ (Permutation_sym (Permutation_map fst Hp))). simpl. intuition. }
    repeat split.
    + exact Hr.
    + rewrite Hpr. rewrite Hp. simpl. apply Permutation_middle.
    + constructor; [|exact Hnd]. intros C. apply (Hdis _ C). apply Hages. now left.
    + intros z [<- | Hz]; [exact Hn|]. intros C. apply (Hdis _ Hz). apply Hages. now right.
Qed.

(** conversely: distinct ages are always accepted *)
Lemma add_observations_total vs : forall acc,
  NoDup (ages vs) -> (forall z, In z (ages vs) -> ~ In z (ages acc)) -> exists r, add_observations acc vs = Ok r.
Proof.
  induction vs as [|v vs IH]; simpl; intros acc Hnd Hdis; [eauto|].
  inversion Hnd as [|? ? Hv Hnd']; subst.
  assert (exists acc', add_observation acc v = Ok acc' /\ Permutation acc' (v :: acc)) as [acc' [E Hp]].
  { unfold add_observation. destruct acc as [|w a]; [eexists; split; [reflexivity | reflexivity]|].
    destruct (existsb (Z.eqb (fst v)) (map fst (w :: a))) eqn:X.
    - apply existsb_eqb_In in X. exfalso. apply (Hdis (fst v)); [now left | exact X].
    - eexists; split; [reflexivity | apply insert_visit_perm]. }
  rewrite E. simpl. apply IH; [exact Hnd'|].
  intros z Hz C. apply (Permutation_in _ (Permutation_map fst Hp)) in C. simpl in C.
  destruct C as [<- | C]; [contradiction|]. apply (Hdis z); [now right | exact C].
Qed.

(** a strictly sorted list is determined by its elements *)
Lemma ssorted_perm_eq (l1 : list visit) : forall l2, ssorted l1 -> ssorted l2 -> Permutation l1 l2 -> l1 = l2.
Proof.
  unfold ssorted, ages. induction l1 as [|a r1 IH]; intros l2 H1 H2 Hp.
  - apply Permutation_nil in Hp. now subst.
  - destruct l2 as [|b r2]; [apply Permutation_sym, Permutation_nil in Hp; discriminate|].
    simpl in *. inversion H1 as [|? ? Hr1 Ha]; inversion H2 as [|? ? Hr2 Hb]; subst.
    assert (a = b).
    { assert (Ia : In a (b :: r2)) by (apply (Permutation_in _ Hp); now left).
      assert (Ib : In b (a :: r1)) by (apply (Permutation_in _ (Permutation_sym Hp)); now left).
      destruct Ia as [<- | Ia]; [reflexivity|]. destruct Ib as [<- | Ib]; [reflexivity|].
      rewrite Forall_forall in Ha, Hb.
      assert (fst a < fst b) by (apply Ha; now apply in_map).
      assert (fst b < fst a) by (apply Hb; now apply in_map). lia. }
    subst b. f_equal. apply IH; auto. eapply Permutation_cons_inv; eauto.
Qed.

(** hence [add_observations []] only depends on the *set* of visits *)
Lemma add_observations_perm vs vs' r r' :
  Permutation vs vs' -> add_observations [] vs = Ok r -> add_observations [] vs' = Ok r' -> r = r'.
Proof.
  intros Hp H H'.
  destruct (add_observations_spec _ _ _ H) as [Hs [Hpr _]]; [constructor|].
  destruct (add_observations_spec _ _ _ H') as [Hs' [Hpr' _]]; [constructor|].
  apply ssorted_perm_eq; auto. simpl in *. rewrite Hpr, Hpr'. exact Hp.
Qed.
Lemma add_observations_perm_ok vs vs' r :
  Permutation vs vs' -> add_observations [] vs = Ok r -> add_observations [] vs' = Ok r.
Proof.
  intros Hp H.
  destruct (add_observations_spec _ _ _ H) as [_ [_ [Hnd _]]]; [constructor|].
  destruct (add_observations_total vs' []) as [r' Hr'].
  - eapply Permutation_NoDup; [apply Permutation_map; exact Hp | exact Hnd].
  - intros ? ? [].
  - rewrite Hr'. f_equal. symmetry. eapply add_observations_perm; eauto.
Qed.

(* ------------------------------------------------------------------ first occurrences *)
Lemma firsts_In x l : In x (firsts l) <-> In x l.
Proof.
  induction l as [|a l IH]; simpl; [tauto|].
  rewrite filter_In, IH. destruct (ident_eq_dec a x) as [->|N].
  - tauto.
  - split; [tauto|]. intros [E|H]; [contradiction|]. right. split; [exact H|].
    apply negb_true_iff. now apply ident_eqb_neq.
Qed.
Lemma firsts_NoDup l : NoDup (firsts l).
Proof.
  induction l as [|a l IH]; simpl; [constructor|].
  constructor.
  - rewrite filter_In. intros [_ H]. rewrite ident_eqb_refl in H. discriminate.
  - now apply NoDup_filter.
Qed.
Lemma firsts_perm l l' : Permutation l l' -> Permutation (firsts l) (firsts l').
Proof.
  intros Hp. apply NoDup_Permutation; try apply firsts_NoDup.
  intros x. rewrite !firsts_In. split; apply Permutation_in; [exact Hp | now apply Permutation_sym].
Qed.

Lemma filter_perm {A} (f : A -> bool) l l' : Permutation l l' -> Permutation (filter f l) (filter f l').
Proof.
  induction 1; simpl.
  - constructor.
  - destruct (f x); [now constructor | assumption].
  - destruct (f x), (f y); try reflexivity; try apply perm_swap.
  - etransitivity; eauto.
Qed.

Lemma mapM_perm_ok {A B} (f : A -> result B) l l' :
  Permutation l l' -> forall r, mapM f l = Ok r -> exists r', mapM f l' = Ok r' /\ Permutation r r'.
Proof.
  induction 1; intros r Hr.
  - exists r. split; [exact Hr|reflexivity].
  - simpl in Hr. apply bind_ok in Hr. destruct Hr as [b [Hb Hr]]. apply bind_ok in Hr. destruct Hr as [bs [Hbs Hr]].
    inversion Hr; subst. destruct (IHPermutation _ Hbs) as [bs' [E P']].
    exists (b :: bs'). simpl. rewrite Hb. simpl. rewrite E. simpl. split; [reflexivity | now constructor].
  - simpl in Hr. apply bind_ok in Hr. destruct Hr as [b [Hb Hr]]. apply bind_ok in Hr. destruct Hr as [bs [Hbs Hr]].
    apply bind_ok in Hbs. destruct Hbs as [c [Hc Hbs]]. apply bind_ok in Hbs. destruct Hbs as [cs [Hcs Hbs]].
    inversion Hr; inversion Hbs; subst.
    exists (c :: b :: cs). simpl. rewrite Hc, Hb. simpl. rewrite Hcs. simpl. split; [reflexivity | apply perm_swap].
  - destruct (IHPermutation1 _ Hr) as [r1 [E1 P1]]. destruct (IHPermutation2 _ E1) as [r2 [E2 P2]].
    exists r2. split; [exact E2 | etransitivity; eauto].
Qed.
Lemma mapM_perm {A B} (f : A -> result B) l l' r r' :
  Permutation l l' -> mapM f l = Ok r -> mapM f l' = Ok r' -> Permutation r r'.
Proof.
  intros Hp H H'. destruct (mapM_perm_ok f _ _ Hp _ H) as [r2 [E P2]]. congruence.
Qed.

(* ------------------------------------------------------------------ what an accepted table went through *)
Definition kept (t : table) (xs : list irow) : list irow :=
  if t_drop_full_nan t then filter (fun x => negb (forallb is_nan (data_cells (t_layout t) x))) xs else xs.

(** all rows of one ID carry the same event and the same covariates *)
Definition coherent (rows : list crow) : Prop :=
  forall r1 r2, In r1 rows -> In r2 rows -> c_id r1 = c_id r2 -> c_ev r1 = c_ev r2 /\ c_cov r1 = c_cov r2.

Lemma unique_per_id_spec {A} (eqb : A -> A -> bool) (f : irow -> A) xs :
  unique_per_id eqb f xs = true ->
  forall x y, In x xs -> In y xs -> x_id x = x_id y -> eqb (f x) (f y) = true.
Proof.
  unfold unique_per_id. rewrite forallb_forall. intros H x y Hx Hy E.
  specialize (H x Hx). rewrite forallb_forall in H. specialize (H y Hy).
  rewrite E, ident_eqb_refl in H. exact H.
Qed.

Lemma list_eqbZ_eq a : forall b, list_eqbZ a b = true -> a = b.
Proof.
  induction a as [|x a IH]; destruct b as [|y b]; simpl; intros H; try discriminate; [reflexivity|].
  apply andb_true_iff in H. destruct H as [H1 H2]. apply Z.eqb_eq in H1. subst. f_equal. now apply IH.
Qed.

Lemma clean_events_coherent P t lost xs nb :
  clean_events P t lost xs = Ok nb ->
  forall x y, In x xs -> In y xs -> x_id x = x_id y ->
    exists tx bx ty by_, x_evt x = Fin tx /\ x_evb x = Fin bx /\ x_evt y = Fin ty /\ x_evb y = Fin by_ /\
      round_time P tx = round_time P ty /\ Qfloor bx = Qfloor by_.
Proof.
  unfold clean_events. intros H.
  apply bind_ok in H. destruct H as [u1 [H1 H]]. apply refuse_if_ok' in H1. apply negb_false_iff in H1.
  apply bind_ok in H. destruct H as [u2 [H2 H]].
  apply bind_ok in H. destruct H as [u3 [H3 H]]. apply refuse_if_ok' in H3. apply negb_false_iff in H3.
  apply bind_ok in H. destruct H as [evs [Hevs H]].
  apply bind_ok in H. destruct H as [u4 [_ H]].
  apply bind_ok in H. destruct H as [u5 [H5 H]]. apply refuse_if_ok' in H5. apply negb_false_iff in H5.
  apply andb_true_iff in H5. destruct H5 as [U1 U2].
  intros x y Hx Hy E.
  rewrite forallb_forall in H1, H3.
  pose proof (H1 x Hx) as A1. pose proof (H1 y Hy) as A2. pose proof (H3 x Hx) as B1. pose proof (H3 y Hy) as B2.
  destruct (x_evt x) as [tx| |] eqn:Etx; try discriminate. destruct (x_evt y) as [ty| |] eqn:Ety; try discriminate.
  destruct (x_evb x) as [bx| |] eqn:Ebx; try discriminate. destruct (x_evb y) as [by_| |] eqn:Eby; try discriminate.
  exists tx, bx, ty, by_. repeat split; try reflexivity.
  - pose proof (unique_per_id_spec _ _ _ U1 x y Hx Hy E) as Q. simpl in Q. rewrite Etx, Ety in Q. now apply Z.eqb_eq.
  - pose proof (unique_per_id_spec _ _ _ U2 x y Hx Hy E) as Q. simpl in Q. rewrite Ebx, Eby in Q. now apply Z.eqb_eq.
Qed.

Lemma clean_covariates_coherent t lost xs u :
  clean_covariates t lost xs = Ok u ->
  forall x y, In x xs -> In y xs -> x_id x = x_id y -> cov_ints x = cov_ints y.
Proof.
  unfold clean_covariates. intros H.
  apply bind_ok in H. destruct H as [u1 [_ H]]. apply bind_ok in H. destruct H as [u2 [_ H]].
  apply bind_ok in H. destruct H as [u3 [_ H]]. apply bind_ok in H. destruct H as [u4 [H4 H]].
  apply refuse_if_ok' in H4. apply negb_false_iff in H4.
  intros x y Hx Hy E. apply list_eqbZ_eq. exact (unique_per_id_spec _ _ _ H4 x y Hx Hy E).
Qed.

Lemma nodupb_NoDup l : nodupb l = true -> NoDup l.
Proof.
  induction l as [|k l IH]; simpl; intros H; [constructor|].
  apply andb_true_iff in H. destruct H as [H1 H2]. constructor; [|now apply IH].
  intros C. apply negb_true_iff in H1. assert (existsb (key_eqb k) l = true); [|congruence].
  apply existsb_exists. exists k. split; [exact C|]. unfold key_eqb. rewrite ident_eqb_refl, Z.eqb_refl. reflexivity.
Qed.

(** Everything [clean] guarantees about an accepted table. *)
Lemma clean_ok P t rows nb :
  clean P t = Ok (rows, nb) ->
  exists xs, mapM (index_row P (t_layout t)) (t_rows t) = Ok xs
    /\ NoDup (map xkey xs)
    /\ rows = map (crow_of P (t_layout t)) (kept t xs)
    /\ coherent rows
    /\ (has_event (t_layout t) = true -> exists u, clean_events P t
          (match t_idkind t with KCategorical => existsb (fun i => negb (existsb (ident_eqb i) (ids_of (kept t xs)))) (ids_of xs) | _ => false end)
          (kept t xs) = Ok nb /\ u = tt)
    /\ (has_time (t_layout t) = true -> kept t xs <> []).
Proof.
  unfold clean. intros H.
  apply bind_ok in H. destruct H as [u0 [_ H]].
  apply bind_ok in H. destruct H as [xs [Hci H]].
  apply bind_ok in H. destruct H as [xs0 [Hx0 H]]. inversion Hx0; subst xs0; clear Hx0.
  apply bind_ok in H. destruct H as [xk [Hcn H]].
  apply bind_ok in H. destruct H as [u1 [_ H]].
  apply bind_ok in H. destruct H as [nb' [Hl H]]. inversion H; subst nb' rows; clear H.
  unfold clean_index in Hci.
  apply bind_ok in Hci. destruct Hci as [v0 [_ Hci]]. apply bind_ok in Hci. destruct Hci as [v1 [_ Hci]].
  apply bind_ok in Hci. destruct Hci as [xs' [Hm Hci]]. apply bind_ok in Hci. destruct Hci as [v2 [Hnd Hci]].
  inversion Hci; subst xs'; clear Hci. apply refuse_if_ok' in Hnd. apply negb_false_iff in Hnd.
  unfold clean_numeric in Hcn.
  apply bind_ok in Hcn. destruct Hcn as [w0 [_ Hcn]]. apply bind_ok in Hcn. destruct Hcn as [w1 [_ Hcn]].
  inversion Hcn; clear Hcn. fold (kept t xs) in *. subst xk.
  exists xs. split; [exact Hm|]. split; [now apply nodupb_NoDup|]. split; [reflexivity|].
  assert (Hvis : forall u, clean_visits t (kept t xs) = Ok u -> kept t xs <> []).
  { intros u Hv. unfold clean_visits in Hv. apply bind_ok in Hv. destruct Hv as [z [Hz _]].
    apply refuse_if_ok' in Hz. intros C. rewrite C in Hz. discriminate. }
  split; [|split].
  - (* coherent *)
    intros r1 r2 H1 H2 E. apply in_map_iff in H1. destruct H1 as [x [<- Hx]]. apply in_map_iff in H2. destruct H2 as [y [<- Hy]].
    simpl in E. unfold crow_of; simpl.
    destruct (t_layout t) eqn:EL; simpl in *.
    + auto.
    + pose proof (clean_events_coherent _ _ _ _ _ Hl x y Hx Hy E) as [tx [bx [ty [by_ [-> [-> [-> [-> [Q1 Q2]]]]]]]]].
      rewrite Q1, Q2. auto.
    + apply bind_ok in Hl. destruct Hl as [q0 [_ Hl]]. apply bind_ok in Hl. destruct Hl as [nb2 [Hl _]].
      pose proof (clean_events_coherent _ _ _ _ _ Hl x y Hx Hy E) as [tx [bx [ty [by_ [-> [-> [-> [-> [Q1 Q2]]]]]]]]].
      rewrite Q1, Q2. auto.
    + apply bind_ok in Hl. destruct Hl as [q0 [_ Hl]]. apply bind_ok in Hl. destruct Hl as [q1 [Hl _]].
      split; [reflexivity|]. exact (clean_covariates_coherent _ _ _ _ Hl x y Hx Hy E).
  - intros He. exists tt. split; [|reflexivity]. destruct (t_layout t) eqn:EL; simpl in *; try discriminate.
    + exact Hl.
    + apply bind_ok in Hl. destruct Hl as [q0 [_ Hl]]. apply bind_ok in Hl. destruct Hl as [nb2 [Hl Hc]].
      apply bind_ok in Hc. destruct Hc as [q1 [_ Hc]]. inversion Hc; subst. exact Hl.
  - intros Ht. destruct (t_layout t) eqn:EL; simpl in *; try discriminate;
      apply bind_ok in Hl; destruct Hl as [q0 [Hv _]]; eapply Hvis; eauto.
Qed.
