(** C09 — [BaseModel.estimate] (src/leaspy/models/base.py:864-937) as list operations.  Definitions only.

    Mirrors the code line by line:
    - 866      a dict request maps each ID to "a unique time-point or a list of time-points"          -> [ages], [request]
    - 896-904  a [pd.MultiIndex] request is turned into a dict by [to_frame()["TIME"].groupby("ID")]: pandas' groupby
               sorts the group keys and keeps the original row order inside each group           -> [group]
    - 905-909  one call of [compute_individual_trajectory(tpts, ip)] per key, in dict order, [tpts] being passed as
               it was given (scalar or list)                                                        -> [estimations]
    - 912-923  [pd.concat] of one frame per individual, indexed by [np.atleast_1d] of the requested ages of that
               individual (a scalar age is an index of length one; pandas refuses a frame whose number of rows
               differs from the length of its index)                                                -> [atleast_1d], [frame]
    - 931-934  for a MultiIndex request: [estimations[~estimations.index.duplicated()]] keeps, of the rows of that frame
               carrying the same (ID, TIME) pair, the FIRST one only                                 -> [first_rows]
               then LEFT JOIN of the requested index with the de-duplicated frame on (ID, TIME): every requested
               row is followed by all rows of the joined frame carrying the same (ID, TIME) pair, in frame order; a
               requested row without match would get missing values                                  -> [join]
    - 898-899, 912  [to_dataframe] defaults to "is the request a MultiIndex"                        -> [estimate]

    The model covers requests whose IDs all have individual parameters ([individual_parameters[subj_id]] raises
    otherwise, before anything is returned); the harness checks that such a request raises on the code. *)
From Coq Require Import List Bool.
Import ListNotations.

Section Estimate.
  Variables ID T V : Type.
  Variable id_eqb : ID -> ID -> bool.
  Variable id_leb : ID -> ID -> bool.     (* the order pandas sorts group keys with *)
  Variable t_eqb : T -> T -> bool.

  (** the ages requested for one individual: a unique time-point or a list of time-points *)
  Inductive ages :=
  | One (t : T)
  | Many (ts : list T).

  (** [np.atleast_1d] *)
  Definition atleast_1d (a : ages) : list T :=
    match a with One t => [t] | Many ts => ts end.

  (** [compute_individual_trajectory]: the ages of one individual in (as given), one row per age out *)
  Variable traj : ID -> ages -> list V.

  Definition request := list (ID * ages).      (* dict input: items in insertion order *)
  Definition index := list (ID * T).           (* MultiIndex input: rows in order *)

  Inductive input :=
  | InDict (req : request)
  | InIndex (ix : index).

  Inductive output :=
  | OutDict (d : list (ID * list V))               (* {id: array of rows} in dict order *)
  | OutFrame (rows : list (ID * T * option V))     (* DataFrame rows in order; None = a row of missing values *)
  | OutError.                                      (* pandas refuses to build the frame *)

  (** sorted distinct keys *)
  Fixpoint dedup (l : list ID) : list ID :=
    match l with
    | [] => []
    | x :: r => if existsb (id_eqb x) r then dedup r else x :: dedup r
    end.

  Fixpoint ins (i : ID) (l : list ID) : list ID :=
    match l with
    | [] => [i]
    | j :: r => if id_leb i j then i :: l else j :: ins i r
    end.

  Definition isort (l : list ID) : list ID := fold_right ins [] l.

  Definition group_keys (ix : index) : list ID := isort (dedup (map fst ix)).

  Definition ages_of (i : ID) (ix : index) : list T :=
    map snd (filter (fun r => id_eqb (fst r) i) ix).

  Definition group (ix : index) : request :=
    map (fun i => (i, Many (ages_of i ix))) (group_keys ix).

  Definition estimations (req : request) : list (ID * list V) :=
    map (fun r => (fst r, traj (fst r) (snd r))) req.

  Fixpoint zip_rows (i : ID) (ts : list T) (vs : list V) : option (list (ID * T * V)) :=
    match ts, vs with
    | [], [] => Some []
    | t :: ts', v :: vs' =>
        match zip_rows i ts' vs' with Some r => Some ((i, t, v) :: r) | None => None end
    | _, _ => None
    end.

  Fixpoint frame (req : request) : option (list (ID * T * V)) :=
    match req with
    | [] => Some []
    | r :: rest =>
        match zip_rows (fst r) (atleast_1d (snd r)) (traj (fst r) (snd r)), frame rest with
        | Some a, Some b => Some (a ++ b)
        | _, _ => None
        end
    end.

  Definition pair_eqb (a b : ID * T) : bool := id_eqb (fst a) (fst b) && t_eqb (snd a) (snd b).

  Definition key_eqb (k : ID * T) (r : ID * T * V) : bool := pair_eqb k (fst r).

  (** [fr[~fr.index.duplicated()]]: a row is dropped when its (ID, TIME) pair was already seen on an earlier row *)
  Fixpoint first_rows (seen : list (ID * T)) (fr : list (ID * T * V)) : list (ID * T * V) :=
    match fr with
    | [] => []
    | r :: rest =>
        if existsb (pair_eqb (fst r)) seen then first_rows seen rest
        else r :: first_rows (fst r :: seen) rest
    end.

  Definition join (ix : index) (fr : list (ID * T * V)) : list (ID * T * option V) :=
    flat_map (fun k =>
                match filter (key_eqb k) fr with
                | [] => [(fst k, snd k, None)]
                | ms => map (fun r => (fst k, snd k, Some (snd r))) ms
                end) ix.

  Definition to_df (inp : input) (to_dataframe : option bool) : bool :=
    match to_dataframe, inp with
    | Some b, _ => b
    | None, InIndex _ => true
    | None, InDict _ => false
    end.

  Definition request_of (inp : input) : request :=
    match inp with InDict req => req | InIndex ix => group ix end.

  Definition estimate (inp : input) (to_dataframe : option bool) : output :=
    let req := request_of inp in
    if to_df inp to_dataframe then
      match frame req with
      | None => OutError
      | Some fr =>
          match inp with
          | InDict _ => OutFrame (map (fun r => (fst (fst r), snd (fst r), Some (snd r))) fr)
          | InIndex ix => OutFrame (join ix (first_rows [] fr))
          end
      end
    else OutDict (estimations req).

  (** the calls of [compute_individual_trajectory] the code makes, in order *)
  Definition calls (inp : input) : request := request_of inp.

  (** number of requested rows carrying the pair [k] *)
  Definition count (k : ID * T) (ix : index) : nat :=
    length (filter (pair_eqb k) ix).
End Estimate.

Arguments One {T}.
Arguments Many {T}.
Arguments InDict {ID T}.
Arguments InIndex {ID T}.
Arguments OutDict {ID T V}.
Arguments OutFrame {ID T V}.
Arguments OutError {ID T V}.
