(** C14 — concrete tables: non-vacuity of the hypotheses of the property theorems and the witnesses of the refuted ones. *)
From Coq Require Import ZArith QArith List Bool String Permutation.
From Leaspy Require Import Base.QAux Io.Ingest Io.F32 Io.IngestProofs.
Import ListNotations.
Open Scope string_scope.

Definition vrow (i : string) (tm : Q) (vals : list cell) : row :=
  {| r_id := Some (IdS i); r_time := Fin tm; r_vals := vals; r_evt := NaN; r_evb := NaN; r_cov := [] |}.
Definition vtable (k : idkind) (nfeat : nat) (rows : list row) : table :=
  {| t_layout := LVisit; t_idkind := k; t_time_numeric := true; t_cols_numeric := true; t_nfeat := nfeat; t_ncov := 0;
     t_drop_full_nan := true; t_nb_events := None; t_cov_named := true; t_rows := rows |}.

(** a valid table: IDs first seen as b, a; unsorted ages; a missing value; a visit without any value *)
Definition ex_rows : list row :=
  [ vrow "b" 71 [Fin (1#2); NaN]; vrow "a" 70 [Fin (1#4); NaN]; vrow "b" (141#2) [NaN; NaN]; vrow "a" 69 [Fin (1#8); Fin (1#2)];
    vrow "b" (281#4) [NaN; Fin 1] ].
Definition ex_table : table := vtable KString 2 ex_rows.

Example ex_accepted : exists d, ingest P32 ex_table = Ok d /\ d_indices d = [IdS "b"; IdS "a"]
  /\ d_times d = [[(281#4)%Q; 71%Q]; [69%Q; 70%Q]] /\ d_mask d = [[[false; true]; [true; false]]; [[true; true]; [true; false]]]
  /\ d_nvis_total d = 4%nat /\ d_nobs d = 5%nat.
Proof. eexists. vm_compute. repeat split. Qed.

(** a permutation of its rows that changes the order of first appearance *)
Definition ex_rows_perm : list row :=
  [ vrow "a" 69 [Fin (1#8); Fin (1#2)]; vrow "b" (281#4) [NaN; Fin 1]; vrow "b" (141#2) [NaN; NaN]; vrow "b" 71 [Fin (1#2); NaN];
    vrow "a" 70 [Fin (1#4); NaN] ].
Example ex_perm : Permutation (t_rows ex_table) ex_rows_perm.
Proof.
  unfold ex_table, ex_rows, ex_rows_perm; simpl.
  apply Permutation_sym.
  apply (Permutation_trans (l' := vrow "b" 71 [Fin (1#2); NaN] :: [vrow "a" 69 [Fin (1#8); Fin (1#2)]; vrow "b" (281#4) [NaN; Fin 1]; vrow "b" (141#2) [NaN; NaN]; vrow "a" 70 [Fin (1#4); NaN]])).
  - apply Permutation_sym. apply (Permutation_middle [_; _; _] [_]).
  - constructor.
    apply (Permutation_trans (l' := vrow "a" 70 [Fin (1#4); NaN] :: [vrow "a" 69 [Fin (1#8); Fin (1#2)]; vrow "b" (281#4) [NaN; Fin 1]; vrow "b" (141#2) [NaN; NaN]])).
    + apply Permutation_sym. apply (Permutation_middle [_; _; _] []).
    + constructor.
      apply (Permutation_trans (l' := vrow "b" (141#2) [NaN; NaN] :: [vrow "a" 69 [Fin (1#8); Fin (1#2)]; vrow "b" (281#4) [NaN; Fin 1]])).
      * apply Permutation_sym. apply (Permutation_middle [_; _] []).
      * constructor. reflexivity.
Qed.
Example ex_perm_accepted : exists d, ingest P32 (with_rows ex_table ex_rows_perm) = Ok d /\ d_indices d = [IdS "a"; IdS "b"].
Proof. eexists. vm_compute. repeat split. Qed.

(** malformed tables, one per family *)
Example ex_duplicate_after_rounding :
  malformed_front P32 (vtable KString 1 [vrow "a" 70 [Fin 1]; vrow "b" 71 [Fin 1]; vrow "a" (700000001 # 10000000) [Fin 2]]).
Proof.
  eapply (M_duplicate _ _ [] _ [_] _ [] (IdS "a") 70 (700000001 # 10000000)); try reflexivity.
  intros _. repeat split; vm_compute; reflexivity.
Qed.
Example ex_negative_id :
  malformed_front P32 {| t_layout := LVisit; t_idkind := KInteger; t_time_numeric := true; t_cols_numeric := true; t_nfeat := 1; t_ncov := 0;
     t_drop_full_nan := true; t_nb_events := None; t_cov_named := true;
     t_rows := [ {| r_id := Some (IdZ (-3)); r_time := Fin 70; r_vals := [Fin 1]; r_evt := NaN; r_evb := NaN; r_cov := [] |} ] |}.
Proof. eapply (M_id_negative _ _ _ (-3)%Z); simpl; try reflexivity; [left; reflexivity | reflexivity]. Qed.

Definition jrow (i : string) (tm : Q) (v : cell) (et : Q) (eb : Q) : row :=
  {| r_id := Some (IdS i); r_time := Fin tm; r_vals := [v]; r_evt := Fin et; r_evb := Fin eb; r_cov := [] |}.
Definition jtable (rows : list row) : table :=
  {| t_layout := LJoint; t_idkind := KString; t_time_numeric := true; t_cols_numeric := true; t_nfeat := 1; t_ncov := 0;
     t_drop_full_nan := true; t_nb_events := None; t_cov_named := true; t_rows := rows |}.
Example ex_joint_accepted : exists d, ingest P32 (jtable [jrow "b" 71 (Fin 1) 75 1; jrow "a" 70 NaN 72 0; jrow "b" 70 (Fin 2) 75 1]) = Ok d
  /\ d_event d = Some ([[75000000%Z]; [72000000%Z]], [[true]; [false]]).
Proof. eexists. vm_compute. repeat split. Qed.
Example ex_two_event_times : inconsistent P32 (jtable [jrow "b" 71 (Fin 1) 75 1; jrow "a" 70 NaN 72 0; jrow "b" 70 (Fin 2) 76 1]).
Proof.
  eapply (I_two_event_times _ _ (jrow "b" 71 (Fin 1) 75 1) (jrow "b" 70 (Fin 2) 76 1) (IdS "b") 75 76); try reflexivity; simpl; auto.
  vm_compute. discriminate.
Qed.
(** the crossed check of the joint layout: event before the last visit, indicator set (correspondence-checked, evaluated here) *)
Example ex_event_before_last_visit : ingest P32 (jtable [jrow "b" 71 (Fin 1) (141#2) 1; jrow "a" 70 NaN 72 0; jrow "b" 70 (Fin 2) (141#2) 1]) = Err DataError.
Proof. vm_compute. reflexivity. Qed.
Example ex_event_before_last_visit_censored : exists d, ingest P32 (jtable [jrow "b" 71 (Fin 1) (141#2) 0; jrow "a" 70 NaN 72 1; jrow "b" 70 (Fin 2) (141#2) 0]) = Ok d.
Proof. eexists. vm_compute. reflexivity. Qed.

Definition crow_ (i : string) (tm : Q) (v : cell) (c : list cell) : row :=
  {| r_id := Some (IdS i); r_time := Fin tm; r_vals := [v]; r_evt := NaN; r_evb := NaN; r_cov := c |}.
Definition ctable (named : bool) (rows : list row) : table :=
  {| t_layout := LCov; t_idkind := KString; t_time_numeric := true; t_cols_numeric := true; t_nfeat := 1; t_ncov := 1;
     t_drop_full_nan := true; t_nb_events := None; t_cov_named := named; t_rows := rows |}.
Example ex_cov_one_level : ingest P32 (ctable true [crow_ "a" 70 (Fin 1) [Fin 2]; crow_ "b" 71 (Fin 1) [Fin 2]]) = Err DataError.
Proof. vm_compute. reflexivity. Qed.
Example ex_cov_fractional : ingest P32 (ctable true [crow_ "a" 70 (Fin 1) [Fin (1#2)]; crow_ "b" 71 (Fin 1) [Fin 2]]) = Err DataError.
Proof. vm_compute. reflexivity. Qed.
Example ex_cov_nan : ingest P32 (ctable true [crow_ "a" 70 (Fin 1) [NaN]; crow_ "b" 71 (Fin 1) [Fin 2]]) = Err DataError.
Proof. vm_compute. reflexivity. Qed.

(* ---------------------------------------------------------------- witnesses of the refuted statements *)
Definition w_order : table := vtable KString 1 [vrow "b" 70 [Fin (1#2)]; vrow "a" 71 [Fin (1#4)]].
Definition w_collision : table := vtable KString 1 [vrow "a" (70000001 # 1000000) [Fin (1#2)]; vrow "a" (70000003 # 1000000) [Fin (1#4)]].
Definition w_cov : table := ctable true [crow_ "a" 70 (Fin (1#2)) [Fin 0]; crow_ "b" 71 (Fin (1#4)) [Fin 1]].
Definition w_cat_rows : list row := [vrow "c" 71 [Fin (1#2)]; vrow "a" 70 [NaN]; vrow "b" (141#2) [Fin (1#8)]].
Definition w_nan_indicator : table :=
  jtable [jrow "b" 71 (Fin 1) 75 1; {| r_id := Some (IdS "a"); r_time := Fin 70; r_vals := [Fin 1]; r_evt := Fin 72; r_evb := NaN; r_cov := [] |}].
Definition w_cat_empty_id : table := vtable KCategorical 1 [vrow "" 70 [Fin (1#2)]; vrow "a" 71 [Fin (1#4)]].

(** the three round-trip witnesses, evaluated (closed terms, so [vm_compute] has no existential variable to chew on) *)
Fixpoint ids_eqb (a b : list ident) : bool :=
  match a, b with [] , [] => true | x :: a', y :: b' => ident_eqb x y && ids_eqb a' b' | _, _ => false end.
Lemma ids_eqb_refl a : ids_eqb a a = true.
Proof. induction a; simpl; [reflexivity|]. now rewrite ident_eqb_refl. Qed.

Lemma w_order_fact :
  match ingest P32 w_order with
  | Ok d => match to_table P32 true None d with
            | Ok t' => match ingest P32 t' with Ok d' => negb (ids_eqb (d_indices d) (d_indices d')) | _ => false end
            | _ => false end
  | _ => false end = true.
Proof. vm_compute. reflexivity. Qed.

Definition is_err {A} (e : error) (r : result A) : bool :=
  match r, e with Err DataError, DataError | Err OtherError, OtherError => true | _, _ => false end.
Lemma is_err_eq {A} e (r : result A) : is_err e r = true -> r = Err e.
Proof. destruct r as [a|[|]], e; simpl; intros H; try discriminate; reflexivity. Qed.

Lemma w_collision_fact :
  match ingest P32 w_collision with
  | Ok d => match d_times d with
            | [[a; b]] => Qeq_bool a 70 && Qeq_bool b 70 && Qeq_bool a b && is_err DataError (to_table P32 true None d)
            | _ => false end
  | _ => false end = true.
Proof. vm_compute. reflexivity. Qed.

Lemma w_cov_fact :
  match ingest P32 w_cov with
  | Ok d => match to_table P32 true None d with Ok t' => is_err OtherError (ingest P32 t') | _ => false end
  | _ => false end = true.
Proof. vm_compute. reflexivity. Qed.

Lemma w_cat_fact :
  match ingest P32 (vtable KString 1 w_cat_rows) with Ok _ => is_err OtherError (ingest P32 (vtable KCategorical 1 w_cat_rows)) | _ => false end = true.
Proof. vm_compute. reflexivity. Qed.

Lemma w_cat_empty_fact :
  match ingest P32 w_cat_empty_id with Ok d => existsb (ident_eqb (IdS "")) (d_indices d) | _ => false end = true.
Proof. vm_compute. reflexivity. Qed.
