(** C12 — the end of [TensorMcmcSaemAlgorithm._run] (algo/fit/mcmc_saem.py:108-118) as a script over a minimal store
    abstraction, and [State.put_population_latent_variables] (variables/state.py:591) /
    [_get_init_func_generic] (variables/specs.py:699).  Definitions only.

    The store is abstract: [get] = [state[name]], [set] = [state[name] = value] (inside [auto_fork(None)]),
    [clone] = [state.clone()].  Nothing here depends on the C01 state model; the facts about reads that the theorem
    needs are Section hypotheses of EndOfFitProofs.v (to be discharged with C01). *)
From Coq Require Import List String Bool.
Import ListNotations.
Open Scope string_scope.

Inductive init_type := InitMode | InitMean.            (* LatentVariableInitType.PRIOR_MODE / PRIOR_MEAN *)
Inductive prior_stat := UseMode | UseMean.             (* self.prior.mode / self.prior.mean *)
Inductive fit_op :=
| OpMetrics                 (* model.fit_metrics = self._get_fit_metrics() *)
| OpClone                   (* model_state = state.clone() *)
| OpNoFork | OpEndNoFork    (* with model_state.auto_fork(None): ... *)
| OpPutPop (i : init_type)  (* model_state.put_population_latent_variables(i) *)
| OpInstallClone            (* model.state = model_state *)
| OpReturnSamplingState.    (* return state *)

(** the statements after the iteration loop, in order *)
Definition end_of_fit_ops : list fit_op :=
  [OpMetrics; OpClone; OpNoFork; OpPutPop InitMode; OpEndNoFork; OpInstallClone; OpReturnSamplingState].
(** _get_init_func_generic *)
Definition init_route (i : init_type) : prior_stat := match i with InitMode => UseMode | InitMean => UseMean end.

Section Store.
Variable V St : Type.
Variable get : St -> string -> V.
Variable set : string -> V -> St -> St.
Variable clone : St -> St.
(** [var.prior.<stat>.call(state)] expanded to the variable's shape: a function of what the state reads *)
Variable stat : prior_stat -> string -> (string -> V) -> V.

(** put_population_latent_variables(i): for pp in population variables: self[pp] = init_func(self) *)
Definition put_population (route : init_type -> prior_stat) (i : init_type) (pops : list string) (s : St) : St :=
  fold_left (fun s pp => set pp (stat (route i) pp (get s)) s) pops s.

(** interpreter: (state being prepared, state installed in the model) *)
Definition step (route : init_type -> prior_stat) (pops : list string) (sampling : St) (acc : option St * option St) (op : fit_op)
  : option St * option St :=
  match op with
  | OpClone => (Some (clone sampling), snd acc)
  | OpPutPop i => (option_map (put_population route i pops) (fst acc), snd acc)
  | OpInstallClone => (fst acc, fst acc)
  | OpMetrics | OpNoFork | OpEndNoFork | OpReturnSamplingState => acc
  end.
Definition run_ops (route : init_type -> prior_stat) (ops : list fit_op) (pops : list string) (sampling : St) : option St :=
  snd (fold_left (step route pops sampling) ops (None, None)).

(** [model.state] after the fit (None = the script never installed a state) *)
Definition end_of_fit (pops : list string) (sampling : St) : option St := run_ops init_route end_of_fit_ops pops sampling.
End Store.
