(** C14 — the decision table [model_readers], run by the generic interpreter of Io/IngestSrc.v, IS the hand-written model
    [Ingest.clean] (hence [Ingest.ingest_data] / [Ingest.ingest]); consequences for any table equal to it. *)
From Coq Require Import ZArith QArith Qround List Bool String Lia ZifyBool Permutation.
From Leaspy Require Import Base.QAux Io.Ingest Io.IngestProofs Io.IngestSrc.
Import ListNotations.
Open Scope Z_scope.

Local Opaque Z.pow.

(* ------------------------------------------------------------------ small facts *)
Lemma existsb_ext' {A} (f g : A -> bool) l : (forall a, f a = g a) -> existsb f l = existsb g l.
Proof. intros H. induction l as [|a l IH]; cbn; [reflexivity|]. now rewrite H, IH. Qed.
Lemma forallb_ext' {A} (f g : A -> bool) l : (forall a, f a = g a) -> forallb f l = forallb g l.
Proof. intros H. induction l as [|a l IH]; cbn; [reflexivity|]. now rewrite H, IH. Qed.

Lemma of_nat_eq0 n : (Z.of_nat n =? 0) = Nat.eqb n 0.
Proof. destruct n; reflexivity. Qed.
Lemma of_nat_lt n k : (Z.of_nat n <? Z.of_nat k) = Nat.ltb n k.
Proof. destruct (Z.ltb_spec (Z.of_nat n) (Z.of_nat k)), (Nat.ltb_spec n k); try reflexivity; lia. Qed.

Lemma bind_assoc {A B C} (r : result A) (f : A -> result B) (g : B -> result C) :
  bind (bind r f) g = bind r (fun a => bind (f a) g).
Proof. destruct r; reflexivity. Qed.

Lemma run_app tolv t l1 : forall l2 s,
  run tolv t (l1 ++ l2) s = (s' <- run tolv t l1 s ;; run tolv t l2 s').
Proof.
  induction l1 as [|c l1 IH]; intros l2 s; [reflexivity|].
  cbn [app run]. destruct (chk tolv t c s); cbn [bind]; [apply IH | reflexivity].
Qed.

Lemma aggZ_sum l : aggZ ASum l = sumZ l.
Proof. destruct l; reflexivity. Qed.

Lemma filter_length_eq0 {A} (f : A -> bool) l : Nat.eqb (List.length (filter f l)) 0 = forallb (fun a => negb (f a)) l.
Proof. induction l as [|a l IH]; cbn; [reflexivity|]. destruct (f a); cbn; [reflexivity | exact IH]. Qed.
Lemma filter_length_ne0 {A} (f : A -> bool) l : negb (Z.of_nat (List.length (filter f l)) =? 0) = existsb f l.
Proof. rewrite of_nat_eq0. induction l as [|a l IH]; cbn; [reflexivity|]. destruct (f a); cbn; [reflexivity | exact IH]. Qed.

Lemma firsts_length_eq0 l : Nat.eqb (List.length (firsts l)) 0 = Nat.eqb (List.length l) 0.
Proof. destruct l; reflexivity. Qed.

(* ------------------------------------------------------------------ _check_ID *)
Lemma run_id tolv t s :
  run tolv t m_id_checks s = (check_id (t_idkind t) (map r_id (s_raw s)) ;;; Ok s).
Proof.
  unfold m_id_checks. cbn [run chk upd]. unfold check_id.
  destruct (map r_id (s_raw s)) as [|i ids]; [reflexivity|].
  set (l := i :: ids). unfold refuse, refuse_if, quantb, err_of.
  destruct (t_idkind t); cbn [existsb idkind_eqb orb negb bind];
    destruct (existsb (fun i0 : option ident => match i0 with Some _ => false | None => true end) l); cbn [bind]; try reflexivity.
  rewrite (existsb_ext' (fun i0 : option ident => match i0 with Some (IdS s0) => cmpZ CEq (Z.of_nat (String.length s0)) 0 | _ => false end)
                        (fun i0 : option ident => match i0 with Some (IdS s0) => (String.length s0 =? 0)%nat | _ => false end)); [reflexivity|].
  intros [[s0|z]|]; try reflexivity. cbn [cmpZ]. apply of_nat_eq0.
Qed.

(* ------------------------------------------------------------------ _set_index *)
Lemma check_id_no_none k ids : check_id k ids = Ok tt -> Forall (fun i => i <> None) ids.
Proof.
  unfold check_id. destruct ids as [|i ids]; [constructor|]. set (l := i :: ids).
  intros H. assert (E : existsb (fun i0 : option ident => match i0 with Some _ => false | None => true end) l = false).
  { destruct k; try discriminate;
      destruct (existsb (fun i0 : option ident => match i0 with Some _ => false | None => true end) l); try reflexivity; discriminate. }
  apply Forall_forall. intros o Ho ->.
  assert (existsb (fun i0 : option ident => match i0 with Some _ => false | None => true end) l = true)
    by (apply existsb_exists; exists None; split; [exact Ho | reflexivity]).
  congruence.
Qed.

Lemma index_rows_time P L rows : has_time L = true -> Forall (fun r => r_id r <> None) rows ->
  mapM (index_row P L) rows =
  if existsb (fun r => is_nan (r_time r)) (map time_inf_to_nan rows) then Err DataError
  else match mk_irows (scale P) true (map time_inf_to_nan rows) with Some xs => Ok xs | None => Err OtherError end.
Proof.
  intros HL HF. unfold mk_irows. induction HF as [|r rows Hr HF IH]; [reflexivity|].
  cbn [mapM map existsb all_some]. rewrite IH. unfold index_row, mk_irow, time_inf_to_nan. cbn [r_id r_time r_vals r_evt r_evb r_cov]. rewrite HL.
  destruct (r_id r) as [i|]; [|congruence].
  destruct (r_time r) as [q| |]; cbn [is_nan orb bind]; try reflexivity.
  destruct (existsb _ _); [reflexivity|].
  destruct (all_some _); reflexivity.
Qed.

Lemma index_rows_notime P L rows : has_time L = false -> Forall (fun r => r_id r <> None) rows ->
  mapM (index_row P L) rows = match mk_irows 0 false rows with Some xs => Ok xs | None => Err OtherError end.
Proof.
  intros HL HF. unfold mk_irows. induction HF as [|r rows Hr HF IH]; [reflexivity|].
  cbn [mapM map all_some]. rewrite IH. unfold index_row, mk_irow. rewrite HL.
  destruct (r_id r) as [i|]; [|congruence]. cbn [bind].
  destruct (all_some _); reflexivity.
Qed.

(** the state once the index is set *)
Definition st_index (t : table) (sc : Z) (raw : list row) (xs : list irow) : state :=
  {| s_raw := raw; s_xs := xs; s_xs0 := []; s_tscale := sc; s_escale := 0; s_pick := AFirst; s_jagg := AFirst; s_nb := 0 |}.

Lemma run_index_time P tolv t : has_time (t_layout t) = true -> scale P = 10 ^ 6 ->
  run tolv t (m_id_checks ++ m_time_index) (init t) =
  (xs <- clean_index P t ;; Ok (st_index t (10 ^ 6) (map time_inf_to_nan (t_rows t)) xs)).
Proof.
  intros HL HP. rewrite run_app, run_id. unfold clean_index. cbn [init s_raw]. rewrite HL.
  destruct (check_id (t_idkind t) (map r_id (t_rows t))) as [[]|e] eqn:Eid; [|reflexivity]. cbn [bind].
  apply check_id_no_none in Eid. rewrite Forall_map in Eid.
  rewrite (index_rows_time P _ _ HL Eid). rewrite HP.
  unfold m_time_index. cbn [run chk upd s_raw s_xs s_tscale set_raw set_tscale set_xs]. unfold refuse, refuse_if, quantb, err_of. cbn [andb].
  destruct (negb (t_time_numeric t)); [reflexivity|]. cbn [bind].
  destruct (existsb _ _); [reflexivity|]. cbn [bind].
  destruct (mk_irows _ _ _) as [xs|]; [|reflexivity]. cbn [bind].
  destruct (negb (nodupb (map xkey xs))); reflexivity.
Qed.

Lemma run_index_notime P tolv t : has_time (t_layout t) = false ->
  run tolv t (m_id_checks ++ [SetIndexId; IndexUnique XData]) (init t) =
  (xs <- clean_index P t ;; Ok (st_index t 0 (t_rows t) xs)).
Proof.
  intros HL. rewrite run_app, run_id. unfold clean_index. cbn [init s_raw]. rewrite HL.
  destruct (check_id (t_idkind t) (map r_id (t_rows t))) as [[]|e] eqn:Eid; [|reflexivity]. cbn [bind].
  apply check_id_no_none in Eid. rewrite Forall_map in Eid.
  rewrite (index_rows_notime P _ _ HL Eid).
  cbn [run chk upd s_raw s_xs s_tscale set_raw set_tscale set_xs]. unfold refuse, refuse_if, err_of. cbn [andb bind].
  destruct (mk_irows _ _ _) as [xs|]; [|reflexivity]. cbn [bind].
  destruct (negb (nodupb (map xkey xs))); reflexivity.
Qed.

(* ------------------------------------------------------------------ _clean_numeric_data *)
Lemma run_numeric tolv t s :
  run tolv t m_numeric s = (xs <- clean_numeric t (s_xs s) ;; Ok (set_xs_xs0 s xs (s_xs s))).
Proof.
  unfold m_numeric, clean_numeric. cbn [run chk upd]. unfold refuse, refuse_if, err_of.
  destruct (negb (t_cols_numeric t)); [reflexivity|]. cbn [bind cmpZ].
  rewrite filter_length_ne0. destruct (existsb _ (s_xs s)); reflexivity.
Qed.

(* ------------------------------------------------------------------ VisitDataframeDataReader._clean_dataframe *)
Lemma run_visit_clean tolv t s : run tolv t m_visit_clean s = (clean_visits t (s_xs s) ;;; Ok s).
Proof.
  unfold m_visit_clean, clean_visits. cbn [run chk upd cmpZ]. unfold refuse, refuse_if, err_of.
  rewrite of_nat_eq0. change 1 with (Z.of_nat 1). rewrite of_nat_lt.
  destruct (Nat.eqb _ 0); [reflexivity|]. cbn [bind]. destruct (Nat.ltb _ 1); reflexivity.
Qed.

(* ------------------------------------------------------------------ EventDataframeDataReader._clean_dataframe *)
Lemma event_cell_s_eq P x : event_cell P x = event_cell_s (scale P) x.
Proof. reflexivity. Qed.

Lemma event_cells_snd P xs : forall evs, mapM (event_cell P) xs = Ok evs -> map snd evs = map evb_z xs.
Proof.
  induction xs as [|x xs IH]; intros evs H; cbn [mapM] in H.
  - injection H as <-. reflexivity.
  - unfold event_cell at 1 in H. destruct (x_evt x) eqn:E1; destruct (x_evb x) eqn:E2; cbn [bind] in H; try discriminate.
    destruct (mapM (event_cell P) xs) as [l|] eqn:E; cbn [bind] in H; try discriminate.
    injection H as <-. cbn [map snd]. unfold evb_z at 1. rewrite E2. f_equal. now apply IH.
Qed.

Definition st_event (s : state) (nb : Z) : state := set_nb (set_pick (set_escale s (10 ^ 6)) AFirst) nb.

Lemma run_event_clean P tolv t s : scale P = 10 ^ 6 ->
  run tolv t m_event_clean s = (nb <- clean_events P t (lost_of t s) (s_xs s) ;; Ok (st_event s nb)).
Proof.
  intros HP. unfold m_event_clean, clean_events, st_event.
  cbn [run chk upd s_xs s_escale s_nb set_escale set_pick set_nb Z.eqb Pos.eqb forallb col_cells cmpZ].
  unfold refuse, refuse_if, err_of, quantb, round_time. rewrite HP. fold (round_to (10 ^ 6)).
  destruct (negb (forallb _ (s_xs s))); [reflexivity|]. cbn [bind].
  rewrite (existsb_ext' (fun y => existsb is_nan [x_evb y]) (fun x => is_nan (x_evb x))) by (intros y; cbn; apply orb_false_r).
  destruct (existsb (fun x => is_nan (x_evb x)) (s_xs s)); [reflexivity|]. cbn [bind].
  rewrite (forallb_ext' (fun y => forallb integral_cell [x_evb y]) (fun x => match x_evb x with Fin q => is_integral q | _ => false end))
    by (intros y; cbn; apply andb_true_r).
  destruct (negb (forallb _ (s_xs s))); [reflexivity|]. cbn [bind].
  rewrite (mapM_ext (event_cell P) (event_cell_s (10 ^ 6))) by (intros a _; rewrite event_cell_s_eq, HP; reflexivity).
  destruct (mapM (event_cell_s (10 ^ 6)) (s_xs s)) as [evs|] eqn:Eevs; [|reflexivity]. cbn [bind].
  assert (Hsnd : map snd evs = map evb_z (s_xs s)).
  { apply (event_cells_snd P). rewrite <- Eevs. apply mapM_ext. intros a _. rewrite event_cell_s_eq, HP. reflexivity. }
  assert (Hmx : match evs with [] => 0 | e :: r => list_maxZ (snd e) (map snd r) end = aggZ AMax (map evb_z (s_xs s))).
  { rewrite <- Hsnd. destruct evs; reflexivity. }
  rewrite Hmx. clear Hmx Hsnd Eevs evs.
  change (lost_of t (set_escale s (10 ^ 6))) with (lost_of t s).
  destruct (lost_of t s); [reflexivity|]. cbn [bind].
  unfold uniq_col, evt_z, evb_z. rewrite andb_true_r.
  destruct (negb (_ && _)); [reflexivity|]. cbn [bind].
  rewrite of_nat_eq0, firsts_length_eq0. unfold ids_of. rewrite map_length.
  destruct (Nat.eqb _ 0); [reflexivity|]. cbn [bind].
  set (mx := aggZ AMax _).
  destruct (t_nb_events t) as [[|nb|nb]|]; cbn [bind].
  - destruct (mx =? 0); reflexivity.
  - destruct (Z.pos nb =? mx); cbn [negb]; [reflexivity|]. destruct (mx =? 0); reflexivity.
  - destruct (Z.neg nb =? mx); cbn [negb]; [reflexivity|]. destruct (mx =? 0); reflexivity.
  - destruct (mx =? 0); reflexivity.
Qed.

(* ------------------------------------------------------------------ JointDataframeDataReader._clean_dataframe: the crossed check *)
Lemma last_visit_agg i xs : last_visit i xs = aggZ AMax (ages_of i xs).
Proof. unfold last_visit, ages_of. destruct (filter _ xs); reflexivity. Qed.

Lemma src_offender_model P xs i : scale P = 10 ^ 6 ->
  src_offender (10 ^ 6) (10 ^ 6) AFirst AMax CGe (- tol P) xs i =
  match first_row_of i xs with Some x => offender P xs x | None => false end.
Proof.
  intros HP. unfold src_offender, pick_row. destruct (first_row_of i xs) as [x|]; [|reflexivity].
  unfold offender, micro, round_time. rewrite HP, last_visit_agg.
  destruct (x_evt x); reflexivity.
Qed.

Lemma run_joint_tail P t s : scale P = 10 ^ 6 -> s_tscale s = 10 ^ 6 -> s_escale s = 10 ^ 6 -> s_pick s = AFirst ->
  run (tol P) t m_joint_tail s = (crossed_check P (s_xs s) ;;; Ok (set_jagg s AMax)).
Proof.
  intros HP H1 H2 H3. unfold m_joint_tail, crossed_check.
  cbn [run chk upd s_xs s_tscale s_escale s_pick s_jagg set_jagg bind]. rewrite H1, H2, H3.
  unfold refuse, refuse_if, err_of, quantb. cbn [cmpZ].
  set (ids := firsts (ids_of (s_xs s))).
  rewrite (filter_ext _ _ (fun i => src_offender_model P (s_xs s) i HP)).
  rewrite (forallb_ext' (fun i => negb (src_offender (10 ^ 6) (10 ^ 6) AFirst AMax CGe (- tol P) (s_xs s) i))
                        (fun i => negb (match first_row_of i (s_xs s) with Some x => offender P (s_xs s) x | None => false end)))
    by (intros i; now rewrite src_offender_model).
  rewrite <- filter_length_eq0, aggZ_sum.
  rewrite (map_ext (src_evb_of AFirst AMax (s_xs s))
                   (fun i => match first_row_of i (s_xs s) with Some x => match x_evb x with Fin q => Qfloor q | _ => 0 end | None => 0 end))
    by (intros i; unfold src_evb_of, pick_row; destruct (first_row_of i (s_xs s)); reflexivity).
  destruct (_ && _); reflexivity.
Qed.

(* ------------------------------------------------------------------ CovariateDataframeDataReader._clean_dataframe_covariates *)
Lemma run_cov_clean tolv t s :
  run tolv t m_cov_clean s = (clean_covariates t (lost_of t s) (s_xs s) ;;; Ok (set_pick s AFirst)).
Proof.
  unfold m_cov_clean, clean_covariates.
  cbn [run chk upd s_xs set_pick Z.eqb Pos.eqb forallb col_cells cmpZ bind].
  unfold refuse, refuse_if, err_of.
  destruct (existsb (fun y => existsb is_nan (x_cov y)) (s_xs s)); [reflexivity|]. cbn [bind].
  change (forallb (fun y => forallb integral_cell (x_cov y)) (s_xs s))
    with (forallb (fun x => forallb (fun c => match c with Fin q => is_integral q | _ => false end) (x_cov x)) (s_xs s)).
  destruct (negb (forallb _ (s_xs s))); [reflexivity|]. cbn [bind].
  destruct (lost_of t s); [reflexivity|]. cbn [bind].
  unfold uniq_col. rewrite andb_true_r.
  destruct (negb (unique_per_id _ _ _)); [reflexivity|]. cbn [bind].
  change (lost_of t (set_pick s AFirst)) with (lost_of t s).
  rewrite of_nat_eq0, firsts_length_eq0. unfold ids_of. rewrite map_length.
  destruct (Nat.eqb _ 0); [reflexivity|]. cbn [bind].
  rewrite (existsb_ext' (fun j => Z.of_nat (List.length (distinctZ (map (fun y => nth j (cov_ints y) 0) (s_xs s)))) <? 2)
                        (fun j => Nat.ltb (List.length (distinctZ (map (fun x => nth j (cov_ints x) 0) (s_xs s)))) 2))
    by (intros j; change 2 with (Z.of_nat 2); apply of_nat_lt).
  destruct (existsb _ (seq 0 (t_ncov t))); reflexivity.
Qed.

(* ------------------------------------------------------------------ the whole table *)
Definition st_clean (t : table) (sc : Z) (raw : list row) (xs0 xs : list irow) : state :=
  set_xs_xs0 (st_index t sc raw xs0) xs xs0.

Lemma lost_of_clean t sc raw xs0 xs :
  lost_of t (st_clean t sc raw xs0 xs) =
  match t_idkind t with
  | KCategorical => existsb (fun i => negb (existsb (ident_eqb i) (ids_of xs))) (ids_of xs0)
  | _ => false
  end.
Proof. reflexivity. Qed.

Theorem src_clean_model st t : src_clean model_readers st t = clean (P_of model_readers st) t.
Proof.
  set (P := P_of model_readers st).
  assert (HP : scale P = 10 ^ 6) by reflexivity.
  unfold src_clean, clean. fold P. change (rd_tol model_readers) with (tol P).
  destruct (t_layout t) eqn:EL; cbn [pipeline model_readers rd_visit rd_event rd_joint rd_cov has_cov has_time has_event andb refuse_if bind].
  - (* visit *)
    rewrite app_assoc, run_app, (run_index_time P) by (try rewrite EL; auto). rewrite !bind_assoc.
    destruct (clean_index P t) as [xs0|e]; [|reflexivity]. cbn [bind].
    rewrite run_app, run_numeric. cbn [s_xs st_index]. rewrite !bind_assoc.
    destruct (clean_numeric t xs0) as [xs|e]; [|reflexivity]. cbn [bind]. fold (st_clean t (10 ^ 6) (map time_inf_to_nan (t_rows t)) xs0 xs).
    rewrite run_app, run_visit_clean. cbn [s_xs st_clean set_xs_xs0]. rewrite !bind_assoc.
    destruct (clean_visits t xs) as [[]|e]; [|reflexivity]. cbn [bind run chk upd].
    fold (st_clean t (10 ^ 6) (map time_inf_to_nan (t_rows t)) xs0 xs). rewrite lost_of_clean.
    destruct (match t_idkind t with KCategorical => _ | _ => false end); reflexivity.
  - (* event *)
    rewrite app_assoc, run_app, (run_index_notime P) by (rewrite EL; auto). rewrite !bind_assoc.
    destruct (clean_index P t) as [xs0|e]; [|reflexivity]. cbn [bind].
    rewrite run_app, run_numeric. cbn [s_xs st_index]. rewrite !bind_assoc.
    destruct (clean_numeric t xs0) as [xs|e]; [|reflexivity]. cbn [bind]. fold (st_clean t 0 (t_rows t) xs0 xs).
    rewrite run_app, (run_event_clean P) by exact HP. rewrite lost_of_clean. cbn [s_xs st_clean set_xs_xs0]. rewrite !bind_assoc.
    destruct (clean_events P t _ xs) as [nb|e] eqn:Eev; [|reflexivity]. cbn [bind run chk upd].
    match goal with |- context [lost_of t ?S] => change (lost_of t S) with (lost_of t (st_clean t 0 (t_rows t) xs0 xs)) end.
    rewrite lost_of_clean.
    destruct (match t_idkind t with KCategorical => _ | _ => false end) eqn:El; [|reflexivity].
    (* a lost individual was already refused by the uniqueness test *)
    exfalso. unfold clean_events in Eev.
    repeat match type of Eev with
           | bind ?r _ = Ok _ => destruct r; cbn [bind] in Eev; try discriminate
           end.
  - (* joint *)
    rewrite app_assoc, run_app, (run_index_time P) by (try rewrite EL; auto). rewrite !bind_assoc.
    destruct (clean_index P t) as [xs0|e]; [|reflexivity]. cbn [bind].
    rewrite run_app, run_numeric. cbn [s_xs st_index]. rewrite !bind_assoc.
    destruct (clean_numeric t xs0) as [xs|e]; [|reflexivity]. cbn [bind]. fold (st_clean t (10 ^ 6) (map time_inf_to_nan (t_rows t)) xs0 xs).
    rewrite run_app, run_visit_clean. cbn [s_xs st_clean set_xs_xs0]. rewrite !bind_assoc.
    destruct (clean_visits t xs) as [[]|e]; [|reflexivity]. cbn [bind].
    fold (st_clean t (10 ^ 6) (map time_inf_to_nan (t_rows t)) xs0 xs).
    rewrite run_app, (run_event_clean P) by exact HP. rewrite lost_of_clean. cbn [s_xs st_clean set_xs_xs0]. rewrite !bind_assoc.
    destruct (clean_events P t _ xs) as [nb|e] eqn:Eev; [|reflexivity]. cbn [bind].
    rewrite run_app, (run_joint_tail P) by reflexivity. rewrite !bind_assoc.
    change (s_xs (st_event (st_clean t (10 ^ 6) (map time_inf_to_nan (t_rows t)) xs0 xs) nb)) with xs.
    destruct (crossed_check P xs) as [[]|e]; [|reflexivity]. cbn [bind run chk upd].
    match goal with |- context [lost_of t ?S] => change (lost_of t S) with (lost_of t (st_clean t (10 ^ 6) (map time_inf_to_nan (t_rows t)) xs0 xs)) end.
    rewrite lost_of_clean.
    destruct (match t_idkind t with KCategorical => _ | _ => false end) eqn:El; [|reflexivity].
    exfalso. unfold clean_events in Eev.
    repeat match type of Eev with
           | bind ?r _ = Ok _ => destruct r; cbn [bind] in Eev; try discriminate
           end.
  - (* covariate *)
    cbn [app run chk upd]. unfold refuse, err_of.
    destruct (Nat.eqb (t_ncov t) 0); [reflexivity|]. cbn [bind].
    rewrite app_assoc, run_app, (run_index_time P) by (try rewrite EL; auto). rewrite !bind_assoc.
    destruct (clean_index P t) as [xs0|e]; [|reflexivity]. cbn [bind].
    rewrite run_app, run_numeric. cbn [s_xs st_index]. rewrite !bind_assoc.
    destruct (clean_numeric t xs0) as [xs|e]; [|reflexivity]. cbn [bind app run chk upd].
    fold (st_clean t (10 ^ 6) (map time_inf_to_nan (t_rows t)) xs0 xs).
    destruct (negb (t_cov_named t)); [reflexivity|]. cbn [bind].
    rewrite run_app, run_visit_clean. cbn [s_xs st_clean set_xs_xs0]. rewrite !bind_assoc.
    destruct (clean_visits t xs) as [[]|e]; [|reflexivity]. cbn [bind].
    fold (st_clean t (10 ^ 6) (map time_inf_to_nan (t_rows t)) xs0 xs).
    rewrite run_app, run_cov_clean. rewrite lost_of_clean. cbn [s_xs st_clean set_xs_xs0]. rewrite !bind_assoc.
    destruct (clean_covariates t _ xs) as [[]|e] eqn:Ecv; [|reflexivity]. cbn [bind run chk upd].
    match goal with |- context [lost_of t ?S] => change (lost_of t S) with (lost_of t (st_clean t (10 ^ 6) (map time_inf_to_nan (t_rows t)) xs0 xs)) end.
    rewrite lost_of_clean.
    destruct (match t_idkind t with KCategorical => _ | _ => false end) eqn:El; [|reflexivity].
    exfalso. unfold clean_covariates in Ecv.
    repeat match type of Ecv with
           | bind ?r _ = Ok _ => destruct r; cbn [bind] in Ecv; try discriminate
           end.
Qed.

Theorem src_ingest_data_model st t : src_ingest_data model_readers st t = ingest_data (P_of model_readers st) t.
Proof. unfold src_ingest_data, ingest_data. now rewrite src_clean_model. Qed.

Theorem src_ingest_model st t : src_ingest model_readers st t = ingest (P_of model_readers st) t.
Proof. unfold src_ingest, ingest. now rewrite src_ingest_data_model. Qed.

(* ------------------------------------------------------------------ the crossed check compares with the MAXIMAL age, whatever the row order *)
Lemma micro_mono P a b : 0 < scale P -> a <= b -> (micro P a <= micro P b)%Q.
Proof.
  intros Hs Hab. unfold micro, Qdiv. apply Qmult_le_compat_r; [now rewrite <- Zle_Qle|].
  apply Qinv_le_0_compat. change 0%Q with (inject_Z 0). rewrite <- Zle_Qle. lia.
Qed.

Lemma last_visit_ge i xs y : In y xs -> x_id y = i -> x_time y <= last_visit i xs.
Proof.
  intros Hy E. unfold last_visit.
  assert (Hin : In y (filter (fun z => ident_eqb i (x_id z)) xs)) by (apply filter_In; split; [exact Hy | rewrite E; apply ident_eqb_refl]).
  destruct (filter _ xs) as [|y0 r]; [destruct Hin|].
  apply list_maxZ_ge. destruct Hin as [<- | Hin]; [now left | right; now apply in_map].
Qed.

Lemma first_row_of_some i xs x : In x xs -> x_id x = i -> exists x0, first_row_of i xs = Some x0 /\ In x0 xs /\ x_id x0 = i.
Proof.
  intros Hx E. unfold first_row_of. destruct (find _ xs) as [x0|] eqn:F.
  - apply find_some in F. destruct F as [H0 E0]. apply ident_eqb_eq in E0. exists x0. auto.
  - exfalso. apply (find_none _ _ F) in Hx. rewrite E, ident_eqb_refl in Hx. discriminate.
Qed.

Lemma sumZ_pos l a : (forall z, In z l -> 0 <= z) -> In a l -> 0 < a -> 0 < sumZ l.
Proof.
  induction l as [|b l IH]; intros Hn Ha Hp; [destruct Ha|]. cbn [sumZ].
  assert (0 <= sumZ l).
  { clear IH Ha. induction l as [|c l IHl]; cbn [sumZ]; [lia|].
    assert (0 <= c) by (apply Hn; right; now left).
    assert (0 <= sumZ l) by (apply IHl; intros z Hz; apply Hn; destruct Hz as [<-|Hz]; [now left | right; now right]). lia. }
  destruct Ha as [<- | Ha]; [lia|]. assert (0 <= b) by (apply Hn; now left).
  assert (0 < sumZ l) by (apply IH; [intros z Hz; apply Hn; now right | exact Ha | exact Hp]). lia.
Qed.

(** an OBSERVED event of an individual earlier than ANY of its ages minus the tolerance is refused with a data-input error
    (the model, hence the regenerated table, aggregates the ages of the individual by their maximum: no row order matters).
    Hypotheses = what [clean_events] leaves: one event per individual, event ages numbers, indicators >= 0. *)
Theorem crossed_check_rejects_before_any_age P xs x y q :
  0 < scale P ->
  unique_per_id Z.eqb (fun x => match x_evt x with Fin q => round_time P q | _ => 0 end) xs = true ->
  unique_per_id Z.eqb (fun x => match x_evb x with Fin q => Qfloor q | _ => 0 end) xs = true ->
  (forall z, In z xs -> exists qz, x_evt z = Fin qz) ->
  (forall z, In z xs -> 0 <= evb_z z) ->
  In x xs -> In y xs -> x_id y = x_id x ->
  x_evt x = Fin q -> 0 < evb_z x ->
  (micro P (round_time P q) - micro P (x_time y) < - tol P)%Q ->
  crossed_check P xs = Err DataError.
Proof.
  intros Hs Ut Ub Hfin Hnn Hx Hy Eid Eq Hobs Hlt.
  destruct (first_row_of_some (x_id x) xs x Hx eq_refl) as [x0 [F0 [H0 E0]]].
  destruct (Hfin x0 H0) as [q0 Eq0].
  pose proof (unique_per_id_spec _ _ _ Ut x0 x H0 Hx E0) as Et. cbn beta in Et. rewrite Eq0, Eq in Et. apply Z.eqb_eq in Et.
  pose proof (unique_per_id_spec _ _ _ Ub x0 x H0 Hx E0) as Eb. cbn beta in Eb. apply Z.eqb_eq in Eb.
  assert (Hoff : offender P xs x0 = true).
  { unfold offender. rewrite Eq0, Et. apply negb_true_iff. destruct (Qle_bool _ _) eqn:C; [|reflexivity]. exfalso.
    apply Qle_bool_iff in C. rewrite E0 in C.
    pose proof (micro_mono P _ _ Hs (last_visit_ge (x_id x) xs y Hy Eid)) as M.
    apply (Qlt_irrefl (- tol P)). eapply Qle_lt_trans; [exact C|]. eapply Qle_lt_trans; [|exact Hlt].
    apply Qplus_le_r. apply Qopp_le_compat. exact M. }
  unfold crossed_check.
  set (offs := filter _ (firsts (ids_of xs))).
  assert (Hin : In (x_id x) offs).
  { apply filter_In. split; [apply firsts_In; unfold ids_of; now apply in_map | rewrite F0; exact Hoff]. }
  assert (Hlen : Nat.eqb (List.length offs) 0 = false) by (destruct offs; [destruct Hin | reflexivity]).
  rewrite Hlen. cbn [negb andb].
  set (ev := fun i => match first_row_of i xs with Some x1 => match x_evb x1 with Fin q1 => Qfloor q1 | _ => 0 end | None => 0 end).
  assert (Hsum : 0 < sumZ (map ev offs)).
  { apply (sumZ_pos _ (ev (x_id x))).
    - intros z Hz. apply in_map_iff in Hz. destruct Hz as [j [<- _]]. unfold ev.
      destruct (first_row_of j xs) as [x1|] eqn:F1; [|lia]. apply find_some in F1. exact (Hnn x1 (proj1 F1)).
    - now apply in_map.
    - unfold ev. rewrite F0. fold (evb_z x0). unfold evb_z at 1. unfold evb_z in Hobs. rewrite Eb. exact Hobs. }
  destruct (sumZ (map ev offs) =? 0) eqn:Z0; [apply Z.eqb_eq in Z0; lia | reflexivity].
Qed.

Lemma clean_events_ok_facts P t lost xs nb : clean_events P t lost xs = Ok nb ->
  unique_per_id Z.eqb (fun x => match x_evt x with Fin q => round_time P q | _ => 0 end) xs = true /\
  unique_per_id Z.eqb (fun x => match x_evb x with Fin q => Qfloor q | _ => 0 end) xs = true /\
  (forall z, In z xs -> exists qz, x_evt z = Fin qz).
Proof.
  unfold clean_events. intros H.
  destruct (forallb (fun x => match x_evt x with Fin q => 0 <? round_time P q | _ => false end) xs) eqn:E1; cbn [negb refuse_if bind] in H; [|discriminate].
  destruct (existsb _ xs); cbn [bind] in H; [discriminate|].
  destruct (negb (forallb _ xs)); cbn [refuse_if bind] in H; [discriminate|].
  destruct (mapM _ xs); cbn [bind] in H; [|discriminate].
  destruct lost; cbn [refuse_if bind] in H; [discriminate|].
  destruct (_ && _) eqn:E2; cbn [negb refuse_if bind] in H; [|discriminate].
  apply andb_true_iff in E2. split; [tauto|]. split; [tauto|].
  intros z Hz. rewrite forallb_forall in E1. specialize (E1 z Hz). destruct (x_evt z); [eauto | discriminate | discriminate].
Qed.

(** the same, for a whole joint table whose earlier checks pass *)
Theorem ingest_rejects_event_before_any_age P t xs0 xs nb x y q :
  0 < scale P -> t_layout t = LJoint ->
  clean_index P t = Ok xs0 -> clean_numeric t xs0 = Ok xs -> clean_visits t xs = Ok tt ->
  clean_events P t (match t_idkind t with
                    | KCategorical => existsb (fun i => negb (existsb (ident_eqb i) (ids_of xs))) (ids_of xs0)
                    | _ => false end) xs = Ok nb ->
  (forall z, In z xs -> 0 <= evb_z z) ->
  In x xs -> In y xs -> x_id y = x_id x -> x_evt x = Fin q -> 0 < evb_z x ->
  (micro P (round_time P q) - micro P (x_time y) < - tol P)%Q ->
  ingest P t = Err DataError.
Proof.
  intros Hs EL H1 H2 H3 H4 Hnn Hx Hy Eid Eq Hobs Hlt.
  destruct (clean_events_ok_facts _ _ _ _ _ H4) as [Ut [Ub Hfin]].
  pose proof (crossed_check_rejects_before_any_age P xs x y q Hs Ut Ub Hfin Hnn Hx Hy Eid Eq Hobs Hlt) as C.
  unfold ingest, ingest_data, clean. rewrite EL. cbn [has_cov andb refuse_if bind]. rewrite H1. cbn [bind]. rewrite H2. cbn [bind].
  rewrite H3. cbn [bind]. rewrite H4. cbn [bind]. rewrite C. reflexivity.
Qed.
