(** C14 — the decision table [model_readers], run by the generic interpreter of Io/IngestSrc.v, IS the hand-written model
    [Ingest.clean] (hence [Ingest.ingest_data] / [Ingest.ingest]); consequences for any table equal to it. *)
From Coq Require Import ZArith QArith Qround List Bool String Lia ZifyBool Permutation.
From Leaspy Require Import Base.QAux Io.Ingest Io.IngestProofs Io.IngestSrc.
Import ListNotations.
Open Scope Z_scope.

Local Opaque Z.pow.

(* ------------------------------------------------------------------ small facts *)
Lemma existsb_ext' {A} (f g : A -> bool) l : (forall a, f a = g a) -> existsb f l = existsb g l.
Proof. intros H. induction l as [|a l IH]; cbn; [reflexivity|]. now rewrite H, IH. Qed.
Lemma forallb_ext' {A} (f g : A -> bool) l : (forall a, f a = g a) -> forallb f l = forallb g l.
Proof. intros H. induction l as [|a l IH]; cbn; [reflexivity|]. now rewrite H, IH. Qed.

Lemma of_nat_eq0 n : (Z.of_nat n =? 0) = Nat.eqb n 0.
Proof. destruct n; reflexivity. Qed.
Lemma of_nat_lt n k : (Z.of_nat n <? Z.of_nat k) = Nat.ltb n k.
Proof. destruct (Z.ltb_spec (Z.of_nat n) (Z.of_nat k)), (Nat.ltb_spec n k); try reflexivity; lia. Qed.

Lemma bind_assoc {A B C} (r : result A) (f : A -> result B) (g : B -> result C) :
  bind (bind r f) g = bind r (fun a => bind (f a) g).
Proof. destruct r; reflexivity. Qed.

Lemma run_app tolv t l1 : forall l2 s,
  run tolv t (l1 ++ l2) s = (s' <- run tolv t l1 s ;; run tolv t l2 s').
Proof.
  induction l1 as [|c l1 IH]; intros l2 s; [reflexivity|].
  cbn [app run]. destruct (chk tolv t c s); cbn [bind]; [apply IH | reflexivity].
Qed.

Lemma aggZ_sum l : aggZ ASum l = sumZ l.
Proof. destruct l; reflexivity. Qed.

Lemma filter_length_eq0 {A} (f : A -> bool) l : Nat.eqb (List.length (filter f l)) 0 = forallb (fun a => negb (f a)) l.
Proof. induction l as [|a l IH]; cbn; [reflexivity|]. destruct (f a); cbn; [reflexivity | exact IH]. Qed.
Lemma filter_length_ne0 {A} (f : A -> bool) l : negb (Z.of_nat (List.length (filter f l)) =? 0) = existsb f l.
Proof. rewrite of_nat_eq0. induction l as [|a l IH]; cbn; [reflexivity|]. destruct (f a); cbn; [reflexivity | exact IH]. Qed.

Lemma firsts_length_eq0 l : Nat.eqb (List.length (firsts l)) 0 = Nat.eqb (List.length l) 0.
Proof. destruct l; reflexivity. Qed.

(* ------------------------------------------------------------------ _check_ID *)
Lemma run_id tolv t s :
  run tolv t m_id_checks s = (check_id (t_idkind t) (map r_id (s_raw s)) ;;; Ok s).
Proof.
  unfold m_id_checks. cbn [run chk upd]. unfold check_id.
  destruct (map r_id (s_raw s)) as [|i ids]; [reflexivity|].
  set (l := i :: ids). unfold refuse, refuse_if, quantb, err_of.
  destruct (t_idkind t); cbn [existsb idkind_eqb orb negb bind];
    destruct (existsb (fun i0 : option ident => match i0 with Some _ => false | None => true end) l); cbn [bind]; try reflexivity.
  rewrite (existsb_ext' (fun i0 : option ident => match i0 with Some (IdS s0) => cmpZ CEq (Z.of_nat (String.length s0)) 0 | _ => false end)
                        (fun i0 : option ident => match i0 with Some (IdS s0) => (String.length s0 =? 0)%nat | _ => false end)); [reflexivity|].
  intros [[s0|z]|]; try reflexivity. cbn [cmpZ]. apply of_nat_eq0.
Qed.

(* ------------------------------------------------------------------ _set_index *)
Lemma check_id_no_none k ids : check_id k ids = Ok tt -> Forall (fun i => i <> None) ids.
Proof.
  unfold check_id. destruct ids as [|i ids]; [constructor|]. set (l := i :: ids).
  intros H. assert (E : existsb (fun i0 : option ident => match i0 with Some _ => false | None => true end) l = false).
  { destruct k; try discriminate;
      destruct (existsb (fun i0 : option ident => match i0 with Some _ => false | None => true end) l); try reflexivity; discriminate. }
  apply Forall_forall. intros o Ho ->.
  assert (existsb (fun i0 : option ident => match i0 with Some _ => false | None => true end) l = true)
    by (apply existsb_exists; exists None; split; [exact Ho | reflexivity]).
  congruence.
Qed.

Lemma index_rows_time P L rows : has_time L = true -> Forall (fun r => r_id r <> None) rows ->
  mapM (index_row P L) rows =
  if existsb (fun r => is_nan (r_time r)) (map time_inf_to_nan rows) then Err DataError
  else match mk_irows (scale P) true (map time_inf_to_nan rows) with Some xs => Ok xs | None => Err OtherError end.
Proof.
  intros HL HF. unfold mk_irows. induction HF as [|r rows Hr HF IH]; [reflexivity|].
  cbn [mapM map existsb all_some]. rewrite IH. unfold index_row, mk_irow, time_inf_to_nan. cbn [r_id r_time r_vals r_evt r_evb r_cov]. rewrite HL.
  destruct (r_id r) as [i|]; [|congruence].
  destruct (r_time r) as [q| |]; cbn [is_nan orb bind]; try reflexivity.
  destruct (existsb _ _); [reflexivity|].
  destruct (all_some _); reflexivity.
Qed.

Lemma index_rows_notime P L rows : has_time L = false -> Forall (fun r => r_id r <> None) rows ->
  mapM (index_row P L) rows = match mk_irows 0 false rows with Some xs => Ok xs | None => Err OtherError end.
Proof.
  intros HL HF. unfold mk_irows. induction HF as [|r rows Hr HF IH]; [reflexivity|].
  cbn [mapM map all_some]. rewrite IH. unfold index_row, mk_irow. rewrite HL.
  destruct (r_id r) as [i|]; [|congruence]. cbn [bind].
  destruct (all_some _); reflexivity.
Qed.

(** the state once the index is set *)
Definition st_index (t : table) (sc : Z) (raw : list row) (xs : list irow) : state :=
  {| s_raw := raw; s_xs := xs; s_xs0 := []; s_tscale := sc; s_escale := 0; s_pick := AFirst; s_jagg := AFirst; s_nb := 0 |}.

Lemma run_index_time P tolv t : has_time (t_layout t) = true -> scale P = 10 ^ 6 ->
  run tolv t (m_id_checks ++ m_time_index) (init t) =
  (xs <- clean_index P t ;; Ok (st_index t (10 ^ 6) (map time_inf_to_nan (t_rows t)) xs)).
Proof.
  intros HL HP. rewrite run_app, run_id. unfold clean_index. cbn [init s_raw]. rewrite HL.
  destruct (check_id (t_idkind t) (map r_id (t_rows t))) as [[]|e] eqn:Eid; [|reflexivity]. cbn [bind].
  apply check_id_no_none in Eid. rewrite Forall_map in Eid.
  rewrite (index_rows_time P _ _ HL Eid). rewrite HP.
  unfold m_time_index. cbn [run chk upd s_raw s_xs s_tscale set_raw set_tscale set_xs]. unfold refuse, refuse_if, quantb, err_of. cbn [andb].
  destruct (negb (t_time_numeric t)); [reflexivity|]. cbn [bind].
  destruct (existsb _ _); [reflexivity|]. cbn [bind].
  destruct (mk_irows _ _ _) as [xs|]; [|reflexivity]. cbn [bind].
  destruct (negb (nodupb (map xkey xs))); reflexivity.
Qed.

Lemma run_index_notime P tolv t : has_time (t_layout t) = false ->
  run tolv t (m_id_checks ++ [SetIndexId; IndexUnique XData]) (init t) =
  (xs <- clean_index P t ;; Ok (st_index t 0 (t_rows t) xs)).
Proof.
  intros HL. rewrite run_app, run_id. unfold clean_index. cbn [init s_raw]. rewrite HL.
  destruct (check_id (t_idkind t) (map r_id (t_rows t))) as [[]|e] eqn:Eid; [|reflexivity]. cbn [bind].
  apply check_id_no_none in Eid. rewrite Forall_map in Eid.
  rewrite (index_rows_notime P _ _ HL Eid).
  cbn [run chk upd s_raw s_xs s_tscale set_raw set_tscale set_xs]. unfold refuse, refuse_if, err_of. cbn [andb bind].
  destruct (mk_irows _ _ _) as [xs|]; [|reflexivity]. cbn [bind].
  destruct (negb (nodupb (map xkey xs))); reflexivity.
Qed.

(* ------------------------------------------------------------------ _clean_numeric_data *)
Lemma run_numeric tolv t s :
  run tolv t m_numeric s = (xs <- clean_numeric t (s_xs s) ;; Ok (set_xs_xs0 s xs (s_xs s))).
Proof.
  unfold m_numeric, clean_numeric. cbn [run chk upd]. unfold refuse, refuse_if, err_of.
  destruct (negb (t_cols_numeric t)); [reflexivity|]. cbn [bind cmpZ].
  rewrite filter_length_ne0. destruct (existsb _ (s_xs s)); reflexivity.
Qed.

(* ------------------------------------------------------------------ VisitDataframeDataReader._clean_dataframe *)
Lemma run_visit_clean tolv t s : run tolv t m_visit_clean s = (clean_visits t (s_xs s) ;;; Ok s).
Proof.
  unfold m_visit_clean, clean_visits. cbn [run chk upd cmpZ]. unfold refuse, refuse_if, err_of.
  rewrite of_nat_eq0. change 1 with (Z.of_nat 1). rewrite of_nat_lt.
  destruct (Nat.eqb _ 0); [reflexivity|]. cbn [bind]. destruct (Nat.ltb _ 1); reflexivity.
Qed.
