(** C12 — executable companions of the save/load model, used by the correspondence (T2) only:
    a concrete float32 rounding on exact rationals and boolean equality tests.  Definitions only. *)
From Coq Require Import ZArith QArith List String Ascii Bool.
From Leaspy Require Import Io.SaveLoad.
Import ListNotations.
Open Scope Z_scope.

(** round-to-nearest-even to binary32 (24-bit significand, subnormals below 2^-126; overflow NOT modelled:
    values beyond the float32 range keep 24 significant bits instead of becoming infinite) *)
Definition r32 (q : Q) : Q :=
  match Qnum q with
  | Z0 => 0%Q
  | _ =>
    let n := Z.abs (Qnum q) in
    let d := Zpos (Qden q) in
    let k := Z.log2 n - Z.log2 d in
    let e := if 0 <=? k then (if d * 2 ^ k <=? n then k else k - 1)
             else (if d <=? n * 2 ^ (- k) then k else k - 1) in
    let e := Z.max e (-126) in
    let sh := e - 23 in
    let num := if 0 <=? sh then n else n * 2 ^ (- sh) in
    let den := if 0 <=? sh then d * 2 ^ sh else d in
    let fl := num / den in
    let rem := num mod den in
    let m := if 2 * rem <? den then fl else if den <? 2 * rem then fl + 1 else if Z.even fl then fl else fl + 1 in
    let v := if 0 <=? sh then inject_Z (m * 2 ^ sh) else Qred (m # Z.to_pos (2 ^ (- sh))) in
    if Qnum q <? 0 then Qopp v else v
  end.

Definition list_eqb {A} (eqb : A -> A -> bool) : list A -> list A -> bool :=
  fix go l1 l2 := match l1, l2 with [] , [] => true | x :: r, y :: s => eqb x y && go r s | _, _ => false end.
Definition opt_eqb {A} (eqb : A -> A -> bool) (a b : option A) : bool :=
  match a, b with None, None => true | Some x, Some y => eqb x y | _, _ => false end.

Fixpoint jv_eqb (a b : jv) : bool :=
  match a, b with
  | JNull, JNull => true
  | JInt x, JInt y => x =? y
  | JNum x, JNum y => Qeq_bool x y
  | JStr x, JStr y => String.eqb x y
  | JList x, JList y =>
      (fix go (l1 l2 : list jv) : bool :=
         match l1, l2 with [], [] => true | u :: r, v :: s => jv_eqb u v && go r s | _, _ => false end) x y
  | JObj x, JObj y =>
      (fix go (l1 l2 : list (string * jv)) : bool :=
         match l1, l2 with [], [] => true | (k, u) :: r, (k', v) :: s => String.eqb k k' && jv_eqb u v && go r s | _, _ => false end) x y
  | _, _ => false
  end.
Definition dict_eqb (a b : dict) : bool := jv_eqb (JObj a) (JObj b).

Definition err_eqb (a b : err) : bool :=
  match a, b with
  | ModelInputError, ModelInputError | InputError, InputError | ValueError, ValueError | TypeError, TypeError
  | KeyError, KeyError | AttributeError, AttributeError | NotImplementedErr, NotImplementedErr | RuntimeErr, RuntimeErr
  | Unmodelled, Unmodelled => true
  | _, _ => false end.
Definition res_eqb {A} (eqb : A -> A -> bool) (a b : result A) : bool :=
  match a, b with Ok x, Ok y => eqb x y | Err x, Err y => err_eqb x y | _, _ => false end.

Definition tensor_eqb (a b : tensor) : bool :=
  list_eqb Nat.eqb (t_shape a) (t_shape b) && list_eqb Qeq_bool (t_data a) (t_data b).
Definition obsk_eqb (a b : obsk) : bool :=
  match a, b with Gauss n, Gauss m => Nat.eqb n m | Bern, Bern | Weib, Weib | WeibSrc, WeibSrc => true | _, _ => false end.
Definition params_eqb : list (string * tensor) -> list (string * tensor) -> bool :=
  list_eqb (fun a b => String.eqb (fst a) (fst b) && tensor_eqb (snd a) (snd b)).

(** equality of everything observable on a loaded model *)
Definition model_eqb (a b : model) : bool :=
  mkind_eqb (m_kind a) (m_kind b) && String.eqb (m_name a) (m_name b)
  && opt_eqb (list_eqb String.eqb) (m_features a) (m_features b)
  && opt_eqb Z.eqb (m_dim a) (m_dim b) && opt_eqb Z.eqb (m_sdim a) (m_sdim b)
  && list_eqb obsk_eqb (m_obs a) (m_obs b)
  && opt_eqb Z.eqb (m_nclusters a) (m_nclusters b) && (m_nb_events a =? m_nb_events b)
  && jv_eqb (m_fit_metrics a) (m_fit_metrics b)
  && params_eqb (m_params a) (m_params b)
  && tensor_eqb (m_mixing a) (m_mixing b).

(** one correspondence case: the model object as observed, the version, what [to_dict] returned,
    a settings dictionary and what [BaseModel.load] made of it *)
Definition save_case_ok (c : model * string * result dict) : bool :=
  let '(m, ver, observed) := c in res_eqb dict_eqb (save ver m) observed.
Definition load_case_ok (c : dict * result model) : bool :=
  let '(d, observed) := c in
  let mix := match observed with Ok m => m_mixing m | Err _ => mkT [] [] end in
  res_eqb model_eqb (load r32 (fun _ _ _ _ => mix) d) observed.
Definition r32_case_ok (c : Q * Q) : bool := Qeq_bool (r32 (fst c)) (snd c).
