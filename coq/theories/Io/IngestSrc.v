(** C14 — the VALIDATION RULES of the dataframe readers as an ordered decision table, and its interpreter
    (definitions only; proofs in IngestSrcProofs.v, the tie with the regenerated table in IngestSrcTie.v).

    [coq/gen/GenC14.v] (regenerated on every run from src/leaspy/io/data/*_dataframe_data_reader.py by
    harness/translate/c14_readers.py, python `ast`, fail closed) holds one value [readers]: for every reader class the ordered
    list of the checks a call of [read] performs before the individuals are built — calls inlined along
    [read -> _clean_index -> _check_ID / _set_index -> _check_TIME, _clean_numeric_data, _clean_dataframe -> ...] —
    each with the comparison operator, constant, quantifier ([.all()] / [.any()]), aggregate ([.max()], [.first()], [.sum()], ...)
    and exception class READ FROM THE SOURCE, plus the two class constants.

    [chk] / [upd] give every entry a meaning over the tables of [Io.Ingest] that is generic in those parameters
    ([cmpZ], [cmpQ], [quantb], [aggZ]); [src_clean] runs a table.  [model_readers] is the table the hand-written model
    [Ingest.clean] implements: IngestSrcProofs.v proves [src_clean model_readers = clean], IngestSrcTie.v that the regenerated
    table IS [model_readers].  What an entry means for parameters the readers do not use today and the model of tables cannot
    express (an aggregate that is not idempotent on a constant column, ...) is an explicit [Err OtherError], never a guess. *)
From Coq Require Import ZArith QArith Qround List Bool String.
From Leaspy Require Import Base.QAux Io.Ingest.
Import ListNotations.
Open Scope Z_scope.

(* ------------------------------------------------------------------ vocabulary read from the source *)
Inductive cmp := CLt | CLe | CGt | CGe | CEq | CNe.
Inductive agg := AMax | AMin | AFirst | ALast | ASum | ANUnique.
Inductive quant := QAll | QAny.
Inductive exn := XData | XOther.            (* LeaspyDataInputError | any other exception class *)
Inductive col := ColEvt | ColEvb | ColCov.

Inductive check :=
(* CovariateDataframeDataReader.__init__ : `if not covariate_names: raise` *)
| CovNames (x : exn)
(* _check_ID *)
| IdDtypeIn (allowed : list idkind) (x : exn)           (* `inferred_dtype not in valid_dtypes` *)
| IdNa (q : quant) (x : exn)                             (* `s.isna().any()` *)
| IdIntCmp (c : cmp) (k : Z) (q : quant) (x : exn)      (* integer IDs: `(s < 0).any()` *)
| IdStrLenCmp (c : cmp) (k : Z) (q : quant) (x : exn)   (* string IDs: `(s.str.len() == 0).any()` *)
(* _check_TIME, _set_index *)
| TimeNumeric (x : exn)
| TimeInfToNan                                            (* `s.replace([inf, -inf], nan)` *)
| TimeNa (q : quant) (x : exn)                           (* `s.isna().any()` *)
| RoundTime (digits : Z)                                  (* `round(df["TIME"], self.time_rounding_digits)` *)
| SetIndexIdTime                                          (* `df.set_index(["ID", "TIME"])` *)
| SetIndexId                                              (* `df.set_index(["ID"])` *)
| IndexUnique (x : exn)                                   (* `not df.index.is_unique` *)
(* _clean_numeric_data *)
| ColsNumeric (x : exn)
| InfCount (c : cmp) (k : Z) (x : exn)                   (* `len(rows with an inf) != 0` *)
| DropFullNan
(* CovariateDataframeDataReader._clean_dataframe : `df.drop(columns=self.covariate_names)` (pandas KeyError) *)
| DropCovColumns
(* VisitDataframeDataReader._clean_dataframe *)
| NRows (c : cmp) (k : Z) (x : exn)                      (* `self.n_visits == 0` *)
| Dimension (c : cmp) (k : Z) (x : exn)                  (* `self.dimension < 1` *)
(* EventDataframeDataReader._clean_dataframe *)
| RoundEvt (digits : Z)
| EvtCmp (c : cmp) (k : Z) (q : quant) (x : exn)        (* `not (event_time > 0).all()` *)
| ArrayEqualAsInt (cl : col) (x : exn)                   (* `not np.array_equal(c, c.astype(int))` *)
| AsInt (cl : col)                                        (* `df[c] = df[c].astype(int)` *)
| NUniquePerId (cols : list col) (k : Z) (x : exn)       (* `not groupby("ID").nunique()[cols].eq(1).all().all()` *)
| GroupBy (a : agg)                                       (* `df = df.groupby("ID").first()` *)
| NGroups (c : cmp) (k : Z) (x : exn)                    (* `len(df) == 0` *)
| NbAgg (a : agg)                                         (* `nb_events = df_event[bool].max()` *)
| NbRule (c0 : cmp) (k0 : Z) (x0 : exn) (c1 c2 : cmp) (k2 : Z) (x2 : exn)
(* JointDataframeDataReader._clean_dataframe *)
| SameIds (x : exn)                                       (* `not df_event...index.equals(df_visit...index)` *)
| JoinAgg (a : agg)                                       (* `df_test = df.reset_index().groupby("ID").max()` *)
| Crossed (c : cmp) (q : quant) (c2 : cmp) (a2 : agg) (k2 : Z) (x : exn)
    (* `if not (df_test[evt] - df_test["TIME"] >= -self.tol_diff).all():`
       `    if df_before[bool].sum() == 0: warn else: raise` *)
(* CovariateDataframeDataReader._clean_dataframe_covariates *)
| CovColumnsEq (x : exn)
| CovNa (q : quant) (x : exn)
| CovLevels (c : cmp) (k : Z) (x : exn)                  (* `nunique(dropna=False) < 2` for some covariate *)
(* read: `for idx_subj, df_subj in df.groupby(level="ID", sort=False)` *)
| GroupLoop.

Record readers := {
  rd_digits : Z;                 (* AbstractDataframeDataReader.time_rounding_digits *)
  rd_tol : Q;                    (* JointDataframeDataReader.tol_diff (exact rational of the float) *)
  rd_visit : list check;         (* VisitDataframeDataReader().read(df) *)
  rd_event : list check;         (* EventDataframeDataReader(...).read(df) *)
  rd_joint : list check;         (* JointDataframeDataReader(...).read(df) *)
  rd_cov : list check            (* CovariateDataframeDataReader(covariate_names=...).read(df) *)
}.

(* ------------------------------------------------------------------ the table the hand-written model implements *)
Definition m_id_checks : list check :=
  [IdDtypeIn [KString; KInteger; KCategorical] XData; IdNa QAny XData; IdIntCmp CLt 0 QAny XData; IdStrLenCmp CEq 0 QAny XData].
Definition m_time_index : list check :=
  [TimeNumeric XData; TimeInfToNan; TimeNa QAny XData; RoundTime 6; SetIndexIdTime; IndexUnique XData].
Definition m_numeric : list check := [ColsNumeric XData; InfCount CNe 0 XData; DropFullNan].
Definition m_visit_clean : list check := [NRows CEq 0 XData; Dimension CLt 1 XData].
Definition m_event_clean : list check :=
  [RoundEvt 6; EvtCmp CGt 0 QAll XData; ArrayEqualAsInt ColEvb XData; AsInt ColEvb; NUniquePerId [ColEvt; ColEvb] 1 XData;
   GroupBy AFirst; NGroups CEq 0 XData; NbAgg AMax; NbRule CEq 0 XData CNe CEq 0 XData].
Definition m_joint_tail : list check := [SameIds XData; JoinAgg AMax; Crossed CGe QAll CEq ASum 0 XData].
Definition m_cov_clean : list check :=
  [CovColumnsEq XData; CovNa QAny XData; ArrayEqualAsInt ColCov XData; NUniquePerId [ColCov] 1 XData; GroupBy AFirst;
   NGroups CEq 0 XData; CovLevels CLt 2 XData].

Definition model_readers : readers := {|
  rd_digits := 6;
  rd_tol := (1152921504606847 # 1152921504606846976)%Q;       (* the float64 0.001 *)
  rd_visit := m_id_checks ++ m_time_index ++ m_numeric ++ m_visit_clean ++ [GroupLoop];
  rd_event := m_id_checks ++ [SetIndexId; IndexUnique XData] ++ m_numeric ++ m_event_clean ++ [GroupLoop];
  rd_joint := m_id_checks ++ m_time_index ++ m_numeric ++ m_visit_clean ++ m_event_clean ++ m_joint_tail ++ [GroupLoop];
  rd_cov := [CovNames XData] ++ m_id_checks ++ m_time_index ++ m_numeric ++ [DropCovColumns] ++ m_visit_clean ++ m_cov_clean
            ++ [SameIds XData; GroupLoop]
|}.

(** the constants of [Ingest.params] a table stands for *)
Definition P_of (G : readers) (st : Q -> Q) : params := {| scale := 10 ^ rd_digits G; tol := rd_tol G; store := st |}.

(* ------------------------------------------------------------------ meaning of the vocabulary *)
Definition cmpZ (c : cmp) (a b : Z) : bool :=
  match c with CLt => a <? b | CLe => a <=? b | CGt => b <? a | CGe => b <=? a | CEq => a =? b | CNe => negb (a =? b) end.
Definition cmpQ (c : cmp) (a b : Q) : bool :=
  match c with
  | CLt => negb (Qle_bool b a) | CLe => Qle_bool a b | CGt => negb (Qle_bool a b) | CGe => Qle_bool b a
  | CEq => Qeq_bool a b | CNe => negb (Qeq_bool a b)
  end.
Definition quantb {A} (q : quant) (p : A -> bool) (l : list A) : bool :=
  match q with QAll => forallb p l | QAny => existsb p l end.

Fixpoint list_minZ (d : Z) (l : list Z) : Z := match l with [] => d | a :: r => Z.min a (list_minZ d r) end.
(** a pandas aggregate of a column of integers (0 on the empty column, which no reader aggregates) *)
Definition aggZ (a : agg) (l : list Z) : Z :=
  match l with
  | [] => 0
  | d :: r =>
    match a with
    | AMax => list_maxZ d r
    | AMin => list_minZ d r
    | AFirst => d
    | ALast => last r d
    | ASum => d + sumZ r
    | ANUnique => Z.of_nat (List.length (distinctZ (d :: r)))
    end
  end.
(** the same aggregate of a column that holds [n] times the value [v] *)
Definition aggConst (a : agg) (v : Z) (n : nat) : Z :=
  match a with AMax | AMin | AFirst | ALast => v | ASum => v * Z.of_nat n | ANUnique => 1 end.

Definition err_of (x : exn) : error := match x with XData => DataError | XOther => OtherError end.
Definition refuse (x : exn) (b : bool) : result unit := if b then Err (err_of x) else Ok tt.
Definition idkind_eqb (a b : idkind) : bool :=
  match a, b with KString, KString | KInteger, KInteger | KCategorical, KCategorical | KOther, KOther => true | _, _ => false end.

(* ------------------------------------------------------------------ the state a reader works on *)
Record state := {
  s_raw : list row;          (* the table before the index is set *)
  s_xs : list irow;          (* ... once it is set *)
  s_xs0 : list irow;         (* the indexed rows before the rows full of nan were dropped *)
  s_tscale : Z;              (* 10 ^ digits the ages were rounded to (0: not rounded) *)
  s_escale : Z;              (* 10 ^ digits the event ages were rounded to *)
  s_pick : agg;              (* how groupby("ID") reduced the event columns to one row per ID *)
  s_jagg : agg;              (* the aggregate of the joint cross-check *)
  s_nb : Z                   (* number of events in force *)
}.
Definition init (t : table) : state :=
  {| s_raw := t_rows t; s_xs := []; s_xs0 := []; s_tscale := 0; s_escale := 0; s_pick := AFirst; s_jagg := AFirst; s_nb := 0 |}.
Definition set_raw (s : state) v := {| s_raw := v; s_xs := s_xs s; s_xs0 := s_xs0 s; s_tscale := s_tscale s; s_escale := s_escale s; s_pick := s_pick s; s_jagg := s_jagg s; s_nb := s_nb s |}.
Definition set_xs (s : state) v := {| s_raw := s_raw s; s_xs := v; s_xs0 := s_xs0 s; s_tscale := s_tscale s; s_escale := s_escale s; s_pick := s_pick s; s_jagg := s_jagg s; s_nb := s_nb s |}.
Definition set_xs_xs0 (s : state) v v0 := {| s_raw := s_raw s; s_xs := v; s_xs0 := v0; s_tscale := s_tscale s; s_escale := s_escale s; s_pick := s_pick s; s_jagg := s_jagg s; s_nb := s_nb s |}.
Definition set_tscale (s : state) v := {| s_raw := s_raw s; s_xs := s_xs s; s_xs0 := s_xs0 s; s_tscale := v; s_escale := s_escale s; s_pick := s_pick s; s_jagg := s_jagg s; s_nb := s_nb s |}.
Definition set_escale (s : state) v := {| s_raw := s_raw s; s_xs := s_xs s; s_xs0 := s_xs0 s; s_tscale := s_tscale s; s_escale := v; s_pick := s_pick s; s_jagg := s_jagg s; s_nb := s_nb s |}.
Definition set_pick (s : state) v := {| s_raw := s_raw s; s_xs := s_xs s; s_xs0 := s_xs0 s; s_tscale := s_tscale s; s_escale := s_escale s; s_pick := v; s_jagg := s_jagg s; s_nb := s_nb s |}.
Definition set_jagg (s : state) v := {| s_raw := s_raw s; s_xs := s_xs s; s_xs0 := s_xs0 s; s_tscale := s_tscale s; s_escale := s_escale s; s_pick := s_pick s; s_jagg := v; s_nb := s_nb s |}.
Definition set_nb (s : state) v := {| s_raw := s_raw s; s_xs := s_xs s; s_xs0 := s_xs0 s; s_tscale := s_tscale s; s_escale := s_escale s; s_pick := s_pick s; s_jagg := s_jagg s; s_nb := v |}.

(* ------------------------------------------------------------------ helpers on rows *)
Definition round_to (sc : Z) (q : Q) : Z := round_half_even (q * inject_Z sc).
Definition time_inf_to_nan (r : row) : row :=
  {| r_id := r_id r; r_time := match r_time r with Inf => NaN | c => c end; r_vals := r_vals r; r_evt := r_evt r; r_evb := r_evb r; r_cov := r_cov r |}.
(** the indexed row; [None] when the identifier is missing or the age (wanted: [wt]) is not a number: such a label has no
    counterpart in [irow] *)
Definition mk_irow (sc : Z) (wt : bool) (r : row) : option irow :=
  match r_id r with
  | None => None
  | Some i =>
    if wt then
      match r_time r with
      | Fin q => Some {| x_id := i; x_time := round_to sc q; x_vals := r_vals r; x_evt := r_evt r; x_evb := r_evb r; x_cov := r_cov r |}
      | _ => None
      end
    else Some {| x_id := i; x_time := 0; x_vals := r_vals r; x_evt := r_evt r; x_evb := r_evb r; x_cov := r_cov r |}
  end.
Definition mk_irows (sc : Z) (wt : bool) (rows : list row) : option (list irow) := all_some (map (mk_irow sc wt) rows).

Definition evt_z (sc : Z) (x : irow) : Z := match x_evt x with Fin q => round_to sc q | _ => 0 end.
Definition evb_z (x : irow) : Z := match x_evb x with Fin q => Qfloor q | _ => 0 end.
Definition event_cell_s (sc : Z) (x : irow) : result (Z * Z) :=
  match x_evt x, x_evb x with
  | Fin tq, Fin bq => Ok (round_to sc tq, Qfloor bq)
  | _, _ => Err OtherError
  end.
Definition col_cells (cl : col) (x : irow) : list cell :=
  match cl with ColEvt => [x_evt x] | ColEvb => [x_evb x] | ColCov => x_cov x end.
Definition integral_cell (c : cell) : bool := match c with Fin q => is_integral q | _ => false end.
Definition uniq_col (sc : Z) (cl : col) (xs : list irow) : bool :=
  match cl with
  | ColEvt => unique_per_id Z.eqb (evt_z sc) xs
  | ColEvb => unique_per_id Z.eqb evb_z xs
  | ColCov => unique_per_id list_eqbZ cov_ints xs
  end.
Definition lost_of (t : table) (s : state) : bool :=
  match t_idkind t with
  | KCategorical => existsb (fun i => negb (existsb (ident_eqb i) (ids_of (s_xs s)))) (ids_of (s_xs0 s))
  | _ => false
  end.
(** the row of [i] that [groupby("ID").first()] / [.last()] keeps *)
Definition pick_row (a : agg) (i : ident) (xs : list irow) : option irow :=
  match a with ALast => find (fun y => ident_eqb i (x_id y)) (rev xs) | _ => first_row_of i xs end.
Definition ages_of (i : ident) (xs : list irow) : list Z := map x_time (filter (fun y => ident_eqb i (x_id y)) xs).

(** `not (evt - TIME  c  bound)` for the individual [i]: ages aggregated by [a] over its rows; its event columns are constant
    (they were joined from the one-row-per-ID event frame) *)
Definition src_offender (sct sce : Z) (pk a : agg) (c : cmp) (bound : Q) (xs : list irow) (i : ident) : bool :=
  match pick_row pk i xs with
  | Some x =>
    match x_evt x with
    | Fin q =>
      let n := List.length (ages_of (x_id x) xs) in
      negb (cmpQ c (inject_Z (aggConst a (round_to sce q) n) / inject_Z sce - inject_Z (aggZ a (ages_of (x_id x) xs)) / inject_Z sct) bound)
    | _ => false
    end
  | None => false
  end.
Definition src_evb_of (pk a : agg) (xs : list irow) (i : ident) : Z :=
  match pick_row pk i xs with Some x => aggConst a (evb_z x) (List.length (ages_of (x_id x) xs)) | None => 0 end.

(* ------------------------------------------------------------------ one entry: its test ... *)
Definition chk (tolv : Q) (t : table) (c : check) (s : state) : result unit :=
  let ids := map r_id (s_raw s) in
  let xs := s_xs s in
  match c with
  | CovNames x => refuse x (Nat.eqb (t_ncov t) 0)
  | IdDtypeIn allowed x => refuse x (negb (match ids with [] => false | _ => existsb (idkind_eqb (t_idkind t)) allowed end))
  | IdNa q x => refuse x (quantb q (fun i => match i with None => true | _ => false end) ids)
  | IdIntCmp c k q x =>
    match t_idkind t with
    | KInteger => refuse x (quantb q (fun i => match i with Some (IdZ z) => cmpZ c z k | _ => false end) ids)
    | _ => Ok tt
    end
  | IdStrLenCmp c k q x =>
    match t_idkind t with
    | KString => refuse x (quantb q (fun i => match i with Some (IdS s) => cmpZ c (Z.of_nat (String.length s)) k | _ => false end) ids)
    | _ => Ok tt
    end
  | TimeNumeric x => refuse x (negb (t_time_numeric t))
  | TimeInfToNan => Ok tt
  | TimeNa q x => refuse x (quantb q (fun r => is_nan (r_time r)) (s_raw s))
  | RoundTime _ => Ok tt
  | SetIndexIdTime => match mk_irows (s_tscale s) true (s_raw s) with Some _ => Ok tt | None => Err OtherError end
  | SetIndexId => match mk_irows 0 false (s_raw s) with Some _ => Ok tt | None => Err OtherError end
  | IndexUnique x => refuse x (negb (nodupb (map xkey xs)))
  | ColsNumeric x => refuse x (negb (t_cols_numeric t))
  | InfCount c k x =>
    refuse x (cmpZ c (Z.of_nat (List.length (filter (fun y => existsb is_inf (data_cells (t_layout t) y)) xs))) k)
  | DropFullNan => Ok tt
  | DropCovColumns => if negb (t_cov_named t) then Err OtherError else Ok tt
  | NRows c k x => refuse x (cmpZ c (Z.of_nat (List.length xs)) k)
  | Dimension c k x => refuse x (cmpZ c (Z.of_nat (t_nfeat t)) k)
  | RoundEvt _ => Ok tt
  | EvtCmp c k q x =>
    refuse x (negb (quantb q (fun y => match x_evt y with Fin v => cmpZ c (round_to (s_escale s) v) k | _ => false end) xs))
  | ArrayEqualAsInt cl x =>
    (* astype(int) raises on NaN (pandas IntCastingNaNError) *)
    (if existsb (fun y => existsb is_nan (col_cells cl y)) xs then Err OtherError else Ok tt) ;;;
    refuse x (negb (forallb (fun y => forallb integral_cell (col_cells cl y)) xs))
  | AsInt cl =>
    match cl with
    | ColEvb => _ <- mapM (event_cell_s (s_escale s)) xs ;; Ok tt
    | _ => Ok tt
    end
  | NUniquePerId cols k x =>
    (* an unobserved category of a categorical ID column counts 0 values *)
    if k =? 1 then refuse x (lost_of t s) ;;; refuse x (negb (forallb (fun cl => uniq_col (s_escale s) cl xs) cols))
    else Err OtherError
  | GroupBy a => match a with AFirst | ALast => Ok tt | _ => Err OtherError end
  | NGroups c k x => refuse x (cmpZ c (Z.of_nat (List.length (firsts (ids_of xs)))) k)
  | NbAgg a => match a with AMax | AMin => Ok tt | _ => Err OtherError end
  | NbRule c0 k0 x0 c1 c2 k2 x2 =>
    match t_nb_events t with
    | None | Some 0 => refuse x0 (cmpZ c0 (s_nb s) k0)
    | Some nb => if cmpZ c1 nb (s_nb s) then (if cmpZ c2 (s_nb s) k2 then Ok tt else Err (err_of x2)) else Ok tt
    end
  | SameIds _ => Ok tt          (* both indexes come from the same rows: never raised on the tables of the model *)
  | JoinAgg _ => Ok tt
  | Crossed c q c2 a2 k2 x =>
    let ids := firsts (ids_of xs) in
    let off := src_offender (s_tscale s) (s_escale s) (s_pick s) (s_jagg s) c (- tolv) xs in
    refuse x (negb (quantb q (fun i => negb (off i)) ids)
              && negb (cmpZ c2 (aggZ a2 (map (src_evb_of (s_pick s) (s_jagg s) xs) (filter off ids))) k2))
  | CovColumnsEq _ => Ok tt     (* labels are not modelled beyond [t_cov_named], which [DropCovColumns] already required *)
  | CovNa q x =>
    match q with
    | QAny => refuse x (existsb (fun y => existsb is_nan (x_cov y)) xs)
    | QAll => refuse x (existsb (fun j => forallb (fun y => is_nan (nth j (x_cov y) NaN)) xs) (seq 0 (t_ncov t)))
    end
  | CovLevels c k x =>
    refuse x (existsb (fun j => cmpZ c (Z.of_nat (List.length (distinctZ (map (fun y => nth j (cov_ints y) 0) xs)))) k) (seq 0 (t_ncov t)))
  | GroupLoop =>
    (* visit layout: the empty group of an unobserved category becomes an IndividualData without timepoints; Dataset(...) raises *)
    if lost_of t s then Err OtherError else Ok tt
  end.

(* ------------------------------------------------------------------ ... and what it changes *)
Definition upd (t : table) (c : check) (s : state) : state :=
  match c with
  | TimeInfToNan => set_raw s (map time_inf_to_nan (s_raw s))
  | RoundTime d => set_tscale s (10 ^ d)
  | SetIndexIdTime => set_xs s (match mk_irows (s_tscale s) true (s_raw s) with Some xs => xs | None => [] end)
  | SetIndexId => set_xs s (match mk_irows 0 false (s_raw s) with Some xs => xs | None => [] end)
  | DropFullNan =>
    set_xs_xs0 s (if t_drop_full_nan t then filter (fun x => negb (forallb is_nan (data_cells (t_layout t) x))) (s_xs s) else s_xs s) (s_xs s)
  | RoundEvt d => set_escale s (10 ^ d)
  | GroupBy a => set_pick s a
  | NbAgg a => set_nb s (aggZ a (map evb_z (s_xs s)))
  | NbRule _ _ _ _ _ _ _ => match t_nb_events t with None | Some 0 => s | Some nb => set_nb s nb end
  | JoinAgg a => set_jagg s a
  | _ => s
  end.

Fixpoint run (tolv : Q) (t : table) (l : list check) (s : state) : result state :=
  match l with
  | [] => Ok s
  | c :: r => chk tolv t c s ;;; run tolv t r (upd t c s)
  end.

Definition pipeline (G : readers) (L : layout) : list check :=
  match L with LVisit => rd_visit G | LEvent => rd_event G | LJoint => rd_joint G | LCov => rd_cov G end.

(** [read] up to the loop over the individuals, by the decision table [G] *)
Definition src_clean (G : readers) (st : Q -> Q) (t : table) : result (list crow * Z) :=
  s <- run (rd_tol G) t (pipeline G (t_layout t)) (init t) ;;
  Ok (map (crow_of (P_of G st) (t_layout t)) (s_xs s), s_nb s).

(** Data.from_dataframe and Dataset(...) on top of it, as in [Ingest] *)
Definition src_ingest_data (G : readers) (st : Q -> Q) (t : table) : result (list indiv) :=
  cn <- src_clean G st t ;;
  let (rows, nb) := cn in
  let groups := groupby rows in
  let groups := match t_layout t with LEvent => sort_groups groups | _ => groups end in
  mapM (load_indiv (t_layout t) nb) groups.
Definition src_ingest (G : readers) (st : Q -> Q) (t : table) : result dataset :=
  inds <- src_ingest_data G st t ;;
  Ok (construct (P_of G st) (t_layout t) (t_nfeat t) inds).
