(** C16 — executable comparison of the model with results observed on the implementation.
    Used only by the generated case files of harness/props/c16.py ([vm_compute]); nothing here is a theorem. *)
From Coq Require Import List String Ascii Bool Arith QArith.
From Leaspy Require Import Io.IndivParams.
Import ListNotations.

Fixpoint list_eqb {A} (eqb : A -> A -> bool) (a b : list A) : bool :=
  match a, b with
  | [], [] => true
  | x :: r, y :: s => eqb x y && list_eqb eqb r s
  | _, _ => false
  end.

Definition option_eqb {A} (eqb : A -> A -> bool) (a b : option A) : bool :=
  match a, b with Some x, Some y => eqb x y | None, None => true | _, _ => false end.

Definition err_eqb (a b : err) : bool :=
  match a, b with InputError, InputError | Crash, Crash | Unmodelled, Unmodelled => true | _, _ => false end.

Definition kind_eqb (a b : numkind) : bool :=
  match a, b with
  | KInt, KInt | KFloat, KFloat | KNpInt32, KNpInt32 | KNpInt64, KNpInt64
  | KNpFloat32, KNpFloat32 | KNpFloat64, KNpFloat64 | KNpOther, KNpOther => true
  | _, _ => false
  end.

(** [kinds = false]: compare the rational values only *)
Definition num_eqb (kinds : bool) (a b : num) : bool :=
  (negb kinds || kind_eqb (fst a) (fst b)) && Qeq_bool (snd a) (snd b).

Definition value_eqb (kinds : bool) (a b : value) : bool :=
  match a, b with
  | Scalar x, Scalar y => num_eqb kinds x y
  | Vec l, Vec m => list_eqb (num_eqb kinds) l m
  | _, _ => false
  end.

Definition pair_eqb {A B} (ea : A -> A -> bool) (eb : B -> B -> bool) (a b : A * B) : bool :=
  ea (fst a) (fst b) && eb (snd a) (snd b).

Definition entry_eqb (kinds : bool) : entry -> entry -> bool :=
  list_eqb (pair_eqb String.eqb (value_eqb kinds)).

Definition shapes_t_eqb : shapes_t -> shapes_t -> bool :=
  list_eqb (pair_eqb String.eqb (list_eqb Nat.eqb)).

(** identical containers: same IDs in the same order, same names in the same order, same shapes, same values *)
Definition container_eqb (kinds : bool) (a b : container) : bool :=
  list_eqb String.eqb (indices a) (indices b)
  && list_eqb (pair_eqb String.eqb (entry_eqb kinds)) (params a) (params b)
  && option_eqb shapes_t_eqb (shapes a) (shapes b).

Definition pyid_eqb (a b : pyid) : bool :=
  match a, b with IdStr s, IdStr t => String.eqb s t | IdNotStr, IdNotStr => true | _, _ => false end.

Definition table_eqb (a b : table) : bool :=
  list_eqb String.eqb (cols a) (cols b)
  && list_eqb (pair_eqb pyid_eqb (list_eqb Qeq_bool)) (rows a) (rows b).

Definition res_eqb {A} (eqb : A -> A -> bool) (a b : res A) : bool :=
  match a, b with
  | Ok x, Ok y => eqb x y
  | Err e, Err f => err_eqb e f
  | _, _ => false
  end.

Definition torch_eqb : (list string * list (string * list (list Q))) -> (list string * list (string * list (list Q))) -> bool :=
  pair_eqb (list_eqb String.eqb) (list_eqb (pair_eqb String.eqb (list_eqb (list_eqb Qeq_bool)))).

Definition fmt_eqb (a b : fmt) : bool := match a, b with Csv, Csv | Json, Json => true | _, _ => false end.

(* ---------------------------------------------------------------------------- stream A: containers *)

Inductive obs_add := ObsAdded | ObsRejected (e : err).

(** replay the additions; [None] = the model and the observation differ; [Some (c, outside)] otherwise *)
Fixpoint run_adds (c : container) (ops : list (pyid * pyarg)) (obs : list obs_add) : option (container * bool) :=
  match ops, obs with
  | [], [] => Some (c, false)
  | (i, a) :: r, o :: s =>
    match add c i a, o with
    | Added c', ObsAdded => run_adds c' r s
    | Rejected e, ObsRejected f => if err_eqb e f then run_adds c r s else None
    | AcceptedOutsideModel, ObsAdded => Some (c, true)
    | _, _ => None
    end
  | _, _ => None
  end.

Record caseA := mkA {
  a_ops : list (pyid * pyarg);
  a_obs : list obs_add;
  a_final : container;                                   (* the three private fields after the additions *)
  a_df : res table;                                      (* to_dataframe() *)
  a_df_back : res container;                             (* from_dataframe(to_dataframe()) *)
  a_torch : res (list string * list (string * list (list Q)));   (* to_pytorch() *)
  a_torch_back : res container;                          (* from_pytorch applied to to_pytorch() *)
  a_json_back : res container;                           (* save(x.json); load(x.json) *)
  a_csv_back : res container;                            (* save(x.csv); load(x.csv) *)
  a_sub_ids : list pyid;
  a_sub : res container                                  (* subset(ids) *)
}.

Definition idq (q : Q) : Q := q.

(** which comparison fails first: 0 = all agree *)
Definition checkA_code (k : caseA) : nat :=
  match run_adds empty (a_ops k) (a_obs k) with
  | None => 1
  | Some (c, true) => 0          (* accepted entry outside the value domain: nothing further is modelled *)
  | Some (c, false) =>
    if negb (container_eqb true c (a_final k)) then 2
    else if negb (res_eqb table_eqb (to_dataframe c) (a_df k)) then 3
    else if negb (res_eqb (container_eqb false) (do t <- to_dataframe c; from_dataframe t) (a_df_back k)) then 4
    else if negb (res_eqb torch_eqb (to_pytorch idq c) (a_torch k)) then 5
    else if negb (res_eqb (container_eqb false)
                   (do it <- to_pytorch idq c;
                    from_pytorch (map IdStr (fst it)) (map (fun kt => (fst kt, T2 (snd kt))) (snd it)))
                   (a_torch_back k)) then 6
    else if negb (res_eqb (container_eqb true) (do j <- to_json c; Ok (from_json j)) (a_json_back k)) then 7
    else if negb (res_eqb (container_eqb false) (csv_roundtrip c) (a_csv_back k)) then 8
    else if negb (res_eqb (container_eqb true) (subset c (a_sub_ids k)) (a_sub k)) then 9
    else 0
  end.

Definition checkA (k : caseA) : bool := Nat.eqb (checkA_code k) 0.

(* ---------------------------------------------------------------------------- stream B, C: raw inputs *)

Definition checkB (k : table * res container) : bool :=
  res_eqb (container_eqb false) (from_dataframe (fst k)) (snd k).

Definition checkC (k : list pyid * list (string * tensor) * res container) : bool :=
  res_eqb (container_eqb false) (from_pytorch (fst (fst k)) (snd (fst k))) (snd k).

(* ---------------------------------------------------------------------------- stream D: paths *)

Record caseD := mkD {
  d_ops : list (pyid * pyarg);
  d_path : string;              (* relative to a fresh directory *)
  d_path' : string;
  d_ext : option string;        (* _check_and_get_extension(path) *)
  d_ext' : option string;
  d_written : res (string * fmt);   (* the file that appeared, and its format *)
  d_back : res container        (* save(path); load(path') *)
}.

Definition checkD (k : caseD) : bool :=
  match add_all empty (d_ops k) with
  | Err _ => false
  | Ok c =>
    option_eqb String.eqb (get_extension (d_path k)) (d_ext k)
    && option_eqb String.eqb (get_extension (d_path' k)) (d_ext' k)
    && res_eqb (pair_eqb String.eqb fmt_eqb) (save_target c (d_path k)) (d_written k)
    && res_eqb (container_eqb false) (save_load c (d_path k) (d_path' k)) (d_back k)
  end.
