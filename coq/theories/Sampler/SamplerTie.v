(** C03 — what is regenerated from the running samplers (gen/GenC03.v) is what the model uses. *)
From Coq Require Import Reals List String Bool Lra.
From Leaspy Require Import Base.RAux Sampler.SamplerModel.
From LeaspyGen Require Import GenC03.
Import ListNotations.
Local Open Scope R_scope.

(** the generated expression may be written in any algebraically equal way (the exponent is compared by [ring],
    products / quotients of exponentials are first merged) *)
Ltac solve_exp :=
  first [ apply (f_equal exp); ring
        | rewrite <- ?exp_plus, <- ?exp_Ropp; apply (f_equal exp); ring
        | unfold Rdiv; repeat first [ rewrite <- exp_Ropp | rewrite <- exp_plus ]; apply (f_equal exp); ring ].

Lemma tie_alpha_pop pa na pr nr t : gen_alpha_pop pa na pr nr t = alpha pa na pr nr t.
Proof. unfold gen_alpha_pop, alpha, Dval. solve_exp. Qed.

Lemma tie_alpha_ind pa na pr nr t : gen_alpha_ind pa na pr nr t = alpha pa na pr nr t.
Proof. unfold gen_alpha_ind, alpha, Dval. solve_exp. Qed.

(** mixture model: the expression traced with K = 2 and K = 3 clusters is the model's cluster-weighted rule — the
    regularity after the proposal is weighted with the responsibilities of the state AFTER the proposal.
    (inner exponentials are abstracted to positive reals, the exponents compared by [field]) *)
Ltac abstract_exps :=
  repeat match goal with
         | |- context [exp ?x] => generalize (exp_pos x); generalize (exp x); intros ? ?
         end.

(** the OUTER form of the rule may be any product / quotient of exponentials (likelihood ratio x tempered prior ratio, ...):
    over R it is merged into one exponential by exp_plus / exp_Ropp before the exponents are compared, so an algebraically
    equal rewriting of the acceptance does not break the tie (its float evaluation is a matter for the decision search) *)
Ltac merge_outer :=
  repeat match goal with
         | |- exp _ = exp _ => fail 1
         | |- exp ?a * exp ?b = _ => rewrite <- (exp_plus a b)
         | |- exp ?a / exp ?b = _ => unfold Rdiv at 1; rewrite <- (exp_Ropp b)
         | |- / exp ?a = _ => rewrite <- (exp_Ropp a)
         end.

Ltac solve_mix :=
  cbv beta delta [alpha_mix alpha Dval cluster_weighted resp_weights resp_logit dot sum_R map fold_right] iota zeta;
  merge_outer; apply (f_equal exp); abstract_exps; field; repeat split; lra.

Lemma tie_alpha_ind_mix2 pa na s00 s01 r00 r01 s10 s11 r10 r11 t :
  gen_alpha_ind_mix2 pa na s00 s01 r00 r01 s10 s11 r10 r11 t = alpha_mix pa na [s00; s01] [r00; r01] [s10; s11] [r10; r11] t.
Proof. unfold gen_alpha_ind_mix2. solve_mix. Qed.

Lemma tie_alpha_ind_mix3 pa na s00 s01 s02 r00 r01 r02 s10 s11 s12 r10 r11 r12 t :
  gen_alpha_ind_mix3 pa na s00 s01 s02 r00 r01 r02 s10 s11 s12 r10 r11 r12 t
  = alpha_mix pa na [s00; s01; s02] [r00; r01; r02] [s10; s11; s12] [r10; r11; r12] t.
Proof. unfold gen_alpha_ind_mix3. solve_mix. Qed.

Lemma tie_accept_pop u a : gen_accept_pop u a <-> u < a.
Proof. unfold gen_accept_pop. split; intros H; lra. Qed.

Lemma tie_accept_ind u a : gen_accept_ind u a <-> u < a.
Proof. unfold gen_accept_ind. split; intros H; lra. Qed.

Lemma tie_proposal s z : gen_proposal s z = s * z.
Proof. reflexivity. Qed.

(** the nodes whose values enter the acceptance: the attachment summed over ALL observation models
    (per individual for the individual sampler) and the sampled variable's own prior term *)
Lemma tie_reads :
  gen_pop_attach_node = "nll_attach"%string /\ gen_pop_regul_node = "nll_regul_VAR"%string /\
  gen_ind_attach_node = "nll_attach_ind"%string /\ gen_ind_regul_node = "nll_regul_VAR_ind"%string.
Proof. repeat split; reflexivity. Qed.

(** the node the mixture responsibilities are computed from *)
Lemma tie_resp_node : gen_ind_resp_node = "nll_regul_ind_sum_ind"%string.
Proof. reflexivity. Qed.

(** the blocks the three population samplers loop over (traced on shapes (2,2) and (3,)) *)
Lemma tie_blocks :
  blocks Gibbs [2; 2]%nat = gen_blocks_gibbs_2x2 /\ blocks Gibbs [3]%nat = gen_blocks_gibbs_3 /\
  blocks FastGibbs [2; 2]%nat = gen_blocks_fastgibbs_2x2 /\ blocks FastGibbs [3]%nat = gen_blocks_fastgibbs_3 /\
  blocks MH [2; 2]%nat = gen_blocks_mh_2x2 /\ blocks MH [3]%nat = gen_blocks_mh_3.
Proof. repeat split; reflexivity. Qed.

(** graph facts, computed on the literals regenerated from the shipped model kinds *)
Definition shipped_kinds : list string := ["logistic"; "linear"; "shared_speed"; "joint"; "mixture"]%string.

Lemma graphs_ok :
  forallb (graph_ok gen_pop_attach_node gen_ind_attach_node) gen_graphs = true /\
  forallb (fun k => existsb (fun g => String.prefix k (g_kind g)) gen_graphs) shipped_kinds = true.
Proof. split; vm_compute; reflexivity. Qed.
