(** C03 — the mixture model's cluster-weighted individual step: facts about the responsibilities and the
    decision rule of [ind_step] instantiated with [regul_mix]. *)
From Coq Require Import Reals List Arith Bool Lra Lia.
From Leaspy Require Import Base.RAux Sampler.SamplerModel Sampler.SamplerProofs.
Import ListNotations.
Local Open Scope R_scope.

Lemma sum_R_pos : forall l, l <> [] -> Forall (fun x => 0 < x) l -> 0 < sum_R l.
Proof.
  induction l as [|a l IH]; intros Hn Hp; [congruence|].
  inversion Hp; subst. simpl. destruct l as [|b l]; [simpl; lra|].
  assert (0 < sum_R (b :: l)) by (apply IH; [discriminate | assumption]). simpl in *. lra.
Qed.

Lemma exps_pos : forall S, Forall (fun x => 0 < x) (map (fun s => exp (resp_logit s)) S).
Proof. induction S; simpl; constructor; auto. apply exp_pos. Qed.

Lemma sum_R_map_div : forall l c, sum_R (map (fun x => x / c) l) = sum_R l / c.
Proof. induction l as [|a l IH]; intros c; simpl; [unfold Rdiv; ring|]. rewrite IH. unfold Rdiv. ring. Qed.

(** the responsibilities are positive and sum to one: the regularity read is a convex combination of the
    per-cluster prior terms *)
Lemma map_div_pos : forall l c, 0 < c -> Forall (fun x => 0 < x) l -> Forall (fun x => 0 < x) (map (fun x => x / c) l).
Proof. intros l c Hc H. induction H; simpl; constructor; auto. apply Rdiv_lt_0_compat; assumption. Qed.

Lemma resp_weights_pos : forall S, Forall (fun w => 0 < w) (resp_weights S).
Proof.
  intros S. unfold resp_weights. destruct S as [|s S]; [constructor|].
  apply map_div_pos; [|apply exps_pos].
  apply sum_R_pos; [discriminate | apply exps_pos].
Qed.

Lemma resp_weights_sum : forall S, S <> [] -> sum_R (resp_weights S) = 1.
Proof.
  intros S Hn. unfold resp_weights. rewrite sum_R_map_div.
  assert (0 < sum_R (map (fun s => exp (resp_logit s)) S)).
  { apply sum_R_pos; [destruct S; [congruence | discriminate] | apply exps_pos]. }
  field. lra.
Qed.

Lemma resp_weights_length : forall S, length (resp_weights S) = length S.
Proof. intros. unfold resp_weights. now rewrite !map_length. Qed.

(** a single cluster: the weighting is the identity (the mixture rule contains the plain rule) *)
Lemma cluster_weighted_single : forall s r, cluster_weighted [s] [r] = r.
Proof. intros. unfold cluster_weighted, resp_weights, sum_R. simpl. pose proof (exp_pos (resp_logit s)). field. lra. Qed.

Lemma dot_bounds : forall w r lo hi,
  length w = length r -> Forall (fun x => 0 <= x) w -> Forall (fun x => lo <= x <= hi) r ->
  lo * sum_R w <= dot w r <= hi * sum_R w.
Proof.
  induction w as [|a w IH]; intros [|b r] lo hi L Hw Hr; simpl in *; try discriminate; [lra|].
  inversion Hw; inversion Hr; subst. destruct (IH r lo hi) as [I1 I2]; auto. nra.
Qed.

(** ... so it lies between the smallest and the largest per-cluster term *)
Lemma cluster_weighted_bounds : forall S Rk lo hi,
  S <> [] -> length S = length Rk -> Forall (fun x => lo <= x <= hi) Rk -> lo <= cluster_weighted S Rk <= hi.
Proof.
  intros S Rk lo hi Hn L Hr. unfold cluster_weighted.
  destruct (dot_bounds (resp_weights S) Rk lo hi) as [I1 I2]; auto.
  - now rewrite resp_weights_length.
  - eapply Forall_impl; [|apply resp_weights_pos]. simpl. intros; lra.
  - rewrite resp_weights_sum in * by assumption. lra.
Qed.

Lemma alpha_mix_eq pa na S0 R0 S1 R1 tinv :
  alpha_mix pa na S0 R0 S1 R1 tinv = exp (- ((na - pa) + tinv * (cluster_weighted S1 R1 - cluster_weighted S0 R0))).
Proof. unfold alpha_mix. apply alpha_eq. Qed.

Lemma map2_nth {X Y Z} (f : X -> Y -> Z) : forall l m j a b,
  nth_error l j = Some a -> nth_error m j = Some b -> nth_error (map2 f l m) j = Some (f a b).
Proof.
  induction l as [|x l IH]; intros [|y m] [|j] a b A B; simpl in *; try discriminate.
  - now inversion A; inversion B.
  - now apply IH.
Qed.

(** The individual step of the mixture model: decision [j] compares u_j with exp(-D_j) where the regularity
    before is weighted by the responsibilities of the CURRENT state and the regularity after by those of the
    PROPOSED state. *)
Lemma ind_step_mixture_sound (attach_ind : tens R -> list R) (Ssum Rvar : tens R -> list (list R)) tinv sds x tp y tp' acc :
  ind_step attach_ind (regul_mix Ssum Rvar) tinv sds x tp = Some (y, tp', acc) ->
  exists rows rows',
    x = Nd rows /\
    add_noise_rows Rplus Rmult sds rows (normals tp) = Some (rows', normals tp') /\
    y = Nd (mix_rows acc rows rows') /\
    length acc = length rows /\
    uniforms tp' = skipn (length rows) (uniforms tp) /\ normals tp' = skipn (size x) (normals tp) /\
    (forall j u a b S0 R0 S1 R1,
        nth_error (uniforms tp) j = Some u ->
        nth_error (attach_ind x) j = Some a -> nth_error (attach_ind (Nd rows')) j = Some b ->
        nth_error (Ssum x) j = Some S0 -> nth_error (Rvar x) j = Some R0 ->
        nth_error (Ssum (Nd rows')) j = Some S1 -> nth_error (Rvar (Nd rows')) j = Some R1 ->
        exists d, nth_error acc j = Some d /\
          (d = true <-> u < exp (- ((b - a) + tinv * (cluster_weighted S1 R1 - cluster_weighted S0 R0))))).
Proof.
  intros H.
  destruct (ind_step_sound _ _ _ _ _ _ _ _ _ H)
    as (rows & rows' & Hx & Hn & Hy & La & _ & _ & _ & _ & _ & _ & Hu & _ & Hz & Hd).
  exists rows, rows'. repeat split; auto.
  intros j u a b S0 R0 S1 R1 U A B E0 F0 E1 F1.
  exists (acceptb u (alpha a b (cluster_weighted S0 R0) (cluster_weighted S1 R1) tinv)). split.
  - apply Hd; auto; unfold regul_mix; apply map2_nth; auto.
  - rewrite acceptb_true_iff, alpha_eq. reflexivity.
Qed.

Lemma mixture_weights : forall S, S <> [] ->
  length (resp_weights S) = length S /\ Forall (fun w => 0 < w) (resp_weights S) /\ sum_R (resp_weights S) = 1 /\
  (forall Rk lo hi, length S = length Rk -> Forall (fun x => lo <= x <= hi) Rk -> lo <= cluster_weighted S Rk <= hi) /\
  (forall s r, cluster_weighted [s] [r] = r).
Proof.
  intros S Hn. split; [apply resp_weights_length|]. split; [apply resp_weights_pos|]. split; [now apply resp_weights_sum|].
  split; [intros; now apply cluster_weighted_bounds | apply cluster_weighted_single].
Qed.

(** * Non-vacuity *)
Example ex_resp_two : resp_weights [0; 0] = [exp (Rmax (- 0) (-100)) / (exp (Rmax (- 0) (-100)) + (exp (Rmax (- 0) (-100)) + 0));
                                            exp (Rmax (- 0) (-100)) / (exp (Rmax (- 0) (-100)) + (exp (Rmax (- 0) (-100)) + 0))].
Proof. reflexivity. Qed.

Example ex_cluster_weighted_half : cluster_weighted [0; 0] [2; 4] = 3.
Proof.
  unfold cluster_weighted, resp_weights, resp_logit, sum_R. simpl.
  pose proof (exp_pos (Rmax (- 0) (-100))). field. lra.
Qed.

(** the responsibilities move with the state: same per-cluster terms, other summed terms, other regularity *)
Example ex_weights_matter : cluster_weighted [0; 0] [2; 4] <> cluster_weighted [0; 200] [2; 4].
Proof.
  rewrite ex_cluster_weighted_half.
  assert (B : 2 <= cluster_weighted [0; 200] [2; 4] <= 4).
  { apply cluster_weighted_bounds; [discriminate | reflexivity |]. repeat constructor; lra. }
  unfold cluster_weighted, resp_weights, resp_logit, sum_R in *. simpl in *.
  replace (Rmax (- 0) (-100)) with 0 in * by (rewrite Rmax_left; lra).
  assert (M : Rmax (Ropp 200) (-100) = -100) by (apply Rmax_right; lra).
  rewrite M in *. clear M.
  rewrite exp_0 in *.
  pose proof (exp_pos (-100)) as P.
  assert (L : exp (-100) < 1) by (rewrite <- exp_0; apply exp_increasing; lra).
  intros E. clear B.
  set (e := exp (-100)) in *.
  assert (Q : (1 / (1 + (e + 0)) * 2 + (e / (1 + (e + 0)) * 4 + 0)) * (1 + e) = 2 + 4 * e) by (field; lra).
  rewrite <- E in Q. lra.
Qed.

(** the hypothesis of [ind_step_mixture_sound] is met: a two-individual, two-cluster step runs *)
Example ex_ind_step_mixture_runs :
  exists y tp' acc,
    ind_step (fun _ => [0; 0]) (regul_mix (fun _ => [[0; 0]; [1; 2]]) (fun _ => [[1; 2]; [3; 4]])) (/ 2) [1; 2]
             (Nd [Sc 0; Sc 0]) (Build_tape [1; 2; 3] [/ 2; / 3; / 4]) = Some (y, tp', acc).
Proof.
  unfold ind_step, regul_mix. simpl.
  do 3 eexists. reflexivity.
Qed.
