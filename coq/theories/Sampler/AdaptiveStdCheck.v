(** C19 — checkers evaluated by the correspondence (vm_compute) for the adaptive proposal scale:
    the model (AdaptiveStd.v) is run on the acceptance history the real sampler was driven with and compared
    with what the sampler did.  Definitions only. *)
From Coq Require Import ZArith QArith Qabs Bool List.
From Leaspy Require Import Base.QAux Saem.Anneal Saem.AnnealFloat Sampler.AdaptiveStd.
Import ListNotations.

Fixpoint s_trace (c : scfg) (st : sstate) (rows : list (list bool)) : outcome sstate :=
  match rows with
  | [] => Outcome [] None
  | row :: r =>
      match sample_step c st row with
      | Err e => Outcome [] (Some e)
      | Ok st' => match s_trace c st' r with Outcome l f => Outcome (st' :: l) f end
      end
  end.

Definition s_run (c : scfg) (sf : Q) (scale : list Q) (rows : list (list bool)) : outcome sstate :=
  match init_sampler c sf scale with
  | Err e => Outcome [] (Some e)
  | Ok st => match s_trace c st rows with Outcome l f => Outcome (st :: l) f end
  end.

Definition rel_close (tol a b : Q) : bool := Qle_bool (Qabs (a - b)) (tol * Qabs b).

(** one step, one block: the scale changed in the model iff it changed in the implementation, and by the same ratio *)
Definition block_ok (tol : Q) (mp mc op oc : Q) : bool :=
  Bool.eqb (Qeq_bool mc mp) (Qeq_bool oc op) && rel_close tol (oc * mp) (mc * op).

Fixpoint steps_ok (tol : Q) (ms os : list (list Q)) : bool :=
  match ms, os with
  | mp :: ((mc :: _) as ms'), op :: ((oc :: _) as os') =>
      forall2b (fun m o => block_ok tol (fst m) (snd m) (fst o) (snd o)) (combine mp mc) (combine op oc)
      && (length mp =? length op)%nat && (length mc =? length oc)%nat && steps_ok tol ms' os'
  | [_], [_] => true
  | [], [] => true
  | _, _ => false
  end.

Definition last_state (l : list sstate) : option sstate := nth_error l (length l - 1).

(** observation: scales after the constructor and after each call reached (run-length encoded), class of the
    exception that stopped the run, final counter and final acceptance window *)
Definition sobs_t : Type := (list (list Q * nat) * option err * Z * list (list bool))%type.

Definition check_sampler (x : scfg * Q * list Q * list (list bool) * sobs_t) : bool :=
  match x with
  | (c, sf, scale, rows, (obs, fail, cnt, win)) =>
      match s_run c sf scale rows with
      | Outcome l f =>
          let os := unrle obs in
          err_eqb f fail &&
          match l, os with
          | [], [] => true
          | st0 :: _, o0 :: _ =>
              forall2b (fun m o => rel_close (1 # 1000000) o m) (std st0) o0 &&
              steps_ok (1 # 1000000) (map std l) os &&
              match last_state l with
              | Some s => (counter s =? cnt)%Z && forall2b (forall2b Bool.eqb) (window s) win
              | None => false
              end
          | _, _ => false
          end
      end
  end.
