(** C02 — the sampler steps of leaspy (src/leaspy/samplers/gibbs.py) as scripts over the model of [State]
    (State/StateModel.v): what they read, the proposal, the decision, the revert.  Definitions only; proofs in
    RevertScriptProofs.v.  (The C03 model Sampler/SamplerModel.v abstracts the state away — it works on the value
    of the sampled variable alone — so it cannot speak about what a rejection leaves in the cache; these
    scripts are the state-level counterpart of its [block_step] / [ind_step].)

    - [pop_block]   one iteration of the loop of AbstractPopulationGibbsSampler.sample (gibbs.py:299-331):
                    read nll_attach and nll_regul_<x>; state.put(x, change, indices=idx, accumulate=True); read
                    both again; Metropolis decision; [state.revert()] when NOT accepted.
    - [pop_step]    the loop over the blocks of the variable.
    - [ind_step]    IndividualGibbsSampler.sample (gibbs.py:712-758): read the per-individual terms;
                    state.put(x, change, accumulate=True); read again; per-individual decision;
                    [state.revert(~accepted)].
    The decision is ANY function of what was read ([decide]): the theorems hold for every acceptance pattern,
    whatever produced it (finite, infinite or NaN terms alike).  A read or a put that raises ends the step with
    the exception ([None]). *)
From Coq Require Import List Arith Bool.
From Leaspy Require Import State.StateModel State.StateProofs State.Revert.
Import ListNotations.
Set Implicit Arguments.

Section Script.
Variables V M IX : Type.
Variable g : graph V.
Variable sm : sem V M IX.
Variable fx : bool.

Definition is_ok (o : out V) : bool := match o with Ok _ => true | _ => false end.
Definition all_ok (os : list (out V)) : bool := forallb is_ok os.

Definition pop_block (decide : list (out V) -> list (out V) -> bool) (x : nat) (reads : list nat)
                     (st : state V) (blk : option IX * V) : state V * option bool :=
  let '(st1, prev) := get_list g st reads in
  if negb (all_ok prev) then (st1, None) else
  let '(st2, o) := put_state g sm fx st1 x (fst blk) (snd blk) true in
  match o with
  | Done =>
      let '(st3, new) := get_list g st2 reads in
      if negb (all_ok new) then (st3, None) else
      if decide prev new then (st3, Some true) else (fst (revert_state st3), Some false)
  | _ => (st2, None)
  end.

Fixpoint pop_step (decide : list (out V) -> list (out V) -> bool) (x : nat) (reads : list nat)
                  (st : state V) (blks : list (option IX * V)) : state V * list (option bool) :=
  match blks with
  | [] => (st, [])
  | b :: r =>
      let '(st1, a) := pop_block decide x reads st b in
      match a with
      | None => (st1, [None])
      | Some _ => let '(st2, accs) := pop_step decide x reads st1 r in (st2, a :: accs)
      end
  end.

(** the reference history: only the accepted proposals are made — no read, no revert; a rejected block only
    consumes the one-level undo log (as any [revert] does) *)
Fixpoint pop_accepted (x : nat) (st : state V) (blks : list (option IX * V)) (accs : list (option bool)) : state V :=
  match blks, accs with
  | b :: r, Some true :: accs' => pop_accepted x (fst (put_state g sm fx st x (fst b) (snd b) true)) r accs'
  | _ :: r, Some false :: accs' => pop_accepted x (forget_fork st) r accs'
  | _, _ => st
  end.

(** [decide] returns the mask handed to [revert]: True = rejected individual *)
Definition ind_step (decide : list (out V) -> list (out V) -> M) (x : nat) (reads : list nat)
                    (st : state V) (d : V) : state V * option M :=
  let '(st1, prev) := get_list g st reads in
  if negb (all_ok prev) then (st1, None) else
  let '(st2, o) := put_state g sm fx st1 x None d true in
  match o with
  | Done =>
      let '(st3, new) := get_list g st2 reads in
      if negb (all_ok new) then (st3, None) else
      let m := decide prev new in
      let '(st4, o') := revert_mask_state sm st3 m in
      match o' with Done => (st4, Some m) | _ => (st4, None) end
  | _ => (st2, None)
  end.

(** the same scripts as operation lists on state [k] of a store (what the harness replays) *)
Definition pop_block_ops (k x : nat) (reads : list nat) (blk : option IX * V) (accepted : bool) : list (op V M IX) :=
  map (Get k) reads ++ [Put k x (fst blk) (snd blk) true] ++ map (Get k) reads ++ (if accepted then [] else [Revert k]).

Definition ind_step_ops (k x : nat) (reads : list nat) (d : V) (m : M) : list (op V M IX) :=
  map (Get k) reads ++ [Put k x None d true] ++ map (Get k) reads ++ [RevertMask k m].

End Script.
