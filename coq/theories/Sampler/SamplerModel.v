(** C03 — model of one sampler step of leaspy (samplers/gibbs.py, samplers/base.py, variables/state.py::put)
    over an explicit tape of random draws.  Definitions only; proofs are in SamplerProofs.v, the tie to the
    definitions regenerated from the running code (gen/GenC03.v) in SamplerTie.v.

    What mirrors what:
    - [tens], [tget], [put_noise]       State.put(name, std[idx] * randn(shape[len(idx):]), indices=idx, accumulate=True)
                                        (state.py:450-489: `self[name] + value` when idx = (), else Tensor.index_put(accumulate=True))
    - [add_noise_rows]                  IndividualGibbsSampler._proposed_change (gibbs.py:659-677): std[:, None..] * randn((n, *shape))
    - [std_shape], [ndindex], [blocks]  shape_adapted_std of the three population kinds + _get_iterator_indices (gibbs.py:343-360, 456, 521, 566)
    - [alpha], [acceptb]                gibbs.py:321-327 / 748-754 and base.py:114, 142  (`torch.rand(..) < alpha`, drawn unconditionally)
    - [block_step], [pop_step]          AbstractPopulationGibbsSampler.sample (gibbs.py:281-335), one loop iteration / the loop
    - [ind_step]                        IndividualGibbsSampler.sample (gibbs.py:679-761)
    - [resp_weights], [cluster_weighted], [alpha_mix], [regul_mix]
                                        the cluster weighting of the mixture model in the same method (gibbs.py:721-744)
    Randomness is a tape: the list of values returned by torch.randn (flattened row-major, in call order)
    and by torch.rand.  That the former are N(0,1) and the latter U[0,1) is NOT modelled (trusted base). *)
From Coq Require Import Reals List Arith Bool.
Import ListNotations.

(** * Tensors: nested lists over a carrier [A] (R for the theorems, Q when the model is executed) *)
Inductive tens (A : Type) : Type :=
| Sc (x : A)
| Nd (l : list (tens A)).
Arguments Sc {A} x.
Arguments Nd {A} l.

Record tape (A : Type) : Type := { normals : list A; uniforms : list A }.
Arguments normals {A} t.
Arguments uniforms {A} t.
Arguments Build_tape {A} _ _.

Section Tensor.
  Context {A : Type}.

  Fixpoint flat (t : tens A) : list A :=
    match t with Sc x => [x] | Nd l => flat_map flat l end.

  Definition size (t : tens A) : nat := length (flat t).

  (** [has_shape s t]: [t] is a rectangular tensor of shape [s] *)
  Fixpoint has_shape (s : list nat) (t : tens A) : Prop :=
    match s with
    | [] => match t with Sc _ => True | Nd _ => False end
    | d :: r => match t with Nd l => length l = d /\ Forall (has_shape r) l | Sc _ => False end
    end.

  (** sub-tensor at a (partial) index; [None] = index out of range / too deep *)
  Fixpoint tget (t : tens A) (p : list nat) : option (tens A) :=
    match p with
    | [] => Some t
    | i :: r => match t with
                | Nd l => match nth_error l i with Some c => tget c r | None => None end
                | Sc _ => None
                end
    end.

  Fixpoint replace_nth (i : nat) (c : tens A) (l : list (tens A)) : list (tens A) :=
    match l, i with
    | [], _ => []
    | _ :: r, O => c :: r
    | a :: r, S j => a :: replace_nth j c r
    end.

  Variable add mul : A -> A -> A.

  (** every scalar of [t], in row-major order, receives [sd * z] with the next normal of the tape;
      [None] = tape exhausted *)
  Fixpoint add_noise (sd : A) (t : tens A) (zs : list A) : option (tens A * list A) :=
    match t with
    | Sc x => match zs with z :: r => Some (Sc (add x (mul sd z)), r) | [] => None end
    | Nd l =>
        match (fix go (l : list (tens A)) (zs : list A) : option (list (tens A) * list A) :=
                 match l with
                 | [] => Some ([], zs)
                 | c :: cs => match add_noise sd c zs with
                              | Some (c', zs1) => match go cs zs1 with
                                                  | Some (cs', zs2) => Some (c' :: cs', zs2)
                                                  | None => None
                                                  end
                              | None => None
                              end
                 end) l zs with
        | Some (l', zs') => Some (Nd l', zs')
        | None => None
        end
    end.

  (** the same loop, named (used in statements) *)
  Fixpoint add_noise_list (sd : A) (l : list (tens A)) (zs : list A) : option (list (tens A) * list A) :=
    match l with
    | [] => Some ([], zs)
    | c :: cs => match add_noise sd c zs with
                 | Some (c', zs1) => match add_noise_list sd cs zs1 with
                                     | Some (cs', zs2) => Some (c' :: cs', zs2)
                                     | None => None
                                     end
                 | None => None
                 end
    end.

  (** index_put(accumulate=True) of [sd * randn(shape[len idx:])] at the partial index [idx] *)
  Fixpoint put_noise (t : tens A) (idx : list nat) (sd : A) (zs : list A) : option (tens A * list A) :=
    match idx with
    | [] => add_noise sd t zs
    | i :: r => match t with
                | Nd l => match nth_error l i with
                          | Some c => match put_noise c r sd zs with
                                      | Some (c', zs') => Some (Nd (replace_nth i c' l), zs')
                                      | None => None
                                      end
                          | None => None
                          end
                | Sc _ => None
                end
    end.

  (** individual sampler: row [j] receives [sd_j * z_j.]; a std vector of the wrong length is an error *)
  Fixpoint add_noise_rows (sds : list A) (rows : list (tens A)) (zs : list A) : option (list (tens A) * list A) :=
    match sds, rows with
    | [], [] => Some ([], zs)
    | sd :: sds', r :: rows' =>
        match add_noise sd r zs with
        | Some (r', zs1) => match add_noise_rows sds' rows' zs1 with
                            | Some (rs', zs2) => Some (r' :: rs', zs2)
                            | None => None
                            end
        | None => None
        end
    | _, _ => None
    end.

  (** point-wise combination of flattened block and the normals used *)
  Fixpoint noise_flat (sd : A) (vs zs : list A) : list A :=
    match vs, zs with
    | v :: vs', z :: zs' => add v (mul sd z) :: noise_flat sd vs' zs'
    | _, _ => []
    end.
End Tensor.

(** * Block structure of the three population sampler kinds *)
Inductive kind := Gibbs | FastGibbs | MH.

Definition std_shape (k : kind) (shape : list nat) : list nat :=
  match k with Gibbs => shape | FastGibbs => firstn 1 shape | MH => [] end.

(** numpy.ndindex: all multi-indices of a shape, row-major *)
Fixpoint ndindex (shape : list nat) : list (list nat) :=
  match shape with
  | [] => [[]]
  | d :: r => flat_map (fun i => map (cons i) (ndindex r)) (seq 0 d)
  end.

Definition blocks (k : kind) (shape : list nat) : list (list nat) := ndindex (std_shape k shape).

Definition prodn (l : list nat) : nat := fold_right Nat.mul 1%nat l.

(** number of coordinates of the block addressed by [idx] in a variable of shape [shape] *)
Definition block_size (shape idx : list nat) : nat := prodn (skipn (length idx) shape).

(** draws consumed by one population step: (uniforms, normals) *)
Definition pop_draws (k : kind) (shape : list nat) : nat * nat :=
  (length (blocks k shape), fold_right Nat.add 0%nat (map (block_size shape) (blocks k shape))).

(** draws consumed by one individual step: one uniform per individual, one normal per coordinate *)
Definition ind_draws (n : nat) (shape : list nat) : nat * nat := (n, (n * prodn shape)%nat).

(** * Acceptance *)
Local Open Scope R_scope.

(** change of attachment plus inverse-temperature-weighted change of regularity *)
Definition Dval (pa na pr nr tinv : R) : R := (na - pa) + tinv * (nr - pr).
Definition alpha (pa na pr nr tinv : R) : R := exp (- Dval pa na pr nr tinv).
Definition acceptb (u a : R) : bool := if Rlt_dec u a then true else false.

Section PopStep.
  (** fresh values of [nll_attach] and [nll_regul_<var>] as functions of the value of the sampled variable,
      everything else in the state being fixed (what reading the state gives, by C01) *)
  Variables attach regul : tens R -> R.
  Variable tinv : R.
  Variable std : tens R.            (** tensor of shape [std_shape k shape] *)

  (** one iteration of the loop of AbstractPopulationGibbsSampler.sample;
      [None] = bad index or tape exhausted *)
  Definition block_step (idx : list nat) (x : tens R) (tp : tape R) : option (tens R * tape R * bool) :=
    match tget std idx with
    | Some (Sc sd) =>
        match put_noise Rplus Rmult x idx sd (normals tp) with
        | Some (x', zs') =>
            match uniforms tp with
            | u :: us =>
                let acc := acceptb u (alpha (attach x) (attach x') (regul x) (regul x') tinv) in
                Some (if acc then x' else x, Build_tape zs' us, acc)
            | [] => None
            end
        | None => None
        end
    | _ => None
    end.

  Fixpoint pop_step (order : list (list nat)) (x : tens R) (tp : tape R) : option (tens R * tape R * list bool) :=
    match order with
    | [] => Some (x, tp, [])
    | idx :: rest =>
        match block_step idx x tp with
        | Some (x1, tp1, a) =>
            match pop_step rest x1 tp1 with
            | Some (x2, tp2, accs) => Some (x2, tp2, a :: accs)
            | None => None
            end
        | None => None
        end
    end.
End PopStep.

Section IndStep.
  (** fresh per-individual values of [nll_attach_ind] and [nll_regul_<var>_ind] (for the mixture model:
      after the cluster weighting the code applies) as functions of the value of the sampled variable *)
  Variables attach_ind regul_ind : tens R -> list R.
  Variable tinv : R.

  Fixpoint alphas (pa na pr nr : list R) : option (list R) :=
    match pa, na, pr, nr with
    | [], [], [], [] => Some []
    | a :: pa', b :: na', c :: pr', d :: nr' =>
        match alphas pa' na' pr' nr' with
        | Some r => Some (alpha a b c d tinv :: r)
        | None => None
        end
    | _, _, _, _ => None
    end.

  (** _group_metropolis_step: one uniform per entry of alpha, always *)
  Fixpoint group_accept (al us : list R) : option (list bool * list R) :=
    match al with
    | [] => Some ([], us)
    | a :: al' =>
        match us with
        | u :: us' => match group_accept al' us' with
                      | Some (bs, r) => Some (acceptb u a :: bs, r)
                      | None => None
                      end
        | [] => None
        end
    end.

  Fixpoint mix_rows (acc : list bool) (old new : list (tens R)) : list (tens R) :=
    match acc, old, new with
    | b :: acc', o :: old', n :: new' => (if b then n else o) :: mix_rows acc' old' new'
    | _, _, _ => []
    end.

  Definition ind_step (sds : list R) (x : tens R) (tp : tape R) : option (tens R * tape R * list bool) :=
    match x with
    | Nd rows =>
        match add_noise_rows Rplus Rmult sds rows (normals tp) with
        | Some (rows', zs') =>
            match alphas (attach_ind x) (attach_ind (Nd rows')) (regul_ind x) (regul_ind (Nd rows')) with
            | Some al =>
                match group_accept al (uniforms tp) with
                | Some (acc, us') =>
                    if Nat.eqb (length acc) (length rows)
                    then Some (Nd (mix_rows acc rows rows'), Build_tape zs' us', acc)
                    else None
                | None => None
                end
            | None => None
            end
        | None => None
        end
    | Sc _ => None
    end.
End IndStep.

(** * Mixture model: cluster-weighted regularity of the individual step (gibbs.py:721-744)
    For the mixture model [nll_regul_<var>_ind] and [nll_regul_ind_sum_ind] have one column per cluster.  The code
    turns row [j] of the latter into responsibilities  w = Softmax(dim=1)(clamp(-S, min=-100))  and reads the
    regularity of individual [j] as  sum_k w_k * R_k  — once on the current state, once (responsibilities
    RE-EVALUATED) on the proposed state. *)
Definition sum_R (l : list R) : R := fold_right Rplus 0 l.

Definition resp_logit (s : R) : R := Rmax (- s) (-100).

Definition resp_weights (S : list R) : list R :=
  let e := map (fun s => exp (resp_logit s)) S in map (fun x => x / sum_R e) e.

Fixpoint dot (w r : list R) : R :=
  match w, r with
  | a :: w', b :: r' => a * b + dot w' r'
  | _, _ => 0
  end.

(** [S]: the K summed prior terms of one individual, [Rk]: the K prior terms of the sampled variable *)
Definition cluster_weighted (S Rk : list R) : R := dot (resp_weights S) Rk.

Definition alpha_mix (pa na : R) (S0 R0 S1 R1 : list R) (tinv : R) : R :=
  alpha pa na (cluster_weighted S0 R0) (cluster_weighted S1 R1) tinv.

Fixpoint map2 {X Y Z : Type} (f : X -> Y -> Z) (l : list X) (m : list Y) : list Z :=
  match l, m with
  | a :: l', b :: m' => f a b :: map2 f l' m'
  | _, _ => []
  end.

(** the per-individual regularity the mixture step reads, as a function of the value of the sampled variable:
    [Ssum x], [Rvar x] = fresh rows of nll_regul_ind_sum_ind / nll_regul_<var>_ind on the state holding [x] *)
Definition regul_mix (Ssum Rvar : tens R -> list (list R)) (x : tens R) : list R :=
  map2 cluster_weighted (Ssum x) (Rvar x).

(** * Graph facts (checked on the literals regenerated from the shipped model kinds) *)
From Coq Require Import String.
Local Open Scope string_scope.

Record latent_info := {
  lat_name : string;
  lat_is_ind : bool;
  lat_nll_desc : list string;      (** every node named nll_* among the descendants of the latent variable *)
}.

Record graph_info := {
  g_kind : string;
  g_latents : list latent_info;
  g_obs_attach : list string;      (** the attachment node of every observation model (summed over individuals) *)
  g_attach_anc : list string;      (** nll_* ancestors of the node the population samplers read for the attachment *)
  g_attach_ind_anc : list string;  (** nll_* ancestors of the node the individual sampler reads for the attachment *)
}.

Definition mem (s : string) (l : list string) : bool := existsb (String.eqb s) l.

Definition is_prefix (p s : string) : bool := String.prefix p s.

(** [n] is the prior term (summed or per individual) of latent [y] *)
Definition is_regul_of (y n : string) : bool :=
  String.eqb n ("nll_regul_" ++ y) || String.eqb n ("nll_regul_" ++ y ++ "_ind").

(** One latent variable [x] of one graph; [pop_attach], [ind_attach] = node names the samplers read
    (regenerated from the code), the regularity read being nll_regul_<x> (resp. nll_regul_<x>_ind).
    (1) no prior term of ANOTHER latent variable depends on [x];
    (2) every attachment-type node depending on [x] is one of the two nodes read or the term of an
        observation model (summed or per individual) — which [attach_complete] shows to be collected by the
        nodes read; an attachment-type node of any other name is refused;
    (3) the prior term read and the attachment read are among the descendants of [x]. *)
Definition latent_ok (pop_attach ind_attach : string) (g : graph_info) (x : latent_info) : bool :=
  let others := filter (fun y => negb (String.eqb (lat_name y) (lat_name x))) (g_latents g) in
  let read_attach := if lat_is_ind x then ind_attach else pop_attach in
  let family := pop_attach :: ind_attach :: g_obs_attach g ++ map (fun o => o ++ "_ind") (g_obs_attach g) in
  forallb (fun n => forallb (fun y => negb (is_regul_of (lat_name y) n)) others) (lat_nll_desc x)
  && forallb (fun n => negb (is_prefix "nll_attach" n) || mem n family) (lat_nll_desc x)
  && mem ("nll_regul_" ++ lat_name x ++ (if lat_is_ind x then "_ind" else "")) (lat_nll_desc x)
  && mem read_attach (lat_nll_desc x).

(** the attachment read collects ALL observation models *)
Definition attach_complete (pop_attach ind_attach : string) (g : graph_info) : bool :=
  forallb (fun o => String.eqb o pop_attach || mem o (g_attach_anc g)) (g_obs_attach g)
  && forallb (fun o => String.eqb (o ++ "_ind") ind_attach || mem (o ++ "_ind") (g_attach_ind_anc g)) (g_obs_attach g)
  && negb (Nat.eqb (List.length (g_obs_attach g)) 0).

Definition graph_ok (pop_attach ind_attach : string) (g : graph_info) : bool :=
  forallb (latent_ok pop_attach ind_attach g) (g_latents g) && attach_complete pop_attach ind_attach g
  && negb (Nat.eqb (List.length (g_latents g)) 0).
