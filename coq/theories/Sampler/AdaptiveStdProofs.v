(** C19 — proofs about the adaptive proposal scale (AdaptiveStd.v). *)
From Coq Require Import ZArith QArith Qabs Bool List Lia Lqa.
From Leaspy Require Import Base.QAux Saem.Anneal Saem.AnnealProofs Sampler.AdaptiveStd.
Import ListNotations.
Local Arguments Z.of_nat : simpl never.

(** ** Lists *)

Lemma skipn_skipn' {A} a b (l : list A) : skipn a (skipn b l) = skipn (b + a) l.
Proof.
  revert l. induction b as [|b IH]; intros l; [reflexivity|].
  destruct l as [|x l]; simpl; [now rewrite skipn_nil | apply IH].
Qed.

Lemma skipn_cons_inv {A} k (l : list A) x r : skipn k l = x :: r -> nth_error l k = Some x /\ skipn (S k) l = r.
Proof.
  revert l. induction k as [|k IH]; intros l H.
  - simpl in H. subst l. auto.
  - destruct l as [|y l]; [discriminate|]. simpl in H. apply IH in H. exact H.
Qed.

Definition lastn {A} (L : nat) (l : list A) : list A := skipn (length l - L) l.

Lemma lastn_push {A} L (H : list A) x : (1 <= L)%nat -> (L <= length H)%nat ->
  skipn 1 (lastn L H) ++ [x] = lastn L (H ++ [x]).
Proof.
  intros H1 H2. unfold lastn. rewrite skipn_skipn', app_length, skipn_app. simpl length.
  replace (length H + 1 - L - length H)%nat with 0%nat by lia. simpl skipn at 3.
  f_equal. f_equal. lia.
Qed.

Lemma lastn_length {A} L (l : list A) : (L <= length l)%nat -> length (lastn L l) = L.
Proof. intros H. unfold lastn. rewrite skipn_length. lia. Qed.

Lemma lastn_padded {A} L (pad a : list A) : length pad = L -> (L <= length a)%nat ->
  lastn L (pad ++ a) = skipn (length a - L) a.
Proof.
  intros Hp Ha. unfold lastn. rewrite app_length, skipn_app, Hp.
  rewrite skipn_all2 by lia. simpl. f_equal. lia.
Qed.

(** ** One block *)

Section Block.
  Variable c : scfg.
  Hypothesis Hb : bounds_refused (lo c) (hi c) = false.
  Hypothesis Hf : factor_refused (fac c) = false.

  Lemma bounds_facts : 0 < lo c /\ lo c < hi c /\ hi c < 1.
  Proof.
    unfold bounds_refused in Hb. apply negb_false_iff in Hb. apply andb_true_iff in Hb. destruct Hb as [H H3].
    apply andb_true_iff in H. destruct H as [H1 H2]. now rewrite !Qlt_bool_iff in *.
  Qed.

  Lemma factor_facts : 0 < fac c /\ fac c < 1.
  Proof.
    unfold factor_refused in Hf. apply negb_false_iff in Hf. apply andb_true_iff in Hf. destruct Hf as [H1 H2].
    now rewrite !Qlt_bool_iff in *.
  Qed.

  Lemma Qlt_bool_false x y : Qlt_bool x y = false <-> y <= x.
  Proof.
    split; intros H.
    - destruct (Qlt_le_dec x y) as [L|L]; [apply Qlt_bool_iff in L; congruence | exact L].
    - destruct (Qlt_bool x y) eqn:E; [apply Qlt_bool_iff in E; lra | reflexivity].
  Qed.

  Lemma adapt1_factor r s : adapt1 c r s == s * factor_of c r.
  Proof.
    pose proof bounds_facts as [_ [Hlh _]]. unfold adapt1, factor_of.
    destruct (Qlt_bool r (lo c)) eqn:E1; destruct (Qlt_bool (hi c) r) eqn:E2;
      rewrite ?Qlt_bool_iff, ?Qlt_bool_false in *; try lra; ring.
  Qed.

  Lemma factor_of_cases r :
    (r < lo c /\ factor_of c r = 1 - fac c) \/ (hi c < r /\ factor_of c r = 1 + fac c) \/
    (lo c <= r /\ r <= hi c /\ factor_of c r = 1).
  Proof.
    pose proof bounds_facts as [_ [Hlh _]]. unfold factor_of.
    destruct (Qlt_bool r (lo c)) eqn:E1; [left; rewrite Qlt_bool_iff in E1; auto|].
    destruct (Qlt_bool (hi c) r) eqn:E2; rewrite ?Qlt_bool_iff, ?Qlt_bool_false in *; [right; left; auto | right; right; auto].
  Qed.

  Lemma factor_of_iff r :
    (factor_of c r == 1 - fac c <-> r < lo c) /\ (factor_of c r == 1 + fac c <-> hi c < r) /\
    (factor_of c r == 1 <-> lo c <= r /\ r <= hi c).
  Proof.
    pose proof bounds_facts as [_ [Hlh _]]. pose proof factor_facts as [Hf0 _].
    destruct (factor_of_cases r) as [[H E]|[[H E]|[H1 [H2 E]]]]; rewrite E; repeat split; intros; try lra.
  Qed.

  Lemma factor_of_range r : 1 - fac c <= factor_of c r /\ factor_of c r <= 1 + fac c /\ 0 < factor_of c r.
  Proof.
    pose proof factor_facts as [Hf0 Hf1].
    destruct (factor_of_cases r) as [[_ E]|[[_ E]|[_ [_ E]]]]; rewrite E; repeat split; lra.
  Qed.

  Lemma adapt1_pos r s : 0 < s -> 0 < adapt1 c r s.
  Proof.
    intros Hs. rewrite adapt1_factor. apply Qmult_lt_0_compat; [exact Hs | apply factor_of_range].
  Qed.

  Lemma adapt1_envelope r s : 0 < s -> s * (1 - fac c) <= adapt1 c r s /\ adapt1 c r s <= s * (1 + fac c).
  Proof.
    intros Hs. rewrite adapt1_factor. pose proof (factor_of_range r) as [H1 [H2 _]]. split.
    - rewrite (Qmult_comm s), (Qmult_comm s). apply Qmult_le_compat_r; lra.
    - rewrite (Qmult_comm s), (Qmult_comm s (1 + fac c)). apply Qmult_le_compat_r; lra.
  Qed.
End Block.

(** ** All blocks *)

Lemma adapt_from_nth c w : forall sd j i,
  nth_error (adapt_from c w j sd) i = option_map (adapt1 c (rate w (j + i))) (nth_error sd i).
Proof.
  induction sd as [|s sd IH]; intros j i; simpl.
  - now destruct i.
  - destruct i as [|i]; simpl; [now rewrite Nat.add_0_r|]. rewrite IH. now replace (S j + i)%nat with (j + S i)%nat by lia.
Qed.

Lemma adapt_nth c w sd i : nth_error (adapt c w sd) i = option_map (adapt1 c (rate w i)) (nth_error sd i).
Proof. unfold adapt. now rewrite adapt_from_nth. Qed.

Lemma adapt_length c w sd : length (adapt c w sd) = length sd.
Proof. unfold adapt. generalize 0%nat. induction sd as [|s sd IH]; intros j; simpl; [reflexivity | now rewrite IH]. Qed.

(** ** One step *)

Definition due (c : scfg) (n : Z) : bool := (n mod hist_len c =? 0)%Z.

Lemma sample_step_inv c st row st' : sample_step c st row = Ok st' ->
  length row = length (std st) /\ hist_len c <> 0%Z /\
  counter st' = (counter st + 1)%Z /\ window st' = push (window st) row /\
  std st' = (if due c (counter st + 1) then adapt c (window st') (std st) else std st).
Proof.
  unfold sample_step, due. destruct (length row =? length (std st))%nat eqn:E; simpl; [|discriminate].
  apply Nat.eqb_eq in E. destruct (hist_len c =? 0)%Z eqn:E0; [discriminate|]. apply Z.eqb_neq in E0.
  destruct (_ mod _ =? 0)%Z; intros H; inversion H; subst; simpl; auto.
Qed.

Lemma sample_step_total c st row : length row = length (std st) -> hist_len c <> 0%Z ->
  exists st', sample_step c st row = Ok st'.
Proof.
  intros H1 H2. unfold sample_step. apply Nat.eqb_eq in H1. rewrite H1. simpl.
  apply Z.eqb_neq in H2. rewrite H2. destruct (_ mod _ =? 0)%Z; eauto.
Qed.

(** ** Runs: invariants indexed by the number of [sample()] calls *)

Lemma run_sampler_length c : forall rows st sts, run_sampler c st rows = Ok sts -> length sts = length rows.
Proof.
  induction rows as [|row rows IH]; intros st sts H; simpl in H.
  - now inversion H.
  - apply bind_ok in H. destruct H as [s1 [_ H]]. apply bind_ok in H. destruct H as [l [H1 H2]].
    inversion H2; subst. simpl. f_equal. eauto.
Qed.

Section Runs.
  Variable c : scfg.
  Variable ROWS : list (list bool).

  Lemma run_inv (P : nat -> sstate -> Prop) :
    (forall k s row s', P k s -> nth_error ROWS k = Some row -> sample_step c s row = Ok s' -> P (S k) s') ->
    forall rows k0 st sts, rows = skipn k0 ROWS -> P k0 st -> run_sampler c st rows = Ok sts ->
    forall i s, nth_error sts i = Some s -> P (k0 + S i)%nat s.
  Proof.
    intros Hstep. induction rows as [|row rows IH]; intros k0 st sts Hr HP H i s Hi; simpl in H.
    - inversion H; subst. destruct i; discriminate.
    - apply bind_ok in H. destruct H as [s1 [Hs1 H]]. apply bind_ok in H. destruct H as [l [H1 H2]].
      inversion H2; subst sts; clear H2. symmetry in Hr. apply skipn_cons_inv in Hr. destruct Hr as [Hn Hr].
      assert (P1 : P (S k0) s1) by (eapply Hstep; eauto).
      destruct i as [|i]; simpl in Hi.
      + inversion Hi; subst. now replace (k0 + 1)%nat with (S k0) by lia.
      + replace (k0 + S (S i))%nat with (S k0 + S i)%nat by lia. eapply IH; eauto.
  Qed.

  (** consecutive states are related by [sample_step] on the corresponding row *)
  Lemma run_steps : forall rows k0 st sts, rows = skipn k0 ROWS -> run_sampler c st rows = Ok sts ->
    forall i s s', nth_error (st :: sts) i = Some s -> nth_error (st :: sts) (S i) = Some s' ->
    exists row, nth_error ROWS (k0 + i) = Some row /\ sample_step c s row = Ok s'.
  Proof.
    induction rows as [|row rows IH]; intros k0 st sts Hr H i s s' Hi Hi'; simpl in H.
    - inversion H; subst. destruct i; discriminate.
    - apply bind_ok in H. destruct H as [s1 [Hs1 H]]. apply bind_ok in H. destruct H as [l [H1 H2]].
      inversion H2; subst sts; clear H2. symmetry in Hr. apply skipn_cons_inv in Hr. destruct Hr as [Hn Hr].
      destruct i as [|i].
      + simpl in Hi, Hi'. inversion Hi; inversion Hi'; subst. exists row. rewrite Nat.add_0_r. auto.
      + replace (k0 + S i)%nat with (S k0 + i)%nat by lia. eapply (IH (S k0) s1 l); eauto.
  Qed.

  Variables (st0 : sstate) (sts : list sstate).
  Hypothesis Hrun : run_sampler c st0 ROWS = Ok sts.

  Lemma all_states (P : nat -> sstate -> Prop) :
    (forall k s row s', P k s -> nth_error ROWS k = Some row -> sample_step c s row = Ok s' -> P (S k) s') ->
    P 0%nat st0 -> forall k s, nth_error (st0 :: sts) k = Some s -> P k s.
  Proof.
    intros Hstep H0 k s Hk. destruct k as [|k]; simpl in Hk.
    - now inversion Hk; subst.
    - change (S k) with (0 + S k)%nat. eapply (run_inv P Hstep ROWS 0%nat st0 sts); eauto.
  Qed.

  Lemma steps k s s' : nth_error (st0 :: sts) k = Some s -> nth_error (st0 :: sts) (S k) = Some s' ->
    exists row, nth_error ROWS k = Some row /\ sample_step c s row = Ok s'.
  Proof. intros H H'. exact (run_steps ROWS 0%nat st0 sts eq_refl Hrun k s s' H H'). Qed.

  Lemma counter_at k s : nth_error (st0 :: sts) k = Some s -> counter s = (counter st0 + Z.of_nat k)%Z.
  Proof.
    apply (all_states (fun k s => counter s = (counter st0 + Z.of_nat k)%Z)).
    - intros j s1 row s2 H _ Hs. apply sample_step_inv in Hs. destruct Hs as [_ [_ [Hc _]]]. rewrite Hc, H. lia.
    - change (Z.of_nat 0) with 0%Z. lia.
  Qed.

  Lemma blocks_at k s : nth_error (st0 :: sts) k = Some s -> length (std s) = length (std st0).
  Proof.
    apply (all_states (fun _ s => length (std s) = length (std st0))); [|reflexivity].
    intros j s1 row s2 H _ Hs. apply sample_step_inv in Hs. destruct Hs as [_ [_ [_ [_ Hstd]]]]. rewrite Hstd.
    destruct (due _ _); [now rewrite adapt_length | exact H].
  Qed.

  (** the window is the last L rows of the history, padded on the left by the initial window *)
  Lemma window_at L past : (1 <= L)%nat -> (L <= length past)%nat -> window st0 = lastn L past ->
    forall k s, nth_error (st0 :: sts) k = Some s -> window s = lastn L (past ++ firstn k ROWS).
  Proof.
    intros HL Hp H0.
    apply (all_states (fun k s => (k <= length ROWS)%nat /\ window s = lastn L (past ++ firstn k ROWS))).
    - intros j s1 row s2 [Hj H] Hrow Hs. apply sample_step_inv in Hs. destruct Hs as [_ [_ [_ [Hw _]]]].
      assert (Hlt : (j < length ROWS)%nat) by (apply nth_error_Some; congruence).
      split; [lia|]. rewrite Hw, H. unfold push. rewrite lastn_push; [|lia|rewrite app_length; lia].
      rewrite <- app_assoc. f_equal. f_equal.
      rewrite <- (firstn_skipn j ROWS) at 2. rewrite firstn_app, firstn_firstn.
      rewrite firstn_length_le by lia. replace (Nat.min (S j) j) with j by lia. f_equal.
      replace (S j - j)%nat with 1%nat by lia.
      destruct (skipn j ROWS) as [|x r] eqn:E.
      + exfalso. assert (length (skipn j ROWS) = 0%nat) by now rewrite E. rewrite skipn_length in H1. lia.
      + apply skipn_cons_inv in E. destruct E as [E _]. rewrite Hrow in E. inversion E; subst. reflexivity.
    - split; [lia|]. simpl. now rewrite app_nil_r.
  Qed.

  Lemma positive_at : bounds_refused (lo c) (hi c) = false -> factor_refused (fac c) = false ->
    Forall (fun x => 0 < x) (std st0) ->
    forall k s, nth_error (st0 :: sts) k = Some s -> Forall (fun x => 0 < x) (std s).
  Proof.
    intros Hb Hf H0. apply (all_states (fun _ s => Forall (fun x => 0 < x) (std s))); [|exact H0].
    intros j s1 row s2 H _ Hs. apply sample_step_inv in Hs. destruct Hs as [_ [_ [_ [_ Hstd]]]]. rewrite Hstd.
    destruct (due _ _); [|exact H]. apply Forall_forall. intros x Hin. apply In_nth_error in Hin. destruct Hin as [i Hi].
    rewrite adapt_nth in Hi. destruct (nth_error (std s1) i) as [y|] eqn:E; [|discriminate]. inversion Hi; subst.
    apply adapt1_pos; auto. rewrite Forall_forall in H. apply H. eapply nth_error_In; eauto.
  Qed.
End Runs.

(** ** From the constructor, over any acceptance history *)

Lemma init_sampler_inv c sf scale st0 : init_sampler c sf scale = Ok st0 ->
  (0 <= hist_len c)%Z /\ scale_refused scale = false /\ bounds_refused (lo c) (hi c) = false /\
  factor_refused (fac c) = false /\
  st0 = {| counter := 0; window := repeat (repeat false (length scale)) (Z.to_nat (hist_len c));
           std := map (fun s => sf * s) scale |}.
Proof.
  unfold init_sampler. destruct (hist_len c <? 0)%Z eqn:E; [discriminate|]. apply Z.ltb_ge in E.
  destruct (scale_refused scale); [discriminate|]. destruct (bounds_refused _ _); [discriminate|].
  destruct (factor_refused _); [discriminate|]. intros H. inversion H. auto.
Qed.

Lemma scale_positive scale : scale_refused scale = false -> Forall (fun x => 0 < x) scale.
Proof.
  unfold scale_refused. induction scale as [|x l IH]; simpl; intros H; [constructor|].
  apply orb_false_iff in H. destruct H as [H1 H2]. constructor; [|auto].
  destruct (Qlt_le_dec 0 x) as [L|L]; [exact L|]. apply Qle_bool_iff in L. congruence.
Qed.

Lemma Qpow_pos x n : 0 < x -> 0 < Qpow x n.
Proof. intros H. induction n; simpl; [reflexivity | now apply Qmult_lt_0_compat]. Qed.

Lemma map_scale_pos sf l : 0 < sf -> Forall (fun x => 0 < x) l -> Forall (fun x => 0 < x) (map (fun s => sf * s) l).
Proof. intros Hsf H. induction H as [|x l Hx Hl IH]; simpl; constructor; [now apply Qmult_lt_0_compat | exact IH]. Qed.

Section FromInit.
  Variables (c : scfg) (sf : Q) (scale : list Q) (rows : list (list bool)) (st0 : sstate) (sts : list sstate).
  Hypothesis Hinit : init_sampler c sf scale = Ok st0.
  Hypothesis Hsf : 0 < sf.
  Hypothesis Hrun : run_sampler c st0 rows = Ok sts.

  Let L : nat := Z.to_nat (hist_len c).

  Lemma init_std_positive : Forall (fun x => 0 < x) (std st0).
  Proof.
    destruct (init_sampler_inv _ _ _ _ Hinit) as [_ [Hs [_ [_ ->]]]]. simpl.
    apply map_scale_pos; [exact Hsf | now apply scale_positive].
  Qed.

  (** C19_std_positive *)
  Lemma std_positive k s : nth_error (st0 :: sts) k = Some s -> Forall (fun x => 0 < x) (std s).
  Proof.
    destruct (init_sampler_inv _ _ _ _ Hinit) as [_ [_ [Hb [Hf _]]]].
    eapply positive_at; eauto. apply init_std_positive.
  Qed.

  Lemma counter_is_index k s : nth_error (st0 :: sts) k = Some s -> counter s = Z.of_nat k.
  Proof.
    intros H. rewrite (counter_at c rows st0 sts Hrun k s H).
    destruct (init_sampler_inv _ _ _ _ Hinit) as [_ [_ [_ [_ ->]]]]. simpl. lia.
  Qed.

  (** C19_std_changes_only_at_multiples_of_L *)
  Lemma std_changes_only_at_multiples k s s' :
    nth_error (st0 :: sts) k = Some s -> nth_error (st0 :: sts) (S k) = Some s' -> std s' <> std s ->
    (Z.of_nat (S k) mod hist_len c = 0)%Z.
  Proof.
    intros H H' Hne. destruct (steps c rows st0 sts Hrun k s s' H H') as [row [_ Hs]].
    apply sample_step_inv in Hs. destruct Hs as [_ [_ [_ [_ Hstd]]]].
    rewrite (counter_is_index k s H) in Hstd. unfold due in Hstd.
    replace (Z.of_nat k + 1)%Z with (Z.of_nat (S k)) in Hstd by lia.
    destruct (_ mod _ =? 0)%Z eqn:E; [now apply Z.eqb_eq in E | congruence].
  Qed.

  Lemma step_exists_L k s' : nth_error (st0 :: sts) (S k) = Some s' -> (1 <= hist_len c)%Z /\ (S k <= length rows)%nat.
  Proof.
    intros H'. assert (Hlen : length sts = length rows) by (eapply run_sampler_length; eauto).
    assert (Hk : (S k < length (st0 :: sts))%nat) by (apply nth_error_Some; congruence). simpl in Hk.
    destruct (nth_error (st0 :: sts) k) as [s|] eqn:H; [|apply nth_error_None in H; simpl in H; lia].
    destruct (steps c rows st0 sts Hrun k s s' H H') as [row [_ Hs]].
    apply sample_step_inv in Hs. destruct Hs as [_ [Hne _]].
    destruct (init_sampler_inv _ _ _ _ Hinit) as [H0 _]. split; lia.
  Qed.

  (** C19_std_factor: at a multiple of L every block is multiplied by exactly the factor prescribed by its
      acceptance rate over exactly the last L rows of the history; otherwise nothing changes *)
  Lemma std_factor k s s' :
    nth_error (st0 :: sts) k = Some s -> nth_error (st0 :: sts) (S k) = Some s' ->
    ((Z.of_nat (S k) mod hist_len c <> 0)%Z -> std s' = std s) /\
    ((Z.of_nat (S k) mod hist_len c = 0)%Z ->
       length (last_rows L (S k) rows) = L /\
       forall j x, nth_error (std s) j = Some x ->
         exists x', nth_error (std s') j = Some x' /\ x' == x * factor_of c (rate (last_rows L (S k) rows) j)).
  Proof.
    intros H H'. destruct (steps c rows st0 sts Hrun k s s' H H') as [row [Hrow Hs]].
    apply sample_step_inv in Hs. destruct Hs as [_ [_ [_ [_ Hstd]]]].
    rewrite (counter_is_index k s H) in Hstd. unfold due in Hstd.
    replace (Z.of_nat k + 1)%Z with (Z.of_nat (S k)) in Hstd by lia.
    destruct (step_exists_L k s' H') as [HL Hk].
    destruct (init_sampler_inv _ _ _ _ Hinit) as [_ [_ [Hb [Hf E0]]]].
    split; intros Hm.
    - apply Z.eqb_neq in Hm. now rewrite Hm in Hstd.
    - assert (HkL : (L <= S k)%nat).
      { unfold L. destruct (Z_lt_le_dec (Z.of_nat (S k)) (hist_len c)) as [Hlt|Hge]; [|lia].
        rewrite Z.mod_small in Hm by lia. lia. }
      assert (Hw : window s' = last_rows L (S k) rows).
      { rewrite (window_at c rows st0 sts Hrun L (repeat (repeat false (length scale)) L)) with (k := S k) (s := s'); auto.
        - unfold last_rows. rewrite lastn_padded; [|apply repeat_length | rewrite firstn_length_le; lia].
          now rewrite firstn_length_le by lia.
        - unfold L; lia.
        - rewrite repeat_length; lia.
        - rewrite E0. simpl. unfold lastn. rewrite repeat_length. fold L. now rewrite Nat.sub_diag. }
      split.
      + unfold last_rows. rewrite skipn_length, firstn_length_le by lia. lia.
      + intros j x Hx. apply Z.eqb_eq in Hm. rewrite Hm in Hstd. rewrite Hstd, adapt_nth, Hx, Hw. simpl.
        eexists. split; [reflexivity|]. now apply adapt1_factor.
  Qed.

  (** explicit envelope: after k steps at most k/L adaptations took place, each by a factor in [1-f, 1+f] *)
  Lemma std_envelope k s : nth_error (st0 :: sts) k = Some s ->
    forall j x0 x, nth_error (std st0) j = Some x0 -> nth_error (std s) j = Some x ->
    let a := Z.to_nat (Z.of_nat k / hist_len c) in
    x0 * Qpow (1 - fac c) a <= x /\ x <= x0 * Qpow (1 + fac c) a.
  Proof.
    destruct (init_sampler_inv _ _ _ _ Hinit) as [HL0 [_ [Hb [Hf _]]]].
    pose proof (factor_facts c Hf) as [Hf0 Hf1].
    revert k s.
    apply (all_states c rows st0 sts Hrun (fun k s =>
      counter s = Z.of_nat k /\ Forall (fun x => 0 < x) (std s) /\
      forall j x0 x, nth_error (std st0) j = Some x0 -> nth_error (std s) j = Some x ->
      x0 * Qpow (1 - fac c) (Z.to_nat (Z.of_nat k / hist_len c)) <= x /\
      x <= x0 * Qpow (1 + fac c) (Z.to_nat (Z.of_nat k / hist_len c)))).
    - intros k s row s' [Hc [Hpos IH]] _ Hs. pose proof Hs as Hs0.
      apply sample_step_inv in Hs. destruct Hs as [_ [HLne [Hc' [_ Hstd]]]].
      assert (HL : (1 <= hist_len c)%Z) by lia.
      split; [rewrite Hc', Hc; lia|]. rewrite Hc in Hstd. unfold due in Hstd.
      replace (Z.of_nat k + 1)%Z with (Z.of_nat (S k)) in Hstd by lia.
      destruct (_ mod _ =? 0)%Z eqn:E.
      + apply Z.eqb_eq in E. split.
        { rewrite Hstd. apply Forall_forall. intros x Hin. apply In_nth_error in Hin. destruct Hin as [i Hi].
          rewrite adapt_nth in Hi. destruct (nth_error (std s) i) as [y|] eqn:Ey; [|discriminate]. inversion Hi; subst.
          apply adapt1_pos; auto. rewrite Forall_forall in Hpos. apply Hpos. eapply nth_error_In; eauto. }
        intros j x0 x Hx0 Hx. rewrite Hstd, adapt_nth in Hx.
        destruct (nth_error (std s) j) as [y|] eqn:Ey; [|discriminate]. simpl in Hx. inversion Hx; subst x; clear Hx.
        destruct (IH j x0 y Hx0 Ey) as [I1 I2].
        assert (Hy : 0 < y) by (rewrite Forall_forall in Hpos; apply Hpos; eapply nth_error_In; eauto).
        destruct (adapt1_envelope c Hb Hf (rate (window s') j) y Hy) as [A1 A2].
        rewrite (div_succ_boundary (hist_len c) (Z.of_nat (S k))) by lia.
        replace (Z.of_nat (S k) - 1)%Z with (Z.of_nat k) by lia.
        rewrite Z2Nat.inj_add by (try lia; apply Z.div_pos; lia). rewrite Nat.add_1_r. simpl Qpow.
        split.
        * eapply Qle_trans; [|exact A1].
          setoid_replace (x0 * ((1 - fac c) * Qpow (1 - fac c) (Z.to_nat (Z.of_nat k / hist_len c))))
            with (x0 * Qpow (1 - fac c) (Z.to_nat (Z.of_nat k / hist_len c)) * (1 - fac c)) by ring.
          apply Qmult_le_compat_r; [exact I1 | lra].
        * eapply Qle_trans; [exact A2|].
          setoid_replace (x0 * ((1 + fac c) * Qpow (1 + fac c) (Z.to_nat (Z.of_nat k / hist_len c))))
            with (x0 * Qpow (1 + fac c) (Z.to_nat (Z.of_nat k / hist_len c)) * (1 + fac c)) by ring.
          apply Qmult_le_compat_r; [exact I2 | lra].
      + apply Z.eqb_neq in E. rewrite Hstd. split; [exact Hpos|].
        rewrite (div_succ_inside (hist_len c) (Z.of_nat (S k))) by lia.
        replace (Z.of_nat (S k) - 1)%Z with (Z.of_nat k) by lia. exact IH.
    - split; [|split].
      + destruct (init_sampler_inv _ _ _ _ Hinit) as [_ [_ [_ [_ ->]]]]. reflexivity.
      + apply init_std_positive.
      + intros j x0 x H1 H2. rewrite H1 in H2. inversion H2; subst. change (Z.of_nat 0) with 0%Z.
        rewrite Zdiv_0_l. simpl. split; ring_simplify; apply Qle_refl.
  Qed.

  (** the rate is a fraction of the window: between 0 and 1 *)
End FromInit.

(** a well-shaped history never fails once the window length is >= 1 *)
Lemma run_sampler_total c : (1 <= hist_len c)%Z -> forall rows st,
  Forall (fun row => length row = length (std st)) rows -> exists sts, run_sampler c st rows = Ok sts.
Proof.
  intros HL. induction rows as [|row rows IH]; intros st Hrows; simpl; [eauto|].
  inversion Hrows as [|? ? H1 H2]; subst.
  destruct (sample_step_total c st row H1 ltac:(lia)) as [st' Hs]. rewrite Hs. simpl.
  destruct (IH st') as [sts Hsts].
  - apply sample_step_inv in Hs. destruct Hs as [_ [_ [_ [_ Hstd]]]].
    assert (E : length (std st') = length (std st)) by (rewrite Hstd; destruct (due _ _); [apply adapt_length | reflexivity]).
    rewrite E. exact H2.
  - rewrite Hsts. simpl. eauto.
Qed.

Lemma filter_length_le' {A} (f : A -> bool) l : (length (filter f l) <= length l)%nat.
Proof. induction l as [|x l IH]; simpl; [lia|]. destruct (f x); simpl; lia. Qed.

Lemma rate_range w j : w <> [] -> 0 <= rate w j /\ rate w j <= 1.
Proof.
  intros Hw. unfold rate, count_true, column.
  assert (Hlen : (length (filter (fun b : bool => b) (map (fun row => nth j row false) w)) <= length w)%nat).
  { rewrite <- (map_length (fun row => nth j row false) w). apply filter_length_le'. }
  assert (Hpos : 0 < inject_Z (Z.of_nat (length w))).
  { change 0 with (inject_Z 0). rewrite <- Zlt_Qlt. destruct w; [congruence | simpl; lia]. }
  split.
  - apply Qle_shift_div_l; [exact Hpos|]. rewrite Qmult_0_l. change 0 with (inject_Z 0). rewrite <- Zle_Qle. lia.
  - apply Qle_shift_div_r; [exact Hpos|]. rewrite Qmult_1_l. rewrite <- Zle_Qle. lia.
Qed.

(** ** Witnesses *)

Example sampler_example :
  let c := {| hist_len := 2; lo := 1 # 5; hi := 2 # 5; fac := 1 # 10 |} in
  bind (init_sampler c (1 # 2) [1; 2]) (fun st0 =>
  bind (run_sampler c st0 [[true; false]; [true; false]; [false; false]; [true; false]]) (fun sts =>
  Ok (map (fun s => map Qred (std s)) sts)))
  = Ok [[1 # 2; 1]; [11 # 20; 9 # 10]; [11 # 20; 9 # 10]; [121 # 200; 81 # 100]].
Proof. vm_compute. reflexivity. Qed.

(** a window length of 0 passes the constructor and fails at the first step (documented domain is > 0) *)
Example zero_window :
  let c := {| hist_len := 0; lo := 1 # 5; hi := 2 # 5; fac := 1 # 10 |} in
  exists st0, init_sampler c (1 # 2) [1] = Ok st0 /\ run_sampler c st0 [[true]] = Err Crash.
Proof. eexists. split; vm_compute; reflexivity. Qed.
